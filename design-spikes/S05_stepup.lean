/-
Spike for C10: Hochberg / Benjamini step-up loop (as in `_hochberg_stepup`) versus the
textbook step-up rule, for ALL lists of p-values (ties included).
Input list is already sorted in DESCENDING order; `thr i` is the threshold (alpha_adj before the
sticky max) of the i-th element of that list, `raw i` its raw adjusted p-value.
-/
import Mathlib.Algebra.Order.Field.Basic
import Mathlib.Tactic.Linarith
import Mathlib.Data.List.Pairwise

variable {α : Type} [Field α] [LinearOrder α] [IsStrictOrderedRing α]

structure Out (α : Type) where
  padj : α
  alphaAdj : α
  rej : Bool

/-- the loop: state = (running min of padj, sticky threshold, 0 = unset) -/
def stepupAux : List (α × α × α) → α → α → List (Out α)
  | [], _, _ => []
  | (p, raw, thr) :: rest, pm, am =>
    let am' := if am = 0 ∧ p ≤ thr then thr else am
    let aa := max thr am'
    let pa := min raw pm
    ⟨pa, aa, decide (p ≤ aa)⟩ :: stepupAux rest pa am'

/-- textbook step-up rule on a descending list: an element is rejected iff it or some
    EARLIER (= larger) element passes its own threshold -/
def specRej : List (α × α × α) → Bool → List Bool
  | [], _ => []
  | (p, _, thr) :: rest, seen =>
    let seen' := seen || decide (p ≤ thr)
    seen' :: specRej rest seen'

/-- well-formedness: thresholds positive; along the (descending) list p-values and thresholds
    are non-increasing -/
def WF (l : List (α × α × α)) : Prop :=
  (∀ x ∈ l, 0 < x.2.2) ∧ l.Pairwise (fun x y => y.1 ≤ x.1 ∧ y.2.2 ≤ x.2.2)

omit [IsStrictOrderedRing α] in
theorem wf_tail {x : α × α × α} {l : List (α × α × α)} (h : WF (x :: l)) : WF l :=
  ⟨fun y hy => h.1 y (List.mem_cons_of_mem _ hy), (List.pairwise_cons.mp h.2).2⟩

/-- invariant form: `am` is either 0 (nothing rejected yet) or a positive threshold that
    dominates every remaining p-value and threshold. -/
theorem stepupAux_rej (l : List (α × α × α)) (pm am : α) (seen : Bool) (hwf : WF l)
    (hinv : (seen = false ∧ am = 0) ∨ (seen = true ∧ 0 < am ∧ ∀ x ∈ l, x.1 ≤ am ∧ x.2.2 ≤ am)) :
    (stepupAux l pm am).map Out.rej = specRej l seen := by
  induction l generalizing pm am seen with
  | nil => rfl
  | cons x rest ih =>
    obtain ⟨p, raw, thr⟩ := x
    have hpos : 0 < thr := hwf.1 (p, raw, thr) List.mem_cons_self
    have hlater := (List.pairwise_cons.mp hwf.2).1
    have hwf' := wf_tail hwf
    simp only [stepupAux, specRej, List.map_cons, List.cons.injEq]
    rcases hinv with ⟨hs, ham⟩ | ⟨hs, hampos, hall⟩
    · subst hs; subst ham
      by_cases hp : p ≤ thr
      · simp only [hp, and_self, if_true, max_self, Bool.false_or, decide_true, true_and]
        apply ih _ _ _ hwf'
        right
        exact ⟨rfl, hpos, fun y hy => ⟨le_trans (hlater y hy).1 hp, (hlater y hy).2⟩⟩
      · have hmax : max thr (0:α) = thr := max_eq_left (le_of_lt hpos)
        simp only [hp, and_false, if_false, Bool.false_or, decide_false, hmax, true_and]
        exact ih _ _ _ hwf' (Or.inl ⟨rfl, rfl⟩)
    · subst hs
      have hne : am ≠ 0 := ne_of_gt hampos
      have hx := hall (p, raw, thr) List.mem_cons_self
      have : p ≤ max thr am := le_trans hx.1 (le_max_right _ _)
      simp only [hne, false_and, if_false, Bool.true_or, this, decide_true, true_and]
      apply ih _ _ _ hwf'
      right
      exact ⟨rfl, hampos, fun y hy => hall y (List.mem_cons_of_mem _ hy)⟩

/-- top level: the loop started as in the code (`pvalue_adj_max = 1`, `alpha_adj_min = 0`) -/
theorem stepup_rej (l : List (α × α × α)) (hwf : WF l) :
    (stepupAux l 1 0).map Out.rej = specRej l false :=
  stepupAux_rej l 1 0 false hwf (Or.inl ⟨rfl, rfl⟩)
