/-
Spike for C16: decimal rounding (half-even on the exact value, as CPython's `round(x, p)` and
`format(x, ".pf")` do) and the significant-digit error bound of `format_num`.
-/
import Mathlib.Algebra.Order.Floor.Ring
import Mathlib.Algebra.Order.Ring.Rat
import Mathlib.Data.Rat.Floor
import Mathlib.Tactic.Linarith
import Mathlib.Tactic.Positivity
import Mathlib.Tactic.FieldSimp
import Mathlib.Tactic.Ring

def roundHE (q : ℚ) : ℤ :=
  let f := ⌊q⌋
  let r := q - f
  if r < 1/2 then f else if 1/2 < r then f + 1 else if f % 2 = 0 then f else f + 1

theorem roundHE_err (q : ℚ) : |(roundHE q : ℚ) - q| ≤ 1/2 := by
  unfold roundHE
  have h0 : (⌊q⌋ : ℚ) ≤ q := Int.floor_le q
  have h1 : q < ⌊q⌋ + 1 := Int.lt_floor_add_one q
  simp only
  split_ifs with ha hb hc
  · rw [abs_le]; constructor <;> linarith
  · rw [abs_le]; push_cast; constructor <;> linarith
  · rw [abs_le]; constructor <;> linarith
  · rw [abs_le]; push_cast; constructor <;> linarith

/-- value rounded to `p` decimals -/
def roundDec (q : ℚ) (p : ℕ) : ℚ := (roundHE (q * 10 ^ p) : ℚ) / 10 ^ p

theorem roundDec_err (q : ℚ) (p : ℕ) : |roundDec q p - q| ≤ 1 / (2 * 10 ^ p) := by
  unfold roundDec
  have hp : (0:ℚ) < 10 ^ p := by positivity
  have h := roundHE_err (q * 10 ^ p)
  have : (roundHE (q * 10 ^ p) : ℚ) / 10 ^ p - q = ((roundHE (q * 10 ^ p) : ℚ) - q * 10 ^ p) / 10 ^ p := by
    field_simp
  rw [this, abs_div, abs_of_pos hp, div_le_div_iff₀ hp (by positivity)]
  calc |(roundHE (q * 10 ^ p) : ℚ) - q * 10 ^ p| * (2 * 10 ^ p)
      ≤ 1/2 * (2 * 10 ^ p) := by gcongr
    _ = 1 * 10 ^ p := by ring

/-- the `format_num` bound in the fixed-point branch with non-negative precision:
    `10^e ≤ |v|`, `p = s - 1 - e ≥ 0` decimals  ⇒  relative error ≤ ½·10^(1-s). -/
theorem sig_digits_bound (v : ℚ) (s : ℕ) (e : ℤ) (p : ℕ) (hp : (p : ℤ) = s - 1 - e)
    (he : (10:ℚ) ^ e ≤ |v|) :
    |roundDec v p - v| ≤ 1/2 * (10:ℚ) ^ ((1:ℤ) - s) * |v| := by
  have h := roundDec_err v p
  have h10 : (0:ℚ) < 10 := by norm_num
  have e1 : (1:ℚ) / (2 * 10 ^ p) = 1/2 * (10:ℚ) ^ ((1:ℤ) - s) * (10:ℚ) ^ e := by
    have : ((1:ℤ) - s) + e = -(p:ℤ) := by omega
    rw [mul_assoc, ← zpow_add₀ (ne_of_gt h10), this, zpow_neg, zpow_natCast]
    field_simp
  rw [e1] at h
  refine le_trans h ?_
  have : (0:ℚ) ≤ 1/2 * (10:ℚ) ^ ((1:ℤ) - s) :=
    mul_nonneg (by norm_num) (le_of_lt (zpow_pos h10 _))
  exact mul_le_mul_of_nonneg_left he this
