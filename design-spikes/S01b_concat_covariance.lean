import Mathlib.Tactic.FieldSimp
import Mathlib.Tactic.Ring
import Mathlib.Tactic.Linarith
import Mathlib.Algebra.Order.Field.Basic
import Mathlib.Algebra.BigOperators.Group.List.Basic
import Mathlib.Data.Rat.Defs

variable {α : Type} [Field α]

/-- rows: list of pairs (x,y) -/
def sm (l : List α) : α := l.sum / l.length
def scov (l : List (α × α)) : α :=
  (l.map (fun p => (p.1 - sm (l.map Prod.fst)) * (p.2 - sm (l.map Prod.snd)))).sum / (l.length - 1)

def addMean (n1 m1 n2 m2 : α) : α := (n1*m1 + n2*m2)/(n1+n2)
def addCov (n1 mx1 my1 c1 n2 mx2 my2 c2 : α) : α :=
  (c1*(n1-1) + c2*(n2-1) + (mx1-mx2)*(my1-my2)*n1*n2/(n1+n2))/(n1+n2-1)

theorem sum_centered (l : List (α × α)) (a b : α) :
    (l.map (fun p => (p.1 - a) * (p.2 - b))).sum
      = (l.map (fun p => p.1 * p.2)).sum - b * (l.map Prod.fst).sum - a * (l.map Prod.snd).sum
        + (l.length : α) * a * b := by
  induction l with
  | nil => simp
  | cons p l ih => simp only [List.map_cons, List.sum_cons, List.length_cons, Nat.cast_succ, ih]; ring

theorem scov_append (l1 l2 : List (α × α))
    (h1 : (l1.length : α) ≠ 0) (h2 : (l2.length : α) ≠ 0)
    (h12 : (l1.length : α) + l2.length ≠ 0)
    (h1' : (l1.length : α) - 1 ≠ 0) (h2' : (l2.length : α) - 1 ≠ 0)
    (h12' : (l1.length : α) + l2.length - 1 ≠ 0) :
    scov (l1 ++ l2) = addCov (l1.length : α) (sm (l1.map Prod.fst)) (sm (l1.map Prod.snd)) (scov l1)
      (l2.length : α) (sm (l2.map Prod.fst)) (sm (l2.map Prod.snd)) (scov l2) := by
  unfold scov addCov sm
  simp only [sum_centered, List.map_append, List.sum_append, List.length_append, List.length_map, Nat.cast_add]
  field_simp
  ring

#eval scov [((1:ℚ),2),(3,5),(4,4)]
