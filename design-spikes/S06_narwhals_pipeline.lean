/-
Spike for C01: the Narwhals pipeline of `_read_aggr_narwhals` (demean by the windowed group mean,
multiply, average per group, rescale by 1/(1-1/n)) equals the unbiased sample covariance of the
group's rows, for every table, every grouping and every group with at least two rows.
-/
import Mathlib.Tactic.FieldSimp
import Mathlib.Tactic.Ring
import Mathlib.Algebra.BigOperators.Group.List.Basic
import Mathlib.Algebra.Field.Basic

variable {α κ : Type} [Field α] [DecidableEq κ]

structure Row (κ α : Type) where
  g : κ
  x : α
  y : α

def smean (l : List α) : α := l.sum / l.length

/-- specification: unbiased sample covariance of two columns of a list of rows -/
def scov (rows : List (Row κ α)) : α :=
  (rows.map (fun r => (r.x - smean (rows.map (·.x))) * (r.y - smean (rows.map (·.y))))).sum
    / (rows.length - 1)

/-- `col.mean().over(group)` -/
def windowMean (T : List (Row κ α)) (f : Row κ α → α) (r : Row κ α) : α :=
  smean ((T.filter (fun r' => r'.g = r.g)).map f)

/-- the pipeline: with_columns(demean) → with_columns(product) → group_by.agg(mean, len) →
    with_columns(/ (1 - 1/len)), read at group key `v` -/
def nwCov (T : List (Row κ α)) (v : κ) : α :=
  let prod := T.map (fun r => (r.g, (r.x - windowMean T (·.x) r) * (r.y - windowMean T (·.y) r)))
  let grp := (prod.filter (fun p => p.1 = v)).map (·.2)
  let n : α := grp.length
  grp.sum / n / (1 - 1 / n)

theorem rescale (S n : α) (h0 : n ≠ 0) (h1 : n - 1 ≠ 0) : S / n / (1 - 1 / n) = S / (n - 1) := by
  field_simp

omit [Field α] in
theorem filter_map_prod (T : List (Row κ α)) (v : κ) (F : Row κ α → α) :
    ((T.map (fun r => (r.g, F r))).filter (fun p => p.1 = v)).map (·.2)
      = (T.filter (fun r => r.g = v)).map F := by
  induction T with
  | nil => rfl
  | cons r T ih =>
    by_cases h : r.g = v <;> simp [h, ih]

theorem nwCov_eq_scov (T : List (Row κ α)) (v : κ)
    (hn0 : (((T.filter (fun r => r.g = v)).length : ℕ) : α) ≠ 0)
    (hn1 : (((T.filter (fun r => r.g = v)).length : ℕ) : α) - 1 ≠ 0) :
    nwCov T v = scov (T.filter (fun r => r.g = v)) := by
  unfold nwCov scov
  simp only [filter_map_prod, List.length_map]
  -- inside the group every row's window is the group itself
  have hwin : ∀ (f : Row κ α → α), ∀ r ∈ T.filter (fun r => r.g = v),
      windowMean T f r = smean ((T.filter (fun r => r.g = v)).map f) := by
    intro f r hr
    have : r.g = v := by simpa using (List.mem_filter.mp hr).2
    simp [windowMean, this]
  have hmap : (T.filter (fun r => r.g = v)).map
        (fun r => (r.x - windowMean T (·.x) r) * (r.y - windowMean T (·.y) r))
      = (T.filter (fun r => r.g = v)).map
        (fun r => (r.x - smean ((T.filter (fun r => r.g = v)).map (·.x)))
                * (r.y - smean ((T.filter (fun r => r.g = v)).map (·.y)))) := by
    apply List.map_congr_left
    intro r hr
    rw [hwin (·.x) r hr, hwin (·.y) r hr]
  rw [hmap]
  exact rescale _ _ hn0 hn1
