inductive PyErr | zeroDiv | valueError | overflow
deriving Repr, DecidableEq

structure Arith (V : Type) where
  add : V → V → V
  sub : V → V → V
  mul : V → V → V
  wdiv : V → V → V
  pdiv : V → V → V
  isZero : V → Bool
  isNeg : V → Bool
  sqrt : V → V
  max0 : V → V
  ofNat : Nat → V
  max0_nonneg : ∀ x, isNeg (max0 x) = false

variable {V : Type}

def Arith.sqrtE (A : Arith V) (x : V) : Except PyErr V :=
  if A.isNeg x then .error .valueError else .ok (A.sqrt x)
def Arith.pdivE (A : Arith V) (x y : V) : Except PyErr V :=
  if A.isZero y then .error .zeroDiv else .ok (A.pdiv x y)

/-- shape of generated `_scale_and_distr` (unequal var), fixed version -/
def scaleFixed (A : Arith V) (cv cn tv tn : V) : Except PyErr V := do
  let a := A.wdiv cv cn
  let b := A.wdiv tv tn
  let s ← A.sqrtE (A.max0 (A.add a b))
  pure s

def scaleOrig (A : Arith V) (cv cn tv tn : V) : Except PyErr V := do
  let a := A.wdiv cv cn
  let b := A.wdiv tv tn
  let s ← A.sqrtE (A.add a b)
  pure s

def stat (A : Arith V) (fixed : Bool) (cm cv cn tm tv tn : V) : Except PyErr (V × V) := do
  let scale ← if fixed then scaleFixed A cv cn tv tn else scaleOrig A cv cn tv tn
  let eff := A.sub tm cm
  let st := A.wdiv eff scale
  pure (eff, st)

theorem stat_fixed_never_raises (A : Arith V) (cm cv cn tm tv tn : V) :
    ∃ r, stat A true cm cv cn tm tv tn = .ok r := by
  simp [stat, scaleFixed, Arith.sqrtE, A.max0_nonneg, bind, Except.bind, pure, Except.pure]

-- counterexample for the original: an arithmetic where the sum is negative
def badA : Arith Int where
  add := (· + ·); sub := (· - ·); mul := (· * ·); wdiv := fun x y => if y = 0 then 0 else x / y
  pdiv := (· / ·); isZero := (· == 0); isNeg := (· < 0); sqrt := fun x => x; max0 := fun x => max x 0
  ofNat := fun n => n
  max0_nonneg := by intro x; simp; omega

example : stat badA false 0 (-1) 1 0 0 1 = .error .valueError := by rfl
