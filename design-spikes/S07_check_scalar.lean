/-
Spike for C19: Python comparison semantics on a small value universe, the comparison chain of
`check_scalar` as written on the unchanged tree and as repaired, and "accepted iff in the
documented domain" for `alpha` (float strictly inside (0,1)).
-/
import Mathlib.Data.Rat.Defs
import Mathlib.Tactic.Linarith
import Mathlib.Algebra.Order.Ring.Rat

inductive XR | fin (q : ℚ) | pinf | ninf | nan
deriving DecidableEq

inductive PyVal
  | none | bool (b : Bool) | int (z : ℤ) | float (f : XR) | str (s : String) | other
deriving DecidableEq

inductive PyErr | typeError | valueError
deriving DecidableEq

namespace XR
/-- IEEE / Python `<` on floats: anything involving nan is false -/
def lt : XR → XR → Bool
  | nan, _ | _, nan => false
  | fin a, fin b => a < b
  | ninf, ninf => false | ninf, _ => true
  | _, ninf => false
  | pinf, _ => false
  | fin _, pinf => true
def le : XR → XR → Bool
  | nan, _ | _, nan => false
  | a, b => !(lt b a)
end XR

/-- numeric view of a value for comparison with a numeric bound (bool ⊂ int ⊂ "real") -/
def PyVal.num? : PyVal → Option XR
  | .bool b => some (.fin (if b then 1 else 0))
  | .int z => some (.fin z)
  | .float f => some f
  | _ => Option.none

inductive Typ | float | int | bool | str
def PyVal.isinstance : PyVal → Typ → Bool
  | .float _, .float => true
  | .int _, .int => true
  | .bool _, .int => true     -- bool is a subclass of int
  | .bool _, .bool => true
  | .str _, .str => true
  | _, _ => false

/-- `check_scalar(value, typ=float, gt=lo, lt=hi)` on the unchanged tree:
    `if gt is not None and value <= gt: raise` … -/
def checkOrig (v : PyVal) (lo hi : ℚ) : Except PyErr Unit :=
  if !v.isinstance .float then .error .typeError else
  match v.num? with
  | Option.none => .error .typeError
  | some x =>
    if XR.le x (.fin lo) then .error .valueError
    else if XR.le (.fin hi) x then .error .valueError   -- value >= hi
    else .ok ()

/-- repaired: reject unless the required relation is TRUE -/
def checkFixed (v : PyVal) (lo hi : ℚ) : Except PyErr Unit :=
  if !v.isinstance .float then .error .typeError else
  match v.num? with
  | Option.none => .error .typeError
  | some x =>
    if !XR.lt (.fin lo) x then .error .valueError
    else if !XR.lt x (.fin hi) then .error .valueError
    else .ok ()

/-- documented domain of alpha / power / confidence_level -/
def inUnitOpen : PyVal → Prop
  | .float (.fin q) => 0 < q ∧ q < 1
  | _ => False

theorem checkFixed_iff (v : PyVal) : checkFixed v 0 1 = .ok () ↔ inUnitOpen v := by
  cases v with
  | float f =>
    cases f with
    | fin q =>
      simp only [checkFixed, PyVal.isinstance, PyVal.num?, XR.lt, inUnitOpen, Bool.not_true,
        Bool.false_eq_true, if_false]
      by_cases h0 : (0:ℚ) < q <;> by_cases h1 : q < (1:ℚ) <;> simp [h0, h1]
    | pinf => simp [checkFixed, PyVal.isinstance, PyVal.num?, XR.lt, inUnitOpen]
    | ninf => simp [checkFixed, PyVal.isinstance, PyVal.num?, XR.lt, inUnitOpen]
    | nan => simp [checkFixed, PyVal.isinstance, PyVal.num?, XR.lt, inUnitOpen]
  | none => simp [checkFixed, PyVal.isinstance, inUnitOpen]
  | bool b => simp [checkFixed, PyVal.isinstance, inUnitOpen]
  | int z => simp [checkFixed, PyVal.isinstance, inUnitOpen]
  | str s => simp [checkFixed, PyVal.isinstance, inUnitOpen]
  | other => simp [checkFixed, PyVal.isinstance, inUnitOpen]

/-- the unchanged tree accepts NaN -/
example : checkOrig (.float .nan) 0 1 = .ok () := by decide
example : ¬ inUnitOpen (.float .nan) := by simp [inUnitOpen]
