/-
Spike for C12 and C15.
(a) `Experiment.analyze` pair construction: with a control, exactly the pairs (control, t) for the
    other variants in sorted order; without, exactly the pairs (c, t) with c < t; and the
    `all_variants=False` guard raises iff there is not exactly one pair.
(b) `read_granular`: splitting a table by variant loses, duplicates and leaks nothing.
-/
import Mathlib.Data.List.Basic
import Mathlib.Data.List.Perm.Basic
import Mathlib.Order.Basic

variable {κ : Type} [LinearOrder κ]

/-- the comprehension in `Experiment.analyze` (variants already sorted) -/
def pairs (variants : List κ) : Option κ → List (κ × κ)
  | some control => (variants.filter (fun t => t ≠ control)).map (fun t => (control, t))
  | none => variants.flatMap (fun c => (variants.filter (fun t => c < t)).map (fun t => (c, t)))

inductive Outcome (κ : Type) | raise | one (p : κ × κ) | all (ps : List (κ × κ))

def analyzePairs (variants : List κ) (control : Option κ) (allVariants : Bool) : Outcome κ :=
  let ps := pairs variants control
  if ps.length ≠ 1 ∧ allVariants = false then .raise
  else if allVariants then .all ps else match ps with | [p] => .one p | _ => .raise

theorem mem_pairs_control (variants : List κ) (c : κ) (p : κ × κ) :
    p ∈ pairs variants (some c) ↔ p.1 = c ∧ p.2 ∈ variants ∧ p.2 ≠ c := by
  obtain ⟨a, b⟩ := p
  simp only [pairs, List.mem_map, List.mem_filter, decide_eq_true_eq, Prod.mk.injEq]
  constructor
  · rintro ⟨t, ⟨ht, hne⟩, rfl, rfl⟩; exact ⟨rfl, ht, hne⟩
  · rintro ⟨rfl, hb, hne⟩; exact ⟨b, ⟨hb, hne⟩, rfl, rfl⟩

theorem mem_pairs_none (variants : List κ) (p : κ × κ) :
    p ∈ pairs variants none ↔ p.1 ∈ variants ∧ p.2 ∈ variants ∧ p.1 < p.2 := by
  obtain ⟨a, b⟩ := p
  simp only [pairs, List.mem_flatMap, List.mem_map, List.mem_filter, decide_eq_true_eq, Prod.mk.injEq]
  constructor
  · rintro ⟨c, hc, t, ⟨ht, hlt⟩, rfl, rfl⟩; exact ⟨hc, ht, hlt⟩
  · rintro ⟨ha, hb, hlt⟩; exact ⟨a, ha, b, ⟨hb, hlt⟩, rfl, rfl⟩

theorem raises_iff (variants : List κ) (control : Option κ) :
    (∃ p, analyzePairs variants control false = .one p) ↔ (pairs variants control).length = 1 := by
  unfold analyzePairs
  constructor
  · rintro ⟨p, hp⟩
    by_contra hne
    simp [hne] at hp
  · intro h
    match hps : pairs variants control, h with
    | [p], _ => exact ⟨p, by simp⟩

/-! (b) partition by variant -/
variable {ρ : Type}

def readGranular (variant : ρ → κ) (T : List ρ) (v : κ) : List ρ := T.filter (fun r => variant r = v)

theorem granular_only_own (variant : ρ → κ) (T : List ρ) (v : κ) :
    ∀ r ∈ readGranular variant T v, variant r = v := by
  intro r hr; simpa using (List.mem_filter.mp hr).2

theorem granular_complete (variant : ρ → κ) (T : List ρ) (r : ρ) (hr : r ∈ T) :
    r ∈ readGranular variant T (variant r) := by
  simp [readGranular, hr]

/-- nothing lost or duplicated: for every row, its multiplicity in its variant's part equals its
    multiplicity in the table, and it occurs in no other part -/
theorem granular_count [DecidableEq ρ] (variant : ρ → κ) (T : List ρ) (r : ρ) (v : κ) :
    (readGranular variant T v).count r = if variant r = v then T.count r else 0 := by
  unfold readGranular
  split_ifs with h
  · exact List.count_filter (by simpa using h)
  · apply List.count_eq_zero.mpr
    intro hr; exact h (by simpa using (List.mem_filter.mp hr).2)

/-- the part sizes add up over a duplicate-free list of keys covering the table -/
theorem granular_lengths (variant : ρ → κ) (T : List ρ) (v w : κ) (hvw : v ≠ w)
    (hcover : ∀ r ∈ T, variant r = v ∨ variant r = w) :
    (readGranular variant T v).length + (readGranular variant T w).length = T.length := by
  unfold readGranular
  induction T with
  | nil => rfl
  | cons r T ih =>
    have ih' := ih (fun x hx => hcover x (List.mem_cons_of_mem _ hx))
    rcases hcover r List.mem_cons_self with h | h
    · simp [h, hvw] at ih' ⊢; omega
    · simp [h, hvw.symm] at ih' ⊢; omega
