import Mathlib.Tactic.FieldSimp
import Mathlib.Tactic.Ring
import Mathlib.Tactic.Linarith
import Mathlib.Tactic.Positivity
import Mathlib.Algebra.Order.Field.Basic
import Mathlib.Order.Monotone.Basic

variable {α : Type} [Field α] [LinearOrder α] [IsStrictOrderedRing α]

structure Dist (α : Type) where
  cdf : α → α
  sf  : α → α
  ppf : α → α
  isf : α → α

structure Dist.Laws (d : Dist α) : Prop where
  mono : StrictMono d.cdf
  pos : ∀ x, 0 < d.cdf x
  lt1 : ∀ x, d.cdf x < 1
  sf_eq : ∀ x, d.sf x = 1 - d.cdf x
  symm : ∀ x, d.cdf (-x) = 1 - d.cdf x
  cdf_ppf : ∀ q, 0 < q → q < 1 → d.cdf (d.ppf q) = q
  isf_eq : ∀ q, d.isf q = d.ppf (1 - q)

namespace Dist.Laws
variable {d : Dist α} (h : d.Laws)
include h

theorem ppf_lt_iff {q x : α} (hq0 : 0 < q) (hq1 : q < 1) : d.ppf q < x ↔ q < d.cdf x := by
  constructor
  · intro hx; have := h.mono hx; rwa [h.cdf_ppf q hq0 hq1] at this
  · intro hx; by_contra hc; push Not at hc
    have := h.mono.monotone hc; rw [h.cdf_ppf q hq0 hq1] at this; exact absurd hx (not_lt.mpr this)

theorem ppf_neg {q : α} (hq0 : 0 < q) (hq1 : q < 1) : d.ppf (1 - q) = - d.ppf q := by
  apply h.mono.injective
  rw [h.cdf_ppf _ (by linarith) (by linarith), h.symm, h.cdf_ppf q hq0 hq1]

/-- greater: p < 1 - cl ↔ lower CI bound > 0  -/
theorem greater_duality {cl eff scale : α} (hc0 : 0 < cl) (hc1 : cl < 1) (hs : 0 < scale) :
    d.sf (eff / scale) < 1 - cl ↔ 0 < eff + scale * d.isf cl := by
  rw [h.sf_eq, h.isf_eq, h.ppf_neg hc0 hc1]
  have : (1 - d.cdf (eff/scale) < 1 - cl) ↔ cl < d.cdf (eff/scale) := by constructor <;> intro <;> linarith
  rw [this, ← h.ppf_lt_iff hc0 hc1, lt_div_iff₀ hs]
  constructor <;> intro <;> nlinarith
end Dist.Laws
