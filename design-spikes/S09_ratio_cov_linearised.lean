/-
Spike for C05/C06/C14: `Aggregates.ratio_cov` (delta method) equals the unbiased sample covariance
of the linearised ratios  L1ᵢ = r1 + (aᵢ - r1·bᵢ)/b̄ ,  L2ᵢ = r2 + (cᵢ - r2·dᵢ)/d̄ ,
for every sample with non-zero denominator means.  (`ratio_var` is the case a=c, b=d.)
Rows are of an arbitrary type ρ; columns are functions ρ → α.
-/
import Mathlib.Tactic.FieldSimp
import Mathlib.Tactic.Ring
import Mathlib.Algebra.BigOperators.Group.List.Basic
import Mathlib.Algebra.Field.Basic

variable {α ρ : Type} [Field α]

/-- column sum -/
def S (T : List ρ) (f : ρ → α) : α := (T.map f).sum
def mean (T : List ρ) (f : ρ → α) : α := S T f / T.length
/-- unbiased sample covariance of two columns -/
def cov (T : List ρ) (f g : ρ → α) : α :=
  S T (fun r => (f r - mean T f) * (g r - mean T g)) / (T.length - 1)

theorem S_centered (T : List ρ) (f g : ρ → α) (u v : α) :
    S T (fun r => (f r - u) * (g r - v))
      = S T (fun r => f r * g r) - v * S T f - u * S T g + (T.length : α) * u * v := by
  unfold S
  induction T with
  | nil => simp
  | cons p l ih => simp only [List.map_cons, List.sum_cons, List.length_cons, Nat.cast_succ, ih]; ring

theorem cov_raw (T : List ρ) (f g : ρ → α) (hn : (T.length : α) ≠ 0) :
    cov T f g = (S T (fun r => f r * g r) - S T f * S T g / T.length) / (T.length - 1) := by
  unfold cov mean
  rw [S_centered]
  congr 1
  field_simp
  ring

theorem S_lin (T : List ρ) (f g : ρ → α) (k m e : α) :
    S T (fun r => k + (f r - m * g r) / e) = (T.length : α) * k + (S T f - m * S T g) / e := by
  unfold S
  induction T with
  | nil => simp
  | cons r T ih => simp only [List.map_cons, List.sum_cons, List.length_cons, Nat.cast_succ, ih]; ring

theorem S_lin_mul (T : List ρ) (f1 g1 f2 g2 : ρ → α) (k1 m1 e1 k2 m2 e2 : α) :
    S T (fun r => (k1 + (f1 r - m1 * g1 r) / e1) * (k2 + (f2 r - m2 * g2 r) / e2))
    = (T.length : α) * k1 * k2
      + k1 / e2 * (S T f2 - m2 * S T g2)
      + k2 / e1 * (S T f1 - m1 * S T g1)
      + (S T (fun r => f1 r * f2 r) - m2 * S T (fun r => f1 r * g2 r)
          - m1 * S T (fun r => g1 r * f2 r) + m1 * m2 * S T (fun r => g1 r * g2 r)) / e1 / e2 := by
  unfold S
  induction T with
  | nil => simp
  | cons r T ih =>
    simp only [List.map_cons, List.sum_cons, List.length_cons, Nat.cast_succ, ih]
    ring

/-- shape of the generated `ratio_cov(a, b, c, d)` -/
def ratioCov (T : List ρ) (a b c d : ρ → α) : α :=
  let r1 := mean T a / mean T b
  let r2 := mean T c / mean T d
  (cov T a c - cov T a d * r2 - cov T b c * r1 + cov T b d * r1 * r2) / mean T b / mean T d

/-- linearised ratio of columns `a / b` -/
def lin (T : List ρ) (a b : ρ → α) (r : ρ) : α :=
  mean T a / mean T b + (a r - mean T a / mean T b * b r) / mean T b

theorem ratioCov_eq_cov_linearised (T : List ρ) (a b c d : ρ → α)
    (hn : (T.length : α) ≠ 0) (hn1 : (T.length : α) - 1 ≠ 0)
    (hb : S T b ≠ 0) (hd : S T d ≠ 0) :
    ratioCov T a b c d = cov T (lin T a b) (lin T c d) := by
  unfold ratioCov
  simp only [cov_raw _ _ _ hn]
  unfold lin
  simp only [S_lin, S_lin_mul]
  unfold mean
  field_simp
  ring

/-- `ratio_var` is `ratio_cov` with itself -/
theorem ratioVar_eq_var_linearised (T : List ρ) (a b : ρ → α)
    (hn : (T.length : α) ≠ 0) (hn1 : (T.length : α) - 1 ≠ 0) (hb : S T b ≠ 0) :
    ratioCov T a b a b = cov T (lin T a b) (lin T a b) :=
  ratioCov_eq_cov_linearised T a b a b hn hn1 hb hb
