/-
Spike for C11: the exact two-sided binomial p-value (sum of the probabilities of all outcomes no
more likely than the observed one) is invariant under swapping the two variants and inverting
the expected ratio:  (k, p)  ↦  (n - k, 1 - p).  Computable over ℚ (used as the oracle for
`scipy.stats.binomtest` in the correspondence check).
-/
import Mathlib.Algebra.BigOperators.Intervals
import Mathlib.Algebra.Order.Field.Basic
import Mathlib.Data.Nat.Choose.Basic
import Mathlib.Data.Rat.Defs
import Mathlib.Algebra.Order.Ring.Rat
import Mathlib.Tactic.Ring

open Finset

variable {α : Type} [Field α] [LinearOrder α]

def pmf (n : ℕ) (p : α) (i : ℕ) : α := (n.choose i : α) * p ^ i * (1 - p) ^ (n - i)

def twoSided (n : ℕ) (p : α) (k : ℕ) : α :=
  ∑ i ∈ range (n + 1), if pmf n p i ≤ pmf n p k then pmf n p i else 0

theorem pmf_swap (n : ℕ) (p : α) {i : ℕ} (hi : i ≤ n) : pmf n (1 - p) (n - i) = pmf n p i := by
  unfold pmf
  rw [Nat.choose_symm hi, Nat.sub_sub_self hi]
  ring

theorem twoSided_swap (n : ℕ) (p : α) {k : ℕ} (hk : k ≤ n) :
    twoSided n (1 - p) (n - k) = twoSided n p k := by
  unfold twoSided
  rw [← Finset.sum_range_reflect]
  apply Finset.sum_congr rfl
  intro i hi
  have hi' : i ≤ n := by have := Finset.mem_range.mp hi; omega
  have e : n + 1 - 1 - i = n - i := by omega
  rw [e, pmf_swap n p hi', pmf_swap n p hk]

#eval twoSided 101 (2/5 : ℚ) 53   -- compare: scipy.stats.binomtest(53, 101, 0.4).pvalue ≈ 0.0143581399
