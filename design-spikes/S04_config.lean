/-
Spike for C13: global configuration as mutable state that survives exceptions,
`config_context` as try/finally.  The theorem quantifies over an ARBITRARY body
(any computation, including nested contexts and raising ones).
-/
inductive PyErr | typeError | valueError | other
deriving Repr, DecidableEq

abbrev Val := Int
abbrev Cfg := String → Option Val      -- finite map, extensional

/-- state persists across exceptions (Python module-level dict) -/
def M (α : Type) := Cfg → (Except PyErr α × Cfg)

namespace M
def pure (a : α) : M α := fun c => (.ok a, c)
def bind (x : M α) (f : α → M β) : M β := fun c =>
  match x c with
  | (.ok a, c') => f a c'
  | (.error e, c') => (.error e, c')
def throw (e : PyErr) : M α := fun c => (.error e, c)
def get : M Cfg := fun c => (.ok c, c)
def put (c' : Cfg) : M Unit := fun _ => (.ok (), c')
def modify (f : Cfg → Cfg) : M Unit := fun c => (.ok (), f c)
/-- `try x finally fin` with a non-raising finaliser -/
def tryFinally (x : M α) (fin : M Unit) : M α := fun c =>
  match x c with
  | (r, c') => (r, (fin c').2)
instance : Monad M := { pure := M.pure, bind := M.bind }
end M

def Cfg.set (c : Cfg) (k : String) (v : Val) : Cfg := fun k' => if k' = k then some v else c k'
def Cfg.update (c old : Cfg) : Cfg := fun k => match old k with | some v => some v | none => c k

/-- the code on the unchanged tree: validate-and-write one option at a time -/
def setConfigOrig (valid : String → Val → Bool) : List (String × Val) → M Unit
  | [] => M.pure ()
  | (k, v) :: rest => fun c =>
      if valid k v then setConfigOrig valid rest (c.set k v) else (.error .valueError, c)

/-- repaired: validate everything, then write -/
def setConfigFixed (valid : String → Val → Bool) (kvs : List (String × Val)) : M Unit :=
  if kvs.all (fun kv => valid kv.1 kv.2) then
    M.modify (fun c => kvs.foldl (fun c kv => c.set kv.1 kv.2) c)
  else M.throw .valueError

/-- unchanged tree: enter outside the try, restore by `update` -/
def configContextOrig (valid : String → Val → Bool) (kvs : List (String × Val)) (body : M Unit) : M Unit :=
  M.bind M.get fun old =>
  M.bind (setConfigOrig valid kvs) fun _ =>
  M.tryFinally body (M.modify (fun c => c.update old))

/-- repaired: enter inside the try, restore by clear-and-update -/
def configContextFixed (valid : String → Val → Bool) (kvs : List (String × Val)) (body : M Unit) : M Unit :=
  M.bind M.get fun old =>
  M.tryFinally (M.bind (setConfigFixed valid kvs) fun _ => body) (M.put old)

theorem context_transparent (valid) (kvs) (body : M Unit) (c : Cfg) :
    (configContextFixed valid kvs body c).2 = c := by
  simp [configContextFixed, M.bind, M.get, M.tryFinally, M.put]

theorem setConfig_atomic (valid) (kvs) (c : Cfg) :
    (∃ e, (setConfigFixed valid kvs c).1 = .error e) → (setConfigFixed valid kvs c).2 = c := by
  unfold setConfigFixed
  split <;> simp [M.modify, M.throw]

/-! counterexamples on the unchanged logic -/
def valid01 : String → Val → Bool := fun k v => if k = "power" then v < 1 else true
def c0 : Cfg := fun k => if k = "alpha" then some 5 else if k = "power" then some 0 else none

-- failed enter leaks the partial write
example : (configContextOrig valid01 [("alpha", 10), ("power", 7)] (M.pure ()) c0).2 "alpha" = some 10 := by
  decide
-- a user-defined option first set inside the context survives it
example : (configContextOrig valid01 [("my_opt", 3)] (M.pure ()) c0).2 "my_opt" = some 3 := by
  decide
-- a raising set_config is not atomic
example : (setConfigOrig valid01 [("alpha", 20), ("power", 7)] c0).2 "alpha" = some 20 := by
  decide
