import Gen
import Mathlib.Tactic.Ring
import Mathlib.Tactic.FieldSimp
import Mathlib.Tactic.Linarith
import Mathlib.Tactic.SplitIfs
open Gen

variable {α : Type} [Field α] [LinearOrder α] [IsStrictOrderedRing α]

/-- C07 `effect_eq`, `rel_effect_eq` on the GENERATED `_analyze_stats`, all options at once -/
theorem effect_eq (P : Prims α) (cfg : RatioCfg α) (cm cv cn tm tv tn : α) :
    (RatioOfMeans.analyze_stats P cfg cm cv cn tm tv tn).effect_size = tm - cm ∧
    (RatioOfMeans.analyze_stats P cfg cm cv cn tm tv tn).rel_effect_size = tm / cm - 1 ∧
    (RatioOfMeans.analyze_stats P cfg cm cv cn tm tv tn).control = cm := by
  unfold RatioOfMeans.analyze_stats
  split_ifs <;> exact ⟨rfl, rfl, rfl⟩

/-- one-sided p-values are complementary (needs only sf = 1 - cdf of the SAME distribution) -/
theorem greater_less_sum (P : Prims α) (cfg : RatioCfg α) (cm cv cn tm tv tn : α)
    (hsf : ∀ (d : Dist α) x, d.sf x = 1 - d.cdf x) :
    (RatioOfMeans.analyze_stats P { cfg with alternative := "greater" } cm cv cn tm tv tn).pvalue
    + (RatioOfMeans.analyze_stats P { cfg with alternative := "less" } cm cv cn tm tv tn).pvalue = 1 := by
  unfold RatioOfMeans.analyze_stats
  simp only [show ("less" : String) = "greater" ↔ False by decide, if_true, if_false]
  simp [hsf, RatioOfMeans.scale_and_distr_null]

/-- C14 on the GENERATED `_add_var`: commutative -/
theorem addVar_comm (l r : Aggr α) (c : String) : addVar l r c = addVar r l c := by
  unfold addVar; ring
