import Gen
import Mathlib.Algebra.Order.Field.Rat
open Gen

def baseCdf (x : ℚ) : ℚ := (1 + x / (1 + |x|)) / 2
def basePpf (q : ℚ) : ℚ := let y := 2 * q - 1; y / (1 - |y|)
def stubD (k loc : ℚ) : Dist ℚ :=
  { cdf := fun x => baseCdf ((x - loc) * k)
    sf := fun x => 1 - baseCdf ((x - loc) * k)
    ppf := fun q => basePpf q / k + loc
    isf := fun q => basePpf (1 - q) / k + loc }
def stubP : Prims ℚ :=
  { sqrt := fun x => x / (1 + x) + 1/3
    exp := fun x => if 0 ≤ x then 1 + x else 1 / (1 - x)
    t := fun df => stubD (df / (df + 1)) 0
    norm := fun loc => stubD 1 loc
    nct := fun df nc => stubD (df / (df + 1)) nc }

def mkAggr (n : ℚ) (mx mz vx vz cxz : ℚ) : Aggr ℚ :=
  { count_ := n
    mean_ := fun c => if c = "x" then mx else mz
    var_ := fun c => if c = "x" then vx else vz
    cov_ := fun a b => if a = "x" ∧ b = "z" then cxz else 0 }

def c := mkAggr 10 1 2 (1/3) (1/2) (1/7)
def t := mkAggr 12 (13/10) (9/4) 2 (2/3) (-1/5)

def cfg : RatioCfg ℚ :=
  { numer := "x", denom := none, numer_covariate := some "z", denom_covariate := none,
    alternative := "two-sided", confidence_level := 19/20, equal_var := false, use_t := true,
    alpha := 1/20, ratio := 1, power := 4/5 }

def r := RatioOfMeans.analyze_aggregates stubP cfg c t
#eval (r.control, r.treatment, r.effect_size, r.pvalue, r.statistic)
#eval r.effect_size_ci_lower
#eval r.rel_effect_size_ci_upper
def r2 := RatioOfMeans.analyze_aggregates stubP { cfg with alternative := "greater", equal_var := true, use_t := false, confidence_level := 9/10 } c t
#eval (r2.pvalue, r2.statistic)
#eval r2.effect_size_ci_lower
#eval r2.rel_effect_size_ci_lower
