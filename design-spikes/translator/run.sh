#!/bin/sh
# Re-run the translator / exact-mode spike: regenerate Lean from /repo, evaluate at Q, compare
# with the real Python code on Fractions.  Scratch output goes to a temp dir that is removed.
set -e
here=$(cd "$(dirname "$0")" && pwd)
tmp=$(mktemp -d)
trap 'rm -rf "$tmp"' EXIT
cp "$here/Prelude.lean" "$here/Test.lean" "$here/Thm.lean" "$tmp/"
python3 "$here/translate_spike.py" /repo/src/tea_tasting > "$tmp/Gen.lean"
cd "$tmp"
export LEAN_PATH="$tmp"
lean -o Prelude.olean Prelude.lean
lean -o Gen.olean Gen.lean
lean Test.lean > lean.out
lean Thm.lean 2>&1 | grep -E "error|sorry" && { echo "theorems over generated defs FAILED"; exit 1; } || echo "theorems over the generated definitions check"
/venv/bin/python "$here/exact_mode_spike.py" 2>/dev/null > py.out
# crude canonical comparison: the multiset of integers appearing in both outputs
grep -o -e '-\?[0-9]\+' lean.out | sort > a; grep -o -e '-\?[0-9]\+' py.out | sort > b
if cmp -s a b; then echo "translator spike: generated Lean model == real Python code on Fractions (exact)"; else echo "MISMATCH"; diff a b | head; exit 1; fi
