import Mathlib.Algebra.Order.Field.Basic
import Mathlib.Algebra.Order.AbsoluteValue.Basic
import Mathlib.Data.Rat.Defs
import Mathlib.Algebra.Order.Ring.Rat

/-! Hand-written prelude the generated code is typed against. -/

structure Dist (α : Type) where
  cdf : α → α
  sf  : α → α
  ppf : α → α
  isf : α → α

structure Prims (α : Type) where
  sqrt : α → α
  exp  : α → α
  t    : α → Dist α
  norm : α → Dist α
  nct  : α → α → Dist α

/-- a confidence bound: finite or ±∞ -/
inductive Bound (α : Type) | fin (a : α) | posInf | negInf
deriving DecidableEq, Repr

instance {α} : Coe α (Bound α) := ⟨Bound.fin⟩
instance {α} [Sub α] : HSub (Bound α) α (Bound α) :=
  ⟨fun b x => match b with | .fin a => .fin (a - x) | .posInf => .posInf | .negInf => .negInf⟩

/-- aggregated statistics, total functions of (optional) column names -/
structure Aggr (α : Type) where
  count_ : α
  mean_ : String → α
  var_ : String → α
  cov_ : String → String → α

structure RatioCfg (α : Type) where
  numer : String
  denom : Option String
  numer_covariate : Option String
  denom_covariate : Option String
  alternative : String
  confidence_level : α
  equal_var : Bool
  use_t : Bool
  alpha : α
  ratio : α
  power : α

structure MeanResult (α : Type) where
  control : α
  treatment : α
  effect_size : α
  effect_size_ci_lower : Bound α
  effect_size_ci_upper : Bound α
  rel_effect_size : α
  rel_effect_size_ci_lower : Bound α
  rel_effect_size_ci_upper : Bound α
  pvalue : α
  statistic : α
