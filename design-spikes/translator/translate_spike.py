"""Spike: translate the straight-line arithmetic of tea_tasting (aggr.py, metrics/mean.py)
from the Python AST into Lean 4 definitions typed against Prelude.lean.

Not the framework: a feasibility experiment for DESIGN.md section 4.1.
Usage: python translate_spike.py /repo/src/tea_tasting > Gen.lean
"""
from __future__ import annotations

import ast
import sys
from pathlib import Path

A = "α"

# ---------------------------------------------------------------- signature table
# python function -> lean name, parameter list [(name, leantype)], return type,
# `prims`: whether the Lean def takes (P : Prims α); `spec`: None-specialisation of params
SIGS = {
    "aggr._sorted_tuple": dict(lean="sortedTuple", params=[("left", "String"), ("right", "String")],
                               ret="String × String", prims=False),
    "aggr.Aggregates.count": dict(lean="Aggr.count", params=[("self", f"Aggr {A}")], ret=A, prims=False),
    "aggr.Aggregates.mean": dict(lean="Aggr.mean", params=[("self", f"Aggr {A}"), ("name", "Option String")],
                                 ret=A, prims=False),
    "aggr.Aggregates.var": dict(lean="Aggr.var", params=[("self", f"Aggr {A}"), ("name", "Option String")],
                                ret=A, prims=False),
    "aggr.Aggregates.cov": dict(lean="Aggr.cov", params=[("self", f"Aggr {A}"), ("left", "Option String"),
                                                         ("right", "Option String")], ret=A, prims=False),
    "aggr.Aggregates.ratio_var": dict(lean="Aggr.ratio_var",
                                      params=[("self", f"Aggr {A}"), ("numer", "Option String"),
                                              ("denom", "Option String")], ret=A, prims=False),
    "aggr.Aggregates.ratio_cov": dict(lean="Aggr.ratio_cov",
                                      params=[("self", f"Aggr {A}"), ("left_numer", "Option String"),
                                              ("left_denom", "Option String"), ("right_numer", "Option String"),
                                              ("right_denom", "Option String")], ret=A, prims=False),
    "aggr._add_mean": dict(lean="addMean", params=[("left", f"Aggr {A}"), ("right", f"Aggr {A}"),
                                                   ("col", "String")], ret=A, prims=False),
    "aggr._add_var": dict(lean="addVar", params=[("left", f"Aggr {A}"), ("right", f"Aggr {A}"),
                                                 ("col", "String")], ret=A, prims=False),
    "aggr._add_cov": dict(lean="addCov", params=[("left", f"Aggr {A}"), ("right", f"Aggr {A}"),
                                                 ("cols", "String × String")], ret=A, prims=False),
    "mean.RatioOfMeans._covariate_cov": dict(lean="RatioOfMeans.covariate_cov",
                                             params=[("self", f"RatioCfg {A}"), ("aggr", f"Aggr {A}")],
                                             ret=A, prims=False),
    "mean.RatioOfMeans._covariate_coef": dict(lean="RatioOfMeans.covariate_coef",
                                              params=[("self", f"RatioCfg {A}"), ("aggr", f"Aggr {A}")],
                                              ret=A, prims=False),
    "mean.RatioOfMeans._metric_mean": dict(lean="RatioOfMeans.metric_mean",
                                           params=[("self", f"RatioCfg {A}"), ("aggr", f"Aggr {A}"),
                                                   ("covariate_coef", A), ("covariate_mean", A)],
                                           ret=A, prims=False),
    "mean.RatioOfMeans._metric_var": dict(lean="RatioOfMeans.metric_var",
                                          params=[("self", f"RatioCfg {A}"), ("aggr", f"Aggr {A}"),
                                                  ("covariate_coef", A)], ret=A, prims=False),
    "mean.RatioOfMeans._scale_and_distr@none": dict(
        py="mean.RatioOfMeans._scale_and_distr", lean="RatioOfMeans.scale_and_distr_null",
        params=[("self", f"RatioCfg {A}"), ("contr_var", A), ("contr_count", A), ("treat_var", A),
                ("treat_count", A)],
        ret=f"{A} × Dist {A} × Unit", prims=True, none={"effect_size"}),
    "mean.RatioOfMeans._scale_and_distr@some": dict(
        py="mean.RatioOfMeans._scale_and_distr", lean="RatioOfMeans.scale_and_distr_alt",
        params=[("self", f"RatioCfg {A}"), ("contr_var", A), ("contr_count", A), ("treat_var", A),
                ("treat_count", A), ("effect_size", A)],
        ret=f"{A} × Dist {A} × Dist {A}", prims=True, some={"effect_size"}),
    "mean.RatioOfMeans._analyze_stats": dict(
        lean="RatioOfMeans.analyze_stats",
        params=[("self", f"RatioCfg {A}"), ("contr_mean", A), ("contr_var", A), ("contr_count", A),
                ("treat_mean", A), ("treat_var", A), ("treat_count", A)],
        ret=f"MeanResult {A}", prims=True),
    "mean.RatioOfMeans.analyze_aggregates": dict(
        lean="RatioOfMeans.analyze_aggregates",
        params=[("self", f"RatioCfg {A}"), ("control", f"Aggr {A}"), ("treatment", f"Aggr {A}")],
        ret=f"MeanResult {A}", prims=True),
    "mean.RatioOfMeans._power_from_stats": dict(
        lean="RatioOfMeans.power_from_stats",
        params=[("self", f"RatioCfg {A}"), ("sample_var", A), ("sample_count", A), ("effect_size", A)],
        ret=A, prims=True),
}
ORDER = list(SIGS)

FIELD_TYPES = {  # RatioCfg
    "numer": "String", "denom": "Option String", "numer_covariate": "Option String",
    "denom_covariate": "Option String", "alternative": "String", "confidence_level": A,
    "equal_var": "Bool", "use_t": "Bool", "alpha": A, "ratio": A, "power": A,
}
# method name -> signature key(s), looked up by receiver kind
AGGR_METHODS = {"count": "aggr.Aggregates.count", "mean": "aggr.Aggregates.mean", "var": "aggr.Aggregates.var",
                "cov": "aggr.Aggregates.cov", "ratio_var": "aggr.Aggregates.ratio_var",
                "ratio_cov": "aggr.Aggregates.ratio_cov"}
SELF_METHODS = {"_covariate_cov": "mean.RatioOfMeans._covariate_cov",
                "_covariate_coef": "mean.RatioOfMeans._covariate_coef",
                "_metric_mean": "mean.RatioOfMeans._metric_mean",
                "_metric_var": "mean.RatioOfMeans._metric_var",
                "_analyze_stats": "mean.RatioOfMeans._analyze_stats"}
FREE_FUNCS = {"_sorted_tuple": "aggr._sorted_tuple"}
DIST_METHODS = {"cdf", "sf", "ppf", "isf"}
BIN = {ast.Add: "+", ast.Sub: "-", ast.Mult: "*", ast.Div: "/"}
CMP = {ast.Lt: "<", ast.LtE: "≤", ast.Gt: ">", ast.GtE: "≥", ast.Eq: "=", ast.NotEq: "≠"}


class Unsupported(Exception):
    pass


class Tr:
    def __init__(self, key: str, sig: dict, fn: ast.FunctionDef):
        self.key, self.sig, self.fn = key, sig, fn
        self.types = dict(sig["params"])          # local name -> lean type (best effort)
        self.none = set(sig.get("none", ()))
        self.some = set(sig.get("some", ()))
        self.in_aggr = key.startswith("aggr.Aggregates.")

    # ---- types (very small inference, only what argument wrapping needs)
    def typ(self, e: ast.expr) -> str | None:
        if isinstance(e, ast.Name):
            return self.types.get(e.id)
        if isinstance(e, ast.Attribute) and isinstance(e.value, ast.Name) and e.value.id == "self":
            return FIELD_TYPES.get(e.attr)
        if isinstance(e, ast.Subscript) and isinstance(e.value, ast.Name):
            t = self.types.get(e.value.id)
            if t and " × " in t and isinstance(e.slice, ast.Constant):
                return t.split(" × ")[e.slice.value]
        return None

    def arg(self, e: ast.expr, want: str) -> str:
        s = self.ex(e)
        have = self.typ(e)
        if want.startswith("Option ") and have == want[len("Option "):]:
            return f"(some {s})"
        return s

    def call_sig(self, key: str, recv: str | None, args: list[ast.expr], kws: list[ast.keyword]) -> str:
        sig = SIGS[key]
        params = sig["params"][1:] if recv is not None else sig["params"]
        vals: dict[str, str] = {}
        for (pn, pt), a in zip(params, args):
            vals[pn] = self.arg(a, pt)
        for kw in kws:
            pt = dict(params)[kw.arg]
            vals[kw.arg] = self.arg(kw.value, pt)
        missing = [pn for pn, _ in params if pn not in vals]
        if missing:
            raise Unsupported(f"missing args {missing} for {key}")
        parts = [sig["lean"]]
        if sig["prims"]:
            parts.append("P")
        if recv is not None:
            parts.append(recv)
        parts += [vals[pn] for pn, _ in params]
        return "(" + " ".join(parts) + ")"

    # ---- expressions
    def ex(self, e: ast.expr) -> str:
        if isinstance(e, ast.BinOp):
            if isinstance(e.op, ast.Pow):
                if isinstance(e.right, ast.Constant) and e.right.value == 2:
                    return f"({self.ex(e.left)} ^ 2)"
                raise Unsupported("pow")
            return f"({self.ex(e.left)} {BIN[type(e.op)]} {self.ex(e.right)})"
        if isinstance(e, ast.UnaryOp) and isinstance(e.op, ast.USub):
            return f"(-{self.ex(e.operand)})"
        if isinstance(e, ast.Constant):
            if isinstance(e.value, bool) or e.value is None:
                raise Unsupported(f"constant {e.value!r}")
            if isinstance(e.value, int):
                return f"({e.value} : {A})"
            if isinstance(e.value, str):
                return f"\"{e.value}\""
            raise Unsupported(f"constant {e.value!r}")
        if isinstance(e, ast.Name):
            return e.id
        if isinstance(e, ast.Attribute):
            if isinstance(e.value, ast.Name) and e.value.id == "self":
                return f"self.{e.attr}"
            raise Unsupported(ast.dump(e))
        if isinstance(e, ast.Tuple):
            return "(" + ", ".join(self.ex(x) for x in e.elts) + ")"
        if isinstance(e, ast.Subscript):
            base = e.value
            if isinstance(base, ast.Attribute) and isinstance(base.value, ast.Name) and base.value.id == "self":
                if base.attr in ("mean_", "var_"):
                    return f"(self.{base.attr} {self.ex(e.slice)})"
                if base.attr == "cov_":
                    return f"((fun t => self.cov_ t.1 t.2) {self.ex(e.slice)})"
            if isinstance(base, ast.Name) and isinstance(e.slice, ast.Constant):
                return f"{base.id}.{e.slice.value + 1}"
            raise Unsupported(ast.dump(e))
        if isinstance(e, ast.Compare) and len(e.ops) == 1:
            return f"({self.ex(e.left)} {CMP[type(e.ops[0])]} {self.ex(e.comparators[0])})"
        if isinstance(e, ast.IfExp):
            t = e.test
            if (isinstance(t, ast.Compare) and isinstance(t.ops[0], ast.Is) and isinstance(t.left, ast.Name)
                    and isinstance(t.comparators[0], ast.Constant) and t.comparators[0].value is None):
                if t.left.id in self.none:
                    return "()" if (isinstance(e.body, ast.Constant) and e.body.value is None) else self.ex(e.body)
                if t.left.id in self.some:
                    return self.ex(e.orelse)
            raise Unsupported("ifexp")
        if isinstance(e, ast.Call):
            return self.call(e)
        raise Unsupported(ast.dump(e))

    def call(self, e: ast.Call) -> str:
        f = e.func
        if isinstance(f, ast.Name):
            if f.id == "abs":
                return f"|{self.ex(e.args[0])}|"
            if f.id == "float" and isinstance(e.args[0], ast.Constant):
                return {"+inf": f"(Bound.posInf : Bound {A})", "inf": f"(Bound.posInf : Bound {A})",
                        "-inf": f"(Bound.negInf : Bound {A})"}[e.args[0].value]
            if f.id in FREE_FUNCS:
                return self.call_sig(FREE_FUNCS[f.id], None, e.args, e.keywords)
            if f.id == "MeanResult":
                fields = ", ".join(f"{kw.arg} := {self.ex(kw.value)}" for kw in e.keywords)
                return "{ " + fields + " }"
            raise Unsupported(f"call {f.id}")
        if isinstance(f, ast.Attribute):
            # math.* / scipy.stats.*
            dotted = self.dotted(f)
            if dotted == "math.sqrt":
                return f"(P.sqrt {self.ex(e.args[0])})"
            if dotted == "math.exp":
                return f"(P.exp {self.ex(e.args[0])})"
            if dotted == "scipy.stats.t":
                return f"(P.t {self.kw(e, 'df')})"
            if dotted == "scipy.stats.nct":
                return f"(P.nct {self.kw(e, 'df')} {self.kw(e, 'nc')})"
            if dotted == "scipy.stats.norm":
                loc = [k for k in e.keywords if k.arg == "loc"]
                return f"(P.norm {self.ex(loc[0].value) if loc else f'(0 : {A})'})"
            recv = f.value
            if f.attr in DIST_METHODS:
                return f"({self.ex(recv)}.{f.attr} {self.ex(e.args[0])})"
            if f.attr == "with_zero_div":
                return self.ex(recv)
            if isinstance(recv, ast.Name) and recv.id == "self" and not self.in_aggr:
                if f.attr == "_scale_and_distr":
                    has_eff = any(k.arg == "effect_size" for k in e.keywords)
                    key = "mean.RatioOfMeans._scale_and_distr@" + ("some" if has_eff else "none")
                    return self.call_sig(key, "self", e.args, e.keywords)
                if f.attr in SELF_METHODS:
                    return self.call_sig(SELF_METHODS[f.attr], "self", e.args, e.keywords)
            if f.attr in AGGR_METHODS:
                args = e.args
                if any(isinstance(a, ast.Starred) for a in args):   # left.cov(*cols)
                    st = args[0].value
                    return f"({SIGS[AGGR_METHODS[f.attr]]['lean']} {self.ex(recv)} (some {self.ex(st)}.1) (some {self.ex(st)}.2))"
                return self.call_sig(AGGR_METHODS[f.attr], self.ex(recv), args, e.keywords)
        raise Unsupported(ast.dump(e))

    def kw(self, e: ast.Call, name: str) -> str:
        for k in e.keywords:
            if k.arg == name:
                return self.ex(k.value)
        raise Unsupported(f"keyword {name}")

    def dotted(self, f: ast.expr) -> str:
        if isinstance(f, ast.Attribute):
            return self.dotted(f.value) + "." + f.attr
        if isinstance(f, ast.Name):
            return f.id
        return "?"

    # ---- conditions
    def none_tests(self, t: ast.expr) -> list[str] | None:
        """`x is None` or `x is None or y is None` -> [x, y]"""
        if isinstance(t, ast.Compare) and isinstance(t.ops[0], ast.Is) and isinstance(t.left, ast.Name):
            return [t.left.id]
        if isinstance(t, ast.BoolOp) and isinstance(t.op, ast.Or):
            out = []
            for v in t.values:
                r = self.none_tests(v)
                if r is None:
                    return None
                out += r
            return out
        return None

    def cond(self, t: ast.expr) -> str:
        if isinstance(t, ast.Attribute) and self.typ(t) == "Bool":
            return f"{self.ex(t)} = true"
        return self.ex(t)

    # ---- statements (continuation style)
    def stmts(self, body: list[ast.stmt], ind: str) -> str:
        if not body:
            raise Unsupported("fell off the end of a function")
        s, rest = body[0], body[1:]
        if isinstance(s, ast.Expr) and isinstance(s.value, ast.Constant):   # docstring
            return self.stmts(rest, ind)
        if isinstance(s, ast.Return):
            return ind + self.ex(s.value)
        if isinstance(s, ast.Assign):
            val = self.ex(s.value)
            out = ""
            for tgt in s.targets:
                if isinstance(tgt, ast.Name):
                    out += f"{ind}let {tgt.id} := {val}\n"
                    t = self.typ(s.value) if isinstance(s.value, (ast.Name, ast.Attribute)) else None
                    if t:
                        self.types[tgt.id] = t
                elif isinstance(tgt, ast.Tuple):
                    names = ", ".join(x.id if isinstance(x, ast.Name) else "_" for x in tgt.elts)
                    out += f"{ind}let ({names}) := {val}\n"
                else:
                    raise Unsupported(ast.dump(tgt))
            return out + self.stmts(rest, ind)
        if isinstance(s, ast.If) and len(s.body) == 1 and isinstance(s.body[0], ast.Raise) and not s.orelse:
            # a guard that raises: the value rendering is stated under the guard (recorded as a comment)
            return f"{ind}-- guard (raises in Python): {ast.unparse(s.test)}\n" + self.stmts(rest, ind)
        if isinstance(s, ast.If):
            nt = self.none_tests(s.test)
            if nt is not None:      # early-return on None: nested match
                then = self.stmts(s.body + rest, ind + "    ") if not _returns(s.body) else self.stmts(s.body, ind + "    ")
                els = self.stmts(s.orelse + rest, ind + "    ")
                return self.match_none(nt, then, els, ind)
            then = self.stmts(s.body if _returns(s.body) else s.body + rest, ind + "  ")
            els = self.stmts((s.orelse if _returns(s.orelse) else s.orelse + rest) if s.orelse else rest, ind + "  ")
            return f"{ind}if {self.cond(s.test)} then\n{then}\n{ind}else\n{els}"
        raise Unsupported(ast.dump(s))

    def match_none(self, names: list[str], then: str, els: str, ind: str) -> str:
        # any of names is none -> then ; all some -> els
        scrut = ", ".join(names)
        somes = ", ".join(f"some {n}" for n in names)
        wild = ", ".join("_" for _ in names)
        return (f"{ind}match {scrut} with\n{ind}| {somes} =>\n{els}\n{ind}| {wild} =>\n{then}")

    def render(self) -> str:
        sig = self.sig
        params = " ".join(f"({n} : {t})" for n, t in sig["params"])
        pr = f"(P : Prims {A}) " if sig["prims"] else ""
        body = self.stmts(self.fn.body, "  ")
        return f"def {sig['lean']} {pr}{params} : {sig['ret']} :=\n{body}\n"


def _returns(body: list[ast.stmt]) -> bool:
    return bool(body) and isinstance(body[-1], ast.Return)


def find(mods: dict[str, ast.Module], key: str) -> ast.FunctionDef:
    modname, *path = key.split(".")
    node: ast.AST = mods[modname]
    for name in path:
        for ch in ast.iter_child_nodes(node):
            if isinstance(ch, (ast.FunctionDef, ast.ClassDef)) and ch.name == name:
                if isinstance(ch, ast.FunctionDef) and any(
                        isinstance(d, ast.Name) and d.id == "overload" for d in ch.decorator_list):
                    continue
                node = ch
                break
        else:
            raise Unsupported(f"{key}: {name} not found")
    assert isinstance(node, ast.FunctionDef)
    return node


def main(src: Path) -> None:
    mods = {"aggr": ast.parse((src / "aggr.py").read_text()),
            "mean": ast.parse((src / "metrics" / "mean.py").read_text())}
    print("import Prelude\n")
    print(f"variable {{{A} : Type}} [Field {A}] [LinearOrder {A}] [IsStrictOrderedRing {A}]\n")
    print("namespace Gen\n")
    for key in ORDER:
        sig = SIGS[key]
        fn = find(mods, sig.get("py", key))
        if key == "mean.RatioOfMeans.analyze_aggregates":
            # hand-written wrapper the generated code needs: Aggregates.__add__ (dict comprehensions)
            print(f"def Aggr.add (l r : Aggr {A}) : Aggr {A} :=\n"
                  "  { count_ := Aggr.count l + Aggr.count r, mean_ := fun c => addMean l r c,\n"
                  "    var_ := fun c => addVar l r c, cov_ := fun a b => addCov l r (a, b) }\n"
                  f"instance : Add (Aggr {A}) := ⟨Aggr.add⟩\n")
        print(f"-- {sig.get('py', key)}  (line {fn.lineno})")
        print(Tr(key, sig, fn).render())
    print("end Gen")


if __name__ == "__main__":
    main(Path(sys.argv[1]))
