"""Spike: the REAL tea_tasting code running on fractions.Fraction with rational stand-ins for
math.sqrt / math.exp / scipy.stats.{t,norm,nct}.  Prints the same quantities as Test.lean
evaluates on the generated Lean model; the two outputs must be identical rationals.

Run:  /venv/bin/python exact_mode_spike.py
"""
from fractions import Fraction as F
import math
import types

import scipy.optimize

import tea_tasting as tt
import tea_tasting.metrics.mean as mm
import tea_tasting.utils as tu


class StubMath:
    @staticmethod
    def sqrt(x):
        return F(x) / (1 + F(x)) + F(1, 3)

    @staticmethod
    def exp(x):
        x = F(x)
        return 1 + x if x >= 0 else 1 / (1 - x)

    ceil = staticmethod(math.ceil)


def base_cdf(x):
    x = F(x)
    return (1 + x / (1 + abs(x))) / 2


def base_ppf(q):
    y = 2 * F(q) - 1
    return y / (1 - abs(y))


class D:
    def __init__(self, k=F(1), loc=F(0)):
        self.k, self.loc = F(k), F(loc)

    def cdf(self, x):
        return base_cdf((F(x) - self.loc) * self.k)

    def sf(self, x):
        return 1 - self.cdf(x)

    def ppf(self, q):
        return base_ppf(q) / self.k + self.loc

    def isf(self, q):
        return self.ppf(1 - F(q))


class StubStats:
    @staticmethod
    def t(df):
        df = F(df)
        return D(k=df / (df + 1))

    @staticmethod
    def norm(loc=0):
        return D(loc=loc)

    @staticmethod
    def nct(df, nc):
        df = F(df)
        return D(k=df / (df + 1), loc=nc)


brackets = []


class StubOpt:
    @staticmethod
    def brentq(fn, a, b, maxiter=100):
        brackets.append((a, b))
        return scipy.optimize.brentq(lambda x: float(fn(x)), float(a), float(b), maxiter=maxiter)


# the three runtime substitutions of the exact mode
mm.math = StubMath
mm.scipy = types.SimpleNamespace(stats=StubStats, optimize=StubOpt)
_numeric = tu.numeric
tu.numeric = lambda v, fz="auto": v if isinstance(v, F) else _numeric(v, fz)

A = tt.aggr.Aggregates
c = A(10, {"x": F(1), "z": F(2)}, {"x": F(1, 3), "z": F(1, 2)}, {("x", "z"): F(1, 7)})
t = A(12, {"x": F(13, 10), "z": F(9, 4)}, {"x": F(2), "z": F(2, 3)}, {("x", "z"): F(-1, 5)})

m = tt.Mean("x", "z")
m.confidence_level = F(19, 20)
r = m.analyze({0: c, 1: t}, 0, 1)
print(r.control, r.treatment, r.effect_size, r.pvalue, r.statistic)
print(r.effect_size_ci_lower)
print(r.rel_effect_size_ci_upper)

m = tt.Mean("x", "z", alternative="greater", equal_var=True, use_t=False)
m.confidence_level = F(9, 10)
r = m.analyze({0: c, 1: t}, 0, 1)
print(r.pvalue, r.statistic)
print(r.effect_size_ci_lower)
print(r.rel_effect_size_ci_lower)
