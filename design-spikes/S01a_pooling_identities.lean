import Mathlib.Tactic.FieldSimp
import Mathlib.Tactic.Ring
import Mathlib.Tactic.Linarith
import Mathlib.Algebra.Order.Field.Basic
import Mathlib.Data.Rat.Defs

variable {α : Type} [Field α]

def addMean (n1 m1 n2 m2 : α) : α := (n1*m1 + n2*m2)/(n1+n2)
def addVar (n1 m1 v1 n2 m2 v2 : α) : α :=
  (v1*(n1-1) + v2*(n2-1) + (m1-m2)*(m1-m2)*n1*n2/(n1+n2))/(n1+n2-1)

theorem addVar_comm (n1 m1 v1 n2 m2 v2 : α) :
    addVar n1 m1 v1 n2 m2 v2 = addVar n2 m2 v2 n1 m1 v1 := by
  unfold addVar
  ring

theorem addVar_assoc (n1 m1 v1 n2 m2 v2 n3 m3 v3 : α)
    (h12 : n1+n2 ≠ 0) (h23 : n2+n3 ≠ 0) (h123 : n1+n2+n3 ≠ 0)
    (h12' : n1+n2-1 ≠ 0) (h23' : n2+n3-1 ≠ 0) (h123' : n1+n2+n3-1 ≠ 0) :
    addVar (n1+n2) (addMean n1 m1 n2 m2) (addVar n1 m1 v1 n2 m2 v2) n3 m3 v3
    = addVar n1 m1 v1 (n2+n3) (addMean n2 m2 n3 m3) (addVar n2 m2 v2 n3 m3 v3) := by
  unfold addVar addMean
  have e1 : n1 + (n2+n3) ≠ 0 := by rwa [← add_assoc]
  have e2 : n1 + (n2+n3) - 1 ≠ 0 := by rwa [← add_assoc]
  field_simp
  ring

#eval addVar (3:ℚ) 2 (1/2) 4 5 (7/3)
