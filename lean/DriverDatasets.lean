import TeaTasting.Driver.Proto
import TeaTasting.Model.Datasets

/-! Driver for `Model/Datasets.lean`.
  make <explode> <n> <ratio> <su> <ou> <ru> <avg> <aops> <arpo> <cov>
       <variant…> <poisson…> <beta…> <orders…> <rpo…> <sessCov…> <ordersCov…> <rpoCov…>      (length-prefixed lists)
  ->  valid=<0|1> | pVariant | lam0 lam1 | a0 b0 a1 b1 | arg0 arg1 | rows `user,variant,sessions,orders,revenue,sc,oc,rc;…`
  covp <params…> <ops> <v>   ->  the covariate binomial probability ;  covlam <params…> <sessions> <v> ; covarg <params…> <rpo> <v> -/

open Proto Datasets

def pParams : P (Params ℚ) := do
  let n ← nat
  let ratio ← rat; let su ← rat; let ou ← rat; let ru ← rat
  let avg ← rat; let aops ← rat; let arpo ← rat
  let cov ← bool
  pure { n_users := n, ratio := ratio, su := su, ou := ou, ru := ru, avg_sessions := avg, aops := aops, arpo := arpo,
         covariates := cov }

def showRow (r : Row ℚ) : String :=
  s!"{r.user},{r.variant},{r.sessions},{r.orders},{showRat r.revenue},{showRat r.sessions_cov},{showRat r.orders_cov},{showRat r.revenue_cov}"

def handler (cmd : String) : P String := do
  match cmd with
  | "make" =>
    let explode ← bool
    let p ← pParams
    let variant ← list nat
    let poisson ← list nat
    let beta ← list rat
    let orders ← list nat
    let rpo ← list rat
    let sc ← list nat
    let oc ← list nat
    let rc ← list rat
    let U : UserDraws ℚ := { variant := variant, poisson := poisson, beta := beta }
    let R : RowDraws ℚ := { orders := orders, rpo := rpo, sessCov := sc, ordersCov := oc, rpoCov := rc }
    let rows := makeData id p explode U R
    let valid := if decide (Valid p) then 1 else 0
    pure (s!"valid={valid} | {showRat (pVariant p)} | {showRat (lamSessions p 0)} {showRat (lamSessions p 1)} | "
      ++ s!"{showRat (betaA p 0)} {showRat (betaB p 0)} {showRat (betaA p 1)} {showRat (betaB p 1)} | "
      ++ s!"{showRat (lognormalArg p 0)} {showRat (lognormalArg p 1)} | " ++ ";".intercalate (rows.map showRow))
  | "covp" =>
    let p ← pParams
    let ops ← rat
    let v ← nat
    pure (showRat (pOrdersCov p ops v))
  | "covlam" =>
    let p ← pParams
    let s ← nat
    let v ← nat
    pure (showRat (lamSessCov p s v))
  | "covarg" =>
    let p ← pParams
    let r ← rat
    let v ← nat
    pure (showRat (lognormalCovArg p r v))
  | _ => throw s!"unknown command {cmd}"

def main : IO Unit := do loop handler (← IO.getStdin)
