import TeaTasting.Driver.Proto
import TeaTasting.Driver.Stubs
import TeaTasting.Gen.Aggr
import TeaTasting.Gen.Mean
import TeaTasting.Gen.Proportion
import TeaTasting.Model.Solve

/-! Driver for the GENERATED model (`Gen/*.lean`) at `ℚ`:  `lake env lean --run DriverGen.lean`. -/

open Proto Gen

def handler (cmd : String) : P String := do
  match cmd with
  | "add" =>
    let names ← list str
    let a ← aggr
    let b ← aggr
    pure (showAggr names (a + b))
  | "ratio_var" =>
    let a ← aggr
    let n ← optStr
    let d ← optStr
    pure (showRat (Aggr.ratio_var a n d))
  | "ratio_cov" =>
    let a ← aggr
    let ln ← optStr
    let ld ← optStr
    let rn ← optStr
    let rd ← optStr
    pure (showRat (Aggr.ratio_cov a ln ld rn rd))
  | "analyze" =>
    let fam ← nat
    let c ← cfg
    let a ← aggr
    let b ← aggr
    pure (showResult (RatioOfMeans.analyze_aggregates (Stubs.family fam) c a b))
  | "analyze_stats" =>
    let fam ← nat
    let c ← cfg
    let xs ← many 6 rat
    match xs with
    | [cm, cv, cn, tm, tv, tn] =>
      pure (showResult (RatioOfMeans.analyze_stats (Stubs.family fam) c cm cv cn tm tv tn))
    | _ => throw "analyze_stats args"
  | "power" =>
    let fam ← nat
    let c ← cfg
    let v ← rat
    let n ← rat
    let e ← rat
    pure (showRat (RatioOfMeans.power_from_stats (Stubs.family fam) c v n e))
  | "powerargs" =>
    let c ← cfg
    let a ← aggr
    let coef := RatioOfMeans.covariate_coef c a
    let cm := Aggr.mean a c.numer_covariate / Aggr.mean a c.denom_covariate
    pure (showRats [RatioOfMeans.metric_mean c a coef cm, RatioOfMeans.metric_var c a coef])
  | "solve_brackets" =>
    -- model brackets for solving the effect size (v, n, power) and n_obs (v, d, power)
    let fam ← nat
    let c ← cfg
    let v ← rat
    let n ← rat
    let d ← rat
    let pw ← rat
    let P := Stubs.family fam
    let fe := fun x => pw - RatioOfMeans.power_from_stats P c v n x
    let fnn := fun x => pw - RatioOfMeans.power_from_stats P c v x d
    let eb := Solve.findBoundary fe (RatioOfMeans.solve_effect_init P c v n)
    let nb := Solve.findBoundary fnn (RatioOfMeans.solve_n_bracket c).2
    let sh := fun (o : Option ℚ) => match o with | some x => showRat x | none => "none"
    pure (s!"{sh (eb.map (min 0))} {sh (eb.map (max 0))} {showRat (RatioOfMeans.solve_n_bracket c).1} {sh nb}")
  | "sr" =>
    let fam ← nat
    let c ← srcfg
    let cc ← rat
    let ct ← rat
    let r := SampleRatio.analyze (Stubs.family fam) Stubs.binomStub c cc ct
    pure (showRats [r.control, r.treatment, r.pvalue])
  | _ => throw s!"unknown command {cmd}"

def main : IO Unit := do loop handler (← IO.getStdin)
