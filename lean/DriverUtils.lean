import TeaTasting.Driver.PyWire
import TeaTasting.Gen.Utils

/-! Driver for parameter validation: the GENERATED `checkScalar` / `autoCheck` / `argsTable`
(model).  The documented domains are evaluated by `DriverDomains.lean`. -/

open Proto PyWire Gen

def eachOutcome (f : PyVal → Except PyErr PyVal) (v : PyVal) : Except PyErr PyVal := do
  (PyVal.iter v).forM (fun x => do let _ ← f x; pure ())
  pure v

def handler (cmd : String) : P String := do
  match cmd with
  | "auto" =>
    let name ← str
    let v ← pyval
    pure (showOutcome (autoCheck v name))
  | "autoEach" =>
    let name ← str
    let v ← pyval
    pure (showOutcome (eachOutcome (fun x => autoCheck x name) v))
  | "scalar" =>
    let an ← str
    let v ← pyval
    match argsTable.find? (fun p => p.1 = an) with
    | some p => pure (showOutcome (checkScalar v p.2))
    | none => pure "no-such-check"
  | "scalarEach" =>
    let an ← str
    let v ← pyval
    match argsTable.find? (fun p => p.1 = an) with
    | some p => pure (showOutcome (eachOutcome (fun x => checkScalar x p.2) v))
    | none => pure "no-such-check"
  | "rows" =>
    let e ← str
    let p ← str
    let rows := entryTable.filter (fun r => r.entry = e ∧ r.param = p)
    pure (if rows.isEmpty then "none" else ";".intercalate (rows.map (fun r => reprStr r.kind ++ "|" ++ reprStr r.fromConfig)))
  | _ => throw s!"unknown command {cmd}"

def main : IO Unit := do loop handler (← IO.getStdin)
