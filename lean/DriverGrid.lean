import TeaTasting.Driver.Proto
import TeaTasting.Model.PowerGrid
import Mathlib.Data.Rat.Floor

/-! Driver for `Model/PowerGrid.lean` at `ℚ`:  `lake env lean --run DriverGrid.lean`.

`grid <power|effect|rel|n> <metric mean> <sample count> <configured power> <effects> <rel effects> <n_obs> <k v₁ … v_k>`
where each of the three sequences is `-` (None) or `k x₁ … x_k`, and `v₁ … v_k` are the values
`_solve_power_from_stats` returned, in call order.  Answer: the rows `power effect rel n` joined by `;`,
or `raises`. -/

open Proto PowerGrid

def optList : P (Option (List ℚ)) := do
  match (← get) with
  | "-" :: ts => set ts; pure none
  | _ => let l ← list rat; pure (some l)

def par : P Param := do
  match (← tok) with
  | "power" => pure .power
  | "effect" => pure .effect
  | "rel" => pure .relEffect
  | "n" => pure .nObs
  | t => throw s!"bad parameter {t}"

def showOpt : Option ℚ → String
  | some x => showRat x
  | none => "none"

instance : DecidableEq (Cell ℚ) := inferInstance

def handler (cmd : String) : P String := do
  match cmd with
  | "grid" =>
    let p ← par
    let mm ← rat
    let cnt ← rat
    let pw ← rat
    let eff ← optList
    let rel ← optList
    let ns ← optList
    let vals ← list rat
    let cfg : Cfg ℚ := { effect := eff, rel := rel, nObs := ns, power := pw }
    match cells cfg mm cnt p with
    | none => pure "raises"
    | some cs =>
      if cs.length ≠ vals.length then pure s!"cells {cs.length}" else
      let tab := cs.zip vals
      let solve := fun (c : Cell ℚ) => match tab.find? (fun x => x.1 = c) with
        | some x => x.2
        | none => 0
      match solvePower cfg mm cnt p solve with
      | none => pure "raises"
      | some rows =>
        pure (";".intercalate (rows.map (fun r =>
          s!"{showOpt r.power} {showOpt r.effect} {showOpt r.rel} {showOpt r.nObs}")))
  | _ => throw s!"unknown command {cmd}"

def main : IO Unit := do loop handler (← IO.getStdin)
