import TeaTasting.Driver.Proto
import TeaTasting.Model.Experiment

/-! Driver for `Model/Experiment.lean`: variant pairs, declared / merged statistics, fetch traces. -/

open Proto Experiment

def showPairs (ps : List (Int × Int)) : String := ";".intercalate (ps.map (fun p => s!"{p.1},{p.2}"))

def sortStrs (l : List String) : List String := (l.toArray.qsort (· < ·)).toList

def showCols (a : AggrCols) : String :=
  let cov := sortStrs (a.cov_cols.map (fun p => p.1 ++ "~" ++ p.2))
  s!"count={a.has_count}|mean={",".intercalate (sortStrs a.mean_cols)}|var={",".intercalate (sortStrs a.var_cols)}|cov={",".intercalate cov}"

def aggrCols : P AggrCols := do
  let hc ← bool
  let m ← list str
  let v ← list str
  let c ← list (do let a ← str; let b ← str; pure (a, b))
  pure { has_count := hc, mean_cols := m, var_cols := v, cov_cols := c }

def metricKind : P MetricKind := do
  let t ← tok
  match t with
  | "A" => pure (.aggregated (← aggrCols))
  | "G" => pure (.granular (← list str))
  | "B" => do let a ← aggrCols; let g ← list str; pure (.both a g)
  | "P" => pure .plain
  | _ => throw s!"bad metric kind {t}"

def showEvent : Event → String
  | .aggFetch g c => s!"agg[{g}]({showCols c})"
  | .granFetch c => s!"gran({",".intercalate (sortStrs c)})"
  | .variantsFetch => "variants"
  | .metricFetch n => s!"metric({n})"

def handler (cmd : String) : P String := do
  match cmd with
  | "pairs" =>
    let vs ← list int
    let c ← optStr
    let all ← bool
    let control := c.bind (fun s => s.toInt?)
    match analyzePairs vs control all with
    | .raise => pure "raise"
    | .one p => pure s!"one {p.1},{p.2}"
    | .all ps => pure s!"all {showPairs ps}"
  | "ratiocols" =>
    let roles ← many 4 optStr
    pure (showCols (ratioAggrCols roles))
  | "merge" =>
    let ms ← list (do let n ← str; let k ← metricKind; pure (n, k))
    pure (showCols (mergedAggr ms) ++ "#" ++ ",".intercalate (sortStrs (mergedGran ms)))
  | "trace" =>
    let variant ← str
    let npairs ← nat
    let ms ← list (do let n ← str; let k ← metricKind; pure (n, k))
    pure (" ".intercalate ((analyzeTrace ms variant npairs).map showEvent))
  | "ptrace" =>
    let ms ← list (do
      let n ← str
      let t ← tok
      match t with
      | "A" => do let a ← aggrCols; pure (n, PowerKind.aggregated a)
      | "P" => pure (n, PowerKind.plain)
      | "N" => pure (n, PowerKind.notPower)
      | _ => throw s!"bad power kind {t}")
    pure (" ".intercalate ((solvePowerTrace ms).map showEvent))
  | _ => throw s!"unknown command {cmd}"

def main : IO Unit := do loop handler (← IO.getStdin)
