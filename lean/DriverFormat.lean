import TeaTasting.Driver.Proto
import TeaTasting.Model.Format

/-! Driver for `Model/Format.lean`.  Strings travel as `s<cp>.<cp>…` (decimal code points; `s` = empty).
  fmt   <num> <sig> <pct> <nan> <inf> <lo|-> <hi|-> <tsep> <dpoint> <k> (<x> <floor(log10 x)>)^k
                                                                         ->  ok <text> <value|->   |  raise <what>
        (the pairs are the `math.log10` calls recorded in the real run: the model's `ilog10` answers from them)
  cell  <key> <row>                                                      ->  ok <text> | raise
  table <keys> <rows>      -> ok <line> <line> …          html <keys> <rows> -> ok <text>
  pretty <keys> <rows>     -> ok <cell> … (row-major)
  <num> = none | nan | inf | -inf | -0 | p/q ;  <row> = <n> (<key> N:<num> | <key> T:<str>)* ; <keys> = <n> <key>* -/

open Proto Format

def decStr (t : String) : Option String :=
  if !t.startsWith "s" then none else
  let body := (t.drop 1).toString
  if body = "" then some "" else
  (body.splitOn ".").foldl (fun acc p => match acc, p.toNat? with
    | some s, some n => some (s.push (Char.ofNat n))
    | _, _ => none) (some "")

def encChars (l : List Char) : String := "s" ++ ".".intercalate (l.map (fun c => toString c.toNat))

def pStr : P String := do
  let t ← tok
  match decStr t with
  | some s => pure s
  | none => throw s!"bad string token {t}"

def parseNum (t : String) : Option Num :=
  match t with
  | "none" => some .none
  | "nan" => some .nan
  | "inf" => some .posInf
  | "-inf" => some .negInf
  | "-0" => some .negZero
  | _ => (parseRat t).map .fin

def pNum : P Num := do
  let t ← tok
  match parseNum t with
  | some n => pure n
  | none => throw s!"bad number {t}"

def pOptRat : P (Option ℚ) := do
  let t ← tok
  if t = "-" then pure none else
  match parseRat t with
  | some q => pure (some q)
  | none => throw s!"bad bound {t}"

def pVal : P Val := do
  let t ← tok
  if t.startsWith "N:" then
    match parseNum (t.drop 2).toString with
    | some n => pure (.num n)
    | none => throw s!"bad value {t}"
  else if t.startsWith "T:" then
    match decStr (t.drop 2).toString with
    | some s => pure (.text s)
    | none => throw s!"bad value {t}"
  else throw s!"bad value {t}"

def pRow : P RowD := list (do let k ← pStr; let v ← pVal; pure (k, v))

/-- the formatter of the views; an exception inside a cell is reported as the whole command raising -/
def cells? (keys : List String) (rows : List RowD) : Except String Unit :=
  rows.forM (fun d => keys.forM (fun k => do let _ ← getAndFormatNum exactLib d k; pure ()))

def fmtTotal (d : RowD) (k : String) : List Char :=
  match getAndFormatNum exactLib d k with
  | .ok t => t
  | .error _ => []

def handler (cmd : String) : P String := do
  match cmd with
  | "fmt" =>
    let v ← pNum
    let sig ← int
    let pct ← bool
    let nan ← pStr
    let inf ← pStr
    let lo ← pOptRat
    let hi ← pOptRat
    let tsep ← pStr
    let dp ← pStr
    let o : Opts := { sig := sig, pct := pct, nan := nan, inf := inf, lo := lo, hi := hi, tsep := tsep, dpoint := dp }
    let logs ← list (do let x ← rat; let k ← int; pure (x, k))
    let L : FloatLib := { ilog10 := fun x => match logs.find? (fun p => p.1 = x) with
                                             | some p => p.2
                                             | none => Int.log 10 x,
                          fl := fl }
    match v with
    | .fin q =>
      if q = 0 then
        match formatNum L v o with
        | .ok t => pure s!"ok {encChars t} 0"
        | .error e => pure s!"raise {e}"
      else match formatFin L q o with
        | .ok r => pure s!"ok {encChars r.text} {match r.value with | some x => showRat x | none => "-"}"
        | .error e => pure s!"raise {e}"
    | _ =>
      match formatNum L v o with
      | .ok t => pure s!"ok {encChars t} -"
      | .error e => pure s!"raise {e}"
  | "cell" =>
    let k ← pStr
    let d ← pRow
    match getAndFormatNum exactLib d k with
    | .ok t => pure s!"ok {encChars t}"
    | .error e => pure s!"raise {e}"
  | "pretty" | "table" | "html" =>
    let keys ← list pStr
    let rows ← list pRow
    match cells? keys rows with
    | .error e => pure s!"raise {e}"
    | .ok _ =>
      match cmd with
      | "pretty" => pure ("ok " ++ " ".intercalate ((prettyCells fmtTotal keys rows).flatMap (fun r => r.map encChars)))
      | "table" => pure ("ok " ++ " ".intercalate ((toStringLines fmtTotal keys rows).map encChars))
      | _ => pure ("ok " ++ encChars (toHtml fmtTotal keys rows))
  | "escape" =>
    let s ← pStr
    pure (encChars (escape s.toList) ++ " " ++ encChars (unescape (escape s.toList)))
  | _ => throw s!"unknown command {cmd}"

def main : IO Unit := do loop handler (← IO.getStdin)
