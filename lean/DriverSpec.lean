import TeaTasting.Driver.Proto
import TeaTasting.Driver.Stubs
import TeaTasting.Spec.Sample

/-! Driver for the SPECIFICATION side (`Spec/*.lean`) at `ℚ`; imports nothing generated, so it
keeps working when the regenerated model does not compile. -/

open Proto Spec

def handler (cmd : String) : P String := do
  match cmd with
  | "aggrof" =>
    let names ← list str
    let t ← table
    pure (showAggr names (aggrOf t tcol))
  | "lin_cov" =>
    let t ← table
    let a ← optStr
    let b ← optStr
    let c ← optStr
    let d ← optStr
    pure (showRat (scov t (lin t (colO tcol a) (colO tcol b)) (lin t (colO tcol c) (colO tcol d))))
  | _ => throw s!"unknown command {cmd}"

def main : IO Unit := do loop handler (← IO.getStdin)
