import TeaTasting.Driver.Proto
import TeaTasting.Driver.Stubs
import TeaTasting.Spec.Sample
import TeaTasting.Spec.Fast
import TeaTasting.Spec.Multiplicity
import TeaTasting.Spec.Proportion
import TeaTasting.Spec.Power

/-! Driver for the SPECIFICATION side (`Spec/*.lean`) at `ℚ`; imports nothing generated, so it
keeps working when the regenerated model does not compile.  It evaluates the `…Exec` forms of
`Spec/Fast.lean`, each PROVED equal to the readable specification. -/

open Proto Spec

def opts : P (Opts ℚ) := do
  let alt ← str
  let cl ← rat
  let ev ← bool
  let ut ← bool
  pure { alternative := alt, confidence_level := cl, equal_var := ev, use_t := ut }

def handler (cmd : String) : P String := do
  match cmd with
  | "aggrof" =>
    let names ← list str
    let t ← table
    pure (showAggr names (aggrOfExec t tcol))
  | "lin_cov" =>
    let t ← table
    let a ← optStr
    let b ← optStr
    let c ← optStr
    let d ← optStr
    pure (showRat (linCovExec t (colO tcol a) (colO tcol b) (colO tcol c) (colO tcol d)))
  | "cuped" =>
    let fam ← nat
    let o ← opts
    let numer ← str
    let denom ← optStr
    let ncov ← optStr
    let dcov ← optStr
    let tc ← table
    let tt ← table
    pure (showResult (cupedTestExec (Stubs.family fam) o ⟨numer, denom, ncov, dcov⟩ tcol tc tt))
  | "twosample" =>
    let fam ← nat
    let o ← opts
    let tc ← table
    let cc ← str
    let tt ← table
    let ct ← str
    pure (showResult (twoSampleExec (Stubs.family fam) o tc (tcol cc) tt (tcol ct)))
  | "from_stats" =>
    let fam ← nat
    let o ← opts
    let xs ← many 6 rat
    match xs with
    | [m1, v1, n1, m2, v2, n2] => pure (showResult (testFromStats (Stubs.family fam) o m1 v1 n1 m2 v2 n2))
    | _ => throw "from_stats args"
  | "power" =>
    let fam ← nat
    let alt ← str
    let ev ← bool
    let ut ← bool
    let alpha ← rat
    let ratio ← rat
    let v ← rat
    let n ← rat
    let d ← rat
    pure (showRat (power (Stubs.family fam)
      { alternative := alt, equal_var := ev, use_t := ut, alpha := alpha, ratio := ratio } v n d))
  | "sr" =>
    let fam ← nat
    let c ← srcfg
    let cc ← rat
    let ct ← rat
    let r := sampleRatioTest (Stubs.family fam) Stubs.binomStub c cc ct
    pure (showRats [r.control, r.treatment, r.pvalue])
  | "binom" =>
    let n ← nat
    let p ← rat
    let k ← nat
    pure (showRat (binomTwoSided n p k))
  | "mult" =>
    let procName ← str
    let a ← rat
    let ps ← list rat
    let proc : Mult.Proc := match procName with
      | "bh" => .bh | "by" => .by_ | "hochberg-bonferroni" => .hochbergBonferroni
      | "hochberg-sidak" => .hochbergSidak | "holm-bonferroni" => .holmBonferroni | _ => .holmSidak
    let rpowQ : ℚ → ℚ → ℚ := fun x y => if y.den = 1 ∧ 0 ≤ y.num then x ^ y.num.toNat else poison
    pure (" ".intercalate ((Mult.textbook rpowQ proc a ps).map (fun o =>
      s!"{showRat o.pvalue_adj} {showRat o.alpha_adj} {if o.null_rejected then 1 else 0}")))
  | _ => throw s!"unknown command {cmd}"

def main : IO Unit := do loop handler (← IO.getStdin)
