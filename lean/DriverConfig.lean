import TeaTasting.Driver.PyWire
import TeaTasting.Model.Config

/-! Driver for configuration histories: interprets a small program (set / with-context / raise /
try / construct metric / mutate the dict returned by get_config) into the monad of
`Model/Config.lean` with the GENERATED `Gen.configImpl`, logging the canonical configuration and
the live metrics after every statement. -/

open Proto PyWire Config

inductive Stmt
  | set (kvs : List (String × PyVal))
  | ctx (kvs : List (String × PyVal)) (body : List Stmt)
  | raise
  | tryB (body : List Stmt)
  | mk (entry name : String) (kvs : List (String × PyVal))
  | mut (k : String) (v : PyVal)

partial def showVal : PyVal → String
  | .none => "N"
  | .bool b => if b then "B1" else "B0"
  | .int z => s!"I{z}"
  | .float .nan => "Fnan"
  | .float .pinf => "Finf"
  | .float .ninf => "F-inf"
  | .float (.fin q) => "F" ++ showRat q
  | .str s => "S" ++ s
  | .seq l => "L[" ++ ",".intercalate (l.map showVal) ++ "]"
  | .other t => "O" ++ t

def sortKV (l : List (String × PyVal)) : List (String × PyVal) :=
  (l.toArray.qsort (fun a b => a.1 < b.1)).toList

def snapshot (s : St) : String :=
  let c := ",".intercalate ((sortKV s.cfg).map (fun kv => kv.1 ++ "=" ++ showVal kv.2))
  let m := ",".intercalate (s.metrics.map (fun m =>
    m.name ++ ":{" ++ ",".intercalate ((sortKV m.params).map (fun kv => kv.1 ++ "=" ++ showVal kv.2)) ++ "}"))
  c ++ "|" ++ m

def logSnap : M Unit := fun s => (.ok (), { s with log := s.log ++ [snapshot s] })

instance : Inhabited (M Unit) := ⟨M.pure ()⟩

mutual
partial def evalStmt : Stmt → M Unit
  | .set kvs => setConfig Gen.configImpl kvs
  | .ctx kvs body => configContext Gen.configImpl kvs (evalBlock body)
  | .raise => M.throw .runtime
  | .tryB body => M.tryCatch (evalBlock body)
  | .mk entry name kvs => construct entry name kvs
  | .mut k v => mutateReturned Gen.configImpl k v
partial def evalBlock : List Stmt → M Unit
  | [] => M.pure ()
  | st :: rest => M.bind (M.tryFinally (evalStmt st) logSnap) (fun _ => evalBlock rest)
end

def kvs : P (List (String × PyVal)) := list (do let k ← str; let v ← pyval; pure (k, v))

mutual
partial def stmt : P Stmt := do
  let t ← tok
  match t with
  | "set" => pure (.set (← kvs))
  | "ctx" => do let k ← kvs; let b ← block; pure (.ctx k b)
  | "raise" => pure .raise
  | "try" => pure (.tryB (← block))
  | "mk" => do let e ← str; let n ← str; let k ← kvs; pure (.mk e n k)
  | "mut" => do let k ← str; let v ← pyval; pure (.mut k v)
  | _ => throw s!"bad stmt {t}"
partial def block : P (List Stmt) := do
  let n ← nat
  let mut out := []
  for _ in [0:n] do
    out := out ++ [← stmt]
  pure out
end

/-- top level: every statement is wrapped in `try … except` so the history continues -/
def runTop (prog : List Stmt) : St :=
  (prog.foldl (fun s st => ((M.tryCatch (M.tryFinally (evalStmt st) logSnap)) s).2) Config.init)

def handler (cmd : String) : P String := do
  match cmd with
  | "history" =>
    let prog ← block
    pure (";".intercalate (runTop prog).log)
  | "impl" => pure (reprStr Gen.configImpl)
  | _ => throw s!"unknown command {cmd}"

def main : IO Unit := do loop handler (← IO.getStdin)
