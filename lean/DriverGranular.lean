import TeaTasting.Driver.Proto
import TeaTasting.Model.Granular

/-! Driver for `Model/Granular.lean`:
  read    <k> cols…  <m> allcols…  <nrows> (key v₁ … v_m)*        parts as  key|r;r;…  (rows `a,b,…`), keys sorted
  select  <f> fetched… <c> columns… <nrows> (v₁ … v_f)*           selected rows or `keyerror`
  analyze <alt> <nc> xs… <nt> xs… low0 low1 high0 high1            the 8 fields of BootstrapResult with stat = mean,
                                                                   the resampler's answer given on the line -/

open Proto Granular

def showRow (r : List ℚ) : String := ",".intercalate (r.map showRat)

def mean1 (sample : List (FRow ℚ)) : ℚ :=
  ((sample.map (fun r => r.headD 0)).sum) / (sample.length : ℚ)

def handler (cmd : String) : P String := do
  match cmd with
  | "read" =>
    let cols ← list str
    let all ← list str
    let n ← nat
    let rows ← many n (do let k ← int; let vs ← many all.length rat; pure (k, vs))
    let T : List (SRow Int ℚ) := rows.map (fun kv => { key := kv.1, val := fun c => lookup all kv.2 c })
    let parts := readGranular cols T
    let sorted := (parts.toArray.qsort (fun a b => a.1 < b.1)).toList
    pure ("|".intercalate (sorted.map (fun p => s!"{p.1}:" ++ ";".intercalate (p.2.map showRow))))
  | "select" =>
    let fetched ← list str
    let columns ← list str
    let n ← nat
    let rows ← many n (many fetched.length rat)
    match selectAsNumpy fetched rows columns with
    | none => pure "keyerror"
    | some sel => pure (";".intercalate (sel.map showRow))
  | "analyze" =>
    let alt ← str
    let c ← list rat
    let t ← list rat
    let l0 ← tok; let l1 ← tok; let h0 ← tok; let h1 ← tok
    let cfg : Settings ℚ := { n_resamples := 0, batch := none, confidence_level := 0, alternative := alt,
                              method := "", seed := none }
    -- the resampler's answer is carried as text: the model only routes it
    let r := analyzeGranular (ν := ℚ) (β := ℚ) (fun _ _ _ _ => ({ low0 := 0, low1 := 1, high0 := 2, high1 := 3 } : CI ℚ))
      mean1 cfg (c.map (fun x => [x])) (t.map (fun x => [x]))
    let route (q : ℚ) : String := if q = 0 then l0 else if q = 1 then l1 else if q = 2 then h0 else h1
    pure s!"{showRat r.control} {showRat r.treatment} {showRat r.effect_size} {route r.effect_size_ci_lower} {route r.effect_size_ci_upper} {showRat r.rel_effect_size} {route r.rel_effect_size_ci_lower} {route r.rel_effect_size_ci_upper}"
  | _ => throw s!"unknown command {cmd}"

def main : IO Unit := do loop handler (← IO.getStdin)
