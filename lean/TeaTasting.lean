import TeaTasting.Basic.Prelude
import TeaTasting.Spec.Sample
import TeaTasting.Gen.Aggr
import TeaTasting.Gen.Mean
