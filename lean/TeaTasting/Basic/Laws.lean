import TeaTasting.Basic.Prelude
import Mathlib.Tactic.FieldSimp
import Mathlib.Tactic.Ring
import Mathlib.Tactic.Linarith
import Mathlib.Tactic.Positivity
import Mathlib.Order.Monotone.Basic

/-! What is *assumed* about the external numerics, as `Prop`-valued structures that appear as
hypotheses of theorems (never as axioms).  They are sampled numerically against scipy on
every run (supporting evidence) and are satisfied by the rational stand-ins of the exact
correspondence mode where noted. -/

set_option linter.unusedSectionVars false

variable {α : Type} [Field α] [LinearOrder α] [IsStrictOrderedRing α]

/-- a continuous distribution, symmetric about 0, with a strictly increasing cdf -/
structure Dist.Laws (d : Dist α) : Prop where
  mono : StrictMono d.cdf
  pos : ∀ x, 0 < d.cdf x
  lt1 : ∀ x, d.cdf x < 1
  sf_eq : ∀ x, d.sf x = 1 - d.cdf x
  symm : ∀ x, d.cdf (-x) = 1 - d.cdf x
  cdf_ppf : ∀ q, 0 < q → q < 1 → d.cdf (d.ppf q) = q
  isf_eq : ∀ q, d.isf q = d.ppf (1 - q)

namespace Dist.Laws
variable {d : Dist α} (h : d.Laws)
include h

theorem ppf_lt_iff {q x : α} (hq0 : 0 < q) (hq1 : q < 1) : d.ppf q < x ↔ q < d.cdf x := by
  constructor
  · intro hx; have := h.mono hx; rwa [h.cdf_ppf q hq0 hq1] at this
  · intro hx; by_contra hc; push Not at hc
    have := h.mono.monotone hc; rw [h.cdf_ppf q hq0 hq1] at this; exact absurd hx (not_lt.mpr this)

theorem lt_ppf_iff {q x : α} (hq0 : 0 < q) (hq1 : q < 1) : x < d.ppf q ↔ d.cdf x < q := by
  constructor
  · intro hx; have := h.mono hx; rwa [h.cdf_ppf q hq0 hq1] at this
  · intro hx; by_contra hc; push Not at hc
    have := h.mono.monotone hc; rw [h.cdf_ppf q hq0 hq1] at this; exact absurd hx (not_lt.mpr this)

theorem ppf_le_iff {q x : α} (hq0 : 0 < q) (hq1 : q < 1) : d.ppf q ≤ x ↔ q ≤ d.cdf x := by
  rw [← not_lt, ← not_lt, h.lt_ppf_iff hq0 hq1]

theorem le_ppf_iff {q x : α} (hq0 : 0 < q) (hq1 : q < 1) : x ≤ d.ppf q ↔ d.cdf x ≤ q := by
  rw [← not_lt, ← not_lt, h.ppf_lt_iff hq0 hq1]

theorem ppf_neg {q : α} (hq0 : 0 < q) (hq1 : q < 1) : d.ppf (1 - q) = - d.ppf q := by
  apply h.mono.injective
  rw [h.cdf_ppf _ (by linarith) (by linarith), h.symm, h.cdf_ppf q hq0 hq1]

theorem isf_eq_neg_ppf {q : α} (hq0 : 0 < q) (hq1 : q < 1) : d.isf q = - d.ppf q := by
  rw [h.isf_eq, h.ppf_neg hq0 hq1]

theorem cdf_zero : d.cdf 0 = 1 / 2 := by
  have := h.symm 0
  rw [neg_zero] at this
  linarith

theorem ppf_half : d.ppf (1 / 2) = 0 := by
  apply h.mono.injective
  rw [h.cdf_ppf _ (by norm_num) (by norm_num), h.cdf_zero]

theorem ppf_mono {p q : α} (hp0 : 0 < p) (hp1 : p < 1) (hq0 : 0 < q) (hq1 : q < 1) (hpq : p ≤ q) :
    d.ppf p ≤ d.ppf q := by
  rw [h.ppf_le_iff hp0 hp1, h.cdf_ppf q hq0 hq1]; exact hpq

theorem ppf_nonneg {q : α} (hq : 1 / 2 ≤ q) (hq1 : q < 1) : 0 ≤ d.ppf q := by
  rw [← h.ppf_half]
  exact h.ppf_mono (by norm_num) (by norm_num) (by linarith) hq1 hq

theorem ppf_pos {q : α} (hq : 1 / 2 < q) (hq1 : q < 1) : 0 < d.ppf q := by
  rw [h.lt_ppf_iff (by linarith) hq1, h.cdf_zero]; exact hq

theorem sf_neg (x : α) : d.sf (-x) = d.cdf x := by
  rw [h.sf_eq, h.symm]; ring

end Dist.Laws

/-- laws of `math.sqrt`, `math.exp` and of the distribution families -/
structure Prims.Laws (P : Prims α) : Prop where
  sqrt_nonneg : ∀ x, 0 ≤ x → 0 ≤ P.sqrt x
  sqrt_sq : ∀ x, 0 ≤ x → P.sqrt x * P.sqrt x = x
  exp_pos : ∀ x, 0 < P.exp x
  exp_mono : StrictMono P.exp
  exp_zero : P.exp 0 = 1
  exp_neg : ∀ x, P.exp (-x) = (P.exp x)⁻¹
  t_laws : ∀ df, 0 < df → (P.t df).Laws
  norm_laws : (P.norm 0).Laws

/-- the two properties of the primitives that the *equality with the textbook test* needs
(satisfied by the rational stand-ins of the exact mode: proved in `Props/Stubs.lean`) -/
structure Prims.QuantileLaws (P : Prims α) : Prop where
  exp_neg : ∀ x, P.exp (-x) = (P.exp x)⁻¹
  t_isf : ∀ df q, 0 < q → q < 1 → (P.t df).isf q = - (P.t df).ppf q
  norm_isf : ∀ q, 0 < q → q < 1 → (P.norm 0).isf q = - (P.norm 0).ppf q

namespace Prims.Laws
variable {P : Prims α} (h : P.Laws)
include h

theorem sqrt_pos {x : α} (hx : 0 < x) : 0 < P.sqrt x := by
  rcases (h.sqrt_nonneg x hx.le).lt_or_eq with h1 | h1
  · exact h1
  · have := h.sqrt_sq x hx.le
    rw [← h1] at this
    simp at this
    exact absurd this.symm (ne_of_gt hx)

/-- `sqrt (c² x) = c sqrt x` for `c ≥ 0`, `x ≥ 0`: uniqueness of the non-negative root -/
theorem sqrt_mul_sq {c x : α} (hc : 0 ≤ c) (hx : 0 ≤ x) : P.sqrt (c * c * x) = c * P.sqrt x := by
  have h1 := h.sqrt_sq (c * c * x) (by positivity)
  have h2 := h.sqrt_sq x hx
  have n1 := h.sqrt_nonneg (c * c * x) (by positivity)
  have n2 : 0 ≤ c * P.sqrt x := mul_nonneg hc (h.sqrt_nonneg x hx)
  have e : P.sqrt (c * c * x) * P.sqrt (c * c * x) = (c * P.sqrt x) * (c * P.sqrt x) := by
    rw [h1]; calc c * c * x = c * c * (P.sqrt x * P.sqrt x) := by rw [h2]
      _ = _ := by ring
  exact (mul_self_inj n1 n2).mp e

end Prims.Laws
