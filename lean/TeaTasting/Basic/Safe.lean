import TeaTasting.Basic.PyVal

/-! Exception-safety rendering (C18): the same Python code, read for *whether it can raise*.

Numbers are elements of an arbitrary type `V` with UNINTERPRETED `+ − × max min abs`, comparisons,
square root, exponential and distribution functions — so the statement "never raises" holds for
whatever floating-point rounding, NaN or infinity produce.  Only the partial operations keep their
meaning:

* a value is *wrapped* (`utils.Float` / `utils.Int`, the zero-division-safe numbers) or *plain*,
  and *int-like* (`int`, `utils.Int`) or *float-like*.  A binary operation is dispatched to the
  wrapper — and gives a wrapped result — when the left operand is wrapped, or when the right
  operand is wrapped and the left one does not handle it first: `plain_float op utils.Int` is
  handled by `float.__op__` (an `Int` is an `int`) and gives a PLAIN float (`SV.wr`);
* `a / b` dispatched to the wrapper never raises (`utils.div`); otherwise it raises
  `ZeroDivisionError` iff the divisor is zero; `x ** 2` raises `OverflowError` iff it overflows;
* `math.sqrt` raises `ValueError` iff its argument is negative; `math.exp` raises
  `OverflowError` iff its argument overflows; `mean._exp` never raises;
* integer literals compute (`lit`), `x == 0` is `isZero`, and `max(x, 0)` is never negative. -/

structure Arith (V : Type) where
  add : V → V → V
  sub : V → V → V
  mul : V → V → V
  neg : V → V
  abs : V → V
  max : V → V → V
  min : V → V → V
  pow2 : V → V
  pow2Overflows : V → Bool
  divW : V → V → V
  divP : V → V → V
  eq : V → V → Bool
  lt : V → V → Bool
  le : V → V → Bool
  isNaN : V → Bool
  sqrtV : V → V
  isNeg : V → Bool
  expV : V → V
  overflows : V → Bool
  lit : Int → V
  ofRat : Int → Nat → V
  inf : Bool → V
  /-- laws of the literals and of the clamp -/
  add_lit : ∀ a b, add (lit a) (lit b) = lit (a + b)
  sub_lit : ∀ a b, sub (lit a) (lit b) = lit (a - b)
  mul_lit : ∀ a b, mul (lit a) (lit b) = lit (a * b)
  eq_lit : ∀ a b, eq (lit a) (lit b) = decide (a = b)
  max_zero_not_neg : ∀ x, isNeg (max x (lit 0)) = false

/-- a Python number: its (abstract) value, whether it is a zero-division-safe wrapper (`w`) and
whether it is int-like (`i`: `int` / `utils.Int`) -/
structure SV (V : Type) where
  v : V
  w : Bool
  i : Bool

namespace SV
variable {V : Type} (A : Arith V)

/-- is `a op b` dispatched to the zero-division-safe wrapper? -/
def wr (a b : SV V) : Bool := a.w || (b.w && (a.i || !b.i))

def lit (n : Int) : SV V := ⟨A.lit n, false, true⟩
def ofRat (p : Int) (q : Nat) : SV V := ⟨A.ofRat p q, false, false⟩
def inf (pos : Bool) : SV V := ⟨A.inf pos, false, false⟩
def add (a b : SV V) : SV V := ⟨A.add a.v b.v, wr a b, a.i && b.i⟩
def sub (a b : SV V) : SV V := ⟨A.sub a.v b.v, wr a b, a.i && b.i⟩
def mul (a b : SV V) : SV V := ⟨A.mul a.v b.v, wr a b, a.i && b.i⟩
def neg (a : SV V) : SV V := ⟨A.neg a.v, a.w, a.i⟩
def abs (a : SV V) : SV V := ⟨A.abs a.v, a.w, a.i⟩
/-- `max(a, b)` returns one of its arguments: wrapped / int-like only if both are -/
def max (a b : SV V) : SV V := ⟨A.max a.v b.v, a.w && b.w, a.i && b.i⟩
def min (a b : SV V) : SV V := ⟨A.min a.v b.v, a.w && b.w, a.i && b.i⟩
def eqB (a b : SV V) : Bool := A.eq a.v b.v
def ltB (a b : SV V) : Bool := A.lt a.v b.v
def leB (a b : SV V) : Bool := A.le a.v b.v
def isNaN (a : SV V) : Bool := A.isNaN a.v
def isZero (a : SV V) : Bool := A.eq a.v (A.lit 0)

/-- `a / b` (the result of a true division is float-like) -/
def div (a b : SV V) : Except PyErr (SV V) :=
  if wr a b then .ok ⟨A.divW a.v b.v, true, false⟩
  else if A.eq b.v (A.lit 0) then .error .zeroDiv
  else .ok ⟨A.divP a.v b.v, false, false⟩

/-- `a ** 2`: Python raises `OverflowError` where a product would give `inf` -/
def pow2 (a : SV V) : Except PyErr (SV V) :=
  if A.pow2Overflows a.v then .error .overflow else .ok ⟨A.pow2 a.v, a.w, a.i⟩

/-- `math.sqrt(a)` (returns a plain float) -/
def sqrt (a : SV V) : Except PyErr (SV V) :=
  if A.isNeg a.v then .error .valueError else .ok ⟨A.sqrtV a.v, false, false⟩

/-- `math.exp(a)` -/
def exp (a : SV V) : Except PyErr (SV V) :=
  if A.overflows a.v then .error .overflow else .ok ⟨A.expV a.v, false, false⟩

/-- `mean._exp(a)`: saturates instead of raising -/
def expSafe (a : SV V) : SV V := ⟨A.expV a.v, false, false⟩

end SV

/-- a frozen scipy distribution: its methods return plain floats and never raise (assumed) -/
structure DistS (V : Type) where
  cdf : SV V → SV V
  sf : SV V → SV V
  ppf : SV V → SV V
  isf : SV V → SV V

structure PrimsS (V : Type) where
  t : SV V → DistS V
  norm : SV V → DistS V
  nct : SV V → SV V → DistS V

/-- `Aggregates` in the safety rendering.  An entry is `Except`-valued because the entries of a
sum `a + b` are *computed* (by `_add_mean` …) and that computation is itself subject to the
question "can it raise"; Python computes every entry eagerly, the model on lookup — that no
entry of a sum of wrapped aggregates raises is a theorem (`C18.addS_entries_ok`).  Lookups of
missing keys (KeyError) are not modelled. -/
structure AggrS (V : Type) where
  count_ : SV V
  mean_ : String → Except PyErr (SV V)
  var_ : String → Except PyErr (SV V)
  cov_ : String → String → Except PyErr (SV V)

/-- `Aggregates.with_zero_div()`: every number becomes a zero-division-safe wrapper (`utils.numeric`
keeps int-likeness) -/
def AggrS.withZeroDiv {V : Type} (a : AggrS V) : AggrS V :=
  { count_ := ⟨a.count_.v, true, a.count_.i⟩
    mean_ := fun c => (a.mean_ c).map (fun x => ⟨x.v, true, x.i⟩)
    var_ := fun c => (a.var_ c).map (fun x => ⟨x.v, true, x.i⟩)
    cov_ := fun c d => (a.cov_ c d).map (fun x => ⟨x.v, true, x.i⟩) }

structure RatioCfgS (V : Type) where
  numer : String
  denom : Option String
  numer_covariate : Option String
  denom_covariate : Option String
  alternative : String
  confidence_level : SV V
  equal_var : Bool
  use_t : Bool
  alpha : SV V
  ratio : SV V
  power : SV V

structure MeanResultS (V : Type) where
  control : SV V
  treatment : SV V
  effect_size : SV V
  effect_size_ci_lower : SV V
  effect_size_ci_upper : SV V
  rel_effect_size : SV V
  rel_effect_size_ci_lower : SV V
  rel_effect_size_ci_upper : SV V
  pvalue : SV V
  statistic : SV V
