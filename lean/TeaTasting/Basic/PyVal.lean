import Mathlib.Data.Rat.Defs
import Mathlib.Algebra.Order.Ring.Rat
import Mathlib.Tactic.Linarith

/-! A small universe of Python values with Python's comparison / `isinstance` semantics, for the
parameter-validation and configuration properties (C13, C19).

`XR` is a Python float: a finite value (modelled as a rational — floats are dyadic rationals),
`±inf` or `nan`.  Comparisons involving `nan` are false; `bool ⊂ int` for `isinstance`; ordering
a `str`/`None`/sequence against a number raises `TypeError`. -/

inductive XR | fin (q : ℚ) | pinf | ninf | nan
deriving DecidableEq, Repr

namespace XR
/-- IEEE / Python `<` on floats: anything involving nan is false -/
def lt : XR → XR → Bool
  | nan, _ | _, nan => false
  | fin a, fin b => decide (a < b)
  | ninf, ninf => false
  | ninf, _ => true
  | _, ninf => false
  | pinf, _ => false
  | fin _, pinf => true

def le : XR → XR → Bool
  | nan, _ | _, nan => false
  | a, b => !(lt b a)

def eq : XR → XR → Bool
  | nan, _ | _, nan => false
  | fin a, fin b => decide (a = b)
  | pinf, pinf => true
  | ninf, ninf => true
  | _, _ => false
end XR

inductive PyErr | typeError | valueError | zeroDiv | keyError | overflow | runtime
deriving DecidableEq, Repr

inductive PyVal
  | none
  | bool (b : Bool)
  | int (z : ℤ)
  | float (f : XR)
  | str (s : String)
  | seq (l : List PyVal)
  | other (tag : String)
deriving Repr

/-- the classes that appear in `typ=` arguments -/
inductive Typ | float | int | bool | str | none | seq | dict
deriving DecidableEq, Repr

namespace PyVal

/-- `isinstance(v, T)`: `bool` is a subclass of `int`; `str` is a `Sequence` -/
def isinstance : PyVal → Typ → Bool
  | .float _, .float => true
  | .int _, .int => true
  | .bool _, .int => true
  | .bool _, .bool => true
  | .str _, .str => true
  | .str _, .seq => true
  | .seq _, .seq => true
  | .none, .none => true
  | _, _ => false

def isinstanceAny (v : PyVal) (ts : List Typ) : Bool := ts.any (v.isinstance ·)

/-- numeric view for comparisons (bool ⊂ int ⊂ real line ∪ {±inf, nan}) -/
def num? : PyVal → Option XR
  | .bool b => some (.fin (if b then 1 else 0))
  | .int z => some (.fin z)
  | .float f => some f
  | _ => Option.none

/-- `a < b`: numeric if both numeric, lexicographic on two strings, otherwise `TypeError` -/
def pyLt (a b : PyVal) : Except PyErr Bool :=
  match a.num?, b.num? with
  | some x, some y => .ok (XR.lt x y)
  | _, _ => match a, b with
    | .str s, .str t => .ok (decide (s < t))
    | _, _ => .error .typeError

def pyLe (a b : PyVal) : Except PyErr Bool :=
  match a.num?, b.num? with
  | some x, some y => .ok (XR.le x y)
  | _, _ => match a, b with
    | .str s, .str t => .ok (decide (s ≤ t))
    | _, _ => .error .typeError

def pyGt (a b : PyVal) : Except PyErr Bool := pyLt b a
def pyGe (a b : PyVal) : Except PyErr Bool := pyLe b a

/-- `a == b` never raises; numbers compare numerically across bool/int/float -/
def pyEq (a b : PyVal) : Bool :=
  match a.num?, b.num? with
  | some x, some y => XR.eq x y
  | _, _ => match a, b with
    | .str s, .str t => decide (s = t)
    | .none, .none => true
    | _, _ => false

def pyIn (a : PyVal) (l : List PyVal) : Bool := l.any (pyEq a ·)

end PyVal

/-- the keyword arguments of `utils.check_scalar` -/
structure CheckArgs where
  typ : Option (List Typ) := Option.none
  ge : Option PyVal := Option.none
  gt : Option PyVal := Option.none
  le : Option PyVal := Option.none
  lt : Option PyVal := Option.none
  ne : Option PyVal := Option.none
  in_ : Option (List PyVal) := Option.none

/-- iteration over a Python value that is a `Sequence` (a string iterates its characters) -/
def PyVal.iter : PyVal → List PyVal
  | .seq l => l
  | .str s => s.toList.map (fun c => PyVal.str (String.singleton c))
  | _ => []

/-- how an entry point obtains a parameter: the check applied to an explicit value, and the
configuration option used when the argument is `None` (if any) -/
inductive CheckKind
  | auto (name : String)                 -- `auto_check(x, name)`
  | scalar                               -- `check_scalar(x, …)` with the recorded arguments
  | autoEach (name : String)             -- `for v in x…: auto_check(v, name)`
  | scalarEach                           -- `for v in x: check_scalar(v, …)`
  | forwarded                            -- passed unchanged to another entry point (super().__init__, set_config)
  | opaque                               -- a check whose arguments are outside the modelled universe
deriving DecidableEq, Repr

structure EntryRow where
  entry : String
  param : String
  kind : CheckKind
  fromConfig : Option String := Option.none
deriving DecidableEq, Repr

/-- the structural choices of `config.py` that the scoping properties rest on (extracted from the
source by the translator) -/
structure ConfigImpl where
  /-- `set_config` validates every option before writing any -/
  validateFirst : Bool
  /-- `config_context` calls `set_config` inside the `try` whose `finally` restores -/
  enterInTry : Bool
  /-- the `finally` block clears the dict before putting the saved options back -/
  restoreClear : Bool
  /-- `get_config()` hands out a copy, not the live dict -/
  getCopies : Bool
deriving DecidableEq, Repr
