import Mathlib.Algebra.Order.Field.Basic
import Mathlib.Algebra.Order.AbsoluteValue.Basic
import Mathlib.Algebra.Order.Ring.Rat
import Mathlib.Data.Rat.Defs

/-! Hand-written prelude the generated code (`TeaTasting/Gen/*.lean`) is typed against.

Numbers are an arbitrary field `α`; the driver instantiates at `ℚ`.  External numerics
(`math.sqrt`, `math.exp`, the scipy distributions) are *parameters* collected in `Prims`;
what is assumed about them is stated as hypotheses (`Dist.Laws`, `Prims.Laws`, in
`Basic/Laws.lean`), never as axioms. -/

/-- a frozen scipy distribution: the four methods the code calls, kept separate so that
confusing `sf` with `cdf` is visible -/
structure Dist (α : Type) where
  cdf : α → α
  sf  : α → α
  ppf : α → α
  isf : α → α

structure Prims (α : Type) where
  sqrt : α → α
  exp  : α → α
  /-- `scipy.stats.t(df=·)` -/
  t    : α → Dist α
  /-- `scipy.stats.norm(loc=·)` -/
  norm : α → Dist α
  /-- `scipy.stats.nct(df=·, nc=·)` -/
  nct  : α → α → Dist α

/-- a confidence bound: finite or ±∞ -/
inductive Bound (α : Type) | fin (a : α) | posInf | negInf
deriving DecidableEq, Repr

instance {α} : Coe α (Bound α) := ⟨Bound.fin⟩

def Bound.subScalar {α} [Sub α] (b : Bound α) (x : α) : Bound α :=
  match b with | .fin a => .fin (a - x) | .posInf => .posInf | .negInf => .negInf

instance {α} [Sub α] : HSub (Bound α) α (Bound α) := ⟨Bound.subScalar⟩

@[simp] theorem Bound.fin_sub {α} [Sub α] (a x : α) : (Bound.fin a - x : Bound α) = .fin (a - x) := rfl
@[simp] theorem Bound.posInf_sub {α} [Sub α] (x : α) : ((Bound.posInf : Bound α) - x : Bound α) = .posInf := rfl
@[simp] theorem Bound.negInf_sub {α} [Sub α] (x : α) : ((Bound.negInf : Bound α) - x : Bound α) = .negInf := rfl

/-- `lo ≤ x` for a lower confidence bound `lo` (`−∞` is below everything, `+∞` below nothing) -/
def Bound.lowerLE {α} [LE α] : Bound α → α → Prop
  | .fin a, x => a ≤ x
  | .negInf, _ => True
  | .posInf, _ => False

/-- `x ≤ hi` for an upper confidence bound `hi` -/
def Bound.upperGE {α} [LE α] : Bound α → α → Prop
  | .fin a, x => x ≤ a
  | .posInf, _ => True
  | .negInf, _ => False

/-- the interval `[lo, hi]` contains `x` -/
def Bound.contains {α} [LE α] (lo hi : Bound α) (x : α) : Prop := lo.lowerLE x ∧ hi.upperGE x

/-- aggregated statistics, as total functions of column names (a Python `Aggregates`
object whose dictionaries hold every key that is looked up) -/
structure Aggr (α : Type) where
  count_ : α
  mean_ : String → α
  var_ : String → α
  cov_ : String → String → α

/-- the parameters of a `RatioOfMeans` / `Mean` metric object -/
structure RatioCfg (α : Type) where
  numer : String
  denom : Option String
  numer_covariate : Option String
  denom_covariate : Option String
  alternative : String
  confidence_level : α
  equal_var : Bool
  use_t : Bool
  alpha : α
  ratio : α
  power : α

structure MeanResult (α : Type) where
  control : α
  treatment : α
  effect_size : α
  effect_size_ci_lower : Bound α
  effect_size_ci_upper : Bound α
  rel_effect_size : α
  rel_effect_size_ci_lower : Bound α
  rel_effect_size_ci_upper : Bound α
  pvalue : α
  statistic : α

/-- `_Benjamini` object: `alpha` and the (possibly harmonic-inflated) family size -/
structure BenjaminiCfg (α : Type) where
  alpha : α
  m_adj_ : α

/-- `_Bonferroni` / `_Sidak` object -/
structure FwerCfg (α : Type) where
  alpha : α
  m : α

/-- `sum(1 / i for i in range(1, m + 1))` -/
def harmonic {α : Type} [Field α] (m : ℕ) : α :=
  ((List.range m).map (fun (i : ℕ) => (1 : α) / ((i : α) + 1))).sum

/-- the expected ratio of a `SampleRatio` metric: a number, or the per-variant mapping evaluated at
(treatment, control) -/
inductive RatioSpec (α : Type)
  | scalar (r : α)
  | mapping (rt rc : α)

/-- the parameters of a `SampleRatio` metric object -/
structure SRCfg (α : Type) where
  ratio : RatioSpec α
  method : String
  correction : Bool

structure SRResult (α : Type) where
  control : α
  treatment : α
  pvalue : α

/-- `math.isnan` in the value rendering: the model's numbers are elements of a field, never NaN
(what happens with NaN / inf is the subject of the safety rendering, C18) -/
def isNaN {α : Type} (_ : α) : Bool := false

@[simp] theorem isNaN_eq {α : Type} (x : α) : isNaN x = false := rfl
