import Mathlib.Algebra.Order.Field.Basic

/-! The laws of the real power `x ** y` (base in `[0,1]`, positive exponent) that the Šidák
theorems of C10 assume of their `rpow` parameter.  Kept free of the model prelude so that
`Props/C10Real.lean` can prove them for `Real.rpow`. -/

variable {α : Type} [Field α] [LinearOrder α] [IsStrictOrderedRing α]

namespace C10

/-- what the Šidák theorems assume of the power function `x ** y` (base in `[0,1]`, positive
exponent) — all of them theorems about the real power -/
structure RpowLaws (rpow : α → α → α) : Prop where
  one_base : ∀ y, rpow 1 y = 1
  exp_one : ∀ x, 0 ≤ x → rpow x 1 = x
  pos : ∀ x y, 0 < x → 0 < rpow x y
  nonneg : ∀ x y, 0 ≤ x → 0 ≤ rpow x y
  strictMono_base : ∀ x x' y, 0 ≤ x → x < x' → 0 < y → rpow x y < rpow x' y
  anti_exp : ∀ x y y', 0 ≤ x → x ≤ 1 → 0 < y → y ≤ y' → rpow x y' ≤ rpow x y
  inv : ∀ x y, 0 ≤ x → 0 < y → rpow (rpow x (1 / y)) y = x

theorem RpowLaws.mono_base {rpow : α → α → α} (hR : RpowLaws rpow) (x x' y : α) (hx : 0 ≤ x) (h : x ≤ x')
    (hy : 0 < y) : rpow x y ≤ rpow x' y := by
  rcases h.lt_or_eq with h | rfl
  · exact (hR.strictMono_base x x' y hx h hy).le
  · exact le_refl _

end C10
