import TeaTasting.Spec.Cuped

/-! Sample mean / variance of linearised and regression-adjusted observations. -/

namespace Spec

variable {α ρ : Type} [Field α]

theorem smean_lin (T : List ρ) (a b : ρ → α) (hn : (T.length : α) ≠ 0) (hb : S T b ≠ 0) :
    smean T (lin T a b) = smean T a / smean T b := by
  unfold lin
  unfold smean
  rw [S_lin]
  field_simp
  ring

theorem S_adj (T : List ρ) (f g : ρ → α) (θ μ : α) :
    S T (fun r => f r - θ * (g r - μ)) = S T f - θ * (S T g - (T.length : α) * μ) := by
  unfold S
  induction T with
  | nil => simp
  | cons r T ih => simp only [List.map_cons, List.sum_cons, List.length_cons, Nat.cast_succ, ih]; ring

theorem S_adj_mul (T : List ρ) (f g : ρ → α) (θ μ : α) :
    S T (fun r => (f r - θ * (g r - μ)) * (f r - θ * (g r - μ)))
      = S T (fun r => f r * f r) - 2 * θ * (S T (fun r => f r * g r) - μ * S T f)
        + θ * θ * (S T (fun r => g r * g r) - 2 * μ * S T g + (T.length : α) * μ * μ) := by
  unfold S
  induction T with
  | nil => simp
  | cons r T ih => simp only [List.map_cons, List.sum_cons, List.length_cons, Nat.cast_succ, ih]; ring

theorem smean_adj (T : List ρ) (f g : ρ → α) (θ μ : α) (hn : (T.length : α) ≠ 0) :
    smean T (fun r => f r - θ * (g r - μ)) = smean T f - θ * (smean T g - μ) := by
  unfold smean
  rw [S_adj]
  field_simp

theorem svar_adj (T : List ρ) (f g : ρ → α) (θ μ : α) (hn : (T.length : α) ≠ 0) :
    svar T (fun r => f r - θ * (g r - μ)) = svar T f + θ * θ * svar T g - 2 * θ * scov T f g := by
  unfold svar
  simp only [scov_raw _ _ _ hn, S_adj, S_adj_mul]
  by_cases h1 : (T.length : α) - 1 = 0
  · simp [h1]
  · field_simp
    ring

end Spec

namespace Spec

variable {α ρ : Type} [Field α]

theorem S_affine (T : List ρ) (g : ρ → α) (a b : α) :
    S T (fun r => a * g r + b) = a * S T g + (T.length : α) * b := by
  unfold S
  induction T with
  | nil => simp
  | cons r T ih => simp only [List.map_cons, List.sum_cons, List.length_cons, Nat.cast_succ, ih]; ring

theorem S_mul_affine (T : List ρ) (f g : ρ → α) (a b : α) :
    S T (fun r => f r * (a * g r + b)) = a * S T (fun r => f r * g r) + b * S T f := by
  unfold S
  induction T with
  | nil => simp
  | cons r T ih => simp only [List.map_cons, List.sum_cons, ih]; ring

theorem smean_affine (T : List ρ) (g : ρ → α) (a b : α) (hn : (T.length : α) ≠ 0) :
    smean T (fun r => a * g r + b) = a * smean T g + b := by
  unfold smean
  rw [S_affine]
  field_simp

theorem scov_affine_right (T : List ρ) (f g : ρ → α) (a b : α) (hn : (T.length : α) ≠ 0) :
    scov T f (fun r => a * g r + b) = a * scov T f g := by
  simp only [scov_raw _ _ _ hn, S_affine, S_mul_affine]
  by_cases h1 : (T.length : α) - 1 = 0
  · simp [h1]
  · field_simp
    ring

theorem scov_affine_left (T : List ρ) (f g : ρ → α) (a b : α) (hn : (T.length : α) ≠ 0) :
    scov T (fun r => a * g r + b) f = a * scov T g f := by
  rw [scov_comm, scov_affine_right _ _ _ _ _ hn, scov_comm]

theorem svar_affine (T : List ρ) (g : ρ → α) (a b : α) (hn : (T.length : α) ≠ 0) :
    svar T (fun r => a * g r + b) = a * a * svar T g := by
  unfold svar
  rw [scov_affine_right _ _ _ _ _ hn, scov_affine_left _ _ _ _ _ hn]
  ring

variable [LinearOrder α] [IsStrictOrderedRing α]

theorem thetaOf_affine (T : List ρ) (Y X : ρ → α) (a b : α) (ha : a ≠ 0)
    (hn : (T.length : α) ≠ 0) :
    thetaOf T Y (fun r => a * X r + b) = thetaOf T Y X / a := by
  unfold thetaOf
  rw [svar_affine _ _ _ _ hn, scov_affine_right _ _ _ _ _ hn]
  by_cases h : svar T X = 0
  · simp [h]
  · have : a * a * svar T X ≠ 0 := mul_ne_zero (mul_ne_zero ha ha) h
    simp only [h, this, if_false]
    field_simp

end Spec

namespace Spec

variable {α ρ : Type} [Field α] [LinearOrder α] [IsStrictOrderedRing α]

/-- `lin` with the constant-1 denominator is the column itself -/
theorem lin_one (T : List ρ) (a : ρ → α) (hn : (T.length : α) ≠ 0) :
    lin T a (fun _ => (1 : α)) = a := by
  funext r
  unfold lin
  rw [smean_one T hn]
  ring

/-- `lin` is homogeneous in the numerator -/
theorem lin_scale_numer (T : List ρ) (a b : ρ → α) (c : α) (hn : (T.length : α) ≠ 0) :
    lin T (fun r => c * a r + 0) b = fun r => c * lin T a b r + 0 := by
  funext r
  unfold lin
  rw [smean_affine _ _ _ _ hn]
  ring

/-- scaling the denominator by `c ≠ 0` divides `lin` by `c` -/
theorem lin_scale_denom (T : List ρ) (a b : ρ → α) (c : α) (hc : c ≠ 0) (hn : (T.length : α) ≠ 0) :
    lin T a (fun r => c * b r + 0) = fun r => c⁻¹ * lin T a b r + 0 := by
  funext r
  unfold lin
  rw [smean_affine _ _ _ _ hn]
  by_cases hb : smean T b = 0
  · simp [hb]
  · field_simp
    ring

/-- adjusted observations, abstractly: coefficient from (`Tall`, `Yall`, `Xall`), applied to (`Y`, `X`) -/
def adjustedOf (Tall : List ρ) (Yall Xall Y X : ρ → α) (μ : α) : ρ → α :=
  fun r => Y r - thetaOf Tall Yall Xall * (X r - μ)

/-- an affine change of the covariate (`X ↦ aX+b`, `a ≠ 0`, everywhere) leaves the adjusted
observations unchanged -/
theorem adjustedOf_affine (Tall : List ρ) (Yall Xall Y X : ρ → α) (μ a b : α) (ha : a ≠ 0)
    (hn : (Tall.length : α) ≠ 0) :
    adjustedOf Tall Yall (fun r => a * Xall r + b) Y (fun r => a * X r + b) (a * μ + b)
      = adjustedOf Tall Yall Xall Y X μ := by
  funext r
  unfold adjustedOf
  rw [thetaOf_affine _ _ _ _ _ ha hn]
  field_simp
  ring

end Spec
