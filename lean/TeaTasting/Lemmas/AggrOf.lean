import TeaTasting.Spec.Sample
import TeaTasting.Gen.Aggr
import Mathlib.Data.String.Basic
import Mathlib.Algebra.CharZero.Defs
import Mathlib.Data.Nat.Cast.Order.Field
import Mathlib.Tactic.Linarith
import Mathlib.Tactic.SplitIfs

/-! Helper lemmas relating the GENERATED accessors of `Aggregates` (`Gen.Aggr.mean/var/cov`)
to the sample statistics of `Spec.aggrOf`. -/

open Spec Gen

set_option linter.unusedSectionVars false

variable {α ρ : Type} [Field α] [LinearOrder α] [IsStrictOrderedRing α]

theorem natCast_ne_zero_of_pos {n : ℕ} (h : 1 ≤ n) : (n : α) ≠ 0 := by
  have : (0 : α) < (n : α) := by exact_mod_cast h
  exact ne_of_gt this

theorem natCast_sub_one_ne_zero {n : ℕ} (h : 2 ≤ n) : (n : α) - 1 ≠ 0 := by
  have : (1 : α) < (n : α) := by exact_mod_cast h
  intro h0
  have : (n : α) = 1 := by linarith
  linarith

@[simp] theorem aggrOf_count (T : List ρ) (col : String → ρ → α) :
    Aggr.count (aggrOf T col) = (T.length : α) := rfl

@[simp] theorem aggrOf_mean_some (T : List ρ) (col : String → ρ → α) (c : String) :
    Aggr.mean (aggrOf T col) (some c) = smean T (col c) := rfl

@[simp] theorem aggrOf_var_some (T : List ρ) (col : String → ρ → α) (c : String) :
    Aggr.var (aggrOf T col) (some c) = svar T (col c) := rfl

@[simp] theorem aggrOf_cov_some (T : List ρ) (col : String → ρ → α) (a b : String) :
    Aggr.cov (aggrOf T col) (some a) (some b) = scov T (col a) (col b) := by
  simp only [Aggr.cov, sortedTuple, aggrOf]
  split_ifs
  · exact scov_comm _ _ _
  · rfl

/-- the `None ⇒ constant 1` convention of `Aggregates.mean` agrees with the sample mean of
the constant column (for a non-empty sample) -/
theorem aggrOf_mean (T : List ρ) (col : String → ρ → α) (o : Option String)
    (hn : (T.length : α) ≠ 0) : Aggr.mean (aggrOf T col) o = smean T (colO col o) := by
  cases o with
  | none => simp [Aggr.mean, colO, smean_one T hn]
  | some c => rfl

theorem aggrOf_cov (T : List ρ) (col : String → ρ → α) (o₁ o₂ : Option String)
    (hn : (T.length : α) ≠ 0) :
    Aggr.cov (aggrOf T col) o₁ o₂ = scov T (colO col o₁) (colO col o₂) := by
  cases o₁ with
  | none => simp [Aggr.cov, colO, scov_const_left _ _ _ hn]
  | some a =>
    cases o₂ with
    | none => simp [Aggr.cov, colO, scov_const_right _ _ _ hn]
    | some b => simp [colO]

theorem aggrOf_var (T : List ρ) (col : String → ρ → α) (o : Option String)
    (hn : (T.length : α) ≠ 0) : Aggr.var (aggrOf T col) o = svar T (colO col o) := by
  cases o with
  | none => simp [Aggr.var, colO, svar, scov_const_left _ _ _ hn]
  | some c => rfl
