import TeaTasting.Spec.TwoSample
import TeaTasting.Lemmas.AggrOf
import Mathlib.Tactic.Positivity

/-! Non-negativity of sample variances and of the squared standard error: what makes the code's
`sqrt(max(·, 0))` guard the identity on valid data in exact arithmetic. -/

namespace Spec

set_option linter.unusedSectionVars false

variable {α ρ : Type} [Field α] [LinearOrder α] [IsStrictOrderedRing α]

theorem S_nonneg (T : List ρ) (f : ρ → α) (h : ∀ r, 0 ≤ f r) : 0 ≤ S T f := by
  unfold S
  induction T with
  | nil => simp
  | cons r T ih => simp only [List.map_cons, List.sum_cons]; exact add_nonneg (h r) ih

theorem svar_nonneg (T : List ρ) (f : ρ → α) (hn : 2 ≤ T.length) : 0 ≤ svar T f := by
  unfold svar scov
  have h1 : (0 : α) < (T.length : α) - 1 := by
    have : (1 : α) < (T.length : α) := by exact_mod_cast hn
    linarith
  exact div_nonneg (S_nonneg T _ (fun r => mul_self_nonneg _)) h1.le

theorem seSq_nonneg (o : Opts α) {v1 n1 v2 n2 : α} (hv1 : 0 ≤ v1) (hv2 : 0 ≤ v2) (hn1 : 2 ≤ n1) (hn2 : 2 ≤ n2) :
    0 ≤ seSq o v1 n1 v2 n2 := by
  have a1 : 0 < n1 := by linarith
  have a2 : 0 < n2 := by linarith
  have b1 : 0 ≤ n1 - 1 := by linarith
  have b2 : 0 ≤ n2 - 1 := by linarith
  have b3 : 0 < n1 + n2 - 2 := by linarith
  unfold seSq pooledVar
  split_ifs <;> positivity

theorem natCast_two_le {n : ℕ} (h : 2 ≤ n) : (2 : α) ≤ (n : α) := by exact_mod_cast h

end Spec
