import TeaTasting.Spec.TwoSample
import TeaTasting.Basic.Laws
import TeaTasting.Gen.Mean
import Mathlib.Tactic.SplitIfs

/-! Characterisation of the GENERATED analysis (`Gen.RatioOfMeans.analyze_stats`,
`scale_and_distr_*`) by the textbook test of `Spec.TwoSample`.  These are the lemmas that touch
the generated terms; the property theorems are derived from them. -/

open Spec Gen

set_option linter.unusedSectionVars false

variable {α ρ : Type} [Field α] [LinearOrder α] [IsStrictOrderedRing α]

/-- the test options carried by a metric object -/
def optsOf (cfg : RatioCfg α) : Opts α :=
  { alternative := cfg.alternative, confidence_level := cfg.confidence_level,
    equal_var := cfg.equal_var, use_t := cfg.use_t }

@[simp] theorem optsOf_alternative (cfg : RatioCfg α) : (optsOf cfg).alternative = cfg.alternative := rfl
@[simp] theorem optsOf_confidence_level (cfg : RatioCfg α) :
    (optsOf cfg).confidence_level = cfg.confidence_level := rfl
@[simp] theorem optsOf_equal_var (cfg : RatioCfg α) : (optsOf cfg).equal_var = cfg.equal_var := rfl
@[simp] theorem optsOf_use_t (cfg : RatioCfg α) : (optsOf cfg).use_t = cfg.use_t := rfl

/-- the code takes `sqrt(max(·, 0))` (a guard against a negative rounding residue); in exact
arithmetic on valid statistics the radicand is non-negative and the guard is the identity -/
theorem scale_and_distr_null_eq' (P : Prims α) (cfg : RatioCfg α) (cv cn tv tn : α) :
    RatioOfMeans.scale_and_distr_null P cfg cv cn tv tn
      = (P.sqrt (max (seSq (optsOf cfg) cv cn tv tn) 0), refDist P (optsOf cfg) cv cn tv tn, ()) := by
  unfold RatioOfMeans.scale_and_distr_null seSq refDist degF welchDf pooledVar optsOf
  cases cfg.equal_var <;> cases cfg.use_t <;> simp <;>
    (try (first | ring | (congr 1 <;> ring) | (congr 2 <;> ring) | (congr 3 <;> ring)))

theorem scale_and_distr_null_eq (P : Prims α) (cfg : RatioCfg α) (cv cn tv tn : α)
    (h : 0 ≤ seSq (optsOf cfg) cv cn tv tn) :
    RatioOfMeans.scale_and_distr_null P cfg cv cn tv tn
      = (P.sqrt (seSq (optsOf cfg) cv cn tv tn), refDist P (optsOf cfg) cv cn tv tn, ()) := by
  rw [scale_and_distr_null_eq', max_eq_left h]

/-- the generated `_analyze_stats` IS the textbook test from summary statistics, for every
option cell, given `isf q = −ppf q` on (0,1) and `exp (−x) = 1/exp x` -/
theorem analyze_stats_eq_textbook (P : Prims α) (hP : P.QuantileLaws) (cfg : RatioCfg α)
    (hc0 : 0 < cfg.confidence_level) (hc1 : cfg.confidence_level < 1)
    (cm cv cn tm tv tn : α)
    (hse : 0 ≤ seSq (optsOf cfg) cv cn tv tn)
    (hsel : 0 ≤ seSq (optsOf cfg) (cv / cm ^ 2) cn (tv / tm ^ 2) tn) :
    RatioOfMeans.analyze_stats P cfg cm cv cn tm tv tn
      = testFromStats P (optsOf cfg) cm cv cn tm tv tn := by
  have hisf : ∀ (v1 n1 v2 n2 : α),
      (refDist P (optsOf cfg) v1 n1 v2 n2).isf cfg.confidence_level
        = - (refDist P (optsOf cfg) v1 n1 v2 n2).ppf cfg.confidence_level := by
    intro v1 n1 v2 n2
    unfold refDist
    split_ifs
    · exact hP.t_isf _ _ hc0 hc1
    · exact hP.norm_isf _ hc0 hc1
  have e1 : cv / cm / cm = cv / cm ^ 2 := by ring
  have e2 : tv / tm / tm = tv / tm ^ 2 := by ring
  unfold RatioOfMeans.analyze_stats testFromStats
  simp only [e1, e2, scale_and_distr_null_eq P cfg _ _ _ _ hse, scale_and_distr_null_eq P cfg _ _ _ _ hsel]
  have ho : (optsOf cfg).alternative = cfg.alternative := rfl
  have hcl : (optsOf cfg).confidence_level = cfg.confidence_level := rfl
  simp only [ho, hcl]
  split_ifs <;>
    simp only [hisf, Bound.posInf_sub, Bound.negInf_sub, hP.exp_neg, mul_neg, MeanResult.mk.injEq,
      Bound.fin.injEq, true_and, and_true] <;>
    (try ring_nf)

/-- `analyze_aggregates` feeds `_analyze_stats` with the (CUPED-adjusted) means and variances of
the two variants, the coefficient and the covariate mean being computed on `control + treatment` -/
theorem analyze_aggregates_eq (P : Prims α) (cfg : RatioCfg α) (c t : Aggr α) :
    RatioOfMeans.analyze_aggregates P cfg c t
      = RatioOfMeans.analyze_stats P cfg
          (RatioOfMeans.metric_mean cfg c (RatioOfMeans.covariate_coef cfg (c + t))
            (Aggr.mean (c + t) cfg.numer_covariate / Aggr.mean (c + t) cfg.denom_covariate))
          (RatioOfMeans.metric_var cfg c (RatioOfMeans.covariate_coef cfg (c + t)))
          (Aggr.count c)
          (RatioOfMeans.metric_mean cfg t (RatioOfMeans.covariate_coef cfg (c + t))
            (Aggr.mean (c + t) cfg.numer_covariate / Aggr.mean (c + t) cfg.denom_covariate))
          (RatioOfMeans.metric_var cfg t (RatioOfMeans.covariate_coef cfg (c + t)))
          (Aggr.count t) := by
  rfl
