import TeaTasting.Basic.Prelude

/-! Line protocol shared by the drivers: whitespace-separated tokens in, one line out.
Rationals are written `p/q` (or `p`); an absent optional name is `-`. -/

namespace Proto

abbrev P := StateT (List String) (Except String)

def tok : P String := do
  match (← get) with
  | [] => throw "unexpected end of line"
  | t :: ts => set ts; pure t

def nat : P Nat := do
  let t ← tok
  match t.toNat? with
  | some n => pure n
  | none => throw s!"bad nat {t}"

def int : P Int := do
  let t ← tok
  match t.toInt? with
  | some n => pure n
  | none => throw s!"bad int {t}"

def parseRat (t : String) : Option ℚ :=
  match t.splitOn "/" with
  | [p] => p.toInt?.map (fun (n : Int) => (n : ℚ))
  | [p, q] => match p.toInt?, q.toNat? with
    | some n, some d => if d = 0 then none else some ((n : ℚ) / (d : ℚ))
    | _, _ => none
  | _ => none

def rat : P ℚ := do
  let t ← tok
  match parseRat t with
  | some q => pure q
  | none => throw s!"bad rat {t}"

def str : P String := tok

def optStr : P (Option String) := do
  let t ← tok
  pure (if t = "-" then none else some t)

def bool : P Bool := do
  let t ← tok
  match t with
  | "1" | "true" | "True" => pure true
  | "0" | "false" | "False" => pure false
  | _ => throw s!"bad bool {t}"

def many {β} (n : Nat) (p : P β) : P (List β) :=
  match n with
  | 0 => pure []
  | n + 1 => do let x ← p; let xs ← many n p; pure (x :: xs)

/-- length-prefixed list -/
def list {β} (p : P β) : P (List β) := do let n ← nat; many n p

def showRat (q : ℚ) : String :=
  if q.den = 1 then toString q.num else s!"{q.num}/{q.den}"

def showBound : Bound ℚ → String
  | .fin a => showRat a
  | .posInf => "inf"
  | .negInf => "-inf"

def showRats (l : List ℚ) : String := " ".intercalate (l.map showRat)

/-- `Aggregates` on the wire: `k name₁ … name_k count mean₁ … mean_k var₁ … var_k cov(i≤j) …`
(the diagonal `cov(x,x)` is on the wire: a complete `Aggregates` object holds it).
A name that is looked up but absent yields the poison value `-987654321` (the real code
raises `KeyError`; the harness never compares such a case by value). -/
def poison : ℚ := -987654321

def lookup (names : List String) (vals : List ℚ) (c : String) : ℚ :=
  match (names.zip vals).find? (fun p => p.1 = c) with
  | some p => p.2
  | none => poison

def pairs (names : List String) : List (String × String) :=
  match names with
  | [] => []
  | a :: rest => (a :: rest).map (fun b => (a, b)) ++ pairs rest

def aggr : P (Aggr ℚ) := do
  let names ← list str
  let count ← rat
  let means ← many names.length rat
  let vars ← many names.length rat
  let ps := pairs names
  let covs ← many ps.length rat
  let covTab := ps.zip covs
  pure { count_ := count
         mean_ := lookup names means
         var_ := lookup names vars
         cov_ := fun a b =>
           match covTab.find? (fun p => p.1 = (a, b)) with
           | some p => p.2
           | none => poison }

/-- names must be sorted ascending on the wire so that the `(i≤j)` pairs are the sorted keys -/
def showAggr (names : List String) (a : Aggr ℚ) : String :=
  showRats ([a.count_] ++ names.map a.mean_ ++ names.map a.var_
    ++ (pairs names).map (fun p => a.cov_ p.1 p.2))

def cfg : P (RatioCfg ℚ) := do
  let numer ← str
  let denom ← optStr
  let ncov ← optStr
  let dcov ← optStr
  let alternative ← str
  let cl ← rat
  let ev ← bool
  let ut ← bool
  let alpha ← rat
  let ratio ← rat
  let power ← rat
  pure { numer := numer, denom := denom, numer_covariate := ncov, denom_covariate := dcov,
         alternative := alternative, confidence_level := cl, equal_var := ev, use_t := ut,
         alpha := alpha, ratio := ratio, power := power }

def srcfg : P (SRCfg ℚ) := do
  let kind ← str
  let a ← rat
  let b ← rat
  let method ← str
  let corr ← bool
  pure { ratio := if kind = "scalar" then .scalar a else .mapping a b, method := method, correction := corr }

def showResult (r : MeanResult ℚ) : String :=
  " ".intercalate [showRat r.control, showRat r.treatment, showRat r.effect_size,
    showBound r.effect_size_ci_lower, showBound r.effect_size_ci_upper,
    showRat r.rel_effect_size, showBound r.rel_effect_size_ci_lower,
    showBound r.rel_effect_size_ci_upper, showRat r.pvalue, showRat r.statistic]

/-- a table on the wire: `ncols nrows` then the cells row by row; columns are named `c0 c1 …` -/
def table : P (List (Array ℚ)) := do
  let nc ← nat
  let nr ← nat
  let rows ← many nr (many nc rat)
  pure (rows.map List.toArray)

def colIdx (c : String) : Nat := ((c.drop 1).toString.toNat?).getD 0

def tcol : String → Array ℚ → ℚ := fun c r => r.getD (colIdx c) poison

def runLine (handler : String → P String) (line : String) : String :=
  let toks := (line.splitOn " ").filter (· ≠ "")
  match toks with
  | [] => "err empty"
  | cmd :: rest =>
    match (handler cmd).run rest with
    | .ok (out, []) => out
    | .ok (_, extra) => s!"err trailing tokens {extra.length}"
    | .error e => s!"err {e}"

partial def loop (handler : String → P String) (h : IO.FS.Stream) : IO Unit := do
  let line ← h.getLine
  if line.isEmpty then return ()
  let l := (line.dropEndWhile (fun c => c = '\n' || c = '\r')).toString
  IO.println (runLine handler l)
  loop handler h

end Proto
