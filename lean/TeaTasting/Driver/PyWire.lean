import TeaTasting.Driver.Proto
import TeaTasting.Basic.PyVal

/-! Python values on the wire:  `N`  `B0|B1`  `I<int>`  `Fnan|Finf|F-inf|F<p/q>`  `S<hex utf8>`
`L<n> item…`  `O<tag>`. -/

namespace PyWire
open Proto

def hexVal (c : Char) : Nat :=
  if '0' ≤ c ∧ c ≤ '9' then c.toNat - '0'.toNat
  else if 'a' ≤ c ∧ c ≤ 'f' then c.toNat - 'a'.toNat + 10 else 0

def unhex (s : String) : String :=
  let rec go : List Char → List UInt8
    | a :: b :: rest => (UInt8.ofNat (hexVal a * 16 + hexVal b)) :: go rest
    | _ => []
  (String.fromUTF8? ⟨(go s.toList).toArray⟩).getD ""

partial def pyval : P PyVal := do
  let t ← tok
  let body := (t.drop 1).toString
  match t.toList.head? with
  | some 'N' => pure .none
  | some 'B' => pure (.bool (body = "1"))
  | some 'I' => match body.toInt? with
    | some z => pure (.int z)
    | none => throw s!"bad int {t}"
  | some 'F' =>
    if body = "nan" then pure (.float .nan)
    else if body = "inf" then pure (.float .pinf)
    else if body = "-inf" then pure (.float .ninf)
    else match parseRat body with
      | some q => pure (.float (.fin q))
      | none => throw s!"bad float {t}"
  | some 'S' => pure (.str (unhex body))
  | some 'L' => match body.toNat? with
    | some n => do
      let mut items := []
      for _ in [0:n] do
        items := items ++ [← pyval]
      pure (.seq items)
    | none => throw s!"bad list {t}"
  | some 'O' => pure (.other body)
  | _ => throw s!"bad value {t}"

def showOutcome : Except PyErr PyVal → String
  | .ok _ => "ok"
  | .error .typeError => "TypeError"
  | .error .valueError => "ValueError"
  | .error _ => "OtherError"

end PyWire
