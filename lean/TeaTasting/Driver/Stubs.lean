import TeaTasting.Basic.Prelude
import Mathlib.Algebra.Order.Field.Rat

/-! Rational stand-ins for `math.sqrt`, `math.exp` and the scipy distributions, used by the
exact correspondence mode.  The Python side (`harness/stubs.py`) defines the *same* functions
on `fractions.Fraction`; both sides then compute in exact rational arithmetic, so that the
generated model at `ℚ` and the real code must agree digit for digit.  The stand-ins act as
uninterpreted functions: two programs that differ as terms differ on random rational inputs
except with negligible probability.  Family 2 (thorough tier) is a second, different choice. -/

namespace Stubs

def baseCdf (x : ℚ) : ℚ := (1 + x / (1 + |x|)) / 2
def basePpf (q : ℚ) : ℚ := let y := 2 * q - 1; y / (1 - |y|)

/-- scale `k`, location `loc` -/
def stubD (k loc : ℚ) : Dist ℚ :=
  { cdf := fun x => baseCdf ((x - loc) * k)
    sf := fun x => 1 - baseCdf ((x - loc) * k)
    ppf := fun q => basePpf q / k + loc
    isf := fun q => basePpf (1 - q) / k + loc }

def fam1 : Prims ℚ :=
  { sqrt := fun x => x / (1 + x) + 1/3
    exp := fun x => if 0 ≤ x then 1 + x else 1 / (1 - x)
    t := fun df => stubD (df / (df + 1)) 0
    norm := fun loc => stubD 1 loc
    nct := fun df nc => stubD (df / (df + 1)) nc }

def fam2 : Prims ℚ :=
  { sqrt := fun x => (2 * x + 1/5) / (x + 3)
    exp := fun x => if 0 ≤ x then 1 + x + x * x / 2 else 1 / (1 - x + x * x / 2)
    t := fun df => stubD ((2 * df + 1) / (2 * df + 5)) 0
    norm := fun loc => stubD (7/5) loc
    nct := fun df nc => stubD ((2 * df + 1) / (2 * df + 5)) (nc * 9 / 10) }

/-- stand-in for `scipy.stats.binomtest(k, n, p).pvalue` in the exact mode (an arbitrary fixed
rational function: it only has to be called with the right arguments) -/
def binomStub (k n p : ℚ) : ℚ := (k + 1) / (n + 2) * p + (n - k) / (n + 3) * (1 - p) / 7

def family (n : Nat) : Prims ℚ := if n = 2 then fam2 else fam1

end Stubs
