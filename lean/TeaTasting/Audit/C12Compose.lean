import TeaTasting.Props.C12Compose
#print axioms C12.covers_mergedOf
#print axioms C12.entry_eq_standalone
#print axioms C12.entry_indep_of_others
#print axioms C12.order_preserved
#print axioms C12.sortedTuple_eq_sortedPair
#print axioms C12.mem_ratio_cov_cols
#print axioms C12.agreeOn_of_agreeCols
#print axioms C12.ratio_frame
#print axioms C12.ratio_entries_eq_standalone
#print axioms C12.readsExact_of_answersFrom
#print axioms C12.ratio_entries_eq_standalone_on_exact_backend
