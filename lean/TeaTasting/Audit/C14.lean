import TeaTasting.Props.C14
#print axioms C14.aggrOf_append
#print axioms C14.add_comm
#print axioms C14.sortedTuple_idem
#print axioms C14.add_assoc
#print axioms C14.ratio_cov_eq_scov_linearised
#print axioms C14.ratio_var_none
#print axioms C14.ratio_cov_none_none
#print axioms C14.sortedTuple_comm
#print axioms C14.cov_symm
#print axioms C14.ratio_cov_self
#print axioms C14.ratio_cov_self_aggrOf
#print axioms C14.ratio_var_eq_svar_linearised
