import TeaTasting.Props.C10Family
#print axioms C10.mem_family
#print axioms C10.family_none
#print axioms C10.family_length
#print axioms C10.selected_single
#print axioms C10.family_sel_congr
#print axioms C10.family_perm_experiments
#print axioms C10.family_perm_metrics
#print axioms C10.distribute_keys
#print axioms C10.distribute_flatten
#print axioms C10.adjustAll_flatten
