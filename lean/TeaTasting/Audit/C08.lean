import TeaTasting.Props.C08
#print axioms C08.scale_and_distr_alt_eq
#print axioms C08.seSq_opts
#print axioms C08.degF_opts
#print axioms C08.refDist_opts
#print axioms C08.power_eq_textbook
#print axioms C08.power_mem_Icc
#print axioms C08.seSq_power
#print axioms C08.sqrt_mono
#print axioms C08.powerSe_antitone_n
#print axioms C08.powerSe_mono_v
#print axioms C08.power_z_greater
#print axioms C08.power_z_less
#print axioms C08.power_mono_effect_z
#print axioms C08.power_mono_n_z
#print axioms C08.power_mono_variance_z
#print axioms C08.cuped_var_le
#print axioms C08.power_mono_effect_t_partial
