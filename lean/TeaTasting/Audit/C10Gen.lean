import TeaTasting.Props.C10Gen
#print axioms C10.gen_stepup_loop
#print axioms C10.gen_stepdown_loop
#print axioms C10.gen_hochberg_eq
#print axioms C10.gen_holm_eq
