import TeaTasting.Props.C12Gen
#print axioms C12.gen_pairs_given
#print axioms C12.gen_pairs_all
#print axioms C12.gen_raise
