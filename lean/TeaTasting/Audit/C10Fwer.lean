import TeaTasting.Props.C10Fwer
#print axioms C10.stepup_generic
#print axioms C10.stepdown_generic
#print axioms C10.pairwise_entriesUp
#print axioms C10.pairwise_entriesDown
#print axioms C10.bonferroni_coef_up
#print axioms C10.adjust_fwer_hochberg_bonferroni
#print axioms C10.sidak_entry
#print axioms C10.sidak_thr_antitone
#print axioms C10.adjust_fwer_holm_sidak
#print axioms C10.adjust_fwer_hochberg_sidak
