import TeaTasting.Props.C11
#print axioms C11.correction_form
#print axioms C11.analyze_eq_textbook
#print axioms C11.counts_reported
#print axioms C11.method_switch
#print axioms C11.scalar_mapping_agree
#print axioms C11.correctedDeviation_neg
#print axioms C11.swap_invariant_norm
#print axioms C11.binomPmf_swap
#print axioms C11.binomTwoSided_swap
#print axioms C11.swap_invariant_binom
