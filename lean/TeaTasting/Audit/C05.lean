import TeaTasting.Props.C05
#print axioms C05.cupedTest_no_cov
#print axioms C05.S_one_ne_zero
#print axioms C05.ratio_analyze_eq_textbook
#print axioms C05.mean_eq_ratio_none
#print axioms C05.ratio_denom_none_eq_mean
#print axioms C05.ratio_denom_ones_eq_mean
