import TeaTasting.Props.C04
#print axioms C04.mean_analyze_eq_textbook
#print axioms C04.testFromStats_point
#print axioms C04.rel_effect_eq
