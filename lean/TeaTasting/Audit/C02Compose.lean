import TeaTasting.Props.C02Compose
#print axioms C02.agreeCols_of_answersFrom
#print axioms C02.analyze_indep_of_backend
#print axioms C02.ratio_analyze_indep_of_backend
