import TeaTasting.Props.C09Grid
#print axioms C09.flatMap_map_length
#print axioms C09.flatMap_map_getElem?
#print axioms C09.rows_count
#print axioms C09.rows_eq_grid
#print axioms C09.effectPairs_abs
#print axioms C09.effectPairs_rel
#print axioms C09.effectPairs_solving
#print axioms C09.nList_given
#print axioms C09.nList_default
#print axioms C09.raises_iff
#print axioms C09.pairs_related
#print axioms C09.abs_rel_related
#print axioms C09.row_keeps_inputs
#print axioms C09.row_n_is_ceil
