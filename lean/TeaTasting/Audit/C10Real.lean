import TeaTasting.Props.C10Real
#print axioms C10.real_rpowLaws
