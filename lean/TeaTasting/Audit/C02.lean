import TeaTasting.Props.C02
#print axioms C02.S_perm
#print axioms C02.smean_perm
#print axioms C02.scov_perm
#print axioms C02.svar_perm
#print axioms C02.S_map_fn
#print axioms C02.smean_map
#print axioms C02.scov_map
#print axioms C02.isStats_perm
#print axioms C02.isStats_map
#print axioms C02.isStats_unique
#print axioms C02.pipelines_agree
#print axioms C02.result_keys
