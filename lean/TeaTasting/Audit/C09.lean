import TeaTasting.Props.C09
#print axioms C09.findBoundaryAux_spec
#print axioms C09.findBoundary_spec
#print axioms C09.findBoundary_sign
#print axioms C09.bracket_admissible_n
#print axioms C09.bracket_ordered_n
#print axioms C09.solve_effect_reproduces_power
#print axioms C09.solved_effect_sign
#print axioms C09.ceil_is_minimal
#print axioms C09.solve_n_reproduces_power
