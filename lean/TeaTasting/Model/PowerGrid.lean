import Mathlib.Algebra.Order.Floor.Defs
import Mathlib.Algebra.Order.Field.Basic

/-! Executable model of the row assembly of `RatioOfMeans.solve_power_from_aggregates` and of
`_validate_power_parameters` (`metrics/mean.py`; hand-written, tied to the code by exact
correspondence: `harness/props/c09.py` records what `_solve_power_from_stats` returned for each
cell of the grid and the model must assemble the same rows).

The solver itself is the parameter `solve` (its model and theorems are `Model/Solve.lean` /
`Props/C09.lean`); here is what surrounds it: which of power / effect size / relative effect size
/ n_obs are inputs, the conversion absolute ↔ relative by the (adjusted) metric mean, the grid
effect size (outer) × n_obs (inner), and what is written into each row. -/

namespace PowerGrid

variable {α : Type} [Field α] [LinearOrder α] [IsStrictOrderedRing α] [FloorRing α]

/-- the `parameter` argument of `solve_power` -/
inductive Param | power | effect | relEffect | nObs
deriving DecidableEq, Repr

def Param.solvesEffect : Param → Bool
  | .effect | .relEffect => true
  | _ => false

/-- the attributes of the metric that `_validate_power_parameters` reads; a scalar is the
one-element list (`_to_seq`) -/
structure Cfg (α : Type) where
  effect : Option (List α)
  rel : Option (List α)
  nObs : Option (List α)
  power : α

/-- one cell of the grid handed to `_solve_power_from_stats`: `(effect_size, rel_effect_size, n_obs)`;
`none` is Python's `None` (the quantity being solved for) -/
abbrev Cell (α : Type) := Option α × Option α × Option α

/-- `_validate_power_parameters`, the effect sizes: pairs `(absolute, relative)` in input order;
`none` = ValueError (both are `None` although one is needed) -/
def effectPairs (cfg : Cfg α) (mm : α) (par : Param) : Option (List (Option α × Option α)) :=
  if par.solvesEffect then some [(none, none)]
  else match cfg.effect, cfg.rel with
    | none, none => none
    | some es, none => some (es.map (fun e => (some e, some (e / mm))))
    | _, some rs => some (rs.map (fun r => (some (r * mm), some r)))

/-- `_validate_power_parameters`, the sample sizes -/
def nList (cfg : Cfg α) (cnt : α) (par : Param) : List (Option α) :=
  match par with
  | .nObs => [none]
  | _ => match cfg.nObs with
    | none => [some cnt]
    | some ns => ns.map some

/-- the grid in the order of the two nested loops: effect sizes outer, n_obs inner -/
def cells (cfg : Cfg α) (mm cnt : α) (par : Param) : Option (List (Cell α)) :=
  (effectPairs cfg mm par).map (fun ps =>
    ps.flatMap (fun p => (nList cfg cnt par).map (fun n => (p.1, p.2, n))))

/-- a row of `MeanPowerResults` -/
structure Row (α : Type) where
  power : Option α
  effect : Option α
  rel : Option α
  nObs : Option α
deriving Repr

/-- what is written for one cell given the value `v` the solver returned for it -/
def row (cfg : Cfg α) (mm : α) (par : Param) (c : Cell α) (v : α) : Row α :=
  { power := if par = .power then some v else some cfg.power,
    effect := if par.solvesEffect then some v else c.1,
    rel := if par.solvesEffect then some (v / mm) else c.2.1,
    nObs := if par = .nObs then some ((Int.ceil v : ℤ) : α) else c.2.2 }

/-- `solve_power_from_aggregates` after the statistics are computed: `solve` is
`_solve_power_from_stats` as a function of the cell -/
def solvePower (cfg : Cfg α) (mm cnt : α) (par : Param) (solve : Cell α → α) : Option (List (Row α)) :=
  (cells cfg mm cnt par).map (fun cs => cs.map (fun c => row cfg mm par c (solve c)))

end PowerGrid
