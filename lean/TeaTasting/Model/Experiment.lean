import Mathlib.Data.List.Basic
import Mathlib.Data.List.Perm.Basic
import Mathlib.Order.Basic
import Mathlib.Data.String.Basic

/-! Executable model of `experiment.py`: variant-pair construction, merging of the statistics the
metrics declare, and the sequence of fetches from the data backend (hand-written; tied to the code
by correspondence — recorded pairs, requested statistics and fetch events). -/

namespace Experiment

variable {κ : Type} [LinearOrder κ]

/-- the two comprehensions of `Experiment.analyze` over the SORTED variants -/
def pairs (variants : List κ) : Option κ → List (κ × κ)
  | some control => (variants.filter (fun t => t ≠ control)).map (fun t => (control, t))
  | none => variants.flatMap (fun c => (variants.filter (fun t => c < t)).map (fun t => (c, t)))

/-- what `analyze` does with the pairs -/
inductive Outcome (κ : Type)
  | raise
  | one (p : κ × κ)
  | all (ps : List (κ × κ))
deriving Repr

def analyzePairs (variants : List κ) (control : Option κ) (allVariants : Bool) : Outcome κ :=
  let ps := pairs variants control
  if ps.length ≠ 1 ∧ allVariants = false then .raise
  else if allVariants then .all ps else match ps with | [p] => .one p | _ => .raise

/-- `AggrCols` -/
structure AggrCols where
  has_count : Bool := false
  mean_cols : List String := []
  var_cols : List String := []
  cov_cols : List (String × String) := []
deriving Repr, DecidableEq

def sortedPair (p : String × String) : String × String := if p.2 < p.1 then (p.2, p.1) else p

/-- `AggrCols.__or__` (sets: order irrelevant, duplicates removed, covariance pairs sorted) -/
def AggrCols.or (a b : AggrCols) : AggrCols :=
  { has_count := a.has_count || b.has_count
    mean_cols := (a.mean_cols ++ b.mean_cols).dedup
    var_cols := (a.var_cols ++ b.var_cols).dedup
    cov_cols := ((a.cov_cols ++ b.cov_cols).map sortedPair).dedup }

def AggrCols.len (a : AggrCols) : Nat :=
  (if a.has_count then 1 else 0) + a.mean_cols.length + a.var_cols.length + a.cov_cols.length

/-- `RatioOfMeans.aggr_cols`: count, mean and variance of every named role column, covariance of
every pair `col0 < col1` -/
def ratioAggrCols (roles : List (Option String)) : AggrCols :=
  let cols := roles.filterMap id
  { has_count := true, mean_cols := cols, var_cols := cols
    cov_cols := cols.flatMap (fun c0 => (cols.filter (fun c1 => c0 < c1)).map (fun c1 => (c0, c1))) }

/-- how a metric gets its data -/
inductive MetricKind
  | aggregated (cols : AggrCols)
  | granular (cols : List String)
  | both (acols : AggrCols) (gcols : List String)
  | plain
deriving Repr

/-- a materialisation from the data backend -/
inductive Event
  | aggFetch (grouped : Bool) (cols : AggrCols)
  | granFetch (cols : List String)
  | variantsFetch
  | metricFetch (name : String)
deriving Repr, DecidableEq

def aggrPart : MetricKind → Option AggrCols
  | .aggregated c => some c
  | .both c _ => some c
  | _ => none

def granPart : MetricKind → Option (List String)
  | .granular c => some c
  | .both _ c => some c
  | _ => none

/-- `_read_data`: OR-merge of the declared statistics, union of the row-level columns -/
def mergedAggr (metrics : List (String × MetricKind)) : AggrCols :=
  metrics.foldl (fun acc m => match aggrPart m.2 with | some c => acc.or c | none => acc) {}

def mergedGran (metrics : List (String × MetricKind)) : List String :=
  (metrics.flatMap (fun m => (granPart m.2).getD [])).dedup

/-- `_analyze_metric`: a metric is handed the pre-read dict when there is one for its kind; otherwise it
is called on the data itself (and reads it) -/
def refetch (hasA hasG : Bool) (m : String × MetricKind) : Option Event :=
  match m.2 with
  | .plain => some (Event.metricFetch m.1)
  | .aggregated _ => if hasA then none else some (Event.metricFetch m.1)
  | .granular _ => if hasG then none else some (Event.metricFetch m.1)
  | .both _ _ => if hasA then none else if hasG then none else some (Event.metricFetch m.1)

/-- the fetch events of `Experiment.analyze` over `npairs` pairs -/
def analyzeTrace (metrics : List (String × MetricKind)) (variant : String) (npairs : Nat) : List Event :=
  let a := mergedAggr metrics
  let g := mergedGran metrics
  let hasA := decide (0 < a.len)
  let hasG := decide (0 < g.length)
  (if hasA then [Event.aggFetch true a] else [])
  ++ (if hasG then [Event.granFetch (g ++ [variant])] else [])
  ++ (if !hasA && !hasG then [Event.variantsFetch] else [])
  ++ (List.range npairs).flatMap (fun _ => metrics.filterMap (refetch hasA hasG))

end Experiment

namespace Experiment

/-- how a metric takes part in `Experiment.solve_power` -/
inductive PowerKind
  | aggregated (cols : AggrCols)   -- `PowerBaseAggregated`
  | plain                          -- `PowerBase` only: reads the data itself
  | notPower                       -- no power analysis: skipped
deriving Repr

def mergedPower (metrics : List (String × PowerKind)) : AggrCols :=
  metrics.foldl (fun acc m => match m.2 with | .aggregated c => acc.or c | _ => acc) {}

def powerRefetch (m : String × PowerKind) : Option Event :=
  match m.2 with
  | .plain => some (Event.metricFetch m.1)
  | _ => none

/-- the fetch events of `Experiment.solve_power` -/
def solvePowerTrace (metrics : List (String × PowerKind)) : List Event :=
  let a := mergedPower metrics
  (if 0 < a.len then [Event.aggFetch false a] else [])
  ++ metrics.filterMap powerRefetch

end Experiment
