import Mathlib.Algebra.Order.Field.Basic
import Mathlib.Algebra.Order.Ring.Rat
import Mathlib.Algebra.Order.Field.Rat
import Mathlib.Data.Rat.Defs
import Mathlib.Algebra.BigOperators.Group.List.Basic

/-! Executable model of `datasets.py::_make_data` as a function of the generator parameters and of the
RECORDED random draws (the outputs of the `numpy.random.Generator` calls, in call order).  Hand-written;
tied by correspondence (harness/props/c20.py records every RNG call of the real run, the driver recomputes
the distribution parameters and every column from the recorded draws).  `round(2)` is a parameter. -/

namespace Datasets

variable {α : Type} [Field α] [LinearOrder α]

structure Params (α : Type) where
  n_users : Nat
  ratio : α
  su : α          -- sessions_uplift
  ou : α          -- orders_uplift
  ru : α          -- revenue_uplift
  avg_sessions : α
  aops : α        -- avg_orders_per_session
  arpo : α        -- avg_revenue_per_order
  covariates : Bool

/-- `_check_params` -/
def Valid (P : Params α) : Prop :=
  10 ≤ P.n_users ∧ 0 < P.ratio ∧ 1 / P.avg_sessions - 1 < P.su ∧ -1 < P.ou
    ∧ P.ou < (1 + P.su) / P.aops - 1 ∧ -1 < P.ru ∧ 1 < P.avg_sessions ∧ 0 < P.aops ∧ P.aops < 1 ∧ 0 < P.arpo

instance (P : Params ℚ) : Decidable (Valid P) := by unfold Valid; infer_instance

/-! ### multipliers and the parameters handed to the RNG (`v` = the variant, 0 or 1) -/

def sessMult (P : Params α) (v : Nat) : α := 1 + P.su * v
def opsMult (P : Params α) (v : Nat) : α := (1 + P.ou * v) / (1 + P.su * v)
def rpoMult (P : Params α) (v : Nat) : α := (1 + P.ru * v) / (1 + P.ou * v)

/-- `rng.binomial(n=1, p=ratio / (1 + ratio))` -/
def pVariant (P : Params α) : α := P.ratio / (1 + P.ratio)
/-- `rng.poisson(lam=avg_sessions*sessions_mult - 1)` -/
def lamSessions (P : Params α) (v : Nat) : α := P.avg_sessions * sessMult P v - 1
/-- `rng.beta(a=…, b=…)` (`orders_per_sessions_sample_size = 1`) -/
def betaA (P : Params α) (v : Nat) : α := P.aops * opsMult P v * 1
def betaB (P : Params α) (v : Nat) : α := (1 - P.aops * opsMult P v) * 1
/-- the argument of `np.log` in the mean of the log-normal revenue per order -/
def lognormalArg (P : Params α) (v : Nat) : α := P.arpo * rpoMult P v
/-- covariates: `rng.poisson(lam=sessions / sessions_mult)` -/
def lamSessCov (P : Params α) (sessions : Nat) (v : Nat) : α := (sessions : α) / sessMult P v
/-- covariates: `rng.binomial(n=sessions_covariate, p=min(orders_per_sessions / mult, 1))` -/
def pOrdersCov (P : Params α) (ops : α) (v : Nat) : α := min (ops / opsMult P v) 1
/-- covariates: the argument of `np.log` in the mean of the covariate log-normal -/
def lognormalCovArg (P : Params α) (rpo : α) (v : Nat) : α := rpo / rpoMult P v

/-! ### the recorded draws -/

/-- per-user draws: `variant` (binomial), `poisson` (sessions − 1), `beta` (orders per session) -/
structure UserDraws (α : Type) where
  variant : List Nat
  poisson : List Nat
  beta : List α

/-- per-row draws (one row per user, or per session when exploded) -/
structure RowDraws (α : Type) where
  orders : List Nat          -- binomial(n = sessions of the row, p = beta[user])
  rpo : List α               -- log-normal revenue per order
  sessCov : List Nat         -- covariates=True only
  ordersCov : List Nat
  rpoCov : List α

structure Row (α : Type) where
  user : Nat
  variant : Nat
  sessions : Nat
  orders : Nat
  revenue : α
  sessions_cov : α
  orders_cov : α
  revenue_cov : α

def sessionsOf (U : UserDraws α) (u : Nat) : Nat := 1 + U.poisson.getD u 0

/-- the `user` column: `arange(n)` or `repeat(arange(n), sessions)` -/
def userCol (P : Params α) (U : UserDraws α) (explode : Bool) : List Nat :=
  if explode then (List.range P.n_users).flatMap (fun u => List.replicate (sessionsOf U u) u)
  else List.range P.n_users

/-- `_avg_by_groups` at row `j`: the mean of `vals` over the rows with the same user -/
def avgByGroup (users : List Nat) (vals : Nat → α) (j : Nat) : α :=
  let u := users.getD j 0
  let idx := (List.range users.length).filter (fun i => users.getD i 0 = u)
  (idx.map vals).sum / (idx.length : α)

/-- the raw covariate draws of row `j` -/
def rawSessCov (R : RowDraws α) (j : Nat) : α := ((R.sessCov.getD j 0 : Nat) : α)
def rawOrdCov (R : RowDraws α) (j : Nat) : α := ((R.ordersCov.getD j 0 : Nat) : α)
def rawRevCov (R : RowDraws α) (j : Nat) : α := ((R.ordersCov.getD j 0 : Nat) : α) * R.rpoCov.getD j 0

/-- `_make_data`: the rows, from the parameters and the recorded draws -/
def makeData (round2 : α → α) (P : Params α) (explode : Bool) (U : UserDraws α) (R : RowDraws α) : List (Row α) :=
  let users := userCol P U explode
  (List.range users.length).map (fun j =>
    let u := users.getD j 0
    let orders := R.orders.getD j 0
    { user := u
      variant := U.variant.getD u 0
      sessions := if explode then 1 else sessionsOf U u
      orders := orders
      revenue := round2 ((orders : α) * R.rpo.getD j 0)
      sessions_cov := if !P.covariates then 0 else if explode then avgByGroup users (rawSessCov R) j else rawSessCov R j
      orders_cov := if !P.covariates then 0 else if explode then avgByGroup users (rawOrdCov R) j else rawOrdCov R j
      revenue_cov := if !P.covariates then 0
        else round2 (if explode then avgByGroup users (rawRevCov R) j else rawRevCov R j) })

/-- the draws respect the ranges of their distributions and have one entry per user / row -/
structure DrawsOK (P : Params α) (explode : Bool) (U : UserDraws α) (R : RowDraws α) : Prop where
  len_variant : U.variant.length = P.n_users
  len_poisson : U.poisson.length = P.n_users
  len_beta : U.beta.length = P.n_users
  variant01 : ∀ v ∈ U.variant, v ≤ 1
  beta01 : ∀ b ∈ U.beta, 0 ≤ b ∧ b ≤ 1
  len_orders : R.orders.length = (userCol P U explode).length
  len_rpo : R.rpo.length = (userCol P U explode).length
  orders_le : ∀ j < (userCol P U explode).length,
    R.orders.getD j 0 ≤ (if explode then 1 else sessionsOf U ((userCol P U explode).getD j 0))
  rpo_pos : ∀ x ∈ R.rpo, 0 < x
  ordersCov_le : ∀ j, R.ordersCov.getD j 0 ≤ R.sessCov.getD j 0
  rpoCov_pos : ∀ x ∈ R.rpoCov, 0 < x

end Datasets
