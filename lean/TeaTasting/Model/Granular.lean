import Mathlib.Data.List.Dedup
import Mathlib.Data.List.Perm.Basic

/-! Executable model of the row-level path: `metrics/base.py::read_granular` (project on the declared
columns + variant, split by variant value), `resampling.py::_select_as_numpy`, and the assembly of
`BootstrapResult` in `Bootstrap.analyze_granular`.  Hand-written; tied by correspondence
(harness/props/c15.py).  `scipy.stats.bootstrap` and the user's statistic are parameters. -/

namespace Granular

variable {κ ν : Type} [DecidableEq κ]

/-- a source row: its variant and its value in every column -/
structure SRow (κ ν : Type) where
  key : κ
  val : String → ν

/-- a fetched row: the values of the fetched columns, in the order of `cols` -/
abbrev FRow (ν : Type) := List ν

/-- `table.select(cols)` of one source row -/
def project (cols : List String) (r : SRow κ ν) : FRow ν := cols.map r.val

/-- `read_granular`: one entry per distinct variant value (the ORDER of the entries is not modelled: the result is a dict and
`Experiment.analyze` sorts its keys), holding
the rows of that variant, projected on `cols`, in source order -/
def readGranular (cols : List String) (T : List (SRow κ ν)) : List (κ × List (FRow ν)) :=
  ((T.map (·.key)).dedup).map (fun k => (k, (T.filter (fun r => r.key = k)).map (project cols)))

/-- `pa.Table[col]` on a table fetched with columns `cols`: the position of the column (`none`: KeyError) -/
def colIndex (cols : List String) (c : String) : Option Nat :=
  let i := cols.idxOf c
  if i < cols.length then some i else none

/-- `_select_as_numpy(part, columns)`: for each row the values of `columns`, looked up by NAME in the
fetched table (a single column gives a vector: rows of length 1 here) -/
def selectAsNumpy (fetched : List String) (part : List (FRow ν)) (columns : List String) : Option (List (FRow ν)) :=
  match columns.mapM (colIndex fetched) with
  | none => none
  | some idx => part.mapM (fun row => idx.mapM (fun i => row[i]?))

/-- the settings `Bootstrap.analyze_granular` must hand to `scipy.stats.bootstrap` -/
structure Settings (α : Type) where
  n_resamples : Nat
  batch : Option Nat
  confidence_level : α
  alternative : String
  method : String
  seed : Option Nat
deriving DecidableEq, Repr

/-- what `scipy.stats.bootstrap` returns for the stacked statistic: `low[0], low[1], high[0], high[1]` -/
structure CI (β : Type) where
  low0 : β
  low1 : β
  high0 : β
  high1 : β

structure BootstrapResult (β : Type) where
  control : β
  treatment : β
  effect_size : β
  effect_size_ci_lower : β
  effect_size_ci_upper : β
  rel_effect_size : β
  rel_effect_size_ci_lower : β
  rel_effect_size_ci_upper : β

/-- the stacked statistic: index 0 the absolute, index 1 the relative effect -/
def stacked {β : Type} [Sub β] [Div β] [One β] (stat : List (FRow ν) → β) (contr treat : List (FRow ν)) : β × β :=
  (stat treat - stat contr, stat treat / stat contr - 1)

/-- `Bootstrap.analyze_granular` with the external resampler as a parameter: it receives the two samples
(control first), the stacked statistic and the metric's settings -/
def analyzeGranular {α β : Type} [Sub β] [Div β] [One β]
    (boot : List (FRow ν) → List (FRow ν) → (List (FRow ν) → List (FRow ν) → β × β) → Settings α → CI β)
    (stat : List (FRow ν) → β) (cfg : Settings α) (contr treat : List (FRow ν)) : BootstrapResult β :=
  let st := stacked stat contr treat
  let ci := boot contr treat (stacked stat) cfg
  { control := stat contr, treatment := stat treat,
    effect_size := st.1, effect_size_ci_lower := ci.low0, effect_size_ci_upper := ci.high0,
    rel_effect_size := st.2, rel_effect_size_ci_lower := ci.low1, rel_effect_size_ci_upper := ci.high1 }

end Granular
