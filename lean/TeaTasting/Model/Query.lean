import TeaTasting.Spec.Sample
import Mathlib.Data.List.Dedup

/-! A small deep-embedded algebra of the aggregation pipelines `aggr.py` builds (Narwhals
pipeline, Ibis native graph, Ibis SQL-demeaning fallback), with an executable meaning.

Column names are structured (`Name`): user columns and the intermediate / output names the code
formats (`_count`, `_mean__c`, `_var__c`, `_cov__a__b`, `_demean__c`, `_group_mean__c`).  The harness parses the real
names into this type when it canonicalises a captured pipeline. -/

namespace Query

inductive Name
  | user (s : String)
  | count
  | mean (c : String)
  | var (c : String)
  | cov (a b : String)
  | demean (c : String)
  | gmean (c : String)          -- `_group_mean__c`
deriving DecidableEq, Repr

/-- row-level and aggregate expressions (one language, as in Narwhals / Ibis) -/
inductive Expr
  | col (n : Name)
  | lit (q : Int)
  | len                         -- `nw.len()`
  | countStar                   -- `table.count()`
  | cast (e : Expr)             -- `.cast("float")`
  | mean (e : Expr)
  | sum (e : Expr)
  | varSample (e : Expr)        -- `.var(how="sample")`
  | varPop (e : Expr)
  | covSample (e f : Expr)      -- `.cov(…, how="sample")`
  | covPop (e f : Expr)
  | sub (a b : Expr)
  | mul (a b : Expr)
  | div (a b : Expr)
  | over (e : Expr)             -- `.over(group)` / Ibis window over `group_by(group)`
deriving DecidableEq, Repr

inductive Stage
  | withColumns (defs : List (Name × Expr))
  /-- `data.join(data.group_by(g).agg(defs), on=g, how="left")`: per-group aggregates attached to every row -/
  | joinGroup (defs : List (Name × Expr))
  | aggregate (grouped : Bool) (defs : List (Name × Expr))
deriving DecidableEq, Repr

abbrev Q := List Stage

variable {α κ : Type} [Field α] [DecidableEq κ]

structure Row (κ α : Type) where
  key : κ
  val : Name → α

open Spec

/-- value of an expression at row `r` with frame `T` (the rows an aggregate ranges over) -/
def evalRow (T : List (Row κ α)) (r : Row κ α) : Expr → α
  | .col n => r.val n
  | .lit q => (q : α)
  | .len => (T.length : α)
  | .countStar => (T.length : α)
  | .cast e => evalRow T r e
  | .mean e => smean T (fun r' => evalRow T r' e)
  | .sum e => S T (fun r' => evalRow T r' e)
  | .varSample e => svar T (fun r' => evalRow T r' e)
  | .varPop e => S T (fun r' => (evalRow T r' e - smean T (fun r'' => evalRow T r'' e))
      * (evalRow T r' e - smean T (fun r'' => evalRow T r'' e))) / (T.length : α)
  | .covSample e f => scov T (fun r' => evalRow T r' e) (fun r' => evalRow T r' f)
  | .covPop e f => S T (fun r' => (evalRow T r' e - smean T (fun r'' => evalRow T r'' e))
      * (evalRow T r' f - smean T (fun r'' => evalRow T r'' f))) / (T.length : α)
  | .sub a b => evalRow T r a - evalRow T r b
  | .mul a b => evalRow T r a * evalRow T r b
  | .div a b => evalRow T r a / evalRow T r b
  | .over e => evalRow (T.filter (fun r' => r'.key = r.key)) r e

def lookupDef (defs : List (Name × Expr)) (n : Name) : Option Expr :=
  (defs.find? (fun d => d.1 = n)).map (·.2)

/-- `with_columns` / `mutate`: new or replaced columns, all evaluated on the INPUT table -/
def withColumns (defs : List (Name × Expr)) (T : List (Row κ α)) : List (Row κ α) :=
  T.map (fun r => { r with val := fun n => match lookupDef defs n with
                                    | some e => evalRow T r e
                                    | none => r.val n })

/-- the aggregated row of a group `G` (any row of `G` serves for the non-aggregate leaves) -/
def aggRow (defs : List (Name × Expr)) (G : List (Row κ α)) (k : κ) : Row κ α :=
  { key := k
    val := fun n => match lookupDef defs n, G.head? with
      | some e, some r0 => evalRow G r0 e
      | _, _ => 0 }

/-- `group_by(g).agg(…)` / `select(…)` of aggregates -/
def aggregate [Inhabited κ] (grouped : Bool) (defs : List (Name × Expr)) (T : List (Row κ α)) : List (Row κ α) :=
  if grouped then
    ((T.map (·.key)).dedup).map (fun k => aggRow defs (T.filter (fun r => r.key = k)) k)
  else [aggRow defs T default]

/-- left join, on the group key, of the table with its own `group_by(key).agg(defs)`: every row gets the
aggregated row of its group under the names of `defs` (the right-hand side has one row per key, so no row
is duplicated or lost; the order of the output rows is irrelevant to everything downstream) -/
def joinGroup (defs : List (Name × Expr)) (T : List (Row κ α)) : List (Row κ α) :=
  T.map (fun r => { r with val := fun n => match lookupDef defs n with
                                    | some _ => (aggRow defs (T.filter (fun r' => r'.key = r.key)) r.key).val n
                                    | none => r.val n })

def evalStage [Inhabited κ] : Stage → List (Row κ α) → List (Row κ α)
  | .withColumns defs, T => withColumns defs T
  | .joinGroup defs, T => joinGroup defs T
  | .aggregate g defs, T => aggregate g defs T

def eval [Inhabited κ] (q : Q) (T : List (Row κ α)) : List (Row κ α) := q.foldl (fun t s => evalStage s t) T

/-! ## what `read_aggregates` is asked for, and the three pipelines the code builds -/

structure ColSpec where
  has_count : Bool
  mean_cols : List String
  var_cols : List String
  cov_cols : List (String × String)
deriving Repr, DecidableEq

/-- `_validate_aggr_cols`: duplicates removed, covariance pairs sorted -/
def validate (s : ColSpec) : ColSpec :=
  { s with mean_cols := s.mean_cols.dedup, var_cols := s.var_cols.dedup,
           cov_cols := (s.cov_cols.map (fun p => if p.2 < p.1 then (p.2, p.1) else p)).dedup }

/-- `covar_cols = {*var_cols, *chain(*cov_cols)}` -/
def covarCols (s : ColSpec) : List String :=
  (s.var_cols ++ s.cov_cols.flatMap (fun p => [p.1, p.2])).dedup

def ucol (c : String) : Expr := .col (.user c)

/-- `_demean_nw`: ungrouped, one `with_columns` of `col − col.mean()`; grouped, the group means are
computed by `group_by(g).agg(…)`, joined back by the key, and subtracted -/
def demeanNwStages (grouped : Bool) (cc : List String) : List Stage :=
  if grouped then
    [Stage.joinGroup (cc.map (fun c => (Name.gmean c, Expr.mean (ucol c)))),
     Stage.withColumns (cc.map (fun c => (Name.demean c, Expr.sub (ucol c) (.col (.gmean c)))))]
  else
    [Stage.withColumns (cc.map (fun c => (Name.demean c, Expr.sub (ucol c) (.mean (ucol c)))))]

/-- `_read_aggr_narwhals` -/
def nwQuery (grouped : Bool) (s : ColSpec) : Q :=
  let cc := covarCols s
  (if cc.isEmpty then [] else
    demeanNwStages grouped cc ++
    [Stage.withColumns (s.var_cols.map (fun c => (Name.var c, Expr.mul (.col (.demean c)) (.col (.demean c))))
       ++ s.cov_cols.map (fun p => (Name.cov p.1 p.2, Expr.mul (.col (.demean p.1)) (.col (.demean p.2)))))])
  ++ [Stage.aggregate grouped
       ((if s.has_count || !cc.isEmpty then [(Name.count, Expr.len)] else [])
        ++ s.mean_cols.map (fun c => (Name.mean c, Expr.mean (ucol c)))
        ++ s.var_cols.map (fun c => (Name.var c, Expr.mean (.col (.var c))))
        ++ s.cov_cols.map (fun p => (Name.cov p.1 p.2, Expr.mean (.col (.cov p.1 p.2)))))]
  ++ (if cc.isEmpty then [] else
    [Stage.withColumns
      (s.var_cols.map (fun c => (Name.var c,
          Expr.div (.col (.var c)) (.sub (.lit 1) (.div (.lit 1) (.col .count)))))
       ++ s.cov_cols.map (fun p => (Name.cov p.1 p.2,
          Expr.div (.col (.cov p.1 p.2)) (.sub (.lit 1) (.div (.lit 1) (.col .count))))))])

/-- `_read_aggr_ibis`, backend with `Variance` and `Covariance` -/
def ibisNativeQuery (grouped : Bool) (s : ColSpec) : Q :=
  [Stage.aggregate grouped
    ((if s.has_count then [(Name.count, Expr.countStar)] else [])
     ++ s.mean_cols.map (fun c => (Name.mean c, Expr.mean (.cast (ucol c))))
     ++ s.var_cols.map (fun c => (Name.var c, Expr.varSample (.cast (ucol c))))
     ++ s.cov_cols.map (fun p => (Name.cov p.1 p.2, Expr.covSample (.cast (ucol p.1)) (.cast (ucol p.2)))))]

/-- `_read_aggr_ibis`, SQL-demeaning fallback -/
def ibisFallbackQuery (grouped : Bool) (s : ColSpec) : Q :=
  let cc := covarCols s
  (if cc.isEmpty then [] else
    [Stage.withColumns (cc.map (fun c => (Name.demean c,
      Expr.sub (ucol c) (if grouped then .over (.mean (.cast (ucol c))) else .mean (.cast (ucol c))))))])
  ++ [Stage.aggregate grouped
       ((if s.has_count then [(Name.count, Expr.countStar)] else [])
        ++ s.mean_cols.map (fun c => (Name.mean c, Expr.mean (.cast (ucol c))))
        ++ s.var_cols.map (fun c => (Name.var c,
            Expr.div (.sum (.mul (.col (.demean c)) (.col (.demean c)))) (.sub .countStar (.lit 1))))
        ++ s.cov_cols.map (fun p => (Name.cov p.1 p.2,
            Expr.div (.sum (.mul (.col (.demean p.1)) (.col (.demean p.2)))) (.sub .countStar (.lit 1)))))]

end Query
