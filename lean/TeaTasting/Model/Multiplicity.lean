import TeaTasting.Gen.Multiplicity
import Mathlib.Data.List.Sort

/-! Executable model of the step-up / step-down loops of `multiplicity.py` (hand-written; the
`adjust` functions are GENERATED).  Tied to the code by exact correspondence on Fractions. -/

namespace Mult

variable {α : Type} [Field α] [LinearOrder α] [IsStrictOrderedRing α]

/-- what the loop writes into a metric result -/
structure Out (α : Type) where
  pvalue_adj : α
  alpha_adj : α
  null_rejected : Bool
deriving Repr

/-- body of `_hochberg_stepup` over the p-values sorted DESCENDING; `i` is the position
(`k = m − i`), `pmax` / `amin` the carried `pvalue_adj_max` / `alpha_adj_min` -/
def stepupAux (adjust : α → α → α × α) (m : ℕ) : List α → ℕ → α → α → List (Out α)
  | [], _, _, _ => []
  | p :: rest, i, pmax, amin =>
    let k : α := (m : α) - (i : α)
    let pa := (adjust p k).1
    let aa := (adjust p k).2
    let amin' := if amin = 0 ∧ p ≤ aa then aa else amin
    let aa' := max aa amin'
    let pa' := min pa pmax
    { pvalue_adj := pa', alpha_adj := aa', null_rejected := decide (p ≤ aa') }
      :: stepupAux adjust m rest (i + 1) pa' amin'

/-- `_hochberg_stepup` on a list already sorted descending -/
def hochbergStepup (adjust : α → α → α × α) (ps : List α) : List (Out α) :=
  stepupAux adjust ps.length ps 0 1 0

/-- body of `_holm_stepdown` over the p-values sorted ASCENDING; `k` starts at 1 -/
def stepdownAux (adjust : α → α → α × α) : List α → ℕ → α → α → List (Out α)
  | [], _, _, _ => []
  | p :: rest, k, pmin, amax =>
    let pa := (adjust p (k : α)).1
    let aa := (adjust p (k : α)).2
    let amax' := if amax = 1 ∧ aa < p then aa else amax
    let aa' := min aa amax'
    let pa' := max pa pmin
    { pvalue_adj := pa', alpha_adj := aa', null_rejected := decide (p ≤ aa') }
      :: stepdownAux adjust rest (k + 1) pa' amax'

def holmStepdown (adjust : α → α → α × α) (ps : List α) : List (Out α) :=
  stepdownAux adjust ps 1 0 1

/-- Python's `sorted(..., key=lambda d: -d["pvalue"])`: a STABLE sort by descending p-value,
carrying the original positions -/
def sortDesc (ps : List α) : List (α × ℕ) :=
  (ps.zipIdx).mergeSort (fun a b => decide (b.1 ≤ a.1))

/-- `sorted(..., key=lambda d: d["pvalue"])` -/
def sortAsc (ps : List α) : List (α × ℕ) :=
  (ps.zipIdx).mergeSort (fun a b => decide (a.1 ≤ b.1))

/-- put the outputs back into input order -/
def unsort (sorted : List (α × ℕ)) (outs : List (Out α)) (n : ℕ) (dflt : Out α) : List (Out α) :=
  (List.range n).map (fun i =>
    match (sorted.zip outs).find? (fun p => p.1.2 = i) with
    | some p => p.2
    | none => dflt)

/-- the whole of `_hochberg_stepup` on p-values in input order -/
def runStepup (adjust : α → α → α × α) (ps : List α) : List (Out α) :=
  let s := sortDesc ps
  unsort s (hochbergStepup adjust (s.map (·.1))) ps.length ⟨0, 0, false⟩

def runStepdown (adjust : α → α → α × α) (ps : List α) : List (Out α) :=
  let s := sortAsc ps
  unsort s (holmStepdown adjust (s.map (·.1))) ps.length ⟨0, 0, false⟩

end Mult
