import Mathlib.Data.List.Basic
import Mathlib.Data.List.Perm.Basic

/-! Executable model of `multiplicity._copy_results` and of how `adjust_fdr` / `adjust_fwer` use it
(hand-written; tied to the code by correspondence: the keys and p-values of the real output must be
the model's family).  An experiment result is a list of `(metric name, payload)`; the family is the
selected metrics across all experiments in iteration order, `m` its length; the procedure's outputs
(one per hypothesis, in family order) are written back to where each hypothesis came from. -/

namespace Family

variable {ε μ β γ : Type} [DecidableEq μ]

/-- `metrics is None or metric in metrics` (a `str` selects exactly that name: it is wrapped in a set) -/
def isSelected (sel : Option (List μ)) (m : μ) : Bool :=
  match sel with
  | none => true
  | some s => decide (m ∈ s)

/-- the selected metric results of one experiment, in its own order -/
def selected (sel : Option (List μ)) (e : ε × List (μ × β)) : List (μ × β) :=
  e.2.filter (fun m => isSelected sel m.1)

/-- `copy_of_metric_results`: the family, in iteration order (experiments outer, metrics inner) -/
def family (sel : Option (List μ)) (exps : List (ε × List (μ × β))) : List (μ × β) :=
  exps.flatMap (selected sel)

/-- give the outputs (in family order) back to the experiments and metrics they belong to -/
def distribute (sel : Option (List μ)) : List (ε × List (μ × β)) → List γ → List (ε × List (μ × γ))
  | [], _ => []
  | e :: rest, outs =>
    (e.1, ((selected sel e).map Prod.fst).zip (outs.take (selected sel e).length))
      :: distribute sel rest (outs.drop (selected sel e).length)

/-- `adjust_fdr` / `adjust_fwer` around the procedure `run` (p-values in family order ↦ outputs) -/
def adjustAll (sel : Option (List μ)) (exps : List (ε × List (μ × β))) (run : List β → List γ) :
    List (ε × List (μ × γ)) :=
  distribute sel exps (run ((family sel exps).map Prod.snd))

end Family
