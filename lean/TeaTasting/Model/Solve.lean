import TeaTasting.Gen.Solve

/-! Executable model of the solver of `metrics/mean.py` (hand-written control flow around the
GENERATED bracket constants and the GENERATED power function): `_find_boundary` as a
fuel-bounded recursion, `brentq` as a parameter with its contract, `ceil`, the rows. -/

namespace Solve

variable {α : Type} [Field α] [LinearOrder α] [IsStrictOrderedRing α]

/-- `_find_boundary(fn, init)`: multiply by `mult` while `fn b > 0`; `none` = RuntimeError after
`fuel` multiplications -/
def findBoundaryAux (fn : α → α) (mult : α) : ℕ → α → Option α
  | 0, b => if fn b > 0 then none else some b
  | fuel + 1, b => if fn b > 0 then findBoundaryAux fn mult fuel (b * mult) else some b

/-- the code raises when `i == MAX_ITER` right after the `MAX_ITER`-th multiplication, i.e. it
evaluates `fn` at `init, init·mult, …, init·mult^(MAX_ITER−1)` -/
def findBoundary (fn : α → α) (init : α) : Option α :=
  findBoundaryAux fn Gen.boundaryMult (Gen.MAX_ITER - 1) init

/-- what is assumed of `scipy.optimize.brentq` -/
structure BrentqContract (brentq : (α → α) → α → α → α) : Prop where
  root : ∀ (f : α → α) (a b : α), f a * f b ≤ 0 → f (brentq f a b) = 0
  mem : ∀ (f : α → α) (a b : α), a ≤ b → f a * f b ≤ 0 → a ≤ brentq f a b ∧ brentq f a b ≤ b

/-- solving for the effect size -/
def solveEffect (P : Prims α) (brentq : (α → α) → α → α → α) (cfg : RatioCfg α) (v n power : α) : Option α :=
  let fn := fun x => power - Gen.RatioOfMeans.power_from_stats P cfg v n x
  match findBoundary fn (Gen.RatioOfMeans.solve_effect_init P cfg v n) with
  | none => none
  | some other => some (brentq fn (min 0 other) (max 0 other))

/-- solving for the number of observations (before `ceil`) -/
def solveN (P : Prims α) (brentq : (α → α) → α → α → α) (cfg : RatioCfg α) (v d power : α) : Option α :=
  let fn := fun x => power - Gen.RatioOfMeans.power_from_stats P cfg v x d
  match findBoundary fn (Gen.RatioOfMeans.solve_n_bracket cfg).2 with
  | none => none
  | some upper => some (brentq fn (Gen.RatioOfMeans.solve_n_bracket cfg).1 upper)

end Solve
