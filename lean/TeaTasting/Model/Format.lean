import Mathlib.Data.Rat.Floor
import Mathlib.Data.Int.Log
import Mathlib.Algebra.Order.Field.Basic
import Mathlib.Algebra.Order.Ring.Rat

/-! Executable model of the rendering code in `utils.py`: `format_num`, `get_and_format_num` and the
views of `DictsReprMixin` (`to_pretty_dicts`, `to_string`, `to_html`).  Hand-written; tied to the code by
string-for-string correspondence (harness/props/c16.py, `DriverFormat.lean`).

A finite float is the rational it denotes.  Two float operations of the code are modelled explicitly:
`fl` (binary64 round-to-nearest-even, for `val * 100` and for the float that `round(val, p)` returns) and
the decimal roundings of `round(·, p)` / `format(·, ".pf")`, which CPython performs exactly on the binary
value with ties to even (`rhe`).  `math.log10` + `floor` and the float rounding are fields of `FloatLib` (external numerics as
parameters). -/

namespace Format

/-- round half to even to an integer -/
def rheInt (q : ℚ) : Int :=
  let f := ⌊q⌋
  let r := q - f
  if r < 1 / 2 then f else if 1 / 2 < r then f + 1 else if f % 2 = 0 then f else f + 1

/-- `q` rounded half-even to a multiple of `10^(-p)` (`p` may be negative) -/
def rhe (q : ℚ) (p : Int) : ℚ := (rheInt (q * (10 : ℚ) ^ p) : ℚ) / (10 : ℚ) ^ p

/-- binary64 round-to-nearest-even of a rational; `none` on overflow to ±inf -/
def fl (q : ℚ) : Option ℚ :=
  if q = 0 then some 0 else
  let e2 := max (Int.log 2 |q|) (-1022)
  let ulp : ℚ := (2 : ℚ) ^ (e2 - 52)
  let r := (rheInt (q / ulp) : ℚ) * ulp
  if (2 : ℚ) ^ (1024 : Int) ≤ |r| then none else some r

/-- the argument of `format_num` -/
inductive Num
  | none | nan | posInf | negInf | negZero
  | fin (q : ℚ)
deriving Repr

structure Opts where
  sig : Int := 3
  pct : Bool := false
  nan : String := "-"
  inf : String := "∞"
  lo : Option ℚ := some (1 / 1000)
  hi : Option ℚ := some 10000000
  tsep : String := ""
  dpoint : String := "."
deriving Repr

/-! ### digits -/

def zeroPad (w : Nat) (s : List Char) : List Char := List.replicate (w - s.length) '0' ++ s

/-- thousands grouping of a REVERSED digit string -/
def group3Rev (sep : List Char) : List Char → List Char
  | a :: b :: c :: d :: rest => a :: b :: c :: (sep ++ group3Rev sep (d :: rest))
  | l => l

def group3 (ds sep : List Char) : List Char := (group3Rev sep.reverse ds.reverse).reverse

def natChars (n : Nat) : List Char := (toString n).toList

/-- `format(x, "_.{p}f")` of the exact value `±n / 10^p`, with the separators already substituted -/
def renderFixed (neg : Bool) (n p : Nat) (o : Opts) : List Char :=
  (if neg then ['-'] else []) ++ group3 (natChars (n / 10 ^ p)) o.tsep.toList
    ++ (if p = 0 then [] else o.dpoint.toList ++ zeroPad p (natChars (n % 10 ^ p)))

/-- `format(x, "_.{p}e")`: `m` has `p+1` digits, value `±m · 10^(e−p)` -/
def renderExp (neg : Bool) (m p : Nat) (e : Int) (o : Opts) : List Char :=
  let ds := natChars m
  (if neg then ['-'] else []) ++ ds.take 1 ++ (if p = 0 then [] else o.dpoint.toList ++ ds.drop 1)
    ++ ['e'] ++ (if e < 0 then ['-'] else ['+']) ++ zeroPad 2 (natChars e.natAbs)

/-- the float library as the code uses it: `floor(log10 ·)` of a positive float and rounding to binary64.
Parameters, like `scipy` elsewhere: the driver instantiates `fl` with exact round-to-nearest-even and
`ilog10` with the values `math.log10` returned in the real run (recorded by the harness), exact otherwise. -/
structure FloatLib where
  ilog10 : ℚ → Int
  fl : ℚ → Option ℚ

def exactLib : FloatLib := { ilog10 := fun x => Int.log 10 x, fl := fl }

/-- the decimal a rendering denotes, kept next to the text -/
structure Rendered where
  text : List Char
  value : Option ℚ      -- `none`: no number is denoted (overflow text `inf`)

/-- fixed-point branch: `round(val, p)`, precision re-derived, `format(val, ".{p2}f")`;
returns the digits `n` and the number of decimals `p2` (the text denotes `n / 10^p2`) -/
def fixedDigits (L : FloatLib) (v : ℚ) (sig : Int) : Except String (Nat × Nat) :=
  let p := (sig - 1 - L.ilog10 |v|).toNat
  match L.fl (rhe v p) with                 -- `round(val, precision)`: exact half-even, returned as a float
  | none => .error "overflow"
  | some x2 =>
    if x2 = 0 then .error "ValueError"      -- `math.log10(0)`: only for sig ≤ 0
    else
      let p2 := (sig - 1 - L.ilog10 |x2|).toNat
      .ok ((rheInt (|x2| * (10 : ℚ) ^ (p2 : Int))).toNat, p2)

/-- exponential branch: `format(val, ".{p}e")`, correctly rounded to `p+1` significant digits;
returns the mantissa digits `m` (`p+1` of them) and the exponent -/
def expDigits (v : ℚ) (p : Nat) : Nat × Int :=
  let e := Int.log 10 |v|
  let m := (rheInt (|v| * (10 : ℚ) ^ ((p : Int) - e))).toNat
  if m = 10 ^ (p + 1) then (10 ^ p, e + 1) else (m, e)

def inExpRange (o : Opts) (a : ℚ) : Bool :=
  (match o.lo with | some l => decide (a < l) | none => false)
    || (match o.hi with | some h => decide (h ≤ a) | none => false)

/-- `format_num` for a finite non-zero float `x` (before the `* 100` scaling) -/
def formatFin (L : FloatLib) (x : ℚ) (o : Opts) : Except String Rendered :=
  let suffix := if o.pct then ['%'] else []
  match (if o.pct then L.fl (x * 100) else some x) with
  | none => .ok { text := (if x < 0 then "-inf".toList else "inf".toList) ++ suffix, value := none }
  | some v =>
    let neg := decide (v < 0)
    let sgn : ℚ := if neg then -1 else 1
    if inExpRange o |v| then
      let p := (o.sig - 1).toNat
      let me := expDigits v p
      .ok { text := renderExp neg me.1 p me.2 o ++ suffix, value := some (sgn * (me.1 : ℚ) * (10 : ℚ) ^ (me.2 - (p : Int))) }
    else
      match fixedDigits L v o.sig with
      | .error e => .error e
      | .ok np => .ok { text := renderFixed neg np.1 np.2 o ++ suffix, value := some (sgn * (np.1 : ℚ) / (10 : ℚ) ^ np.2) }

def formatNum (L : FloatLib) (v : Num) (o : Opts) : Except String (List Char) :=
  match v with
  | .none | .nan => .ok o.nan.toList
  | .posInf => .ok o.inf.toList
  | .negInf => .ok ('-' :: o.inf.toList)
  | .negZero => .ok (renderFixed true 0 (o.sig - 1).toNat o ++ (if o.pct then ['%'] else []))
  | .fin q =>
    if q = 0 then .ok (renderFixed false 0 (o.sig - 1).toNat o ++ (if o.pct then ['%'] else []))
    else match formatFin L q o with
      | .ok r => .ok r.text
      | .error e => .error e

/-! ### `get_and_format_num` and the views -/

inductive Val
  | num (n : Num)
  | text (s : String)       -- `str(val)` of anything that is not a float / int / None
deriving Repr

abbrev RowD := List (String × Val)        -- a dict of `to_dicts()`, insertion-ordered

def getVal (d : RowD) (k : String) : Val :=
  match d.find? (fun kv => kv.1 = k) with
  | some kv => kv.2
  | none => .num .none                  -- `data.get(key)` → None

def fmtPlain (L : FloatLib) (d : RowD) (k : String) : Except String (List Char) :=
  match getVal d k with
  | .text s => pure s.toList
  | .num n =>
    let isPct := k.startsWith "rel_" || k == "power"
    formatNum L n (if isPct then { sig := 2, pct := true } else { sig := 3, pct := false })

/-- `get_and_format_num` -/
def getAndFormatNum (L : FloatLib) (d : RowD) (k : String) : Except String (List Char) :=
  if k.endsWith "_ci" then do
    let lo ← fmtPlain L d (k ++ "_lower")
    let hi ← fmtPlain L d (k ++ "_upper")
    pure (['['] ++ lo ++ [',', ' '] ++ hi ++ [']'])
  else fmtPlain L d k

/-- `str.rjust` -/
def rjust (w : Nat) (s : List Char) : List Char := List.replicate (w - s.length) ' ' ++ s

/-- the cells of `to_pretty_dicts(keys)`: one list per row of `to_dicts()`, in order, one cell per key -/
def prettyCells (fmt : RowD → String → List Char) (keys : List String) (rows : List RowD) : List (List (List Char)) :=
  rows.map (fun d => keys.map (fmt d))

def colWidth (header : List Char) (cells : List (List Char)) : Nat :=
  cells.foldl (fun w c => max w c.length) header.length

def transposeCol (cells : List (List (List Char))) (j : Nat) : List (List Char) :=
  cells.map (fun row => row.getD j [])

def joinSep (sep : List Char) : List (List Char) → List Char
  | [] => []
  | [a] => a
  | a :: rest => a ++ sep ++ joinSep sep rest

/-- `to_string`: the lines of the table -/
def toStringLines (fmt : RowD → String → List Char) (keys : List String) (rows : List RowD) : List (List Char) :=
  let cells := prettyCells fmt keys rows
  let widths := (List.range keys.length).map (fun j => colWidth (keys.getD j "").toList (transposeCol cells j))
  let line (vals : List (List Char)) : List Char :=
    joinSep [' '] ((List.range keys.length).map (fun j => rjust (widths.getD j 0) (vals.getD j [])))
  line (keys.map String.toList) :: cells.map line

/-- ElementTree's text escaping for `method="html"` -/
def escapeChar : Char → List Char
  | '&' => "&amp;".toList
  | '<' => "&lt;".toList
  | '>' => "&gt;".toList
  | c => [c]

def escape (s : List Char) : List Char := s.flatMap escapeChar

/-- one of the three entities the writer produces, at the head of the text after `&` -/
def entity : List Char → Option (Char × List Char)
  | 'a' :: 'm' :: 'p' :: ';' :: r => some ('&', r)
  | 'l' :: 't' :: ';' :: r => some ('<', r)
  | 'g' :: 't' :: ';' :: r => some ('>', r)
  | _ => none

theorem entity_length (l : List Char) (d : Char) (r : List Char) (h : entity l = some (d, r)) :
    r.length < l.length := by
  unfold entity at h
  split at h <;> simp at h <;> (obtain ⟨_, rfl⟩ := h; simp <;> omega)

/-- the inverse reading of escaped text -/
def unescape : List Char → List Char
  | [] => []
  | c :: rest =>
    if c = '&' then
      match h : entity rest with
      | some (d, r) => d :: unescape r
      | none => c :: unescape rest
    else c :: unescape rest
termination_by l => l.length
decreasing_by
  · have := entity_length rest d r h; simp; omega
  · simp
  · simp

def tag (name : String) (inner : List Char) : List Char :=
  ("<" ++ name ++ ">").toList ++ inner ++ ("</" ++ name ++ ">").toList

/-- `to_html(indent=None)` -/
def toHtml (fmt : RowD → String → List Char) (keys : List String) (rows : List RowD) : List Char :=
  "<table class=\"dataframe\" style=\"text-align: right;\">".toList
    ++ tag "thead" (tag "tr" (keys.flatMap (fun k => tag "th" (escape k.toList))))
    ++ tag "tbody" ((prettyCells fmt keys rows).flatMap (fun row => tag "tr" (row.flatMap (fun c => tag "td" (escape c)))))
    ++ "</table>".toList

end Format
