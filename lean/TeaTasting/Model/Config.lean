import TeaTasting.Gen.Utils
import TeaTasting.Gen.Config

/-! Executable model of `tea_tasting.config` (hand-written; the three structural choices and
the validation come from the generated `Gen.configImpl` / `Gen.autoCheck`).

The global configuration is module-level mutable state that SURVIVES exceptions, so
computations live in `M α := St → Except PyErr α × St`, not in `ExceptT (StateM)`'s
roll-back reading.  `tryFinally` runs the finaliser on both exits. -/

namespace Config

/-- a dict with insertion order -/
abbrev Cfg := List (String × PyVal)

def Cfg.get (c : Cfg) (k : String) : Option PyVal := (c.find? (fun p => p.1 = k)).map (·.2)

def Cfg.set (c : Cfg) (k : String) (v : PyVal) : Cfg :=
  if c.any (fun p => p.1 = k) then c.map (fun p => if p.1 = k then (k, v) else p) else c ++ [(k, v)]

/-- `d.update(other)` -/
def Cfg.update (c other : Cfg) : Cfg := other.foldl (fun acc kv => acc.set kv.1 kv.2) c

/-- a metric object: the parameters captured at construction -/
structure Metric where
  name : String
  params : List (String × PyVal)

structure St where
  cfg : Cfg
  metrics : List Metric := []
  log : List String := []

/-- state survives exceptions -/
def M (α : Type) := St → (Except PyErr α × St)

namespace M
def pure {α} (a : α) : M α := fun s => (.ok a, s)
def bind {α β} (x : M α) (f : α → M β) : M β := fun s =>
  match x s with
  | (.ok a, s') => f a s'
  | (.error e, s') => (.error e, s')
def throw {α} (e : PyErr) : M α := fun s => (.error e, s)
def get : M St := fun s => (.ok s, s)
def modifyCfg (f : Cfg → Cfg) : M Unit := fun s => (.ok (), { s with cfg := f s.cfg })
/-- `try x finally fin` (a finaliser that does not raise) -/
def tryFinally {α} (x : M α) (fin : M Unit) : M α := fun s =>
  match x s with
  | (r, s') => (r, (fin s').2)
/-- `try x except Exception: pass` -/
def tryCatch (x : M Unit) : M Unit := fun s =>
  match x s with
  | (_, s') => (.ok (), s')
instance : Monad M := { pure := M.pure, bind := M.bind }
end M

/-- the options of a call that are not `None` -/
def given (kvs : List (String × PyVal)) : List (String × PyVal) :=
  kvs.filter (fun kv => match kv.2 with | .none => false | _ => true)

/-- first validation error among the options, if any -/
def firstError : List (String × PyVal) → Option PyErr
  | [] => none
  | (k, v) :: rest => match Gen.autoCheck v k with
    | .error e => some e
    | .ok _ => firstError rest

/-- validate-and-write one option at a time (what `validateFirst = false` means) -/
def setInterleaved : List (String × PyVal) → M Unit
  | [] => M.pure ()
  | (k, v) :: rest => fun s =>
    match Gen.autoCheck v k with
    | .error e => (.error e, s)
    | .ok _ => setInterleaved rest { s with cfg := s.cfg.set k v }

/-- `set_config(**kvs)` -/
def setConfig (I : ConfigImpl) (kvs : List (String × PyVal)) : M Unit :=
  if I.validateFirst then
    match firstError (given kvs) with
    | some e => M.throw e
    | none => M.modifyCfg (fun c => c.update (given kvs))
  else setInterleaved (given kvs)

def restore (I : ConfigImpl) (old : Cfg) : M Unit :=
  if I.restoreClear then M.modifyCfg (fun _ => old) else M.modifyCfg (fun c => c.update old)

/-- `with config_context(**kvs): body` -/
def configContext (I : ConfigImpl) (kvs : List (String × PyVal)) (body : M Unit) : M Unit :=
  M.bind M.get fun s0 =>
    if I.enterInTry then
      M.tryFinally (M.bind (setConfig I kvs) fun _ => body) (restore I s0.cfg)
    else
      M.bind (setConfig I kvs) fun _ => M.tryFinally body (restore I s0.cfg)

/-- mutating the dict handed out by `get_config()` -/
def mutateReturned (I : ConfigImpl) (k : String) (v : PyVal) : M Unit :=
  if I.getCopies then M.pure () else M.modifyCfg (fun c => c.set k v)

/-- resolve one constructor parameter: an explicit (non-`None`) argument is validated and wins,
otherwise the configuration in force NOW is read -/
def resolve (explicit : Option PyVal) (checkName cfgName : String) : M PyVal := fun s =>
  match explicit with
  | some v => match v with
    | .none => (match s.cfg.get cfgName with | some x => (.ok x, s) | none => (.error .keyError, s))
    | _ => (match Gen.autoCheck v checkName with | .ok x => (.ok x, s) | .error e => (.error e, s))
  | none => (match s.cfg.get cfgName with | some x => (.ok x, s) | none => (.error .keyError, s))

/-- the parameters a `Mean`/`RatioOfMeans` constructor resolves, in order, as (parameter, check
name, configuration option), read off the GENERATED entry table -/
def ctorParams (entry : String) : List (String × String × String) :=
  Gen.entryTable.filterMap (fun r =>
    if r.entry = entry then
      match r.kind, r.fromConfig with
      | .auto n, some c => some (r.param, n, c)
      | _, _ => none
    else none)

def resolveAll (explicit : List (String × PyVal)) : List (String × String × String) → M (List (String × PyVal))
  | [] => M.pure []
  | (p, n, c) :: rest =>
    M.bind (resolve ((explicit.find? (fun kv => kv.1 = p)).map (·.2)) n c) fun v =>
    M.bind (resolveAll explicit rest) fun vs => M.pure ((p, v) :: vs)

/-- construct a metric named `name` with the given explicit arguments -/
def construct (entry name : String) (explicit : List (String × PyVal)) : M Unit :=
  M.bind (resolveAll explicit (ctorParams entry)) fun ps =>
    fun s => (.ok (), { s with metrics := s.metrics ++ [{ name := name, params := ps }] })

def init : St := { cfg := Gen.configDefaults }

end Config
