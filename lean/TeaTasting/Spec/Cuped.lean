import TeaTasting.Spec.TwoSample

/-! CUPED / CUPAC as regression adjustment with the pooled coefficient — specification side of
C06 (and, with the covariate absent, of C04/C05). -/

namespace Spec

variable {α ρ : Type} [Field α] [LinearOrder α] [IsStrictOrderedRing α]

/-- the column roles of a metric: numerator, optional denominator, optional covariate
numerator / denominator -/
structure Roles where
  numer : String
  denom : Option String
  numer_covariate : Option String
  denom_covariate : Option String

/-- linearised metric observations of a group of rows `T` -/
def linY (R : Roles) (col : String → ρ → α) (T : List ρ) : ρ → α :=
  lin T (col R.numer) (colO col R.denom)

/-- linearised covariate observations of a group of rows `T` -/
def linX (R : Roles) (col : String → ρ → α) (T : List ρ) : ρ → α :=
  lin T (colO col R.numer_covariate) (colO col R.denom_covariate)

/-- regression coefficient of `Y` on `X` over the rows `T`, `0` for a constant `X` -/
def thetaOf (T : List ρ) (Y X : ρ → α) : α :=
  if svar T X = 0 then 0 else scov T Y X / svar T X

/-- the regression coefficient `cov(Y,X)/var(X)` computed ONCE on control and treatment pooled,
with the linearisations taken at the pooled means; `0` when the covariate has no variance -/
def theta (R : Roles) (col : String → ρ → α) (Tc Tt : List ρ) : α :=
  thetaOf (Tc ++ Tt) (linY R col (Tc ++ Tt)) (linX R col (Tc ++ Tt))

/-- pooled covariate mean (ratio of pooled means for a ratio covariate) -/
def covMean (R : Roles) (col : String → ρ → α) (Tc Tt : List ρ) : α :=
  smean (Tc ++ Tt) (colO col R.numer_covariate) / smean (Tc ++ Tt) (colO col R.denom_covariate)

/-- the table with column `name` replaced by `a·x + b` -/
def colAffine (col : String → ρ → α) (name : String) (a b : α) : String → ρ → α :=
  fun c => if c = name then (fun r => a * col c r + b) else col c

/-- adjusted observations of group `T` (one of `Tc`, `Tt`):  `Y − θ·(X − mean_pooled X)` -/
def adjusted (R : Roles) (col : String → ρ → α) (Tc Tt T : List ρ) : ρ → α :=
  fun r => linY R col T r - theta R col Tc Tt * (linX R col T r - covMean R col Tc Tt)

/-- the specification of `Mean/RatioOfMeans.analyze`: the textbook two-sample test applied to
the adjusted observations of the two variants -/
def cupedTest (P : Prims α) (o : Opts α) (R : Roles) (col : String → ρ → α) (Tc Tt : List ρ) :
    MeanResult α :=
  twoSample P o Tc (adjusted R col Tc Tt Tc) Tt (adjusted R col Tc Tt Tt)

end Spec
