import TeaTasting.Spec.TwoSample

/-! Textbook power of the two-sample t / Z test — specification side of C08/C09. -/

namespace Spec

variable {α : Type} [Field α] [LinearOrder α] [IsStrictOrderedRing α]

/-- power options of a metric -/
structure PowerOpts (α : Type) where
  alternative : String
  equal_var : Bool
  use_t : Bool
  alpha : α
  ratio : α

def PowerOpts.test (o : PowerOpts α) : Opts α :=
  { alternative := o.alternative, confidence_level := 0, equal_var := o.equal_var, use_t := o.use_t }

/-- group sizes for a total of `n` observations at treatment:control ratio `r` -/
def nControl (n r : α) : α := n / (1 + r)
def nTreatment (n r : α) : α := n * r / (1 + r)

/-- standard error of the difference of means when both groups have variance `v` -/
def powerSe (P : Prims α) (o : PowerOpts α) (v n : α) : α :=
  P.sqrt (seSq o.test v (nControl n o.ratio) v (nTreatment n o.ratio))

/-- distribution of the statistic under the alternative `true difference = d`:
normal located at `d/se`, or non-central t with the test's degrees of freedom and
non-centrality `d/se` -/
def altDist (P : Prims α) (o : PowerOpts α) (v n d : α) : Dist α :=
  if o.use_t then P.nct (degF o.test v (nControl n o.ratio) v (nTreatment n o.ratio)) (d / powerSe P o v n)
  else P.norm (d / powerSe P o v n)

def nullDist (P : Prims α) (o : PowerOpts α) (v n : α) : Dist α :=
  refDist P o.test v (nControl n o.ratio) v (nTreatment n o.ratio)

/-- **textbook power**: probability, under the alternative, that the statistic falls in the
rejection region of the level-`alpha` test -/
def power (P : Prims α) (o : PowerOpts α) (v n d : α) : α :=
  let null := nullDist P o v n
  let alt := altDist P o v n d
  if o.alternative = "greater" then alt.sf (null.isf o.alpha)
  else if o.alternative = "less" then alt.cdf (null.ppf o.alpha)
  else alt.cdf (-(null.isf (o.alpha / 2))) + alt.sf (null.isf (o.alpha / 2))

end Spec
