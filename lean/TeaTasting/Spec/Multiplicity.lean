import TeaTasting.Model.Multiplicity

/-! Textbook step-up / step-down procedures on a family of hypotheses listed in processing
order, each with its p-value `p`, its raw adjusted p-value `raw` (`min(c·p, 1)`, or the Šidák
form) and its own threshold `thr` (`alpha/c`, `alpha·k/m`, …).

* step-up (Benjamini–Hochberg/Yekutieli, Hochberg): hypotheses in DESCENDING order of p; a
  hypothesis is rejected iff it, or some hypothesis with a larger-or-equal p listed before it,
  passes its own threshold; its adjusted p-value is the smallest raw value among itself and the
  ones before it (capped at 1); the alpha to compare its p-value with is the threshold of the
  first passing hypothesis if there is one before-or-at it, its own threshold otherwise.
* step-down (Holm): hypotheses in ASCENDING order; rejected iff it and every hypothesis before it
  pass their own thresholds; adjusted p-value is the largest raw value so far; alpha is the
  threshold of the first FAILING hypothesis if there is one before-or-at it. -/

namespace Mult

variable {α : Type} [Field α] [LinearOrder α] [IsStrictOrderedRing α]

/-- a hypothesis in processing order: `(p, raw, thr)` -/
abbrev Entry (α : Type) := α × α × α

/-- step-up rejection: `seen` = some earlier hypothesis passed -/
def specRejUp : List (Entry α) → Bool → List Bool
  | [], _ => []
  | (p, _, thr) :: rest, seen =>
    let seen' := seen || decide (p ≤ thr)
    seen' :: specRejUp rest seen'

/-- step-up adjusted p-values: running minimum, started at 1 -/
def specPadjUp : List (Entry α) → α → List α
  | [], _ => []
  | (_, raw, _) :: rest, acc => min raw acc :: specPadjUp rest (min raw acc)

/-- step-up alpha: `first` = threshold of the first passing hypothesis so far, if any -/
def specAlphaUp : List (Entry α) → Option α → List α
  | [], _ => []
  | (p, _, thr) :: rest, first =>
    let first' := match first with
      | some t => some t
      | none => if p ≤ thr then some thr else none
    (match first' with | some t => max thr t | none => thr) :: specAlphaUp rest first'

/-- step-down rejection: `failed` = some earlier hypothesis failed -/
def specRejDown : List (Entry α) → Bool → List Bool
  | [], _ => []
  | (p, _, thr) :: rest, failed =>
    let failed' := failed || decide (thr < p)
    (!failed') :: specRejDown rest failed'

/-- step-down alpha: `first` = threshold of the first FAILING hypothesis so far, if any -/
def specAlphaDown : List (Entry α) → Option α → List α
  | [], _ => []
  | (p, _, thr) :: rest, first =>
    let first' := match first with
      | some t => some t
      | none => if thr < p then some thr else none
    (match first' with | some t => min thr t | none => thr) :: specAlphaDown rest first'

def specPadjDown : List (Entry α) → α → List α
  | [], _ => []
  | (_, raw, _) :: rest, acc => max raw acc :: specPadjDown rest (max raw acc)

/-- the entries the code builds for step-up: position `i` (0-based, descending p) has `k = m − i` -/
def entriesUp (adjust : α → α → α × α) (m : ℕ) : List α → ℕ → List (Entry α)
  | [], _ => []
  | p :: rest, i => (p, (adjust p ((m : α) - (i : α))).1, (adjust p ((m : α) - (i : α))).2)
      :: entriesUp adjust m rest (i + 1)

/-- the entries for step-down: position `k` (1-based, ascending p) -/
def entriesDown (adjust : α → α → α × α) : List α → ℕ → List (Entry α)
  | [], _ => []
  | p :: rest, k => (p, (adjust p (k : α)).1, (adjust p (k : α)).2) :: entriesDown adjust rest (k + 1)

end Mult

namespace Mult

variable {α : Type} [Field α] [LinearOrder α] [IsStrictOrderedRing α]

/-- the documented procedures -/
inductive Proc | bh | by_ | hochbergBonferroni | hochbergSidak | holmBonferroni | holmSidak
deriving DecidableEq, Repr

def Proc.stepUp : Proc → Bool
  | .bh | .by_ | .hochbergBonferroni | .hochbergSidak => true
  | _ => false

/-- textbook raw adjusted p-value and threshold of the hypothesis of ascending rank `k` (1-based)
in a family of `m` -/
def textbookEntry (rpow : α → α → α) (proc : Proc) (a : α) (m : ℕ) (k : ℕ) (p : α) : Entry α :=
  match proc with
  | .bh => (p, min (p * (m : α) / (k : α)) 1, a * (k : α) / (m : α))
  | .by_ => (p, min (p * ((m : α) * harmonic m) / (k : α)) 1, a * (k : α) / ((m : α) * harmonic m))
  | .hochbergBonferroni | .holmBonferroni =>
    (p, min (p * ((m : α) - (k : α) + 1)) 1, a / ((m : α) - (k : α) + 1))
  | .hochbergSidak | .holmSidak =>
    (p, 1 - rpow (1 - p) ((m : α) - (k : α) + 1), 1 - rpow (1 - a) (1 / ((m : α) - (k : α) + 1)))

/-- the textbook procedure on p-values in input order: stable sort, rule on the sorted family,
results put back in input order -/
def textbook (rpow : α → α → α) (proc : Proc) (a : α) (ps : List α) : List (Out α) :=
  let m := ps.length
  if proc.stepUp then
    let s := sortDesc ps
    let l := (s.zipIdx).map (fun x => textbookEntry rpow proc a m (m - x.2) x.1.1)
    let outs := List.zipWith (fun r pa => (r, pa)) (specRejUp l false) (specPadjUp l 1)
    let outs := List.zipWith (fun rp aa => ({ pvalue_adj := rp.2, alpha_adj := aa, null_rejected := rp.1 } : Out α))
      outs (specAlphaUp l none)
    unsort s outs m ⟨0, 0, false⟩
  else
    let s := sortAsc ps
    let l := (s.zipIdx).map (fun x => textbookEntry rpow proc a m (x.2 + 1) x.1.1)
    let outs := List.zipWith (fun r pa => (r, pa)) (specRejDown l false) (specPadjDown l 0)
    let outs := List.zipWith (fun rp aa => ({ pvalue_adj := rp.2, alpha_adj := aa, null_rejected := rp.1 } : Out α))
      outs (specAlphaDown l none)
    unsort s outs m ⟨0, 0, false⟩

end Mult
