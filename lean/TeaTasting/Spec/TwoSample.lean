import TeaTasting.Spec.Sample

/-! Textbook two-sample tests (Student, Welch, Z) written from the summary statistics of the two
samples, in the form statistics texts give them — the *specification* side of C04–C07, C17.

`alternative = "greater"` means H₁: treatment mean > control mean. -/

namespace Spec

variable {α ρ : Type} [Field α] [LinearOrder α] [IsStrictOrderedRing α]

/-- test options of a `Mean` / `RatioOfMeans` metric -/
structure Opts (α : Type) where
  alternative : String
  confidence_level : α
  equal_var : Bool
  use_t : Bool

/-- pooled variance `((n₁−1)s₁² + (n₂−1)s₂²)/(n₁+n₂−2)` -/
def pooledVar (v1 n1 v2 n2 : α) : α := ((n1 - 1) * v1 + (n2 - 1) * v2) / (n1 + n2 - 2)

/-- squared standard error of the difference of means -/
def seSq (o : Opts α) (v1 n1 v2 n2 : α) : α :=
  if o.equal_var then pooledVar v1 n1 v2 n2 * (1 / n1 + 1 / n2) else v1 / n1 + v2 / n2

/-- Welch–Satterthwaite degrees of freedom -/
def welchDf (v1 n1 v2 n2 : α) : α :=
  (v1 / n1 + v2 / n2) ^ 2 / ((v1 / n1) ^ 2 / (n1 - 1) + (v2 / n2) ^ 2 / (n2 - 1))

def degF (o : Opts α) (v1 n1 v2 n2 : α) : α :=
  if o.equal_var then n1 + n2 - 2 else welchDf v1 n1 v2 n2

/-- reference distribution: Student t with the test's degrees of freedom, or standard normal -/
def refDist (P : Prims α) (o : Opts α) (v1 n1 v2 n2 : α) : Dist α :=
  if o.use_t then P.t (degF o v1 n1 v2 n2) else P.norm 0

/-- The two-sample test from summary statistics (control `m1 v1 n1`, treatment `m2 v2 n2`):
point estimates, statistic, p-value, the absolute interval, and the log-scale delta-method
interval of the ratio of means (standard error of `log m₂ − log m₁` from `s²/m²`, same
family), reported as a relative effect. -/
def testFromStats (P : Prims α) (o : Opts α) (m1 v1 n1 m2 v2 n2 : α) : MeanResult α :=
  let se := P.sqrt (seSq o v1 n1 v2 n2)
  let dist := refDist P o v1 n1 v2 n2
  let w1 := v1 / m1 ^ 2
  let w2 := v2 / m2 ^ 2
  let seLog := P.sqrt (seSq o w1 n1 w2 n2)
  let distLog := refDist P o w1 n1 w2 n2
  let d := m2 - m1
  let ratio := m2 / m1
  let stat := d / se
  if o.alternative = "greater" then
    let q := dist.ppf o.confidence_level
    let qLog := distLog.ppf o.confidence_level
    { control := m1, treatment := m2, effect_size := d
      effect_size_ci_lower := Bound.fin (d - se * q), effect_size_ci_upper := Bound.posInf
      rel_effect_size := ratio - 1
      rel_effect_size_ci_lower := Bound.fin (ratio * P.exp (-(seLog * qLog)) - 1)
      rel_effect_size_ci_upper := Bound.posInf
      pvalue := dist.sf stat, statistic := stat }
  else if o.alternative = "less" then
    let q := dist.ppf o.confidence_level
    let qLog := distLog.ppf o.confidence_level
    { control := m1, treatment := m2, effect_size := d
      effect_size_ci_lower := Bound.negInf, effect_size_ci_upper := Bound.fin (d + se * q)
      rel_effect_size := ratio - 1
      rel_effect_size_ci_lower := Bound.negInf
      rel_effect_size_ci_upper := Bound.fin (ratio * P.exp (seLog * qLog) - 1)
      pvalue := dist.cdf stat, statistic := stat }
  else
    let q := dist.ppf ((1 + o.confidence_level) / 2)
    let qLog := distLog.ppf ((1 + o.confidence_level) / 2)
    { control := m1, treatment := m2, effect_size := d
      effect_size_ci_lower := Bound.fin (d - se * q), effect_size_ci_upper := Bound.fin (d + se * q)
      rel_effect_size := ratio - 1
      rel_effect_size_ci_lower := Bound.fin (ratio * P.exp (-(seLog * qLog)) - 1)
      rel_effect_size_ci_upper := Bound.fin (ratio * P.exp (seLog * qLog) - 1)
      pvalue := 2 * dist.sf |stat|, statistic := stat }

/-- the textbook test computed directly from the raw observations: control rows `Tc` with
observation `fc`, treatment rows `Tt` with observation `ft` -/
def twoSample (P : Prims α) (o : Opts α) (Tc : List ρ) (fc : ρ → α) (Tt : List ρ) (ft : ρ → α) :
    MeanResult α :=
  testFromStats P o (smean Tc fc) (svar Tc fc) (Tc.length : α) (smean Tt ft) (svar Tt ft) (Tt.length : α)

end Spec
