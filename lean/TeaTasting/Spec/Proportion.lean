import TeaTasting.Basic.Prelude
import Mathlib.Algebra.BigOperators.Intervals
import Mathlib.Data.Nat.Choose.Basic
import Mathlib.Tactic.Ring

/-! Textbook sample-ratio-mismatch tests: the exact two-sided binomial test and the normal
approximation with optional continuity correction — specification side of C11. -/

namespace Spec

open Finset

variable {α : Type} [Field α] [LinearOrder α] [IsStrictOrderedRing α]

/-- binomial probability of `i` successes out of `n` -/
def binomPmf (n : ℕ) (p : α) (i : ℕ) : α := (n.choose i : α) * p ^ i * (1 - p) ^ (n - i)

/-- exact two-sided binomial p-value: total probability of all outcomes no more likely than the
observed one -/
def binomTwoSided (n : ℕ) (p : α) (k : ℕ) : α :=
  ∑ i ∈ range (n + 1), if binomPmf n p i ≤ binomPmf n p k then binomPmf n p i else 0

/-- the share of the treatment expected under a treatment:control ratio `r` -/
def expectedShare (r : α) : α := r / (1 + r)

/-- deviation of the treatment count from its expectation, shrunk by ½ towards zero when the
continuity correction is on -/
def correctedDeviation (correction : Bool) (d : α) : α :=
  if correction then (if d < 0 then -(max (-d - 1 / 2) 0) else max (d - 1 / 2) 0) else d

/-- the z statistic of the normal approximation -/
def zStat (P : Prims α) (correction : Bool) (k n p : α) : α :=
  correctedDeviation correction (k - n * p) / P.sqrt (n * p * (1 - p))

def ratioValue : RatioSpec α → α
  | .scalar r => r
  | .mapping rt rc => rt / rc

/-- the documented SampleRatio check: counts as they are; exact binomial test for
`method = "binom"`, or `"auto"` below 1000 observations; otherwise the two-sided normal
approximation -/
def sampleRatioTest (P : Prims α) (binomtest : α → α → α → α) (cfg : SRCfg α) (countC countT : α) : SRResult α :=
  let n := countT + countC
  let p := expectedShare (ratioValue cfg.ratio)
  { control := countC, treatment := countT
    pvalue := if cfg.method = "binom" ∨ (cfg.method = "auto" ∧ n < 1000) then binomtest countT n p
              else 2 * (P.norm 0).sf |zStat P cfg.correction countT n p| }

end Spec
