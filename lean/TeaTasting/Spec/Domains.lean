import TeaTasting.Basic.PyVal
import Mathlib.Tactic.SplitIfs

/-! Documented domains of the parameters (specification side of C19), written from the
docstrings; decidable, so that the driver can evaluate them.  Imports nothing generated. -/

namespace C19

/-! ## documented domains (written from the docstrings) -/

/-- alpha / power / confidence_level: a float strictly inside (0,1) (so not NaN, not ±inf) -/
def unitOpen : PyVal → Prop
  | .float (.fin q) => 0 < q ∧ q < 1
  | _ => False

/-- ratio: an int (bool counts as int in Python) or float that is > 0; `+inf` is > 0, NaN is not -/
def posNumber : PyVal → Prop
  | .float (.fin q) => 0 < q
  | .float .pinf => True
  | .int z => 0 < z
  | .bool b => b = true
  | _ => False

/-- an int > `k` (bool counts as int: True = 1) -/
def intGt (k : ℤ) : PyVal → Prop
  | .int z => k < z
  | .bool b => k < (if b then 1 else 0)
  | _ => False

def isBool : PyVal → Prop
  | .bool _ => True
  | _ => False

/-- n_obs: None, an int > 1, or a sequence all of whose elements are ints > 1 (the empty
sequence — and the empty string, which Python also counts as a Sequence — vacuously) -/
def nObsDomain : PyVal → Prop
  | .none => True
  | .int z => 1 < z
  | .bool _ => False
  | .seq l => ∀ x ∈ l, intGt 1 x
  | .str s => s = ""
  | _ => False

def oneOf (l : List String) : PyVal → Prop
  | .str s => s ∈ l
  | _ => False

/-- effect sizes: a finite, non-zero int or float -/
def finiteNonzero : PyVal → Prop
  | .float (.fin q) => q ≠ 0
  | .int z => z ≠ 0
  | .bool b => b = true
  | _ => False

/-- the documented domain of each standard option; other names are unconstrained -/
def inDomain (name : String) (v : PyVal) : Prop :=
  if name = "alpha" ∨ name = "power" ∨ name = "confidence_level" then unitOpen v
  else if name = "alternative" then oneOf ["two-sided", "greater", "less"] v
  else if name = "correction" ∨ name = "equal_var" ∨ name = "use_t" then isBool v
  else if name = "n_obs" then nObsDomain v
  else if name = "n_resamples" then intGt 0 v
  else if name = "ratio" then posNumber v
  else True

/-- `Quantile(q=…)`: a float in the closed interval [0,1] -/
def unitClosed : PyVal → Prop
  | .float (.fin q) => 0 ≤ q ∧ q ≤ 1
  | _ => False

/-! ## decidability of the documented domains (so that the driver can evaluate them) -/


instance : DecidablePred unitOpen := fun v => by
  cases v with
  | float f => cases f <;> simp only [unitOpen] <;> infer_instance
  | _ => simp only [unitOpen]; infer_instance

instance : DecidablePred unitClosed := fun v => by
  cases v with
  | float f => cases f <;> simp only [unitClosed] <;> infer_instance
  | _ => simp only [unitClosed]; infer_instance

instance : DecidablePred posNumber := fun v => by
  cases v with
  | float f => cases f <;> simp only [posNumber] <;> infer_instance
  | _ => simp only [posNumber] <;> infer_instance

instance (k : ℤ) : DecidablePred (intGt k) := fun v => by
  cases v <;> simp only [intGt] <;> infer_instance

instance : DecidablePred isBool := fun v => by
  cases v <;> simp only [isBool] <;> infer_instance

instance (l : List String) : DecidablePred (oneOf l) := fun v => by
  cases v <;> simp only [oneOf] <;> infer_instance

instance : DecidablePred finiteNonzero := fun v => by
  cases v with
  | float f => cases f <;> simp only [finiteNonzero] <;> infer_instance
  | _ => simp only [finiteNonzero] <;> infer_instance

instance : DecidablePred nObsDomain := fun v => by
  cases v <;> simp only [nObsDomain] <;> infer_instance

instance (name : String) : DecidablePred (inDomain name) := fun v => by
  unfold inDomain; infer_instance


end C19
