import TeaTasting.Spec.Cuped
import Mathlib.Tactic.SplitIfs

/-! Executable-efficient forms of the specifications, PROVED equal to them.

The definitions of `Spec.Sample` / `Spec.Cuped` are written for reading (`scov` recomputes the
mean inside the sum, `adjusted` recomputes the coefficient for every row), which makes their
direct evaluation polynomial of high degree.  The driver evaluates the `…L` forms below, which
materialise each derived column once; `cupedTest_eq_fast` and friends are kernel-checked
equalities, so what the driver prints *is* the value of the specification. -/

namespace Spec

set_option linter.unusedSectionVars false

variable {α ρ : Type} [Field α] [LinearOrder α] [IsStrictOrderedRing α]

def meanL (l : List α) : α := l.sum / l.length

def covL (xs ys : List α) : α :=
  let mx := meanL xs
  let my := meanL ys
  (List.zipWith (fun x y => (x - mx) * (y - my)) xs ys).sum / (xs.length - 1)

def linL (as bs : List α) : List α :=
  let ma := meanL as
  let mb := meanL bs
  let k := ma / mb
  List.zipWith (fun a b => k + (a - k * b) / mb) as bs

def adjL (θ μ : α) (ys xs : List α) : List α :=
  List.zipWith (fun y x => y - θ * (x - μ)) ys xs

theorem smean_eq_meanL (T : List ρ) (f : ρ → α) : smean T f = meanL (T.map f) := by
  simp [smean, meanL, S]

theorem zipWith_map_same {β γ δ : Type} (h : β → γ → δ) (f : ρ → β) (g : ρ → γ) (T : List ρ) :
    List.zipWith h (T.map f) (T.map g) = T.map (fun r => h (f r) (g r)) := by
  induction T with
  | nil => rfl
  | cons r T ih => simp [ih]

theorem scov_eq_covL (T : List ρ) (f g : ρ → α) : scov T f g = covL (T.map f) (T.map g) := by
  simp only [scov, covL, S, zipWith_map_same, smean_eq_meanL, List.length_map]

theorem map_lin_eq_linL (T : List ρ) (a b : ρ → α) : T.map (lin T a b) = linL (T.map a) (T.map b) := by
  simp only [linL, zipWith_map_same, ← smean_eq_meanL]
  rfl

theorem map_adj_eq_adjL (T : List ρ) (f g : ρ → α) (θ μ : α) :
    T.map (fun r => f r - θ * (g r - μ)) = adjL θ μ (T.map f) (T.map g) := by
  simp only [adjL, zipWith_map_same]

/-- efficient form of `cupedTest`, from the eight materialised columns -/
def cupedTestL (P : Prims α) (o : Opts α) (yc zc xc wc yt zt xt wt : List α) : MeanResult α :=
  let LYc := linL yc zc
  let LXc := linL xc wc
  let LYt := linL yt zt
  let LXt := linL xt wt
  let LYa := linL (yc ++ yt) (zc ++ zt)
  let LXa := linL (xc ++ xt) (wc ++ wt)
  let vx := covL LXa LXa
  let θ := if vx = 0 then 0 else covL LYa LXa / vx
  let μ := meanL (xc ++ xt) / meanL (wc ++ wt)
  let Ac := adjL θ μ LYc LXc
  let At := adjL θ μ LYt LXt
  testFromStats P o (meanL Ac) (covL Ac Ac) (yc.length : α) (meanL At) (covL At At) (yt.length : α)

theorem cupedTest_eq_fast (P : Prims α) (o : Opts α) (R : Roles) (col : String → ρ → α) (Tc Tt : List ρ) :
    cupedTest P o R col Tc Tt
      = cupedTestL P o (Tc.map (col R.numer)) (Tc.map (colO col R.denom))
          (Tc.map (colO col R.numer_covariate)) (Tc.map (colO col R.denom_covariate))
          (Tt.map (col R.numer)) (Tt.map (colO col R.denom))
          (Tt.map (colO col R.numer_covariate)) (Tt.map (colO col R.denom_covariate)) := by
  unfold cupedTest twoSample cupedTestL adjusted theta thetaOf covMean svar
  simp only [smean_eq_meanL, scov_eq_covL, map_adj_eq_adjL, linY, linX, map_lin_eq_linL]
  simp only [List.map_append, List.length_map]

/-- efficient form of `twoSample` -/
theorem twoSample_eq_fast (P : Prims α) (o : Opts α) (Tc : List ρ) (fc : ρ → α) (Tt : List ρ) (ft : ρ → α) :
    twoSample P o Tc fc Tt ft
      = testFromStats P o (meanL (Tc.map fc)) (covL (Tc.map fc) (Tc.map fc)) (Tc.length : α)
          (meanL (Tt.map ft)) (covL (Tt.map ft) (Tt.map ft)) (Tt.length : α) := by
  unfold twoSample svar
  simp only [smean_eq_meanL, scov_eq_covL]

/-- efficient form of `aggrOf` -/
def aggrOfL (cols : String → List α) (n : α) : Aggr α :=
  { count_ := n
    mean_ := fun c => meanL (cols c)
    var_ := fun c => covL (cols c) (cols c)
    cov_ := fun a b => covL (cols a) (cols b) }

theorem aggrOf_eq_fast (T : List ρ) (col : String → ρ → α) :
    aggrOf T col = aggrOfL (fun c => T.map (col c)) (T.length : α) := by
  unfold aggrOf aggrOfL svar
  simp only [smean_eq_meanL, scov_eq_covL]

end Spec

/-! ## The executable entry points used by `DriverSpec.lean`, each with its equality to the spec -/

namespace Spec

variable {α ρ : Type} [Field α] [LinearOrder α] [IsStrictOrderedRing α]

def cupedTestExec (P : Prims α) (o : Opts α) (R : Roles) (col : String → ρ → α) (Tc Tt : List ρ) :
    MeanResult α :=
  cupedTestL P o (Tc.map (col R.numer)) (Tc.map (colO col R.denom))
    (Tc.map (colO col R.numer_covariate)) (Tc.map (colO col R.denom_covariate))
    (Tt.map (col R.numer)) (Tt.map (colO col R.denom))
    (Tt.map (colO col R.numer_covariate)) (Tt.map (colO col R.denom_covariate))

theorem cupedTestExec_eq (P : Prims α) (o : Opts α) (R : Roles) (col : String → ρ → α) (Tc Tt : List ρ) :
    cupedTestExec P o R col Tc Tt = cupedTest P o R col Tc Tt :=
  (cupedTest_eq_fast P o R col Tc Tt).symm

def twoSampleExec (P : Prims α) (o : Opts α) (Tc : List ρ) (fc : ρ → α) (Tt : List ρ) (ft : ρ → α) :
    MeanResult α :=
  testFromStats P o (meanL (Tc.map fc)) (covL (Tc.map fc) (Tc.map fc)) (Tc.length : α)
    (meanL (Tt.map ft)) (covL (Tt.map ft) (Tt.map ft)) (Tt.length : α)

theorem twoSampleExec_eq (P : Prims α) (o : Opts α) (Tc : List ρ) (fc : ρ → α) (Tt : List ρ) (ft : ρ → α) :
    twoSampleExec P o Tc fc Tt ft = twoSample P o Tc fc Tt ft :=
  (twoSample_eq_fast P o Tc fc Tt ft).symm

def aggrOfExec (T : List ρ) (col : String → ρ → α) : Aggr α :=
  aggrOfL (fun c => T.map (col c)) (T.length : α)

theorem aggrOfExec_eq (T : List ρ) (col : String → ρ → α) : aggrOfExec T col = aggrOf T col :=
  (aggrOf_eq_fast T col).symm

def linCovExec (T : List ρ) (a b c d : ρ → α) : α :=
  covL (linL (T.map a) (T.map b)) (linL (T.map c) (T.map d))

theorem linCovExec_eq (T : List ρ) (a b c d : ρ → α) :
    linCovExec T a b c d = scov T (lin T a b) (lin T c d) := by
  unfold linCovExec
  rw [scov_eq_covL, map_lin_eq_linL, map_lin_eq_linL]

end Spec
