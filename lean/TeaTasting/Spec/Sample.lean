import TeaTasting.Basic.Prelude
import Mathlib.Tactic.FieldSimp
import Mathlib.Tactic.Ring
import Mathlib.Algebra.BigOperators.Group.List.Basic
import Mathlib.Algebra.Field.Basic

/-! Textbook sample statistics of columns of a table.

A table is a list of rows of an arbitrary type `ρ`; a column is a function `ρ → α`.
`smean`, `svar` (n−1) and `scov` (n−1) are the definitions every statistics text gives; they
are the *specification* side of C01, C04–C06, C14. -/

namespace Spec

variable {α ρ : Type} [Field α]

/-- column sum -/
def S (T : List ρ) (f : ρ → α) : α := (T.map f).sum

/-- sample mean -/
def smean (T : List ρ) (f : ρ → α) : α := S T f / T.length

/-- unbiased sample covariance of two columns -/
def scov (T : List ρ) (f g : ρ → α) : α :=
  S T (fun r => (f r - smean T f) * (g r - smean T g)) / (T.length - 1)

/-- unbiased sample variance -/
def svar (T : List ρ) (f : ρ → α) : α := scov T f f

theorem S_append (T₁ T₂ : List ρ) (f : ρ → α) : S (T₁ ++ T₂) f = S T₁ f + S T₂ f := by
  simp [S]

theorem S_const (T : List ρ) (c : α) : S T (fun _ => c) = (T.length : α) * c := by
  unfold S
  induction T with
  | nil => simp
  | cons p l ih => simp only [List.map_cons, List.sum_cons, List.length_cons, Nat.cast_succ, ih]; ring

theorem S_centered (T : List ρ) (f g : ρ → α) (u v : α) :
    S T (fun r => (f r - u) * (g r - v))
      = S T (fun r => f r * g r) - v * S T f - u * S T g + (T.length : α) * u * v := by
  unfold S
  induction T with
  | nil => simp
  | cons p l ih => simp only [List.map_cons, List.sum_cons, List.length_cons, Nat.cast_succ, ih]; ring

/-- raw-moment form of the covariance -/
theorem scov_raw (T : List ρ) (f g : ρ → α) (hn : (T.length : α) ≠ 0) :
    scov T f g = (S T (fun r => f r * g r) - S T f * S T g / T.length) / (T.length - 1) := by
  unfold scov smean
  rw [S_centered]
  congr 1
  field_simp
  ring

theorem scov_comm (T : List ρ) (f g : ρ → α) : scov T f g = scov T g f := by
  unfold scov
  congr 2
  funext r
  ring

theorem smean_one (T : List ρ) (hn : (T.length : α) ≠ 0) : smean T (fun _ => (1 : α)) = 1 := by
  unfold smean
  rw [S_const]
  field_simp

theorem S_mul_const (T : List ρ) (f : ρ → α) (c : α) : S T (fun r => f r * c) = c * S T f := by
  unfold S
  induction T with
  | nil => simp
  | cons p l ih => simp only [List.map_cons, List.sum_cons, ih]; ring

theorem scov_const_right (T : List ρ) (f : ρ → α) (c : α) (hn : (T.length : α) ≠ 0) :
    scov T f (fun _ => c) = 0 := by
  rw [scov_raw _ _ _ hn, S_const, S_mul_const]
  have : c * S T f - S T f * ((T.length : α) * c) / (T.length : α) = 0 := by
    field_simp
    ring
  rw [this, zero_div]

theorem scov_const_left (T : List ρ) (f : ρ → α) (c : α) (hn : (T.length : α) ≠ 0) :
    scov T (fun _ => c) f = 0 := by
  rw [scov_comm, scov_const_right _ _ _ hn]

theorem S_lin (T : List ρ) (f g : ρ → α) (k m e : α) :
    S T (fun r => k + (f r - m * g r) / e) = (T.length : α) * k + (S T f - m * S T g) / e := by
  unfold S
  induction T with
  | nil => simp
  | cons r T ih => simp only [List.map_cons, List.sum_cons, List.length_cons, Nat.cast_succ, ih]; ring

theorem S_lin_mul (T : List ρ) (f1 g1 f2 g2 : ρ → α) (k1 m1 e1 k2 m2 e2 : α) :
    S T (fun r => (k1 + (f1 r - m1 * g1 r) / e1) * (k2 + (f2 r - m2 * g2 r) / e2))
    = (T.length : α) * k1 * k2
      + k1 / e2 * (S T f2 - m2 * S T g2)
      + k2 / e1 * (S T f1 - m1 * S T g1)
      + (S T (fun r => f1 r * f2 r) - m2 * S T (fun r => f1 r * g2 r)
          - m1 * S T (fun r => g1 r * f2 r) + m1 * m2 * S T (fun r => g1 r * g2 r)) / e1 / e2 := by
  unfold S
  induction T with
  | nil => simp
  | cons r T ih =>
    simp only [List.map_cons, List.sum_cons, List.length_cons, Nat.cast_succ, ih]
    ring

/-- delta-method linearisation of the ratio of columns `a / b` at the sample means -/
def lin (T : List ρ) (a b : ρ → α) (r : ρ) : α :=
  smean T a / smean T b + (a r - smean T a / smean T b * b r) / smean T b

/-- an optional column: a missing name is the constant `1` -/
def colO (col : String → ρ → α) : Option String → ρ → α
  | some c => col c
  | none => fun _ => 1

/-- the `Aggregates` of a sample: what `read_aggregates` is specified to return (C01) -/
def aggrOf (T : List ρ) (col : String → ρ → α) : Aggr α :=
  { count_ := (T.length : α)
    mean_ := fun c => smean T (col c)
    var_ := fun c => svar T (col c)
    cov_ := fun a b => scov T (col a) (col b) }

end Spec
