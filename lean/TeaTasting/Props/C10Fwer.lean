import TeaTasting.Props.C10
import TeaTasting.Basic.Rpow
import Mathlib.Tactic.Ring

/-! # C10, continued — the four `adjust_fwer` procedures

`Props/C10.lean` proves the two loops (`_hochberg_stepup`, `_holm_stepdown`) against the textbook
rules for *well-formed* families, and instantiates them for Benjamini–Hochberg / –Yekutieli and
for Holm–Bonferroni.  This file closes the table of the documented procedures:

| `arbitrary_dependence` | `method`     | procedure            | theorem                              |
|------------------------|--------------|----------------------|--------------------------------------|
| `True`                 | `bonferroni` | Holm–Bonferroni      | `C10.adjust_fwer_holm_bonferroni`    |
| `True`                 | `sidak`      | Holm–Šidák           | `adjust_fwer_holm_sidak`             |
| `False`                | `bonferroni` | Hochberg–Bonferroni  | `adjust_fwer_hochberg_bonferroni`    |
| `False`                | `sidak`      | Hochberg–Šidák       | `adjust_fwer_hochberg_sidak`         |

The Šidák formulas use a real power `x ** y`; it is a parameter `rpow` of the GENERATED
`Gen.Sidak.adjust`, and the theorems assume of it exactly the laws listed in `RpowLaws` (all of
them laws of the real power function on `[0,1] × (0,∞)`; `Props/C10Real.lean` proves them for
`Real.rpow`, so the hypotheses are satisfiable; the structure lives in `Basic/Rpow.lean`, which
does not import the model prelude, whose `Dist` would clash with Mathlib's metric-space `Dist`). -/

open Mult

set_option linter.unusedSectionVars false

variable {α : Type} [Field α] [LinearOrder α] [IsStrictOrderedRing α]

namespace C10

/-! ## the two loops, for any family of entries that is "dual, conservative and monotone" -/

/-- **step-up, generic.**  If every entry has a positive threshold, satisfies the duality
`raw ≤ alpha ↔ p ≤ threshold`, is conservative (`p ≤ raw`) with `p ≤ 1`, and p-values and
thresholds do not increase along the list, then the loop computes the textbook step-up rule, its
flags agree with `pvalue_adj ≤ alpha`, and adjusted p-values lie in `[pvalue, 1]`. -/
theorem stepup_generic (l : List (Entry α)) (a : α) (ha1 : a < 1)
    (hOK : ∀ x ∈ l, 0 < x.2.2 ∧ (x.2.1 ≤ a ↔ x.1 ≤ x.2.2) ∧ x.1 ≤ x.2.1 ∧ x.1 ≤ 1)
    (hmono : l.Pairwise (fun x y => y.1 ≤ x.1 ∧ y.2.2 ≤ x.2.2)) :
    (stepupE l 1 0).map Out.null_rejected = specRejUp l false ∧
    (stepupE l 1 0).map Out.pvalue_adj = specPadjUp l 1 ∧
    (stepupE l 1 0).map Out.alpha_adj = specAlphaUp l none ∧
    (∀ x ∈ l.zip (stepupE l 1 0), x.2.null_rejected = true ↔ x.2.pvalue_adj ≤ a) ∧
    (∀ x ∈ l.zip (stepupE l 1 0), x.1.1 ≤ x.2.pvalue_adj ∧ x.2.pvalue_adj ≤ 1) := by
  have hwf : WFUp l := ⟨fun x hx => (hOK x hx).1, hmono⟩
  exact ⟨stepup_rejected_eq_spec l hwf, stepup_padj_eq_spec l 1 0, stepup_alpha_eq_spec l hwf,
    stepup_rejected_iff_padj_le_alpha l a ha1 hwf (fun x hx => (hOK x hx).2.1),
    stepupE_padj_mem l 1 0 hwf (fun x hx => (hOK x hx).2.2.1) (le_refl _) (fun x hx => (hOK x hx).2.2.2)⟩

/-- **step-down, generic.** -/
theorem stepdown_generic (l : List (Entry α)) (a : α) (ha0 : 0 ≤ a)
    (hOK : ∀ x ∈ l, x.2.2 < 1 ∧ (x.2.1 ≤ a ↔ x.1 ≤ x.2.2) ∧ x.1 ≤ x.2.1 ∧ x.2.1 ≤ 1)
    (hmono : l.Pairwise (fun x y => x.1 ≤ y.1)) :
    (stepdownE l 0 1).map Out.null_rejected = specRejDown l false ∧
    (stepdownE l 0 1).map Out.pvalue_adj = specPadjDown l 0 ∧
    (∀ x ∈ l.zip (stepdownE l 0 1), x.2.null_rejected = decide (x.1.1 ≤ x.2.alpha_adj)) ∧
    (∀ x ∈ l.zip (stepdownE l 0 1), x.2.null_rejected = true ↔ x.2.pvalue_adj ≤ a) ∧
    (∀ x ∈ l.zip (stepdownE l 0 1), x.1.1 ≤ x.2.pvalue_adj ∧ x.2.pvalue_adj ≤ 1) := by
  have hwf : WFDown l := ⟨fun x hx => (hOK x hx).1, hmono⟩
  exact ⟨stepdown_rejected_eq_spec l hwf, stepdown_padj_eq_spec l 0 1,
    stepdown_rejected_iff_p_le_alpha_adj l 0 1,
    stepdown_rejected_iff_padj_le_alpha l a ha0 hwf (fun x hx => (hOK x hx).2.1),
    stepdownE_padj_mem l 0 1 (fun x hx => ⟨(hOK x hx).2.2.1, (hOK x hx).2.2.2⟩) zero_le_one⟩

/-- the entries of a descending family are ordered as the step-up rule needs, when the threshold
does not increase with the position -/
theorem pairwise_entriesUp (adjust : α → α → α × α) (m : ℕ) (ps : List α) (i : ℕ)
    (hs : ps.Pairwise (fun a b => b ≤ a))
    (hthr : ∀ p q j j', i ≤ j → j < j' → j' < i + ps.length →
      (adjust q ((m : α) - (j' : α))).2 ≤ (adjust p ((m : α) - (j : α))).2) :
    (entriesUp adjust m ps i).Pairwise (fun x y => y.1 ≤ x.1 ∧ y.2.2 ≤ x.2.2) := by
  induction ps generalizing i with
  | nil => simp [entriesUp]
  | cons q rest ih =>
    simp only [entriesUp, List.pairwise_cons]
    simp only [List.length_cons] at hthr
    refine ⟨?_, ih (i + 1) (List.pairwise_cons.mp hs).2
      (fun p q' j j' h1 h2 h3 => hthr p q' j j' (by omega) h2 (by omega))⟩
    intro y hy
    obtain ⟨p, hp, j, h1, h2, rfl⟩ := mem_entriesUp _ _ _ _ _ hy
    exact ⟨(List.pairwise_cons.mp hs).1 p hp, hthr q p i j (le_refl _) (by omega) (by omega)⟩

theorem pairwise_entriesDown (adjust : α → α → α × α) (ps : List α) (k : ℕ)
    (hs : ps.Pairwise (fun a b => a ≤ b)) :
    (entriesDown adjust ps k).Pairwise (fun x y => x.1 ≤ y.1) := by
  induction ps generalizing k with
  | nil => simp [entriesDown]
  | cons q rest ih =>
    simp only [entriesDown, List.pairwise_cons]
    refine ⟨?_, ih (k + 1) (List.pairwise_cons.mp hs).2⟩
    intro y hy
    obtain ⟨p, hp, j, _, _, rfl⟩ := mem_entriesDown _ _ _ _ hy
    exact (List.pairwise_cons.mp hs).1 p hp

/-! ## Hochberg–Bonferroni -/

/-- in the step-up loop the Bonferroni coefficient at position `j` (0-based, descending) is `j + 1` -/
theorem bonferroni_coef_up (m j : ℕ) : ((m : α) - ((m : α) - (j : α)) + 1) = (j : α) + 1 := by ring

/-- **adjust_fwer(arbitrary_dependence=False, method="bonferroni") is Hochberg's step-up
procedure with Bonferroni thresholds `alpha / (m − k + 1)`** (`k` the ascending rank): for p-values
in [0,1] sorted descending and `0 < alpha < 1`, the flags follow the textbook step-up rule,
adjusted p-values are the running minimum of `min(p·(m − k + 1), 1)`, `alpha_adj` is the textbook
one, flags agree with `pvalue_adj ≤ alpha`, and adjusted p-values lie in `[pvalue, 1]`. -/
theorem adjust_fwer_hochberg_bonferroni (a : α) (ps : List α) (ha0 : 0 < a) (ha1 : a < 1)
    (h01 : ∀ p ∈ ps, 0 ≤ p ∧ p ≤ 1) (hs : ps.Pairwise (fun x y => y ≤ x)) :
    let cfg : FwerCfg α := { alpha := a, m := (ps.length : α) }
    let l := entriesUp (Gen.Bonferroni.adjust cfg) ps.length ps 0
    let out := hochbergStepup (Gen.Bonferroni.adjust cfg) ps
    out.map Out.null_rejected = specRejUp l false ∧
    out.map Out.pvalue_adj = specPadjUp l 1 ∧
    out.map Out.alpha_adj = specAlphaUp l none ∧
    (∀ x ∈ l.zip out, x.2.null_rejected = true ↔ x.2.pvalue_adj ≤ a) ∧
    (∀ x ∈ l.zip out, x.1.1 ≤ x.2.pvalue_adj ∧ x.2.pvalue_adj ≤ 1) := by
  intro cfg l out
  have hout : out = stepupE l 1 0 := stepupAux_eq _ _ _ _ _ _
  have hcoef : ∀ j : ℕ, (1 : α) ≤ cfg.m - ((ps.length : α) - (j : α)) + 1 := by
    intro j
    show (1 : α) ≤ (ps.length : α) - ((ps.length : α) - (j : α)) + 1
    rw [bonferroni_coef_up]
    have : (0 : α) ≤ (j : α) := by positivity
    linarith
  have hOK : ∀ x ∈ l, 0 < x.2.2 ∧ (x.2.1 ≤ a ↔ x.1 ≤ x.2.2) ∧ x.1 ≤ x.2.1 ∧ x.1 ≤ 1 := by
    intro x hx
    obtain ⟨p, hp, j, _, _, rfl⟩ := mem_entriesUp _ _ _ _ _ hx
    have e := bonferroni_entry cfg ((ps.length : α) - (j : α)) p (hcoef j) ha0 ha1 (h01 p hp).1 (h01 p hp).2
    exact ⟨e.1, e.2.2.2.1, e.2.2.2.2.1, (h01 p hp).2⟩
  have hmono : l.Pairwise (fun x y => y.1 ≤ x.1 ∧ y.2.2 ≤ x.2.2) := by
    apply pairwise_entriesUp _ _ _ _ hs
    intro p q j j' _ hjj _
    show a / ((ps.length : α) - ((ps.length : α) - (j' : α)) + 1)
      ≤ a / ((ps.length : α) - ((ps.length : α) - (j : α)) + 1)
    rw [bonferroni_coef_up, bonferroni_coef_up]
    have h1 : (0 : α) ≤ (j : α) := by positivity
    have h2 : (j : α) ≤ (j' : α) := by exact_mod_cast hjj.le
    exact div_le_div_of_nonneg_left ha0.le (by linarith) (by linarith)
  rw [hout]
  exact stepup_generic l a ha1 hOK hmono

/-! ## Šidák -/

/-- facts about one Šidák entry whose coefficient `m − k + 1` is at least 1: the threshold
`1 − (1 − alpha)^(1/c)` lies in (0,1), the raw adjusted p-value `1 − (1 − p)^c` lies in `[p, 1]`,
and `raw ≤ alpha ↔ p ≤ threshold` -/
theorem sidak_entry (rpow : α → α → α) (hR : RpowLaws rpow) (cfg : FwerCfg α) (k p : α)
    (hc : 1 ≤ cfg.m - k + 1) (ha0 : 0 < cfg.alpha) (ha1 : cfg.alpha < 1) (hp0 : 0 ≤ p) (hp1 : p ≤ 1) :
    let e := Gen.Sidak.adjust rpow cfg p k
    0 < e.2 ∧ e.2 < 1 ∧ (e.1 ≤ cfg.alpha ↔ p ≤ e.2) ∧ p ≤ e.1 ∧ e.1 ≤ 1 := by
  intro e
  have hc0 : 0 < cfg.m - k + 1 := by linarith
  have hic : 0 < 1 / (cfg.m - k + 1) := by positivity
  have hA1 : rpow (1 - cfg.alpha) (1 / (cfg.m - k + 1)) < 1 := by
    have := hR.strictMono_base (1 - cfg.alpha) 1 (1 / (cfg.m - k + 1)) (by linarith) (by linarith) hic
    rwa [hR.one_base] at this
  have hA0 : 0 < rpow (1 - cfg.alpha) (1 / (cfg.m - k + 1)) := hR.pos _ _ (by linarith)
  have hinv : rpow (rpow (1 - cfg.alpha) (1 / (cfg.m - k + 1))) (cfg.m - k + 1) = 1 - cfg.alpha :=
    hR.inv _ _ (by linarith) hc0
  have hq0 : 0 ≤ 1 - p := by linarith
  have hq1 : 1 - p ≤ 1 := by linarith
  simp only [e, Gen.Sidak.adjust]
  refine ⟨by linarith, by linarith, ?_, ?_, ?_⟩
  · constructor
    · intro h
      by_contra hlt
      have hlt' : 1 - p < rpow (1 - cfg.alpha) (1 / (cfg.m - k + 1)) := by
        have := not_le.mp hlt; linarith
      have := hR.strictMono_base (1 - p) _ (cfg.m - k + 1) hq0 hlt' hc0
      rw [hinv] at this
      linarith
    · intro h
      have h' : rpow (1 - cfg.alpha) (1 / (cfg.m - k + 1)) ≤ 1 - p := by linarith
      have := hR.mono_base _ _ (cfg.m - k + 1) hA0.le h' hc0
      rw [hinv] at this
      linarith
  · have := hR.anti_exp (1 - p) 1 (cfg.m - k + 1) hq0 hq1 zero_lt_one hc
    rw [hR.exp_one _ hq0] at this
    linarith
  · have := hR.nonneg (1 - p) (cfg.m - k + 1) hq0
    linarith

/-- the Šidák threshold does not increase with the coefficient -/
theorem sidak_thr_antitone (rpow : α → α → α) (hR : RpowLaws rpow) (a c c' : α) (ha0 : 0 < a) (ha1 : a < 1)
    (hc : 0 < c) (hcc : c ≤ c') :
    1 - rpow (1 - a) (1 / c') ≤ 1 - rpow (1 - a) (1 / c) := by
  have hc' : 0 < c' := lt_of_lt_of_le hc hcc
  have h1 : 1 / c' ≤ 1 / c := one_div_le_one_div_of_le hc hcc
  have := hR.anti_exp (1 - a) (1 / c') (1 / c) (by linarith) (by linarith) (by positivity) h1
  linarith

/-- **adjust_fwer(arbitrary_dependence=True, method="sidak") is the Holm–Šidák step-down
procedure**: thresholds `1 − (1 − alpha)^(1/(m − k + 1))`, adjusted p-values the running maximum of
`1 − (1 − p)^(m − k + 1)`. -/
theorem adjust_fwer_holm_sidak (rpow : α → α → α) (hR : RpowLaws rpow) (a : α) (ps : List α)
    (ha0 : 0 < a) (ha1 : a < 1) (h01 : ∀ p ∈ ps, 0 ≤ p ∧ p ≤ 1) (hs : ps.Pairwise (fun x y => x ≤ y)) :
    let cfg : FwerCfg α := { alpha := a, m := (ps.length : α) }
    let l := entriesDown (Gen.Sidak.adjust rpow cfg) ps 1
    let out := holmStepdown (Gen.Sidak.adjust rpow cfg) ps
    out.map Out.null_rejected = specRejDown l false ∧
    out.map Out.pvalue_adj = specPadjDown l 0 ∧
    (∀ x ∈ l.zip out, x.2.null_rejected = decide (x.1.1 ≤ x.2.alpha_adj)) ∧
    (∀ x ∈ l.zip out, x.2.null_rejected = true ↔ x.2.pvalue_adj ≤ a) ∧
    (∀ x ∈ l.zip out, x.1.1 ≤ x.2.pvalue_adj ∧ x.2.pvalue_adj ≤ 1) := by
  intro cfg l out
  have hout : out = stepdownE l 0 1 := stepdownAux_eq _ _ _ _ _
  have hOK : ∀ x ∈ l, x.2.2 < 1 ∧ (x.2.1 ≤ a ↔ x.1 ≤ x.2.2) ∧ x.1 ≤ x.2.1 ∧ x.2.1 ≤ 1 := by
    intro x hx
    obtain ⟨p, hp, j, h1, h2, rfl⟩ := mem_entriesDown _ _ _ _ hx
    have hj : (j : α) ≤ (ps.length : α) := by exact_mod_cast (show j ≤ ps.length by omega)
    have e := sidak_entry rpow hR cfg j p (by show 1 ≤ (ps.length : α) - j + 1; linarith) ha0 ha1
      (h01 p hp).1 (h01 p hp).2
    exact ⟨e.2.1, e.2.2.1, e.2.2.2.1, e.2.2.2.2⟩
  rw [hout]
  exact stepdown_generic l a ha0.le hOK (pairwise_entriesDown _ _ _ hs)

/-- **adjust_fwer(arbitrary_dependence=False, method="sidak") is Hochberg's step-up procedure with
Šidák thresholds.** -/
theorem adjust_fwer_hochberg_sidak (rpow : α → α → α) (hR : RpowLaws rpow) (a : α) (ps : List α)
    (ha0 : 0 < a) (ha1 : a < 1) (h01 : ∀ p ∈ ps, 0 ≤ p ∧ p ≤ 1) (hs : ps.Pairwise (fun x y => y ≤ x)) :
    let cfg : FwerCfg α := { alpha := a, m := (ps.length : α) }
    let l := entriesUp (Gen.Sidak.adjust rpow cfg) ps.length ps 0
    let out := hochbergStepup (Gen.Sidak.adjust rpow cfg) ps
    out.map Out.null_rejected = specRejUp l false ∧
    out.map Out.pvalue_adj = specPadjUp l 1 ∧
    out.map Out.alpha_adj = specAlphaUp l none ∧
    (∀ x ∈ l.zip out, x.2.null_rejected = true ↔ x.2.pvalue_adj ≤ a) ∧
    (∀ x ∈ l.zip out, x.1.1 ≤ x.2.pvalue_adj ∧ x.2.pvalue_adj ≤ 1) := by
  intro cfg l out
  have hout : out = stepupE l 1 0 := stepupAux_eq _ _ _ _ _ _
  have hcoef : ∀ j : ℕ, (1 : α) ≤ cfg.m - ((ps.length : α) - (j : α)) + 1 := by
    intro j
    show (1 : α) ≤ (ps.length : α) - ((ps.length : α) - (j : α)) + 1
    rw [bonferroni_coef_up]
    have : (0 : α) ≤ (j : α) := by positivity
    linarith
  have hOK : ∀ x ∈ l, 0 < x.2.2 ∧ (x.2.1 ≤ a ↔ x.1 ≤ x.2.2) ∧ x.1 ≤ x.2.1 ∧ x.1 ≤ 1 := by
    intro x hx
    obtain ⟨p, hp, j, _, _, rfl⟩ := mem_entriesUp _ _ _ _ _ hx
    have e := sidak_entry rpow hR cfg ((ps.length : α) - (j : α)) p (hcoef j) ha0 ha1 (h01 p hp).1 (h01 p hp).2
    exact ⟨e.1, e.2.2.1, e.2.2.2.1, (h01 p hp).2⟩
  have hmono : l.Pairwise (fun x y => y.1 ≤ x.1 ∧ y.2.2 ≤ x.2.2) := by
    apply pairwise_entriesUp _ _ _ _ hs
    intro p q j j' _ hjj _
    show 1 - rpow (1 - a) (1 / ((ps.length : α) - ((ps.length : α) - (j' : α)) + 1))
      ≤ 1 - rpow (1 - a) (1 / ((ps.length : α) - ((ps.length : α) - (j : α)) + 1))
    rw [bonferroni_coef_up, bonferroni_coef_up]
    have h1 : (0 : α) ≤ (j : α) := by positivity
    have h2 : (j : α) ≤ (j' : α) := by exact_mod_cast hjj.le
    exact sidak_thr_antitone rpow hR a _ _ ha0 ha1 (by linarith) (by linarith)
  rw [hout]
  exact stepup_generic l a ha1 hOK hmono

end C10
