import TeaTasting.Model.Format
import Mathlib.Tactic.Ring
import Mathlib.Tactic.Linarith
import Mathlib.Tactic.FieldSimp
import Mathlib.Tactic.Positivity
import Mathlib.Algebra.Order.Floor.Ring
import Mathlib.Algebra.Order.Field.Power

/-! # C16 — rendered results are faithful to the numbers and consistent across views

Theorems about `Model/Format.lean` (tied to `utils.py` string for string by the correspondence check).
A finite float is the rational it denotes; the float library (`floor(log10 ·)`, rounding to binary64) is
the parameter `FloatLib`, with what is assumed of it stated as hypotheses. -/

namespace C16
open Format

/-! ## round half to even -/

theorem rheInt_error (q : ℚ) : |(rheInt q : ℚ) - q| ≤ 1 / 2 := by
  have h0 : (⌊q⌋ : ℚ) ≤ q := Int.floor_le q
  have h1 : q < (⌊q⌋ : ℚ) + 1 := Int.lt_floor_add_one q
  unfold rheInt
  simp only
  split_ifs with a b c
  · rw [abs_le]; constructor <;> linarith
  · rw [abs_le]; push_cast; constructor <;> linarith
  · have : q - (⌊q⌋ : ℚ) = 1 / 2 := le_antisymm (not_lt.mp b) (not_lt.mp a)
    rw [abs_le]; constructor <;> linarith
  · have : q - (⌊q⌋ : ℚ) = 1 / 2 := le_antisymm (not_lt.mp b) (not_lt.mp a)
    rw [abs_le]; push_cast; constructor <;> linarith

/-- a rational strictly within 1/2 of an integer rounds to that integer -/
theorem rheInt_eq_of_close (q : ℚ) (n : ℤ) (h : |q - n| < 1 / 2) : rheInt q = n := by
  rw [abs_lt] at h
  obtain ⟨hl, hr⟩ := h
  unfold rheInt
  simp only
  by_cases hq : (n : ℚ) ≤ q
  · have hf : ⌊q⌋ = n := by
      rw [Int.floor_eq_iff]; constructor <;> linarith
    rw [hf, if_pos hr]
  · rw [not_le] at hq
    have hf : ⌊q⌋ = n - 1 := by
      rw [Int.floor_eq_iff]; push_cast; constructor <;> linarith
    rw [hf]
    have h1 : ¬ (q - ((n - 1 : ℤ) : ℚ) < 1 / 2) := by push_cast; linarith
    have h2 : (1 : ℚ) / 2 < q - ((n - 1 : ℤ) : ℚ) := by push_cast; linarith
    simp only [h1, h2, if_false, if_true]
    ring

theorem pow10_pos (p : ℤ) : (0 : ℚ) < (10 : ℚ) ^ p := by positivity

/-- **rounding to `p` decimals is off by at most half a unit of the last place** -/
theorem rhe_error (q : ℚ) (p : ℤ) : |rhe q p - q| ≤ 1 / 2 / (10 : ℚ) ^ p := by
  unfold rhe
  have hp := pow10_pos p
  have h := rheInt_error (q * (10 : ℚ) ^ p)
  have e : (rheInt (q * (10 : ℚ) ^ p) : ℚ) / (10 : ℚ) ^ p - q
      = ((rheInt (q * (10 : ℚ) ^ p) : ℚ) - q * (10 : ℚ) ^ p) / (10 : ℚ) ^ p := by
    field_simp
  rw [e, abs_div, abs_of_pos hp]
  exact div_le_div_of_nonneg_right h hp.le

/-- a value strictly within half a unit of a grid point rounds to that grid point -/
theorem rhe_fix (x : ℚ) (p : ℤ) (k : ℤ) (h : |x - (k : ℚ) / (10 : ℚ) ^ p| < 1 / 2 / (10 : ℚ) ^ p) :
    rhe x p = (k : ℚ) / (10 : ℚ) ^ p := by
  have hp := pow10_pos p
  unfold rhe
  have : rheInt (x * (10 : ℚ) ^ p) = k := by
    apply rheInt_eq_of_close
    have e : x * (10 : ℚ) ^ p - (k : ℚ) = (x - (k : ℚ) / (10 : ℚ) ^ p) * (10 : ℚ) ^ p := by
      field_simp
    rw [e, abs_mul, abs_of_pos hp]
    calc |x - (k : ℚ) / (10 : ℚ) ^ p| * (10 : ℚ) ^ p < 1 / 2 / (10 : ℚ) ^ p * (10 : ℚ) ^ p :=
          mul_lt_mul_of_pos_right h hp
      _ = 1 / 2 := by field_simp
  rw [this]

/-- rounding is idempotent on the grid -/
theorem rhe_grid (p : ℤ) (k : ℤ) : rhe ((k : ℚ) / (10 : ℚ) ^ p) p = (k : ℚ) / (10 : ℚ) ^ p := by
  apply rhe_fix
  have hp := pow10_pos p
  simp only [sub_self, abs_zero]
  positivity

/-! ## significant digits -/

/-- **The significant-digit bound.**  Let `e` be what the code takes for `floor(log10 |v|)` — any integer with
`10^e ≤ |v|·(1+δ)` (`δ = 0` for an exact logarithm) — and `p ≥ s − 1 − e` the number of decimals kept
(`p = max(0, s−1−e)` in the fixed branch, `p = s−1−e` for the mantissa of the exponential branch).  Then the
rounded value is within `½·10^(1−s)` of `v`, relatively (up to the slack `δ` of the logarithm). -/
theorem sig_error (v : ℚ) (s e p : ℤ) (δ : ℚ)
    (he : (10 : ℚ) ^ e ≤ |v| * (1 + δ)) (hp : s - 1 - e ≤ p) :
    |rhe v p - v| ≤ 1 / 2 * (10 : ℚ) ^ (1 - s) * |v| * (1 + δ) := by
  have h1 := rhe_error v p
  have hpow : (1 : ℚ) / (10 : ℚ) ^ p ≤ (10 : ℚ) ^ (1 - s) * (10 : ℚ) ^ e := by
    rw [← zpow_add₀ (by norm_num : (10 : ℚ) ≠ 0), one_div, ← zpow_neg]
    apply zpow_le_zpow_right₀ (by norm_num : (1 : ℚ) ≤ 10)
    omega
  have h10 : (0 : ℚ) < (10 : ℚ) ^ (1 - s) := pow10_pos _
  calc |rhe v p - v| ≤ 1 / 2 / (10 : ℚ) ^ p := h1
    _ = 1 / 2 * (1 / (10 : ℚ) ^ p) := by ring
    _ ≤ 1 / 2 * ((10 : ℚ) ^ (1 - s) * (10 : ℚ) ^ e) := by
        apply mul_le_mul_of_nonneg_left hpow (by norm_num)
    _ ≤ 1 / 2 * ((10 : ℚ) ^ (1 - s) * (|v| * (1 + δ))) := by
        apply mul_le_mul_of_nonneg_left _ (by norm_num)
        exact mul_le_mul_of_nonneg_left he h10.le
    _ = 1 / 2 * (10 : ℚ) ^ (1 - s) * |v| * (1 + δ) := by ring

/-- the exact logarithm satisfies the hypothesis of `sig_error` with `δ = 0` -/
theorem exact_log_le (v : ℚ) (hv : v ≠ 0) : (10 : ℚ) ^ (Int.log 10 |v|) ≤ |v| * (1 + 0) := by
  rw [add_zero, mul_one]
  exact Int.zpow_log_le_self (by norm_num) (abs_pos.mpr hv)

/-- fixed branch, exact logarithm: `round(v, max(0, s−1−e))` is `v` to `s` significant digits -/
theorem fixed_sig_error (v : ℚ) (hv : v ≠ 0) (s : ℤ) :
    |rhe v ((s - 1 - Int.log 10 |v|).toNat : ℤ) - v| ≤ 1 / 2 * (10 : ℚ) ^ (1 - s) * |v| := by
  have := sig_error v s (Int.log 10 |v|) ((s - 1 - Int.log 10 |v|).toNat : ℤ) 0 (exact_log_le v hv)
    (Int.self_le_toNat _)
  simpa using this

/-- exponential branch: the mantissa rounding `s−1−e` decimals (possibly negative) -/
theorem exp_sig_error (v : ℚ) (hv : v ≠ 0) (s : ℤ) :
    |rhe v (s - 1 - Int.log 10 |v|) - v| ≤ 1 / 2 * (10 : ℚ) ^ (1 - s) * |v| := by
  have := sig_error v s (Int.log 10 |v|) (s - 1 - Int.log 10 |v|) 0 (exact_log_le v hv) le_rfl
  simpa using this

/-! ## what the renderings denote -/

/-- `format(x2, ".{p2}f")` prints the grid point `|d|` whenever the float `x2` returned by `round` is strictly
within half a unit of it (true of binary64 for `s ≤ 15`; observed on every sampled input by the driver) -/
theorem fixed_digits_value (x2 : ℚ) (p2 : ℕ) (k : ℕ)
    (hclose : abs (abs x2 - (k : ℚ) / (10 : ℚ) ^ (p2 : ℤ)) < 1 / 2 / (10 : ℚ) ^ (p2 : ℤ)) :
    (((rheInt (|x2| * (10 : ℚ) ^ (p2 : ℤ))).toNat : ℕ) : ℚ) / (10 : ℚ) ^ (p2 : ℤ) = (k : ℚ) / (10 : ℚ) ^ (p2 : ℤ) := by
  have h := rhe_fix |x2| (p2 : ℤ) (k : ℤ) (by simpa using hclose)
  unfold rhe at h
  have hp := pow10_pos (p2 : ℤ)
  have hk : rheInt (|x2| * (10 : ℚ) ^ (p2 : ℤ)) = (k : ℤ) := by
    have := (div_left_inj' hp.ne').mp h
    exact_mod_cast this
  rw [hk]
  simp

/-- the carry normalisation of the exponential mantissa (`9.995e-4 → 1.00e-03`) keeps the value -/
theorem expDigits_value (v : ℚ) (p : ℕ) :
    ((expDigits v p).1 : ℚ) * (10 : ℚ) ^ ((expDigits v p).2 - (p : ℤ))
      = ((rheInt (|v| * (10 : ℚ) ^ ((p : ℤ) - Int.log 10 |v|))).toNat : ℚ)
          * (10 : ℚ) ^ (Int.log 10 |v| - (p : ℤ)) := by
  unfold expDigits
  simp only
  split_ifs with h
  · rw [h]
    push_cast
    rw [show Int.log 10 |v| + 1 - (p : ℤ) = (Int.log 10 |v| - (p : ℤ)) + 1 by ring,
      zpow_add₀ (by norm_num : (10 : ℚ) ≠ 0), pow_succ]
    ring
  · rfl

/-- `None` / NaN / infinities are rendered as documented, whatever the other options -/
theorem formatNum_special (L : FloatLib) (o : Opts) :
    formatNum L .none o = .ok o.nan.toList ∧ formatNum L .nan o = .ok o.nan.toList
    ∧ formatNum L .posInf o = .ok o.inf.toList ∧ formatNum L .negInf o = .ok ('-' :: o.inf.toList) :=
  ⟨rfl, rfl, rfl, rfl⟩

/-- the sign is the first character exactly for negative values (fixed rendering) -/
theorem renderFixed_head (neg : Bool) (n p : ℕ) (o : Opts) :
    renderFixed neg n p o = (if neg then ['-'] else []) ++ renderFixed false n p o := by
  cases neg <;> simp [renderFixed]

/-- percent mode appends `%` and nothing else to the rendering of the scaled value -/
theorem formatFin_pct_suffix (L : FloatLib) (x : ℚ) (o : Opts) (r : Rendered)
    (h : formatFin L x o = .ok r) : ∃ body, r.text = body ++ (if o.pct then ['%'] else []) := by
  unfold formatFin at h
  simp only at h
  split at h
  · injection h with h; subst h; exact ⟨_, rfl⟩
  · split at h
    · injection h with h; subst h; exact ⟨_, rfl⟩
    · split at h
      · cases h
      · injection h with h; subst h; exact ⟨_, rfl⟩

/-! ## the views -/

section Views
variable (fmt : RowD → String → List Char) (keys : List String) (rows : List RowD)

/-- `to_pretty_dicts`: one entry per row of `to_dicts()`, in the same order, one cell per selected key -/
theorem prettyCells_rows : (prettyCells fmt keys rows).length = rows.length := by
  simp [prettyCells]

theorem prettyCells_cell (i : ℕ) (hi : i < rows.length) :
    (prettyCells fmt keys rows)[i]'(by simpa [prettyCells] using hi) = keys.map (fmt rows[i]) := by
  simp [prettyCells]

/-- `to_string`: a header line and one line per row, in order -/
theorem toStringLines_length : (toStringLines fmt keys rows).length = rows.length + 1 := by
  simp [toStringLines, prettyCells]

theorem rjust_length (w : ℕ) (s : List Char) : (rjust w s).length = max w s.length := by
  simp [rjust]; omega

/-- right alignment: the cell is the value preceded by spaces only -/
theorem rjust_spec (w : ℕ) (s : List Char) :
    (rjust w s).drop (w - s.length) = s ∧ ∀ c ∈ (rjust w s).take (w - s.length), c = ' ' := by
  constructor
  · simp [rjust]
  · intro c hc
    simp [rjust] at hc
    exact hc.2

theorem joinSep_length (sep : List Char) (cells : List (List Char)) :
    (joinSep sep cells).length = (cells.map List.length).sum + (cells.length - 1) * sep.length := by
  induction cells with
  | nil => simp [joinSep]
  | cons a rest ih =>
    cases rest with
    | nil => simp [joinSep]
    | cons b rest' =>
      simp only [joinSep, List.length_append, ih, List.map_cons, List.sum_cons, List.length_cons]
      have : (rest'.length + 1 + 1 - 1) = (rest'.length + 1 - 1) + 1 := by omega
      rw [this, Nat.add_mul]
      omega

theorem le_foldl_max (cells : List (List Char)) (w0 : ℕ) :
    w0 ≤ cells.foldl (fun w c => max w c.length) w0 ∧
      ∀ c ∈ cells, c.length ≤ cells.foldl (fun w c => max w c.length) w0 := by
  induction cells generalizing w0 with
  | nil => simp
  | cons a rest ih =>
    simp only [List.foldl_cons]
    obtain ⟨h1, h2⟩ := ih (max w0 a.length)
    refine ⟨le_trans (le_max_left _ _) h1, ?_⟩
    intro c hc
    rcases List.mem_cons.mp hc with rfl | hc
    · exact le_trans (le_max_right _ _) h1
    · exact h2 c hc

/-- a cell padded to its column's width has exactly that width -/
theorem rjust_colWidth (header : List Char) (cells : List (List Char)) (c : List Char)
    (hc : c = header ∨ c ∈ cells) : (rjust (colWidth header cells) c).length = colWidth header cells := by
  rw [rjust_length]
  obtain ⟨h1, h2⟩ := le_foldl_max cells header.length
  unfold colWidth
  rcases hc with rfl | hc
  · exact max_eq_left h1
  · exact max_eq_left (h2 c hc)

/-- the widths the table uses: per key, the maximum of the header and every cell of that column -/
def widthsOf : List Nat :=
  (List.range keys.length).map (fun j => colWidth (keys.getD j "").toList (transposeCol (prettyCells fmt keys rows) j))

/-- a line of the table, from the cell texts of one row -/
def lineOf (vals : List (List Char)) : List Char :=
  joinSep [' '] ((List.range keys.length).map (fun j => rjust ((widthsOf fmt keys rows).getD j 0) (vals.getD j [])))

theorem toStringLines_eq :
    toStringLines fmt keys rows
      = lineOf fmt keys rows (keys.map String.toList) :: (prettyCells fmt keys rows).map (lineOf fmt keys rows) := rfl

theorem map_getD_range (l : List Nat) : (List.range l.length).map (fun j => l.getD j 0) = l := by
  apply List.ext_getElem
  · simp
  · intro i h1 h2
    simp at h1 h2 ⊢
    simp [h2]

/-- the length of a line whose every cell fits its column: the sum of the widths plus the separators -/
theorem lineOf_length (vals : List (List Char))
    (hfit : ∀ j < keys.length, (vals.getD j []).length ≤ (widthsOf fmt keys rows).getD j 0) :
    (lineOf fmt keys rows vals).length = (widthsOf fmt keys rows).sum + (keys.length - 1) := by
  unfold lineOf
  rw [joinSep_length]
  simp only [List.length_map, List.length_range, List.length_singleton, Nat.mul_one, List.map_map]
  congr 1
  have : (List.range keys.length).map (List.length ∘ fun j =>
      rjust ((widthsOf fmt keys rows).getD j 0) (vals.getD j []))
      = (List.range keys.length).map (fun j => (widthsOf fmt keys rows).getD j 0) := by
    apply List.map_congr_left
    intro j hj
    simp only [Function.comp, rjust_length]
    exact max_eq_left (hfit j (List.mem_range.mp hj))
  rw [this]
  have hlen : (widthsOf fmt keys rows).length = keys.length := by simp [widthsOf]
  conv_rhs => rw [← map_getD_range (widthsOf fmt keys rows), hlen]

theorem widthsOf_getD (j : Nat) (hj : j < keys.length) :
    (widthsOf fmt keys rows).getD j 0
      = colWidth (keys.getD j "").toList (transposeCol (prettyCells fmt keys rows) j) := by
  simp [widthsOf, List.getD_eq_getElem?_getD, hj]

/-- **`to_string` is rectangular**: the header line and every row line have the same length (so the cells of a
column end at the same position: a right-aligned table) -/
theorem toStringLines_rectangular :
    ∀ line ∈ toStringLines fmt keys rows,
      line.length = (widthsOf fmt keys rows).sum + (keys.length - 1) := by
  intro line hline
  rw [toStringLines_eq] at hline
  rcases List.mem_cons.mp hline with rfl | hmem
  · apply lineOf_length
    intro j hj
    rw [widthsOf_getD fmt keys rows j hj]
    have h := (le_foldl_max (transposeCol (prettyCells fmt keys rows) j) (keys.getD j "").toList.length).1
    have e : (keys.map String.toList).getD j [] = (keys.getD j "").toList := by
      simp [List.getD_eq_getElem?_getD, List.getElem?_map]
      cases keys[j]? <;> simp
    rw [e]
    exact h
  · obtain ⟨row, hrow, rfl⟩ := List.mem_map.mp hmem
    apply lineOf_length
    intro j hj
    rw [widthsOf_getD fmt keys rows j hj]
    have h := (le_foldl_max (transposeCol (prettyCells fmt keys rows) j) (keys.getD j "").toList.length).2
    apply h
    unfold transposeCol
    exact List.mem_map.mpr ⟨row, hrow, rfl⟩

end Views

/-! ## html text -/

theorem unescape_cons_ne (c : Char) (rest : List Char) (h : c ≠ '&') : unescape (c :: rest) = c :: unescape rest := by
  rw [unescape]; simp [h]

theorem unescape_entity (rest : List Char) (d : Char) (r : List Char) (h : entity rest = some (d, r)) :
    unescape ('&' :: rest) = d :: unescape r := by
  rw [unescape]
  simp only [if_true]
  split
  · next d' r' h' => rw [h] at h'; injection h' with h'; injection h' with h1 h2; subst h1; subst h2; rfl
  · next h' => rw [h] at h'; cases h'

theorem unescape_escapeChar_append (c : Char) (rest : List Char) :
    unescape (escapeChar c ++ rest) = c :: unescape rest := by
  by_cases h1 : c = '&'
  · subst h1; exact unescape_entity _ _ _ rfl
  by_cases h2 : c = '<'
  · subst h2; exact unescape_entity _ _ _ rfl
  by_cases h3 : c = '>'
  · subst h3; exact unescape_entity _ _ _ rfl
  have : escapeChar c = [c] := by
    unfold escapeChar
    split <;> simp_all
  rw [this]
  exact unescape_cons_ne c rest h1

/-- **escaping loses nothing**: reading the escaped text back gives the original cell, whatever characters
it contains -/
theorem unescape_escape (s : List Char) : unescape (escape s) = s := by
  induction s with
  | nil => simp [escape, unescape]
  | cons c rest ih =>
    have : escape (c :: rest) = escapeChar c ++ escape rest := by simp [escape]
    rw [this, unescape_escapeChar_append, ih]

/-- **no markup survives in text**: an escaped cell contains neither `<` nor `>` -/
theorem escape_no_markup (s : List Char) : ∀ c ∈ escape s, c ≠ '<' ∧ c ≠ '>' := by
  intro c hc
  simp only [escape, List.mem_flatMap] at hc
  obtain ⟨a, _, hca⟩ := hc
  unfold escapeChar at hca
  split at hca
  · simp at hca; rcases hca with rfl | rfl | rfl | rfl | rfl <;> decide
  · simp at hca; rcases hca with rfl | rfl | rfl | rfl <;> decide
  · simp at hca; rcases hca with rfl | rfl | rfl | rfl <;> decide
  · simp at hca; subst hca
    constructor <;> (intro h; simp_all)

/-! ## non-vacuity: the named boundary values (kernel-evaluated on the exact model) -/

example : formatNum exactLib (.fin (1999 / 20)) {} = .ok "100".toList := by decide +kernel
example : formatNum exactLib (.fin (24999 / 25000000)) {} = .ok "1.00e-03".toList := by decide +kernel
example : formatNum exactLib (.fin (19999999 / 2)) {} = .ok "10000000".toList := by decide +kernel
example : formatNum exactLib (.fin (-1 / 8)) { sig := 2 } = .ok "-0.12".toList := by decide +kernel
example : formatNum exactLib (.fin (1234567891 / 1000)) { sig := 9, tsep := ".", dpoint := "," }
    = .ok "1.234.567,89".toList := by decide +kernel
example : escape "a<b & c>".toList = "a&lt;b &amp; c&gt;".toList := by decide

end C16

/-! ## no double rounding in exact arithmetic (the idealised float library) -/

namespace C16
open Format

theorem rheInt_int (n : ℤ) : rheInt (n : ℚ) = n := by
  apply rheInt_eq_of_close
  simp

/-- rounding half to even is symmetric -/
theorem rheInt_neg (q : ℚ) : rheInt (-q) = -rheInt q := by
  by_cases hint : (⌊q⌋ : ℚ) = q
  · rw [← hint, ← Int.cast_neg, rheInt_int, rheInt_int]
  · have h0 : (⌊q⌋ : ℚ) ≤ q := Int.floor_le q
    have h1 : q < (⌊q⌋ : ℚ) + 1 := Int.lt_floor_add_one q
    have hlt : (⌊q⌋ : ℚ) < q := lt_of_le_of_ne h0 hint
    have hf : ⌊-q⌋ = -⌊q⌋ - 1 := by
      rw [Int.floor_eq_iff]; push_cast; constructor <;> linarith
    unfold rheInt
    simp only [hf]
    push_cast
    by_cases a : q - (⌊q⌋ : ℚ) < 1 / 2
    · have b : ¬ (-q - (-(⌊q⌋ : ℚ) - 1) < 1 / 2) := by linarith
      have c : (1 : ℚ) / 2 < -q - (-(⌊q⌋ : ℚ) - 1) := by linarith
      simp only [a, b, c, if_true, if_false]; ring
    · by_cases a' : (1 : ℚ) / 2 < q - (⌊q⌋ : ℚ)
      · have b : -q - (-(⌊q⌋ : ℚ) - 1) < 1 / 2 := by linarith
        simp only [a, a', b, if_true, if_false]; ring
      · have heq : q - (⌊q⌋ : ℚ) = 1 / 2 := le_antisymm (not_lt.mp a') (not_lt.mp a)
        have b : ¬ (-q - (-(⌊q⌋ : ℚ) - 1) < 1 / 2) := by linarith
        have c : ¬ ((1 : ℚ) / 2 < -q - (-(⌊q⌋ : ℚ) - 1)) := by linarith
        simp only [a, a', b, c, if_false]
        by_cases hev : ⌊q⌋ % 2 = 0
        · have : ¬ ((-⌊q⌋ - 1) % 2 = 0) := by omega
          simp only [hev, this, if_true, if_false]; ring
        · have : (-⌊q⌋ - 1) % 2 = 0 := by omega
          simp only [hev, this, if_true, if_false]; ring

theorem rhe_neg (q : ℚ) (p : ℤ) : rhe (-q) p = -rhe q p := by
  unfold rhe
  rw [neg_mul, rheInt_neg]
  push_cast
  ring

/-- rounding half to even is monotone -/
theorem rheInt_mono {a b : ℚ} (h : a ≤ b) : rheInt a ≤ rheInt b := by
  by_contra hlt
  rw [not_le] at hlt
  have ha := rheInt_error a
  have hb := rheInt_error b
  rw [abs_le] at ha hb
  have h1 : (rheInt b : ℚ) + 1 ≤ rheInt a := by exact_mod_cast hlt
  -- a ≥ rheInt a − 1/2 ≥ rheInt b + 1/2 ≥ b  ⇒ a = b = rheInt b + 1/2 = rheInt a − 1/2, so rheInt a = rheInt b
  have hab : a = b := le_antisymm h (by linarith)
  subst hab
  exact absurd hlt (lt_irrefl _)

theorem rhe_mono {a b : ℚ} (p : ℤ) (h : a ≤ b) : rhe a p ≤ rhe b p := by
  unfold rhe
  have hp := pow10_pos p
  apply div_le_div_of_nonneg_right _ hp.le
  exact_mod_cast rheInt_mono (mul_le_mul_of_nonneg_right h hp.le)

theorem rhe_abs (q : ℚ) (p : ℤ) : |rhe q p| = rhe |q| p := by
  have h0 : rhe 0 p = 0 := by
    have := rheInt_int 0
    simp only [Int.cast_zero] at this
    simp [rhe, this]
  by_cases hq : 0 ≤ q
  · rw [abs_of_nonneg hq, abs_of_nonneg]
    have := rhe_mono p hq
    rwa [h0] at this
  · rw [not_le] at hq
    rw [abs_of_neg hq, rhe_neg, abs_of_nonpos]
    · have := rhe_mono p hq.le
      rw [h0] at this
      have h2 : rhe (-q) p = -rhe q p := rhe_neg q p
      linarith [this]

end C16

namespace C16
open Format

theorem rheInt_nonneg {q : ℚ} (h : 0 ≤ q) : 0 ≤ rheInt q := by
  have := rheInt_mono h
  have h0 := rheInt_int 0
  simp only [Int.cast_zero] at h0
  rwa [h0] at this

/-- a power of ten that lies on the `p`-decimal grid is a fixed point of the rounding -/
theorem rhe_pow10 (a p : ℤ) (h : 0 ≤ a + p) : rhe ((10 : ℚ) ^ a) p = (10 : ℚ) ^ a := by
  have e : (10 : ℚ) ^ a = (((10 : ℤ) ^ (a + p).toNat : ℤ) : ℚ) / (10 : ℚ) ^ p := by
    have hp := pow10_pos p
    rw [eq_div_iff hp.ne', ← zpow_add₀ (by norm_num : (10 : ℚ) ≠ 0)]
    push_cast
    rw [← zpow_natCast, Int.toNat_of_nonneg h]
  rw [e]
  exact rhe_grid p _

/-- **No double rounding (exact arithmetic).**  With an exact logarithm and no float error, the digits the
second formatting pass prints — at the re-derived precision `p2`, which differs from `p` exactly when the first
rounding carried to the next power of ten (`99.95 → 100`) — denote the once-rounded value. -/
theorem ideal_fixed_value (v : ℚ) (hv : v ≠ 0) (s : ℤ) (hs : 1 ≤ s)
    (hd : rhe v ((s - 1 - Int.log 10 |v|).toNat : ℤ) ≠ 0) :
    let d := rhe v ((s - 1 - Int.log 10 |v|).toNat : ℤ)
    let p2 := (s - 1 - Int.log 10 |d|).toNat
    (((rheInt (|d| * (10 : ℚ) ^ (p2 : ℤ))).toNat : ℕ) : ℚ) / (10 : ℚ) ^ (p2 : ℤ) = |d| := by
  intro d p2
  set e := Int.log 10 |v| with he
  set p := (s - 1 - e).toNat with hp
  have habs : |d| = rhe |v| (p : ℤ) := rhe_abs v p
  have hvpos : 0 < |v| := abs_pos.mpr hv
  have hdpos : 0 < |d| := abs_pos.mpr hd
  -- |d| is m / 10^p with m a natural number
  set m := rheInt (|v| * (10 : ℚ) ^ (p : ℤ)) with hm
  have hm0 : 0 ≤ m := rheInt_nonneg (mul_nonneg hvpos.le (pow10_pos _).le)
  have hdm : |d| = (m : ℚ) / (10 : ℚ) ^ (p : ℤ) := by rw [habs]; rfl
  -- it suffices to put |d| on the p2-grid
  suffices hk : ∃ k : ℕ, |d| = (k : ℚ) / (10 : ℚ) ^ (p2 : ℤ) by
    obtain ⟨k, hk⟩ := hk
    have := fixed_digits_value d p2 k (by
      rw [hk, sub_self, abs_zero]
      have := pow10_pos (p2 : ℤ)
      positivity)
    rw [this, ← hk]
  by_cases hpp : p ≤ p2
  · refine ⟨m.toNat * 10 ^ (p2 - p), ?_⟩
    rw [hdm]
    have hp10 := pow10_pos (p : ℤ)
    have hp20 := pow10_pos (p2 : ℤ)
    rw [div_eq_div_iff hp10.ne' hp20.ne']
    have hmn : ((m.toNat : ℕ) : ℚ) = (m : ℚ) := by
      have : ((m.toNat : ℕ) : ℤ) = m := Int.toNat_of_nonneg hm0
      exact_mod_cast this
    push_cast
    rw [hmn]
    have : (10 : ℚ) ^ (p2 : ℤ) = (10 : ℚ) ^ (p2 - p) * (10 : ℚ) ^ (p : ℤ) := by
      rw [zpow_natCast, zpow_natCast, ← pow_add]
      congr 1
      omega
    rw [this]
    ring
  · -- the first rounding carried: |d| is exactly 10^(e+1)
    rw [not_le] at hpp
    have hp_pos : 0 < p := by omega
    have hpe : (p : ℤ) = s - 1 - e := by
      rw [hp]; exact Int.toNat_of_nonneg (by
        by_contra hneg
        rw [not_le] at hneg
        have : (s - 1 - e).toNat = 0 := Int.toNat_eq_zero.mpr hneg.le
        omega)
    set e2 := Int.log 10 |d| with he2
    have he2gt : e < e2 := by
      by_contra hle
      rw [not_lt] at hle
      have : (s - 1 - e).toNat ≤ (s - 1 - e2).toNat := Int.toNat_le_toNat (by omega)
      omega
    have hlow : (10 : ℚ) ^ (e + 1) ≤ |d| := by
      calc (10 : ℚ) ^ (e + 1) ≤ (10 : ℚ) ^ e2 := zpow_le_zpow_right₀ (by norm_num) (by omega)
        _ ≤ |d| := Int.zpow_log_le_self (by norm_num) hdpos
    have hup : |d| ≤ (10 : ℚ) ^ (e + 1) := by
      rw [habs, ← rhe_pow10 (e + 1) p (by omega)]
      apply rhe_mono
      exact (Int.lt_zpow_succ_log_self (by norm_num) |v|).le
    have hdeq : |d| = (10 : ℚ) ^ (e + 1) := le_antisymm hup hlow
    have he2eq : e2 = e + 1 := by
      rw [he2, hdeq]
      exact Int.log_zpow (by norm_num) _
    refine ⟨10 ^ (e + 1 + (p2 : ℤ)).toNat, ?_⟩
    have hnn : 0 ≤ e + 1 + (p2 : ℤ) := by
      have : s - 1 - e2 ≤ (p2 : ℤ) := Int.self_le_toNat _
      omega
    have hp20 := pow10_pos (p2 : ℤ)
    rw [hdeq, eq_div_iff hp20.ne', ← zpow_add₀ (by norm_num : (10 : ℚ) ≠ 0)]
    push_cast
    rw [← zpow_natCast, Int.toNat_of_nonneg hnn]

end C16

/-! ## no double rounding, with floats -/

namespace C16
open Format

/-- what is assumed of binary64 round-to-nearest for the fixed-point branch: relative error at most 2⁻⁵³, and
integers below 2⁵³ in magnitude are exact (normal range: |q| ≥ 2⁻¹⁰²²) -/
structure FlLaw (fl : ℚ → Option ℚ) : Prop where
  rel : ∀ q x, (2 : ℚ) ^ (-1022 : ℤ) ≤ |q| → fl q = some x → |x - q| ≤ (2 : ℚ) ^ (-53 : ℤ) * |q|
  int_exact : ∀ (n : ℤ) x, |(n : ℚ)| < (2 : ℚ) ^ (53 : ℕ) → fl (n : ℚ) = some x → x = (n : ℚ)

theorem two_pow_neg53_lt : (2 : ℚ) ^ (-53 : ℤ) * (10 : ℚ) ^ (15 : ℤ) < 1 / 4 := by
  norm_num

/-- closeness of the float to the decimal it should carry, from the relative-error law, for at most 15
significant digits: if `|d| ≤ 10^(s+q)` then the float is within a quarter of `10^q` of `d` -/
theorem close_of_rel (d x2 : ℚ) (s q : ℤ) (hs : s ≤ 15) (hd : |d| ≤ (10 : ℚ) ^ (s + q))
    (hfl : |x2 - d| ≤ (2 : ℚ) ^ (-53 : ℤ) * |d|) : |x2 - d| < 1 / 4 * (10 : ℚ) ^ q := by
  have h10 : (10 : ℚ) ^ (s + q) ≤ (10 : ℚ) ^ (15 : ℤ) * (10 : ℚ) ^ q := by
    rw [← zpow_add₀ (by norm_num : (10 : ℚ) ≠ 0)]
    apply zpow_le_zpow_right₀ (by norm_num : (1 : ℚ) ≤ 10)
    omega
  have hq := pow10_pos q
  calc |x2 - d| ≤ (2 : ℚ) ^ (-53 : ℤ) * |d| := hfl
    _ ≤ (2 : ℚ) ^ (-53 : ℤ) * ((10 : ℚ) ^ (15 : ℤ) * (10 : ℚ) ^ q) := by
        apply mul_le_mul_of_nonneg_left (hd.trans h10) (by positivity)
    _ = ((2 : ℚ) ^ (-53 : ℤ) * (10 : ℚ) ^ (15 : ℤ)) * (10 : ℚ) ^ q := by ring
    _ < 1 / 4 * (10 : ℚ) ^ q := by
        apply mul_lt_mul_of_pos_right two_pow_neg53_lt hq

end C16

namespace C16
open Format

theorem log_eq_of_bounds (x : ℚ) (hx : 0 < x) (k : ℤ) (h1 : (10 : ℚ) ^ k ≤ x) (h2 : x < (10 : ℚ) ^ (k + 1)) :
    Int.log 10 x = k := by
  have a : k ≤ Int.log 10 x := (Int.zpow_le_iff_le_log (by norm_num) hx).mp (by exact_mod_cast h1)
  have b : Int.log 10 x < k + 1 := (Int.lt_zpow_iff_log_lt (by norm_num) hx).mp (by exact_mod_cast h2)
  omega

/-- the once-rounded value stays between the powers of ten that bracket `v` -/
theorem rhe_bracket (v : ℚ) (hv : v ≠ 0) (p : ℤ) (hp : 0 ≤ Int.log 10 |v| + p) :
    (10 : ℚ) ^ (Int.log 10 |v|) ≤ |rhe v p| ∧ |rhe v p| ≤ (10 : ℚ) ^ (Int.log 10 |v| + 1) := by
  have hvpos : 0 < |v| := abs_pos.mpr hv
  rw [rhe_abs]
  constructor
  · rw [← rhe_pow10 (Int.log 10 |v|) p hp]
    exact rhe_mono p (Int.zpow_log_le_self (by norm_num) hvpos)
  · rw [← rhe_pow10 (Int.log 10 |v| + 1) p (by omega)]
    exact rhe_mono p (Int.lt_zpow_succ_log_self (by norm_num) |v|).le

end C16

namespace C16
open Format

theorem pow10_add (a b : ℤ) : (10 : ℚ) ^ (a + b) = (10 : ℚ) ^ a * (10 : ℚ) ^ b :=
  zpow_add₀ (by norm_num) a b

theorem pow10_mono {a b : ℤ} (h : a ≤ b) : (10 : ℚ) ^ a ≤ (10 : ℚ) ^ b :=
  zpow_le_zpow_right₀ (by norm_num) h

theorem pow10_neg_le_of_s (s : ℤ) (hs : s ≤ 15) : (10 : ℚ) ^ (-15 : ℤ) ≤ (10 : ℚ) ^ (-s) :=
  pow10_mono (by omega)

/-- a grid point strictly below (above) a power of ten that lies on the grid is at least one grid step away -/
theorem grid_gap_below (m : ℤ) (p a : ℤ) (hap : 0 ≤ a + p) (h : (m : ℚ) / (10 : ℚ) ^ p < (10 : ℚ) ^ a) :
    (m : ℚ) / (10 : ℚ) ^ p ≤ (10 : ℚ) ^ a - 1 / (10 : ℚ) ^ p := by
  have hp := pow10_pos p
  have e : (10 : ℚ) ^ a = (((10 : ℤ) ^ (a + p).toNat : ℤ) : ℚ) / (10 : ℚ) ^ p := by
    rw [eq_div_iff hp.ne', ← pow10_add]
    push_cast
    rw [← zpow_natCast, Int.toNat_of_nonneg hap]
  rw [e] at h ⊢
  rw [div_lt_div_iff_of_pos_right hp] at h
  have hm : m < (10 : ℤ) ^ (a + p).toNat := by exact_mod_cast h
  have hm' : m ≤ (10 : ℤ) ^ (a + p).toNat - 1 := by omega
  rw [← sub_div, div_le_div_iff_of_pos_right hp]
  exact_mod_cast hm'

theorem grid_gap_above (m : ℤ) (p a : ℤ) (hap : 0 ≤ a + p) (h : (10 : ℚ) ^ a < (m : ℚ) / (10 : ℚ) ^ p) :
    (10 : ℚ) ^ a + 1 / (10 : ℚ) ^ p ≤ (m : ℚ) / (10 : ℚ) ^ p := by
  have hp := pow10_pos p
  have e : (10 : ℚ) ^ a = (((10 : ℤ) ^ (a + p).toNat : ℤ) : ℚ) / (10 : ℚ) ^ p := by
    rw [eq_div_iff hp.ne', ← pow10_add]
    push_cast
    rw [← zpow_natCast, Int.toNat_of_nonneg hap]
  rw [e] at h ⊢
  rw [div_lt_div_iff_of_pos_right hp] at h
  have hm : (10 : ℤ) ^ (a + p).toNat < m := by exact_mod_cast h
  have hm' : (10 : ℤ) ^ (a + p).toNat + 1 ≤ m := by omega
  rw [← add_div, div_le_div_iff_of_pos_right hp]
  exact_mod_cast hm'

end C16

namespace C16
open Format

theorem rel_small : (2 : ℚ) ^ (-53 : ℤ) < (10 : ℚ) ^ (-15 : ℤ) / 2 := by norm_num


theorem stays_above (E dabs x : ℚ) (hE : 0 < E) (hd : E * (1 + (10 : ℚ) ^ (-15 : ℤ)) ≤ dabs)
    (hx : dabs - (2 : ℚ) ^ (-53 : ℤ) * dabs ≤ x) : E ≤ x := by
  have hc : (1 : ℚ) ≤ (1 + (10 : ℚ) ^ (-15 : ℤ)) * (1 - (2 : ℚ) ^ (-53 : ℤ)) := by norm_num
  have h1 : (0 : ℚ) ≤ 1 - (2 : ℚ) ^ (-53 : ℤ) := by norm_num
  calc E = E * 1 := by ring
    _ ≤ E * ((1 + (10 : ℚ) ^ (-15 : ℤ)) * (1 - (2 : ℚ) ^ (-53 : ℤ))) := mul_le_mul_of_nonneg_left hc hE.le
    _ = (E * (1 + (10 : ℚ) ^ (-15 : ℤ))) * (1 - (2 : ℚ) ^ (-53 : ℤ)) := by ring
    _ ≤ dabs * (1 - (2 : ℚ) ^ (-53 : ℤ)) := mul_le_mul_of_nonneg_right hd h1
    _ = dabs - (2 : ℚ) ^ (-53 : ℤ) * dabs := by ring
    _ ≤ x := hx

theorem stays_below (E dabs x : ℚ) (hE : 0 < E) (hd : dabs ≤ E * (1 - (10 : ℚ) ^ (-15 : ℤ)))
    (hx : x ≤ dabs + (2 : ℚ) ^ (-53 : ℤ) * dabs) : x < E := by
  have hc : (1 - (10 : ℚ) ^ (-15 : ℤ)) * (1 + (2 : ℚ) ^ (-53 : ℤ)) < 1 := by norm_num
  have h1 : (0 : ℚ) ≤ 1 + (2 : ℚ) ^ (-53 : ℤ) := by norm_num
  calc x ≤ dabs + (2 : ℚ) ^ (-53 : ℤ) * dabs := hx
    _ = dabs * (1 + (2 : ℚ) ^ (-53 : ℤ)) := by ring
    _ ≤ (E * (1 - (10 : ℚ) ^ (-15 : ℤ))) * (1 + (2 : ℚ) ^ (-53 : ℤ)) := mul_le_mul_of_nonneg_right hd h1
    _ = E * ((1 - (10 : ℚ) ^ (-15 : ℤ)) * (1 + (2 : ℚ) ^ (-53 : ℤ))) := by ring
    _ < E * 1 := mul_lt_mul_of_pos_left hc hE
    _ = E := by ring

theorem near_ge_tenth (E x : ℚ) (hE : 0 < E) (hx : E - (2 : ℚ) ^ (-53 : ℤ) * E ≤ x) : E / 10 ≤ x := by
  have : E / 10 ≤ E - (2 : ℚ) ^ (-53 : ℤ) * E := by
    have hc : (1 : ℚ) / 10 ≤ 1 - (2 : ℚ) ^ (-53 : ℤ) := by norm_num
    calc E / 10 = E * (1 / 10) := by ring
      _ ≤ E * (1 - (2 : ℚ) ^ (-53 : ℤ)) := mul_le_mul_of_nonneg_left hc hE.le
      _ = E - (2 : ℚ) ^ (-53 : ℤ) * E := by ring
  exact this.trans hx

theorem near_lt_ten (E x : ℚ) (hE : 0 < E) (hx : x ≤ E + (2 : ℚ) ^ (-53 : ℤ) * E) : x < E * 10 := by
  have hc : 1 + (2 : ℚ) ^ (-53 : ℤ) < 10 := by norm_num
  calc x ≤ E + (2 : ℚ) ^ (-53 : ℤ) * E := hx
    _ = E * (1 + (2 : ℚ) ^ (-53 : ℤ)) := by ring
    _ < E * 10 := mul_lt_mul_of_pos_left hc hE

/-- **No double rounding, with floats.**  For 1 ≤ s ≤ 15 significant digits and |v| < 10¹⁵, if `floor(log10 ·)` is
exact and the float rounding obeys `FlLaw` (relative error ≤ 2⁻⁵³, integers up to 2⁵³ exact), the digits the fixed
branch of `format_num` prints denote exactly `round_half_even(v, p)` — the re-derived precision `p2` may be `p − 1`
(carry to the next power of ten), `p`, or `p + 1` (the float of a power of ten falling just below it), and in each
case the printed decimal is the once-rounded value. -/
theorem fixed_value_float (L : FloatLib) (hlog : ∀ x, L.ilog10 x = Int.log 10 x) (hfl : FlLaw L.fl)
    (v : ℚ) (hv : v ≠ 0) (hvlo : (10 : ℚ) ^ (-300 : ℤ) ≤ |v|) (hv15 : |v| < (10 : ℚ) ^ (15 : ℤ))
    (s : ℤ) (hs1 : 1 ≤ s) (hs15 : s ≤ 15)
    (n p2 : ℕ) (h : fixedDigits L v s = .ok (n, p2)) :
    (n : ℚ) / (10 : ℚ) ^ (p2 : ℤ) = |rhe v ((s - 1 - Int.log 10 |v|).toNat : ℤ)| := by
  unfold fixedDigits at h
  simp only [hlog] at h
  set e := Int.log 10 |v| with he
  set p := (s - 1 - e).toNat with hp
  set d := rhe v (p : ℤ) with hd
  have hvpos : 0 < |v| := abs_pos.mpr hv
  split at h
  · cases h
  · rename_i x2 hx2
    split_ifs at h with hx0
    injection h with h
    injection h with hn hp2
    have hx2pos : 0 < |x2| := abs_pos.mpr hx0
    have he15 : e < 15 := (Int.lt_zpow_iff_log_lt (by norm_num) hvpos).mp (by exact_mod_cast hv15)
    have helo : (-300 : ℤ) ≤ e := (Int.zpow_le_iff_le_log (by norm_num) hvpos).mp (by exact_mod_cast hvlo)
    have hnormal : ∀ y : ℚ, (10 : ℚ) ^ e ≤ y → (2 : ℚ) ^ (-1022 : ℤ) ≤ y := fun y hy =>
      calc (2 : ℚ) ^ (-1022 : ℤ) ≤ (10 : ℚ) ^ (-300 : ℤ) := by
            have h10 : (10 : ℚ) ^ (300 : ℕ) ≤ (2 : ℚ) ^ (1022 : ℕ) := by
              calc (10 : ℚ) ^ (300 : ℕ) = ((10 : ℚ) ^ 3) ^ 100 := by rw [← pow_mul]
                _ ≤ ((2 : ℚ) ^ 10) ^ 100 := pow_le_pow_left₀ (by norm_num) (by norm_num) 100
                _ = (2 : ℚ) ^ 1000 := by rw [← pow_mul]
                _ ≤ (2 : ℚ) ^ 1022 := pow_le_pow_right₀ (by norm_num) (by norm_num)
            have e1 : (2 : ℚ) ^ (-1022 : ℤ) = ((2 : ℚ) ^ (1022 : ℕ))⁻¹ := by
              rw [show (-1022 : ℤ) = -((1022 : ℕ) : ℤ) by norm_num, zpow_neg, zpow_natCast]
            have e2 : (10 : ℚ) ^ (-300 : ℤ) = ((10 : ℚ) ^ (300 : ℕ))⁻¹ := by
              rw [show (-300 : ℤ) = -((300 : ℕ) : ℤ) by norm_num, zpow_neg, zpow_natCast]
            rw [e1, e2]
            exact inv_anti₀ (by positivity) h10
        _ ≤ (10 : ℚ) ^ e := pow10_mono helo
        _ ≤ y := hy
    by_cases hcase : s - 1 - e < 0
    · -- integers: the float is exact
      have hp0 : p = 0 := by rw [hp]; exact Int.toNat_eq_zero.mpr hcase.le
      have hbr := rhe_bracket v hv (p : ℤ) (by rw [hp0]; simp; omega)
      have hdint : d = ((rheInt (v * (10 : ℚ) ^ ((p : ℕ) : ℤ)) : ℤ) : ℚ) := by
        rw [hd]; unfold rhe; rw [hp0]; simp
      have hle : |d| < (2 : ℚ) ^ (53 : ℕ) := by
        calc |d| ≤ (10 : ℚ) ^ (e + 1) := hbr.2
          _ ≤ (10 : ℚ) ^ (15 : ℤ) := pow10_mono (by omega)
          _ < (2 : ℚ) ^ (53 : ℕ) := by norm_num
      have hxd : x2 = d := by
        have := hfl.int_exact (rheInt (v * (10 : ℚ) ^ ((p : ℕ) : ℤ))) x2 (by rw [← hdint]; exact hle)
          (by rw [← hdint]; exact hx2)
        rw [this, ← hdint]
      have hd0 : d ≠ 0 := hxd ▸ hx0
      have := ideal_fixed_value v hv s hs1 hd0
      simp only at this
      rw [← hn, ← hp2, hxd]
      exact this
    · rw [not_lt] at hcase
      have hpe : (p : ℤ) = s - 1 - e := by rw [hp]; exact Int.toNat_of_nonneg hcase
      have hbr := rhe_bracket v hv (p : ℤ) (by omega)
      have hrel := hfl.rel d x2 (hnormal _ hbr.1) hx2
      have habs : |(|x2| - |d|)| ≤ |x2 - d| := abs_abs_sub_abs_le_abs_sub x2 d
      have habsd : |d| = rhe |v| (p : ℤ) := rhe_abs v p
      set m := rheInt (|v| * (10 : ℚ) ^ (p : ℤ)) with hm
      have hm0 : 0 ≤ m := rheInt_nonneg (mul_nonneg hvpos.le (pow10_pos _).le)
      have hdm : |d| = (m : ℚ) / (10 : ℚ) ^ (p : ℤ) := by rw [habsd]; rfl
      have hdpos : 0 < |d| := lt_of_lt_of_le (pow10_pos e) hbr.1
      have h53 : (0 : ℚ) < (2 : ℚ) ^ (-53 : ℤ) := by positivity
      -- a uniform closeness bound, sharpened per case below
      suffices hk : ∃ k : ℕ, |d| = (k : ℚ) / (10 : ℚ) ^ (p2 : ℤ)
          ∧ |(|x2| - (k : ℚ) / (10 : ℚ) ^ (p2 : ℤ))| < 1 / 2 / (10 : ℚ) ^ (p2 : ℤ) by
        obtain ⟨k, hk1, hk2⟩ := hk
        have := fixed_digits_value x2 p2 k hk2
        rw [← hn, ← hp2] at *
        rw [this, ← hk1]
      rcases lt_or_ge |x2| ((10 : ℚ) ^ e) with hlow | hge
      · -- the float fell just below 10^e: d is exactly 10^e, one more decimal is printed
        have hdeq : |d| = (10 : ℚ) ^ e := by
          by_contra hne
          have hgt : (10 : ℚ) ^ e < |d| := lt_of_le_of_ne hbr.1 (Ne.symm hne)
          rw [hdm] at hgt
          have hgap := grid_gap_above m (p : ℤ) e (by omega) hgt
          rw [← hdm] at hgap
          have hstep : (1 : ℚ) / (10 : ℚ) ^ (p : ℤ) = (10 : ℚ) ^ e * (10 : ℚ) ^ (1 - s) := by
            rw [← pow10_add, one_div, ← zpow_neg]; congr 1; omega
          have h1s : (10 : ℚ) ^ (-15 : ℤ) ≤ (10 : ℚ) ^ (1 - s) := pow10_mono (by omega)
          have hepos := pow10_pos e
          have hx : |d| - (2 : ℚ) ^ (-53 : ℤ) * |d| ≤ |x2| := by
            have := (abs_le.mp (habs.trans hrel)).1; linarith
          have hdge : (10 : ℚ) ^ e * (1 + (10 : ℚ) ^ (-15 : ℤ)) ≤ |d| := by
            have := mul_le_mul_of_nonneg_left h1s hepos.le
            rw [hstep] at hgap
            linarith
          have := stays_above ((10 : ℚ) ^ e) |d| |x2| hepos hdge hx
          linarith
        have hx : (10 : ℚ) ^ (e - 1) ≤ |x2| := by
          have h1 := (abs_le.mp (habs.trans hrel)).1
          have hpe1 : (10 : ℚ) ^ (e - 1) = (10 : ℚ) ^ e / 10 := by
            rw [show e - 1 = e + (-1) by ring, pow10_add]; norm_num; ring
          rw [hpe1]
          apply near_ge_tenth _ _ (pow10_pos e)
          rw [hdeq] at h1
          linarith
        have he2 : Int.log 10 |x2| = e - 1 := log_eq_of_bounds |x2| hx2pos (e - 1) hx (by simpa using hlow)
        have hp2' : (p2 : ℤ) = (p : ℤ) + 1 := by
          rw [← hp2, he2]; rw [Int.toNat_of_nonneg (by omega)]; omega
        refine ⟨10 ^ s.toNat, ?_, ?_⟩
        · rw [hdeq, hp2', eq_div_iff (pow10_pos _).ne', ← pow10_add]
          push_cast
          rw [← zpow_natCast, Int.toNat_of_nonneg (by omega)]
          congr 1; omega
        · have hk : ((10 ^ s.toNat : ℕ) : ℚ) / (10 : ℚ) ^ (p2 : ℤ) = |d| := by
            rw [hdeq, hp2', div_eq_iff (pow10_pos _).ne', ← pow10_add]
            push_cast
            rw [← zpow_natCast, Int.toNat_of_nonneg (by omega)]
            congr 1; omega
          rw [hk]
          have hc := close_of_rel d x2 s (e - s) hs15 (by rw [hdeq]; exact pow10_mono (by omega)) hrel
          have : (1 : ℚ) / 2 / (10 : ℚ) ^ (p2 : ℤ) = 1 / 2 * (10 : ℚ) ^ (e - s) := by
            rw [hp2', div_eq_mul_inv, ← zpow_neg]; congr 2; omega
          rw [this]
          have hq := pow10_pos (e - s)
          linarith [habs.trans_lt hc]
      · rcases lt_or_ge |x2| ((10 : ℚ) ^ (e + 1)) with hmid | hhigh
        · -- the ordinary case: same precision
          have he2 : Int.log 10 |x2| = e := log_eq_of_bounds |x2| hx2pos e hge hmid
          have hp2' : p2 = p := by rw [← hp2, he2]
          refine ⟨m.toNat, ?_, ?_⟩
          · rw [hp2', hdm]
            congr 1
            have : ((m.toNat : ℕ) : ℤ) = m := Int.toNat_of_nonneg hm0
            exact_mod_cast this.symm
          · have hk : ((m.toNat : ℕ) : ℚ) / (10 : ℚ) ^ (p2 : ℤ) = |d| := by
              rw [hp2', hdm]
              congr 1
              have : ((m.toNat : ℕ) : ℤ) = m := Int.toNat_of_nonneg hm0
              exact_mod_cast this
            rw [hk]
            have hc := close_of_rel d x2 s (e + 1 - s) hs15 (by
              calc |d| ≤ (10 : ℚ) ^ (e + 1) := hbr.2
                _ = (10 : ℚ) ^ (s + (e + 1 - s)) := by congr 1; ring) hrel
            have : (1 : ℚ) / 2 / (10 : ℚ) ^ (p2 : ℤ) = 1 / 2 * (10 : ℚ) ^ (e + 1 - s) := by
              rw [hp2', div_eq_mul_inv, ← zpow_neg]; congr 2; omega
            rw [this]
            have hq := pow10_pos (e + 1 - s)
            linarith [habs.trans_lt hc]
        · -- carry: d is exactly 10^(e+1)
          have hdeq : |d| = (10 : ℚ) ^ (e + 1) := by
            by_contra hne
            have hlt : |d| < (10 : ℚ) ^ (e + 1) := lt_of_le_of_ne hbr.2 hne
            rw [hdm] at hlt
            have hgap := grid_gap_below m (p : ℤ) (e + 1) (by omega) hlt
            rw [← hdm] at hgap
            have hstep : (1 : ℚ) / (10 : ℚ) ^ (p : ℤ) = (10 : ℚ) ^ (e + 1) * (10 : ℚ) ^ (-s) := by
              rw [← pow10_add, one_div, ← zpow_neg]; congr 1; omega
            have h1s : (10 : ℚ) ^ (-15 : ℤ) ≤ (10 : ℚ) ^ (-s) := pow10_neg_le_of_s s hs15
            have hepos := pow10_pos (e + 1)
            have hx : |x2| ≤ |d| + (2 : ℚ) ^ (-53 : ℤ) * |d| := by
              have := (abs_le.mp (habs.trans hrel)).2; linarith
            have hdle : |d| ≤ (10 : ℚ) ^ (e + 1) * (1 - (10 : ℚ) ^ (-15 : ℤ)) := by
              have := mul_le_mul_of_nonneg_left h1s hepos.le
              rw [hstep] at hgap
              linarith
            have := stays_below ((10 : ℚ) ^ (e + 1)) |d| |x2| hepos hdle hx
            linarith
          have hx : |x2| < (10 : ℚ) ^ (e + 2) := by
            have h1 := (abs_le.mp (habs.trans hrel)).2
            have hpe1 : (10 : ℚ) ^ (e + 2) = (10 : ℚ) ^ (e + 1) * 10 := by
              rw [show e + 2 = (e + 1) + 1 by ring, pow10_add]; norm_num
            rw [hpe1]
            apply near_lt_ten _ _ (pow10_pos (e + 1))
            rw [hdeq] at h1
            linarith
          have he2 : Int.log 10 |x2| = e + 1 :=
            log_eq_of_bounds |x2| hx2pos (e + 1) hhigh (by rw [show e + 1 + 1 = e + 2 by ring]; exact hx)
          have hp2' : (p2 : ℤ) = ((s - 1 - (e + 1)).toNat : ℤ) := by rw [← hp2, he2]
          have hp2le : (p2 : ℤ) ≤ (p : ℤ) := by
            rw [hp2', hpe]
            by_cases hz : 0 ≤ s - 1 - (e + 1)
            · rw [Int.toNat_of_nonneg hz]; omega
            · rw [Int.toNat_eq_zero.mpr (by omega)]; simp; omega
          have hnn : 0 ≤ e + 1 + (p2 : ℤ) := by
            have : s - 1 - (e + 1) ≤ (p2 : ℤ) := by rw [hp2']; exact Int.self_le_toNat _
            omega
          refine ⟨10 ^ (e + 1 + (p2 : ℤ)).toNat, ?_, ?_⟩
          · rw [hdeq, eq_div_iff (pow10_pos _).ne', ← pow10_add]
            push_cast
            rw [← zpow_natCast, Int.toNat_of_nonneg hnn]
          · have hk : ((10 ^ (e + 1 + (p2 : ℤ)).toNat : ℕ) : ℚ) / (10 : ℚ) ^ (p2 : ℤ) = |d| := by
              rw [hdeq, div_eq_iff (pow10_pos _).ne', ← pow10_add]
              push_cast
              rw [← zpow_natCast, Int.toNat_of_nonneg hnn]
            rw [hk]
            have hc := close_of_rel d x2 s (e + 1 - s) hs15 (by
              rw [hdeq]; exact pow10_mono (by omega)) hrel
            have hge2 : (10 : ℚ) ^ (e + 1 - s) ≤ 1 / (10 : ℚ) ^ (p2 : ℤ) := by
              rw [one_div, ← zpow_neg]; exact pow10_mono (by omega)
            have hq := pow10_pos (e + 1 - s)
            have : (1 : ℚ) / 2 / (10 : ℚ) ^ (p2 : ℤ) = 1 / 2 * (1 / (10 : ℚ) ^ (p2 : ℤ)) := by ring
            rw [this]
            linarith [habs.trans_lt hc]

end C16


namespace C16
open Format

theorem two_zpow_pos (k : ℤ) : (0 : ℚ) < (2 : ℚ) ^ k := by positivity

/-- the executable binary64 rounding of the model has relative error at most 2⁻⁵³ in the normal range -/
theorem fl_rel (q x : ℚ) (hq : (2 : ℚ) ^ (-1022 : ℤ) ≤ |q|) (h : Format.fl q = some x) :
    |x - q| ≤ (2 : ℚ) ^ (-53 : ℤ) * |q| := by
  have hq0 : q ≠ 0 := by
    intro h0; rw [h0, abs_zero] at hq
    exact absurd hq (not_le.mpr (two_zpow_pos _))
  have hqpos : 0 < |q| := abs_pos.mpr hq0
  unfold Format.fl at h
  simp only [hq0, if_false] at h
  have hlog : (-1022 : ℤ) ≤ Int.log 2 |q| :=
    (Int.zpow_le_iff_le_log (by norm_num) hqpos).mp (by exact_mod_cast hq)
  rw [max_eq_left hlog] at h
  set e2 := Int.log 2 |q| with he2
  set ulp : ℚ := (2 : ℚ) ^ (e2 - 52) with hulp
  have hulp0 : 0 < ulp := two_zpow_pos _
  split_ifs at h
  injection h with h
  subst h
  have herr := rheInt_error (q / ulp)
  have : (rheInt (q / ulp) : ℚ) * ulp - q = ((rheInt (q / ulp) : ℚ) - q / ulp) * ulp := by
    field_simp
  rw [this, abs_mul, abs_of_pos hulp0]
  have hle : (2 : ℚ) ^ e2 ≤ |q| := by
    have := Int.zpow_log_le_self (b := 2) (by norm_num) hqpos
    exact_mod_cast this
  calc |(rheInt (q / ulp) : ℚ) - q / ulp| * ulp ≤ 1 / 2 * ulp := mul_le_mul_of_nonneg_right herr hulp0.le
    _ = (2 : ℚ) ^ (-53 : ℤ) * (2 : ℚ) ^ e2 := by
        rw [hulp, show e2 - 52 = e2 + (-52) by ring, zpow_add₀ (by norm_num : (2 : ℚ) ≠ 0)]
        norm_num; ring
    _ ≤ (2 : ℚ) ^ (-53 : ℤ) * |q| := mul_le_mul_of_nonneg_left hle (two_zpow_pos _).le

/-- … and returns integers below 2⁵³ in magnitude unchanged -/
theorem fl_int (n : ℤ) (x : ℚ) (hn : |(n : ℚ)| < (2 : ℚ) ^ (53 : ℕ)) (h : Format.fl (n : ℚ) = some x) : x = (n : ℚ) := by
  by_cases hn0 : n = 0
  · subst hn0; simp [Format.fl] at h; exact h.symm
  have hq0 : (n : ℚ) ≠ 0 := by exact_mod_cast hn0
  have hqpos : 0 < |(n : ℚ)| := abs_pos.mpr hq0
  unfold Format.fl at h
  simp only [hq0, if_false] at h
  have h1 : (1 : ℚ) ≤ |(n : ℚ)| := by
    have : (1 : ℤ) ≤ |n| := Int.one_le_abs hn0
    exact_mod_cast this
  have hlog0 : (0 : ℤ) ≤ Int.log 2 |(n : ℚ)| :=
    (Int.zpow_le_iff_le_log (by norm_num) hqpos).mp (by simpa using h1)
  have hlog53 : Int.log 2 |(n : ℚ)| < 53 :=
    (Int.lt_zpow_iff_log_lt (by norm_num) hqpos).mp (by exact_mod_cast hn)
  rw [max_eq_left (by omega)] at h
  set e2 := Int.log 2 |(n : ℚ)| with he2
  -- n / ulp = n * 2^(52 - e2) is an integer
  have hk : 0 ≤ 52 - e2 := by omega
  have hdiv : (n : ℚ) / (2 : ℚ) ^ (e2 - 52) = ((n * 2 ^ (52 - e2).toNat : ℤ) : ℚ) := by
    rw [div_eq_iff (two_zpow_pos _).ne']
    push_cast
    rw [← zpow_natCast, Int.toNat_of_nonneg hk, mul_assoc, ← zpow_add₀ (by norm_num : (2 : ℚ) ≠ 0)]
    simp
  rw [hdiv, rheInt_int] at h
  split_ifs at h
  injection h with h
  rw [← h]
  push_cast
  rw [← zpow_natCast, Int.toNat_of_nonneg hk, mul_assoc, ← zpow_add₀ (by norm_num : (2 : ℚ) ≠ 0)]
  simp

end C16


namespace C16
open Format

/-- the model's executable float library (exact `floor(log10 ·)`, round-to-nearest-even written in Lean) meets `FlLaw` -/
theorem exactLib_flLaw : FlLaw exactLib.fl := ⟨fl_rel, fl_int⟩

/-- **C16, fixed-point branch, for the float library the model is run with**: for `1 ≤ s ≤ 15` and
`1e-300 ≤ |v| < 1e15` the printed digits denote `round_half_even(v, p)`, which is `v` to `s` significant digits. -/
theorem fixed_value_exactLib (v : ℚ) (hv : v ≠ 0) (hvlo : (10 : ℚ) ^ (-300 : ℤ) ≤ |v|) (hv15 : |v| < (10 : ℚ) ^ (15 : ℤ))
    (s : ℤ) (hs1 : 1 ≤ s) (hs15 : s ≤ 15) (n p2 : ℕ) (h : fixedDigits exactLib v s = .ok (n, p2)) :
    abs ((n : ℚ) / (10 : ℚ) ^ (p2 : ℤ) - abs v) ≤ 1 / 2 * (10 : ℚ) ^ (1 - s) * abs v := by
  rw [fixed_value_float exactLib (fun _ => rfl) exactLib_flLaw v hv hvlo hv15 s hs1 hs15 n p2 h, rhe_abs]
  have := fixed_sig_error |v| (abs_ne_zero.mpr hv) s
  rwa [abs_abs] at this

end C16

namespace C16
open Format

/-- **exponential branch**: the mantissa and exponent that `format(x, ".{s−1}e")` prints denote `|v|` to `s`
significant digits -/
theorem exp_digits_error (v : ℚ) (hv : v ≠ 0) (s : ℤ) (hs : 1 ≤ s) :
    abs (((expDigits v (s - 1).toNat).1 : ℚ) * (10 : ℚ) ^ ((expDigits v (s - 1).toNat).2 - ((s - 1).toNat : ℤ)) - abs v)
      ≤ 1 / 2 * (10 : ℚ) ^ (1 - s) * abs v := by
  have hp : (((s - 1).toNat : ℕ) : ℤ) = s - 1 := Int.toNat_of_nonneg (by omega)
  rw [expDigits_value]
  have hvpos : 0 < |v| := abs_pos.mpr hv
  have hnn : 0 ≤ rheInt (|v| * (10 : ℚ) ^ (((s - 1).toNat : ℤ) - Int.log 10 |v|)) :=
    rheInt_nonneg (mul_nonneg hvpos.le (pow10_pos _).le)
  have hcast : (((rheInt (|v| * (10 : ℚ) ^ (((s - 1).toNat : ℤ) - Int.log 10 |v|))).toNat : ℕ) : ℚ)
      = ((rheInt (|v| * (10 : ℚ) ^ (((s - 1).toNat : ℤ) - Int.log 10 |v|)) : ℤ) : ℚ) := by
    have := Int.toNat_of_nonneg hnn
    exact_mod_cast this
  rw [hcast]
  have hval : ((rheInt (|v| * (10 : ℚ) ^ (((s - 1).toNat : ℤ) - Int.log 10 |v|)) : ℤ) : ℚ)
      * (10 : ℚ) ^ (Int.log 10 |v| - ((s - 1).toNat : ℤ)) = rhe |v| (s - 1 - Int.log 10 |v|) := by
    unfold rhe
    rw [hp, div_eq_mul_inv, ← zpow_neg]
    congr 2
    ring
  rw [hval]
  have := exp_sig_error |v| (abs_ne_zero.mpr hv) s
  rwa [abs_abs] at this

end C16
