import TeaTasting.Model.Format
import Mathlib.Tactic.Ring
import Mathlib.Tactic.Linarith
import Mathlib.Tactic.FieldSimp
import Mathlib.Tactic.Positivity
import Mathlib.Algebra.Order.Floor.Ring
import Mathlib.Algebra.Order.Field.Power

/-! # C16 — rendered results are faithful to the numbers and consistent across views

Theorems about `Model/Format.lean` (tied to `utils.py` string for string by the correspondence check).
A finite float is the rational it denotes; the float library (`floor(log10 ·)`, rounding to binary64) is
the parameter `FloatLib`, with what is assumed of it stated as hypotheses. -/

namespace C16
open Format

/-! ## round half to even -/

theorem rheInt_error (q : ℚ) : |(rheInt q : ℚ) - q| ≤ 1 / 2 := by
  have h0 : (⌊q⌋ : ℚ) ≤ q := Int.floor_le q
  have h1 : q < (⌊q⌋ : ℚ) + 1 := Int.lt_floor_add_one q
  unfold rheInt
  simp only
  split_ifs with a b c
  · rw [abs_le]; constructor <;> linarith
  · rw [abs_le]; push_cast; constructor <;> linarith
  · have : q - (⌊q⌋ : ℚ) = 1 / 2 := le_antisymm (not_lt.mp b) (not_lt.mp a)
    rw [abs_le]; constructor <;> linarith
  · have : q - (⌊q⌋ : ℚ) = 1 / 2 := le_antisymm (not_lt.mp b) (not_lt.mp a)
    rw [abs_le]; push_cast; constructor <;> linarith

/-- a rational strictly within 1/2 of an integer rounds to that integer -/
theorem rheInt_eq_of_close (q : ℚ) (n : ℤ) (h : |q - n| < 1 / 2) : rheInt q = n := by
  rw [abs_lt] at h
  obtain ⟨hl, hr⟩ := h
  unfold rheInt
  simp only
  by_cases hq : (n : ℚ) ≤ q
  · have hf : ⌊q⌋ = n := by
      rw [Int.floor_eq_iff]; constructor <;> linarith
    rw [hf, if_pos hr]
  · rw [not_le] at hq
    have hf : ⌊q⌋ = n - 1 := by
      rw [Int.floor_eq_iff]; push_cast; constructor <;> linarith
    rw [hf]
    have h1 : ¬ (q - ((n - 1 : ℤ) : ℚ) < 1 / 2) := by push_cast; linarith
    have h2 : (1 : ℚ) / 2 < q - ((n - 1 : ℤ) : ℚ) := by push_cast; linarith
    simp only [h1, h2, if_false, if_true]
    ring

theorem pow10_pos (p : ℤ) : (0 : ℚ) < (10 : ℚ) ^ p := by positivity

/-- **rounding to `p` decimals is off by at most half a unit of the last place** -/
theorem rhe_error (q : ℚ) (p : ℤ) : |rhe q p - q| ≤ 1 / 2 / (10 : ℚ) ^ p := by
  unfold rhe
  have hp := pow10_pos p
  have h := rheInt_error (q * (10 : ℚ) ^ p)
  have e : (rheInt (q * (10 : ℚ) ^ p) : ℚ) / (10 : ℚ) ^ p - q
      = ((rheInt (q * (10 : ℚ) ^ p) : ℚ) - q * (10 : ℚ) ^ p) / (10 : ℚ) ^ p := by
    field_simp
  rw [e, abs_div, abs_of_pos hp]
  exact div_le_div_of_nonneg_right h hp.le

/-- a value strictly within half a unit of a grid point rounds to that grid point -/
theorem rhe_fix (x : ℚ) (p : ℤ) (k : ℤ) (h : |x - (k : ℚ) / (10 : ℚ) ^ p| < 1 / 2 / (10 : ℚ) ^ p) :
    rhe x p = (k : ℚ) / (10 : ℚ) ^ p := by
  have hp := pow10_pos p
  unfold rhe
  have : rheInt (x * (10 : ℚ) ^ p) = k := by
    apply rheInt_eq_of_close
    have e : x * (10 : ℚ) ^ p - (k : ℚ) = (x - (k : ℚ) / (10 : ℚ) ^ p) * (10 : ℚ) ^ p := by
      field_simp
    rw [e, abs_mul, abs_of_pos hp]
    calc |x - (k : ℚ) / (10 : ℚ) ^ p| * (10 : ℚ) ^ p < 1 / 2 / (10 : ℚ) ^ p * (10 : ℚ) ^ p :=
          mul_lt_mul_of_pos_right h hp
      _ = 1 / 2 := by field_simp
  rw [this]

/-- rounding is idempotent on the grid -/
theorem rhe_grid (p : ℤ) (k : ℤ) : rhe ((k : ℚ) / (10 : ℚ) ^ p) p = (k : ℚ) / (10 : ℚ) ^ p := by
  apply rhe_fix
  have hp := pow10_pos p
  simp only [sub_self, abs_zero]
  positivity

/-! ## significant digits -/

/-- **The significant-digit bound.**  Let `e` be what the code takes for `floor(log10 |v|)` — any integer with
`10^e ≤ |v|·(1+δ)` (`δ = 0` for an exact logarithm) — and `p ≥ s − 1 − e` the number of decimals kept
(`p = max(0, s−1−e)` in the fixed branch, `p = s−1−e` for the mantissa of the exponential branch).  Then the
rounded value is within `½·10^(1−s)` of `v`, relatively (up to the slack `δ` of the logarithm). -/
theorem sig_error (v : ℚ) (s e p : ℤ) (δ : ℚ)
    (he : (10 : ℚ) ^ e ≤ |v| * (1 + δ)) (hp : s - 1 - e ≤ p) :
    |rhe v p - v| ≤ 1 / 2 * (10 : ℚ) ^ (1 - s) * |v| * (1 + δ) := by
  have h1 := rhe_error v p
  have hpow : (1 : ℚ) / (10 : ℚ) ^ p ≤ (10 : ℚ) ^ (1 - s) * (10 : ℚ) ^ e := by
    rw [← zpow_add₀ (by norm_num : (10 : ℚ) ≠ 0), one_div, ← zpow_neg]
    apply zpow_le_zpow_right₀ (by norm_num : (1 : ℚ) ≤ 10)
    omega
  have h10 : (0 : ℚ) < (10 : ℚ) ^ (1 - s) := pow10_pos _
  calc |rhe v p - v| ≤ 1 / 2 / (10 : ℚ) ^ p := h1
    _ = 1 / 2 * (1 / (10 : ℚ) ^ p) := by ring
    _ ≤ 1 / 2 * ((10 : ℚ) ^ (1 - s) * (10 : ℚ) ^ e) := by
        apply mul_le_mul_of_nonneg_left hpow (by norm_num)
    _ ≤ 1 / 2 * ((10 : ℚ) ^ (1 - s) * (|v| * (1 + δ))) := by
        apply mul_le_mul_of_nonneg_left _ (by norm_num)
        exact mul_le_mul_of_nonneg_left he h10.le
    _ = 1 / 2 * (10 : ℚ) ^ (1 - s) * |v| * (1 + δ) := by ring

/-- the exact logarithm satisfies the hypothesis of `sig_error` with `δ = 0` -/
theorem exact_log_le (v : ℚ) (hv : v ≠ 0) : (10 : ℚ) ^ (Int.log 10 |v|) ≤ |v| * (1 + 0) := by
  rw [add_zero, mul_one]
  exact Int.zpow_log_le_self (by norm_num) (abs_pos.mpr hv)

/-- fixed branch, exact logarithm: `round(v, max(0, s−1−e))` is `v` to `s` significant digits -/
theorem fixed_sig_error (v : ℚ) (hv : v ≠ 0) (s : ℤ) :
    |rhe v ((s - 1 - Int.log 10 |v|).toNat : ℤ) - v| ≤ 1 / 2 * (10 : ℚ) ^ (1 - s) * |v| := by
  have := sig_error v s (Int.log 10 |v|) ((s - 1 - Int.log 10 |v|).toNat : ℤ) 0 (exact_log_le v hv)
    (Int.self_le_toNat _)
  simpa using this

/-- exponential branch: the mantissa rounding `s−1−e` decimals (possibly negative) -/
theorem exp_sig_error (v : ℚ) (hv : v ≠ 0) (s : ℤ) :
    |rhe v (s - 1 - Int.log 10 |v|) - v| ≤ 1 / 2 * (10 : ℚ) ^ (1 - s) * |v| := by
  have := sig_error v s (Int.log 10 |v|) (s - 1 - Int.log 10 |v|) 0 (exact_log_le v hv) le_rfl
  simpa using this

/-! ## what the renderings denote -/

/-- `format(x2, ".{p2}f")` prints the grid point `|d|` whenever the float `x2` returned by `round` is strictly
within half a unit of it (true of binary64 for `s ≤ 15`; observed on every sampled input by the driver) -/
theorem fixed_digits_value (x2 : ℚ) (p2 : ℕ) (k : ℕ)
    (hclose : abs (abs x2 - (k : ℚ) / (10 : ℚ) ^ (p2 : ℤ)) < 1 / 2 / (10 : ℚ) ^ (p2 : ℤ)) :
    (((rheInt (|x2| * (10 : ℚ) ^ (p2 : ℤ))).toNat : ℕ) : ℚ) / (10 : ℚ) ^ (p2 : ℤ) = (k : ℚ) / (10 : ℚ) ^ (p2 : ℤ) := by
  have h := rhe_fix |x2| (p2 : ℤ) (k : ℤ) (by simpa using hclose)
  unfold rhe at h
  have hp := pow10_pos (p2 : ℤ)
  have hk : rheInt (|x2| * (10 : ℚ) ^ (p2 : ℤ)) = (k : ℤ) := by
    have := (div_left_inj' hp.ne').mp h
    exact_mod_cast this
  rw [hk]
  simp

/-- the carry normalisation of the exponential mantissa (`9.995e-4 → 1.00e-03`) keeps the value -/
theorem expDigits_value (v : ℚ) (p : ℕ) :
    ((expDigits v p).1 : ℚ) * (10 : ℚ) ^ ((expDigits v p).2 - (p : ℤ))
      = ((rheInt (|v| * (10 : ℚ) ^ ((p : ℤ) - Int.log 10 |v|))).toNat : ℚ)
          * (10 : ℚ) ^ (Int.log 10 |v| - (p : ℤ)) := by
  unfold expDigits
  simp only
  split_ifs with h
  · rw [h]
    push_cast
    rw [show Int.log 10 |v| + 1 - (p : ℤ) = (Int.log 10 |v| - (p : ℤ)) + 1 by ring,
      zpow_add₀ (by norm_num : (10 : ℚ) ≠ 0), pow_succ]
    ring
  · rfl

/-- `None` / NaN / infinities are rendered as documented, whatever the other options -/
theorem formatNum_special (L : FloatLib) (o : Opts) :
    formatNum L .none o = .ok o.nan.toList ∧ formatNum L .nan o = .ok o.nan.toList
    ∧ formatNum L .posInf o = .ok o.inf.toList ∧ formatNum L .negInf o = .ok ('-' :: o.inf.toList) :=
  ⟨rfl, rfl, rfl, rfl⟩

/-- the sign is the first character exactly for negative values (fixed rendering) -/
theorem renderFixed_head (neg : Bool) (n p : ℕ) (o : Opts) :
    renderFixed neg n p o = (if neg then ['-'] else []) ++ renderFixed false n p o := by
  cases neg <;> simp [renderFixed]

/-- percent mode appends `%` and nothing else to the rendering of the scaled value -/
theorem formatFin_pct_suffix (L : FloatLib) (x : ℚ) (o : Opts) (r : Rendered)
    (h : formatFin L x o = .ok r) : ∃ body, r.text = body ++ (if o.pct then ['%'] else []) := by
  unfold formatFin at h
  simp only at h
  split at h
  · injection h with h; subst h; exact ⟨_, rfl⟩
  · split at h
    · injection h with h; subst h; exact ⟨_, rfl⟩
    · split at h
      · cases h
      · injection h with h; subst h; exact ⟨_, rfl⟩

/-! ## the views -/

section Views
variable (fmt : RowD → String → List Char) (keys : List String) (rows : List RowD)

/-- `to_pretty_dicts`: one entry per row of `to_dicts()`, in the same order, one cell per selected key -/
theorem prettyCells_rows : (prettyCells fmt keys rows).length = rows.length := by
  simp [prettyCells]

theorem prettyCells_cell (i : ℕ) (hi : i < rows.length) :
    (prettyCells fmt keys rows)[i]'(by simpa [prettyCells] using hi) = keys.map (fmt rows[i]) := by
  simp [prettyCells]

/-- `to_string`: a header line and one line per row, in order -/
theorem toStringLines_length : (toStringLines fmt keys rows).length = rows.length + 1 := by
  simp [toStringLines, prettyCells]

theorem rjust_length (w : ℕ) (s : List Char) : (rjust w s).length = max w s.length := by
  simp [rjust]; omega

/-- right alignment: the cell is the value preceded by spaces only -/
theorem rjust_spec (w : ℕ) (s : List Char) :
    (rjust w s).drop (w - s.length) = s ∧ ∀ c ∈ (rjust w s).take (w - s.length), c = ' ' := by
  constructor
  · simp [rjust]
  · intro c hc
    simp [rjust] at hc
    exact hc.2

theorem joinSep_length (sep : List Char) (cells : List (List Char)) :
    (joinSep sep cells).length = (cells.map List.length).sum + (cells.length - 1) * sep.length := by
  induction cells with
  | nil => simp [joinSep]
  | cons a rest ih =>
    cases rest with
    | nil => simp [joinSep]
    | cons b rest' =>
      simp only [joinSep, List.length_append, ih, List.map_cons, List.sum_cons, List.length_cons]
      have : (rest'.length + 1 + 1 - 1) = (rest'.length + 1 - 1) + 1 := by omega
      rw [this, Nat.add_mul]
      omega

theorem le_foldl_max (cells : List (List Char)) (w0 : ℕ) :
    w0 ≤ cells.foldl (fun w c => max w c.length) w0 ∧
      ∀ c ∈ cells, c.length ≤ cells.foldl (fun w c => max w c.length) w0 := by
  induction cells generalizing w0 with
  | nil => simp
  | cons a rest ih =>
    simp only [List.foldl_cons]
    obtain ⟨h1, h2⟩ := ih (max w0 a.length)
    refine ⟨le_trans (le_max_left _ _) h1, ?_⟩
    intro c hc
    rcases List.mem_cons.mp hc with rfl | hc
    · exact le_trans (le_max_right _ _) h1
    · exact h2 c hc

/-- a cell padded to its column's width has exactly that width -/
theorem rjust_colWidth (header : List Char) (cells : List (List Char)) (c : List Char)
    (hc : c = header ∨ c ∈ cells) : (rjust (colWidth header cells) c).length = colWidth header cells := by
  rw [rjust_length]
  obtain ⟨h1, h2⟩ := le_foldl_max cells header.length
  unfold colWidth
  rcases hc with rfl | hc
  · exact max_eq_left h1
  · exact max_eq_left (h2 c hc)

/-- the widths the table uses: per key, the maximum of the header and every cell of that column -/
def widthsOf : List Nat :=
  (List.range keys.length).map (fun j => colWidth (keys.getD j "").toList (transposeCol (prettyCells fmt keys rows) j))

/-- a line of the table, from the cell texts of one row -/
def lineOf (vals : List (List Char)) : List Char :=
  joinSep [' '] ((List.range keys.length).map (fun j => rjust ((widthsOf fmt keys rows).getD j 0) (vals.getD j [])))

theorem toStringLines_eq :
    toStringLines fmt keys rows
      = lineOf fmt keys rows (keys.map String.toList) :: (prettyCells fmt keys rows).map (lineOf fmt keys rows) := rfl

theorem map_getD_range (l : List Nat) : (List.range l.length).map (fun j => l.getD j 0) = l := by
  apply List.ext_getElem
  · simp
  · intro i h1 h2
    simp at h1 h2 ⊢
    simp [h2]

/-- the length of a line whose every cell fits its column: the sum of the widths plus the separators -/
theorem lineOf_length (vals : List (List Char))
    (hfit : ∀ j < keys.length, (vals.getD j []).length ≤ (widthsOf fmt keys rows).getD j 0) :
    (lineOf fmt keys rows vals).length = (widthsOf fmt keys rows).sum + (keys.length - 1) := by
  unfold lineOf
  rw [joinSep_length]
  simp only [List.length_map, List.length_range, List.length_singleton, Nat.mul_one, List.map_map]
  congr 1
  have : (List.range keys.length).map (List.length ∘ fun j =>
      rjust ((widthsOf fmt keys rows).getD j 0) (vals.getD j []))
      = (List.range keys.length).map (fun j => (widthsOf fmt keys rows).getD j 0) := by
    apply List.map_congr_left
    intro j hj
    simp only [Function.comp, rjust_length]
    exact max_eq_left (hfit j (List.mem_range.mp hj))
  rw [this]
  have hlen : (widthsOf fmt keys rows).length = keys.length := by simp [widthsOf]
  conv_rhs => rw [← map_getD_range (widthsOf fmt keys rows), hlen]

theorem widthsOf_getD (j : Nat) (hj : j < keys.length) :
    (widthsOf fmt keys rows).getD j 0
      = colWidth (keys.getD j "").toList (transposeCol (prettyCells fmt keys rows) j) := by
  simp [widthsOf, List.getD_eq_getElem?_getD, hj]

/-- **`to_string` is rectangular**: the header line and every row line have the same length (so the cells of a
column end at the same position: a right-aligned table) -/
theorem toStringLines_rectangular :
    ∀ line ∈ toStringLines fmt keys rows,
      line.length = (widthsOf fmt keys rows).sum + (keys.length - 1) := by
  intro line hline
  rw [toStringLines_eq] at hline
  rcases List.mem_cons.mp hline with rfl | hmem
  · apply lineOf_length
    intro j hj
    rw [widthsOf_getD fmt keys rows j hj]
    have h := (le_foldl_max (transposeCol (prettyCells fmt keys rows) j) (keys.getD j "").toList.length).1
    have e : (keys.map String.toList).getD j [] = (keys.getD j "").toList := by
      simp [List.getD_eq_getElem?_getD, List.getElem?_map]
      cases keys[j]? <;> simp
    rw [e]
    exact h
  · obtain ⟨row, hrow, rfl⟩ := List.mem_map.mp hmem
    apply lineOf_length
    intro j hj
    rw [widthsOf_getD fmt keys rows j hj]
    have h := (le_foldl_max (transposeCol (prettyCells fmt keys rows) j) (keys.getD j "").toList.length).2
    apply h
    unfold transposeCol
    exact List.mem_map.mpr ⟨row, hrow, rfl⟩

end Views

/-! ## html text -/

theorem unescape_cons_ne (c : Char) (rest : List Char) (h : c ≠ '&') : unescape (c :: rest) = c :: unescape rest := by
  rw [unescape]; simp [h]

theorem unescape_entity (rest : List Char) (d : Char) (r : List Char) (h : entity rest = some (d, r)) :
    unescape ('&' :: rest) = d :: unescape r := by
  rw [unescape]
  simp only [if_true]
  split
  · next d' r' h' => rw [h] at h'; injection h' with h'; injection h' with h1 h2; subst h1; subst h2; rfl
  · next h' => rw [h] at h'; cases h'

theorem unescape_escapeChar_append (c : Char) (rest : List Char) :
    unescape (escapeChar c ++ rest) = c :: unescape rest := by
  by_cases h1 : c = '&'
  · subst h1; exact unescape_entity _ _ _ rfl
  by_cases h2 : c = '<'
  · subst h2; exact unescape_entity _ _ _ rfl
  by_cases h3 : c = '>'
  · subst h3; exact unescape_entity _ _ _ rfl
  have : escapeChar c = [c] := by
    unfold escapeChar
    split <;> simp_all
  rw [this]
  exact unescape_cons_ne c rest h1

/-- **escaping loses nothing**: reading the escaped text back gives the original cell, whatever characters
it contains -/
theorem unescape_escape (s : List Char) : unescape (escape s) = s := by
  induction s with
  | nil => simp [escape, unescape]
  | cons c rest ih =>
    have : escape (c :: rest) = escapeChar c ++ escape rest := by simp [escape]
    rw [this, unescape_escapeChar_append, ih]

/-- **no markup survives in text**: an escaped cell contains neither `<` nor `>` -/
theorem escape_no_markup (s : List Char) : ∀ c ∈ escape s, c ≠ '<' ∧ c ≠ '>' := by
  intro c hc
  simp only [escape, List.mem_flatMap] at hc
  obtain ⟨a, _, hca⟩ := hc
  unfold escapeChar at hca
  split at hca
  · simp at hca; rcases hca with rfl | rfl | rfl | rfl | rfl <;> decide
  · simp at hca; rcases hca with rfl | rfl | rfl | rfl <;> decide
  · simp at hca; rcases hca with rfl | rfl | rfl | rfl <;> decide
  · simp at hca; subst hca
    constructor <;> (intro h; simp_all)

/-! ## non-vacuity: the named boundary values (kernel-evaluated on the exact model) -/

example : formatNum exactLib (.fin (1999 / 20)) {} = .ok "100".toList := by decide +kernel
example : formatNum exactLib (.fin (24999 / 25000000)) {} = .ok "1.00e-03".toList := by decide +kernel
example : formatNum exactLib (.fin (19999999 / 2)) {} = .ok "10000000".toList := by decide +kernel
example : formatNum exactLib (.fin (-1 / 8)) { sig := 2 } = .ok "-0.12".toList := by decide +kernel
example : formatNum exactLib (.fin (1234567891 / 1000)) { sig := 9, tsep := ".", dpoint := "," }
    = .ok "1.234.567,89".toList := by decide +kernel
example : escape "a<b & c>".toList = "a&lt;b &amp; c&gt;".toList := by decide

end C16

/-! ## no double rounding in exact arithmetic (the idealised float library) -/

namespace C16
open Format

theorem rheInt_int (n : ℤ) : rheInt (n : ℚ) = n := by
  apply rheInt_eq_of_close
  simp

/-- rounding half to even is symmetric -/
theorem rheInt_neg (q : ℚ) : rheInt (-q) = -rheInt q := by
  by_cases hint : (⌊q⌋ : ℚ) = q
  · rw [← hint, ← Int.cast_neg, rheInt_int, rheInt_int]
  · have h0 : (⌊q⌋ : ℚ) ≤ q := Int.floor_le q
    have h1 : q < (⌊q⌋ : ℚ) + 1 := Int.lt_floor_add_one q
    have hlt : (⌊q⌋ : ℚ) < q := lt_of_le_of_ne h0 hint
    have hf : ⌊-q⌋ = -⌊q⌋ - 1 := by
      rw [Int.floor_eq_iff]; push_cast; constructor <;> linarith
    unfold rheInt
    simp only [hf]
    push_cast
    by_cases a : q - (⌊q⌋ : ℚ) < 1 / 2
    · have b : ¬ (-q - (-(⌊q⌋ : ℚ) - 1) < 1 / 2) := by linarith
      have c : (1 : ℚ) / 2 < -q - (-(⌊q⌋ : ℚ) - 1) := by linarith
      simp only [a, b, c, if_true, if_false]; ring
    · by_cases a' : (1 : ℚ) / 2 < q - (⌊q⌋ : ℚ)
      · have b : -q - (-(⌊q⌋ : ℚ) - 1) < 1 / 2 := by linarith
        simp only [a, a', b, if_true, if_false]; ring
      · have heq : q - (⌊q⌋ : ℚ) = 1 / 2 := le_antisymm (not_lt.mp a') (not_lt.mp a)
        have b : ¬ (-q - (-(⌊q⌋ : ℚ) - 1) < 1 / 2) := by linarith
        have c : ¬ ((1 : ℚ) / 2 < -q - (-(⌊q⌋ : ℚ) - 1)) := by linarith
        simp only [a, a', b, c, if_false]
        by_cases hev : ⌊q⌋ % 2 = 0
        · have : ¬ ((-⌊q⌋ - 1) % 2 = 0) := by omega
          simp only [hev, this, if_true, if_false]; ring
        · have : (-⌊q⌋ - 1) % 2 = 0 := by omega
          simp only [hev, this, if_true, if_false]; ring

theorem rhe_neg (q : ℚ) (p : ℤ) : rhe (-q) p = -rhe q p := by
  unfold rhe
  rw [neg_mul, rheInt_neg]
  push_cast
  ring

/-- rounding half to even is monotone -/
theorem rheInt_mono {a b : ℚ} (h : a ≤ b) : rheInt a ≤ rheInt b := by
  by_contra hlt
  rw [not_le] at hlt
  have ha := rheInt_error a
  have hb := rheInt_error b
  rw [abs_le] at ha hb
  have h1 : (rheInt b : ℚ) + 1 ≤ rheInt a := by exact_mod_cast hlt
  -- a ≥ rheInt a − 1/2 ≥ rheInt b + 1/2 ≥ b  ⇒ a = b = rheInt b + 1/2 = rheInt a − 1/2, so rheInt a = rheInt b
  have hab : a = b := le_antisymm h (by linarith)
  subst hab
  exact absurd hlt (lt_irrefl _)

theorem rhe_mono {a b : ℚ} (p : ℤ) (h : a ≤ b) : rhe a p ≤ rhe b p := by
  unfold rhe
  have hp := pow10_pos p
  apply div_le_div_of_nonneg_right _ hp.le
  exact_mod_cast rheInt_mono (mul_le_mul_of_nonneg_right h hp.le)

theorem rhe_abs (q : ℚ) (p : ℤ) : |rhe q p| = rhe |q| p := by
  have h0 : rhe 0 p = 0 := by
    have := rheInt_int 0
    simp only [Int.cast_zero] at this
    simp [rhe, this]
  by_cases hq : 0 ≤ q
  · rw [abs_of_nonneg hq, abs_of_nonneg]
    have := rhe_mono p hq
    rwa [h0] at this
  · rw [not_le] at hq
    rw [abs_of_neg hq, rhe_neg, abs_of_nonpos]
    · have := rhe_mono p hq.le
      rw [h0] at this
      have h2 : rhe (-q) p = -rhe q p := rhe_neg q p
      linarith [this]

end C16

namespace C16
open Format

theorem rheInt_nonneg {q : ℚ} (h : 0 ≤ q) : 0 ≤ rheInt q := by
  have := rheInt_mono h
  have h0 := rheInt_int 0
  simp only [Int.cast_zero] at h0
  rwa [h0] at this

/-- a power of ten that lies on the `p`-decimal grid is a fixed point of the rounding -/
theorem rhe_pow10 (a p : ℤ) (h : 0 ≤ a + p) : rhe ((10 : ℚ) ^ a) p = (10 : ℚ) ^ a := by
  have e : (10 : ℚ) ^ a = (((10 : ℤ) ^ (a + p).toNat : ℤ) : ℚ) / (10 : ℚ) ^ p := by
    have hp := pow10_pos p
    rw [eq_div_iff hp.ne', ← zpow_add₀ (by norm_num : (10 : ℚ) ≠ 0)]
    push_cast
    rw [← zpow_natCast, Int.toNat_of_nonneg h]
  rw [e]
  exact rhe_grid p _

/-- **No double rounding (exact arithmetic).**  With an exact logarithm and no float error, the digits the
second formatting pass prints — at the re-derived precision `p2`, which differs from `p` exactly when the first
rounding carried to the next power of ten (`99.95 → 100`) — denote the once-rounded value. -/
theorem ideal_fixed_value (v : ℚ) (hv : v ≠ 0) (s : ℤ) (hs : 1 ≤ s)
    (hd : rhe v ((s - 1 - Int.log 10 |v|).toNat : ℤ) ≠ 0) :
    let d := rhe v ((s - 1 - Int.log 10 |v|).toNat : ℤ)
    let p2 := (s - 1 - Int.log 10 |d|).toNat
    (((rheInt (|d| * (10 : ℚ) ^ (p2 : ℤ))).toNat : ℕ) : ℚ) / (10 : ℚ) ^ (p2 : ℤ) = |d| := by
  intro d p2
  set e := Int.log 10 |v| with he
  set p := (s - 1 - e).toNat with hp
  have habs : |d| = rhe |v| (p : ℤ) := rhe_abs v p
  have hvpos : 0 < |v| := abs_pos.mpr hv
  have hdpos : 0 < |d| := abs_pos.mpr hd
  -- |d| is m / 10^p with m a natural number
  set m := rheInt (|v| * (10 : ℚ) ^ (p : ℤ)) with hm
  have hm0 : 0 ≤ m := rheInt_nonneg (mul_nonneg hvpos.le (pow10_pos _).le)
  have hdm : |d| = (m : ℚ) / (10 : ℚ) ^ (p : ℤ) := by rw [habs]; rfl
  -- it suffices to put |d| on the p2-grid
  suffices hk : ∃ k : ℕ, |d| = (k : ℚ) / (10 : ℚ) ^ (p2 : ℤ) by
    obtain ⟨k, hk⟩ := hk
    have := fixed_digits_value d p2 k (by
      rw [hk, sub_self, abs_zero]
      have := pow10_pos (p2 : ℤ)
      positivity)
    rw [this, ← hk]
  by_cases hpp : p ≤ p2
  · refine ⟨m.toNat * 10 ^ (p2 - p), ?_⟩
    rw [hdm]
    have hp10 := pow10_pos (p : ℤ)
    have hp20 := pow10_pos (p2 : ℤ)
    rw [div_eq_div_iff hp10.ne' hp20.ne']
    have hmn : ((m.toNat : ℕ) : ℚ) = (m : ℚ) := by
      have : ((m.toNat : ℕ) : ℤ) = m := Int.toNat_of_nonneg hm0
      exact_mod_cast this
    push_cast
    rw [hmn]
    have : (10 : ℚ) ^ (p2 : ℤ) = (10 : ℚ) ^ (p2 - p) * (10 : ℚ) ^ (p : ℤ) := by
      rw [zpow_natCast, zpow_natCast, ← pow_add]
      congr 1
      omega
    rw [this]
    ring
  · -- the first rounding carried: |d| is exactly 10^(e+1)
    rw [not_le] at hpp
    have hp_pos : 0 < p := by omega
    have hpe : (p : ℤ) = s - 1 - e := by
      rw [hp]; exact Int.toNat_of_nonneg (by
        by_contra hneg
        rw [not_le] at hneg
        have : (s - 1 - e).toNat = 0 := Int.toNat_eq_zero.mpr hneg.le
        omega)
    set e2 := Int.log 10 |d| with he2
    have he2gt : e < e2 := by
      by_contra hle
      rw [not_lt] at hle
      have : (s - 1 - e).toNat ≤ (s - 1 - e2).toNat := Int.toNat_le_toNat (by omega)
      omega
    have hlow : (10 : ℚ) ^ (e + 1) ≤ |d| := by
      calc (10 : ℚ) ^ (e + 1) ≤ (10 : ℚ) ^ e2 := zpow_le_zpow_right₀ (by norm_num) (by omega)
        _ ≤ |d| := Int.zpow_log_le_self (by norm_num) hdpos
    have hup : |d| ≤ (10 : ℚ) ^ (e + 1) := by
      rw [habs, ← rhe_pow10 (e + 1) p (by omega)]
      apply rhe_mono
      exact (Int.lt_zpow_succ_log_self (by norm_num) |v|).le
    have hdeq : |d| = (10 : ℚ) ^ (e + 1) := le_antisymm hup hlow
    have he2eq : e2 = e + 1 := by
      rw [he2, hdeq]
      exact Int.log_zpow (by norm_num) _
    refine ⟨10 ^ (e + 1 + (p2 : ℤ)).toNat, ?_⟩
    have hnn : 0 ≤ e + 1 + (p2 : ℤ) := by
      have : s - 1 - e2 ≤ (p2 : ℤ) := Int.self_le_toNat _
      omega
    have hp20 := pow10_pos (p2 : ℤ)
    rw [hdeq, eq_div_iff hp20.ne', ← zpow_add₀ (by norm_num : (10 : ℚ) ≠ 0)]
    push_cast
    rw [← zpow_natCast, Int.toNat_of_nonneg hnn]

end C16
