import TeaTasting.Model.Format
import Mathlib.Tactic.Ring
import Mathlib.Tactic.Linarith
import Mathlib.Tactic.FieldSimp
import Mathlib.Tactic.Positivity
import Mathlib.Algebra.Order.Floor.Ring
import Mathlib.Algebra.Order.Field.Power

/-! # C16 — rendered results are faithful to the numbers and consistent across views

Theorems about `Model/Format.lean` (tied to `utils.py` string for string by the correspondence check).
A finite float is the rational it denotes; the float library (`floor(log10 ·)`, rounding to binary64) is
the parameter `FloatLib`, with what is assumed of it stated as hypotheses. -/

namespace C16
open Format

/-! ## round half to even -/

theorem rheInt_error (q : ℚ) : |(rheInt q : ℚ) - q| ≤ 1 / 2 := by
  have h0 : (⌊q⌋ : ℚ) ≤ q := Int.floor_le q
  have h1 : q < (⌊q⌋ : ℚ) + 1 := Int.lt_floor_add_one q
  unfold rheInt
  simp only
  split_ifs with a b c
  · rw [abs_le]; constructor <;> linarith
  · rw [abs_le]; push_cast; constructor <;> linarith
  · have : q - (⌊q⌋ : ℚ) = 1 / 2 := le_antisymm (not_lt.mp b) (not_lt.mp a)
    rw [abs_le]; constructor <;> linarith
  · have : q - (⌊q⌋ : ℚ) = 1 / 2 := le_antisymm (not_lt.mp b) (not_lt.mp a)
    rw [abs_le]; push_cast; constructor <;> linarith

/-- a rational strictly within 1/2 of an integer rounds to that integer -/
theorem rheInt_eq_of_close (q : ℚ) (n : ℤ) (h : |q - n| < 1 / 2) : rheInt q = n := by
  rw [abs_lt] at h
  obtain ⟨hl, hr⟩ := h
  unfold rheInt
  simp only
  by_cases hq : (n : ℚ) ≤ q
  · have hf : ⌊q⌋ = n := by
      rw [Int.floor_eq_iff]; constructor <;> linarith
    rw [hf, if_pos hr]
  · rw [not_le] at hq
    have hf : ⌊q⌋ = n - 1 := by
      rw [Int.floor_eq_iff]; push_cast; constructor <;> linarith
    rw [hf]
    have h1 : ¬ (q - ((n - 1 : ℤ) : ℚ) < 1 / 2) := by push_cast; linarith
    have h2 : (1 : ℚ) / 2 < q - ((n - 1 : ℤ) : ℚ) := by push_cast; linarith
    simp only [h1, h2, if_false, if_true]
    ring

theorem pow10_pos (p : ℤ) : (0 : ℚ) < (10 : ℚ) ^ p := by positivity

/-- **rounding to `p` decimals is off by at most half a unit of the last place** -/
theorem rhe_error (q : ℚ) (p : ℤ) : |rhe q p - q| ≤ 1 / 2 / (10 : ℚ) ^ p := by
  unfold rhe
  have hp := pow10_pos p
  have h := rheInt_error (q * (10 : ℚ) ^ p)
  have e : (rheInt (q * (10 : ℚ) ^ p) : ℚ) / (10 : ℚ) ^ p - q
      = ((rheInt (q * (10 : ℚ) ^ p) : ℚ) - q * (10 : ℚ) ^ p) / (10 : ℚ) ^ p := by
    field_simp
  rw [e, abs_div, abs_of_pos hp]
  exact div_le_div_of_nonneg_right h hp.le

/-- a value strictly within half a unit of a grid point rounds to that grid point -/
theorem rhe_fix (x : ℚ) (p : ℤ) (k : ℤ) (h : |x - (k : ℚ) / (10 : ℚ) ^ p| < 1 / 2 / (10 : ℚ) ^ p) :
    rhe x p = (k : ℚ) / (10 : ℚ) ^ p := by
  have hp := pow10_pos p
  unfold rhe
  have : rheInt (x * (10 : ℚ) ^ p) = k := by
    apply rheInt_eq_of_close
    have e : x * (10 : ℚ) ^ p - (k : ℚ) = (x - (k : ℚ) / (10 : ℚ) ^ p) * (10 : ℚ) ^ p := by
      field_simp
    rw [e, abs_mul, abs_of_pos hp]
    calc |x - (k : ℚ) / (10 : ℚ) ^ p| * (10 : ℚ) ^ p < 1 / 2 / (10 : ℚ) ^ p * (10 : ℚ) ^ p :=
          mul_lt_mul_of_pos_right h hp
      _ = 1 / 2 := by field_simp
  rw [this]

/-- rounding is idempotent on the grid -/
theorem rhe_grid (p : ℤ) (k : ℤ) : rhe ((k : ℚ) / (10 : ℚ) ^ p) p = (k : ℚ) / (10 : ℚ) ^ p := by
  apply rhe_fix
  have hp := pow10_pos p
  simp only [sub_self, abs_zero]
  positivity

/-! ## significant digits -/

/-- **The significant-digit bound.**  Let `e` be what the code takes for `floor(log10 |v|)` — any integer with
`10^e ≤ |v|·(1+δ)` (`δ = 0` for an exact logarithm) — and `p ≥ s − 1 − e` the number of decimals kept
(`p = max(0, s−1−e)` in the fixed branch, `p = s−1−e` for the mantissa of the exponential branch).  Then the
rounded value is within `½·10^(1−s)` of `v`, relatively (up to the slack `δ` of the logarithm). -/
theorem sig_error (v : ℚ) (s e p : ℤ) (δ : ℚ)
    (he : (10 : ℚ) ^ e ≤ |v| * (1 + δ)) (hp : s - 1 - e ≤ p) :
    |rhe v p - v| ≤ 1 / 2 * (10 : ℚ) ^ (1 - s) * |v| * (1 + δ) := by
  have h1 := rhe_error v p
  have hpow : (1 : ℚ) / (10 : ℚ) ^ p ≤ (10 : ℚ) ^ (1 - s) * (10 : ℚ) ^ e := by
    rw [← zpow_add₀ (by norm_num : (10 : ℚ) ≠ 0), one_div, ← zpow_neg]
    apply zpow_le_zpow_right₀ (by norm_num : (1 : ℚ) ≤ 10)
    omega
  have h10 : (0 : ℚ) < (10 : ℚ) ^ (1 - s) := pow10_pos _
  calc |rhe v p - v| ≤ 1 / 2 / (10 : ℚ) ^ p := h1
    _ = 1 / 2 * (1 / (10 : ℚ) ^ p) := by ring
    _ ≤ 1 / 2 * ((10 : ℚ) ^ (1 - s) * (10 : ℚ) ^ e) := by
        apply mul_le_mul_of_nonneg_left hpow (by norm_num)
    _ ≤ 1 / 2 * ((10 : ℚ) ^ (1 - s) * (|v| * (1 + δ))) := by
        apply mul_le_mul_of_nonneg_left _ (by norm_num)
        exact mul_le_mul_of_nonneg_left he h10.le
    _ = 1 / 2 * (10 : ℚ) ^ (1 - s) * |v| * (1 + δ) := by ring

/-- the exact logarithm satisfies the hypothesis of `sig_error` with `δ = 0` -/
theorem exact_log_le (v : ℚ) (hv : v ≠ 0) : (10 : ℚ) ^ (Int.log 10 |v|) ≤ |v| * (1 + 0) := by
  rw [add_zero, mul_one]
  exact Int.zpow_log_le_self (by norm_num) (abs_pos.mpr hv)

/-- fixed branch, exact logarithm: `round(v, max(0, s−1−e))` is `v` to `s` significant digits -/
theorem fixed_sig_error (v : ℚ) (hv : v ≠ 0) (s : ℤ) :
    |rhe v ((s - 1 - Int.log 10 |v|).toNat : ℤ) - v| ≤ 1 / 2 * (10 : ℚ) ^ (1 - s) * |v| := by
  have := sig_error v s (Int.log 10 |v|) ((s - 1 - Int.log 10 |v|).toNat : ℤ) 0 (exact_log_le v hv)
    (Int.self_le_toNat _)
  simpa using this

/-- exponential branch: the mantissa rounding `s−1−e` decimals (possibly negative) -/
theorem exp_sig_error (v : ℚ) (hv : v ≠ 0) (s : ℤ) :
    |rhe v (s - 1 - Int.log 10 |v|) - v| ≤ 1 / 2 * (10 : ℚ) ^ (1 - s) * |v| := by
  have := sig_error v s (Int.log 10 |v|) (s - 1 - Int.log 10 |v|) 0 (exact_log_le v hv) le_rfl
  simpa using this

/-! ## what the renderings denote -/

/-- `format(x2, ".{p2}f")` prints the grid point `|d|` whenever the float `x2` returned by `round` is strictly
within half a unit of it (true of binary64 for `s ≤ 15`; observed on every sampled input by the driver) -/
theorem fixed_digits_value (x2 : ℚ) (p2 : ℕ) (k : ℕ)
    (hclose : abs (abs x2 - (k : ℚ) / (10 : ℚ) ^ (p2 : ℤ)) < 1 / 2 / (10 : ℚ) ^ (p2 : ℤ)) :
    (((rheInt (|x2| * (10 : ℚ) ^ (p2 : ℤ))).toNat : ℕ) : ℚ) / (10 : ℚ) ^ (p2 : ℤ) = (k : ℚ) / (10 : ℚ) ^ (p2 : ℤ) := by
  have h := rhe_fix |x2| (p2 : ℤ) (k : ℤ) (by simpa using hclose)
  unfold rhe at h
  have hp := pow10_pos (p2 : ℤ)
  have hk : rheInt (|x2| * (10 : ℚ) ^ (p2 : ℤ)) = (k : ℤ) := by
    have := (div_left_inj' hp.ne').mp h
    exact_mod_cast this
  rw [hk]
  simp

/-- the carry normalisation of the exponential mantissa (`9.995e-4 → 1.00e-03`) keeps the value -/
theorem expDigits_value (v : ℚ) (p : ℕ) :
    ((expDigits v p).1 : ℚ) * (10 : ℚ) ^ ((expDigits v p).2 - (p : ℤ))
      = ((rheInt (|v| * (10 : ℚ) ^ ((p : ℤ) - Int.log 10 |v|))).toNat : ℚ)
          * (10 : ℚ) ^ (Int.log 10 |v| - (p : ℤ)) := by
  unfold expDigits
  simp only
  split_ifs with h
  · rw [h]
    push_cast
    rw [show Int.log 10 |v| + 1 - (p : ℤ) = (Int.log 10 |v| - (p : ℤ)) + 1 by ring,
      zpow_add₀ (by norm_num : (10 : ℚ) ≠ 0), pow_succ]
    ring
  · rfl

/-- `None` / NaN / infinities are rendered as documented, whatever the other options -/
theorem formatNum_special (L : FloatLib) (o : Opts) :
    formatNum L .none o = .ok o.nan.toList ∧ formatNum L .nan o = .ok o.nan.toList
    ∧ formatNum L .posInf o = .ok o.inf.toList ∧ formatNum L .negInf o = .ok ('-' :: o.inf.toList) :=
  ⟨rfl, rfl, rfl, rfl⟩

/-- the sign is the first character exactly for negative values (fixed rendering) -/
theorem renderFixed_head (neg : Bool) (n p : ℕ) (o : Opts) :
    renderFixed neg n p o = (if neg then ['-'] else []) ++ renderFixed false n p o := by
  cases neg <;> simp [renderFixed]

/-- percent mode appends `%` and nothing else to the rendering of the scaled value -/
theorem formatFin_pct_suffix (L : FloatLib) (x : ℚ) (o : Opts) (r : Rendered)
    (h : formatFin L x o = .ok r) : ∃ body, r.text = body ++ (if o.pct then ['%'] else []) := by
  unfold formatFin at h
  simp only at h
  split at h
  · injection h with h; subst h; exact ⟨_, rfl⟩
  · split at h
    · injection h with h; subst h; exact ⟨_, rfl⟩
    · split at h
      · cases h
      · injection h with h; subst h; exact ⟨_, rfl⟩

/-! ## the views -/

section Views
variable (fmt : RowD → String → List Char) (keys : List String) (rows : List RowD)

/-- `to_pretty_dicts`: one entry per row of `to_dicts()`, in the same order, one cell per selected key -/
theorem prettyCells_rows : (prettyCells fmt keys rows).length = rows.length := by
  simp [prettyCells]

theorem prettyCells_cell (i : ℕ) (hi : i < rows.length) :
    (prettyCells fmt keys rows)[i]'(by simpa [prettyCells] using hi) = keys.map (fmt rows[i]) := by
  simp [prettyCells]

/-- `to_string`: a header line and one line per row, in order -/
theorem toStringLines_length : (toStringLines fmt keys rows).length = rows.length + 1 := by
  simp [toStringLines, prettyCells]

theorem rjust_length (w : ℕ) (s : List Char) : (rjust w s).length = max w s.length := by
  simp [rjust]; omega

/-- right alignment: the cell is the value preceded by spaces only -/
theorem rjust_spec (w : ℕ) (s : List Char) :
    (rjust w s).drop (w - s.length) = s ∧ ∀ c ∈ (rjust w s).take (w - s.length), c = ' ' := by
  constructor
  · simp [rjust]
  · intro c hc
    simp [rjust] at hc
    exact hc.2

theorem joinSep_length (sep : List Char) (cells : List (List Char)) :
    (joinSep sep cells).length = (cells.map List.length).sum + (cells.length - 1) * sep.length := by
  induction cells with
  | nil => simp [joinSep]
  | cons a rest ih =>
    cases rest with
    | nil => simp [joinSep]
    | cons b rest' =>
      simp only [joinSep, List.length_append, ih, List.map_cons, List.sum_cons, List.length_cons]
      have : (rest'.length + 1 + 1 - 1) = (rest'.length + 1 - 1) + 1 := by omega
      rw [this, Nat.add_mul]
      omega

theorem le_foldl_max (cells : List (List Char)) (w0 : ℕ) :
    w0 ≤ cells.foldl (fun w c => max w c.length) w0 ∧
      ∀ c ∈ cells, c.length ≤ cells.foldl (fun w c => max w c.length) w0 := by
  induction cells generalizing w0 with
  | nil => simp
  | cons a rest ih =>
    simp only [List.foldl_cons]
    obtain ⟨h1, h2⟩ := ih (max w0 a.length)
    refine ⟨le_trans (le_max_left _ _) h1, ?_⟩
    intro c hc
    rcases List.mem_cons.mp hc with rfl | hc
    · exact le_trans (le_max_right _ _) h1
    · exact h2 c hc

/-- a cell padded to its column's width has exactly that width -/
theorem rjust_colWidth (header : List Char) (cells : List (List Char)) (c : List Char)
    (hc : c = header ∨ c ∈ cells) : (rjust (colWidth header cells) c).length = colWidth header cells := by
  rw [rjust_length]
  obtain ⟨h1, h2⟩ := le_foldl_max cells header.length
  unfold colWidth
  rcases hc with rfl | hc
  · exact max_eq_left h1
  · exact max_eq_left (h2 c hc)

end Views

/-! ## html text -/

theorem unescape_cons_ne (c : Char) (rest : List Char) (h : c ≠ '&') : unescape (c :: rest) = c :: unescape rest := by
  rw [unescape]; simp [h]

theorem unescape_entity (rest : List Char) (d : Char) (r : List Char) (h : entity rest = some (d, r)) :
    unescape ('&' :: rest) = d :: unescape r := by
  rw [unescape]
  simp only [if_true]
  split
  · next d' r' h' => rw [h] at h'; injection h' with h'; injection h' with h1 h2; subst h1; subst h2; rfl
  · next h' => rw [h] at h'; cases h'

theorem unescape_escapeChar_append (c : Char) (rest : List Char) :
    unescape (escapeChar c ++ rest) = c :: unescape rest := by
  by_cases h1 : c = '&'
  · subst h1; exact unescape_entity _ _ _ rfl
  by_cases h2 : c = '<'
  · subst h2; exact unescape_entity _ _ _ rfl
  by_cases h3 : c = '>'
  · subst h3; exact unescape_entity _ _ _ rfl
  have : escapeChar c = [c] := by
    unfold escapeChar
    split <;> simp_all
  rw [this]
  exact unescape_cons_ne c rest h1

/-- **escaping loses nothing**: reading the escaped text back gives the original cell, whatever characters
it contains -/
theorem unescape_escape (s : List Char) : unescape (escape s) = s := by
  induction s with
  | nil => simp [escape, unescape]
  | cons c rest ih =>
    have : escape (c :: rest) = escapeChar c ++ escape rest := by simp [escape]
    rw [this, unescape_escapeChar_append, ih]

/-- **no markup survives in text**: an escaped cell contains neither `<` nor `>` -/
theorem escape_no_markup (s : List Char) : ∀ c ∈ escape s, c ≠ '<' ∧ c ≠ '>' := by
  intro c hc
  simp only [escape, List.mem_flatMap] at hc
  obtain ⟨a, _, hca⟩ := hc
  unfold escapeChar at hca
  split at hca
  · simp at hca; rcases hca with rfl | rfl | rfl | rfl | rfl <;> decide
  · simp at hca; rcases hca with rfl | rfl | rfl | rfl <;> decide
  · simp at hca; rcases hca with rfl | rfl | rfl | rfl <;> decide
  · simp at hca; subst hca
    constructor <;> (intro h; simp_all)

/-! ## non-vacuity: the named boundary values (kernel-evaluated on the exact model) -/

example : formatNum exactLib (.fin (1999 / 20)) {} = .ok "100".toList := by decide +kernel
example : formatNum exactLib (.fin (24999 / 25000000)) {} = .ok "1.00e-03".toList := by decide +kernel
example : formatNum exactLib (.fin (19999999 / 2)) {} = .ok "10000000".toList := by decide +kernel
example : formatNum exactLib (.fin (-1 / 8)) { sig := 2 } = .ok "-0.12".toList := by decide +kernel
example : formatNum exactLib (.fin (1234567891 / 1000)) { sig := 9, tsep := ".", dpoint := "," }
    = .ok "1.234.567,89".toList := by decide +kernel
example : escape "a<b & c>".toList = "a&lt;b &amp; c&gt;".toList := by decide

end C16
