import TeaTasting.Gen.Utils
import TeaTasting.Spec.Domains
import Mathlib.Tactic.SplitIfs
import Mathlib.Tactic.NormNum

/-! # C19 — parameters are accepted exactly when they lie in their documented domain

Statements are about the GENERATED `Gen.checkScalar` / `Gen.autoCheck` (utils.py) and the
GENERATED table `Gen.entryTable` of which check each entry point applies to each parameter. -/

open Gen

namespace C19

def accepted (r : Except PyErr PyVal) : Prop := ∃ x, r = .ok x

/-! ## check_scalar building blocks -/

theorem lt_fin_iff (a b : ℚ) : XR.lt (.fin a) (.fin b) = true ↔ a < b := by simp [XR.lt]

/-- `check_scalar(v, typ=float, gt=0, lt=1)` accepts exactly the floats strictly inside (0,1) -/
theorem unit_check_iff (v : PyVal) :
    accepted (checkScalar v { typ := some [.float], gt := some (.int 0), lt := some (.int 1) }) ↔ unitOpen v := by
  unfold accepted
  cases v with
  | float f =>
    cases f with
    | fin q =>
      by_cases h0 : (0 : ℚ) < q <;> by_cases h1 : q < (1 : ℚ) <;>
        simp [checkScalar, PyVal.isinstanceAny, PyVal.isinstance, PyVal.pyGt, PyVal.pyLt, PyVal.num?, XR.lt,
          unitOpen, bind, Except.bind, pure, Except.pure, h0, h1]
    | pinf => simp [checkScalar, PyVal.isinstanceAny, PyVal.isinstance, PyVal.pyGt, PyVal.pyLt, PyVal.num?, XR.lt,
          unitOpen, bind, Except.bind, pure, Except.pure]
    | ninf => simp [checkScalar, PyVal.isinstanceAny, PyVal.isinstance, PyVal.pyGt, PyVal.pyLt, PyVal.num?, XR.lt,
          unitOpen, bind, Except.bind, pure, Except.pure]
    | nan => simp [checkScalar, PyVal.isinstanceAny, PyVal.isinstance, PyVal.pyGt, PyVal.pyLt, PyVal.num?, XR.lt,
          unitOpen, bind, Except.bind, pure, Except.pure]
  | none => simp [checkScalar, PyVal.isinstanceAny, PyVal.isinstance, unitOpen, bind, Except.bind]
  | bool b => simp [checkScalar, PyVal.isinstanceAny, PyVal.isinstance, unitOpen, bind, Except.bind]
  | int z => simp [checkScalar, PyVal.isinstanceAny, PyVal.isinstance, unitOpen, bind, Except.bind]
  | str s => simp [checkScalar, PyVal.isinstanceAny, PyVal.isinstance, unitOpen, bind, Except.bind]
  | seq l => simp [checkScalar, PyVal.isinstanceAny, PyVal.isinstance, unitOpen, bind, Except.bind]
  | other t => simp [checkScalar, PyVal.isinstanceAny, PyVal.isinstance, unitOpen, bind, Except.bind]

/-- simp set that evaluates a `check_scalar` call on a value of known constructor -/
macro "check_simp" : tactic =>
  `(tactic| simp [checkScalar, PyVal.isinstanceAny, PyVal.isinstance, PyVal.pyGt, PyVal.pyLt, PyVal.pyGe,
      PyVal.pyLe, PyVal.pyEq, PyVal.pyIn, PyVal.num?, XR.lt, XR.le, XR.eq, bind, Except.bind, pure, Except.pure,
      throw, throwThe, MonadExceptOf.throw, accepted, unitOpen, posNumber, intGt, isBool, oneOf, finiteNonzero])

/-- evaluate, split the remaining `if`s, and clear the arithmetic side goals -/
macro "check_done" : tactic =>
  `(tactic| (check_simp <;> (try split_ifs) <;> (try simp_all) <;> (try assumption_mod_cast) <;> (try omega) <;> (try linarith) <;> (try tauto)))

/-- `check_scalar(v, typ=float | int, gt=0)` accepts exactly the positive numbers (`+inf` included,
NaN excluded, `True` included because `bool` is an `int`) -/
theorem ratio_check_iff (v : PyVal) :
    accepted (checkScalar v { typ := some [.float, .int], gt := some (.int 0) }) ↔ posNumber v := by
  cases v with
  | float f => cases f <;> check_done
  | int z => check_done
  | bool b => cases b <;> check_done
  | none => check_done
  | str s => check_done
  | seq l => check_done
  | other t => check_done

theorem int_gt_check_iff (k : ℕ) (v : PyVal) :
    accepted (checkScalar v { typ := some [.int], gt := some (.int k) }) ↔ intGt k v := by
  cases v with
  | int z => check_done
  | bool b => cases b <;> check_done
  | float f => check_done
  | none => check_done
  | str s => check_done
  | seq l => check_done
  | other t => check_done

theorem bool_check_iff (v : PyVal) : accepted (checkScalar v { typ := some [.bool] }) ↔ isBool v := by
  cases v <;> check_simp

theorem alternative_check_iff (v : PyVal) :
    accepted (checkScalar v { typ := some [.str], in_ := some [PyVal.str "two-sided", PyVal.str "greater", PyVal.str "less"] })
      ↔ oneOf ["two-sided", "greater", "less"] v := by
  cases v with
  | str s => check_done
  | _ => check_simp

/-- effect sizes: `check_scalar(v, typ=float | int, gt=-inf, lt=inf, ne=0)` accepts exactly the
finite non-zero numbers -/
theorem effect_size_check_iff (v : PyVal) :
    accepted (checkScalar v { typ := some [.float, .int], gt := some (.float .ninf), lt := some (.float .pinf), ne := some (.int 0) })
      ↔ finiteNonzero v := by
  cases v with
  | float f => cases f <;> check_done
  | int z => check_done
  | bool b => cases b <;> check_done
  | none => check_done
  | str s => check_done
  | seq l => check_done
  | other t => check_done

/-! ## auto_check: every standard option is accepted iff it lies in its documented domain -/

theorem accepted_seq {β : Type} (r : Except PyErr β) (v : PyVal) :
    accepted (r >>= fun _ => (pure v : Except PyErr PyVal)) ↔ ∃ y, r = .ok y := by
  cases r <;> simp [accepted, bind, Except.bind, pure, Except.pure]

macro "auto_done" : tactic =>
  `(tactic| (simp [autoCheck, checkScalar, PyVal.isinstanceAny, PyVal.isinstance, PyVal.pyGt, PyVal.pyLt, PyVal.pyGe,
      PyVal.pyLe, PyVal.pyEq, PyVal.pyIn, PyVal.num?, XR.lt, XR.le, XR.eq, bind, Except.bind, pure, Except.pure,
      throw, throwThe, MonadExceptOf.throw, accepted, inDomain, unitOpen, posNumber, intGt, isBool, oneOf, nObsDomain]
      <;> (try split_ifs) <;> (try simp_all) <;> (try assumption_mod_cast) <;> (try omega) <;> (try linarith)
      <;> (try tauto)))

theorem autoCheck_alpha (v : PyVal) : accepted (autoCheck v "alpha") ↔ inDomain "alpha" v := by
  cases v with
  | float f => cases f <;> auto_done
  | int z => auto_done
  | bool b => auto_done
  | none => auto_done
  | str s => auto_done
  | seq l => auto_done
  | other t => auto_done

theorem autoCheck_power (v : PyVal) : accepted (autoCheck v "power") ↔ inDomain "power" v := by
  cases v with
  | float f => cases f <;> auto_done
  | int z => auto_done
  | bool b => cases b <;> auto_done
  | none => auto_done
  | str s => auto_done
  | seq l => auto_done
  | other t => auto_done

theorem autoCheck_confidence_level (v : PyVal) : accepted (autoCheck v "confidence_level") ↔ inDomain "confidence_level" v := by
  cases v with
  | float f => cases f <;> auto_done
  | int z => auto_done
  | bool b => cases b <;> auto_done
  | none => auto_done
  | str s => auto_done
  | seq l => auto_done
  | other t => auto_done

theorem autoCheck_alternative (v : PyVal) : accepted (autoCheck v "alternative") ↔ inDomain "alternative" v := by
  cases v with
  | float f => cases f <;> auto_done
  | int z => auto_done
  | bool b => cases b <;> auto_done
  | none => auto_done
  | str s => auto_done
  | seq l => auto_done
  | other t => auto_done

theorem autoCheck_correction (v : PyVal) : accepted (autoCheck v "correction") ↔ inDomain "correction" v := by
  cases v with
  | float f => cases f <;> auto_done
  | int z => auto_done
  | bool b => cases b <;> auto_done
  | none => auto_done
  | str s => auto_done
  | seq l => auto_done
  | other t => auto_done

theorem autoCheck_equal_var (v : PyVal) : accepted (autoCheck v "equal_var") ↔ inDomain "equal_var" v := by
  cases v with
  | float f => cases f <;> auto_done
  | int z => auto_done
  | bool b => cases b <;> auto_done
  | none => auto_done
  | str s => auto_done
  | seq l => auto_done
  | other t => auto_done

theorem autoCheck_use_t (v : PyVal) : accepted (autoCheck v "use_t") ↔ inDomain "use_t" v := by
  cases v with
  | float f => cases f <;> auto_done
  | int z => auto_done
  | bool b => cases b <;> auto_done
  | none => auto_done
  | str s => auto_done
  | seq l => auto_done
  | other t => auto_done

theorem autoCheck_n_resamples (v : PyVal) : accepted (autoCheck v "n_resamples") ↔ inDomain "n_resamples" v := by
  cases v with
  | float f => cases f <;> auto_done
  | int z => auto_done
  | bool b => cases b <;> auto_done
  | none => auto_done
  | str s => auto_done
  | seq l => auto_done
  | other t => auto_done

theorem autoCheck_ratio (v : PyVal) : accepted (autoCheck v "ratio") ↔ inDomain "ratio" v := by
  cases v with
  | float f => cases f <;> auto_done
  | int z => auto_done
  | bool b => cases b <;> auto_done
  | none => auto_done
  | str s => auto_done
  | seq l => auto_done
  | other t => auto_done

/-- a `for` loop of checks succeeds iff every element passes -/
theorem forM_ok_iff (l : List PyVal) (f : PyVal → Except PyErr PUnit) :
    (∃ u, l.forM f = .ok u) ↔ ∀ x ∈ l, ∃ u, f x = .ok u := by
  induction l with
  | nil => simp [pure, Except.pure]
  | cons a l ih =>
    simp only [List.mem_cons, forall_eq_or_imp]
    cases h : f a with
    | error e => simp [bind, Except.bind, h]
    | ok u => simpa [bind, Except.bind, h] using ih

theorem exists_ok_map {β γ : Type} (r : Except PyErr β) (g : β → γ) :
    (∃ x, g <$> r = Except.ok x) ↔ ∃ u, r = Except.ok u := by
  cases r <;> simp [Functor.map, Except.map]

theorem elem_check_iff (x : PyVal) :
    (∃ u, ((fun _ => ()) <$> checkScalar x { typ := some [.int], gt := some (.int 1) }
        : Except PyErr PUnit) = .ok u) ↔ intGt 1 x := by
  have h := int_gt_check_iff 1 x
  simp only [Nat.cast_one] at h
  rw [← h, exists_ok_map]
  rfl

theorem autoCheck_n_obs (v : PyVal) : accepted (autoCheck v "n_obs") ↔ inDomain "n_obs" v := by
  cases v with
  | float f => auto_done
  | int z => auto_done
  | bool b => cases b <;> auto_done
  | none => auto_done
  | other t => auto_done
  | seq l =>
    have h1 : checkScalar (.seq l) { typ := some [.int, .seq, .none] } = .ok (.seq l) := by
      simp [checkScalar, PyVal.isinstanceAny, PyVal.isinstance, pure, Except.pure]
    have key := forM_ok_iff l (fun val => (fun _ => ()) <$> checkScalar val { typ := some [.int], gt := some (.int 1) })
    simp only [elem_check_iff] at key
    simp [autoCheck, h1, PyVal.isinstanceAny, PyVal.isinstance, PyVal.iter, inDomain, nObsDomain, accepted]
    rw [← key]
    simp only [bind, Except.bind]
    exact exists_ok_map _ _
  | str s =>
    have h1 : checkScalar (.str s) { typ := some [.int, .seq, .none] } = .ok (.str s) := by
      simp [checkScalar, PyVal.isinstanceAny, PyVal.isinstance, pure, Except.pure]
    have key := forM_ok_iff (PyVal.iter (.str s))
      (fun val => (fun _ => ()) <$> checkScalar val { typ := some [.int], gt := some (.int 1) })
    simp only [elem_check_iff] at key
    simp [autoCheck, h1, PyVal.isinstanceAny, PyVal.isinstance, inDomain, nObsDomain, accepted]
    have hs : (∀ x ∈ PyVal.iter (.str s), intGt 1 x) ↔ s = "" := by
      simp only [PyVal.iter, List.mem_map, forall_exists_index, and_imp, forall_apply_eq_imp_iff₂, intGt]
      constructor
      · intro h
        rw [← String.toList_eq_nil_iff]
        cases hl : s.toList with
        | nil => rfl
        | cons c cs => exact absurd (h c (by rw [hl]; simp)) (by simp)
      · intro h c hc
        rw [h] at hc
        simp at hc
    rw [← hs, ← key]
    simp only [bind, Except.bind]
    exact exists_ok_map _ _

/-- **auto_check accepts a value iff it lies in the documented domain of the named option**, for
every name (standard or user-defined) and every Python value — NaN, ±inf, bool-as-int, strings,
sequences included. -/
theorem autoCheck_accepts_iff_inDomain (name : String) (v : PyVal) :
    accepted (autoCheck v name) ↔ inDomain name v := by
  by_cases h1 : name = "alpha"
  · subst h1; exact autoCheck_alpha v
  by_cases h2 : name = "power"
  · subst h2; exact autoCheck_power v
  by_cases h3 : name = "confidence_level"
  · subst h3; exact autoCheck_confidence_level v
  by_cases h4 : name = "alternative"
  · subst h4; exact autoCheck_alternative v
  by_cases h5 : name = "correction"
  · subst h5; exact autoCheck_correction v
  by_cases h6 : name = "equal_var"
  · subst h6; exact autoCheck_equal_var v
  by_cases h7 : name = "use_t"
  · subst h7; exact autoCheck_use_t v
  by_cases h8 : name = "n_resamples"
  · subst h8; exact autoCheck_n_resamples v
  by_cases h9 : name = "ratio"
  · subst h9; exact autoCheck_ratio v
  by_cases h10 : name = "n_obs"
  · subst h10; exact autoCheck_n_obs v
  simp [autoCheck, inDomain, accepted, h1, h2, h3, h4, h5, h6, h7, h8, h9, h10, pure, Except.pure]

/-- a sequence with one bad element is rejected -/
theorem sequence_one_bad_rejects (l : List PyVal) (x : PyVal) (hx : x ∈ l) (hbad : ¬ intGt 1 x) :
    ¬ accepted (autoCheck (.seq l) "n_obs") := by
  rw [autoCheck_n_obs]
  simp only [inDomain, nObsDomain]
  intro h
  simp at h
  exact hbad (h x hx)

/-- NaN is in no numeric domain -/
theorem nan_rejected (name : String) (h : name ∈ ["alpha", "power", "confidence_level", "ratio", "n_resamples", "n_obs"]) :
    ¬ accepted (autoCheck (.float .nan) name) := by
  rw [autoCheck_accepts_iff_inDomain]
  simp only [List.mem_cons, List.mem_nil_iff, or_false] at h
  rcases h with h | h | h | h | h | h <;> subst h <;> simp [inDomain, unitOpen, posNumber, intGt, nObsDomain]

theorem q_check_iff (v : PyVal) : accepted (checkScalar v Gen.args_Quantile_q) ↔ unitClosed v := by
  unfold Gen.args_Quantile_q
  cases v with
  | float f => cases f <;> (simp only [unitClosed]; check_done)
  | int z => simp only [unitClosed]; check_done
  | bool b => simp only [unitClosed]; check_done
  | none => simp only [unitClosed]; check_done
  | str s => simp only [unitClosed]; check_done
  | seq l => simp only [unitClosed]; check_done
  | other t => simp only [unitClosed]; check_done

/-- effect sizes at the constructors are checked with exactly the finite-non-zero check, for a
scalar and for every element of a sequence -/
theorem effect_size_args :
    Gen.args_RatioOfMeans_effect_size
        = { typ := some [.float, .int], gt := some (.float .ninf), lt := some (.float .pinf), ne := some (.int 0) }
    ∧ Gen.args_RatioOfMeans_effect_size_each = Gen.args_RatioOfMeans_effect_size
    ∧ Gen.args_RatioOfMeans_rel_effect_size = Gen.args_RatioOfMeans_effect_size
    ∧ Gen.args_RatioOfMeans_rel_effect_size_each = Gen.args_RatioOfMeans_effect_size := ⟨rfl, rfl, rfl, rfl⟩

theorem effect_size_accepts_iff (v : PyVal) :
    accepted (checkScalar v Gen.args_RatioOfMeans_effect_size) ↔ finiteNonzero v := by
  rw [effect_size_args.1]; exact effect_size_check_iff v

/-! ## every documented parameter of every entry point has its check (generated table) -/

/-- (entry point, parameter, check, configuration option used when the argument is `None`) as
documented; `forwarded` = passed unchanged to the parent constructor / to `set_config` -/
def expected : List EntryRow := [
  ⟨"RatioOfMeans", "alternative", .auto "alternative", some "alternative"⟩,
  ⟨"RatioOfMeans", "confidence_level", .auto "confidence_level", some "confidence_level"⟩,
  ⟨"RatioOfMeans", "equal_var", .auto "equal_var", some "equal_var"⟩,
  ⟨"RatioOfMeans", "use_t", .auto "use_t", some "use_t"⟩,
  ⟨"RatioOfMeans", "alpha", .auto "alpha", some "alpha"⟩,
  ⟨"RatioOfMeans", "ratio", .auto "ratio", some "ratio"⟩,
  ⟨"RatioOfMeans", "power", .auto "power", some "power"⟩,
  ⟨"RatioOfMeans", "n_obs", .auto "n_obs", some "n_obs"⟩,
  ⟨"RatioOfMeans", "effect_size", .scalar, none⟩,
  ⟨"RatioOfMeans", "effect_size", .scalarEach, none⟩,
  ⟨"RatioOfMeans", "rel_effect_size", .scalar, none⟩,
  ⟨"RatioOfMeans", "rel_effect_size", .scalarEach, none⟩,
  ⟨"Mean", "alternative", .forwarded, none⟩, ⟨"Mean", "confidence_level", .forwarded, none⟩,
  ⟨"Mean", "equal_var", .forwarded, none⟩, ⟨"Mean", "use_t", .forwarded, none⟩,
  ⟨"Mean", "alpha", .forwarded, none⟩, ⟨"Mean", "ratio", .forwarded, none⟩,
  ⟨"Mean", "power", .forwarded, none⟩, ⟨"Mean", "n_obs", .forwarded, none⟩,
  ⟨"Mean", "effect_size", .forwarded, none⟩, ⟨"Mean", "rel_effect_size", .forwarded, none⟩,
  ⟨"SampleRatio", "ratio", .auto "ratio", none⟩, ⟨"SampleRatio", "ratio", .autoEach "ratio", none⟩,
  ⟨"SampleRatio", "method", .scalar, none⟩, ⟨"SampleRatio", "correction", .auto "correction", none⟩,
  ⟨"Bootstrap", "alternative", .auto "alternative", some "alternative"⟩,
  ⟨"Bootstrap", "confidence_level", .auto "confidence_level", some "confidence_level"⟩,
  ⟨"Bootstrap", "n_resamples", .auto "n_resamples", some "n_resamples"⟩,
  ⟨"Bootstrap", "method", .scalar, none⟩,
  ⟨"Quantile", "q", .scalar, none⟩,
  ⟨"Quantile", "alternative", .forwarded, none⟩, ⟨"Quantile", "confidence_level", .forwarded, none⟩,
  ⟨"Quantile", "n_resamples", .forwarded, none⟩, ⟨"Quantile", "method", .forwarded, none⟩,
  ⟨"adjust_fdr", "alpha", .auto "alpha", some "alpha"⟩,
  ⟨"adjust_fwer", "alpha", .auto "alpha", some "alpha"⟩, ⟨"adjust_fwer", "method", .scalar, none⟩,
  ⟨"make_data", "n_users", .scalar, none⟩, ⟨"make_data", "ratio", .scalar, none⟩,
  ⟨"make_data", "avg_orders_per_session", .scalar, none⟩,
  ⟨"set_config", "alpha", .auto "alpha", none⟩, ⟨"set_config", "alternative", .auto "alternative", none⟩,
  ⟨"set_config", "confidence_level", .auto "confidence_level", none⟩,
  ⟨"set_config", "equal_var", .auto "equal_var", none⟩, ⟨"set_config", "n_obs", .auto "n_obs", none⟩,
  ⟨"set_config", "n_resamples", .auto "n_resamples", none⟩, ⟨"set_config", "power", .auto "power", none⟩,
  ⟨"set_config", "ratio", .auto "ratio", none⟩, ⟨"set_config", "use_t", .auto "use_t", none⟩,
  ⟨"config_context", "alpha", .forwarded, none⟩, ⟨"config_context", "alternative", .forwarded, none⟩,
  ⟨"config_context", "confidence_level", .forwarded, none⟩, ⟨"config_context", "equal_var", .forwarded, none⟩,
  ⟨"config_context", "n_obs", .forwarded, none⟩, ⟨"config_context", "n_resamples", .forwarded, none⟩,
  ⟨"config_context", "power", .forwarded, none⟩, ⟨"config_context", "ratio", .forwarded, none⟩,
  ⟨"config_context", "use_t", .forwarded, none⟩ ]

/-- every documented (entry point, parameter) carries the documented check in the table extracted
from the CURRENT source — a constructor that forgets a check, checks under the wrong option
name, or reads a different configuration option makes this fail -/
theorem entry_table_complete : ∀ e ∈ expected, e ∈ Gen.entryTable := by
  decide +kernel

end C19

