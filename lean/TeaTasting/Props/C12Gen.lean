import TeaTasting.Gen.Pairs
import TeaTasting.Model.Experiment

/-! # C12, continued — the pair construction of the model IS the one in the source

`Gen/Pairs.lean` is regenerated on every run from the two comprehensions of `Experiment.analyze`
that build `variant_pairs` and from the guard that raises.  `Experiment.pairs` /
`Experiment.analyzePairs` (`Model/Experiment.lean`), about which `pairs_control_given`, `pairs_all`,
`raises_iff_not_exactly_one_pair`, … are stated, are proved here to be those generated definitions. -/

namespace C12

open Experiment

variable {κ : Type} [LinearOrder κ]

theorem gen_pairs_given (variants : List κ) (control : κ) :
    Gen.pairsGiven variants control = pairs variants (some control) := rfl

theorem gen_pairs_all (variants : List κ) : Gen.pairsAll variants = pairs variants none := rfl

/-- the model raises exactly when the generated guard does -/
theorem gen_raise (variants : List κ) (control : Option κ) (allVariants : Bool) :
    (Gen.pairsRaise (pairs variants control) allVariants = true) ↔
      (match analyzePairs variants control allVariants with | .raise => True | _ => False) := by
  unfold analyzePairs Gen.pairsRaise
  cases allVariants
  · simp only [Bool.not_false, Bool.and_true, decide_eq_true_eq, and_true]
    by_cases h : (pairs variants control).length = 1
    · obtain ⟨p, hp⟩ := List.length_eq_one_iff.mp h
      simp [hp]
    · simp [h]
  · simp

end C12
