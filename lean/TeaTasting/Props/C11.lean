import TeaTasting.Spec.Proportion
import TeaTasting.Gen.Proportion
import TeaTasting.Basic.Laws
import Mathlib.Tactic.SplitIfs
import Mathlib.Tactic.FieldSimp

/-! # C11 — SampleRatio p-values are the exact binomial / normal tests of the expected split

About the GENERATED `Gen.SampleRatio.analyze` (metrics/proportion.py). -/

open Spec Gen

set_option linter.unusedSectionVars false

variable {α : Type} [Field α] [LinearOrder α] [IsStrictOrderedRing α]

namespace C11

theorem correction_form (d : α) :
    (if d < 0 then min (d + 1 / 2) 0 else max (d - 1 / 2) 0) = correctedDeviation true d := by
  unfold correctedDeviation
  simp only [if_true]
  split_ifs with h
  · rcases le_total (d + 1 / 2) 0 with h1 | h1
    · rw [min_eq_left h1, max_eq_left (by linarith)]; ring
    · rw [min_eq_right h1, max_eq_right (by linarith)]; ring
  · rfl

/-- **C11, main statement.**  For all counts, ratios (scalar or mapping), methods and correction
flags, the generated `SampleRatio.analyze` is the documented test: it reports the true counts and
the exact binomial p-value (`binom`, or `auto` below 1000 observations) or the normal
approximation with the continuity correction `sign(d)·max(|d| − ½, 0)` of the treatment count
against the share `r/(1+r)`. -/
theorem analyze_eq_textbook (P : Prims α) (binomtest : α → α → α → α) (cfg : SRCfg α) (c t : α) :
    SampleRatio.analyze P binomtest cfg c t = sampleRatioTest P binomtest cfg c t := by
  -- written against the MEANING of the generated definition, not its shape: every `if` of the generated
  -- code and of the specification is case-split, so `if/elif`, nested or conditional-expression forms of the
  -- same computation all go through
  obtain ⟨ratio, method, correction⟩ := cfg
  have hn : t + c - t = c := by ring
  have hneg : ∀ d : α, d < 0 → min (d + 1 / 2) 0 = correctedDeviation true d := fun d h => by
    rw [← correction_form, if_pos h]
  have hpos : ∀ d : α, ¬ d < 0 → max (d - 1 / 2) 0 = correctedDeviation true d := fun d h => by
    rw [← correction_form, if_neg h]
  have hzero : ∀ b : Bool, correctedDeviation b (0 : α) = 0 := fun b => by
    cases b <;> simp [correctedDeviation]
  have hfalse : ∀ d : α, correctedDeviation false d = d := fun d => by simp [correctedDeviation]
  cases ratio <;> cases correction <;>
  · simp only [SampleRatio.analyze, sampleRatioTest, zStat, expectedShare, ratioValue, hn, correction_form]
    split_ifs <;> simp_all

/-- the true control and treatment counts are reported -/
theorem counts_reported (P : Prims α) (binomtest : α → α → α → α) (cfg : SRCfg α) (c t : α) :
    (SampleRatio.analyze P binomtest cfg c t).control = c ∧
    (SampleRatio.analyze P binomtest cfg c t).treatment = t := by
  rw [analyze_eq_textbook]; exact ⟨rfl, rfl⟩

/-- the exact binomial test is used iff `method = "binom"`, or `"auto"` with fewer than 1000
observations in total; it is called with the treatment count, the total and `r/(1+r)` -/
theorem method_switch (P : Prims α) (binomtest : α → α → α → α) (cfg : SRCfg α) (c t : α) :
    (cfg.method = "binom" ∨ (cfg.method = "auto" ∧ t + c < 1000) →
      (SampleRatio.analyze P binomtest cfg c t).pvalue
        = binomtest t (t + c) (ratioValue cfg.ratio / (1 + ratioValue cfg.ratio))) ∧
    (¬ (cfg.method = "binom" ∨ (cfg.method = "auto" ∧ t + c < 1000)) →
      (SampleRatio.analyze P binomtest cfg c t).pvalue
        = 2 * (P.norm 0).sf |zStat P cfg.correction t (t + c) (expectedShare (ratioValue cfg.ratio))|) := by
  rw [analyze_eq_textbook]
  unfold sampleRatioTest expectedShare
  constructor <;> intro h <;> simp [h]

/-- the scalar and the mapping form of the ratio agree -/
theorem scalar_mapping_agree (P : Prims α) (binomtest : α → α → α → α) (m : String) (corr : Bool)
    (rt rc c t : α) :
    SampleRatio.analyze P binomtest { ratio := .mapping rt rc, method := m, correction := corr } c t
      = SampleRatio.analyze P binomtest { ratio := .scalar (rt / rc), method := m, correction := corr } c t := rfl

theorem correctedDeviation_neg (b : Bool) (d : α) : correctedDeviation b (-d) = -correctedDeviation b d := by
  unfold correctedDeviation
  cases b
  · simp
  · simp only [if_true]
    rcases lt_trichotomy d 0 with h | h | h
    · have h1 : ¬ (-d < 0) := by linarith
      simp only [h, h1, if_true, if_false, neg_neg]
    · subst h; simp
    · have h1 : (-d < 0) := by linarith
      have h2 : ¬ (d < 0) := by linarith
      simp only [h1, h2, if_true, if_false, neg_neg]

/-- **swapping the roles of the two variants while inverting the ratio leaves the normal
p-value unchanged** -/
theorem swap_invariant_norm (P : Prims α) (binomtest : α → α → α → α) (m : String) (corr : Bool)
    (r c t : α) (hr : 0 < r) (hm : ¬ (m = "binom" ∨ (m = "auto" ∧ t + c < 1000))) :
    (SampleRatio.analyze P binomtest { ratio := .scalar (1 / r), method := m, correction := corr } t c).pvalue
      = (SampleRatio.analyze P binomtest { ratio := .scalar r, method := m, correction := corr } c t).pvalue := by
  rw [analyze_eq_textbook, analyze_eq_textbook]
  unfold sampleRatioTest
  have hm' : ¬ (m = "binom" ∨ (m = "auto" ∧ c + t < 1000)) := by rwa [add_comm]
  simp only [hm, hm', if_false, ratioValue]
  have hp : expectedShare (1 / r) = 1 - expectedShare r := by
    unfold expectedShare
    have : 1 + r ≠ 0 := by linarith
    have : r ≠ 0 := ne_of_gt hr
    field_simp
    ring
  unfold zStat
  rw [hp]
  have hd : c - (c + t) * (1 - expectedShare r) = -(t - (t + c) * expectedShare r) := by ring
  have hs : (c + t) * (1 - expectedShare r) * (1 - (1 - expectedShare r))
      = (t + c) * expectedShare r * (1 - expectedShare r) := by ring
  rw [hd, hs, correctedDeviation_neg, neg_div, abs_neg]

theorem binomPmf_swap (n : ℕ) (p : α) {i : ℕ} (hi : i ≤ n) : binomPmf n (1 - p) (n - i) = binomPmf n p i := by
  unfold binomPmf
  rw [Nat.choose_symm hi, Nat.sub_sub_self hi]
  ring

/-- the exact two-sided binomial p-value is invariant under `(k, p) ↦ (n − k, 1 − p)` -/
theorem binomTwoSided_swap (n : ℕ) (p : α) {k : ℕ} (hk : k ≤ n) :
    binomTwoSided n (1 - p) (n - k) = binomTwoSided n p k := by
  unfold binomTwoSided
  rw [← Finset.sum_range_reflect]
  apply Finset.sum_congr rfl
  intro i hi
  have hi' : i ≤ n := by have := Finset.mem_range.mp hi; omega
  have e : n + 1 - 1 - i = n - i := by omega
  rw [e, binomPmf_swap n p hi', binomPmf_swap n p hk]

/-- **swap invariance of the exact binomial p-value**, when `binomtest` is the exact two-sided
binomial test (what `scipy.stats.binomtest` is assumed — and sampled — to be) -/
theorem swap_invariant_binom (P : Prims α) (binomtest : α → α → α → α)
    (hb : ∀ (k n : ℕ) (p : α), binomtest (k : α) (n : α) p = binomTwoSided n p k)
    (m : String) (corr : Bool) (r : α) (c t : ℕ) (hr : 0 < r)
    (hm : m = "binom" ∨ (m = "auto" ∧ (t : α) + (c : α) < 1000)) :
    (SampleRatio.analyze P binomtest { ratio := .scalar (1 / r), method := m, correction := corr }
        (t : α) (c : α)).pvalue
      = (SampleRatio.analyze P binomtest { ratio := .scalar r, method := m, correction := corr }
        (c : α) (t : α)).pvalue := by
  rw [analyze_eq_textbook, analyze_eq_textbook]
  unfold sampleRatioTest
  have hm' : m = "binom" ∨ (m = "auto" ∧ (c : α) + (t : α) < 1000) := by rwa [add_comm]
  simp only [hm, hm', if_true, ratioValue]
  have hp : expectedShare (1 / r) = 1 - expectedShare r := by
    unfold expectedShare
    have : 1 + r ≠ 0 := by linarith
    have : r ≠ 0 := ne_of_gt hr
    field_simp
    ring
  have h1 : ((c : α) + (t : α)) = ((c + t : ℕ) : α) := by push_cast; rfl
  have h2 : ((t : α) + (c : α)) = ((c + t : ℕ) : α) := by push_cast; ring
  rw [hp, h1, h2, hb, hb]
  have := binomTwoSided_swap (c + t) (expectedShare r) (k := t) (by omega)
  rw [show c + t - t = c by omega] at this
  exact this

end C11
