import TeaTasting.Lemmas.Characterise
import Mathlib.Tactic.SplitIfs
import Mathlib.Tactic.Positivity
import Mathlib.Algebra.Order.AbsoluteValue.Basic

/-! # C07 — every test result is internally coherent (interval, p-value, alternative)

All statements are about the GENERATED `Gen.RatioOfMeans.analyze_stats` (the function every
Mean / RatioOfMeans result comes from), for arbitrary inputs `m v n` of the two variants, under
the stated laws of the primitives. -/

open Spec Gen

set_option linter.unusedSectionVars false

variable {α : Type} [Field α] [LinearOrder α] [IsStrictOrderedRing α]

namespace C07

/-- what the coherence statements assume about one analysis: the laws of the primitives for the
two reference distributions actually used, a positive standard error, `0 < level < 1` -/
structure Hyp (P : Prims α) (cfg : RatioCfg α) (cm cv cn tm tv tn : α) : Prop where
  q : P.QuantileLaws
  dist : (refDist P (optsOf cfg) cv cn tv tn).Laws
  distLog : (refDist P (optsOf cfg) (cv / cm ^ 2) cn (tv / tm ^ 2) tn).Laws
  seSq_nonneg : 0 ≤ seSq (optsOf cfg) cv cn tv tn
  seSqLog_nonneg : 0 ≤ seSq (optsOf cfg) (cv / cm ^ 2) cn (tv / tm ^ 2) tn
  se_pos : 0 < P.sqrt (seSq (optsOf cfg) cv cn tv tn)
  seLog_nonneg : 0 ≤ P.sqrt (seSq (optsOf cfg) (cv / cm ^ 2) cn (tv / tm ^ 2) tn)
  exp_mono : StrictMono P.exp
  exp_zero : P.exp 0 = 1
  exp_pos : ∀ x, 0 < P.exp x
  cl0 : 0 < cfg.confidence_level
  cl1 : cfg.confidence_level < 1

section
variable (P : Prims α) (cfg : RatioCfg α) (cm cv cn tm tv tn : α)

local notation "res" => RatioOfMeans.analyze_stats P cfg cm cv cn tm tv tn
local notation "D" => refDist P (optsOf cfg) cv cn tv tn
local notation "SE" => P.sqrt (seSq (optsOf cfg) cv cn tv tn)
local notation "DL" => refDist P (optsOf cfg) (cv / cm ^ 2) cn (tv / tm ^ 2) tn
local notation "SEL" => P.sqrt (seSq (optsOf cfg) (cv / cm ^ 2) cn (tv / tm ^ 2) tn)

/-- `effect_size = treatment − control`, `rel_effect_size = treatment/control − 1`, and the
reported means are the inputs — for every input and option, no hypotheses -/
theorem effect_eq :
    (res).effect_size = (res).treatment - (res).control ∧
    (res).rel_effect_size = (res).treatment / (res).control - 1 ∧
    (res).control = cm ∧ (res).treatment = tm := by
  unfold RatioOfMeans.analyze_stats
  split_ifs <;> exact ⟨rfl, rfl, rfl, rfl⟩

/-- unbounded above for `greater`, below for `less` (absolute and relative interval) -/
theorem ci_unbounded_greater (h : cfg.alternative = "greater") :
    (res).effect_size_ci_upper = Bound.posInf ∧ (res).rel_effect_size_ci_upper = Bound.posInf := by
  unfold RatioOfMeans.analyze_stats
  simp [h]

theorem ci_unbounded_less (h : cfg.alternative = "less") :
    (res).effect_size_ci_lower = Bound.negInf ∧ (res).rel_effect_size_ci_lower = Bound.negInf := by
  unfold RatioOfMeans.analyze_stats
  simp [h]

variable {P cfg cm cv cn tm tv tn}

/-- the fields of the result, by alternative, in terms of the reference distribution -/
theorem fields_greater (H : Hyp P cfg cm cv cn tm tv tn) (h : cfg.alternative = "greater") :
    (res).pvalue = (D).sf ((tm - cm) / SE) ∧
    (res).effect_size_ci_lower = Bound.fin (tm - cm - SE * (D).ppf cfg.confidence_level) ∧
    (res).rel_effect_size_ci_lower
      = Bound.fin (tm / cm * P.exp (-(SEL * (DL).ppf cfg.confidence_level)) - 1) := by
  rw [analyze_stats_eq_textbook P H.q cfg H.cl0 H.cl1 _ _ _ _ _ _ H.seSq_nonneg H.seSqLog_nonneg]
  unfold testFromStats
  simp [h]

theorem fields_less (H : Hyp P cfg cm cv cn tm tv tn) (h : cfg.alternative = "less") :
    (res).pvalue = (D).cdf ((tm - cm) / SE) ∧
    (res).effect_size_ci_upper = Bound.fin (tm - cm + SE * (D).ppf cfg.confidence_level) ∧
    (res).rel_effect_size_ci_upper
      = Bound.fin (tm / cm * P.exp (SEL * (DL).ppf cfg.confidence_level) - 1) := by
  rw [analyze_stats_eq_textbook P H.q cfg H.cl0 H.cl1 _ _ _ _ _ _ H.seSq_nonneg H.seSqLog_nonneg]
  unfold testFromStats
  simp [h]

theorem fields_two_sided (H : Hyp P cfg cm cv cn tm tv tn)
    (hg : cfg.alternative ≠ "greater") (hl : cfg.alternative ≠ "less") :
    (res).pvalue = 2 * (D).sf |(tm - cm) / SE| ∧
    (res).effect_size_ci_lower = Bound.fin (tm - cm - SE * (D).ppf ((1 + cfg.confidence_level) / 2)) ∧
    (res).effect_size_ci_upper = Bound.fin (tm - cm + SE * (D).ppf ((1 + cfg.confidence_level) / 2)) ∧
    (res).rel_effect_size_ci_lower
      = Bound.fin (tm / cm * P.exp (-(SEL * (DL).ppf ((1 + cfg.confidence_level) / 2))) - 1) ∧
    (res).rel_effect_size_ci_upper
      = Bound.fin (tm / cm * P.exp (SEL * (DL).ppf ((1 + cfg.confidence_level) / 2)) - 1) := by
  rw [analyze_stats_eq_textbook P H.q cfg H.cl0 H.cl1 _ _ _ _ _ _ H.seSq_nonneg H.seSqLog_nonneg]
  unfold testFromStats
  simp [hg, hl]

/-- **p-value in [0,1]** for every alternative -/
theorem pvalue_mem_Icc (H : Hyp P cfg cm cv cn tm tv tn) : 0 ≤ (res).pvalue ∧ (res).pvalue ≤ 1 := by
  by_cases hg : cfg.alternative = "greater"
  · rw [(fields_greater H hg).1, H.dist.sf_eq]
    have := H.dist.pos ((tm - cm) / SE); have := H.dist.lt1 ((tm - cm) / SE)
    constructor <;> linarith
  · by_cases hl : cfg.alternative = "less"
    · rw [(fields_less H hl).1]
      have := H.dist.pos ((tm - cm) / SE); have := H.dist.lt1 ((tm - cm) / SE)
      constructor <;> linarith
    · rw [(fields_two_sided H hg hl).1, H.dist.sf_eq]
      have h1 := H.dist.lt1 |(tm - cm) / SE|
      have h2 : (1 : α) / 2 ≤ (D).cdf |(tm - cm) / SE| := by
        rw [← H.dist.cdf_zero]; exact H.dist.mono.monotone (abs_nonneg _)
      constructor <;> linarith

/-- the hypotheses do not depend on the alternative … -/
theorem Hyp.withAlt (H : Hyp P cfg cm cv cn tm tv tn) (a : String) :
    Hyp P { cfg with alternative := a } cm cv cn tm tv tn :=
  ⟨H.q, H.dist, H.distLog, H.seSq_nonneg, H.seSqLog_nonneg, H.se_pos, H.seLog_nonneg, H.exp_mono, H.exp_zero,
    H.exp_pos, H.cl0, H.cl1⟩

/-- … nor on the confidence level -/
theorem Hyp.withLevel (H : Hyp P cfg cm cv cn tm tv tn) (c : α) (h0 : 0 < c) (h1 : c < 1) :
    Hyp P { cfg with confidence_level := c } cm cv cn tm tv tn :=
  ⟨H.q, H.dist, H.distLog, H.seSq_nonneg, H.seSqLog_nonneg, H.se_pos, H.seLog_nonneg, H.exp_mono, H.exp_zero,
    H.exp_pos, h0, h1⟩

/-- **two-sided: the absolute interval contains the point estimate** -/
theorem abs_ci_contains_two_sided (H : Hyp P cfg cm cv cn tm tv tn)
    (hg : cfg.alternative ≠ "greater") (hl : cfg.alternative ≠ "less") :
    Bound.contains (res).effect_size_ci_lower (res).effect_size_ci_upper (res).effect_size := by
  obtain ⟨_, h2, h3, _, _⟩ := fields_two_sided H hg hl
  rw [h2, h3, (effect_eq P cfg cm cv cn tm tv tn).1, (effect_eq P cfg cm cv cn tm tv tn).2.2.1,
    (effect_eq P cfg cm cv cn tm tv tn).2.2.2]
  have hq : 0 ≤ (D).ppf ((1 + cfg.confidence_level) / 2) :=
    H.dist.ppf_nonneg (by have := H.cl0; linarith) (by have := H.cl1; linarith)
  have := mul_nonneg H.se_pos.le hq
  constructor <;> simp only [Bound.lowerLE, Bound.upperGE] <;> linarith

/-- **one-sided, level ≥ 1/2: the absolute interval contains the point estimate** -/
theorem abs_ci_contains_one_sided (H : Hyp P cfg cm cv cn tm tv tn) (hhalf : 1 / 2 ≤ cfg.confidence_level)
    (h : cfg.alternative = "greater" ∨ cfg.alternative = "less") :
    Bound.contains (res).effect_size_ci_lower (res).effect_size_ci_upper (res).effect_size := by
  have hq : 0 ≤ (D).ppf cfg.confidence_level := H.dist.ppf_nonneg hhalf H.cl1
  have := mul_nonneg H.se_pos.le hq
  rw [(effect_eq P cfg cm cv cn tm tv tn).1, (effect_eq P cfg cm cv cn tm tv tn).2.2.1,
    (effect_eq P cfg cm cv cn tm tv tn).2.2.2]
  rcases h with h | h
  · rw [(fields_greater H h).2.1, (ci_unbounded_greater P cfg cm cv cn tm tv tn h).1]
    constructor <;> simp only [Bound.lowerLE, Bound.upperGE]; linarith
  · rw [(fields_less H h).2.1, (ci_unbounded_less P cfg cm cv cn tm tv tn h).1]
    constructor <;> simp only [Bound.lowerLE, Bound.upperGE]; linarith

/-- one-sided with level < 1/2: the bound lies strictly beyond the estimate, so the interval does
NOT contain it — the property's containment clause fails there (finding K1); statistically
correct behaviour of a one-sided bound -/
theorem abs_ci_excludes_point_one_sided_low_level (H : Hyp P cfg cm cv cn tm tv tn)
    (hlow : cfg.confidence_level < 1 / 2) (h : cfg.alternative = "greater") :
    ¬ Bound.contains (res).effect_size_ci_lower (res).effect_size_ci_upper (res).effect_size := by
  have hq : (D).ppf cfg.confidence_level < 0 := by
    rw [H.dist.ppf_lt_iff H.cl0 H.cl1, H.dist.cdf_zero]; exact hlow
  have := mul_neg_of_pos_of_neg H.se_pos hq
  rw [(effect_eq P cfg cm cv cn tm tv tn).1, (effect_eq P cfg cm cv cn tm tv tn).2.2.1,
    (effect_eq P cfg cm cv cn tm tv tn).2.2.2, (fields_greater H h).2.1]
  intro hc
  have := hc.1
  simp only [Bound.lowerLE] at this
  linarith

/-- **relative interval contains the relative effect** for means of equal sign (two-sided) -/
theorem rel_ci_contains_two_sided (H : Hyp P cfg cm cv cn tm tv tn) (hsign : 0 < tm / cm)
    (hg : cfg.alternative ≠ "greater") (hl : cfg.alternative ≠ "less") :
    Bound.contains (res).rel_effect_size_ci_lower (res).rel_effect_size_ci_upper (res).rel_effect_size := by
  obtain ⟨_, _, _, h4, h5⟩ := fields_two_sided H hg hl
  rw [h4, h5, (effect_eq P cfg cm cv cn tm tv tn).2.1, (effect_eq P cfg cm cv cn tm tv tn).2.2.1,
    (effect_eq P cfg cm cv cn tm tv tn).2.2.2]
  have hq : 0 ≤ (DL).ppf ((1 + cfg.confidence_level) / 2) :=
    H.distLog.ppf_nonneg (by have := H.cl0; linarith) (by have := H.cl1; linarith)
  have hx := mul_nonneg H.seLog_nonneg hq
  have e1 : P.exp (-(SEL * (DL).ppf ((1 + cfg.confidence_level) / 2))) ≤ 1 := by
    have := H.exp_mono.monotone (show -(SEL * (DL).ppf ((1 + cfg.confidence_level) / 2)) ≤ 0 by linarith)
    rwa [H.exp_zero] at this
  have e2 : 1 ≤ P.exp (SEL * (DL).ppf ((1 + cfg.confidence_level) / 2)) := by
    have := H.exp_mono.monotone hx
    rwa [H.exp_zero] at this
  constructor <;> simp only [Bound.lowerLE, Bound.upperGE] <;> nlinarith

/-- **duality, `greater`:** p < 1 − level ⇔ the absolute interval excludes zero -/
theorem pvalue_lt_iff_ci_excludes_zero_greater (H : Hyp P cfg cm cv cn tm tv tn)
    (h : cfg.alternative = "greater") :
    (res).pvalue < 1 - cfg.confidence_level ↔
      ¬ Bound.contains (res).effect_size_ci_lower (res).effect_size_ci_upper 0 := by
  rw [(fields_greater H h).1, (fields_greater H h).2.1, (ci_unbounded_greater P cfg cm cv cn tm tv tn h).1]
  simp only [Bound.contains, Bound.lowerLE, Bound.upperGE, and_true, not_le]
  rw [H.dist.sf_eq]
  have e : (1 - (D).cdf ((tm - cm) / SE) < 1 - cfg.confidence_level)
      ↔ cfg.confidence_level < (D).cdf ((tm - cm) / SE) := by constructor <;> intro <;> linarith
  rw [e, ← H.dist.ppf_lt_iff H.cl0 H.cl1, lt_div_iff₀ H.se_pos]
  constructor <;> intro <;> nlinarith

/-- **duality, `less`** -/
theorem pvalue_lt_iff_ci_excludes_zero_less (H : Hyp P cfg cm cv cn tm tv tn)
    (h : cfg.alternative = "less") :
    (res).pvalue < 1 - cfg.confidence_level ↔
      ¬ Bound.contains (res).effect_size_ci_lower (res).effect_size_ci_upper 0 := by
  rw [(fields_less H h).1, (fields_less H h).2.1, (ci_unbounded_less P cfg cm cv cn tm tv tn h).1]
  simp only [Bound.contains, Bound.lowerLE, Bound.upperGE, true_and, not_le]
  rw [← H.dist.lt_ppf_iff (by have := H.cl1; linarith) (by have := H.cl0; linarith),
    H.dist.ppf_neg H.cl0 H.cl1, div_lt_iff₀ H.se_pos]
  constructor <;> intro <;> nlinarith

/-- **duality, two-sided** -/
theorem pvalue_lt_iff_ci_excludes_zero_two_sided (H : Hyp P cfg cm cv cn tm tv tn)
    (hg : cfg.alternative ≠ "greater") (hl : cfg.alternative ≠ "less") :
    (res).pvalue < 1 - cfg.confidence_level ↔
      ¬ Bound.contains (res).effect_size_ci_lower (res).effect_size_ci_upper 0 := by
  obtain ⟨h1, h2, h3, _, _⟩ := fields_two_sided H hg hl
  rw [h1, h2, h3]
  simp only [Bound.contains, Bound.lowerLE, Bound.upperGE, not_and_or, not_le]
  have hc0 := H.cl0; have hc1 := H.cl1
  have q0 : 0 < (1 + cfg.confidence_level) / 2 := by linarith
  have q1 : (1 + cfg.confidence_level) / 2 < 1 := by linarith
  rw [H.dist.sf_eq]
  have e : (2 * (1 - (D).cdf |(tm - cm) / SE|) < 1 - cfg.confidence_level)
      ↔ (1 + cfg.confidence_level) / 2 < (D).cdf |(tm - cm) / SE| := by
    constructor <;> intro <;> linarith
  rw [e, ← H.dist.ppf_lt_iff q0 q1, abs_div, abs_of_pos H.se_pos, lt_div_iff₀ H.se_pos, lt_abs]
  constructor
  · rintro (h | h)
    · left; nlinarith
    · right; nlinarith
  · rintro (h | h)
    · left; nlinarith
    · right; nlinarith

/-- **the `greater` and `less` p-values of the same data sum to one** -/
theorem pvalue_greater_add_less (H : Hyp P cfg cm cv cn tm tv tn) :
    (RatioOfMeans.analyze_stats P { cfg with alternative := "greater" } cm cv cn tm tv tn).pvalue
      + (RatioOfMeans.analyze_stats P { cfg with alternative := "less" } cm cv cn tm tv tn).pvalue = 1 := by
  rw [(fields_greater (H.withAlt "greater") rfl).1, (fields_less (H.withAlt "less") rfl).1]
  have := H.dist.sf_eq ((tm - cm) / SE)
  show (D).sf ((tm - cm) / SE) + (D).cdf ((tm - cm) / SE) = 1
  linarith

/-- **the two-sided p-value is twice the smaller one-sided p-value** -/
theorem pvalue_two_sided_eq (H : Hyp P cfg cm cv cn tm tv tn) :
    (RatioOfMeans.analyze_stats P { cfg with alternative := "two-sided" } cm cv cn tm tv tn).pvalue
      = 2 * min
          (RatioOfMeans.analyze_stats P { cfg with alternative := "greater" } cm cv cn tm tv tn).pvalue
          (RatioOfMeans.analyze_stats P { cfg with alternative := "less" } cm cv cn tm tv tn).pvalue := by
  rw [(fields_greater (H.withAlt "greater") rfl).1, (fields_less (H.withAlt "less") rfl).1,
    (fields_two_sided (H.withAlt "two-sided") (show ("two-sided" : String) ≠ "greater" by decide)
      (show ("two-sided" : String) ≠ "less" by decide)).1]
  show 2 * (D).sf |(tm - cm) / SE| = 2 * min ((D).sf ((tm - cm) / SE)) ((D).cdf ((tm - cm) / SE))
  congr 1
  have hsf := H.dist.sf_eq
  have hz := H.dist.cdf_zero
  rcases le_or_gt 0 ((tm - cm) / SE) with hs | hs
  · rw [abs_of_nonneg hs]
    have : (1 : α) / 2 ≤ (D).cdf ((tm - cm) / SE) := by rw [← hz]; exact H.dist.mono.monotone hs
    rw [min_eq_left]; rw [hsf]; linarith
  · rw [abs_of_neg hs, H.dist.sf_neg]
    have : (D).cdf ((tm - cm) / SE) < 1 / 2 := by rw [← hz]; exact H.dist.mono hs
    rw [min_eq_right]; rw [hsf]; linarith

/-- **nesting, two-sided absolute interval:** a higher level contains the lower-level interval -/
theorem ci_nested_two_sided (H : Hyp P cfg cm cv cn tm tv tn) (c₁ c₂ : α)
    (h0 : 0 < c₁) (h12 : c₁ ≤ c₂) (h1 : c₂ < 1)
    (hg : cfg.alternative ≠ "greater") (hl : cfg.alternative ≠ "less") (lo hi x : α)
    (hlo : (RatioOfMeans.analyze_stats P { cfg with confidence_level := c₁ } cm cv cn tm tv tn).effect_size_ci_lower
      = Bound.fin lo)
    (hhi : (RatioOfMeans.analyze_stats P { cfg with confidence_level := c₁ } cm cv cn tm tv tn).effect_size_ci_upper
      = Bound.fin hi)
    (hx : lo ≤ x ∧ x ≤ hi) :
    Bound.contains
      (RatioOfMeans.analyze_stats P { cfg with confidence_level := c₂ } cm cv cn tm tv tn).effect_size_ci_lower
      (RatioOfMeans.analyze_stats P { cfg with confidence_level := c₂ } cm cv cn tm tv tn).effect_size_ci_upper x := by
  have H1 := H.withLevel c₁ h0 (lt_of_le_of_lt h12 h1)
  have H2 := H.withLevel c₂ (lt_of_lt_of_le h0 h12) h1
  obtain ⟨_, a2, a3, _, _⟩ := fields_two_sided H1 hg hl
  obtain ⟨_, b2, b3, _, _⟩ := fields_two_sided H2 hg hl
  rw [a2] at hlo; rw [a3] at hhi
  rw [b2, b3]
  have hlo' := Bound.fin.inj hlo
  have hhi' := Bound.fin.inj hhi
  have hm : (D).ppf ((1 + c₁) / 2) ≤ (D).ppf ((1 + c₂) / 2) :=
    H.dist.ppf_mono (by linarith) (by linarith) (by linarith) (by linarith) (by linarith)
  have := mul_le_mul_of_nonneg_left hm H.se_pos.le
  simp only [Bound.contains, Bound.lowerLE, Bound.upperGE]
  change tm - cm - SE * (D).ppf ((1 + c₁) / 2) = lo at hlo'
  change tm - cm + SE * (D).ppf ((1 + c₁) / 2) = hi at hhi'
  constructor
  · show tm - cm - SE * (D).ppf ((1 + c₂) / 2) ≤ x
    linarith [hx.1]
  · show x ≤ tm - cm + SE * (D).ppf ((1 + c₂) / 2)
    linarith [hx.2]

/-- **nesting, one-sided (`greater`) absolute interval** -/
theorem ci_nested_greater (H : Hyp P cfg cm cv cn tm tv tn) (c₁ c₂ : α)
    (h0 : 0 < c₁) (h12 : c₁ ≤ c₂) (h1 : c₂ < 1) (h : cfg.alternative = "greater") (lo x : α)
    (hlo : (RatioOfMeans.analyze_stats P { cfg with confidence_level := c₁ } cm cv cn tm tv tn).effect_size_ci_lower
      = Bound.fin lo)
    (hx : lo ≤ x) :
    Bound.contains
      (RatioOfMeans.analyze_stats P { cfg with confidence_level := c₂ } cm cv cn tm tv tn).effect_size_ci_lower
      (RatioOfMeans.analyze_stats P { cfg with confidence_level := c₂ } cm cv cn tm tv tn).effect_size_ci_upper x := by
  have H1 := H.withLevel c₁ h0 (lt_of_le_of_lt h12 h1)
  have H2 := H.withLevel c₂ (lt_of_lt_of_le h0 h12) h1
  have a2 := (fields_greater H1 h).2.1
  have b2 := (fields_greater H2 h).2.1
  have b3 := (ci_unbounded_greater P { cfg with confidence_level := c₂ } cm cv cn tm tv tn h).1
  rw [a2] at hlo
  rw [b2, b3]
  have hlo' := Bound.fin.inj hlo
  have hm : (D).ppf c₁ ≤ (D).ppf c₂ :=
    H.dist.ppf_mono h0 (lt_of_le_of_lt h12 h1) (lt_of_lt_of_le h0 h12) h1 h12
  have := mul_le_mul_of_nonneg_left hm H.se_pos.le
  change tm - cm - SE * (D).ppf c₁ = lo at hlo'
  simp only [Bound.contains, Bound.lowerLE, Bound.upperGE, and_true]
  show tm - cm - SE * (D).ppf c₂ ≤ x
  linarith

/-- **nesting, one-sided (`less`) absolute interval** -/
theorem ci_nested_less (H : Hyp P cfg cm cv cn tm tv tn) (c₁ c₂ : α)
    (h0 : 0 < c₁) (h12 : c₁ ≤ c₂) (h1 : c₂ < 1) (h : cfg.alternative = "less") (hi x : α)
    (hhi : (RatioOfMeans.analyze_stats P { cfg with confidence_level := c₁ } cm cv cn tm tv tn).effect_size_ci_upper
      = Bound.fin hi)
    (hx : x ≤ hi) :
    Bound.contains
      (RatioOfMeans.analyze_stats P { cfg with confidence_level := c₂ } cm cv cn tm tv tn).effect_size_ci_lower
      (RatioOfMeans.analyze_stats P { cfg with confidence_level := c₂ } cm cv cn tm tv tn).effect_size_ci_upper x := by
  have H1 := H.withLevel c₁ h0 (lt_of_le_of_lt h12 h1)
  have H2 := H.withLevel c₂ (lt_of_lt_of_le h0 h12) h1
  have a2 := (fields_less H1 h).2.1
  have b2 := (fields_less H2 h).2.1
  have b3 := (ci_unbounded_less P { cfg with confidence_level := c₂ } cm cv cn tm tv tn h).1
  rw [a2] at hhi
  rw [b2, b3]
  have hhi' := Bound.fin.inj hhi
  have hm : (D).ppf c₁ ≤ (D).ppf c₂ :=
    H.dist.ppf_mono h0 (lt_of_le_of_lt h12 h1) (lt_of_lt_of_le h0 h12) h1 h12
  have := mul_le_mul_of_nonneg_left hm H.se_pos.le
  change tm - cm + SE * (D).ppf c₁ = hi at hhi'
  simp only [Bound.contains, Bound.lowerLE, Bound.upperGE, true_and]
  show x ≤ tm - cm + SE * (D).ppf c₂
  linarith

/-- **nesting, two-sided relative interval** (means of equal sign): a higher level contains the lower-level
interval of the relative effect -/
theorem rel_ci_nested_two_sided (H : Hyp P cfg cm cv cn tm tv tn) (hsign : 0 < tm / cm) (c₁ c₂ : α)
    (h0 : 0 < c₁) (h12 : c₁ ≤ c₂) (h1 : c₂ < 1)
    (hg : cfg.alternative ≠ "greater") (hl : cfg.alternative ≠ "less") (lo hi x : α)
    (hlo : (RatioOfMeans.analyze_stats P { cfg with confidence_level := c₁ } cm cv cn tm tv tn).rel_effect_size_ci_lower
      = Bound.fin lo)
    (hhi : (RatioOfMeans.analyze_stats P { cfg with confidence_level := c₁ } cm cv cn tm tv tn).rel_effect_size_ci_upper
      = Bound.fin hi)
    (hx : lo ≤ x ∧ x ≤ hi) :
    Bound.contains
      (RatioOfMeans.analyze_stats P { cfg with confidence_level := c₂ } cm cv cn tm tv tn).rel_effect_size_ci_lower
      (RatioOfMeans.analyze_stats P { cfg with confidence_level := c₂ } cm cv cn tm tv tn).rel_effect_size_ci_upper x := by
  have H1 := H.withLevel c₁ h0 (lt_of_le_of_lt h12 h1)
  have H2 := H.withLevel c₂ (lt_of_lt_of_le h0 h12) h1
  obtain ⟨_, _, _, a4, a5⟩ := fields_two_sided H1 hg hl
  obtain ⟨_, _, _, b4, b5⟩ := fields_two_sided H2 hg hl
  rw [a4] at hlo; rw [a5] at hhi
  rw [b4, b5]
  have hlo' := Bound.fin.inj hlo
  have hhi' := Bound.fin.inj hhi
  have hm : (DL).ppf ((1 + c₁) / 2) ≤ (DL).ppf ((1 + c₂) / 2) :=
    H.distLog.ppf_mono (by linarith) (by linarith) (by linarith) (by linarith) (by linarith)
  have hmul := mul_le_mul_of_nonneg_left hm H.seLog_nonneg
  have hup : P.exp (SEL * (DL).ppf ((1 + c₁) / 2)) ≤ P.exp (SEL * (DL).ppf ((1 + c₂) / 2)) :=
    H.exp_mono.monotone hmul
  have hdown : P.exp (-(SEL * (DL).ppf ((1 + c₂) / 2))) ≤ P.exp (-(SEL * (DL).ppf ((1 + c₁) / 2))) :=
    H.exp_mono.monotone (by linarith)
  simp only [Bound.contains, Bound.lowerLE, Bound.upperGE]
  change tm / cm * P.exp (-(SEL * (DL).ppf ((1 + c₁) / 2))) - 1 = lo at hlo'
  change tm / cm * P.exp (SEL * (DL).ppf ((1 + c₁) / 2)) - 1 = hi at hhi'
  have e1 := mul_le_mul_of_nonneg_left hdown hsign.le
  have e2 := mul_le_mul_of_nonneg_left hup hsign.le
  constructor
  · show tm / cm * P.exp (-(SEL * (DL).ppf ((1 + c₂) / 2))) - 1 ≤ x
    linarith [hx.1]
  · show x ≤ tm / cm * P.exp (SEL * (DL).ppf ((1 + c₂) / 2)) - 1
    linarith [hx.2]

end

/-! ## The hypotheses are met by every valid input, given the laws of the primitives -/

theorem seSq_pos (o : Opts α) {v1 n1 v2 n2 : α} (hv1 : 0 < v1) (hv2 : 0 < v2) (hn1 : 2 ≤ n1) (hn2 : 2 ≤ n2) :
    0 < seSq o v1 n1 v2 n2 := by
  have a1 : 0 < n1 := by linarith
  have a2 : 0 < n2 := by linarith
  have b1 : 0 < n1 - 1 := by linarith
  have b2 : 0 < n2 - 1 := by linarith
  have b3 : 0 < n1 + n2 - 2 := by linarith
  unfold seSq pooledVar
  split_ifs <;> positivity

theorem degF_pos (o : Opts α) {v1 n1 v2 n2 : α} (hv1 : 0 < v1) (hv2 : 0 < v2) (hn1 : 2 ≤ n1) (hn2 : 2 ≤ n2) :
    0 < degF o v1 n1 v2 n2 := by
  have a1 : 0 < n1 := by linarith
  have a2 : 0 < n2 := by linarith
  have b1 : 0 < n1 - 1 := by linarith
  have b2 : 0 < n2 - 1 := by linarith
  unfold degF welchDf
  split_ifs
  · linarith
  · positivity

theorem refDist_laws {P : Prims α} (hP : P.Laws) (o : Opts α) {v1 n1 v2 n2 : α}
    (hv1 : 0 < v1) (hv2 : 0 < v2) (hn1 : 2 ≤ n1) (hn2 : 2 ≤ n2) : (refDist P o v1 n1 v2 n2).Laws := by
  unfold refDist
  split_ifs
  · exact hP.t_laws _ (degF_pos o hv1 hv2 hn1 hn2)
  · exact hP.norm_laws

/-- for all valid aggregated statistics (counts ≥ 2, positive variances, non-zero means) and every
option cell, the hypotheses of the coherence theorems follow from the laws of the primitives -/
theorem Hyp.of_laws {P : Prims α} (hP : P.Laws) (hq : P.QuantileLaws) (cfg : RatioCfg α)
    {cm cv cn tm tv tn : α} (hcv : 0 < cv) (htv : 0 < tv) (hcn : 2 ≤ cn) (htn : 2 ≤ tn)
    (hcm : cm ≠ 0) (htm : tm ≠ 0) (h0 : 0 < cfg.confidence_level) (h1 : cfg.confidence_level < 1) :
    Hyp P cfg cm cv cn tm tv tn := by
  have w1 : 0 < cv / cm ^ 2 := by positivity
  have w2 : 0 < tv / tm ^ 2 := by positivity
  exact ⟨hq, refDist_laws hP _ hcv htv hcn htn, refDist_laws hP _ w1 w2 hcn htn,
    (seSq_pos _ hcv htv hcn htn).le, (seSq_pos _ w1 w2 hcn htn).le,
    hP.sqrt_pos (seSq_pos _ hcv htv hcn htn), hP.sqrt_nonneg _ (seSq_pos _ w1 w2 hcn htn).le,
    hP.exp_mono, hP.exp_zero, hP.exp_pos, h0, h1⟩

end C07
