import TeaTasting.Props.C14
import TeaTasting.Lemmas.Characterise
import TeaTasting.Lemmas.Linear
import TeaTasting.Lemmas.Nonneg

/-! # C06 — CUPED/CUPAC equals regression adjustment with the pooled coefficient

Statements are about the GENERATED `Gen.RatioOfMeans.analyze_aggregates` (metrics/mean.py) applied
to the aggregates of raw data, against `Spec.cupedTest`: the textbook two-sample test of the
adjusted observations `Y − θ·(X − mean_pooled X)`. -/

open Spec Gen

set_option linter.unusedSectionVars false

variable {α ρ : Type} [Field α] [LinearOrder α] [IsStrictOrderedRing α]

/-- the column roles of a metric object -/
def rolesOf (cfg : RatioCfg α) : Roles :=
  { numer := cfg.numer, denom := cfg.denom, numer_covariate := cfg.numer_covariate,
    denom_covariate := cfg.denom_covariate }

/-- a group of rows the property quantifies over: at least two rows, non-zero denominator means -/
structure ValidGroup (R : Roles) (col : String → ρ → α) (T : List ρ) : Prop where
  two : 2 ≤ T.length
  denom : S T (colO col R.denom) ≠ 0
  cdenom : S T (colO col R.denom_covariate) ≠ 0

namespace C06

theorem covariate_cov_aggrOf (cfg : RatioCfg α) (col : String → ρ → α) (T : List ρ)
    (h : ValidGroup (rolesOf cfg) col T) :
    RatioOfMeans.covariate_cov cfg (aggrOf T col)
      = scov T (linY (rolesOf cfg) col T) (linX (rolesOf cfg) col T) := by
  exact C14.ratio_cov_eq_scov_linearised T col (some cfg.numer) cfg.denom cfg.numer_covariate
    cfg.denom_covariate h.two h.denom h.cdenom

theorem covariate_var_aggrOf (cfg : RatioCfg α) (col : String → ρ → α) (T : List ρ)
    (h : ValidGroup (rolesOf cfg) col T) :
    Aggr.ratio_var (aggrOf T col) cfg.numer_covariate cfg.denom_covariate
      = svar T (linX (rolesOf cfg) col T) := by
  exact C14.ratio_var_eq_svar_linearised T col cfg.numer_covariate cfg.denom_covariate h.two h.cdenom

theorem metric_var_aggrOf (cfg : RatioCfg α) (col : String → ρ → α) (T : List ρ)
    (h : ValidGroup (rolesOf cfg) col T) :
    Aggr.ratio_var (aggrOf T col) (some cfg.numer) cfg.denom = svar T (linY (rolesOf cfg) col T) := by
  exact C14.ratio_var_eq_svar_linearised T col (some cfg.numer) cfg.denom h.two h.denom

/-- the coefficient the code uses is `cov(LY, LX)/var(LX)` on control and treatment POOLED,
linearisations taken at the pooled means -/
theorem theta_eq_pooled (cfg : RatioCfg α) (col : String → ρ → α) (Tc Tt : List ρ)
    (hc : 2 ≤ Tc.length) (ht : 2 ≤ Tt.length) (hT : ValidGroup (rolesOf cfg) col (Tc ++ Tt)) :
    RatioOfMeans.covariate_coef cfg (aggrOf Tc col + aggrOf Tt col) = theta (rolesOf cfg) col Tc Tt := by
  rw [← C14.aggrOf_append Tc Tt col hc ht]
  unfold RatioOfMeans.covariate_coef theta thetaOf
  simp only [covariate_cov_aggrOf cfg col _ hT, covariate_var_aggrOf cfg col _ hT]

theorem covMean_eq_pooled (cfg : RatioCfg α) (col : String → ρ → α) (Tc Tt : List ρ)
    (hc : 2 ≤ Tc.length) (ht : 2 ≤ Tt.length) :
    Aggr.mean (aggrOf Tc col + aggrOf Tt col) cfg.numer_covariate
        / Aggr.mean (aggrOf Tc col + aggrOf Tt col) cfg.denom_covariate
      = covMean (rolesOf cfg) col Tc Tt := by
  rw [← C14.aggrOf_append Tc Tt col hc ht]
  have n0 : ((Tc ++ Tt).length : α) ≠ 0 := natCast_ne_zero_of_pos (by simp; omega)
  rw [aggrOf_mean _ _ _ n0, aggrOf_mean _ _ _ n0]
  rfl

/-- the reported mean of a variant is the sample mean of its adjusted observations -/
theorem metric_mean_eq (cfg : RatioCfg α) (col : String → ρ → α) (T : List ρ) (θ μ : α)
    (h : ValidGroup (rolesOf cfg) col T) :
    RatioOfMeans.metric_mean cfg (aggrOf T col) θ μ
      = smean T (fun r => linY (rolesOf cfg) col T r - θ * (linX (rolesOf cfg) col T r - μ)) := by
  have n0 : (T.length : α) ≠ 0 := natCast_ne_zero_of_pos (by have := h.two; omega)
  rw [smean_adj _ _ _ _ _ n0]
  unfold linY linX
  rw [smean_lin _ _ _ n0 h.denom, smean_lin _ _ _ n0 h.cdenom]
  unfold RatioOfMeans.metric_mean
  simp only [aggrOf_mean _ _ _ n0]
  rfl

/-- the variance behind the test is the sample variance of the adjusted observations -/
theorem metric_var_eq (cfg : RatioCfg α) (col : String → ρ → α) (T : List ρ) (θ μ : α)
    (h : ValidGroup (rolesOf cfg) col T) :
    RatioOfMeans.metric_var cfg (aggrOf T col) θ
      = svar T (fun r => linY (rolesOf cfg) col T r - θ * (linX (rolesOf cfg) col T r - μ)) := by
  have n0 : (T.length : α) ≠ 0 := natCast_ne_zero_of_pos (by have := h.two; omega)
  rw [svar_adj _ _ _ _ _ n0]
  unfold RatioOfMeans.metric_var
  simp only [covariate_cov_aggrOf cfg col _ h, covariate_var_aggrOf cfg col _ h, metric_var_aggrOf cfg col _ h]

/-- **C06, main statement.**  For every data set (≥ 2 rows per variant, non-zero denominator
means), every metric (Mean / RatioOfMeans, any covariate roles) and every option cell, the
analysis computed from aggregates equals the textbook test of the regression-adjusted
observations with the pooled coefficient. -/
theorem cuped_analyze_eq_textbook (P : Prims α) (hP : P.QuantileLaws) (cfg : RatioCfg α)
    (hc0 : 0 < cfg.confidence_level) (hc1 : cfg.confidence_level < 1)
    (col : String → ρ → α) (Tc Tt : List ρ)
    (hc : ValidGroup (rolesOf cfg) col Tc) (ht : ValidGroup (rolesOf cfg) col Tt)
    (hT : ValidGroup (rolesOf cfg) col (Tc ++ Tt)) :
    RatioOfMeans.analyze_aggregates P cfg (aggrOf Tc col) (aggrOf Tt col)
      = cupedTest P (optsOf cfg) (rolesOf cfg) col Tc Tt := by
  rw [analyze_aggregates_eq]
  rw [theta_eq_pooled cfg col Tc Tt hc.two ht.two hT, covMean_eq_pooled cfg col Tc Tt hc.two ht.two]
  rw [metric_mean_eq cfg col Tc _ _ hc, metric_mean_eq cfg col Tt _ _ ht,
    metric_var_eq cfg col Tc _ (covMean (rolesOf cfg) col Tc Tt) hc,
    metric_var_eq cfg col Tt _ (covMean (rolesOf cfg) col Tc Tt) ht]
  have v1 := svar_nonneg Tc (fun r => linY (rolesOf cfg) col Tc r
    - theta (rolesOf cfg) col Tc Tt * (linX (rolesOf cfg) col Tc r - covMean (rolesOf cfg) col Tc Tt)) hc.two
  have v2 := svar_nonneg Tt (fun r => linY (rolesOf cfg) col Tt r
    - theta (rolesOf cfg) col Tc Tt * (linX (rolesOf cfg) col Tt r - covMean (rolesOf cfg) col Tc Tt)) ht.two
  have n1 : (2 : α) ≤ Aggr.count (aggrOf Tc col) := natCast_two_le hc.two
  have n2 : (2 : α) ≤ Aggr.count (aggrOf Tt col) := natCast_two_le ht.two
  rw [analyze_stats_eq_textbook P hP cfg hc0 hc1 _ _ _ _ _ _ (seSq_nonneg _ v1 v2 n1 n2)
    (seSq_nonneg _ (by positivity) (by positivity) n1 n2)]
  rfl

/-! ## Consequences named by the property -/

theorem adjusted_eq_adjustedOf (R : Roles) (col : String → ρ → α) (Tc Tt T : List ρ) :
    adjusted R col Tc Tt T
      = adjustedOf (Tc ++ Tt) (linY R col (Tc ++ Tt)) (linX R col (Tc ++ Tt)) (linY R col T) (linX R col T)
          (covMean R col Tc Tt) := rfl

@[simp] theorem colAffine_self (col : String → ρ → α) (x : String) (a b : α) :
    colAffine col x a b x = fun r => a * col x r + b := by
  unfold colAffine; simp

theorem colAffine_other (col : String → ρ → α) (x y : String) (a b : α) (h : y ≠ x) :
    colAffine col x a b y = col y := by
  unfold colAffine; simp [h]

/-- **For `Mean`: replacing the covariate `X` by `a·X + b` (`a ≠ 0`) changes nothing.** -/
theorem cuped_affine_invariant (P : Prims α) (o : Opts α) (col : String → ρ → α) (Tc Tt : List ρ)
    (y x : String) (hyx : y ≠ x) (a b : α) (ha : a ≠ 0)
    (hc : 1 ≤ Tc.length) (ht : 1 ≤ Tt.length) :
    cupedTest P o ⟨y, none, some x, none⟩ (colAffine col x a b) Tc Tt
      = cupedTest P o ⟨y, none, some x, none⟩ col Tc Tt := by
  have nc : (Tc.length : α) ≠ 0 := natCast_ne_zero_of_pos hc
  have nt : (Tt.length : α) ≠ 0 := natCast_ne_zero_of_pos ht
  have nT : ((Tc ++ Tt).length : α) ≠ 0 := natCast_ne_zero_of_pos (by simp; omega)
  have hY : ∀ T : List ρ, linY ⟨y, none, some x, none⟩ (colAffine col x a b) T
      = linY ⟨y, none, some x, none⟩ col T := by
    intro T; simp only [linY, colO, colAffine_other col x y a b hyx]
  have hX : ∀ T : List ρ, (T.length : α) ≠ 0 →
      linX ⟨y, none, some x, none⟩ (colAffine col x a b) T
        = fun r => a * linX ⟨y, none, some x, none⟩ col T r + b := by
    intro T hT
    simp only [linX, colO, colAffine_self, lin_one _ _ hT]
  have hμ : covMean ⟨y, none, some x, none⟩ (colAffine col x a b) Tc Tt
      = a * covMean ⟨y, none, some x, none⟩ col Tc Tt + b := by
    simp only [covMean, colO, colAffine_self, smean_one _ nT, smean_affine _ _ _ _ nT, div_one]
  unfold cupedTest
  simp only [adjusted_eq_adjustedOf, hY, hX _ nc, hX _ nt, hX _ nT, hμ,
    adjustedOf_affine _ _ _ _ _ _ _ _ ha nT]

theorem colO_colAffine_other (col : String → ρ → α) (x : String) (a b : α) (o : Option String)
    (h : o ≠ some x) : colO (colAffine col x a b) o = colO col o := by
  cases o with
  | none => rfl
  | some w =>
    have : w ≠ x := fun e => h (by rw [e])
    simp only [colO, colAffine_other col x w a b this]

theorem colO_colAffine_self (col : String → ρ → α) (x : String) (a b : α) :
    colO (colAffine col x a b) (some x) = fun r => a * colO col (some x) r + b := by
  simp only [colO, colAffine_self]

/-- **Rescaling a covariate numerator column by `c ≠ 0` changes nothing, for every metric.** -/
theorem cuped_covariate_numer_rescale_invariant (P : Prims α) (o : Opts α) (R : Roles)
    (col : String → ρ → α) (Tc Tt : List ρ) (x : String) (c : α) (hc0 : c ≠ 0)
    (hx : R.numer_covariate = some x) (h1 : R.numer ≠ x) (h2 : R.denom ≠ some x)
    (h3 : R.denom_covariate ≠ some x) (hc : 1 ≤ Tc.length) (ht : 1 ≤ Tt.length) :
    cupedTest P o R (colAffine col x c 0) Tc Tt = cupedTest P o R col Tc Tt := by
  have nc : (Tc.length : α) ≠ 0 := natCast_ne_zero_of_pos hc
  have nt : (Tt.length : α) ≠ 0 := natCast_ne_zero_of_pos ht
  have nT : ((Tc ++ Tt).length : α) ≠ 0 := natCast_ne_zero_of_pos (by simp; omega)
  have hY : ∀ T : List ρ, linY R (colAffine col x c 0) T = linY R col T := by
    intro T
    simp only [linY, colO_colAffine_other col x c 0 _ h2, colAffine_other col x _ c 0 h1]
  have hX : ∀ T : List ρ, (T.length : α) ≠ 0 →
      linX R (colAffine col x c 0) T = fun r => c * linX R col T r + 0 := by
    intro T hT
    simp only [linX, hx, colO_colAffine_self, colO_colAffine_other col x c 0 _ h3,
      lin_scale_numer _ _ _ _ hT]
  have hμ : covMean R (colAffine col x c 0) Tc Tt = c * covMean R col Tc Tt + 0 := by
    simp only [covMean, hx, colO_colAffine_self, colO_colAffine_other col x c 0 _ h3,
      smean_affine _ _ _ _ nT]
    ring
  unfold cupedTest
  simp only [adjusted_eq_adjustedOf, hY, hX _ nc, hX _ nt, hX _ nT, hμ,
    adjustedOf_affine _ _ _ _ _ _ _ _ hc0 nT]

/-- **Rescaling a covariate denominator column by `c ≠ 0` changes nothing, for every metric.** -/
theorem cuped_covariate_denom_rescale_invariant (P : Prims α) (o : Opts α) (R : Roles)
    (col : String → ρ → α) (Tc Tt : List ρ) (z : String) (c : α) (hc0 : c ≠ 0)
    (hz : R.denom_covariate = some z) (h1 : R.numer ≠ z) (h2 : R.denom ≠ some z)
    (h3 : R.numer_covariate ≠ some z) (hc : 1 ≤ Tc.length) (ht : 1 ≤ Tt.length) :
    cupedTest P o R (colAffine col z c 0) Tc Tt = cupedTest P o R col Tc Tt := by
  have nc : (Tc.length : α) ≠ 0 := natCast_ne_zero_of_pos hc
  have nt : (Tt.length : α) ≠ 0 := natCast_ne_zero_of_pos ht
  have nT : ((Tc ++ Tt).length : α) ≠ 0 := natCast_ne_zero_of_pos (by simp; omega)
  have hY : ∀ T : List ρ, linY R (colAffine col z c 0) T = linY R col T := by
    intro T
    simp only [linY, colO_colAffine_other col z c 0 _ h2, colAffine_other col z _ c 0 h1]
  have hX : ∀ T : List ρ, (T.length : α) ≠ 0 →
      linX R (colAffine col z c 0) T = fun r => c⁻¹ * linX R col T r + 0 := by
    intro T hT
    simp only [linX, hz, colO_colAffine_self, colO_colAffine_other col z c 0 _ h3,
      lin_scale_denom _ _ _ _ hc0 hT]
  have hμ : covMean R (colAffine col z c 0) Tc Tt = c⁻¹ * covMean R col Tc Tt + 0 := by
    simp only [covMean, hz, colO_colAffine_self, colO_colAffine_other col z c 0 _ h3,
      smean_affine _ _ _ _ nT]
    by_cases hb : smean (Tc ++ Tt) (colO col (some z)) = 0
    · simp [hb]
    · field_simp
      ring
  unfold cupedTest
  simp only [adjusted_eq_adjustedOf, hY, hX _ nc, hX _ nt, hX _ nT, hμ,
    adjustedOf_affine _ _ _ _ _ _ _ _ (inv_ne_zero hc0) nT]

/-- **A covariate with zero variance leaves the unadjusted result** (every field, every metric) -/
theorem cuped_zero_variance_noop (P : Prims α) (o : Opts α) (R : Roles)
    (col : String → ρ → α) (Tc Tt : List ρ) (hc : 1 ≤ Tc.length)
    (h0 : svar (Tc ++ Tt) (linX R col (Tc ++ Tt)) = 0) :
    cupedTest P o R col Tc Tt = cupedTest P o ⟨R.numer, R.denom, none, none⟩ col Tc Tt := by
  have nT : ((Tc ++ Tt).length : α) ≠ 0 := natCast_ne_zero_of_pos (by simp; omega)
  have th : theta R col Tc Tt = 0 := by unfold theta thetaOf; simp [h0]
  have th0 : theta ⟨R.numer, R.denom, none, none⟩ col Tc Tt = 0 := by
    unfold theta thetaOf
    have : svar (Tc ++ Tt) (linX ⟨R.numer, R.denom, none, none⟩ col (Tc ++ Tt)) = 0 := by
      simp only [linX, colO, lin_one _ _ nT, svar, scov_const_left _ _ _ nT]
    simp [this]
  unfold cupedTest adjusted
  simp only [th, th0, zero_mul, sub_zero]
  rfl

/-- **For `Mean`: the observation-weighted average of the adjusted control and treatment means
equals the unadjusted pooled mean.** -/
theorem cuped_mean_preserved (col : String → ρ → α) (Tc Tt : List ρ) (y : String) (xo : Option String)
    (hc : 1 ≤ Tc.length) (ht : 1 ≤ Tt.length) :
    ((Tc.length : α) * smean Tc (adjusted ⟨y, none, xo, none⟩ col Tc Tt Tc)
        + (Tt.length : α) * smean Tt (adjusted ⟨y, none, xo, none⟩ col Tc Tt Tt))
        / ((Tc.length : α) + (Tt.length : α))
      = smean (Tc ++ Tt) (col y) := by
  have nc : (Tc.length : α) ≠ 0 := natCast_ne_zero_of_pos hc
  have nt : (Tt.length : α) ≠ 0 := natCast_ne_zero_of_pos ht
  have nT : (Tc.length : α) + (Tt.length : α) ≠ 0 := by
    have : ((Tc.length + Tt.length : ℕ) : α) ≠ 0 := natCast_ne_zero_of_pos (by omega)
    simpa using this
  have nT' : ((Tc ++ Tt).length : α) ≠ 0 := by simpa using nT
  unfold adjusted
  rw [smean_adj _ _ _ _ _ nc, smean_adj _ _ _ _ _ nt]
  simp only [linY, linX, covMean, colO, lin_one _ _ nc, lin_one _ _ nt, smean_one _ nT', div_one]
  unfold smean
  simp only [S_append, List.length_append, Nat.cast_add]
  field_simp
  ring

end C06
