import TeaTasting.Model.Family
import Mathlib.Data.List.Perm.Lattice

/-! # C10, continued — the family is exactly the selected hypotheses across all experiments

"… applied to exactly the selected hypotheses across all experiments" and "the outcome does not
depend on the order of experiments or metrics": theorems over `Model/Family.lean`
(`_copy_results` and the write-back). Together with `Props/C10Order.lean` (equal p-values get equal
outputs under any permutation of the family) they give order independence at the level of
`adjust_fdr` / `adjust_fwer`. -/

namespace C10

open Family

variable {ε μ β γ : Type} [DecidableEq μ]

/-- **the family is exactly the selected metrics of all experiments** -/
theorem mem_family (sel : Option (List μ)) (exps : List (ε × List (μ × β))) (x : μ × β) :
    x ∈ family sel exps ↔ ∃ e ∈ exps, x ∈ e.2 ∧ isSelected sel x.1 = true := by
  simp only [family, selected, List.mem_flatMap, List.mem_filter]

/-- no selection: every metric of every experiment -/
theorem family_none (exps : List (ε × List (μ × β))) : family none exps = exps.flatMap (·.2) := by
  have : (selected none : ε × List (μ × β) → List (μ × β)) = (·.2) := by
    funext e; simp [selected, isSelected]
  simp only [family, this]

/-- **the family size `m`** is the number of selected metric results over all experiments -/
theorem family_length (sel : Option (List μ)) (exps : List (ε × List (μ × β))) :
    (family sel exps).length = (exps.map (fun e => (selected sel e).length)).sum := by
  simp [family, List.length_flatMap]

/-- a selection given as one name selects exactly that name -/
theorem selected_single (n : μ) (e : ε × List (μ × β)) :
    selected (some [n]) e = e.2.filter (fun m => decide (m.1 = n)) := by
  simp [selected, isSelected]

/-- the selection is a SET: order and repetitions in it are irrelevant -/
theorem family_sel_congr (s s' : List μ) (h : ∀ m, m ∈ s ↔ m ∈ s') (exps : List (ε × List (μ × β))) :
    family (some s) exps = family (some s') exps := by
  have : (selected (some s) : ε × List (μ × β) → List (μ × β)) = selected (some s') := by
    funext e; simp only [selected, isSelected, h]
  simp only [family, this]

/-- **order of experiments**: permuting the experiments permutes the family -/
theorem family_perm_experiments (sel : Option (List μ)) (exps exps' : List (ε × List (μ × β)))
    (h : exps.Perm exps') : (family sel exps).Perm (family sel exps') :=
  h.flatMap_right _

/-- **order of metrics**: permuting the metrics inside the experiments permutes the family -/
theorem family_perm_metrics (sel : Option (List μ)) (exps exps' : List (ε × List (μ × β)))
    (h : List.Forall₂ (fun e e' => e.1 = e'.1 ∧ e.2.Perm e'.2) exps exps') :
    (family sel exps).Perm (family sel exps') := by
  induction h with
  | nil => exact List.Perm.refl _
  | cons hab _ ih =>
    simp only [family, List.flatMap_cons] at ih ⊢
    exact List.Perm.append (hab.2.filter _) ih

/-- the written-back structure has the experiments in their order, each with exactly its selected
metric names in their order -/
theorem distribute_keys (sel : Option (List μ)) (exps : List (ε × List (μ × β))) (outs : List γ)
    (hlen : outs.length = (family sel exps).length) :
    (distribute sel exps outs).map (fun e => (e.1, e.2.map Prod.fst)) =
      exps.map (fun e => (e.1, (selected sel e).map Prod.fst)) := by
  induction exps generalizing outs with
  | nil => rfl
  | cons e rest ih =>
    simp only [family, List.flatMap_cons, List.length_append] at hlen
    simp only [distribute, List.map_cons, List.cons.injEq, Prod.mk.injEq, true_and]
    refine ⟨?_, ih _ (by simp [family, List.length_drop, hlen])⟩
    rw [List.map_fst_zip]
    simp [List.length_take, hlen]

/-- **every output goes back to the hypothesis it was computed for**: reading the written-back
structure in iteration order gives the outputs in family order, next to the family's own names -/
theorem distribute_flatten (sel : Option (List μ)) (exps : List (ε × List (μ × β))) (outs : List γ)
    (hlen : outs.length = (family sel exps).length) :
    (distribute sel exps outs).flatMap (·.2) = ((family sel exps).map Prod.fst).zip outs := by
  induction exps generalizing outs with
  | nil => simp [distribute, family]
  | cons e rest ih =>
    simp only [family, List.flatMap_cons, List.length_append] at hlen
    simp only [distribute, List.flatMap_cons, family, List.map_append]
    rw [ih _ (by simp [family, List.length_drop, hlen])]
    conv_rhs => rw [← List.take_append_drop (selected sel e).length outs]
    rw [List.zip_append (by simp [List.length_take, hlen])]
    rfl

/-- the whole of `adjust_*`: for a procedure that returns one output per hypothesis, the result read
in iteration order is the family's names with the procedure's outputs -/
theorem adjustAll_flatten (sel : Option (List μ)) (exps : List (ε × List (μ × β))) (run : List β → List γ)
    (hrun : ∀ l, (run l).length = l.length) :
    (adjustAll sel exps run).flatMap (·.2) =
      ((family sel exps).map Prod.fst).zip (run ((family sel exps).map Prod.snd)) :=
  distribute_flatten sel exps _ (by rw [hrun, List.length_map])

/-- non-vacuity: two experiments, a selection that drops one metric -/
example :
    family (some ["a", "c"]) [(1, [("a", 10), ("b", 20)]), (2, [("c", 30), ("a", 40)])] =
      [("a", 10), ("c", 30), ("a", 40)] ∧
    distribute (some ["a", "c"]) [(1, [("a", 10), ("b", 20)]), (2, [("c", 30), ("a", 40)])] [7, 8, 9] =
      [(1, [("a", 7)]), (2, [("c", 8), ("a", 9)])] := by
  decide

end C10
