import TeaTasting.Lemmas.AggrOf

/-! # C14 — Aggregates pooling and delta-method formulas are exact algebraic identities

All statements are about the GENERATED definitions (`Gen.Aggr.add`, `Gen.addMean/addVar/addCov`,
`Gen.Aggr.ratio_var/ratio_cov`), i.e. about what `/repo/src/tea_tasting/aggr.py` says now, and
hold in every ordered field (`ℚ`, `ℝ`, …) for every sample size. -/

open Spec Gen

set_option linter.unusedSectionVars false

variable {α ρ : Type} [Field α] [LinearOrder α] [IsStrictOrderedRing α]

namespace C14

/-- Adding the `Aggregates` of two samples yields exactly the `Aggregates` of their
concatenation — count, every mean, every variance, every covariance — for all sample sizes
`≥ 2` (the sizes for which the real code has a variance at all). -/
theorem aggrOf_append (T₁ T₂ : List ρ) (col : String → ρ → α)
    (h₁ : 2 ≤ T₁.length) (h₂ : 2 ≤ T₂.length) :
    aggrOf (T₁ ++ T₂) col = aggrOf T₁ col + aggrOf T₂ col := by
  have n1 : (T₁.length : α) ≠ 0 := natCast_ne_zero_of_pos (by omega)
  have n2 : (T₂.length : α) ≠ 0 := natCast_ne_zero_of_pos (by omega)
  have n1' : (T₁.length : α) - 1 ≠ 0 := natCast_sub_one_ne_zero h₁
  have n2' : (T₂.length : α) - 1 ≠ 0 := natCast_sub_one_ne_zero h₂
  have n12 : (T₁.length : α) + T₂.length ≠ 0 := by
    have : ((T₁.length + T₂.length : ℕ) : α) ≠ 0 := natCast_ne_zero_of_pos (by omega)
    simpa using this
  have n12' : (T₁.length : α) + T₂.length - 1 ≠ 0 := by
    have : ((T₁.length + T₂.length : ℕ) : α) - 1 ≠ 0 := natCast_sub_one_ne_zero (by omega)
    simpa using this
  have hcov : ∀ a b : String,
      scov (T₁ ++ T₂) (col a) (col b)
        = addCov (aggrOf T₁ col) (aggrOf T₂ col) (a, b) := by
    intro a b
    simp only [addCov, aggrOf_count, aggrOf_mean_some, aggrOf_cov_some]
    rw [scov_raw _ _ _ (by simpa using n12), scov_raw _ _ _ n1, scov_raw _ _ _ n2]
    unfold smean
    simp only [S_append, List.length_append, Nat.cast_add]
    field_simp
    ring
  show aggrOf (T₁ ++ T₂) col = Aggr.add (aggrOf T₁ col) (aggrOf T₂ col)
  unfold Aggr.add
  simp only [aggrOf_count]
  unfold aggrOf
  congr 1
  · simp
  · funext c
    show smean (T₁ ++ T₂) (col c) = addMean (aggrOf T₁ col) (aggrOf T₂ col) c
    simp only [addMean, aggrOf_count, aggrOf_mean_some]
    unfold smean
    simp only [S_append, List.length_append, Nat.cast_add]
    field_simp
  · funext c
    show svar (T₁ ++ T₂) (col c) = addVar (aggrOf T₁ col) (aggrOf T₂ col) c
    have := hcov c c
    simp only [addCov, aggrOf_count, aggrOf_mean_some, aggrOf_cov_some] at this
    simp only [addVar, aggrOf_count, aggrOf_mean_some, aggrOf_var_some, svar]
    exact this
  · funext a b
    exact hcov a b

/-- addition of `Aggregates` is commutative (an identity of rational functions, no side
conditions) -/
theorem add_comm (a b : Aggr α) : a + b = b + a := by
  show Aggr.add a b = Aggr.add b a
  unfold Aggr.add
  congr 1
  · simp only [Aggr.count]; ring
  · funext c; simp only [addMean]; ring
  · funext c; simp only [addVar]; ring
  · funext c d; simp only [addCov]; ring

theorem sortedTuple_idem (a b : String) :
    sortedTuple (sortedTuple a b).1 (sortedTuple a b).2 = sortedTuple a b := by
  unfold sortedTuple
  by_cases h : b < a
  · simp only [h, if_true, if_neg (lt_asymm h)]
  · simp only [h, if_false]

/-- addition of `Aggregates` is associative for all sample sizes `≥ 1` -/
theorem add_assoc (a b c : Aggr α)
    (ha : 1 ≤ a.count_) (hb : 1 ≤ b.count_) (hc : 1 ≤ c.count_) :
    (a + b) + c = a + (b + c) := by
  show Aggr.add (Aggr.add a b) c = Aggr.add a (Aggr.add b c)
  have e1 : a.count_ + b.count_ ≠ 0 := by intro h; linarith
  have e2 : b.count_ + c.count_ ≠ 0 := by intro h; linarith
  have e3 : a.count_ + b.count_ + c.count_ ≠ 0 := by intro h; linarith
  have e3' : a.count_ + (b.count_ + c.count_) ≠ 0 := by intro h; linarith
  have e4 : a.count_ + b.count_ - 1 ≠ 0 := by intro h; linarith
  have e5 : b.count_ + c.count_ - 1 ≠ 0 := by intro h; linarith
  have e6 : a.count_ + b.count_ + c.count_ - 1 ≠ 0 := by intro h; linarith
  have e6' : a.count_ + (b.count_ + c.count_) - 1 ≠ 0 := by intro h; linarith
  unfold Aggr.add
  congr 1
  · simp only [Aggr.count]; ring
  · funext col
    simp only [addMean, Aggr.count, Aggr.mean]
    field_simp
    ring
  · funext col
    simp only [addVar, addMean, Aggr.count, Aggr.mean, Aggr.var]
    field_simp
    ring
  · funext c0 c1
    simp only [addCov, addMean, Aggr.count, Aggr.mean, Aggr.cov, sortedTuple_idem]
    by_cases h : c1 < c0
    · simp only [sortedTuple, h, if_true]
      field_simp
      ring
    · simp only [sortedTuple, h, if_false]
      field_simp
      ring

/-- `ratio_cov` equals the unbiased sample covariance of the delta-method linearisations
`r + (xᵢ − r·yᵢ)/ȳ`, a missing name being the constant-1 column, for every sample with
non-zero denominator means -/
theorem ratio_cov_eq_scov_linearised (T : List ρ) (col : String → ρ → α)
    (a b c d : Option String) (hn : 2 ≤ T.length)
    (hb : S T (colO col b) ≠ 0) (hd : S T (colO col d) ≠ 0) :
    Aggr.ratio_cov (aggrOf T col) a b c d
      = scov T (lin T (colO col a) (colO col b)) (lin T (colO col c) (colO col d)) := by
  have n0 : (T.length : α) ≠ 0 := natCast_ne_zero_of_pos (by omega)
  have n1 : (T.length : α) - 1 ≠ 0 := natCast_sub_one_ne_zero hn
  simp only [Aggr.ratio_cov, aggrOf_mean _ _ _ n0, aggrOf_cov _ _ _ _ n0]
  simp only [scov_raw _ _ _ n0]
  unfold lin
  simp only [S_lin, S_lin_mul]
  unfold smean
  field_simp
  ring

/-- a missing denominator is the constant 1: `ratio_var(x, None) = var(x)` -/
theorem ratio_var_none (A : Aggr α) (x : Option String) :
    Aggr.ratio_var A x none = Aggr.var A x := by
  cases x <;> simp [Aggr.ratio_var, Aggr.mean, Aggr.cov, Aggr.var]

/-- `ratio_cov(a, None, b, None) = cov(a, b)` -/
theorem ratio_cov_none_none (A : Aggr α) (a b : Option String) :
    Aggr.ratio_cov A a none b none = Aggr.cov A a b := by
  cases a <;> cases b <;> simp [Aggr.ratio_cov, Aggr.mean, Aggr.cov]

theorem sortedTuple_comm (a b : String) : sortedTuple a b = sortedTuple b a := by
  unfold sortedTuple
  by_cases h : b < a
  · simp only [h, if_true, if_neg (lt_asymm h)]
  · by_cases h' : a < b
    · simp only [h, h', if_true, if_false]
    · have : a = b := le_antisymm (not_lt.mp h) (not_lt.mp h')
      subst this; rfl

theorem cov_symm (A : Aggr α) (a b : Option String) : Aggr.cov A a b = Aggr.cov A b a := by
  cases a <;> cases b <;> simp only [Aggr.cov]
  rw [sortedTuple_comm]

/-- `ratio_cov(a, b, a, b) = ratio_var(a, b)` for every `Aggregates` whose covariance of a
column with itself is its variance (true of every `Aggregates` computed from data) -/
theorem ratio_cov_self (A : Aggr α) (a b : Option String)
    (hself : ∀ x : Option String, Aggr.cov A x x = Aggr.var A x) :
    Aggr.ratio_cov A a b a b = Aggr.ratio_var A a b := by
  simp only [Aggr.ratio_cov, Aggr.ratio_var, hself, cov_symm A b a]
  by_cases hb : Aggr.mean A b = 0
  · simp [hb]
  · field_simp
    ring

theorem ratio_cov_self_aggrOf (T : List ρ) (col : String → ρ → α) (a b : Option String)
    (hn : 1 ≤ T.length) :
    Aggr.ratio_cov (aggrOf T col) a b a b = Aggr.ratio_var (aggrOf T col) a b := by
  have n0 : (T.length : α) ≠ 0 := natCast_ne_zero_of_pos hn
  exact ratio_cov_self _ a b (fun x => by rw [aggrOf_cov _ _ _ _ n0, aggrOf_var _ _ _ n0]; rfl)

/-- `ratio_var` equals the unbiased sample variance of the linearised ratios -/
theorem ratio_var_eq_svar_linearised (T : List ρ) (col : String → ρ → α)
    (a b : Option String) (hn : 2 ≤ T.length) (hb : S T (colO col b) ≠ 0) :
    Aggr.ratio_var (aggrOf T col) a b = svar T (lin T (colO col a) (colO col b)) := by
  rw [← ratio_cov_self_aggrOf T col a b (by omega), ratio_cov_eq_scov_linearised T col a b a b hn hb hb]
  rfl

/-! ## Non-vacuity: concrete samples meet the hypotheses and the identities evaluate -/

section Examples

def rowsA : List (String → ℚ) :=
  [fun c => if c = "x" then 1 else 2, fun c => if c = "x" then 3 else 5, fun c => if c = "x" then 4 else 4]
def rowsB : List (String → ℚ) :=
  [fun c => if c = "x" then -2 else 7, fun c => if c = "x" then 1/2 else 3]
def colQ : String → (String → ℚ) → ℚ := fun c r => r c

example : 2 ≤ rowsA.length ∧ 2 ≤ rowsB.length := by decide
example : S rowsA (colO colQ (some "z")) ≠ 0 := by
  simp [S, rowsA, colO, colQ]; norm_num
example : (aggrOf (rowsA ++ rowsB) colQ).var_ "x" = (aggrOf rowsA colQ + aggrOf rowsB colQ).var_ "x" := by
  rw [aggrOf_append rowsA rowsB colQ (by decide) (by decide)]

end Examples

end C14
