import TeaTasting.Driver.Stubs
import TeaTasting.Basic.Laws
import Mathlib.Tactic.SplitIfs
import Mathlib.Tactic.NormNum

/-! Non-vacuity of the hypotheses used by the equality-with-textbook theorems: the rational
stand-ins of the exact correspondence mode satisfy `Prims.QuantileLaws`. -/

namespace StubLaws

open Stubs

theorem basePpf_one_sub (q : ℚ) : basePpf (1 - q) = - basePpf q := by
  unfold basePpf
  have : 2 * (1 - q) - 1 = -(2 * q - 1) := by ring
  simp only [this, abs_neg]
  ring

theorem stubD_isf (k q : ℚ) : (stubD k 0).isf q = - (stubD k 0).ppf q := by
  simp only [stubD, basePpf_one_sub]
  ring

theorem exp1_neg (x : ℚ) : fam1.exp (-x) = (fam1.exp x)⁻¹ := by
  simp only [fam1]
  rcases lt_trichotomy x 0 with h | h | h
  · have h1 : 0 ≤ -x := by linarith
    have h2 : ¬ 0 ≤ x := by linarith
    simp only [h1, h2, if_true, if_false]
    rw [one_div, inv_inv]; ring
  · subst h; simp
  · have h1 : ¬ 0 ≤ -x := by linarith
    have h2 : 0 ≤ x := by linarith
    simp only [h1, h2, if_true, if_false]
    rw [one_div]; ring_nf

theorem exp2_neg (x : ℚ) : fam2.exp (-x) = (fam2.exp x)⁻¹ := by
  simp only [fam2]
  rcases lt_trichotomy x 0 with h | h | h
  · have h1 : 0 ≤ -x := by linarith
    have h2 : ¬ 0 ≤ x := by linarith
    simp only [h1, h2, if_true, if_false]
    rw [one_div, inv_inv]; ring
  · subst h; simp
  · have h1 : ¬ 0 ≤ -x := by linarith
    have h2 : 0 ≤ x := by linarith
    simp only [h1, h2, if_true, if_false]
    rw [one_div]; ring_nf

theorem fam1_quantileLaws : fam1.QuantileLaws :=
  { exp_neg := exp1_neg
    t_isf := fun df q _ _ => stubD_isf _ q
    norm_isf := fun q _ _ => stubD_isf _ q }

theorem fam2_quantileLaws : fam2.QuantileLaws :=
  { exp_neg := exp2_neg
    t_isf := fun df q _ _ => stubD_isf _ q
    norm_isf := fun q _ _ => stubD_isf _ q }

end StubLaws
