import TeaTasting.Props.C06
import TeaTasting.Props.C07

/-! # C17 — changing units or swapping variant roles changes results only as it must -/

open Spec Gen

set_option linter.unusedSectionVars false

variable {α ρ : Type} [Field α] [LinearOrder α] [IsStrictOrderedRing α]

/-- multiply a confidence bound by a positive scalar -/
def Bound.scale (c : α) : Bound α → Bound α
  | .fin a => .fin (c * a)
  | .posInf => .posInf
  | .negInf => .negInf

/-- mirror a confidence bound: `b ↦ −b` -/
def Bound.neg : Bound α → Bound α
  | .fin a => .fin (-a)
  | .posInf => .negInf
  | .negInf => .posInf

/-- how a result must change when the metric's unit is multiplied by `c > 0` -/
def scaleResult (c : α) (r : MeanResult α) : MeanResult α :=
  { r with control := c * r.control, treatment := c * r.treatment, effect_size := c * r.effect_size,
           effect_size_ci_lower := Bound.scale c r.effect_size_ci_lower,
           effect_size_ci_upper := Bound.scale c r.effect_size_ci_upper }

/-- how a result must change when control and treatment are exchanged (alternative mirrored) -/
def swapResult (r : MeanResult α) (rel : MeanResult α) : MeanResult α :=
  { control := r.treatment, treatment := r.control, effect_size := -r.effect_size,
    effect_size_ci_lower := Bound.neg r.effect_size_ci_upper,
    effect_size_ci_upper := Bound.neg r.effect_size_ci_lower,
    rel_effect_size := rel.rel_effect_size,
    rel_effect_size_ci_lower := rel.rel_effect_size_ci_lower,
    rel_effect_size_ci_upper := rel.rel_effect_size_ci_upper,
    pvalue := r.pvalue, statistic := -r.statistic }

namespace C17

theorem seSq_scale (o : Opts α) (c v1 n1 v2 n2 : α) :
    seSq o (c * c * v1) n1 (c * c * v2) n2 = c * c * seSq o v1 n1 v2 n2 := by
  unfold seSq pooledVar
  split_ifs <;> ring

theorem degF_scale (o : Opts α) (c v1 n1 v2 n2 : α) (hc : c ≠ 0) :
    degF o (c * c * v1) n1 (c * c * v2) n2 = degF o v1 n1 v2 n2 := by
  unfold degF welchDf
  split_ifs
  · rfl
  · have e : ∀ x y : α, (c * c * x / y) = c * c * (x / y) := fun x y => by ring
    simp only [e]
    have h1 : (c * c * (v1 / n1) + c * c * (v2 / n2)) ^ 2 = (c * c) ^ 2 * (v1 / n1 + v2 / n2) ^ 2 := by ring
    have h2 : (c * c * (v1 / n1)) ^ 2 / (n1 - 1) + (c * c * (v2 / n2)) ^ 2 / (n2 - 1)
        = (c * c) ^ 2 * ((v1 / n1) ^ 2 / (n1 - 1) + (v2 / n2) ^ 2 / (n2 - 1)) := by ring
    rw [h1, h2]
    have hcc : (c * c) ^ 2 ≠ 0 := by positivity
    rw [mul_div_mul_left _ _ hcc]

theorem refDist_scale (P : Prims α) (o : Opts α) (c v1 n1 v2 n2 : α) (hc : c ≠ 0) :
    refDist P o (c * c * v1) n1 (c * c * v2) n2 = refDist P o v1 n1 v2 n2 := by
  unfold refDist
  rw [degF_scale o c v1 n1 v2 n2 hc]

/-- **units, at the level of the test:** multiplying both samples by `c > 0` multiplies means,
effect and absolute interval by `c` and leaves statistic, p-value, relative effect and relative
interval unchanged -/
theorem testFromStats_scale (P : Prims α) (hP : P.Laws) (o : Opts α) (c m1 v1 n1 m2 v2 n2 : α)
    (hc : 0 < c) (hse : 0 ≤ seSq o v1 n1 v2 n2) :
    testFromStats P o (c * m1) (c * c * v1) n1 (c * m2) (c * c * v2) n2
      = scaleResult c (testFromStats P o m1 v1 n1 m2 v2 n2) := by
  have hc0 : c ≠ 0 := ne_of_gt hc
  have w1 : c * c * v1 / (c * m1) ^ 2 = v1 / m1 ^ 2 := by
    by_cases h : m1 = 0
    · simp [h]
    · field_simp
  have w2 : c * c * v2 / (c * m2) ^ 2 = v2 / m2 ^ 2 := by
    by_cases h : m2 = 0
    · simp [h]
    · field_simp
  have hr : c * m2 / (c * m1) = m2 / m1 := by
    by_cases h : m1 = 0
    · simp [h]
    · field_simp
  have hs : P.sqrt (seSq o (c * c * v1) n1 (c * c * v2) n2) = c * P.sqrt (seSq o v1 n1 v2 n2) := by
    rw [seSq_scale, hP.sqrt_mul_sq hc.le hse]
  have hst : (c * m2 - c * m1) / (c * P.sqrt (seSq o v1 n1 v2 n2)) = (m2 - m1) / P.sqrt (seSq o v1 n1 v2 n2) := by
    rw [← mul_sub, mul_div_mul_left _ _ hc0]
  unfold testFromStats scaleResult
  simp only [w1, w2, hr, hs, hst, refDist_scale P o c v1 n1 v2 n2 hc0]
  split_ifs <;> simp only [Bound.scale, MeanResult.mk.injEq, Bound.fin.injEq] <;>
    (refine ⟨?_, ?_, ?_, ?_, ?_, ?_, ?_, ?_, ?_, ?_⟩ <;> (first | rfl | trivial | ring1))

theorem thetaOf_scale_left (T : List ρ) (Y X : ρ → α) (c : α) (hn : (T.length : α) ≠ 0) :
    thetaOf T (fun r => c * Y r + 0) X = c * thetaOf T Y X := by
  unfold thetaOf
  rw [scov_affine_left _ _ _ _ _ hn]
  split_ifs
  · ring
  · ring

theorem adjustedOf_scale_left (Tall : List ρ) (Yall Xall Y X : ρ → α) (μ c : α)
    (hn : (Tall.length : α) ≠ 0) :
    adjustedOf Tall (fun r => c * Yall r + 0) Xall (fun r => c * Y r + 0) X μ
      = fun r => c * adjustedOf Tall Yall Xall Y X μ r + 0 := by
  funext r
  unfold adjustedOf
  rw [thetaOf_scale_left _ _ _ _ hn]
  ring

/-- **Multiplying the metric's (numerator) column by `c > 0`** multiplies the means, the absolute
effect and the absolute interval by `c` and leaves p-value, statistic, relative effect and
relative interval unchanged — for every metric kind, with and without covariates. -/
theorem scale_numerator (P : Prims α) (hP : P.Laws) (o : Opts α) (R : Roles) (col : String → ρ → α)
    (Tc Tt : List ρ) (c : α) (hc : 0 < c)
    (h2 : R.denom ≠ some R.numer) (h3 : R.numer_covariate ≠ some R.numer)
    (h4 : R.denom_covariate ≠ some R.numer) (hTc : 1 ≤ Tc.length) (hTt : 1 ≤ Tt.length)
    (hse : 0 ≤ seSq o (svar Tc (adjusted R col Tc Tt Tc)) (Tc.length : α)
      (svar Tt (adjusted R col Tc Tt Tt)) (Tt.length : α)) :
    cupedTest P o R (colAffine col R.numer c 0) Tc Tt = scaleResult c (cupedTest P o R col Tc Tt) := by
  have nc : (Tc.length : α) ≠ 0 := natCast_ne_zero_of_pos hTc
  have nt : (Tt.length : α) ≠ 0 := natCast_ne_zero_of_pos hTt
  have nT : ((Tc ++ Tt).length : α) ≠ 0 := natCast_ne_zero_of_pos (by simp; omega)
  have hY : ∀ T : List ρ, (T.length : α) ≠ 0 →
      linY R (colAffine col R.numer c 0) T = fun r => c * linY R col T r + 0 := by
    intro T hT
    simp only [linY, C06.colAffine_self, C06.colO_colAffine_other col R.numer c 0 _ h2,
      lin_scale_numer _ _ _ _ hT]
  have hX : ∀ T : List ρ, linX R (colAffine col R.numer c 0) T = linX R col T := by
    intro T
    simp only [linX, C06.colO_colAffine_other col R.numer c 0 _ h3,
      C06.colO_colAffine_other col R.numer c 0 _ h4]
  have hμ : covMean R (colAffine col R.numer c 0) Tc Tt = covMean R col Tc Tt := by
    simp only [covMean, C06.colO_colAffine_other col R.numer c 0 _ h3,
      C06.colO_colAffine_other col R.numer c 0 _ h4]
  have hA : ∀ T : List ρ, (T.length : α) ≠ 0 →
      adjusted R (colAffine col R.numer c 0) Tc Tt T = fun r => c * adjusted R col Tc Tt T r + 0 := by
    intro T hT
    simp only [C06.adjusted_eq_adjustedOf, hY _ hT, hY _ nT, hX, hμ, adjustedOf_scale_left _ _ _ _ _ _ _ nT]
  unfold cupedTest twoSample
  rw [hA _ nc, hA _ nt, smean_affine _ _ _ _ nc, smean_affine _ _ _ _ nt, svar_affine _ _ _ _ nc,
    svar_affine _ _ _ _ nt]
  simp only [add_zero]
  exact testFromStats_scale P hP o c _ _ _ _ _ _ hc hse

/-- **Multiplying numerator and denominator of a ratio by the same `c ≠ 0` changes nothing.** -/
theorem scale_ratio_both (P : Prims α) (o : Opts α) (R : Roles) (col : String → ρ → α)
    (Tc Tt : List ρ) (z : String) (c : α) (hc : c ≠ 0) (hz : R.denom = some z) (hyz : R.numer ≠ z)
    (h3 : R.numer_covariate ≠ some R.numer) (h4 : R.denom_covariate ≠ some R.numer)
    (h5 : R.numer_covariate ≠ some z) (h6 : R.denom_covariate ≠ some z)
    (hTc : 1 ≤ Tc.length) :
    cupedTest P o R (colAffine (colAffine col R.numer c 0) z c 0) Tc Tt = cupedTest P o R col Tc Tt := by
  have hY : ∀ T : List ρ, (T.length : α) ≠ 0 →
      linY R (colAffine (colAffine col R.numer c 0) z c 0) T = linY R col T := by
    intro T hT
    have e1 : colAffine (colAffine col R.numer c 0) z c 0 R.numer = fun r => c * col R.numer r + 0 := by
      rw [C06.colAffine_other _ z R.numer c 0 hyz, C06.colAffine_self]
    have e2 : colO (colAffine (colAffine col R.numer c 0) z c 0) (some z)
        = fun r => c * colO col (some z) r + 0 := by
      rw [C06.colO_colAffine_self]
      have : colO (colAffine col R.numer c 0) (some z) = colO col (some z) :=
        C06.colO_colAffine_other col R.numer c 0 (some z) (by intro h; exact hyz (Option.some.inj h).symm)
      rw [this]
    simp only [linY, hz, e1, e2, lin_scale_numer _ _ _ _ hT]
    funext r
    have := congrFun (lin_scale_denom T (col R.numer) (colO col (some z)) c hc hT) r
    simp only [this]
    field_simp
    ring
  have hO : ∀ o' : Option String, o' ≠ some R.numer → o' ≠ some z →
      colO (colAffine (colAffine col R.numer c 0) z c 0) o' = colO col o' := by
    intro o' a b
    rw [C06.colO_colAffine_other _ z c 0 _ b, C06.colO_colAffine_other _ R.numer c 0 _ a]
  have hX : ∀ T : List ρ, linX R (colAffine (colAffine col R.numer c 0) z c 0) T = linX R col T := by
    intro T; simp only [linX, hO _ h3 h5, hO _ h4 h6]
  have hμ : covMean R (colAffine (colAffine col R.numer c 0) z c 0) Tc Tt = covMean R col Tc Tt := by
    simp only [covMean, hO _ h3 h5, hO _ h4 h6]
  have nT : ((Tc ++ Tt).length : α) ≠ 0 := natCast_ne_zero_of_pos (by simp; omega)
  unfold cupedTest twoSample
  by_cases hTt : Tt.length = 0
  · have : Tt = [] := List.length_eq_zero_iff.mp hTt
    subst this
    have nc : (Tc.length : α) ≠ 0 := natCast_ne_zero_of_pos hTc
    simp only [C06.adjusted_eq_adjustedOf, hX, hμ, hY _ nc, hY _ nT, List.append_nil]
    simp [smean, svar, scov, S]
  · have nc : (Tc.length : α) ≠ 0 := natCast_ne_zero_of_pos hTc
    have nt : (Tt.length : α) ≠ 0 := natCast_ne_zero_of_pos (by omega)
    simp only [C06.adjusted_eq_adjustedOf, hX, hμ, hY _ nc, hY _ nt, hY _ nT]

/-- mirror a one-sided alternative -/
def mirrorAlt (a : String) : String :=
  if a = "greater" then "less" else if a = "less" then "greater" else a

def mirrorOpts (o : Opts α) : Opts α := { o with alternative := mirrorAlt o.alternative }

theorem seSq_swap (o : Opts α) (v1 n1 v2 n2 : α) :
    seSq (mirrorOpts o) v2 n2 v1 n1 = seSq o v1 n1 v2 n2 := by
  unfold seSq pooledVar mirrorOpts
  split_ifs <;> ring

theorem refDist_swap (P : Prims α) (o : Opts α) (v1 n1 v2 n2 : α) :
    refDist P (mirrorOpts o) v2 n2 v1 n1 = refDist P o v1 n1 v2 n2 := by
  unfold refDist degF welchDf mirrorOpts
  simp only
  split_ifs
  · congr 1; ring
  · congr 1; ring
  · rfl

/-- **swap at the level of the test:** exchanging the two samples and mirroring the alternative
exchanges the means, negates effect and statistic, mirrors the absolute interval and keeps the
p-value -/
theorem testFromStats_swap (P : Prims α) (o : Opts α) (m1 v1 n1 m2 v2 n2 : α)
    (hD : (refDist P o v1 n1 v2 n2).Laws) :
    let r := testFromStats P o m1 v1 n1 m2 v2 n2
    let r' := testFromStats P (mirrorOpts o) m2 v2 n2 m1 v1 n1
    r'.control = r.treatment ∧ r'.treatment = r.control ∧ r'.effect_size = -r.effect_size ∧
    r'.statistic = -r.statistic ∧ r'.pvalue = r.pvalue ∧
    r'.effect_size_ci_lower = Bound.neg r.effect_size_ci_upper ∧
    r'.effect_size_ci_upper = Bound.neg r.effect_size_ci_lower := by
  intro r r'
  have hs : (m1 - m2) / P.sqrt (seSq o v1 n1 v2 n2) = -((m2 - m1) / P.sqrt (seSq o v1 n1 v2 n2)) := by ring
  have hcl : (mirrorOpts o).confidence_level = o.confidence_level := rfl
  simp only [r, r']
  unfold testFromStats
  simp only [seSq_swap, refDist_swap, hcl]
  by_cases hg : o.alternative = "greater"
  · have hm : (mirrorOpts o).alternative = "less" := by simp [mirrorOpts, mirrorAlt, hg]
    simp only [hg, hm, if_true, show ¬ ("less" : String) = "greater" by decide, if_false, hs,
      Bound.neg, hD.symm, hD.sf_eq]
    refine ⟨?_, ?_, ?_, ?_, ?_, ?_, ?_⟩ <;> first | rfl | trivial | ring1 | (congr 1; ring1)
  · by_cases hl : o.alternative = "less"
    · have hm : (mirrorOpts o).alternative = "greater" := by simp [mirrorOpts, mirrorAlt, hl]
      simp only [hl, hm, if_true, show ¬ ("less" : String) = "greater" by decide, if_false, hs,
        Bound.neg, hD.sf_neg]
      refine ⟨?_, ?_, ?_, ?_, ?_, ?_, ?_⟩ <;> first | rfl | trivial | ring1 | (congr 1; ring1)
    · have hm : (mirrorOpts o).alternative = o.alternative := by simp [mirrorOpts, mirrorAlt, hg, hl]
      simp only [hg, hl, hm, if_false, hs, Bound.neg, abs_neg]
      refine ⟨?_, ?_, ?_, ?_, ?_, ?_, ?_⟩ <;> first | rfl | trivial | ring1 | (congr 1; ring1)

theorem S_append_comm (A B : List ρ) (f : ρ → α) : S (A ++ B) f = S (B ++ A) f := by
  rw [S_append, S_append, add_comm]

theorem smean_append_comm (A B : List ρ) (f : ρ → α) : smean (A ++ B) f = smean (B ++ A) f := by
  unfold smean
  rw [S_append_comm, List.length_append, List.length_append, Nat.add_comm]

theorem scov_append_comm (A B : List ρ) (f g : ρ → α) : scov (A ++ B) f g = scov (B ++ A) f g := by
  unfold scov
  rw [smean_append_comm A B f, smean_append_comm A B g, S_append_comm, List.length_append,
    List.length_append, Nat.add_comm]

theorem lin_append_comm (A B : List ρ) (a b : ρ → α) : lin (A ++ B) a b = lin (B ++ A) a b := by
  funext r
  unfold lin
  rw [smean_append_comm A B a, smean_append_comm A B b]

/-- the adjusted observations of a group do not depend on which variant is called control
(the coefficient and the covariate mean are pooled) -/
theorem adjusted_swap (R : Roles) (col : String → ρ → α) (Tc Tt T : List ρ) :
    adjusted R col Tt Tc T = adjusted R col Tc Tt T := by
  unfold adjusted theta covMean thetaOf svar linY linX
  simp only [lin_append_comm Tt Tc, scov_append_comm Tt Tc, smean_append_comm Tt Tc]

/-- **Swapping control and treatment (and mirroring a one-sided alternative)** negates effect size
and statistic, mirrors the absolute interval, exchanges the reported means and keeps the
p-value — with or without covariates, every metric kind. -/
theorem swap_roles (P : Prims α) (o : Opts α) (R : Roles) (col : String → ρ → α) (Tc Tt : List ρ)
    (hD : (refDist P o (svar Tc (adjusted R col Tc Tt Tc)) (Tc.length : α)
      (svar Tt (adjusted R col Tc Tt Tt)) (Tt.length : α)).Laws) :
    let r := cupedTest P o R col Tc Tt
    let r' := cupedTest P (mirrorOpts o) R col Tt Tc
    r'.control = r.treatment ∧ r'.treatment = r.control ∧ r'.effect_size = -r.effect_size ∧
    r'.statistic = -r.statistic ∧ r'.pvalue = r.pvalue ∧
    r'.effect_size_ci_lower = Bound.neg r.effect_size_ci_upper ∧
    r'.effect_size_ci_upper = Bound.neg r.effect_size_ci_lower := by
  intro r r'
  simp only [r, r']
  unfold cupedTest twoSample
  rw [adjusted_swap R col Tc Tt Tt, adjusted_swap R col Tc Tt Tc]
  exact testFromStats_swap P o _ _ _ _ _ _ hD

/-! ## The same statements for the code (generated `analyze_aggregates` on the aggregates of the data) -/

theorem validGroup_colAffine_numer (cfg : RatioCfg α) (col : String → ρ → α) (T : List ρ) (c : α)
    (h2 : cfg.denom ≠ some cfg.numer) (h4 : cfg.denom_covariate ≠ some cfg.numer)
    (h : ValidGroup (rolesOf cfg) col T) :
    ValidGroup (rolesOf cfg) (colAffine col cfg.numer c 0) T := by
  refine ⟨h.two, ?_, ?_⟩
  · have := h.denom
    simp only [rolesOf] at this ⊢
    rwa [C06.colO_colAffine_other col cfg.numer c 0 _ h2]
  · have := h.cdenom
    simp only [rolesOf] at this ⊢
    rwa [C06.colO_colAffine_other col cfg.numer c 0 _ h4]

/-- `scale_numerator` for the generated analysis of the aggregates of the data -/
theorem scale_numerator_code (P : Prims α) (hP : P.Laws) (hq : P.QuantileLaws) (cfg : RatioCfg α)
    (hc0 : 0 < cfg.confidence_level) (hc1 : cfg.confidence_level < 1)
    (col : String → ρ → α) (Tc Tt : List ρ) (c : α) (hc : 0 < c)
    (h2 : cfg.denom ≠ some cfg.numer) (h3 : cfg.numer_covariate ≠ some cfg.numer)
    (h4 : cfg.denom_covariate ≠ some cfg.numer)
    (vc : ValidGroup (rolesOf cfg) col Tc) (vt : ValidGroup (rolesOf cfg) col Tt)
    (vT : ValidGroup (rolesOf cfg) col (Tc ++ Tt))
    (hse : 0 ≤ seSq (optsOf cfg) (svar Tc (adjusted (rolesOf cfg) col Tc Tt Tc)) (Tc.length : α)
      (svar Tt (adjusted (rolesOf cfg) col Tc Tt Tt)) (Tt.length : α)) :
    RatioOfMeans.analyze_aggregates P cfg (aggrOf Tc (colAffine col cfg.numer c 0))
        (aggrOf Tt (colAffine col cfg.numer c 0))
      = scaleResult c (RatioOfMeans.analyze_aggregates P cfg (aggrOf Tc col) (aggrOf Tt col)) := by
  rw [C06.cuped_analyze_eq_textbook P hq cfg hc0 hc1 col Tc Tt vc vt vT,
    C06.cuped_analyze_eq_textbook P hq cfg hc0 hc1 _ Tc Tt
      (validGroup_colAffine_numer cfg col Tc c h2 h4 vc) (validGroup_colAffine_numer cfg col Tt c h2 h4 vt)
      (validGroup_colAffine_numer cfg col _ c h2 h4 vT)]
  exact scale_numerator P hP (optsOf cfg) (rolesOf cfg) col Tc Tt c hc h2 h3 h4
    (by have := vc.two; omega) (by have := vt.two; omega) hse

/-- `swap_roles` for the generated analysis of the aggregates of the data -/
theorem swap_roles_code (P : Prims α) (hq : P.QuantileLaws) (cfg : RatioCfg α)
    (hc0 : 0 < cfg.confidence_level) (hc1 : cfg.confidence_level < 1)
    (col : String → ρ → α) (Tc Tt : List ρ)
    (vc : ValidGroup (rolesOf cfg) col Tc) (vt : ValidGroup (rolesOf cfg) col Tt)
    (vT : ValidGroup (rolesOf cfg) col (Tc ++ Tt)) (vT' : ValidGroup (rolesOf cfg) col (Tt ++ Tc))
    (hD : (refDist P (optsOf cfg) (svar Tc (adjusted (rolesOf cfg) col Tc Tt Tc)) (Tc.length : α)
      (svar Tt (adjusted (rolesOf cfg) col Tc Tt Tt)) (Tt.length : α)).Laws) :
    let r := RatioOfMeans.analyze_aggregates P cfg (aggrOf Tc col) (aggrOf Tt col)
    let r' := RatioOfMeans.analyze_aggregates P { cfg with alternative := mirrorAlt cfg.alternative }
      (aggrOf Tt col) (aggrOf Tc col)
    r'.control = r.treatment ∧ r'.treatment = r.control ∧ r'.effect_size = -r.effect_size ∧
    r'.statistic = -r.statistic ∧ r'.pvalue = r.pvalue ∧
    r'.effect_size_ci_lower = Bound.neg r.effect_size_ci_upper ∧
    r'.effect_size_ci_upper = Bound.neg r.effect_size_ci_lower := by
  intro r r'
  simp only [r, r']
  rw [C06.cuped_analyze_eq_textbook P hq cfg hc0 hc1 col Tc Tt vc vt vT,
    C06.cuped_analyze_eq_textbook P hq { cfg with alternative := mirrorAlt cfg.alternative } hc0 hc1 col
      Tt Tc vt vc vT']
  exact swap_roles P (optsOf cfg) (rolesOf cfg) col Tc Tt hD

end C17
