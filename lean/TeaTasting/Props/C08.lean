import TeaTasting.Spec.Power
import TeaTasting.Lemmas.Characterise
import Mathlib.Tactic.Positivity
import Mathlib.Tactic.FieldSimp
import Mathlib.Tactic.Linarith

/-! # C08 — reported power is the textbook power of the configured test and is monotone

About the GENERATED `Gen.RatioOfMeans.power_from_stats` (and `scale_and_distr_alt`). -/

open Spec Gen

set_option linter.unusedSectionVars false

variable {α : Type} [Field α] [LinearOrder α] [IsStrictOrderedRing α]

def powerOptsOf (cfg : RatioCfg α) : PowerOpts α :=
  { alternative := cfg.alternative, equal_var := cfg.equal_var, use_t := cfg.use_t,
    alpha := cfg.alpha, ratio := cfg.ratio }

namespace C08

theorem scale_and_distr_alt_guarded (P : Prims α) (cfg : RatioCfg α) (cv cn tv tn d : α) :
    RatioOfMeans.scale_and_distr_alt P cfg cv cn tv tn d
      = (P.sqrt (max (seSq (optsOf cfg) cv cn tv tn) 0), refDist P (optsOf cfg) cv cn tv tn,
         if cfg.use_t then P.nct (degF (optsOf cfg) cv cn tv tn) (d / P.sqrt (max (seSq (optsOf cfg) cv cn tv tn) 0))
         else P.norm (d / P.sqrt (max (seSq (optsOf cfg) cv cn tv tn) 0))) := by
  unfold RatioOfMeans.scale_and_distr_alt seSq refDist degF welchDf pooledVar optsOf
  cases cfg.equal_var <;> cases cfg.use_t <;> simp <;>
    (first | (refine ⟨?_, ?_⟩ <;> (try (congr 2)) <;> (try (congr 2)) <;> ring_nf) | (congr 2; ring_nf) | skip)

theorem scale_and_distr_alt_eq (P : Prims α) (cfg : RatioCfg α) (cv cn tv tn d : α)
    (h : 0 ≤ seSq (optsOf cfg) cv cn tv tn) :
    RatioOfMeans.scale_and_distr_alt P cfg cv cn tv tn d
      = (P.sqrt (seSq (optsOf cfg) cv cn tv tn), refDist P (optsOf cfg) cv cn tv tn,
         if cfg.use_t then P.nct (degF (optsOf cfg) cv cn tv tn) (d / P.sqrt (seSq (optsOf cfg) cv cn tv tn))
         else P.norm (d / P.sqrt (seSq (optsOf cfg) cv cn tv tn))) := by
  rw [scale_and_distr_alt_guarded, max_eq_left h]

theorem seSq_opts (cfg : RatioCfg α) (a b c d : α) :
    seSq (optsOf cfg) a b c d = seSq (powerOptsOf cfg).test a b c d := rfl

theorem degF_opts (cfg : RatioCfg α) (a b c d : α) :
    degF (optsOf cfg) a b c d = degF (powerOptsOf cfg).test a b c d := rfl

theorem refDist_opts (P : Prims α) (cfg : RatioCfg α) (a b c d : α) :
    refDist P (optsOf cfg) a b c d = refDist P (powerOptsOf cfg).test a b c d := rfl

/-- **C08, main statement.**  For any sample variance `v`, total size `n`, effect `d`, allocation
ratio, alpha, alternative, `equal_var` and `use_t`, the power computed by the generated
`_power_from_stats` is the textbook power: control and treatment receive `n/(1+r)` and `n·r/(1+r)`
observations, the statistic under the alternative is normal at `d/se` (Z) or non-central t with the
test's degrees of freedom and non-centrality `d/se` (t), and the rejection region is that of the
level-alpha test (both tails for two-sided).  `hse`: the squared standard error is non-negative
(true for `v ≥ 0`, `r > 0`, `n > 2`: `seSq_power`), so the code's `max(·, 0)` guard is the identity. -/
theorem power_eq_textbook (P : Prims α) (cfg : RatioCfg α) (v n d : α)
    (hse : 0 ≤ seSq (optsOf cfg) v (n / (1 + cfg.ratio)) v (n * cfg.ratio / (1 + cfg.ratio))) :
    RatioOfMeans.power_from_stats P cfg v n d = power P (powerOptsOf cfg) v n d := by
  unfold RatioOfMeans.power_from_stats power nullDist altDist powerSe nControl nTreatment
  dsimp only          -- local definitions of the source (`let`) are transparent: the statement is about values
  rw [scale_and_distr_alt_eq P cfg _ _ _ _ _ hse]
  simp only [seSq_opts, degF_opts, refDist_opts]
  rfl

/-! ## range and monotonicity, under the stated laws of the distribution families -/

/-- what is assumed of the distribution used under the alternative -/
structure AltLaws (d : Dist α) : Prop where
  mono : Monotone d.cdf
  nonneg : ∀ x, 0 ≤ d.cdf x
  le1 : ∀ x, d.cdf x ≤ 1
  sf_eq : ∀ x, d.sf x = 1 - d.cdf x

/-- **power lies in [0,1]** for every alternative (two-sided needs the critical value of the
null distribution to be non-negative, i.e. `alpha/2 ≤ 1/2`) -/
theorem power_mem_Icc (P : Prims α) (o : PowerOpts α) (v n d : α)
    (hA : AltLaws (altDist P o v n d)) (hcrit : 0 ≤ (nullDist P o v n).isf (o.alpha / 2)) :
    0 ≤ power P o v n d ∧ power P o v n d ≤ 1 := by
  unfold power
  simp only
  split_ifs
  · rw [hA.sf_eq]; have := hA.nonneg ((nullDist P o v n).isf o.alpha); have := hA.le1 ((nullDist P o v n).isf o.alpha)
    constructor <;> linarith
  · exact ⟨hA.nonneg _, hA.le1 _⟩
  · rw [hA.sf_eq]
    have h1 := hA.nonneg (-((nullDist P o v n).isf (o.alpha / 2)))
    have h2 := hA.le1 ((nullDist P o v n).isf (o.alpha / 2))
    have h3 : (altDist P o v n d).cdf (-((nullDist P o v n).isf (o.alpha / 2)))
        ≤ (altDist P o v n d).cdf ((nullDist P o v n).isf (o.alpha / 2)) := hA.mono (by linarith)
    constructor <;> linarith

/-- the squared standard error of the power calculation in closed form: `v·(1+r)²/(n·r)`,
the same for the pooled and the unpooled test (both groups have variance `v`) -/
theorem seSq_power (o : PowerOpts α) (v n : α) (hr : 0 < o.ratio) (hn : 2 < n) :
    seSq o.test v (nControl n o.ratio) v (nTreatment n o.ratio) = v * (1 + o.ratio) ^ 2 / (n * o.ratio) := by
  have h1 : 1 + o.ratio ≠ 0 := by linarith
  have h2 : o.ratio ≠ 0 := ne_of_gt hr
  have h3 : n ≠ 0 := by linarith
  have hsum : nControl n o.ratio + nTreatment n o.ratio = n := by
    unfold nControl nTreatment; field_simp
  unfold seSq pooledVar
  split_ifs
  · have h4 : nControl n o.ratio + nTreatment n o.ratio - 2 ≠ 0 := by rw [hsum]; linarith
    have : ((nControl n o.ratio - 1) * v + (nTreatment n o.ratio - 1) * v)
        / (nControl n o.ratio + nTreatment n o.ratio - 2) = v := by
      field_simp; ring
    rw [this]; unfold nControl nTreatment; field_simp; ring
  · unfold nControl nTreatment; field_simp; ring

theorem sqrt_mono {P : Prims α} (hP : P.Laws) {x y : α} (hx : 0 ≤ x) (hxy : x ≤ y) : P.sqrt x ≤ P.sqrt y := by
  by_contra h
  push Not at h
  have hy : 0 ≤ y := le_trans hx hxy
  have h1 := hP.sqrt_sq x hx
  have h2 := hP.sqrt_sq y hy
  have h3 := hP.sqrt_nonneg y hy
  nlinarith

/-- the standard error does not increase when the total sample size grows -/
theorem powerSe_antitone_n {P : Prims α} (hP : P.Laws) (o : PowerOpts α) (v n n' : α) (hv : 0 ≤ v)
    (hr : 0 < o.ratio) (hn : 2 < n) (hnn : n ≤ n') : powerSe P o v n' ≤ powerSe P o v n := by
  unfold powerSe
  rw [seSq_power o v n hr hn, seSq_power o v n' hr (by linarith)]
  have hp : 0 < n * o.ratio := by positivity
  have hp' : 0 < n' * o.ratio := by have : 0 < n' := by linarith
                                    positivity
  apply sqrt_mono hP (by positivity)
  apply div_le_div_of_nonneg_left (by positivity) hp
  nlinarith

/-- … nor when the variance shrinks (e.g. by adding a covariate) -/
theorem powerSe_mono_v {P : Prims α} (hP : P.Laws) (o : PowerOpts α) (v v' n : α) (hv : 0 ≤ v')
    (hvv : v' ≤ v) (hr : 0 < o.ratio) (hn : 2 < n) : powerSe P o v' n ≤ powerSe P o v n := by
  unfold powerSe
  rw [seSq_power o v n hr hn, seSq_power o v' n hr hn]
  have hp : 0 < n * o.ratio := by positivity
  apply sqrt_mono hP (by positivity)
  apply div_le_div_of_nonneg_right _ hp.le
  nlinarith [sq_nonneg (1 + o.ratio)]

/-- the normal family is a location family -/
structure NormShift (P : Prims α) : Prop where
  cdf : ∀ loc x, (P.norm loc).cdf x = (P.norm 0).cdf (x - loc)
  sf : ∀ loc x, (P.norm loc).sf x = (P.norm 0).sf (x - loc)

/-- Z test, `greater`: power as a function of the standardised effect `d/se` -/
theorem power_z_greater (P : Prims α) (hN : NormShift P) (o : PowerOpts α) (v n d : α)
    (ht : o.use_t = false) (ha : o.alternative = "greater") :
    power P o v n d = (P.norm 0).sf ((P.norm 0).isf o.alpha - d / powerSe P o v n) := by
  unfold power nullDist altDist refDist
  simp [ht, ha, hN.sf, PowerOpts.test]

theorem power_z_less (P : Prims α) (hN : NormShift P) (o : PowerOpts α) (v n d : α)
    (ht : o.use_t = false) (ha : o.alternative = "less") :
    power P o v n d = (P.norm 0).cdf ((P.norm 0).ppf o.alpha - d / powerSe P o v n) := by
  unfold power nullDist altDist refDist
  simp [ht, ha, hN.cdf, PowerOpts.test]

/-- **power never decreases when the effect grows in the direction of the alternative** (Z test) -/
theorem power_mono_effect_z (P : Prims α) (hP : P.Laws) (hN : NormShift P) (o : PowerOpts α) (v n d d' : α)
    (ht : o.use_t = false) (hse : 0 < powerSe P o v n) :
    (o.alternative = "greater" → d ≤ d' → power P o v n d ≤ power P o v n d') ∧
    (o.alternative = "less" → d' ≤ d → power P o v n d ≤ power P o v n d') := by
  have hmono := hP.norm_laws.mono.monotone
  have hsf := hP.norm_laws.sf_eq
  constructor
  · intro ha hd
    rw [power_z_greater P hN o v n d ht ha, power_z_greater P hN o v n d' ht ha, hsf, hsf]
    have : d / powerSe P o v n ≤ d' / powerSe P o v n := div_le_div_of_nonneg_right hd hse.le
    have := hmono (show (P.norm 0).isf o.alpha - d' / powerSe P o v n ≤ (P.norm 0).isf o.alpha - d / powerSe P o v n
      by linarith)
    linarith
  · intro ha hd
    rw [power_z_less P hN o v n d ht ha, power_z_less P hN o v n d' ht ha]
    have : d' / powerSe P o v n ≤ d / powerSe P o v n := div_le_div_of_nonneg_right hd hse.le
    exact hmono (by linarith)

/-- **power never decreases when the total sample size grows** (Z test, effect in the direction
of the alternative) -/
theorem power_mono_n_z (P : Prims α) (hP : P.Laws) (hN : NormShift P) (o : PowerOpts α) (v n n' d : α)
    (ht : o.use_t = false) (hv : 0 ≤ v) (hr : 0 < o.ratio) (hn : 2 < n) (hnn : n ≤ n')
    (hse' : 0 < powerSe P o v n') :
    (o.alternative = "greater" → 0 ≤ d → power P o v n d ≤ power P o v n' d) ∧
    (o.alternative = "less" → d ≤ 0 → power P o v n d ≤ power P o v n' d) := by
  have hmono := hP.norm_laws.mono.monotone
  have hsf := hP.norm_laws.sf_eq
  have hle := powerSe_antitone_n hP o v n n' hv hr hn hnn
  have hse : 0 < powerSe P o v n := lt_of_lt_of_le hse' hle
  constructor
  · intro ha hd
    rw [power_z_greater P hN o v n d ht ha, power_z_greater P hN o v n' d ht ha, hsf, hsf]
    have : d / powerSe P o v n ≤ d / powerSe P o v n' := div_le_div_of_nonneg_left hd hse' hle
    have := hmono (show (P.norm 0).isf o.alpha - d / powerSe P o v n' ≤ (P.norm 0).isf o.alpha - d / powerSe P o v n
      by linarith)
    linarith
  · intro ha hd
    rw [power_z_less P hN o v n d ht ha, power_z_less P hN o v n' d ht ha]
    have : (-d) / powerSe P o v n ≤ (-d) / powerSe P o v n' :=
      div_le_div_of_nonneg_left (by linarith) hse' hle
    rw [neg_div, neg_div] at this
    exact hmono (by linarith)

/-- **a smaller variance never lowers the power** (Z test): what adding a covariate does -/
theorem power_mono_variance_z (P : Prims α) (hP : P.Laws) (hN : NormShift P) (o : PowerOpts α) (v v' n d : α)
    (ht : o.use_t = false) (hv : 0 ≤ v') (hvv : v' ≤ v) (hr : 0 < o.ratio) (hn : 2 < n)
    (hse' : 0 < powerSe P o v' n) :
    (o.alternative = "greater" → 0 ≤ d → power P o v n d ≤ power P o v' n d) ∧
    (o.alternative = "less" → d ≤ 0 → power P o v n d ≤ power P o v' n d) := by
  have hmono := hP.norm_laws.mono.monotone
  have hsf := hP.norm_laws.sf_eq
  have hle := powerSe_mono_v hP o v v' n hv hvv hr hn
  have hse : 0 < powerSe P o v n := lt_of_lt_of_le hse' hle
  constructor
  · intro ha hd
    rw [power_z_greater P hN o v n d ht ha, power_z_greater P hN o v' n d ht ha, hsf, hsf]
    have : d / powerSe P o v n ≤ d / powerSe P o v' n := div_le_div_of_nonneg_left hd hse' hle
    have := hmono (show (P.norm 0).isf o.alpha - d / powerSe P o v' n ≤ (P.norm 0).isf o.alpha - d / powerSe P o v n
      by linarith)
    linarith
  · intro ha hd
    rw [power_z_less P hN o v n d ht ha, power_z_less P hN o v' n d ht ha]
    have : (-d) / powerSe P o v n ≤ (-d) / powerSe P o v' n :=
      div_le_div_of_nonneg_left (by linarith) hse' hle
    rw [neg_div, neg_div] at this
    exact hmono (by linarith)

/-- **adding a covariate never raises the variance behind the power calculation**: with the
coefficient `cov/var` computed on the same sample, the adjusted variance is
`var − cov²/var_x ≤ var` -/
theorem cuped_var_le (cfg : RatioCfg α) (a : Aggr α)
    (hx : 0 ≤ Aggr.ratio_var a cfg.numer_covariate cfg.denom_covariate) :
    RatioOfMeans.metric_var cfg a (RatioOfMeans.covariate_coef cfg a)
      ≤ Aggr.ratio_var a (some cfg.numer) cfg.denom := by
  unfold RatioOfMeans.metric_var RatioOfMeans.covariate_coef
  simp only
  split_ifs with h0
  · simp
  · have hpos : 0 < Aggr.ratio_var a cfg.numer_covariate cfg.denom_covariate := lt_of_le_of_ne hx (Ne.symm h0)
    have e : RatioOfMeans.covariate_cov cfg a / Aggr.ratio_var a cfg.numer_covariate cfg.denom_covariate
          * (RatioOfMeans.covariate_cov cfg a / Aggr.ratio_var a cfg.numer_covariate cfg.denom_covariate)
          * Aggr.ratio_var a cfg.numer_covariate cfg.denom_covariate
        - 2 * (RatioOfMeans.covariate_cov cfg a / Aggr.ratio_var a cfg.numer_covariate cfg.denom_covariate)
          * RatioOfMeans.covariate_cov cfg a
        = -(RatioOfMeans.covariate_cov cfg a ^ 2 / Aggr.ratio_var a cfg.numer_covariate cfg.denom_covariate) := by
      field_simp; ring
    have hq : 0 ≤ RatioOfMeans.covariate_cov cfg a ^ 2
        / Aggr.ratio_var a cfg.numer_covariate cfg.denom_covariate := by positivity
    linarith

/-- the non-central t family is stochastically increasing in the non-centrality (assumed of
`scipy.stats.nct`; sampled on a grid each run) -/
structure NctMono (P : Prims α) : Prop where
  cdf : ∀ df nc nc' x, nc ≤ nc' → (P.nct df nc').cdf x ≤ (P.nct df nc).cdf x
  sf : ∀ df nc nc' x, nc ≤ nc' → (P.nct df nc).sf x ≤ (P.nct df nc').sf x

/-- **power never decreases when the effect grows in the direction of the alternative** (t test,
one-sided), given that the non-central t family is stochastically increasing in `nc`.
`_partial`: the two-sided case and monotonicity in `n` for the t test (where the degrees of freedom
move too) are checked numerically, not proved. -/
theorem power_mono_effect_t_partial (P : Prims α) (hT : NctMono P) (o : PowerOpts α) (v n d d' : α)
    (ht : o.use_t = true) (hse : 0 < powerSe P o v n) :
    (o.alternative = "greater" → d ≤ d' → power P o v n d ≤ power P o v n d') ∧
    (o.alternative = "less" → d' ≤ d → power P o v n d ≤ power P o v n d') := by
  constructor
  · intro ha hd
    unfold power altDist
    simp only [ha, ht, if_true]
    exact hT.sf _ _ _ _ (div_le_div_of_nonneg_right hd hse.le)
  · intro ha hd
    unfold power altDist
    have hg : ¬ o.alternative = "greater" := by rw [ha]; decide
    simp only [ha, ht, if_true, show ¬ ("less" : String) = "greater" by decide, if_false]
    exact hT.cdf _ _ _ _ (div_le_div_of_nonneg_right hd hse.le)

/-- for the one-sided level-`a` t test, the rejection probability at a fixed non-centrality in the
direction of the alternative does not decrease with the degrees of freedom (assumed of
`scipy.stats.t` / `nct`; sampled on a grid each run) -/
structure TTestMonoDf (P : Prims α) (a : α) : Prop where
  greater : ∀ df df' nc, df ≤ df' → 0 ≤ nc →
    (P.nct df nc).sf ((P.t df).isf a) ≤ (P.nct df' nc).sf ((P.t df').isf a)
  less : ∀ df df' nc, df ≤ df' → nc ≤ 0 →
    (P.nct df nc).cdf ((P.t df).ppf a) ≤ (P.nct df' nc).cdf ((P.t df').ppf a)

/-- the pooled degrees of freedom `n − 2` grow with `n` -/
theorem degF_pooled_mono_n (o : PowerOpts α) (v n n' : α) (he : o.equal_var = true) (hr : 0 < o.ratio)
    (hnn : n ≤ n') :
    degF o.test v (nControl n o.ratio) v (nTreatment n o.ratio)
      ≤ degF o.test v (nControl n' o.ratio) v (nTreatment n' o.ratio) := by
  have h1 : (1 : α) + o.ratio ≠ 0 := by linarith
  have e : ∀ m : α, nControl m o.ratio + nTreatment m o.ratio = m := by
    intro m; unfold nControl nTreatment; field_simp
  simp only [degF, PowerOpts.test, he, if_true, e]
  linarith

/-- **power never decreases when the total sample size grows** (t test, one-sided, effect in the
direction of the alternative), given that the non-central t family is stochastically increasing
in `nc` (`NctMono`), that the level-alpha t test does not lose power with more degrees of freedom
(`TTestMonoDf`) and that the degrees of freedom do not decrease from `n` to `n'` (`hdf`: proved
for the pooled test in `degF_pooled_mono_n`; for Welch's test with equal group variances it is
checked numerically).  `_partial`: the two laws are hypotheses about scipy's distributions, and
the two-sided case is checked numerically, not proved. -/
theorem power_mono_n_t_partial (P : Prims α) (hP : P.Laws) (hT : NctMono P) (o : PowerOpts α)
    (hD : TTestMonoDf P o.alpha) (v n n' d : α)
    (ht : o.use_t = true) (hv : 0 ≤ v) (hr : 0 < o.ratio) (hn : 2 < n) (hnn : n ≤ n')
    (hse' : 0 < powerSe P o v n')
    (hdf : degF o.test v (nControl n o.ratio) v (nTreatment n o.ratio)
      ≤ degF o.test v (nControl n' o.ratio) v (nTreatment n' o.ratio)) :
    (o.alternative = "greater" → 0 ≤ d → power P o v n d ≤ power P o v n' d) ∧
    (o.alternative = "less" → d ≤ 0 → power P o v n d ≤ power P o v n' d) := by
  have hle := powerSe_antitone_n hP o v n n' hv hr hn hnn
  have hse : 0 < powerSe P o v n := lt_of_lt_of_le hse' hle
  have htt : o.test.use_t = true := ht
  constructor
  · intro ha hd
    unfold power altDist nullDist refDist
    simp only [ha, ht, htt, if_true]
    have hnc : d / powerSe P o v n ≤ d / powerSe P o v n' := div_le_div_of_nonneg_left hd hse' hle
    have hnc0 : 0 ≤ d / powerSe P o v n' := div_nonneg hd hse'.le
    exact le_trans (hT.sf _ _ _ _ hnc) (hD.greater _ _ _ hdf hnc0)
  · intro ha hd
    unfold power altDist nullDist refDist
    simp only [ha, ht, htt, if_true, show ¬ ("less" : String) = "greater" by decide, if_false]
    have hnc : d / powerSe P o v n' ≤ d / powerSe P o v n := by
      have := div_le_div_of_nonneg_left (show 0 ≤ -d by linarith) hse' hle
      rw [neg_div, neg_div] at this
      linarith
    have hnc0 : d / powerSe P o v n' ≤ 0 := div_nonpos_of_nonpos_of_nonneg hd hse'.le
    exact le_trans (hT.cdf _ _ _ _ hnc) (hD.less _ _ _ hdf hnc0)

end C08
