import TeaTasting.Props.C06

/-! # C05 — RatioOfMeans is the delta method: the t/Z test on linearised observations -/

open Spec Gen

set_option linter.unusedSectionVars false

variable {α ρ : Type} [Field α] [LinearOrder α] [IsStrictOrderedRing α]

namespace C05

/-- without a covariate the adjusted observations are the linearised observations -/
theorem cupedTest_no_cov (P : Prims α) (o : Opts α) (x : String) (d : Option String)
    (col : String → ρ → α) (Tc Tt : List ρ) (hc : 1 ≤ Tc.length) :
    cupedTest P o ⟨x, d, none, none⟩ col Tc Tt
      = twoSample P o Tc (lin Tc (col x) (colO col d)) Tt (lin Tt (col x) (colO col d)) := by
  have nT : ((Tc ++ Tt).length : α) ≠ 0 := natCast_ne_zero_of_pos (by simp; omega)
  have th0 : theta ⟨x, d, none, none⟩ col Tc Tt = 0 := by
    unfold theta thetaOf
    have : svar (Tc ++ Tt) (linX ⟨x, d, none, none⟩ col (Tc ++ Tt)) = 0 := by
      simp only [linX, colO, lin_one _ _ nT, svar, scov_const_left _ _ _ nT]
    simp [this]
  unfold cupedTest adjusted
  simp only [th0, zero_mul, sub_zero]
  rfl

theorem S_one_ne_zero (T : List ρ) (h : 1 ≤ T.length) : S T (fun _ => (1 : α)) ≠ 0 := by
  rw [S_const, mul_one]; exact natCast_ne_zero_of_pos h

/-- **C05, main statement.**  For every data set with non-zero denominator means (per variant
and pooled) and every option cell, `RatioOfMeans(x, y).analyze` computed from the aggregates
equals the textbook two-sample test applied, per variant `g`, to the linearised observations
`r_g + (xᵢ − r_g·yᵢ)/mean_g(y)`. -/
theorem ratio_analyze_eq_textbook (P : Prims α) (hP : P.QuantileLaws) (cfg : RatioCfg α)
    (hnc : cfg.numer_covariate = none) (hdc : cfg.denom_covariate = none)
    (hc0 : 0 < cfg.confidence_level) (hc1 : cfg.confidence_level < 1)
    (col : String → ρ → α) (Tc Tt : List ρ) (hc : 2 ≤ Tc.length) (ht : 2 ≤ Tt.length)
    (dc : S Tc (colO col cfg.denom) ≠ 0) (dt : S Tt (colO col cfg.denom) ≠ 0)
    (dT : S (Tc ++ Tt) (colO col cfg.denom) ≠ 0) :
    RatioOfMeans.analyze_aggregates P cfg (aggrOf Tc col) (aggrOf Tt col)
      = twoSample P (optsOf cfg) Tc (lin Tc (col cfg.numer) (colO col cfg.denom))
          Tt (lin Tt (col cfg.numer) (colO col cfg.denom)) := by
  have vg : ∀ T : List ρ, 2 ≤ T.length → S T (colO col cfg.denom) ≠ 0 →
      ValidGroup (rolesOf cfg) col T := by
    intro T h2 hd
    refine ⟨h2, hd, ?_⟩
    show S T (colO col cfg.denom_covariate) ≠ 0
    rw [hdc]; exact S_one_ne_zero T (by omega)
  rw [C06.cuped_analyze_eq_textbook P hP cfg hc0 hc1 col Tc Tt (vg _ hc dc) (vg _ ht dt)
    (vg _ (by simp; omega) dT)]
  have hR : rolesOf cfg = ⟨cfg.numer, cfg.denom, none, none⟩ := by
    unfold rolesOf; rw [hnc, hdc]
  rw [hR, cupedTest_no_cov P _ _ _ col Tc Tt (by omega)]

/-- `Mean(value, covariate)` coincides with `RatioOfMeans(value, None, covariate, None)`:
the generated constructor map of `Mean.__init__` -/
theorem mean_eq_ratio_none (P : Prims α) (base : RatioCfg α) (v : String) (cov : Option String)
    (c t : Aggr α) :
    RatioOfMeans.analyze_aggregates P (Mean.cfg v cov base) c t
      = RatioOfMeans.analyze_aggregates P
          { base with numer := v, denom := none, numer_covariate := cov, denom_covariate := none } c t := rfl

/-- a ratio whose denominator is absent gives exactly the `Mean` result -/
theorem ratio_denom_none_eq_mean (P : Prims α) (cfg : RatioCfg α) (hd : cfg.denom = none)
    (hdc : cfg.denom_covariate = none) (c t : Aggr α) :
    RatioOfMeans.analyze_aggregates P cfg c t
      = RatioOfMeans.analyze_aggregates P (Mean.cfg cfg.numer cfg.numer_covariate cfg) c t := by
  have : Mean.cfg cfg.numer cfg.numer_covariate cfg = cfg := by
    unfold Mean.cfg
    cases cfg
    simp_all
  rw [this]

/-- a ratio whose denominator is a column of ones gives exactly the `Mean` result
(for raw data, through the aggregates: mean 1, variance 0, covariance 0 with everything) -/
theorem ratio_denom_ones_eq_mean (P : Prims α) (hP : P.QuantileLaws) (cfg : RatioCfg α) (z : String)
    (hd : cfg.denom = some z) (hnc : cfg.numer_covariate = none) (hdc : cfg.denom_covariate = none)
    (hc0 : 0 < cfg.confidence_level) (hc1 : cfg.confidence_level < 1)
    (col : String → ρ → α) (hz : col z = fun _ => 1)
    (Tc Tt : List ρ) (hc : 2 ≤ Tc.length) (ht : 2 ≤ Tt.length) :
    RatioOfMeans.analyze_aggregates P cfg (aggrOf Tc col) (aggrOf Tt col)
      = RatioOfMeans.analyze_aggregates P (Mean.cfg cfg.numer none cfg) (aggrOf Tc col) (aggrOf Tt col) := by
  have one : ∀ T : List ρ, 1 ≤ T.length → S T (colO col (some z)) ≠ 0 := by
    intro T h; simp only [colO, hz]; exact S_one_ne_zero T h
  rw [ratio_analyze_eq_textbook P hP cfg hnc hdc hc0 hc1 col Tc Tt hc ht
    (by rw [hd]; exact one _ (by omega)) (by rw [hd]; exact one _ (by omega))
    (by rw [hd]; exact one _ (by simp; omega))]
  rw [ratio_analyze_eq_textbook P hP (Mean.cfg cfg.numer none cfg) rfl rfl hc0 hc1 col Tc Tt hc ht
    (S_one_ne_zero _ (by omega)) (S_one_ne_zero _ (by omega)) (S_one_ne_zero _ (by simp; omega))]
  simp only [hd, colO, hz, Mean.cfg]
  rfl

end C05
