import TeaTasting.Gen.Safe
import TeaTasting.Gen.Utils
import TeaTasting.Props.C06
import TeaTasting.Props.C07
import Mathlib.Tactic.SplitIfs

/-! # C18 — degenerate but valid data gives NaN/inf results, never an exception

About the GENERATED safety rendering `Gen/Safe.lean` of `aggr.py` / `metrics/mean.py`
(see `Basic/Safe.lean` for what is interpreted and what is not). -/

open Gen

variable {V : Type}

namespace C18

/-! ## tagged-value arithmetic -/

@[simp] theorem add_w (A : Arith V) (a b : SV V) : (SV.add A a b).w = SV.wr a b := rfl
@[simp] theorem sub_w (A : Arith V) (a b : SV V) : (SV.sub A a b).w = SV.wr a b := rfl
@[simp] theorem mul_w (A : Arith V) (a b : SV V) : (SV.mul A a b).w = SV.wr a b := rfl
@[simp] theorem add_i (A : Arith V) (a b : SV V) : (SV.add A a b).i = (a.i && b.i) := rfl
@[simp] theorem sub_i (A : Arith V) (a b : SV V) : (SV.sub A a b).i = (a.i && b.i) := rfl
@[simp] theorem mul_i (A : Arith V) (a b : SV V) : (SV.mul A a b).i = (a.i && b.i) := rfl
@[simp] theorem neg_w (A : Arith V) (a : SV V) : (SV.neg A a).w = a.w := rfl
@[simp] theorem abs_w (A : Arith V) (a : SV V) : (SV.abs A a).w = a.w := rfl
@[simp] theorem lit_w (A : Arith V) (n : Int) : (SV.lit A n).w = false := rfl
@[simp] theorem lit_i (A : Arith V) (n : Int) : (SV.lit A n).i = true := rfl
@[simp] theorem lit_v (A : Arith V) (n : Int) : (SV.lit A n).v = A.lit n := rfl

/-- dispatch to the wrapper: a wrapped left operand always; a wrapped right operand when the left
one is int-like (a plain int defers to `Int.__rop__` / `Float.__rop__`) -/
@[simp] theorem wr_left (a b : SV V) (h : a.w = true) : SV.wr a b = true := by simp [SV.wr, h]
theorem wr_right_int (a b : SV V) (hb : b.w = true) (ha : a.i = true) : SV.wr a b = true := by
  simp [SV.wr, hb, ha]

/-- a division with a zero-division-safe operand never raises and gives a safe number -/
theorem div_wrapped (A : Arith V) (a b : SV V) (h : SV.wr a b = true) :
    SV.div A a b = .ok ⟨A.divW a.v b.v, true, false⟩ := by
  unfold SV.div; simp [h]

/-- a plain division by a non-zero literal does not raise -/
theorem div_lit (A : Arith V) (a : SV V) (n : Int) (hn : n ≠ 0) (ha : a.w = false) :
    SV.div A a (SV.lit A n) = .ok ⟨A.divP a.v (A.lit n), false, false⟩ := by
  unfold SV.div
  simp [SV.wr, ha, A.eq_lit, hn]

/-- dividing by a non-zero literal never raises, whatever the numerator is -/
theorem div_lit_ok (A : Arith V) (a : SV V) (n : Int) (hn : n ≠ 0) : ∃ x, SV.div A a (SV.lit A n) = .ok x := by
  unfold SV.div
  cases h : SV.wr a (SV.lit A n) <;> simp [A.eq_lit, hn]

/-- the clamped square root never raises -/
theorem sqrt_clamped (A : Arith V) (x : SV V) :
    SV.sqrt A (SV.max A x (SV.lit A 0)) = .ok ⟨A.sqrtV (A.max x.v (A.lit 0)), false, false⟩ := by
  unfold SV.sqrt SV.max
  simp [A.max_zero_not_neg]

/-! ## aggregates all of whose numbers are zero-division-safe -/

/-- every entry is defined (the keys the metric needs are present) -/
structure Defined (a : AggrS V) : Prop where
  mean : ∀ c, ∃ x, a.mean_ c = .ok x
  var : ∀ c, ∃ x, a.var_ c = .ok x
  cov : ∀ c d, ∃ x, a.cov_ c d = .ok x

/-- every entry is defined and wrapped — what `with_zero_div()` establishes -/
structure Wrapped (a : AggrS V) : Prop where
  count : a.count_.w = true
  mean : ∀ c, ∃ x, a.mean_ c = .ok x ∧ x.w = true
  var : ∀ c, ∃ x, a.var_ c = .ok x ∧ x.w = true
  cov : ∀ c d, ∃ x, a.cov_ c d = .ok x ∧ x.w = true

theorem withZeroDiv_wrapped (a : AggrS V) (h : Defined a) : Wrapped (AggrS.withZeroDiv a) := by
  refine ⟨rfl, fun c => ?_, fun c => ?_, fun c d => ?_⟩
  · obtain ⟨x, hx⟩ := h.mean c; exact ⟨⟨x.v, true, x.i⟩, by simp [AggrS.withZeroDiv, hx, Except.map], rfl⟩
  · obtain ⟨x, hx⟩ := h.var c; exact ⟨⟨x.v, true, x.i⟩, by simp [AggrS.withZeroDiv, hx, Except.map], rfl⟩
  · obtain ⟨x, hx⟩ := h.cov c d; exact ⟨⟨x.v, true, x.i⟩, by simp [AggrS.withZeroDiv, hx, Except.map], rfl⟩

theorem countS_ok (A : Arith V) (a : AggrS V) : Aggr.countS A a = .ok a.count_ := rfl

theorem meanS_ok (A : Arith V) (a : AggrS V) (h : Wrapped a) (o : Option String) :
    ∃ x, Aggr.meanS A a o = .ok x ∧ (o.isSome = true → x.w = true) ∧ (o = none → x = SV.lit A 1) := by
  cases o with
  | none => exact ⟨SV.lit A 1, rfl, by simp, fun _ => rfl⟩
  | some c =>
    obtain ⟨x, hx, hw⟩ := h.mean c
    refine ⟨x, ?_, fun _ => hw, by simp⟩
    simp [Aggr.meanS, hx, bind, Except.bind, pure, Except.pure]

theorem varS_ok (A : Arith V) (a : AggrS V) (h : Wrapped a) (o : Option String) :
    ∃ x, Aggr.varS A a o = .ok x ∧ (o.isSome = true → x.w = true) ∧ (o = none → x = SV.lit A 0) := by
  cases o with
  | none => exact ⟨SV.lit A 0, rfl, by simp, fun _ => rfl⟩
  | some c =>
    obtain ⟨x, hx, hw⟩ := h.var c
    refine ⟨x, ?_, fun _ => hw, by simp⟩
    simp [Aggr.varS, hx, bind, Except.bind, pure, Except.pure]

theorem covS_ok (A : Arith V) (a : AggrS V) (h : Wrapped a) (o₁ o₂ : Option String) :
    ∃ x, Aggr.covS A a o₁ o₂ = .ok x ∧ ((o₁.isSome = true ∧ o₂.isSome = true) → x.w = true) ∧
      ((o₁ = none ∨ o₂ = none) → x = SV.lit A 0) := by
  cases o₁ with
  | none => exact ⟨SV.lit A 0, by cases o₂ <;> rfl, by simp, fun _ => rfl⟩
  | some c =>
    cases o₂ with
    | none => exact ⟨SV.lit A 0, rfl, by simp, fun _ => rfl⟩
    | some d =>
      obtain ⟨x, hx, hw⟩ := h.cov (sortedTuple c d).1 (sortedTuple c d).2
      refine ⟨x, ?_, fun _ => hw, by simp⟩
      simp [Aggr.covS, hx, bind, Except.bind, pure, Except.pure]

/-- simp set that evaluates a do-block of the safety rendering once the sub-calls are known -/
macro "safe_simp" : tactic =>
  `(tactic| simp [bind, Except.bind, pure, Except.pure, SV.div, SV.add, SV.sub, SV.mul, SV.lit, SV.pow2,
      Arith.mul_lit, Arith.add_lit, Arith.sub_lit, Arith.eq_lit, *])

/-- discharge the next division of a do-block: dispatched to the wrapper, or a non-zero literal divisor -/
macro "safe_div" : tactic => `(tactic| first
  | (rw [div_wrapped]; (case h => simp [SV.wr, *]); (try simp only []))
  | (rw [div_lit]; (case hn => decide); (case ha => simp [SV.wr, *]); (try simp only [])))

theorem ratio_varS_ok (A : Arith V) (a : AggrS V) (h : Wrapped a) (n d : Option String) :
    ∃ x, Aggr.ratio_varS A a n d = .ok x ∧ ((n.isSome = true ∨ d.isSome = true) → x.w = true) := by
  obtain ⟨mn, hmn, wmn, lmn⟩ := meanS_ok A a h n
  obtain ⟨md, hmd, wmd, lmd⟩ := meanS_ok A a h d
  obtain ⟨vn, hvn, wvn, lvn⟩ := varS_ok A a h n
  obtain ⟨vd, hvd, wvd, lvd⟩ := varS_ok A a h d
  obtain ⟨c, hc, wc, lc⟩ := covS_ok A a h n d
  unfold Aggr.ratio_varS
  simp only [bind, Except.bind, pure, Except.pure, hmn, hmd, hvn, hvd, hc]
  cases d with
  | some dd =>
    have w1 : md.w = true := wmd rfl
    cases n with
    | some nn =>
      have w2 : mn.w = true := wmn rfl
      have w3 : vn.w = true := wvn rfl
      safe_div; safe_div; safe_div
      exact ⟨_, rfl, fun _ => rfl⟩
    | none =>
      have e4 := lmn rfl
      have e5 := lvn rfl
      have e6 := lc (Or.inl rfl)
      subst e4 e5 e6
      safe_div; safe_div; safe_div
      exact ⟨_, rfl, fun _ => rfl⟩
  | none =>
    have e1 := lmd rfl
    have e2 := lvd rfl
    have e3 := lc (Or.inr rfl)
    subst e1 e2 e3
    cases n with
    | some nn =>
      have w1 : mn.w = true := wmn rfl
      have w2 : vn.w = true := wvn rfl
      safe_div; safe_div; safe_div
      exact ⟨_, rfl, fun _ => rfl⟩
    | none =>
      have e4 := lmn rfl
      have e5 := lvn rfl
      subst e4 e5
      simp [SV.div, SV.wr, SV.add, SV.sub, SV.mul, SV.lit, Arith.mul_lit, Arith.add_lit, Arith.sub_lit, Arith.eq_lit]

theorem ratio_covS_ok (A : Arith V) (a : AggrS V) (h : Wrapped a) (ln : String) (ld rn rd : Option String) :
    ∃ x, Aggr.ratio_covS A a (some ln) ld rn rd = .ok x ∧ x.w = true := by
  obtain ⟨m1, hm1, wm1, _⟩ := meanS_ok A a h (some ln)
  obtain ⟨m2, hm2, wm2, lm2⟩ := meanS_ok A a h ld
  obtain ⟨m3, hm3, wm3, lm3⟩ := meanS_ok A a h rn
  obtain ⟨m4, hm4, wm4, lm4⟩ := meanS_ok A a h rd
  obtain ⟨c1, hc1, _, _⟩ := covS_ok A a h (some ln) rn
  obtain ⟨c2, hc2, _, _⟩ := covS_ok A a h (some ln) rd
  obtain ⟨c3, hc3, _, _⟩ := covS_ok A a h ld rn
  obtain ⟨c4, hc4, _, _⟩ := covS_ok A a h ld rd
  have w1 : m1.w = true := wm1 rfl
  unfold Aggr.ratio_covS
  simp only [bind, Except.bind, pure, Except.pure, hm1, hm2, hm3, hm4, hc1, hc2, hc3, hc4]
  safe_div
  cases rn with
  | some r1 =>
    have w3 : m3.w = true := wm3 rfl
    safe_div; safe_div; safe_div
    exact ⟨_, rfl, rfl⟩
  | none =>
    cases rd with
    | some r2 =>
      have w4 : m4.w = true := wm4 rfl
      safe_div; safe_div; safe_div
      exact ⟨_, rfl, rfl⟩
    | none =>
      have e3 := lm3 rfl
      have e4 := lm4 rfl
      subst e3 e4
      safe_div; safe_div; safe_div
      exact ⟨_, rfl, rfl⟩

theorem addMeanS_ok (A : Arith V) (a b : AggrS V) (ha : Wrapped a) (hb : Wrapped b) (c : String) :
    ∃ x, addMeanS A a b c = .ok x ∧ x.w = true := by
  obtain ⟨m1, h1, _, _⟩ := meanS_ok A a ha (some c)
  obtain ⟨m2, h2, _, _⟩ := meanS_ok A b hb (some c)
  have wa := ha.count
  unfold addMeanS
  simp only [bind, Except.bind, pure, Except.pure, countS_ok, h1, h2]
  safe_div
  exact ⟨_, rfl, rfl⟩

theorem addVarS_ok (A : Arith V) (a b : AggrS V) (ha : Wrapped a) (hb : Wrapped b) (c : String) :
    ∃ x, addVarS A a b c = .ok x ∧ x.w = true := by
  obtain ⟨m1, h1, _, _⟩ := meanS_ok A a ha (some c)
  obtain ⟨m2, h2, _, _⟩ := meanS_ok A b hb (some c)
  obtain ⟨v1, g1, _, _⟩ := varS_ok A a ha (some c)
  obtain ⟨v2, g2, _, _⟩ := varS_ok A b hb (some c)
  have wa := ha.count
  unfold addVarS
  simp only [bind, Except.bind, pure, Except.pure, countS_ok, h1, h2, g1, g2]
  safe_div; safe_div
  exact ⟨_, rfl, rfl⟩

theorem addCovS_ok (A : Arith V) (a b : AggrS V) (ha : Wrapped a) (hb : Wrapped b) (p : String × String) :
    ∃ x, addCovS A a b p = .ok x ∧ x.w = true := by
  obtain ⟨m1, h1, _, _⟩ := meanS_ok A a ha (some p.1)
  obtain ⟨m2, h2, _, _⟩ := meanS_ok A b hb (some p.1)
  obtain ⟨m3, h3, _, _⟩ := meanS_ok A a ha (some p.2)
  obtain ⟨m4, h4, _, _⟩ := meanS_ok A b hb (some p.2)
  obtain ⟨c1, g1, _, _⟩ := covS_ok A a ha (some p.1) (some p.2)
  obtain ⟨c2, g2, _, _⟩ := covS_ok A b hb (some p.1) (some p.2)
  have wa := ha.count
  unfold addCovS
  simp only [bind, Except.bind, pure, Except.pure, countS_ok, h1, h2, h3, h4, g1, g2]
  safe_div; safe_div
  exact ⟨_, rfl, rfl⟩

/-- **the sum of two wrapped aggregates is defined and wrapped — every entry, for every key**
(this is the eager dictionary construction of `Aggregates.__add__`) -/
theorem addS_entries_ok (A : Arith V) (a b : AggrS V) (ha : Wrapped a) (hb : Wrapped b) :
    ∃ t, Aggr.addS A a b = .ok t ∧ Wrapped t := by
  unfold Aggr.addS
  simp only [bind, Except.bind, pure, Except.pure, countS_ok]
  refine ⟨_, rfl, ?_, fun c => addMeanS_ok A a b ha hb c, fun c => addVarS_ok A a b ha hb c,
    fun c d => addCovS_ok A a b ha hb (c, d)⟩
  simp [ha.count]

theorem covariate_covS_ok (A : Arith V) (cfg : RatioCfgS V) (a : AggrS V) (h : Wrapped a) :
    ∃ x, RatioOfMeans.covariate_covS A cfg a = .ok x ∧ x.w = true := by
  obtain ⟨x, hx, hw⟩ := ratio_covS_ok A a h cfg.numer cfg.denom cfg.numer_covariate cfg.denom_covariate
  unfold RatioOfMeans.covariate_covS
  simp only [bind, Except.bind, pure, Except.pure, hx]
  exact ⟨_, rfl, hw⟩

/-- the regression coefficient never raises: the division is guarded by `covariate_var == 0` -/
theorem covariate_coefS_ok (A : Arith V) (cfg : RatioCfgS V) (a : AggrS V) (h : Wrapped a) :
    ∃ x, RatioOfMeans.covariate_coefS A cfg a = .ok x := by
  obtain ⟨cv, hcv, _⟩ := ratio_varS_ok A a h cfg.numer_covariate cfg.denom_covariate
  obtain ⟨cc, hcc, wcc⟩ := covariate_covS_ok A cfg a h
  unfold RatioOfMeans.covariate_coefS
  simp only [bind, Except.bind, pure, Except.pure, hcv, hcc]
  split_ifs
  · exact ⟨_, rfl⟩
  · safe_div
    exact ⟨_, rfl⟩

theorem metric_meanS_ok (A : Arith V) (cfg : RatioCfgS V) (a : AggrS V) (h : Wrapped a) (coef cm : SV V) :
    ∃ x, RatioOfMeans.metric_meanS A cfg a coef cm = .ok x ∧ x.w = true := by
  obtain ⟨m1, h1, w1, _⟩ := meanS_ok A a h (some cfg.numer)
  obtain ⟨m2, h2, _, _⟩ := meanS_ok A a h cfg.denom
  obtain ⟨m3, h3, w3, l3⟩ := meanS_ok A a h cfg.numer_covariate
  obtain ⟨m4, h4, w4, l4⟩ := meanS_ok A a h cfg.denom_covariate
  have hw1 : m1.w = true := w1 rfl
  unfold RatioOfMeans.metric_meanS
  simp only [bind, Except.bind, pure, Except.pure, h1, h2, h3, h4]
  safe_div
  cases hn : cfg.numer_covariate with
  | some c =>
    have : m3.w = true := w3 (by rw [hn]; rfl)
    safe_div
    exact ⟨_, rfl, by simp [hw1]⟩
  | none =>
    cases hd : cfg.denom_covariate with
    | some d =>
      have : m4.w = true := w4 (by rw [hd]; rfl)
      safe_div
      exact ⟨_, rfl, by simp [hw1]⟩
    | none =>
      have e3 := l3 hn
      have e4 := l4 hd
      subst e3 e4
      safe_div
      exact ⟨_, rfl, by simp [hw1]⟩

theorem metric_varS_ok (A : Arith V) (cfg : RatioCfgS V) (a : AggrS V) (h : Wrapped a) (coef : SV V) :
    ∃ x, RatioOfMeans.metric_varS A cfg a coef = .ok x ∧ x.w = true := by
  obtain ⟨v, hv, wv⟩ := ratio_varS_ok A a h (some cfg.numer) cfg.denom
  obtain ⟨cv, hcv, _⟩ := ratio_varS_ok A a h cfg.numer_covariate cfg.denom_covariate
  obtain ⟨cc, hcc, _⟩ := covariate_covS_ok A cfg a h
  unfold RatioOfMeans.metric_varS
  simp only [bind, Except.bind, pure, Except.pure, hv, hcv, hcc]
  exact ⟨_, rfl, by simp [wv (Or.inl rfl)]⟩

/-- the standard error and reference distribution never raise when variances and counts are
zero-division-safe numbers: every division is dispatched to the wrapper, the square root is
clamped.  (A PLAIN float variance over a `utils.Int` count would be handled by `float.__truediv__`
and could raise — the variances reaching this function are wrapped: `metric_varS_ok`.) -/
theorem scale_and_distr_nullS_ok (A : Arith V) (P : PrimsS V) (cfg : RatioCfgS V) (cv cn tv tn : SV V)
    (hcv : cv.w = true) (htv : tv.w = true) (hcn : cn.w = true) (htn : tn.w = true) :
    ∃ x, RatioOfMeans.scale_and_distr_nullS A P cfg cv cn tv tn = .ok x ∧ x.1.w = false := by
  unfold RatioOfMeans.scale_and_distr_nullS
  cases cfg.equal_var <;> cases cfg.use_t <;>
    simp only [bind, Except.bind, pure, Except.pure, if_true, if_false, Bool.false_eq_true] <;>
    (repeat safe_div) <;> rw [sqrt_clamped] <;> (try simp only []) <;> (repeat safe_div) <;>
    exact ⟨_, rfl, rfl⟩

/-- `_analyze_stats` never raises when the two means are zero-division-safe numbers (they are:
`metric_meanS_ok`) — whatever the variances are (negative, NaN, infinite …) -/
theorem analyze_statsS_ok (A : Arith V) (P : PrimsS V) (cfg : RatioCfgS V) (cm cv cn tm tv tn : SV V)
    (hcm : cm.w = true) (htm : tm.w = true) (hcv : cv.w = true) (htv : tv.w = true)
    (hcn : cn.w = true) (htn : tn.w = true) :
    ∃ r, RatioOfMeans.analyze_statsS A P cfg cm cv cn tm tv tn = .ok r := by
  obtain ⟨s1, h1, w1⟩ := scale_and_distr_nullS_ok A P cfg cv cn tv tn hcv htv hcn htn
  unfold RatioOfMeans.analyze_statsS
  simp only [bind, Except.bind, pure, Except.pure, h1]
  safe_div; safe_div; safe_div; safe_div
  obtain ⟨s2, h2, w2⟩ := scale_and_distr_nullS_ok A P cfg ⟨A.divW (A.divW cv.v cm.v) cm.v, true, false⟩ cn
    ⟨A.divW (A.divW tv.v tm.v) tm.v, true, false⟩ tn rfl rfl hcn htn
  simp only [h2]
  safe_div; safe_div
  split_ifs
  · exact ⟨_, rfl⟩
  · exact ⟨_, rfl⟩
  · obtain ⟨q, hq⟩ := div_lit_ok A (SV.add A (SV.lit A 1) cfg.confidence_level) 2 (by decide)
    simp only [hq]
    safe_div
    exact ⟨_, rfl⟩

/-- **C18, main statement.**  For EVERY interpretation of the arithmetic (so for whatever rounding,
NaN or infinity produce), every metric configuration and every pair of aggregates whose entries
are present — zero or negative "variances", zero means, zero denominators included — the
analysis returns a result: no `ZeroDivisionError`, no `math domain error`, no `OverflowError`. -/
theorem analyze_never_raises (A : Arith V) (P : PrimsS V) (cfg : RatioCfgS V) (control treatment : AggrS V)
    (hc : Defined control) (ht : Defined treatment) :
    ∃ r, RatioOfMeans.analyze_aggregatesS A P cfg control treatment = .ok r := by
  have wc := withZeroDiv_wrapped control hc
  have wt := withZeroDiv_wrapped treatment ht
  obtain ⟨total, htot, wtot⟩ := addS_entries_ok A _ _ wc wt
  obtain ⟨coef, hcoef⟩ := covariate_coefS_ok A cfg total wtot
  obtain ⟨m3, h3, w3, l3⟩ := meanS_ok A total wtot cfg.numer_covariate
  obtain ⟨m4, h4, w4, l4⟩ := meanS_ok A total wtot cfg.denom_covariate
  unfold RatioOfMeans.analyze_aggregatesS
  simp only [bind, Except.bind, pure, Except.pure, htot, hcoef, h3, h4, countS_ok]
  have hdiv : ∃ cmv, SV.div A m3 m4 = .ok cmv := by
    cases hn : cfg.numer_covariate with
    | some c => have : m3.w = true := w3 (by rw [hn]; rfl)
                safe_div; exact ⟨_, rfl⟩
    | none =>
      cases hd : cfg.denom_covariate with
      | some d => have : m4.w = true := w4 (by rw [hd]; rfl)
                  safe_div; exact ⟨_, rfl⟩
      | none =>
        have e3 := l3 hn
        have e4 := l4 hd
        subst e3 e4
        safe_div; exact ⟨_, rfl⟩
  obtain ⟨cmv, hcmv⟩ := hdiv
  obtain ⟨mc, hmc, wmc⟩ := metric_meanS_ok A cfg _ wc coef cmv
  obtain ⟨vc, hvc, wvc⟩ := metric_varS_ok A cfg _ wc coef
  obtain ⟨mt, hmt, wmt⟩ := metric_meanS_ok A cfg _ wt coef cmv
  obtain ⟨vt, hvt, wvt⟩ := metric_varS_ok A cfg _ wt coef
  simp only [hcmv, hmc, hvc, hmt, hvt]
  exact analyze_statsS_ok A P cfg mc vc _ mt vt _ wmc wmt wvc wvt wc.count wt.count

/-! ## the documented zero-division rule, exact values of the well-defined fields -/

/-- **`x / 0` is `+inf` for `x > 0` and NaN otherwise** (negative, zero or NaN numerator) -/
theorem div_rule (numer quot : XR) :
    Gen.divAuto numer (XR.fin 0) quot = (if XR.lt (XR.fin 0) numer then XR.pinf else XR.nan) := by
  simp [Gen.divAuto, XR.eq]

theorem div_rule_cases :
    (∀ q : ℚ, 0 < q → ∀ quot, Gen.divAuto (XR.fin q) (XR.fin 0) quot = XR.pinf) ∧
    (∀ q : ℚ, q ≤ 0 → ∀ quot, Gen.divAuto (XR.fin q) (XR.fin 0) quot = XR.nan) ∧
    (∀ quot, Gen.divAuto XR.pinf (XR.fin 0) quot = XR.pinf) ∧
    (∀ quot, Gen.divAuto XR.nan (XR.fin 0) quot = XR.nan) ∧
    (∀ quot, Gen.divAuto XR.ninf (XR.fin 0) quot = XR.nan) := by
  refine ⟨fun q hq quot => ?_, fun q hq quot => ?_, fun _ => ?_, fun _ => ?_, fun _ => ?_⟩ <;>
    simp [Gen.divAuto, XR.eq, XR.lt]
  · exact hq
  · exact hq

/-- a non-zero divisor is divided normally -/
theorem div_nonzero (numer quot : XR) (d : ℚ) (hd : d ≠ 0) : Gen.divAuto numer (XR.fin d) quot = quot := by
  simp [Gen.divAuto, XR.eq, hd]

section Exact
variable {α ρ : Type} [Field α] [LinearOrder α] [IsStrictOrderedRing α]

/-- **fields that are still well defined keep their exact values whatever the variances are**:
the reported means are the (adjusted) means handed in, the effect is their difference and the
relative effect their ratio minus one — for every variance argument (zero, negative, …) -/
theorem well_defined_fields_exact (P : Prims α) (cfg : RatioCfg α) (cm tm cn tn : α) (cv tv cv' tv' : α) :
    let r := RatioOfMeans.analyze_stats P cfg cm cv cn tm tv tn
    let r' := RatioOfMeans.analyze_stats P cfg cm cv' cn tm tv' tn
    r.control = cm ∧ r.treatment = tm ∧ r.effect_size = tm - cm ∧ r.rel_effect_size = tm / cm - 1 ∧
    r'.control = r.control ∧ r'.treatment = r.treatment ∧ r'.effect_size = r.effect_size ∧
    r'.rel_effect_size = r.rel_effect_size := by
  intro r r'
  obtain ⟨a1, a2, a3, a4⟩ := C07.effect_eq P cfg cm cv cn tm tv tn
  obtain ⟨b1, b2, b3, b4⟩ := C07.effect_eq P cfg cm cv' cn tm tv' tn
  simp only [r, r']
  refine ⟨a3, a4, ?_, ?_, ?_, ?_, ?_, ?_⟩
  · rw [a1, a3, a4]
  · rw [a2, a3, a4]
  · rw [b3, a3]
  · rw [b4, a4]
  · rw [b1, b3, b4, a1, a3, a4]
  · rw [b2, b3, b4, a2, a3, a4]

/-- **in exact arithmetic the adjusted variance of real data is never negative** (it is the
sample variance of the adjusted observations): a negative radicand is purely a rounding
artefact, which is why the clamp in the code does not change any exact result -/
theorem exact_arith_var_nonneg (cfg : RatioCfg α) (col : String → ρ → α) (T : List ρ) (θ μ : α)
    (h : ValidGroup (rolesOf cfg) col T) :
    0 ≤ RatioOfMeans.metric_var cfg (Spec.aggrOf T col) θ := by
  rw [C06.metric_var_eq cfg col T θ μ h]
  exact Spec.svar_nonneg T _ h.two

end Exact

end C18
