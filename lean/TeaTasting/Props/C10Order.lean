import TeaTasting.Props.C10Fwer

/-! # C10, continued — the outcome does not depend on the order of experiments or metrics

`adjust_fdr` / `adjust_fwer` collect the selected hypotheses in the order of the experiments and
metrics they are given, sort them *stably* by p-value and run one of the two loops.  For distinct
p-values the sorted list is the same whatever the input order was; for TIED p-values the input order
decides which of the tied hypotheses gets which rank.  This file proves that `pvalue_adj` and
`null_rejected` of a hypothesis nevertheless depend only on its p-value and on the multiset of all
p-values:

* `stepupE_tie`, `stepdownE_tie` — in the loops, any two hypotheses with equal p-values receive the
  same adjusted p-value and the same flag (for families whose coefficients are ordered the way all
  six documented procedures order them);
* `runStepup_perm`, `runStepdown_perm` — hence for the whole procedure *including the stable sort and
  the write-back by input position*: permuting the input p-values permutes `pvalue_adj` and
  `null_rejected` with them;
* the six instances for the GENERATED `adjust` functions.

`alpha_adj` is deliberately absent: it does follow the rank inside a tie
(`C10.alpha_adj_order_dependent_at_ties`, known finding K2). -/

open Mult

set_option linter.unusedSectionVars false

variable {α : Type} [Field α] [LinearOrder α] [IsStrictOrderedRing α]

namespace C10

/-! ## ties inside the step-up loop -/

/-- at equal p-values the later entry (smaller rank `k`, larger coefficient) has the larger-or-equal
raw adjusted p-value -/
def TieUp (l : List (Entry α)) : Prop :=
  l.Pairwise (fun x y => x.1 = y.1 → x.2.1 ≤ y.2.1)

/-- loop invariant of the sticky step-up threshold -/
def InvUp (am : α) (l : List (Entry α)) : Prop :=
  am = 0 ∨ (0 < am ∧ ∀ x ∈ l, x.1 ≤ am)

theorem invUp_step (p raw thr am : α) (rest : List (Entry α)) (hwf : WFUp ((p, raw, thr) :: rest))
    (hinv : InvUp am ((p, raw, thr) :: rest)) :
    InvUp (if am = 0 ∧ p ≤ thr then thr else am) rest := by
  have hpos : 0 < thr := hwf.1 (p, raw, thr) List.mem_cons_self
  have hlater := (List.pairwise_cons.mp hwf.2).1
  rcases hinv with h0 | ⟨hpos', hall⟩
  · subst h0
    by_cases hp : p ≤ thr
    · simp only [hp, and_self, if_true]
      exact Or.inr ⟨hpos, fun y hy => le_trans (hlater y hy).1 hp⟩
    · simp only [hp, and_false, if_false]
      exact Or.inl rfl
  · have hne : am ≠ 0 := ne_of_gt hpos'
    simp only [hne, false_and, if_false]
    exact Or.inr ⟨hpos', fun y hy => hall y (List.mem_cons_of_mem _ hy)⟩

/-- one unfolding of the step-up loop -/
theorem stepupE_cons (p raw thr : α) (rest : List (Entry α)) (pm am : α) :
    stepupE ((p, raw, thr) :: rest) pm am =
      ⟨min raw pm, max thr (if am = 0 ∧ p ≤ thr then thr else am),
        decide (p ≤ max thr (if am = 0 ∧ p ≤ thr then thr else am))⟩ ::
        stepupE rest (min raw pm) (if am = 0 ∧ p ≤ thr then thr else am) := rfl

/-- the head of the list against every later entry with the same p-value -/
theorem stepupE_tie_head (rest : List (Entry α)) (x : Entry α) (pm am : α)
    (hwf : WFUp (x :: rest)) (htie : TieUp (x :: rest)) (hinv : InvUp am (x :: rest)) :
    ∀ o outs, stepupE (x :: rest) pm am = o :: outs →
      ∀ b ∈ rest.zip outs, b.1.1 = x.1 →
        b.2.pvalue_adj = o.pvalue_adj ∧ b.2.null_rejected = o.null_rejected := by
  induction rest generalizing x pm am with
  | nil => intro o outs _ b hb; simp at hb
  | cons y rest' ih =>
    obtain ⟨p, raw, thr⟩ := x
    obtain ⟨q, raw₂, thr₂⟩ := y
    intro o outs hout b hb hbp
    have hwf' := wfUp_tail hwf
    have htie' : TieUp ((q, raw₂, thr₂) :: rest') := (List.pairwise_cons.mp htie).2
    have hinv' := invUp_step p raw thr am _ hwf hinv
    have hxy := (List.pairwise_cons.mp hwf.2).1 (q, raw₂, thr₂) List.mem_cons_self
    rw [stepupE_cons] at hout
    obtain ⟨ho, houts⟩ := List.cons.inj hout
    -- the neighbour has the same p-value as the head
    have hqp : q = p := by
      apply le_antisymm hxy.1
      have hb1 : b.1 ∈ (q, raw₂, thr₂) :: rest' := (List.of_mem_zip hb).1
      rcases List.mem_cons.mp hb1 with h | h
      · rw [h] at hbp; exact le_of_eq hbp.symm
      · have := ((List.pairwise_cons.mp hwf'.2).1 b.1 h).1
        rw [hbp] at this; exact this
    subst hqp
    have hraw : raw ≤ raw₂ := (List.pairwise_cons.mp htie).1 (q, raw₂, thr₂) List.mem_cons_self rfl
    have hthr : thr₂ ≤ thr := hxy.2
    have hpos₂ : 0 < thr₂ := hwf.1 (q, raw₂, thr₂) (List.mem_cons_of_mem _ List.mem_cons_self)
    have hinvq : am = 0 ∨ (0 < am ∧ q ≤ am) := by
      rcases hinv with h | ⟨h1, h2⟩
      · exact Or.inl h
      · exact Or.inr ⟨h1, h2 _ List.mem_cons_self⟩
    obtain ⟨o₁, o₂, tail, heq, hpa, hrj⟩ :=
      stepup_tie q raw thr raw₂ thr₂ pm am rest' hraw hthr hpos₂ hinvq
    rw [stepupE_cons, ho, houts] at heq
    obtain ⟨ho₁, houts'⟩ := List.cons.inj heq
    subst ho₁
    rw [houts'] at hb houts
    rcases List.mem_cons.mp (by simpa using hb : b ∈ ((q, raw₂, thr₂), o₂) :: rest'.zip tail) with h | h
    · rw [h]; exact ⟨hpa.symm, hrj.symm⟩
    · have := ih (q, raw₂, thr₂) (min raw pm) (if am = 0 ∧ q ≤ thr then thr else am) hwf' htie' hinv'
        o₂ tail houts b h hbp
      exact ⟨this.1.trans hpa.symm, this.2.trans hrj.symm⟩

/-- **ties in step-up**: any two hypotheses with equal p-values get the same adjusted p-value and
the same rejection flag -/
theorem stepupE_tie (l : List (Entry α)) (pm am : α) (hwf : WFUp l) (htie : TieUp l) (hinv : InvUp am l) :
    ∀ a ∈ l.zip (stepupE l pm am), ∀ b ∈ l.zip (stepupE l pm am), a.1.1 = b.1.1 →
      a.2.pvalue_adj = b.2.pvalue_adj ∧ a.2.null_rejected = b.2.null_rejected := by
  induction l generalizing pm am with
  | nil => intro a ha; simp [stepupE] at ha
  | cons x rest ih =>
    obtain ⟨p, raw, thr⟩ := x
    have hhead := stepupE_tie_head rest (p, raw, thr) pm am hwf htie hinv _ _ (stepupE_cons p raw thr rest pm am)
    have hrest := ih (min raw pm) (if am = 0 ∧ p ≤ thr then thr else am) (wfUp_tail hwf)
      (List.pairwise_cons.mp htie).2 (invUp_step p raw thr am rest hwf hinv)
    intro a ha b hb hab
    rw [stepupE_cons, List.zip_cons_cons] at ha hb
    rcases List.mem_cons.mp ha with ha | ha <;> rcases List.mem_cons.mp hb with hb | hb
    · rw [ha, hb]; exact ⟨rfl, rfl⟩
    · rw [ha] at hab ⊢
      have := hhead b hb hab.symm
      exact ⟨this.1.symm, this.2.symm⟩
    · rw [hb] at hab ⊢
      exact hhead a ha hab
    · exact hrest a ha b hb hab

/-! ## ties inside the step-down loop -/

/-- ascending p-values; at equal p-values the later entry (larger rank, smaller coefficient) has
the smaller-or-equal raw adjusted p-value and the larger-or-equal threshold -/
def TieDown (l : List (Entry α)) : Prop :=
  l.Pairwise (fun x y => x.1 ≤ y.1 ∧ (x.1 = y.1 → y.2.1 ≤ x.2.1 ∧ x.2.2 ≤ y.2.2))

/-- loop invariant of the sticky step-down threshold: unset, or below every remaining p-value -/
def InvDown (am : α) (l : List (Entry α)) : Prop :=
  am = 1 ∨ ∀ x ∈ l, am < x.1

theorem stepdownE_cons (p raw thr : α) (rest : List (Entry α)) (pm am : α) :
    stepdownE ((p, raw, thr) :: rest) pm am =
      ⟨max raw pm, min thr (if am = 1 ∧ thr < p then thr else am),
        decide (p ≤ min thr (if am = 1 ∧ thr < p then thr else am))⟩ ::
        stepdownE rest (max raw pm) (if am = 1 ∧ thr < p then thr else am) := rfl

theorem invDown_step (p raw thr am : α) (rest : List (Entry α)) (htie : TieDown ((p, raw, thr) :: rest))
    (hinv : InvDown am ((p, raw, thr) :: rest)) :
    InvDown (if am = 1 ∧ thr < p then thr else am) rest := by
  have hlater := (List.pairwise_cons.mp htie).1
  by_cases h1 : am = 1
  · by_cases hp : thr < p
    · simp only [h1, hp, and_self, if_true]
      exact Or.inr (fun y hy => lt_of_lt_of_le hp (hlater y hy).1)
    · simp only [hp, and_false, if_false]
      exact Or.inl h1
  · simp only [h1, false_and, if_false]
    rcases hinv with h | h
    · exact absurd h h1
    · exact Or.inr (fun y hy => h y (List.mem_cons_of_mem _ hy))

/-- two neighbouring hypotheses with equal p-values in the step-down loop -/
theorem stepdown_tie (p raw₁ thr₁ raw₂ thr₂ pm am : α) (rest : List (Entry α))
    (hraw : raw₂ ≤ raw₁) (hthr : thr₁ ≤ thr₂) (hinv : am = 1 ∨ am < p) :
    ∃ o₁ o₂ tail, stepdownE ((p, raw₁, thr₁) :: (p, raw₂, thr₂) :: rest) pm am = o₁ :: o₂ :: tail ∧
      o₁.pvalue_adj = o₂.pvalue_adj ∧ o₁.null_rejected = o₂.null_rejected := by
  refine ⟨_, _, _, rfl, ?_, ?_⟩
  · show max raw₁ pm = max raw₂ (max raw₁ pm)
    rw [max_eq_right (le_trans hraw (le_max_left _ _))]
  · show decide (p ≤ min thr₁ (if am = 1 ∧ thr₁ < p then thr₁ else am)) =
      decide (p ≤ min thr₂ (if (if am = 1 ∧ thr₁ < p then thr₁ else am) = 1 ∧ thr₂ < p then thr₂
        else (if am = 1 ∧ thr₁ < p then thr₁ else am)))
    by_cases h1 : am = 1
    · by_cases hp : thr₁ < p
      · -- the first fails: both are not rejected
        have e1 : ¬ p ≤ min thr₁ thr₁ := by rw [min_self]; exact not_le.mpr hp
        have e2 : ¬ p ≤ min thr₂ (if thr₁ = 1 ∧ thr₂ < p then thr₂ else thr₁) := by
          intro h
          have := le_trans h (min_le_right _ _)
          split_ifs at this with hc
          · exact absurd this (not_le.mpr hc.2)
          · exact absurd this (not_le.mpr hp)
        simp only [h1, hp, and_self, if_true, e1, e2]
      · have hp' : p ≤ thr₁ := not_lt.mp hp
        have hp2 : ¬ thr₂ < p := not_lt.mpr (le_trans hp' hthr)
        simp only [h1, hp, hp2, and_false, if_false]
        have : (p ≤ min thr₁ 1) ↔ (p ≤ min thr₂ 1) := by
          simp only [le_min_iff]
          exact ⟨fun h => ⟨le_trans hp' hthr, h.2⟩, fun h => ⟨hp', h.2⟩⟩
        exact decide_eq_decide.mpr this
    · have hlt : am < p := by
        rcases hinv with h | h
        · exact absurd h h1
        · exact h
      have e1 : ¬ p ≤ min thr₁ am := fun h => absurd (le_trans h (min_le_right _ _)) (not_le.mpr hlt)
      have e2 : ¬ p ≤ min thr₂ am := fun h => absurd (le_trans h (min_le_right _ _)) (not_le.mpr hlt)
      simp only [h1, false_and, if_false, e1, e2]

theorem tieDown_tail {x : Entry α} {l : List (Entry α)} (h : TieDown (x :: l)) : TieDown l :=
  (List.pairwise_cons.mp h).2

theorem stepdownE_tie_head (rest : List (Entry α)) (x : Entry α) (pm am : α)
    (htie : TieDown (x :: rest)) (hinv : InvDown am (x :: rest)) :
    ∀ o outs, stepdownE (x :: rest) pm am = o :: outs →
      ∀ b ∈ rest.zip outs, b.1.1 = x.1 →
        b.2.pvalue_adj = o.pvalue_adj ∧ b.2.null_rejected = o.null_rejected := by
  induction rest generalizing x pm am with
  | nil => intro o outs _ b hb; simp at hb
  | cons y rest' ih =>
    obtain ⟨p, raw, thr⟩ := x
    obtain ⟨q, raw₂, thr₂⟩ := y
    intro o outs hout b hb hbp
    have htie' := tieDown_tail htie
    have hinv' := invDown_step p raw thr am _ htie hinv
    have hxy := (List.pairwise_cons.mp htie).1 (q, raw₂, thr₂) List.mem_cons_self
    rw [stepdownE_cons] at hout
    obtain ⟨ho, houts⟩ := List.cons.inj hout
    have hqp : q = p := by
      apply le_antisymm _ hxy.1
      have hb1 : b.1 ∈ (q, raw₂, thr₂) :: rest' := (List.of_mem_zip hb).1
      rcases List.mem_cons.mp hb1 with h | h
      · rw [h] at hbp; exact le_of_eq hbp
      · have := ((List.pairwise_cons.mp htie').1 b.1 h).1
        rw [hbp] at this; exact this
    subst hqp
    have hrt := hxy.2 rfl
    have hinvq : am = 1 ∨ am < q := by
      rcases hinv with h | h
      · exact Or.inl h
      · exact Or.inr (h _ List.mem_cons_self)
    obtain ⟨o₁, o₂, tail, heq, hpa, hrj⟩ :=
      stepdown_tie q raw thr raw₂ thr₂ pm am rest' hrt.1 hrt.2 hinvq
    rw [stepdownE_cons, ho, houts] at heq
    obtain ⟨ho₁, houts'⟩ := List.cons.inj heq
    subst ho₁
    rw [houts'] at hb houts
    rcases List.mem_cons.mp (by simpa using hb : b ∈ ((q, raw₂, thr₂), o₂) :: rest'.zip tail) with h | h
    · rw [h]; exact ⟨hpa.symm, hrj.symm⟩
    · have := ih (q, raw₂, thr₂) (max raw pm) (if am = 1 ∧ thr < q then thr else am) htie' hinv'
        o₂ tail houts b h hbp
      exact ⟨this.1.trans hpa.symm, this.2.trans hrj.symm⟩

/-- **ties in step-down**: any two hypotheses with equal p-values get the same adjusted p-value and
the same rejection flag -/
theorem stepdownE_tie (l : List (Entry α)) (pm am : α) (htie : TieDown l) (hinv : InvDown am l) :
    ∀ a ∈ l.zip (stepdownE l pm am), ∀ b ∈ l.zip (stepdownE l pm am), a.1.1 = b.1.1 →
      a.2.pvalue_adj = b.2.pvalue_adj ∧ a.2.null_rejected = b.2.null_rejected := by
  induction l generalizing pm am with
  | nil => intro a ha; simp [stepdownE] at ha
  | cons x rest ih =>
    obtain ⟨p, raw, thr⟩ := x
    have hhead := stepdownE_tie_head rest (p, raw, thr) pm am htie hinv _ _ (stepdownE_cons p raw thr rest pm am)
    have hrest := ih (max raw pm) (if am = 1 ∧ thr < p then thr else am) (tieDown_tail htie)
      (invDown_step p raw thr am rest htie hinv)
    intro a ha b hb hab
    rw [stepdownE_cons, List.zip_cons_cons] at ha hb
    rcases List.mem_cons.mp ha with ha | ha <;> rcases List.mem_cons.mp hb with hb | hb
    · rw [ha, hb]; exact ⟨rfl, rfl⟩
    · rw [ha] at hab ⊢
      have := hhead b hb hab.symm
      exact ⟨this.1.symm, this.2.symm⟩
    · rw [hb] at hab ⊢
      exact hhead a ha hab
    · exact hrest a ha b hb hab

/-! ## the stable sort and the write-back by input position -/

section Sorting

variable (r : α × ℕ → α × ℕ → Bool)

/-- every element of the sorted, index-carrying list is a p-value with its own input position -/
theorem sorted_mem (ps : List α) (e : α × ℕ) (he : e ∈ (ps.zipIdx).mergeSort r) :
    ps[e.2]? = some e.1 :=
  List.mem_zipIdx_iff_getElem?.mp ((List.mergeSort_perm _ r).mem_iff.mp he)

/-- every input position occurs in the sorted list -/
theorem sorted_has (ps : List α) (i : ℕ) (hi : i < ps.length) :
    ∃ e ∈ (ps.zipIdx).mergeSort r, e.2 = i := by
  refine ⟨(ps[i], i), (List.mergeSort_perm _ r).mem_iff.mpr ?_, rfl⟩
  exact List.mem_zipIdx_iff_getElem?.mpr (by simp [hi])

theorem sorted_vals_perm (ps : List α) : (((ps.zipIdx).mergeSort r).map (·.1)).Perm ps := by
  have h := (List.mergeSort_perm (ps.zipIdx) r).map (·.1)
  rwa [List.zipIdx_map_fst] at h

theorem sorted_length (ps : List α) : ((ps.zipIdx).mergeSort r).length = ps.length := by
  rw [(List.mergeSort_perm _ r).length_eq, List.length_zipIdx]

end Sorting

/-- `unsort` at input position `i`: the output attached to the sorted element that carries `i` -/
theorem unsort_get (s : List (α × ℕ)) (outs : List (Out α)) (n : ℕ) (dflt : Out α) (i : ℕ) (hi : i < n)
    (hlen : outs.length = s.length) (hex : ∃ e ∈ s, e.2 = i) :
    ∃ e o, (unsort s outs n dflt)[i]? = some o ∧ (e, o) ∈ s.zip outs ∧ e.2 = i := by
  obtain ⟨e, he, hei⟩ := hex
  obtain ⟨k, hk, hke⟩ := List.getElem_of_mem he
  have hk' : k < outs.length := by omega
  have hz : (e, outs[k]) ∈ s.zip outs := by
    have : (s.zip outs)[k]? = some (e, outs[k]) := by
      rw [List.getElem?_zip_eq_some]
      exact ⟨by rw [List.getElem?_eq_getElem hk, hke], by rw [List.getElem?_eq_getElem hk']⟩
    exact List.mem_of_getElem? this
  have hsome : ((s.zip outs).find? (fun p => decide (p.1.2 = i))).isSome := by
    rw [List.find?_isSome]
    exact ⟨(e, outs[k]), hz, by simp [hei]⟩
  obtain ⟨f, hf⟩ := Option.isSome_iff_exists.mp hsome
  refine ⟨f.1, f.2, ?_, List.mem_of_find?_eq_some hf, by simpa using List.find?_some hf⟩
  unfold unsort
  rw [List.getElem?_map, List.getElem?_range hi]
  simp only [Option.map_some, hf]

/-- the entries are attached to the p-values position by position -/
theorem zip_entriesUp (adjust : α → α → α × α) (m : ℕ) (ps : List α) (i : ℕ) (outs : List (Out α))
    (v : α) (o : Out α) (h : (v, o) ∈ ps.zip outs) :
    ∃ e, e.1 = v ∧ (e, o) ∈ (entriesUp adjust m ps i).zip outs := by
  induction ps generalizing i outs with
  | nil => simp at h
  | cons q rest ih =>
    cases outs with
    | nil => simp at h
    | cons o' outs' =>
      rw [List.zip_cons_cons, List.mem_cons] at h
      rcases h with h | h
      · obtain ⟨rfl, rfl⟩ := Prod.mk.inj h
        exact ⟨(v, (adjust v ((m : α) - (i : α))).1, (adjust v ((m : α) - (i : α))).2), rfl, by simp [entriesUp]⟩
      · obtain ⟨e, he1, he2⟩ := ih (i + 1) outs' h
        exact ⟨e, he1, by simp only [entriesUp, List.zip_cons_cons]; exact List.mem_cons_of_mem _ he2⟩

theorem zip_entriesDown (adjust : α → α → α × α) (ps : List α) (k : ℕ) (outs : List (Out α))
    (v : α) (o : Out α) (h : (v, o) ∈ ps.zip outs) :
    ∃ e, e.1 = v ∧ (e, o) ∈ (entriesDown adjust ps k).zip outs := by
  induction ps generalizing k outs with
  | nil => simp at h
  | cons q rest ih =>
    cases outs with
    | nil => simp at h
    | cons o' outs' =>
      rw [List.zip_cons_cons, List.mem_cons] at h
      rcases h with h | h
      · obtain ⟨rfl, rfl⟩ := Prod.mk.inj h
        exact ⟨(v, (adjust v (k : α)).1, (adjust v (k : α)).2), rfl, by simp [entriesDown]⟩
      · obtain ⟨e, he1, he2⟩ := ih (k + 1) outs' h
        exact ⟨e, he1, by simp only [entriesDown, List.zip_cons_cons]; exact List.mem_cons_of_mem _ he2⟩

theorem stepupE_length (l : List (Entry α)) (pm am : α) : (stepupE l pm am).length = l.length := by
  induction l generalizing pm am with
  | nil => rfl
  | cons x rest ih => obtain ⟨p, raw, thr⟩ := x; simp [stepupE_cons, ih]

theorem stepdownE_length (l : List (Entry α)) (pm am : α) : (stepdownE l pm am).length = l.length := by
  induction l generalizing pm am with
  | nil => rfl
  | cons x rest ih => obtain ⟨p, raw, thr⟩ := x; simp [stepdownE_cons, ih]

theorem entriesUp_length (adjust : α → α → α × α) (m : ℕ) (ps : List α) (i : ℕ) :
    (entriesUp adjust m ps i).length = ps.length := by
  induction ps generalizing i with
  | nil => rfl
  | cons q rest ih => simp [entriesUp, ih]

theorem entriesDown_length (adjust : α → α → α × α) (ps : List α) (k : ℕ) :
    (entriesDown adjust ps k).length = ps.length := by
  induction ps generalizing k with
  | nil => rfl
  | cons q rest ih => simp [entriesDown, ih]

/-- the p-values in the order the step-up loop processes them -/
def valsDesc (ps : List α) : List α := (sortDesc ps).map (·.1)

/-- the p-values in the order the step-down loop processes them -/
def valsAsc (ps : List α) : List α := (sortAsc ps).map (·.1)

theorem valsDesc_perm (ps : List α) : (valsDesc ps).Perm ps := sorted_vals_perm _ ps
theorem valsAsc_perm (ps : List α) : (valsAsc ps).Perm ps := sorted_vals_perm _ ps

theorem valsDesc_sorted (ps : List α) : (valsDesc ps).Pairwise (fun a b => b ≤ a) := by
  have h := List.pairwise_mergeSort (le := fun (a b : α × ℕ) => decide (b.1 ≤ a.1))
    (fun a b c hab hbc => by
      simp only [decide_eq_true_eq] at hab hbc ⊢; exact le_trans hbc hab)
    (fun a b => by
      rcases le_total a.1 b.1 with h | h <;> simp [h]) (ps.zipIdx)
  unfold valsDesc sortDesc
  rw [List.pairwise_map]
  exact h.imp (fun hab => by simpa using hab)

theorem valsAsc_sorted (ps : List α) : (valsAsc ps).Pairwise (fun a b => a ≤ b) := by
  have h := List.pairwise_mergeSort (le := fun (a b : α × ℕ) => decide (a.1 ≤ b.1))
    (fun a b c hab hbc => by
      simp only [decide_eq_true_eq] at hab hbc ⊢; exact le_trans hab hbc)
    (fun a b => by
      rcases le_total a.1 b.1 with h | h <;> simp [h]) (ps.zipIdx)
  unfold valsAsc sortAsc
  rw [List.pairwise_map]
  exact h.imp (fun hab => by simpa using hab)

/-- the sorted p-values do not depend on the input order -/
theorem valsDesc_eq_of_perm {ps qs : List α} (h : ps.Perm qs) : valsDesc ps = valsDesc qs :=
  List.Perm.eq_of_pairwise (le := fun a b => b ≤ a) (fun _ _ _ _ hab hba => le_antisymm hba hab)
    (valsDesc_sorted ps) (valsDesc_sorted qs)
    ((valsDesc_perm ps).trans (h.trans (valsDesc_perm qs).symm))

theorem valsAsc_eq_of_perm {ps qs : List α} (h : ps.Perm qs) : valsAsc ps = valsAsc qs :=
  List.Perm.eq_of_pairwise (le := fun a b => a ≤ b) (fun _ _ _ _ hab hba => le_antisymm hab hba)
    (valsAsc_sorted ps) (valsAsc_sorted qs)
    ((valsAsc_perm ps).trans (h.trans (valsAsc_perm qs).symm))

/-- what `_hochberg_stepup` writes at input position `i`: an output of the loop that is attached,
in the sorted family, to a hypothesis with the p-value `ps[i]` -/
theorem runStepup_get (adjust : α → α → α × α) (ps : List α) (i : ℕ) (hi : i < ps.length) :
    ∃ o, (runStepup adjust ps)[i]? = some o ∧
      (ps[i], o) ∈ (valsDesc ps).zip (hochbergStepup adjust (valsDesc ps)) := by
  have hlen : (hochbergStepup adjust (valsDesc ps)).length = (sortDesc ps).length := by
    unfold hochbergStepup
    rw [stepupAux_eq, stepupE_length, entriesUp_length]; simp [valsDesc]
  obtain ⟨e, o, hget, hz, hei⟩ := unsort_get (sortDesc ps) (hochbergStepup adjust (valsDesc ps)) ps.length
    ⟨0, 0, false⟩ i hi hlen (sorted_has _ ps i hi)
  refine ⟨o, hget, ?_⟩
  have hev : ps[e.2]? = some e.1 := sorted_mem _ ps e (List.of_mem_zip hz).1
  rw [hei, List.getElem?_eq_getElem hi] at hev
  have hval : ps[i] = e.1 := Option.some.inj hev
  unfold valsDesc
  rw [List.zip_map_left, List.mem_map]
  exact ⟨(e, o), hz, by simp [hval]⟩

theorem runStepdown_get (adjust : α → α → α × α) (ps : List α) (i : ℕ) (hi : i < ps.length) :
    ∃ o, (runStepdown adjust ps)[i]? = some o ∧
      (ps[i], o) ∈ (valsAsc ps).zip (holmStepdown adjust (valsAsc ps)) := by
  have hlen : (holmStepdown adjust (valsAsc ps)).length = (sortAsc ps).length := by
    unfold holmStepdown
    rw [stepdownAux_eq, stepdownE_length, entriesDown_length]; simp [valsAsc]
  obtain ⟨e, o, hget, hz, hei⟩ := unsort_get (sortAsc ps) (holmStepdown adjust (valsAsc ps)) ps.length
    ⟨0, 0, false⟩ i hi hlen (sorted_has _ ps i hi)
  refine ⟨o, hget, ?_⟩
  have hev : ps[e.2]? = some e.1 := sorted_mem _ ps e (List.of_mem_zip hz).1
  rw [hei, List.getElem?_eq_getElem hi] at hev
  have hval : ps[i] = e.1 := Option.some.inj hev
  unfold valsAsc
  rw [List.zip_map_left, List.mem_map]
  exact ⟨(e, o), hz, by simp [hval]⟩

/-- **`_hochberg_stepup` is order-independent** (stable sort and write-back included): if the
family built on the sorted p-values is ordered as the six procedures order it, then any two
hypotheses with equal p-values — in the same input list or in two input lists that are
permutations of each other — receive the same `pvalue_adj` and the same `null_rejected`. -/
theorem runStepup_perm (adjust : α → α → α × α) (ps qs : List α) (hperm : ps.Perm qs)
    (hwf : WFUp (entriesUp adjust ps.length (valsDesc ps) 0))
    (htie : TieUp (entriesUp adjust ps.length (valsDesc ps) 0))
    (i j : ℕ) (hi : i < ps.length) (hj : j < qs.length) (hpq : ps[i] = qs[j]) :
    ∃ o o', (runStepup adjust ps)[i]? = some o ∧ (runStepup adjust qs)[j]? = some o' ∧
      o.pvalue_adj = o'.pvalue_adj ∧ o.null_rejected = o'.null_rejected := by
  obtain ⟨o, ho, hzo⟩ := runStepup_get adjust ps i hi
  obtain ⟨o', ho', hzo'⟩ := runStepup_get adjust qs j hj
  rw [← valsDesc_eq_of_perm hperm] at hzo'
  refine ⟨o, o', ho, ho', ?_⟩
  have hl : (valsDesc ps).length = ps.length := (valsDesc_perm ps).length_eq
  have hout : hochbergStepup adjust (valsDesc ps) =
      stepupE (entriesUp adjust ps.length (valsDesc ps) 0) 1 0 := by
    unfold hochbergStepup; rw [stepupAux_eq, hl]
  rw [hout] at hzo hzo'
  obtain ⟨e, he, hez⟩ := zip_entriesUp adjust ps.length _ 0 _ _ _ hzo
  obtain ⟨e', he', hez'⟩ := zip_entriesUp adjust ps.length _ 0 _ _ _ hzo'
  exact stepupE_tie _ 1 0 hwf htie (Or.inl rfl) (e, o) hez (e', o') hez' (by simp [he, he', hpq])

/-- **`_holm_stepdown` is order-independent**, likewise. -/
theorem runStepdown_perm (adjust : α → α → α × α) (ps qs : List α) (hperm : ps.Perm qs)
    (htie : TieDown (entriesDown adjust (valsAsc ps) 1))
    (i j : ℕ) (hi : i < ps.length) (hj : j < qs.length) (hpq : ps[i] = qs[j]) :
    ∃ o o', (runStepdown adjust ps)[i]? = some o ∧ (runStepdown adjust qs)[j]? = some o' ∧
      o.pvalue_adj = o'.pvalue_adj ∧ o.null_rejected = o'.null_rejected := by
  obtain ⟨o, ho, hzo⟩ := runStepdown_get adjust ps i hi
  obtain ⟨o', ho', hzo'⟩ := runStepdown_get adjust qs j hj
  rw [← valsAsc_eq_of_perm hperm] at hzo'
  refine ⟨o, o', ho, ho', ?_⟩
  have hout : holmStepdown adjust (valsAsc ps) = stepdownE (entriesDown adjust (valsAsc ps) 1) 0 1 := by
    unfold holmStepdown; rw [stepdownAux_eq]
  rw [hout] at hzo hzo'
  obtain ⟨e, he, hez⟩ := zip_entriesDown adjust _ 1 _ _ _ hzo
  obtain ⟨e', he', hez'⟩ := zip_entriesDown adjust _ 1 _ _ _ hzo'
  exact stepdownE_tie _ 0 1 htie (Or.inl rfl) (e, o) hez (e', o') hez' (by simp [he, he', hpq])

/-! ## the six documented procedures order their coefficients as required -/

theorem tieUp_entriesUp (adjust : α → α → α × α) (m : ℕ) (ps : List α) (i : ℕ)
    (hraw : ∀ p ∈ ps, ∀ j j', i ≤ j → j < j' → j' < i + ps.length →
      (adjust p ((m : α) - (j : α))).1 ≤ (adjust p ((m : α) - (j' : α))).1) :
    TieUp (entriesUp adjust m ps i) := by
  unfold TieUp
  induction ps generalizing i with
  | nil => simp [entriesUp]
  | cons q rest ih =>
    simp only [entriesUp, List.pairwise_cons]
    simp only [List.length_cons] at hraw
    refine ⟨?_, ih (i + 1) (fun p hp j j' h1 h2 h3 =>
      hraw p (List.mem_cons_of_mem _ hp) j j' (by omega) h2 (by omega))⟩
    intro y hy hqy
    obtain ⟨p, hp, j, h1, h2, rfl⟩ := mem_entriesUp _ _ _ _ _ hy
    have hqp : q = p := hqy
    subst hqp
    exact hraw q List.mem_cons_self i j (le_refl _) (by omega) (by omega)

theorem tieDown_entriesDown (adjust : α → α → α × α) (ps : List α) (k : ℕ)
    (hs : ps.Pairwise (fun a b => a ≤ b))
    (hord : ∀ p ∈ ps, ∀ j j', k ≤ j → j < j' → j' < k + ps.length →
      (adjust p (j' : α)).1 ≤ (adjust p (j : α)).1 ∧ (adjust p (j : α)).2 ≤ (adjust p (j' : α)).2) :
    TieDown (entriesDown adjust ps k) := by
  unfold TieDown
  induction ps generalizing k with
  | nil => simp [entriesDown]
  | cons q rest ih =>
    simp only [entriesDown, List.pairwise_cons]
    simp only [List.length_cons] at hord
    refine ⟨?_, ih (k + 1) (List.pairwise_cons.mp hs).2 (fun p hp j j' h1 h2 h3 =>
      hord p (List.mem_cons_of_mem _ hp) j j' (by omega) h2 (by omega))⟩
    intro y hy
    obtain ⟨p, hp, j, h1, h2, rfl⟩ := mem_entriesDown _ _ _ _ hy
    refine ⟨(List.pairwise_cons.mp hs).1 p hp, ?_⟩
    intro hqy
    have hqp : q = p := hqy
    subst hqp
    exact hord q List.mem_cons_self k j (le_refl _) (by omega) (by omega)

theorem mem01_valsDesc {ps : List α} (h01 : ∀ p ∈ ps, 0 ≤ p ∧ p ≤ 1) : ∀ p ∈ valsDesc ps, 0 ≤ p ∧ p ≤ 1 :=
  fun p hp => h01 p ((valsDesc_perm ps).mem_iff.mp hp)

theorem mem01_valsAsc {ps : List α} (h01 : ∀ p ∈ ps, 0 ≤ p ∧ p ≤ 1) : ∀ p ∈ valsAsc ps, 0 ≤ p ∧ p ≤ 1 :=
  fun p hp => h01 p ((valsAsc_perm ps).mem_iff.mp hp)

/-- the conclusion shared by the six instances: the hypotheses at input positions `i` of `ps` and `j`
of `qs` get the same adjusted p-value and the same flag -/
def SameOutcome (out out' : List (Out α)) (i j : ℕ) : Prop :=
  ∃ o o', out[i]? = some o ∧ out'[j]? = some o' ∧
    o.pvalue_adj = o'.pvalue_adj ∧ o.null_rejected = o'.null_rejected

/-- **adjust_fdr (Benjamini–Hochberg, Benjamini–Yekutieli) does not depend on the order of the
hypotheses**: permuting the selected p-values permutes `pvalue_adj` and `null_rejected` with them,
ties included. -/
theorem adjust_fdr_order_independent (a : α) (dep : Bool) (ps qs : List α) (hperm : ps.Perm qs)
    (ha0 : 0 < a) (ha1 : a < 1) (h01 : ∀ p ∈ ps, 0 ≤ p ∧ p ≤ 1)
    (i j : ℕ) (hi : i < ps.length) (hj : j < qs.length) (hpq : ps[i] = qs[j]) :
    SameOutcome (runStepup (Gen.Benjamini.adjust (Gen.Benjamini.mk a ps.length dep)) ps)
      (runStepup (Gen.Benjamini.adjust (Gen.Benjamini.mk a qs.length dep)) qs) i j := by
  rw [← hperm.length_eq]
  have hne : 1 ≤ ps.length := by omega
  have hl : (valsDesc ps).length = ps.length := (valsDesc_perm ps).length_eq
  have hM := benjamini_m_adj_ge (α := α) a ps.length dep hne
  set cfg := Gen.Benjamini.mk a ps.length dep with hcfg
  have hM0 : 0 < cfg.m_adj_ := by
    have : (1 : α) ≤ (ps.length : α) := by exact_mod_cast hne
    linarith
  apply runStepup_perm _ ps qs hperm _ _ i j hi hj hpq
  · exact benjamini_wf cfg ps.length (valsDesc ps) 0 (by omega) hM ha0 ha1 (mem01_valsDesc h01)
      (valsDesc_sorted ps)
  · apply tieUp_entriesUp
    intro p hp k k' _ hkk hk'
    have hp0 := (mem01_valsDesc h01 p hp).1
    have h1 : ((k' + 1 : ℕ) : α) ≤ (ps.length : α) := by exact_mod_cast (show k' + 1 ≤ ps.length by omega)
    have h2 : (k : α) ≤ (k' : α) := by exact_mod_cast hkk.le
    push_cast at h1
    show min (p * (cfg.m_adj_ / ((ps.length : α) - (k : α)))) 1 ≤ min (p * (cfg.m_adj_ / ((ps.length : α) - (k' : α)))) 1
    apply min_le_min_right
    apply mul_le_mul_of_nonneg_left _ hp0
    exact div_le_div_of_nonneg_left hM0.le (by linarith) (by linarith)

/-- the Bonferroni coefficient of the step-up loop -/
theorem fwer_coef_up (n j : ℕ) :
    ((({ alpha := (0 : α), m := (n : α) } : FwerCfg α).m) - ((n : α) - (j : α)) + 1) = (j : α) + 1 := by
  show (n : α) - ((n : α) - (j : α)) + 1 = (j : α) + 1
  ring

/-- **adjust_fwer, Hochberg step-up with Bonferroni, does not depend on the order of the hypotheses** -/
theorem adjust_fwer_hochberg_bonferroni_order_independent (a : α) (ps qs : List α) (hperm : ps.Perm qs)
    (ha0 : 0 < a) (ha1 : a < 1) (h01 : ∀ p ∈ ps, 0 ≤ p ∧ p ≤ 1)
    (i j : ℕ) (hi : i < ps.length) (hj : j < qs.length) (hpq : ps[i] = qs[j]) :
    SameOutcome (runStepup (Gen.Bonferroni.adjust ({ alpha := a, m := (ps.length : α) } : FwerCfg α)) ps)
      (runStepup (Gen.Bonferroni.adjust ({ alpha := a, m := (qs.length : α) } : FwerCfg α)) qs) i j := by
  rw [← hperm.length_eq]
  have hl : (valsDesc ps).length = ps.length := (valsDesc_perm ps).length_eq
  apply runStepup_perm _ ps qs hperm _ _ i j hi hj hpq
  · have h := adjust_fwer_hochberg_bonferroni a (valsDesc ps) ha0 ha1 (mem01_valsDesc h01) (valsDesc_sorted ps)
    -- well-formedness is what that theorem establishes on the way; rebuild it from its parts
    refine ⟨?_, ?_⟩
    · intro x hx
      obtain ⟨p, hp, k, _, _, rfl⟩ := mem_entriesUp _ _ _ _ _ hx
      have hk0 : (0 : α) ≤ (k : α) := by positivity
      have e := bonferroni_entry ({ alpha := a, m := (ps.length : α) } : FwerCfg α)
        ((ps.length : α) - (k : α)) p
        (by show (1 : α) ≤ (ps.length : α) - ((ps.length : α) - (k : α)) + 1; rw [bonferroni_coef_up]; linarith)
        ha0 ha1 (mem01_valsDesc h01 p hp).1 (mem01_valsDesc h01 p hp).2
      exact e.1
    · apply pairwise_entriesUp _ _ _ _ (valsDesc_sorted ps)
      intro p q k k' _ hkk _
      show a / ((ps.length : α) - ((ps.length : α) - (k' : α)) + 1)
        ≤ a / ((ps.length : α) - ((ps.length : α) - (k : α)) + 1)
      rw [bonferroni_coef_up, bonferroni_coef_up]
      have h1 : (0 : α) ≤ (k : α) := by positivity
      have h2 : (k : α) ≤ (k' : α) := by exact_mod_cast hkk.le
      exact div_le_div_of_nonneg_left ha0.le (by linarith) (by linarith)
  · apply tieUp_entriesUp
    intro p hp k k' _ hkk _
    have hp0 := (mem01_valsDesc h01 p hp).1
    have h2 : (k : α) ≤ (k' : α) := by exact_mod_cast hkk.le
    show min (p * ((ps.length : α) - ((ps.length : α) - (k : α)) + 1)) 1
      ≤ min (p * ((ps.length : α) - ((ps.length : α) - (k' : α)) + 1)) 1
    rw [bonferroni_coef_up, bonferroni_coef_up]
    apply min_le_min_right
    apply mul_le_mul_of_nonneg_left _ hp0
    linarith

/-- **adjust_fwer, Hochberg step-up with Šidák, does not depend on the order of the hypotheses** -/
theorem adjust_fwer_hochberg_sidak_order_independent (rpow : α → α → α) (hR : RpowLaws rpow)
    (a : α) (ps qs : List α) (hperm : ps.Perm qs)
    (ha0 : 0 < a) (ha1 : a < 1) (h01 : ∀ p ∈ ps, 0 ≤ p ∧ p ≤ 1)
    (i j : ℕ) (hi : i < ps.length) (hj : j < qs.length) (hpq : ps[i] = qs[j]) :
    SameOutcome (runStepup (Gen.Sidak.adjust rpow ({ alpha := a, m := (ps.length : α) } : FwerCfg α)) ps)
      (runStepup (Gen.Sidak.adjust rpow ({ alpha := a, m := (qs.length : α) } : FwerCfg α)) qs) i j := by
  rw [← hperm.length_eq]
  apply runStepup_perm _ ps qs hperm _ _ i j hi hj hpq
  · refine ⟨?_, ?_⟩
    · intro x hx
      obtain ⟨p, hp, k, _, _, rfl⟩ := mem_entriesUp _ _ _ _ _ hx
      have hk0 : (0 : α) ≤ (k : α) := by positivity
      have e := sidak_entry rpow hR ({ alpha := a, m := (ps.length : α) } : FwerCfg α)
        ((ps.length : α) - (k : α)) p
        (by show (1 : α) ≤ (ps.length : α) - ((ps.length : α) - (k : α)) + 1; rw [bonferroni_coef_up]; linarith)
        ha0 ha1 (mem01_valsDesc h01 p hp).1 (mem01_valsDesc h01 p hp).2
      exact e.1
    · apply pairwise_entriesUp _ _ _ _ (valsDesc_sorted ps)
      intro p q k k' _ hkk _
      show 1 - rpow (1 - a) (1 / ((ps.length : α) - ((ps.length : α) - (k' : α)) + 1))
        ≤ 1 - rpow (1 - a) (1 / ((ps.length : α) - ((ps.length : α) - (k : α)) + 1))
      rw [bonferroni_coef_up, bonferroni_coef_up]
      have h1 : (0 : α) ≤ (k : α) := by positivity
      have h2 : (k : α) ≤ (k' : α) := by exact_mod_cast hkk.le
      exact sidak_thr_antitone rpow hR a _ _ ha0 ha1 (by linarith) (by linarith)
  · apply tieUp_entriesUp
    intro p hp k k' _ hkk _
    have hp01 := mem01_valsDesc h01 p hp
    have h1 : (0 : α) ≤ (k : α) := by positivity
    have h2 : (k : α) ≤ (k' : α) := by exact_mod_cast hkk.le
    show 1 - rpow (1 - p) ((ps.length : α) - ((ps.length : α) - (k : α)) + 1)
      ≤ 1 - rpow (1 - p) ((ps.length : α) - ((ps.length : α) - (k' : α)) + 1)
    rw [bonferroni_coef_up, bonferroni_coef_up]
    have := hR.anti_exp (1 - p) ((k : α) + 1) ((k' : α) + 1) (by linarith) (by linarith) (by linarith) (by linarith)
    linarith

/-- **adjust_fwer, Holm step-down with Bonferroni, does not depend on the order of the hypotheses** -/
theorem adjust_fwer_holm_bonferroni_order_independent (a : α) (ps qs : List α) (hperm : ps.Perm qs)
    (ha0 : 0 < a) (ha1 : a < 1) (h01 : ∀ p ∈ ps, 0 ≤ p ∧ p ≤ 1)
    (i j : ℕ) (hi : i < ps.length) (hj : j < qs.length) (hpq : ps[i] = qs[j]) :
    SameOutcome (runStepdown (Gen.Bonferroni.adjust ({ alpha := a, m := (ps.length : α) } : FwerCfg α)) ps)
      (runStepdown (Gen.Bonferroni.adjust ({ alpha := a, m := (qs.length : α) } : FwerCfg α)) qs) i j := by
  rw [← hperm.length_eq]
  have hl : (valsAsc ps).length = ps.length := (valsAsc_perm ps).length_eq
  apply runStepdown_perm _ ps qs hperm _ i j hi hj hpq
  apply tieDown_entriesDown _ _ _ (valsAsc_sorted ps)
  intro p hp k k' hk hkk hk'
  have hp0 := (mem01_valsAsc h01 p hp).1
  have h2 : (k : α) ≤ (k' : α) := by exact_mod_cast hkk.le
  have h3 : (k' : α) ≤ (ps.length : α) := by exact_mod_cast (show k' ≤ ps.length by omega)
  show min (p * ((ps.length : α) - (k' : α) + 1)) 1 ≤ min (p * ((ps.length : α) - (k : α) + 1)) 1 ∧
    a / ((ps.length : α) - (k : α) + 1) ≤ a / ((ps.length : α) - (k' : α) + 1)
  refine ⟨?_, ?_⟩
  · apply min_le_min_right
    apply mul_le_mul_of_nonneg_left _ hp0
    linarith
  · exact div_le_div_of_nonneg_left ha0.le (by linarith) (by linarith)

/-- **adjust_fwer, Holm step-down with Šidák, does not depend on the order of the hypotheses** -/
theorem adjust_fwer_holm_sidak_order_independent (rpow : α → α → α) (hR : RpowLaws rpow)
    (a : α) (ps qs : List α) (hperm : ps.Perm qs)
    (ha0 : 0 < a) (ha1 : a < 1) (h01 : ∀ p ∈ ps, 0 ≤ p ∧ p ≤ 1)
    (i j : ℕ) (hi : i < ps.length) (hj : j < qs.length) (hpq : ps[i] = qs[j]) :
    SameOutcome (runStepdown (Gen.Sidak.adjust rpow ({ alpha := a, m := (ps.length : α) } : FwerCfg α)) ps)
      (runStepdown (Gen.Sidak.adjust rpow ({ alpha := a, m := (qs.length : α) } : FwerCfg α)) qs) i j := by
  rw [← hperm.length_eq]
  have hl : (valsAsc ps).length = ps.length := (valsAsc_perm ps).length_eq
  apply runStepdown_perm _ ps qs hperm _ i j hi hj hpq
  apply tieDown_entriesDown _ _ _ (valsAsc_sorted ps)
  intro p hp k k' hk hkk hk'
  have hp01 := mem01_valsAsc h01 p hp
  have h2 : (k : α) ≤ (k' : α) := by exact_mod_cast hkk.le
  have h3 : (k' : α) ≤ (ps.length : α) := by exact_mod_cast (show k' ≤ ps.length by omega)
  show 1 - rpow (1 - p) ((ps.length : α) - (k' : α) + 1) ≤ 1 - rpow (1 - p) ((ps.length : α) - (k : α) + 1) ∧
    1 - rpow (1 - a) (1 / ((ps.length : α) - (k : α) + 1)) ≤ 1 - rpow (1 - a) (1 / ((ps.length : α) - (k' : α) + 1))
  refine ⟨?_, ?_⟩
  · have := hR.anti_exp (1 - p) ((ps.length : α) - (k' : α) + 1) ((ps.length : α) - (k : α) + 1)
      (by linarith) (by linarith) (by linarith) (by linarith)
    linarith
  · exact sidak_thr_antitone rpow hR a _ _ ha0 ha1 (by linarith) (by linarith)

/-- non-vacuity: the hypotheses are met by a family WITH a tie given in two different input orders
(positions 0 and 2 hold the tied p-value 1/50) -/
example :
    SameOutcome
      (runStepup (Gen.Benjamini.adjust (Gen.Benjamini.mk (1/20 : ℚ) [(1/50 : ℚ), 9/10, 1/50].length false))
        [1/50, 9/10, 1/50])
      (runStepup (Gen.Benjamini.adjust (Gen.Benjamini.mk (1/20 : ℚ) [(9/10 : ℚ), 1/50, 1/50].length false))
        [9/10, 1/50, 1/50]) 0 2 :=
  adjust_fdr_order_independent (1/20) false [1/50, 9/10, 1/50] [9/10, 1/50, 1/50]
    (List.Perm.swap (9/10) (1/50) [1/50]) (by norm_num) (by norm_num)
    (by intro p hp; simp only [List.mem_cons, List.not_mem_nil, or_false] at hp
        rcases hp with rfl | rfl | rfl <;> norm_num)
    0 2 (by simp) (by simp) (by simp)

end C10
