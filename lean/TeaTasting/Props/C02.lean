import TeaTasting.Props.C01
import TeaTasting.Props.C03
import Mathlib.Data.List.Perm.Basic
import Mathlib.Algebra.BigOperators.Group.List.Basic
import Mathlib.Data.List.Dedup

/-! # C02 — results do not depend on backend, row order, chunking or unrelated columns

At the level of the exact model: the sample statistics (and therefore every pipeline `aggr.py` builds,
by C01) are invariant under any permutation of the rows (which also covers any re-chunking: a chunked
table is its rows in some order) and under any change of columns the request does not name; the three
pipelines (Narwhals, Ibis native, Ibis fallback) return the same numbers; the result keys are the distinct
variant values.  Everything downstream of the aggregates is a function of them (C04–C06, C11), so equal
aggregates give equal results.  Float noise, engines and physical chunk layouts have no counterpart in
the exact model: that part is the cross-backend correspondence of the harness. -/

open Query Spec

set_option linter.unusedSectionVars false

namespace C02

variable {α κ ρ : Type} [Field α]

/-! ## the statistics are functions of the multiset of rows -/

theorem S_perm {T T' : List ρ} (h : T.Perm T') (f : ρ → α) : S T f = S T' f := by
  unfold S
  exact (h.map f).sum_eq

theorem smean_perm {T T' : List ρ} (h : T.Perm T') (f : ρ → α) : smean T f = smean T' f := by
  unfold smean
  rw [S_perm h, h.length_eq]

theorem scov_perm {T T' : List ρ} (h : T.Perm T') (f g : ρ → α) : scov T f g = scov T' f g := by
  unfold scov
  rw [S_perm h, smean_perm h f, smean_perm h g, h.length_eq]

theorem svar_perm {T T' : List ρ} (h : T.Perm T') (f : ρ → α) : svar T f = svar T' f := scov_perm h f f

/-! ## … and of the named columns only -/

theorem S_map_fn (T : List ρ) (φ : ρ → ρ) (f : ρ → α) : S (T.map φ) f = S T (fun r => f (φ r)) := by
  simp [S, List.map_map, Function.comp_def]

theorem smean_map (T : List ρ) (φ : ρ → ρ) (f : ρ → α) : smean (T.map φ) f = smean T (fun r => f (φ r)) := by
  unfold smean; rw [S_map_fn, List.length_map]

theorem scov_map (T : List ρ) (φ : ρ → ρ) (f g : ρ → α) :
    scov (T.map φ) f g = scov T (fun r => f (φ r)) (fun r => g (φ r)) := by
  unfold scov; rw [S_map_fn, smean_map, smean_map, List.length_map]

variable [DecidableEq κ] [LinearOrder α] [IsStrictOrderedRing α] [Inhabited κ]

/-- the user columns a request names -/
def requested (s : ColSpec) : List String :=
  s.mean_cols ++ s.var_cols ++ s.cov_cols.flatMap (fun p => [p.1, p.2])

/-- **Row order (and hence chunking) is invisible**: the statistics a result row must hold are the same
for any permutation of the data rows. -/
theorem isStats_perm (s : ColSpec) {T T' : List (Row κ α)} (h : T.Perm T') (v : κ) (r : Row κ α)
    (hr : C01.IsStats s T v r) : C01.IsStats s T' v r := by
  have hf : (T.filter (fun r => r.key = v)).Perm (T'.filter (fun r => r.key = v)) := h.filter _
  obtain ⟨h1, h2, h3, h4, h5⟩ := hr
  refine ⟨h1, ?_, ?_, ?_, ?_⟩
  · intro hc; rw [h2 hc, hf.length_eq]
  · intro c hc; rw [h3 c hc, smean_perm hf]
  · intro c hc; rw [h4 c hc, svar_perm hf]
  · intro p hp; rw [h5 p hp, scov_perm hf]

/-- **Unrelated columns are invisible**: replacing every row by one with the same variant and the same
values in the requested columns (anything else may change, appear or disappear) leaves the statistics
unchanged. -/
theorem isStats_map (s : ColSpec) (T : List (Row κ α)) (φ : Row κ α → Row κ α)
    (hkey : ∀ r, (φ r).key = r.key)
    (hval : ∀ r, ∀ c ∈ requested s, (φ r).val (.user c) = r.val (.user c))
    (v : κ) (r : Row κ α) (hr : C01.IsStats s T v r) : C01.IsStats s (T.map φ) v r := by
  have hf : (T.map φ).filter (fun r => r.key = v) = (T.filter (fun r => r.key = v)).map φ :=
    C01.filter_map_key T φ hkey v
  obtain ⟨h1, h2, h3, h4, h5⟩ := hr
  refine ⟨h1, ?_, ?_, ?_, ?_⟩
  · intro hc; rw [h2 hc, hf, List.length_map]
  · intro c hc
    rw [h3 c hc, hf, smean_map]
    congr 1; funext r'
    exact (hval r' c (by simp [requested, hc])).symm
  · intro c hc
    rw [h4 c hc, hf]; unfold svar; rw [scov_map]
    have : (fun r' : Row κ α => (φ r').val (.user c)) = fun r' => r'.val (.user c) := by
      funext r'; exact hval r' c (by simp [requested, hc])
    rw [this]
  · intro p hp
    rw [h5 p hp, hf, scov_map]
    have e1 : (fun r' : Row κ α => (φ r').val (.user p.1)) = fun r' => r'.val (.user p.1) := by
      funext r'; exact hval r' p.1 (by
        simp only [requested, List.mem_append, List.mem_flatMap]
        exact Or.inr ⟨p, hp, by simp⟩)
    have e2 : (fun r' : Row κ α => (φ r').val (.user p.2)) = fun r' => r'.val (.user p.2) := by
      funext r'; exact hval r' p.2 (by
        simp only [requested, List.mem_append, List.mem_flatMap]
        exact Or.inr ⟨p, hp, by simp⟩)
    rw [e1, e2]

/-- two rows that both hold the statistics of the same data agree on every requested output -/
theorem isStats_unique (s : ColSpec) (T : List (Row κ α)) (v : κ) (r r' : Row κ α)
    (h : C01.IsStats s T v r) (h' : C01.IsStats s T v r') :
    r.key = r'.key
    ∧ (s.has_count = true → r.val Name.count = r'.val Name.count)
    ∧ (∀ c ∈ s.mean_cols, r.val (Name.mean c) = r'.val (Name.mean c))
    ∧ (∀ c ∈ s.var_cols, r.val (Name.var c) = r'.val (Name.var c))
    ∧ (∀ p ∈ s.cov_cols, r.val (Name.cov p.1 p.2) = r'.val (Name.cov p.1 p.2)) := by
  obtain ⟨a1, a2, a3, a4, a5⟩ := h
  obtain ⟨b1, b2, b3, b4, b5⟩ := h'
  exact ⟨a1.trans b1.symm, fun hc => (a2 hc).trans (b2 hc).symm, fun c hc => (a3 c hc).trans (b3 c hc).symm,
    fun c hc => (a4 c hc).trans (b4 c hc).symm, fun p hp => (a5 p hp).trans (b5 p hp).symm⟩

/-- **Backend, row order, chunking and unrelated columns at once**: run ANY of the three pipelines on the
data, and ANY of the three on a copy with the rows permuted and the unrequested columns changed; for each
variant the two result rows agree on the count and on every requested mean, variance and covariance. -/
theorem pipelines_agree (s : ColSpec) (T T' : List (Row κ α)) (φ : Row κ α → Row κ α)
    (hkey : ∀ r, (φ r).key = r.key)
    (hval : ∀ r, ∀ c ∈ requested s, (φ r).val (.user c) = r.val (.user c))
    (hperm : (T.map φ).Perm T') (v : κ) (hcc : covarCols s ≠ [])
    (hG : 2 ≤ (T.filter (fun r => r.key = v)).length)
    (q q' : Q)
    (hq : q = nwQuery true s ∨ q = ibisFallbackQuery true s ∨ q = ibisNativeQuery true s)
    (hq' : q' = nwQuery true s ∨ q' = ibisFallbackQuery true s ∨ q' = ibisNativeQuery true s) :
    ∃ r ∈ eval q T, ∃ r' ∈ eval q' T', r.key = v ∧ r'.key = v
      ∧ (s.has_count = true → r.val Name.count = r'.val Name.count)
      ∧ (∀ c ∈ s.mean_cols, r.val (Name.mean c) = r'.val (Name.mean c))
      ∧ (∀ c ∈ s.var_cols, r.val (Name.var c) = r'.val (Name.var c))
      ∧ (∀ p ∈ s.cov_cols, r.val (Name.cov p.1 p.2) = r'.val (Name.cov p.1 p.2)) := by
  have hG' : 2 ≤ (T'.filter (fun r => r.key = v)).length := by
    have h1 : ((T.map φ).filter (fun r => r.key = v)).Perm (T'.filter (fun r => r.key = v)) := hperm.filter _
    rw [← h1.length_eq, C01.filter_map_key T φ hkey v, List.length_map]
    exact hG
  obtain ⟨a1, a2, a3⟩ := C01.all_pipelines_eq_stats s T v hcc hG
  obtain ⟨b1, b2, b3⟩ := C01.all_pipelines_eq_stats s T' v hcc hG'
  have pick : ∃ r ∈ eval q T, C01.IsStats s T v r := by
    rcases hq with rfl | rfl | rfl
    · exact a1
    · exact a2
    · exact a3
  have pick' : ∃ r' ∈ eval q' T', C01.IsStats s T' v r' := by
    rcases hq' with rfl | rfl | rfl
    · exact b1
    · exact b2
    · exact b3
  obtain ⟨r, hr, hs⟩ := pick
  obtain ⟨r', hr', hs'⟩ := pick'
  have hs2 : C01.IsStats s T' v r := isStats_perm s hperm v r (isStats_map s T φ hkey hval v r hs)
  obtain ⟨_, u2, u3, u4, u5⟩ := isStats_unique s T' v r r' hs2 hs'
  exact ⟨r, hr, r', hr', hs.1, hs'.1, u2, u3, u4, u5⟩

/-- **The variant keys of the result** are the distinct variant values of the data — the same set for
every pipeline and every row order (as a list: a permutation, no duplicates) -/
theorem result_keys (s : ColSpec) (T T' : List (Row κ α)) (hperm : T.Perm T') (q q' : Q)
    (hq : q = nwQuery true s ∨ q = ibisFallbackQuery true s ∨ q = ibisNativeQuery true s)
    (hq' : q' = nwQuery true s ∨ q' = ibisFallbackQuery true s ∨ q' = ibisNativeQuery true s) :
    ((eval q T).map (·.key)).Perm ((eval q' T').map (·.key)) ∧ ((eval q T).map (·.key)).Nodup
      ∧ ∀ k, k ∈ (eval q T).map (·.key) ↔ k ∈ T.map (·.key) := by
  obtain ⟨k1, k2, k3⟩ := C03.aggFetch_rows_grouped (α := α) s T
  obtain ⟨k1', k2', k3'⟩ := C03.aggFetch_rows_grouped (α := α) s T'
  have e : (eval q T).map (·.key) = (T.map (·.key)).dedup := by
    rcases hq with rfl | rfl | rfl <;> assumption
  have e' : (eval q' T').map (·.key) = (T'.map (·.key)).dedup := by
    rcases hq' with rfl | rfl | rfl <;> assumption
  rw [e, e']
  exact ⟨(hperm.map _).dedup, List.nodup_dedup _, fun k => List.mem_dedup⟩

/-! ## non-vacuity -/

example : ∃ (T : List (Row Int ℚ)), 2 ≤ (T.filter (fun r => r.key = 0)).length
    ∧ covarCols { has_count := true, mean_cols := ["x"], var_cols := ["x"], cov_cols := [] } ≠ [] := by
  refine ⟨[⟨0, fun _ => 1⟩, ⟨0, fun _ => 3⟩, ⟨1, fun _ => 2⟩], by decide, by decide⟩

end C02
