import TeaTasting.Model.Query
import TeaTasting.Lemmas.AggrOf
import Mathlib.Tactic.FieldSimp
import Mathlib.Tactic.Ring

/-! # C01 — per-variant aggregates equal the exact sample statistics on every backend

About the pipelines of `Model/Query.lean` (`nwQuery`, `ibisFallbackQuery`, `ibisNativeQuery`), which
are compared token by token with the pipelines captured from the real `aggr.py` on every run. -/

open Query Spec

set_option linter.unusedSectionVars false

variable {α κ : Type} [Field α] [LinearOrder α] [IsStrictOrderedRing α] [DecidableEq κ] [Inhabited κ]

namespace C01

/-! ## plumbing: definitions are found by name -/

theorem lookupDef_map (l : List String) (k : String → Name) (f : String → Expr)
    (hk : ∀ a b, k a = k b → a = b) (c : String) (hc : c ∈ l) :
    lookupDef (l.map (fun c => (k c, f c))) (k c) = some (f c) := by
  unfold lookupDef
  induction l with
  | nil => simp at hc
  | cons a rest ih =>
    simp only [List.map_cons, List.find?_cons]
    by_cases h : k a = k c
    · have : a = c := hk a c h
      subst this
      simp
    · simp only [h, decide_false]
      rcases List.mem_cons.mp hc with rfl | hr
      · exact absurd rfl h
      · exact ih hr

theorem lookupDef_map_none (l : List String) (k : String → Name) (f : String → Expr) (n : Name)
    (hn : ∀ c, k c ≠ n) : lookupDef (l.map (fun c => (k c, f c))) n = none := by
  unfold lookupDef
  induction l with
  | nil => rfl
  | cons a rest ih => simp only [List.map_cons, List.find?_cons, hn a, decide_false]; exact ih

theorem lookupDef_map_pair (l : List (String × String)) (f : String × String → Expr)
    (p : String × String) (hp : p ∈ l) :
    lookupDef (l.map (fun p => (Name.cov p.1 p.2, f p))) (Name.cov p.1 p.2) = some (f p) := by
  unfold lookupDef
  induction l with
  | nil => simp at hp
  | cons a rest ih =>
    simp only [List.map_cons, List.find?_cons]
    by_cases h : Name.cov a.1 a.2 = Name.cov p.1 p.2
    · have : a = p := by
        injection h with h1 h2
        exact Prod.ext h1 h2
      subst this
      simp
    · simp only [h, decide_false]
      rcases List.mem_cons.mp hp with rfl | hr
      · exact absurd rfl h
      · exact ih hr

theorem lookupDef_map_pair_none (l : List (String × String)) (f : String × String → Expr) (n : Name)
    (hn : ∀ a b, Name.cov a b ≠ n) : lookupDef (l.map (fun p => (Name.cov p.1 p.2, f p))) n = none := by
  unfold lookupDef
  induction l with
  | nil => rfl
  | cons a rest ih => simp only [List.map_cons, List.find?_cons, hn a.1 a.2, decide_false]; exact ih

theorem lookupDef_append (d₁ d₂ : List (Name × Expr)) (n : Name) :
    lookupDef (d₁ ++ d₂) n = (lookupDef d₁ n).orElse (fun _ => lookupDef d₂ n) := by
  unfold lookupDef
  rw [List.find?_append]
  cases List.find? (fun d => decide (d.1 = n)) d₁ <;> simp

/-! ## stages preserve keys; filtering by group commutes with `with_columns` -/

/-- the row transformer of a `with_columns` stage -/
def wcRow (defs : List (Name × Expr)) (T : List (Row κ α)) (r : Row κ α) : Row κ α :=
  { r with val := fun n => match lookupDef defs n with
                          | some e => evalRow T r e
                          | none => r.val n }

theorem withColumns_eq (defs : List (Name × Expr)) (T : List (Row κ α)) :
    withColumns defs T = T.map (wcRow defs T) := rfl

@[simp] theorem wcRow_key (defs : List (Name × Expr)) (T : List (Row κ α)) (r : Row κ α) :
    (wcRow defs T r).key = r.key := rfl

theorem filter_map_key (T : List (Row κ α)) (F : Row κ α → Row κ α) (hF : ∀ r, (F r).key = r.key) (v : κ) :
    (T.map F).filter (fun r => r.key = v) = (T.filter (fun r => r.key = v)).map F := by
  induction T with
  | nil => rfl
  | cons r T ih =>
    by_cases h : r.key = v <;> simp [hF, h, ih]

theorem wcRow_val_some (defs : List (Name × Expr)) (T : List (Row κ α)) (r : Row κ α) (n : Name) (e : Expr)
    (h : lookupDef defs n = some e) : (wcRow defs T r).val n = evalRow T r e := by
  simp [wcRow, h]

theorem wcRow_val_none (defs : List (Name × Expr)) (T : List (Row κ α)) (r : Row κ α) (n : Name)
    (h : lookupDef defs n = none) : (wcRow defs T r).val n = r.val n := by
  simp [wcRow, h]

/-- the arithmetic core: mean of products of group-demeaned values, rescaled by `1/(1 − 1/n)`, is
the unbiased covariance -/
theorem rescale (s n : α) (h0 : n ≠ 0) (h1 : n - 1 ≠ 0) : s / n / (1 - 1 / n) = s / (n - 1) := by
  field_simp

theorem S_map (G : List (Row κ α)) (F : Row κ α → Row κ α) (f : Row κ α → α) :
    S (G.map F) f = S G (fun r => f (F r)) := by
  simp [S, List.map_map, Function.comp_def]

theorem S_congr (G : List (Row κ α)) (f g : Row κ α → α) (h : ∀ r ∈ G, f r = g r) : S G f = S G g := by
  unfold S
  rw [List.map_congr_left h]

theorem mem_cov_covar (s : ColSpec) (p : String × String) (hp : p ∈ s.cov_cols) :
    p.1 ∈ covarCols s ∧ p.2 ∈ covarCols s := by
  unfold covarCols
  simp only [List.mem_dedup, List.mem_append, List.mem_flatMap]
  exact ⟨Or.inr ⟨p, hp, by simp⟩, Or.inr ⟨p, hp, by simp⟩⟩

theorem mem_var_covar (s : ColSpec) (c : String) (hc : c ∈ s.var_cols) : c ∈ covarCols s := by
  unfold covarCols
  simp only [List.mem_dedup, List.mem_append]
  exact Or.inl hc

/-! ## the Narwhals pipeline -/

section Nw
variable (s : ColSpec) (T : List (Row κ α)) (v : κ)

/-- the group means joined to the rows, and the demeaned columns -/
def nwGm : List (Name × Expr) := (covarCols s).map (fun c => (Name.gmean c, Expr.mean (ucol c)))
def nwDem : List (Name × Expr) := (covarCols s).map (fun c => (Name.demean c, Expr.sub (ucol c) (.col (.gmean c))))
def nwProd : List (Name × Expr) :=
  s.var_cols.map (fun c => (Name.var c, Expr.mul (.col (.demean c)) (.col (.demean c))))
    ++ s.cov_cols.map (fun p => (Name.cov p.1 p.2, Expr.mul (.col (.demean p.1)) (.col (.demean p.2))))
def nwAgg : List (Name × Expr) :=
  (if s.has_count || !(covarCols s).isEmpty then [(Name.count, Expr.len)] else [])
    ++ s.mean_cols.map (fun c => (Name.mean c, Expr.mean (ucol c)))
    ++ s.var_cols.map (fun c => (Name.var c, Expr.mean (.col (.var c))))
    ++ s.cov_cols.map (fun p => (Name.cov p.1 p.2, Expr.mean (.col (.cov p.1 p.2))))
def nwPost : List (Name × Expr) :=
  s.var_cols.map (fun c => (Name.var c, Expr.div (.col (.var c)) (.sub (.lit 1) (.div (.lit 1) (.col .count)))))
    ++ s.cov_cols.map (fun p => (Name.cov p.1 p.2,
        Expr.div (.col (.cov p.1 p.2)) (.sub (.lit 1) (.div (.lit 1) (.col .count)))))

theorem nwQuery_eq (h : covarCols s ≠ []) :
    nwQuery true s = [Stage.joinGroup (nwGm s), Stage.withColumns (nwDem s), Stage.withColumns (nwProd s),
      Stage.aggregate true (nwAgg s), Stage.withColumns (nwPost s)] := by
  unfold nwQuery demeanNwStages nwGm nwDem nwProd nwAgg nwPost
  have : (covarCols s).isEmpty = false := by
    cases hc : covarCols s with
    | nil => exact absurd hc h
    | cons a l => rfl
  simp [this]

/-- the row transformer of the join with the group means -/
def jgRow (defs : List (Name × Expr)) (T : List (Row κ α)) (r : Row κ α) : Row κ α :=
  { r with val := fun n => match lookupDef defs n with
                          | some _ => (aggRow defs (T.filter (fun r' => r'.key = r.key)) r.key).val n
                          | none => r.val n }

theorem joinGroup_eq (defs : List (Name × Expr)) (T : List (Row κ α)) :
    joinGroup defs T = T.map (jgRow defs T) := rfl

/-- join + demeaning applied to a row of the table -/
def demRow (r : Row κ α) : Row κ α :=
  wcRow (nwDem s) (T.map (jgRow (nwGm s) T)) (jgRow (nwGm s) T r)

@[simp] theorem demRow_key (r : Row κ α) : (demRow s T r).key = r.key := rfl

theorem stages12_eq : (T.map (jgRow (nwGm s) T)).map (wcRow (nwDem s) (T.map (jgRow (nwGm s) T))) = T.map (demRow s T) := by
  rw [List.map_map]; rfl

/-- the value of `_group_mean__c` after the join: the mean of the column over the row's own group -/
theorem gm_val (c : String) (hc : c ∈ covarCols s) (r : Row κ α) (hr : r ∈ T) :
    (jgRow (nwGm s) T r).val (Name.gmean c)
      = smean (T.filter (fun r' => r'.key = r.key)) (fun r' => r'.val (.user c)) := by
  have hl : lookupDef (nwGm s) (Name.gmean c) = some (Expr.mean (ucol c)) :=
    lookupDef_map (covarCols s) Name.gmean (fun c => Expr.mean (ucol c)) (fun a b h => by injection h) c hc
  have hmem : r ∈ T.filter (fun r' => r'.key = r.key) := List.mem_filter.mpr ⟨hr, by simp⟩
  obtain ⟨r0, hr0⟩ : ∃ r0, (T.filter (fun r' => r'.key = r.key)).head? = some r0 := by
    cases h : T.filter (fun r' => r'.key = r.key) with
    | nil => rw [h] at hmem; cases hmem
    | cons a l => exact ⟨a, rfl⟩
  simp only [jgRow, hl, aggRow, hr0, evalRow, ucol]

/-- the value of `_demean__c` after the join and the subtraction: the column minus its mean over the
row's own group -/
theorem dem_val (c : String) (hc : c ∈ covarCols s) (r : Row κ α) (hr : r ∈ T) :
    (demRow s T r).val (Name.demean c)
      = r.val (.user c) - smean (T.filter (fun r' => r'.key = r.key)) (fun r' => r'.val (.user c)) := by
  have hl : lookupDef (nwDem s) (Name.demean c) = some (Expr.sub (ucol c) (.col (.gmean c))) :=
    lookupDef_map (covarCols s) Name.demean (fun c => Expr.sub (ucol c) (.col (.gmean c)))
      (fun a b h => by injection h) c hc
  unfold demRow
  rw [wcRow_val_some _ _ _ _ _ hl]
  simp only [evalRow, ucol]
  rw [gm_val s T c hc r hr]
  congr 1
  have : lookupDef (nwGm s) (Name.user c) = none := lookupDef_map_none _ _ _ _ (fun c' => by simp)
  simp [jgRow, this]

/-- user columns pass through stages 1 and 2 unchanged -/
theorem user_val_dem (c : String) (r : Row κ α) : (demRow s T r).val (Name.user c) = r.val (.user c) := by
  unfold demRow
  have h1 : lookupDef (nwDem s) (Name.user c) = none := lookupDef_map_none _ _ _ _ (fun c' => by simp)
  rw [wcRow_val_none _ _ _ _ h1]
  have : lookupDef (nwGm s) (Name.user c) = none := lookupDef_map_none _ _ _ _ (fun c' => by simp)
  simp [jgRow, this]

theorem user_val_prod (T' : List (Row κ α)) (c : String) (r : Row κ α) :
    (wcRow (nwProd s) T' r).val (Name.user c) = r.val (.user c) := by
  apply wcRow_val_none
  unfold nwProd
  rw [lookupDef_append, lookupDef_map_none _ _ _ _ (fun c' => by simp),
    lookupDef_map_pair_none _ _ _ (fun a b => by simp)]
  rfl

theorem prod_val_cov (T' : List (Row κ α)) (p : String × String) (hp : p ∈ s.cov_cols) (r : Row κ α) :
    (wcRow (nwProd s) T' r).val (Name.cov p.1 p.2) = r.val (.demean p.1) * r.val (.demean p.2) := by
  have hl : lookupDef (nwProd s) (Name.cov p.1 p.2)
      = some (Expr.mul (.col (.demean p.1)) (.col (.demean p.2))) := by
    unfold nwProd
    rw [lookupDef_append, lookupDef_map_none _ _ _ _ (fun c' => by simp),
      lookupDef_map_pair _ (fun p => Expr.mul (.col (.demean p.1)) (.col (.demean p.2))) p hp]
    rfl
  rw [wcRow_val_some _ _ _ _ _ hl]
  simp [evalRow]

theorem prod_val_var (T' : List (Row κ α)) (c : String) (hc : c ∈ s.var_cols) (r : Row κ α) :
    (wcRow (nwProd s) T' r).val (Name.var c) = r.val (.demean c) * r.val (.demean c) := by
  have hl : lookupDef (nwProd s) (Name.var c) = some (Expr.mul (.col (.demean c)) (.col (.demean c))) := by
    unfold nwProd
    rw [lookupDef_append, lookupDef_map _ Name.var _ (fun a b h => by injection h) c hc]
    rfl
  rw [wcRow_val_some _ _ _ _ _ hl]
  simp [evalRow]

/-- lookups in the aggregation and post-aggregation stages -/
theorem agg_lookup_count (h : covarCols s ≠ []) : lookupDef (nwAgg s) Name.count = some Expr.len := by
  have : (covarCols s).isEmpty = false := by
    cases hc : covarCols s with
    | nil => exact absurd hc h
    | cons a l => rfl
  unfold nwAgg
  simp [this, lookupDef]

theorem agg_lookup_cov (p : String × String) (hp : p ∈ s.cov_cols) :
    lookupDef (nwAgg s) (Name.cov p.1 p.2) = some (Expr.mean (.col (.cov p.1 p.2))) := by
  unfold nwAgg
  have h1 : lookupDef (if s.has_count || !(covarCols s).isEmpty then [(Name.count, Expr.len)] else [])
      (Name.cov p.1 p.2) = none := by
    split_ifs <;> simp [lookupDef]
  rw [lookupDef_append, lookupDef_append, lookupDef_append, h1,
    lookupDef_map_none _ _ _ _ (fun c' => by simp), lookupDef_map_none _ _ _ _ (fun c' => by simp),
    lookupDef_map_pair _ (fun p => Expr.mean (.col (.cov p.1 p.2))) p hp]
  rfl

theorem agg_lookup_var (c : String) (hc : c ∈ s.var_cols) :
    lookupDef (nwAgg s) (Name.var c) = some (Expr.mean (.col (.var c))) := by
  unfold nwAgg
  have h1 : lookupDef (if s.has_count || !(covarCols s).isEmpty then [(Name.count, Expr.len)] else [])
      (Name.var c) = none := by
    split_ifs <;> simp [lookupDef]
  rw [lookupDef_append, lookupDef_append, lookupDef_append, h1,
    lookupDef_map_none _ _ _ _ (fun c' => by simp), lookupDef_map _ Name.var _ (fun a b h => by injection h) c hc]
  rfl

theorem agg_lookup_mean (c : String) (hc : c ∈ s.mean_cols) :
    lookupDef (nwAgg s) (Name.mean c) = some (Expr.mean (ucol c)) := by
  unfold nwAgg
  have h1 : lookupDef (if s.has_count || !(covarCols s).isEmpty then [(Name.count, Expr.len)] else [])
      (Name.mean c) = none := by
    split_ifs <;> simp [lookupDef]
  rw [lookupDef_append, lookupDef_append, lookupDef_append, h1,
    lookupDef_map _ Name.mean _ (fun a b h => by injection h) c hc]
  rfl

theorem post_lookup_cov (p : String × String) (hp : p ∈ s.cov_cols) :
    lookupDef (nwPost s) (Name.cov p.1 p.2)
      = some (Expr.div (.col (.cov p.1 p.2)) (.sub (.lit 1) (.div (.lit 1) (.col .count)))) := by
  unfold nwPost
  rw [lookupDef_append, lookupDef_map_none _ _ _ _ (fun c' => by simp),
    lookupDef_map_pair _ (fun p => Expr.div (.col (.cov p.1 p.2)) (.sub (.lit 1) (.div (.lit 1) (.col .count)))) p hp]
  rfl

theorem post_lookup_var (c : String) (hc : c ∈ s.var_cols) :
    lookupDef (nwPost s) (Name.var c)
      = some (Expr.div (.col (.var c)) (.sub (.lit 1) (.div (.lit 1) (.col .count)))) := by
  unfold nwPost
  rw [lookupDef_append, lookupDef_map _ Name.var _ (fun a b h => by injection h) c hc]
  rfl

theorem post_lookup_none (n : Name) (h1 : ∀ c, Name.var c ≠ n) (h2 : ∀ a b, Name.cov a b ≠ n) :
    lookupDef (nwPost s) n = none := by
  unfold nwPost
  rw [lookupDef_append, lookupDef_map_none _ _ _ _ h1, lookupDef_map_pair_none _ _ _ h2]
  rfl

/-- the group's rows after the join, the demeaning and the products -/
def nwG2 : List (Row κ α) :=
  (T.filter (fun r => r.key = v)).map (fun r => wcRow (nwProd s) (T.map (demRow s T)) (demRow s T r))

theorem nwG2_eq :
    ((T.map (demRow s T)).map (wcRow (nwProd s) (T.map (demRow s T)))).filter (fun r => r.key = v)
      = nwG2 s T v := by
  rw [filter_map_key (T.map (demRow s T)) (wcRow (nwProd s) (T.map (demRow s T))) (fun r => rfl),
    filter_map_key T (demRow s T) (fun r => rfl), List.map_map]
  rfl

/-- in the group, the windowed mean is the group's mean -/
theorem window_in_group (c : String) (r : Row κ α) (hr : r ∈ T.filter (fun r => r.key = v)) :
    smean (T.filter (fun r' => r'.key = r.key)) (fun r' => r'.val (.user c))
      = smean (T.filter (fun r => r.key = v)) (fun r' => r'.val (.user c)) := by
  have : r.key = v := by simpa using (List.mem_filter.mp hr).2
  rw [this]

/-- **Narwhals pipeline = exact sample statistics** (the case with variances / covariances).
For every table, every requested column set and every variant `v` with at least two rows, the row
keyed `v` of the pipeline's result holds: the number of rows of the variant, for every requested
mean the sample mean, for every requested variance the unbiased (n−1) sample variance, and for every
requested pair the unbiased sample covariance — of exactly that variant's rows. -/
theorem nw_eval_eq_stats (hcc : covarCols s ≠ []) (hG : 2 ≤ (T.filter (fun r => r.key = v)).length) :
    ∃ r ∈ eval (nwQuery true s) T, r.key = v ∧
      r.val Name.count = ((T.filter (fun r => r.key = v)).length : α) ∧
      (∀ c ∈ s.mean_cols, r.val (Name.mean c) = smean (T.filter (fun r => r.key = v)) (fun r => r.val (.user c))) ∧
      (∀ c ∈ s.var_cols, r.val (Name.var c) = svar (T.filter (fun r => r.key = v)) (fun r => r.val (.user c))) ∧
      (∀ p ∈ s.cov_cols, r.val (Name.cov p.1 p.2)
        = scov (T.filter (fun r => r.key = v)) (fun r => r.val (.user p.1)) (fun r => r.val (.user p.2))) := by
  rw [nwQuery_eq s hcc]
  simp only [eval, List.foldl_cons, List.foldl_nil, evalStage, withColumns_eq, joinGroup_eq, stages12_eq]
  set T1 := T.map (demRow s T) with hT1
  set T2 := T1.map (wcRow (nwProd s) T1) with hT2
  have hkeys : T2.map (·.key) = T.map (·.key) := by
    simp [hT2, hT1, List.map_map, Function.comp_def]
  have hv : v ∈ (T2.map (·.key)).dedup := by
    rw [List.mem_dedup, hkeys]
    obtain ⟨r, hr⟩ := List.exists_mem_of_length_pos (by omega : 0 < (T.filter (fun r => r.key = v)).length)
    exact List.mem_map.mpr ⟨r, (List.mem_filter.mp hr).1, by simpa using (List.mem_filter.mp hr).2⟩
  set T3 := aggregate true (nwAgg s) T2 with hT3
  let r3 := aggRow (nwAgg s) (T2.filter (fun r => r.key = v)) v
  have hr3 : r3 ∈ T3 := by
    simp only [hT3, aggregate, if_true]
    exact List.mem_map.mpr ⟨v, hv, rfl⟩
  have hG2 : T2.filter (fun r => r.key = v) = nwG2 s T v := nwG2_eq s T v
  have hlen : (nwG2 s T v).length = (T.filter (fun r => r.key = v)).length := by simp [nwG2]
  obtain ⟨r0, hr0⟩ : ∃ r0, (nwG2 s T v).head? = some r0 := by
    cases h : nwG2 s T v with
    | nil => rw [h] at hlen; simp at hlen; omega
    | cons a l => exact ⟨a, rfl⟩
  have n0 : ((T.filter (fun r => r.key = v)).length : α) ≠ 0 := natCast_ne_zero_of_pos (by omega)
  have n1 : ((T.filter (fun r => r.key = v)).length : α) - 1 ≠ 0 := natCast_sub_one_ne_zero hG
  have smean_def : ∀ f : Row κ α → α,
      smean (nwG2 s T v) f = S (nwG2 s T v) f / ((T.filter (fun r => r.key = v)).length : α) := by
    intro f; rw [← hlen]; rfl
  have hcount : r3.val Name.count = ((T.filter (fun r => r.key = v)).length : α) := by
    simp only [r3, aggRow, agg_lookup_count s hcc, hG2, hr0, evalRow, hlen]
  refine ⟨wcRow (nwPost s) T3 r3, List.mem_map.mpr ⟨r3, hr3, rfl⟩, rfl, ?_, ?_, ?_, ?_⟩
  · rw [wcRow_val_none _ _ _ _ (post_lookup_none s _ (fun c => by simp) (fun a b => by simp)), hcount]
  · intro c hc
    rw [wcRow_val_none _ _ _ _ (post_lookup_none s _ (fun c => by simp) (fun a b => by simp))]
    simp only [r3, aggRow, agg_lookup_mean s c hc, hG2, hr0, evalRow, ucol]
    rw [smean_def]
    unfold smean nwG2
    rw [S_map]
    congr 1
    apply S_congr
    intro r _
    rw [user_val_prod, user_val_dem]
  · intro c hc
    have hcv := mem_var_covar s c hc
    rw [wcRow_val_some _ _ _ _ _ (post_lookup_var s c hc)]
    simp only [evalRow]
    have hvar : r3.val (Name.var c)
        = S (T.filter (fun r => r.key = v)) (fun r =>
            (r.val (.user c) - smean (T.filter (fun r => r.key = v)) (fun r' => r'.val (.user c)))
            * (r.val (.user c) - smean (T.filter (fun r => r.key = v)) (fun r' => r'.val (.user c))))
          / ((T.filter (fun r => r.key = v)).length : α) := by
      simp only [r3, aggRow, agg_lookup_var s c hc, hG2, hr0, evalRow]
      rw [smean_def]
      congr 1
      unfold nwG2
      rw [S_map]
      apply S_congr
      intro r hr
      rw [prod_val_var s _ c hc, dem_val s T c hcv r (List.mem_filter.mp hr).1, window_in_group T v c r hr]
    rw [hcount, hvar]
    simp only [Int.cast_one]
    rw [rescale _ _ n0 n1]
    rfl
  · intro p hp
    obtain ⟨hc1, hc2⟩ := mem_cov_covar s p hp
    rw [wcRow_val_some _ _ _ _ _ (post_lookup_cov s p hp)]
    simp only [evalRow]
    have hcov : r3.val (Name.cov p.1 p.2)
        = S (T.filter (fun r => r.key = v)) (fun r =>
            (r.val (.user p.1) - smean (T.filter (fun r => r.key = v)) (fun r' => r'.val (.user p.1)))
            * (r.val (.user p.2) - smean (T.filter (fun r => r.key = v)) (fun r' => r'.val (.user p.2))))
          / ((T.filter (fun r => r.key = v)).length : α) := by
      simp only [r3, aggRow, agg_lookup_cov s p hp, hG2, hr0, evalRow]
      rw [smean_def]
      congr 1
      unfold nwG2
      rw [S_map]
      apply S_congr
      intro r hr
      rw [prod_val_cov s _ p hp, dem_val s T p.1 hc1 r (List.mem_filter.mp hr).1,
        dem_val s T p.2 hc2 r (List.mem_filter.mp hr).1,
        window_in_group T v p.1 r hr, window_in_group T v p.2 r hr]
    rw [hcount, hcov]
    simp only [Int.cast_one]
    rw [rescale _ _ n0 n1]
    rfl

/-- the result has exactly one row per distinct variant value -/
theorem nw_eval_keys (hcc : covarCols s ≠ []) :
    (eval (nwQuery true s) T).map (·.key) = (T.map (·.key)).dedup := by
  rw [nwQuery_eq s hcc]
  simp only [eval, List.foldl_cons, List.foldl_nil, evalStage, withColumns_eq, joinGroup_eq, aggregate, if_true,
    List.map_map, Function.comp_def, wcRow_key, aggRow]
  simp [jgRow]

end Nw

/-! ## the Narwhals pipeline without grouping (power analysis: one row for the whole table) -/

section NwUngrouped
variable (s : ColSpec) (T : List (Row κ α))

def nwDemU : List (Name × Expr) :=
  (covarCols s).map (fun c => (Name.demean c, Expr.sub (ucol c) (.mean (ucol c))))

theorem nwQueryU_eq (h : covarCols s ≠ []) :
    nwQuery false s = [Stage.withColumns (nwDemU s), Stage.withColumns (nwProd s),
      Stage.aggregate false (nwAgg s), Stage.withColumns (nwPost s)] := by
  unfold nwQuery demeanNwStages nwDemU nwProd nwAgg nwPost
  have : (covarCols s).isEmpty = false := by
    cases hc : covarCols s with
    | nil => exact absurd hc h
    | cons a l => rfl
  simp [this]

theorem demU_val (c : String) (hc : c ∈ covarCols s) (r : Row κ α) :
    (wcRow (nwDemU s) T r).val (Name.demean c) = r.val (.user c) - smean T (fun r' => r'.val (.user c)) := by
  have hl : lookupDef (nwDemU s) (Name.demean c) = some (Expr.sub (ucol c) (.mean (ucol c))) :=
    lookupDef_map (covarCols s) Name.demean (fun c => Expr.sub (ucol c) (.mean (ucol c)))
      (fun a b h => by injection h) c hc
  rw [wcRow_val_some _ _ _ _ _ hl]
  simp [evalRow, ucol]

theorem user_val_demU (c : String) (r : Row κ α) : (wcRow (nwDemU s) T r).val (Name.user c) = r.val (.user c) := by
  have h1 : lookupDef (nwDemU s) (Name.user c) = none := lookupDef_map_none _ _ _ _ (fun c' => by simp)
  exact wcRow_val_none _ _ _ _ h1

/-- the rows after demeaning and the products -/
def nwU2 : List (Row κ α) :=
  T.map (fun r => wcRow (nwProd s) (T.map (wcRow (nwDemU s) T)) (wcRow (nwDemU s) T r))

/-- **Narwhals pipeline, ungrouped = the sample statistics of the whole table**: the result is exactly one
row, holding `n`, the requested means, unbiased variances and covariances of all rows (the aggregates that
power analysis works from). -/
theorem nwU_eval_eq_stats (hcc : covarCols s ≠ []) (hn : 2 ≤ T.length) :
    ∃ r, eval (nwQuery false s) T = [r] ∧
      r.val Name.count = (T.length : α) ∧
      (∀ c ∈ s.mean_cols, r.val (Name.mean c) = smean T (fun r => r.val (.user c))) ∧
      (∀ c ∈ s.var_cols, r.val (Name.var c) = svar T (fun r => r.val (.user c))) ∧
      (∀ p ∈ s.cov_cols, r.val (Name.cov p.1 p.2)
        = scov T (fun r => r.val (.user p.1)) (fun r => r.val (.user p.2))) := by
  rw [nwQueryU_eq s hcc]
  simp only [eval, List.foldl_cons, List.foldl_nil, evalStage, withColumns_eq, aggregate, Bool.false_eq_true,
    if_false, List.map_cons, List.map_nil, List.map_map]
  have hG2 : List.map (wcRow (nwProd s) (T.map (wcRow (nwDemU s) T)) ∘ wcRow (nwDemU s) T) T = nwU2 s T := rfl
  rw [hG2]
  have hlen : (nwU2 s T).length = T.length := by simp [nwU2]
  obtain ⟨r0, hr0⟩ : ∃ r0, (nwU2 s T).head? = some r0 := by
    cases h : nwU2 s T with
    | nil => rw [h] at hlen; simp at hlen; omega
    | cons a l => exact ⟨a, rfl⟩
  have n0 : ((T.length : ℕ) : α) ≠ 0 := natCast_ne_zero_of_pos (by omega)
  have n1 : ((T.length : ℕ) : α) - 1 ≠ 0 := natCast_sub_one_ne_zero hn
  have smean_def : ∀ f : Row κ α → α, smean (nwU2 s T) f = S (nwU2 s T) f / (T.length : α) := by
    intro f; rw [← hlen]; rfl
  set r3 := aggRow (nwAgg s) (nwU2 s T) (default : κ) with hr3
  have hcount : r3.val Name.count = (T.length : α) := by
    simp only [hr3, aggRow, agg_lookup_count s hcc, hr0, evalRow, hlen]
  refine ⟨wcRow (nwPost s) [r3] r3, rfl, ?_, ?_, ?_, ?_⟩
  · rw [wcRow_val_none _ _ _ _ (post_lookup_none s _ (fun c => by simp) (fun a b => by simp)), hcount]
  · intro c hc
    rw [wcRow_val_none _ _ _ _ (post_lookup_none s _ (fun c => by simp) (fun a b => by simp))]
    simp only [hr3, aggRow, agg_lookup_mean s c hc, hr0, evalRow, ucol]
    rw [smean_def]
    unfold smean nwU2
    rw [S_map]
    congr 1
    apply S_congr
    intro r _
    rw [user_val_prod, user_val_demU]
  · intro c hc
    have hcv := mem_var_covar s c hc
    rw [wcRow_val_some _ _ _ _ _ (post_lookup_var s c hc)]
    simp only [evalRow]
    have hvar : r3.val (Name.var c)
        = S T (fun r => (r.val (.user c) - smean T (fun r' => r'.val (.user c)))
            * (r.val (.user c) - smean T (fun r' => r'.val (.user c)))) / (T.length : α) := by
      simp only [hr3, aggRow, agg_lookup_var s c hc, hr0, evalRow]
      rw [smean_def]
      congr 1
      unfold nwU2
      rw [S_map]
      apply S_congr
      intro r _
      rw [prod_val_var s _ c hc, demU_val s T c hcv]
    rw [hcount, hvar]
    simp only [Int.cast_one]
    rw [rescale _ _ n0 n1]
    rfl
  · intro p hp
    obtain ⟨hc1, hc2⟩ := mem_cov_covar s p hp
    rw [wcRow_val_some _ _ _ _ _ (post_lookup_cov s p hp)]
    simp only [evalRow]
    have hcov : r3.val (Name.cov p.1 p.2)
        = S T (fun r => (r.val (.user p.1) - smean T (fun r' => r'.val (.user p.1)))
            * (r.val (.user p.2) - smean T (fun r' => r'.val (.user p.2)))) / (T.length : α) := by
      simp only [hr3, aggRow, agg_lookup_cov s p hp, hr0, evalRow]
      rw [smean_def]
      congr 1
      unfold nwU2
      rw [S_map]
      apply S_congr
      intro r _
      rw [prod_val_cov s _ p hp, demU_val s T p.1 hc1, demU_val s T p.2 hc2]
    rw [hcount, hcov]
    simp only [Int.cast_one]
    rw [rescale _ _ n0 n1]
    rfl

end NwUngrouped

/-! ## requests without variances / covariances: a single aggregate stage -/

section MeansOnly
variable (s : ColSpec) (T : List (Row κ α)) (v : κ)

def moAgg : List (Name × Expr) :=
  (if s.has_count then [(Name.count, Expr.len)] else [])
    ++ s.mean_cols.map (fun c => (Name.mean c, Expr.mean (ucol c)))
    ++ s.var_cols.map (fun c => (Name.var c, Expr.mean (.col (.var c))))
    ++ s.cov_cols.map (fun p => (Name.cov p.1 p.2, Expr.mean (.col (.cov p.1 p.2))))

theorem nwQuery_meansOnly (g : Bool) (h : covarCols s = []) : nwQuery g s = [Stage.aggregate g (moAgg s)] := by
  unfold nwQuery moAgg
  simp [h]

/-- **means and counts only** (e.g. `SampleRatio`, or a metric that declares only means): the grouped
Narwhals pipeline is one `group_by().agg()` returning the count and the sample means of the variant's rows -/
theorem nw_meansOnly_eq_stats (h : covarCols s = []) (hG : 1 ≤ (T.filter (fun r => r.key = v)).length) :
    ∃ r ∈ eval (nwQuery true s) T, r.key = v ∧
      (s.has_count = true → r.val Name.count = ((T.filter (fun r => r.key = v)).length : α)) ∧
      (∀ c ∈ s.mean_cols, r.val (Name.mean c) = smean (T.filter (fun r => r.key = v)) (fun r => r.val (.user c))) := by
  rw [nwQuery_meansOnly s true h]
  simp only [eval, List.foldl_cons, List.foldl_nil, evalStage]
  have hv : v ∈ (T.map (·.key)).dedup := by
    rw [List.mem_dedup]
    obtain ⟨r, hr⟩ := List.exists_mem_of_length_pos (by omega : 0 < (T.filter (fun r => r.key = v)).length)
    exact List.mem_map.mpr ⟨r, (List.mem_filter.mp hr).1, by simpa using (List.mem_filter.mp hr).2⟩
  obtain ⟨r0, hr0⟩ : ∃ r0, (T.filter (fun r => r.key = v)).head? = some r0 := by
    cases h' : T.filter (fun r => r.key = v) with
    | nil => rw [h'] at hG; simp at hG
    | cons a l => exact ⟨a, rfl⟩
  refine ⟨aggRow (moAgg s) (T.filter (fun r => r.key = v)) v, ?_, rfl, ?_, ?_⟩
  · simp only [aggregate, if_true]; exact List.mem_map.mpr ⟨v, hv, rfl⟩
  · intro hc
    have hl : lookupDef (moAgg s) Name.count = some Expr.len := by simp [moAgg, hc, lookupDef]
    simp only [aggRow, hl, hr0, evalRow]
  · intro c hc
    have hl : lookupDef (moAgg s) (Name.mean c) = some (Expr.mean (ucol c)) := by
      unfold moAgg
      have h1 : lookupDef (if s.has_count then [(Name.count, Expr.len)] else []) (Name.mean c) = none := by
        split_ifs <;> simp [lookupDef]
      rw [lookupDef_append, lookupDef_append, lookupDef_append, h1,
        lookupDef_map _ Name.mean _ (fun a b h => by injection h) c hc]
      rfl
    simp only [aggRow, hl, hr0, evalRow, ucol]

end MeansOnly

/-! ## the Ibis SQL-demeaning fallback -/

section Fallback
variable (s : ColSpec) (T : List (Row κ α)) (v : κ)

def fbDem : List (Name × Expr) :=
  (covarCols s).map (fun c => (Name.demean c, Expr.sub (ucol c) (.over (.mean (.cast (ucol c))))))
def fbAgg : List (Name × Expr) :=
  (if s.has_count then [(Name.count, Expr.countStar)] else [])
    ++ s.mean_cols.map (fun c => (Name.mean c, Expr.mean (.cast (ucol c))))
    ++ s.var_cols.map (fun c => (Name.var c,
        Expr.div (.sum (.mul (.col (.demean c)) (.col (.demean c)))) (.sub .countStar (.lit 1))))
    ++ s.cov_cols.map (fun p => (Name.cov p.1 p.2,
        Expr.div (.sum (.mul (.col (.demean p.1)) (.col (.demean p.2)))) (.sub .countStar (.lit 1))))

theorem fbQuery_eq (h : covarCols s ≠ []) :
    ibisFallbackQuery true s = [Stage.withColumns (fbDem s), Stage.aggregate true (fbAgg s)] := by
  unfold ibisFallbackQuery fbDem fbAgg
  have : (covarCols s).isEmpty = false := by
    cases hc : covarCols s with
    | nil => exact absurd hc h
    | cons a l => rfl
  simp [this]

theorem fb_dem_val (c : String) (hc : c ∈ covarCols s) (r : Row κ α) :
    (wcRow (fbDem s) T r).val (Name.demean c)
      = r.val (.user c) - smean (T.filter (fun r' => r'.key = r.key)) (fun r' => r'.val (.user c)) := by
  have hl : lookupDef (fbDem s) (Name.demean c) = some (Expr.sub (ucol c) (.over (.mean (.cast (ucol c))))) :=
    lookupDef_map (covarCols s) Name.demean _ (fun a b h => by injection h) c hc
  rw [wcRow_val_some _ _ _ _ _ hl]
  simp [evalRow, ucol]

theorem fb_user_val (c : String) (r : Row κ α) : (wcRow (fbDem s) T r).val (Name.user c) = r.val (.user c) := by
  apply wcRow_val_none
  exact lookupDef_map_none _ _ _ _ (fun c' => by simp)

theorem fb_lookup_count (h : s.has_count = true) : lookupDef (fbAgg s) Name.count = some Expr.countStar := by
  unfold fbAgg; simp [h, lookupDef]

theorem fb_lookup_mean (c : String) (hc : c ∈ s.mean_cols) :
    lookupDef (fbAgg s) (Name.mean c) = some (Expr.mean (.cast (ucol c))) := by
  unfold fbAgg
  have h1 : lookupDef (if s.has_count then [(Name.count, Expr.countStar)] else []) (Name.mean c) = none := by
    split_ifs <;> simp [lookupDef]
  rw [lookupDef_append, lookupDef_append, lookupDef_append, h1,
    lookupDef_map _ Name.mean _ (fun a b h => by injection h) c hc]
  rfl

theorem fb_lookup_var (c : String) (hc : c ∈ s.var_cols) :
    lookupDef (fbAgg s) (Name.var c)
      = some (Expr.div (.sum (.mul (.col (.demean c)) (.col (.demean c)))) (.sub .countStar (.lit 1))) := by
  unfold fbAgg
  have h1 : lookupDef (if s.has_count then [(Name.count, Expr.countStar)] else []) (Name.var c) = none := by
    split_ifs <;> simp [lookupDef]
  rw [lookupDef_append, lookupDef_append, lookupDef_append, h1,
    lookupDef_map_none _ _ _ _ (fun c' => by simp), lookupDef_map _ Name.var _ (fun a b h => by injection h) c hc]
  rfl

theorem fb_lookup_cov (p : String × String) (hp : p ∈ s.cov_cols) :
    lookupDef (fbAgg s) (Name.cov p.1 p.2)
      = some (Expr.div (.sum (.mul (.col (.demean p.1)) (.col (.demean p.2)))) (.sub .countStar (.lit 1))) := by
  unfold fbAgg
  have h1 : lookupDef (if s.has_count then [(Name.count, Expr.countStar)] else []) (Name.cov p.1 p.2) = none := by
    split_ifs <;> simp [lookupDef]
  rw [lookupDef_append, lookupDef_append, lookupDef_append, h1,
    lookupDef_map_none _ _ _ _ (fun c' => by simp), lookupDef_map_none _ _ _ _ (fun c' => by simp),
    lookupDef_map_pair _ (fun p => Expr.div (.sum (.mul (.col (.demean p.1)) (.col (.demean p.2))))
      (.sub .countStar (.lit 1))) p hp]
  rfl

/-- **Ibis fallback (SQL demeaning) = exact sample statistics.** -/
theorem ibisFallback_eval_eq_stats (hcc : covarCols s ≠ []) (hG : 2 ≤ (T.filter (fun r => r.key = v)).length) :
    ∃ r ∈ eval (ibisFallbackQuery true s) T, r.key = v ∧
      (s.has_count = true → r.val Name.count = ((T.filter (fun r => r.key = v)).length : α)) ∧
      (∀ c ∈ s.mean_cols, r.val (Name.mean c) = smean (T.filter (fun r => r.key = v)) (fun r => r.val (.user c))) ∧
      (∀ c ∈ s.var_cols, r.val (Name.var c) = svar (T.filter (fun r => r.key = v)) (fun r => r.val (.user c))) ∧
      (∀ p ∈ s.cov_cols, r.val (Name.cov p.1 p.2)
        = scov (T.filter (fun r => r.key = v)) (fun r => r.val (.user p.1)) (fun r => r.val (.user p.2))) := by
  rw [fbQuery_eq s hcc]
  simp only [eval, List.foldl_cons, List.foldl_nil, evalStage, withColumns_eq]
  set T1 := T.map (wcRow (fbDem s) T) with hT1
  have hkeys : T1.map (·.key) = T.map (·.key) := by simp [hT1, List.map_map, Function.comp_def]
  have hv : v ∈ (T1.map (·.key)).dedup := by
    rw [List.mem_dedup, hkeys]
    obtain ⟨r, hr⟩ := List.exists_mem_of_length_pos (by omega : 0 < (T.filter (fun r => r.key = v)).length)
    exact List.mem_map.mpr ⟨r, (List.mem_filter.mp hr).1, by simpa using (List.mem_filter.mp hr).2⟩
  have hG1 : T1.filter (fun r => r.key = v) = (T.filter (fun r => r.key = v)).map (wcRow (fbDem s) T) :=
    filter_map_key T (wcRow (fbDem s) T) (fun r => rfl) v
  have hlen : ((T.filter (fun r => r.key = v)).map (wcRow (fbDem s) T)).length
      = (T.filter (fun r => r.key = v)).length := by simp
  obtain ⟨r0, hr0⟩ : ∃ r0, ((T.filter (fun r => r.key = v)).map (wcRow (fbDem s) T)).head? = some r0 := by
    cases h : (T.filter (fun r => r.key = v)).map (wcRow (fbDem s) T) with
    | nil => rw [h] at hlen; simp at hlen; omega
    | cons a l => exact ⟨a, rfl⟩
  refine ⟨aggRow (fbAgg s) (T1.filter (fun r => r.key = v)) v, ?_, rfl, ?_, ?_, ?_, ?_⟩
  · simp only [aggregate, if_true]; exact List.mem_map.mpr ⟨v, hv, rfl⟩
  · intro hc
    simp only [aggRow, fb_lookup_count s hc, hG1, hr0, evalRow, hlen]
  · intro c hc
    simp only [aggRow, fb_lookup_mean s c hc, hG1, hr0, evalRow, ucol]
    unfold smean
    rw [S_map, hlen]
    congr 1
    apply S_congr
    intro r _
    rw [fb_user_val]
  · intro c hc
    have hcv := mem_var_covar s c hc
    simp only [aggRow, fb_lookup_var s c hc, hG1, hr0, evalRow, hlen, Int.cast_one]
    unfold svar scov
    congr 1
    rw [S_map]
    apply S_congr
    intro r hr
    rw [fb_dem_val s T c hcv, window_in_group T v c r hr]
  · intro p hp
    obtain ⟨hc1, hc2⟩ := mem_cov_covar s p hp
    simp only [aggRow, fb_lookup_cov s p hp, hG1, hr0, evalRow, hlen, Int.cast_one]
    unfold scov
    congr 1
    rw [S_map]
    apply S_congr
    intro r hr
    rw [fb_dem_val s T p.1 hc1, fb_dem_val s T p.2 hc2, window_in_group T v p.1 r hr, window_in_group T v p.2 r hr]

end Fallback

/-! ## the Ibis pipelines without grouping (power analysis on an Ibis table) -/

section IbisUngrouped
variable (s : ColSpec) (T : List (Row κ α))

def fbDemU : List (Name × Expr) :=
  (covarCols s).map (fun c => (Name.demean c, Expr.sub (ucol c) (.mean (.cast (ucol c)))))

theorem fbQueryU_eq (h : covarCols s ≠ []) :
    ibisFallbackQuery false s = [Stage.withColumns (fbDemU s), Stage.aggregate false (fbAgg s)] := by
  unfold ibisFallbackQuery fbDemU fbAgg
  have : (covarCols s).isEmpty = false := by
    cases hc : covarCols s with
    | nil => exact absurd hc h
    | cons a l => rfl
  simp [this]

theorem fbU_dem_val (c : String) (hc : c ∈ covarCols s) (r : Row κ α) :
    (wcRow (fbDemU s) T r).val (Name.demean c) = r.val (.user c) - smean T (fun r' => r'.val (.user c)) := by
  have hl : lookupDef (fbDemU s) (Name.demean c) = some (Expr.sub (ucol c) (.mean (.cast (ucol c)))) :=
    lookupDef_map (covarCols s) Name.demean _ (fun a b h => by injection h) c hc
  rw [wcRow_val_some _ _ _ _ _ hl]
  simp [evalRow, ucol]

theorem fbU_user_val (c : String) (r : Row κ α) : (wcRow (fbDemU s) T r).val (Name.user c) = r.val (.user c) := by
  apply wcRow_val_none
  exact lookupDef_map_none _ _ _ _ (fun c' => by simp)

/-- **Ibis fallback, ungrouped = the sample statistics of the whole table** (one row) -/
theorem ibisFallbackU_eval_eq_stats (hcc : covarCols s ≠ []) (hn : 2 ≤ T.length) :
    ∃ r, eval (ibisFallbackQuery false s) T = [r] ∧
      (s.has_count = true → r.val Name.count = (T.length : α)) ∧
      (∀ c ∈ s.mean_cols, r.val (Name.mean c) = smean T (fun r => r.val (.user c))) ∧
      (∀ c ∈ s.var_cols, r.val (Name.var c) = svar T (fun r => r.val (.user c))) ∧
      (∀ p ∈ s.cov_cols, r.val (Name.cov p.1 p.2)
        = scov T (fun r => r.val (.user p.1)) (fun r => r.val (.user p.2))) := by
  rw [fbQueryU_eq s hcc]
  simp only [eval, List.foldl_cons, List.foldl_nil, evalStage, withColumns_eq, aggregate, Bool.false_eq_true, if_false]
  have hlen : (T.map (wcRow (fbDemU s) T)).length = T.length := by simp
  obtain ⟨r0, hr0⟩ : ∃ r0, (T.map (wcRow (fbDemU s) T)).head? = some r0 := by
    cases h : T.map (wcRow (fbDemU s) T) with
    | nil => rw [h] at hlen; simp at hlen; omega
    | cons a l => exact ⟨a, rfl⟩
  refine ⟨_, rfl, ?_, ?_, ?_, ?_⟩
  · intro hc
    simp only [aggRow, fb_lookup_count s hc, hr0, evalRow, hlen]
  · intro c hc
    simp only [aggRow, fb_lookup_mean s c hc, hr0, evalRow, ucol]
    unfold smean
    rw [S_map, hlen]
    congr 1
    apply S_congr
    intro r _
    rw [fbU_user_val]
  · intro c hc
    have hcv := mem_var_covar s c hc
    simp only [aggRow, fb_lookup_var s c hc, hr0, evalRow, hlen, Int.cast_one]
    unfold svar scov
    congr 1
    rw [S_map]
    apply S_congr
    intro r _
    rw [fbU_dem_val s T c hcv]
  · intro p hp
    obtain ⟨hc1, hc2⟩ := mem_cov_covar s p hp
    simp only [aggRow, fb_lookup_cov s p hp, hr0, evalRow, hlen, Int.cast_one]
    unfold scov
    congr 1
    rw [S_map]
    apply S_congr
    intro r _
    rw [fbU_dem_val s T p.1 hc1, fbU_dem_val s T p.2 hc2]

end IbisUngrouped

/-! ## the native Ibis branch: `var(how="sample")` / `cov(how="sample")` of the float-cast columns,
grouped by the variant — the meaning of the backend's operators is the specification itself (trusted);
what is tied to the code is that exactly these operators, on exactly these columns and groups, are
requested. -/

def ntAgg (s : ColSpec) : List (Name × Expr) :=
  (if s.has_count then [(Name.count, Expr.countStar)] else [])
    ++ s.mean_cols.map (fun c => (Name.mean c, Expr.mean (.cast (ucol c))))
    ++ s.var_cols.map (fun c => (Name.var c, Expr.varSample (.cast (ucol c))))
    ++ s.cov_cols.map (fun p => (Name.cov p.1 p.2, Expr.covSample (.cast (ucol p.1)) (.cast (ucol p.2))))

theorem nt_lookup_count (s : ColSpec) (h : s.has_count = true) : lookupDef (ntAgg s) Name.count = some Expr.countStar := by
  unfold ntAgg; simp [h, lookupDef]

theorem nt_lookup_mean (s : ColSpec) (c : String) (hc : c ∈ s.mean_cols) :
    lookupDef (ntAgg s) (Name.mean c) = some (Expr.mean (.cast (ucol c))) := by
  unfold ntAgg
  have h1 : lookupDef (if s.has_count then [(Name.count, Expr.countStar)] else []) (Name.mean c) = none := by
    split_ifs <;> simp [lookupDef]
  rw [lookupDef_append, lookupDef_append, lookupDef_append, h1,
    lookupDef_map _ Name.mean _ (fun a b h => by injection h) c hc]
  rfl

theorem ibisNative_eval_eq_stats (s : ColSpec) (T : List (Row κ α)) (v : κ)
    (hG : 1 ≤ (T.filter (fun r => r.key = v)).length) :
    ∃ r ∈ eval (ibisNativeQuery true s) T, r.key = v ∧
      (s.has_count = true → r.val Name.count = ((T.filter (fun r => r.key = v)).length : α)) ∧
      (∀ c ∈ s.mean_cols, r.val (Name.mean c) = smean (T.filter (fun r => r.key = v)) (fun r => r.val (.user c))) ∧
      (∀ c ∈ s.var_cols, r.val (Name.var c) = svar (T.filter (fun r => r.key = v)) (fun r => r.val (.user c))) ∧
      (∀ p ∈ s.cov_cols, r.val (Name.cov p.1 p.2)
        = scov (T.filter (fun r => r.key = v)) (fun r => r.val (.user p.1)) (fun r => r.val (.user p.2))) := by
  have hq : ibisNativeQuery true s = [Stage.aggregate true (ntAgg s)] := rfl
  rw [hq]
  simp only [eval, List.foldl_cons, List.foldl_nil, evalStage]
  have hv : v ∈ (T.map (·.key)).dedup := by
    rw [List.mem_dedup]
    obtain ⟨r, hr⟩ := List.exists_mem_of_length_pos (by omega : 0 < (T.filter (fun r => r.key = v)).length)
    exact List.mem_map.mpr ⟨r, (List.mem_filter.mp hr).1, by simpa using (List.mem_filter.mp hr).2⟩
  obtain ⟨r0, hr0⟩ : ∃ r0, (T.filter (fun r => r.key = v)).head? = some r0 := by
    cases h : T.filter (fun r => r.key = v) with
    | nil => rw [h] at hG; simp at hG
    | cons a l => exact ⟨a, rfl⟩
  refine ⟨aggRow (ntAgg s) (T.filter (fun r => r.key = v)) v, ?_, rfl, ?_, ?_, ?_, ?_⟩
  · simp only [aggregate, if_true]; exact List.mem_map.mpr ⟨v, hv, rfl⟩
  · intro hc
    simp only [aggRow, nt_lookup_count s hc, hr0, evalRow]
  · intro c hc
    simp only [aggRow, nt_lookup_mean s c hc, hr0, evalRow, ucol]
  · intro c hc
    have hl : lookupDef (ntAgg s) (Name.var c) = some (Expr.varSample (.cast (ucol c))) := by
      unfold ntAgg
      have h1 : lookupDef (if s.has_count then [(Name.count, Expr.countStar)] else []) (Name.var c) = none := by
        split_ifs <;> simp [lookupDef]
      rw [lookupDef_append, lookupDef_append, lookupDef_append, h1,
        lookupDef_map_none _ _ _ _ (fun c' => by simp), lookupDef_map _ Name.var _ (fun a b h => by injection h) c hc]
      rfl
    simp only [aggRow, hl, hr0, evalRow, ucol]
  · intro p hp
    have hl : lookupDef (ntAgg s) (Name.cov p.1 p.2) = some (Expr.covSample (.cast (ucol p.1)) (.cast (ucol p.2))) := by
      unfold ntAgg
      have h1 : lookupDef (if s.has_count then [(Name.count, Expr.countStar)] else []) (Name.cov p.1 p.2) = none := by
        split_ifs <;> simp [lookupDef]
      rw [lookupDef_append, lookupDef_append, lookupDef_append, h1,
        lookupDef_map_none _ _ _ _ (fun c' => by simp), lookupDef_map_none _ _ _ _ (fun c' => by simp),
        lookupDef_map_pair _ (fun p => Expr.covSample (.cast (ucol p.1)) (.cast (ucol p.2))) p hp]
      rfl
    simp only [aggRow, hl, hr0, evalRow, ucol]

/-- **Ibis native, ungrouped** (power analysis on a backend with `var`/`cov`): one row holding the statistics of
the whole table -/
theorem ibisNativeU_eval_eq_stats (s : ColSpec) (T : List (Row κ α)) (hn : 1 ≤ T.length) :
    ∃ r, eval (ibisNativeQuery false s) T = [r] ∧
      (s.has_count = true → r.val Name.count = (T.length : α)) ∧
      (∀ c ∈ s.mean_cols, r.val (Name.mean c) = smean T (fun r => r.val (.user c))) ∧
      (∀ c ∈ s.var_cols, r.val (Name.var c) = svar T (fun r => r.val (.user c))) ∧
      (∀ p ∈ s.cov_cols, r.val (Name.cov p.1 p.2)
        = scov T (fun r => r.val (.user p.1)) (fun r => r.val (.user p.2))) := by
  have hq : ibisNativeQuery false s = [Stage.aggregate false (ntAgg s)] := rfl
  rw [hq]
  simp only [eval, List.foldl_cons, List.foldl_nil, evalStage, aggregate, Bool.false_eq_true, if_false]
  obtain ⟨r0, hr0⟩ : ∃ r0, T.head? = some r0 := by
    cases h : T with
    | nil => rw [h] at hn; simp at hn
    | cons a l => exact ⟨a, rfl⟩
  refine ⟨_, rfl, ?_, ?_, ?_, ?_⟩
  · intro hc
    simp only [aggRow, nt_lookup_count s hc, hr0, evalRow]
  · intro c hc
    simp only [aggRow, nt_lookup_mean s c hc, hr0, evalRow, ucol]
  · intro c hc
    have hl : lookupDef (ntAgg s) (Name.var c) = some (Expr.varSample (.cast (ucol c))) := by
      unfold ntAgg
      have h1 : lookupDef (if s.has_count then [(Name.count, Expr.countStar)] else []) (Name.var c) = none := by
        split_ifs <;> simp [lookupDef]
      rw [lookupDef_append, lookupDef_append, lookupDef_append, h1,
        lookupDef_map_none _ _ _ _ (fun c' => by simp), lookupDef_map _ Name.var _ (fun a b h => by injection h) c hc]
      rfl
    simp only [aggRow, hl, hr0, evalRow, ucol]
  · intro p hp
    have hl : lookupDef (ntAgg s) (Name.cov p.1 p.2) = some (Expr.covSample (.cast (ucol p.1)) (.cast (ucol p.2))) := by
      unfold ntAgg
      have h1 : lookupDef (if s.has_count then [(Name.count, Expr.countStar)] else []) (Name.cov p.1 p.2) = none := by
        split_ifs <;> simp [lookupDef]
      rw [lookupDef_append, lookupDef_append, lookupDef_append, h1,
        lookupDef_map_none _ _ _ _ (fun c' => by simp), lookupDef_map_none _ _ _ _ (fun c' => by simp),
        lookupDef_map_pair _ (fun p => Expr.covSample (.cast (ucol p.1)) (.cast (ucol p.2))) p hp]
      rfl
    simp only [aggRow, hl, hr0, evalRow, ucol]

/-- the SQL fallback without variances / covariances is the native pipeline (no demeaning stage): means and counts
only, e.g. `SampleRatio` on an Ibis table -/
theorem ibisFallback_meansOnly (g : Bool) (s : ColSpec) (h : covarCols s = []) :
    ibisFallbackQuery g s = [Stage.aggregate g ((if s.has_count then [(Name.count, Expr.countStar)] else [])
      ++ s.mean_cols.map (fun c => (Name.mean c, Expr.mean (.cast (ucol c))))
      ++ s.var_cols.map (fun c => (Name.var c,
          Expr.div (.sum (.mul (.col (.demean c)) (.col (.demean c)))) (.sub .countStar (.lit 1))))
      ++ s.cov_cols.map (fun p => (Name.cov p.1 p.2,
          Expr.div (.sum (.mul (.col (.demean p.1)) (.col (.demean p.2)))) (.sub .countStar (.lit 1)))))] := by
  unfold ibisFallbackQuery
  simp [h]

/-! ## one statement for the three pipelines -/

/-- row `r` holds, under the output names, the exact sample statistics of the rows of `T` with variant `v` -/
def IsStats (s : ColSpec) (T : List (Row κ α)) (v : κ) (r : Row κ α) : Prop :=
  r.key = v ∧
  (s.has_count = true → r.val Name.count = ((T.filter (fun r => r.key = v)).length : α)) ∧
  (∀ c ∈ s.mean_cols, r.val (Name.mean c) = smean (T.filter (fun r => r.key = v)) (fun r => r.val (.user c))) ∧
  (∀ c ∈ s.var_cols, r.val (Name.var c) = svar (T.filter (fun r => r.key = v)) (fun r => r.val (.user c))) ∧
  (∀ p ∈ s.cov_cols, r.val (Name.cov p.1 p.2)
    = scov (T.filter (fun r => r.key = v)) (fun r => r.val (.user p.1)) (fun r => r.val (.user p.2)))

/-- **C01 (grouped, at least one variance / covariance requested)**: each of the three pipelines
`aggr.py` can build returns, for every variant with at least two rows, a row holding exactly the sample
statistics of that variant's rows. -/
theorem all_pipelines_eq_stats (s : ColSpec) (T : List (Row κ α)) (v : κ) (hcc : covarCols s ≠ [])
    (hG : 2 ≤ (T.filter (fun r => r.key = v)).length) :
    (∃ r ∈ eval (nwQuery true s) T, IsStats s T v r)
    ∧ (∃ r ∈ eval (ibisFallbackQuery true s) T, IsStats s T v r)
    ∧ (∃ r ∈ eval (ibisNativeQuery true s) T, IsStats s T v r) := by
  refine ⟨?_, ?_, ?_⟩
  · obtain ⟨r, hr, h1, h2, h3, h4, h5⟩ := nw_eval_eq_stats s T v hcc hG
    exact ⟨r, hr, h1, fun _ => h2, h3, h4, h5⟩
  · exact ibisFallback_eval_eq_stats s T v hcc hG
  · exact ibisNative_eval_eq_stats s T v (by omega)

/-- sanity: demeaning by the GLOBAL mean instead of the variant's mean is not the same thing — the
theorems above can fail -/
theorem global_demean_counterexample :
    let T : List (Row Int ℚ) := [⟨0, fun _ => 1⟩, ⟨0, fun _ => 3⟩, ⟨1, fun _ => 10⟩, ⟨1, fun _ => 14⟩]
    let x : Row Int ℚ → ℚ := fun r => r.val (.user "x")
    S (T.filter (fun r => r.key = 0)) (fun r => (x r - smean T x) * (x r - smean T x)) / (2 - 1)
      ≠ svar (T.filter (fun r => r.key = 0)) x := by
  decide +kernel

end C01
