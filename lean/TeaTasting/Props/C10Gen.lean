import TeaTasting.Gen.MultLoops
import TeaTasting.Model.Multiplicity

/-! # C10, continued — the loops of the model ARE the loops of the source

`Gen/MultLoops.lean` is regenerated on every run from `_hochberg_stepup` / `_holm_stepdown` (one
`step` function per loop: carried state, index, p-value ↦ what is written into the result and the
new state; plus the initial state, the `enumerate` start and the direction of the sort).  The
hand-written loops of `Model/Multiplicity.lean`, about which every other theorem of C10 is stated,
are proved here to be exactly those generated loops — so a change of the loop logic in the source
changes a definition these proofs are checked against, not only a correspondence run. -/

open Mult

set_option linter.unusedSectionVars false

variable {α : Type} [Field α] [LinearOrder α] [IsStrictOrderedRing α]

namespace C10

/-- the triple `update(pvalue_adj=…, alpha_adj=…, null_rejected=…)` writes -/
def toOut (t : α × α × Bool) : Out α := ⟨t.1, t.2.1, t.2.2⟩

/-- the generated step-up loop is `stepupAux`, from any state and position -/
theorem gen_stepup_loop (adjust : α → α → α × α) (m : ℕ) (ps : List α) (i : ℕ) (pm am : α) :
    (Gen.runLoop (Gen.hochbergStepup.step adjust m) ps i (pm, am)).map toOut = stepupAux adjust m ps i pm am := by
  induction ps generalizing i pm am with
  | nil => rfl
  | cons p rest ih =>
    simp only [Gen.runLoop, List.map_cons, stepupAux]
    rw [show (Gen.hochbergStepup.step adjust m (pm, am) i p).2 =
        (min (adjust p ((m : α) - (i : α))).1 pm,
          if am = 0 ∧ p ≤ (adjust p ((m : α) - (i : α))).2 then (adjust p ((m : α) - (i : α))).2 else am) from rfl, ih]
    rfl

/-- the generated step-down loop is `stepdownAux` -/
theorem gen_stepdown_loop (adjust : α → α → α × α) (ps : List α) (k : ℕ) (pm am : α) :
    (Gen.runLoop (Gen.holmStepdown.step adjust) ps k (pm, am)).map toOut = stepdownAux adjust ps k pm am := by
  induction ps generalizing k pm am with
  | nil => rfl
  | cons p rest ih =>
    simp only [Gen.runLoop, List.map_cons, stepdownAux]
    rw [show (Gen.holmStepdown.step adjust (pm, am) k p).2 =
        (max (adjust p (k : α)).1 pm,
          if am = 1 ∧ (adjust p (k : α)).2 < p then (adjust p (k : α)).2 else am) from rfl, ih]
    rfl

/-- **`_hochberg_stepup` as generated = the model's `hochbergStepup`**: same initial state
`(pvalue_adj_max, alpha_adj_min) = (1, 0)`, positions from 0 with `k = m − i`, `m` the length of the
family, p-values sorted descending -/
theorem gen_hochberg_eq (adjust : α → α → α × α) (ps : List α) :
    (Gen.runLoop (Gen.hochbergStepup.step adjust ps.length) ps Gen.hochbergStepup.start
      Gen.hochbergStepup.init).map toOut = hochbergStepup adjust ps ∧
    Gen.hochbergStepup.descending = true ∧ Gen.hochbergStepup.usesLength = true :=
  ⟨gen_stepup_loop adjust ps.length ps 0 1 0, rfl, rfl⟩

/-- **`_holm_stepdown` as generated = the model's `holmStepdown`**: initial state
`(pvalue_adj_min, alpha_adj_max) = (0, 1)`, ranks from 1, p-values sorted ascending -/
theorem gen_holm_eq (adjust : α → α → α × α) (ps : List α) :
    (Gen.runLoop (Gen.holmStepdown.step adjust) ps Gen.holmStepdown.start Gen.holmStepdown.init).map toOut
      = holmStepdown adjust ps ∧
    Gen.holmStepdown.descending = false :=
  ⟨gen_stepdown_loop adjust ps 1 0 1, rfl⟩

end C10
