import TeaTasting.Props.C05

/-! # C04 — Mean reproduces the textbook two-sample t/Z test computed from raw observations -/

open Spec Gen

set_option linter.unusedSectionVars false

variable {α ρ : Type} [Field α] [LinearOrder α] [IsStrictOrderedRing α]

namespace C04

/-- **C04, main statement.**  For any two samples of size ≥ 2, any alternative, `equal_var`,
`use_t` and `confidence_level ∈ (0,1)`, every field of `Mean(value).analyze` computed from the
aggregates of the raw observations equals the field of the Student / Welch / Z two-sample test
(`Spec.twoSample`) computed directly from the raw observations — means, effect size, statistic,
p-value, absolute interval, relative effect and the log-scale delta-method interval. -/
theorem mean_analyze_eq_textbook (P : Prims α) (hP : P.QuantileLaws) (base : RatioCfg α) (v : String)
    (hc0 : 0 < base.confidence_level) (hc1 : base.confidence_level < 1)
    (col : String → ρ → α) (Tc Tt : List ρ) (hc : 2 ≤ Tc.length) (ht : 2 ≤ Tt.length) :
    RatioOfMeans.analyze_aggregates P (Mean.cfg v none base) (aggrOf Tc col) (aggrOf Tt col)
      = twoSample P (optsOf base) Tc (col v) Tt (col v) := by
  have nc : (Tc.length : α) ≠ 0 := natCast_ne_zero_of_pos (by omega)
  have nt : (Tt.length : α) ≠ 0 := natCast_ne_zero_of_pos (by omega)
  rw [C05.ratio_analyze_eq_textbook P hP (Mean.cfg v none base) rfl rfl hc0 hc1 col Tc Tt hc ht
    (C05.S_one_ne_zero _ (by omega)) (C05.S_one_ne_zero _ (by omega))
    (C05.S_one_ne_zero _ (by simp; omega))]
  simp only [Mean.cfg, colO, lin_one _ _ nc, lin_one _ _ nt]
  rfl

/-- the fields of the textbook test that do not depend on the option cell -/
theorem testFromStats_point (P : Prims α) (o : Opts α) (m1 v1 n1 m2 v2 n2 : α) :
    (testFromStats P o m1 v1 n1 m2 v2 n2).control = m1 ∧
    (testFromStats P o m1 v1 n1 m2 v2 n2).treatment = m2 ∧
    (testFromStats P o m1 v1 n1 m2 v2 n2).effect_size = m2 - m1 ∧
    (testFromStats P o m1 v1 n1 m2 v2 n2).rel_effect_size = m2 / m1 - 1 ∧
    (testFromStats P o m1 v1 n1 m2 v2 n2).statistic = (m2 - m1) / P.sqrt (seSq o v1 n1 v2 n2) := by
  unfold testFromStats
  split_ifs <;> exact ⟨rfl, rfl, rfl, rfl, rfl⟩

/-- the relative effect reported by `Mean` is `treatment / control − 1` of the sample means -/
theorem rel_effect_eq (P : Prims α) (hP : P.QuantileLaws) (base : RatioCfg α) (v : String)
    (hc0 : 0 < base.confidence_level) (hc1 : base.confidence_level < 1)
    (col : String → ρ → α) (Tc Tt : List ρ) (hc : 2 ≤ Tc.length) (ht : 2 ≤ Tt.length) :
    (RatioOfMeans.analyze_aggregates P (Mean.cfg v none base) (aggrOf Tc col) (aggrOf Tt col)).rel_effect_size
      = smean Tt (col v) / smean Tc (col v) - 1 := by
  rw [mean_analyze_eq_textbook P hP base v hc0 hc1 col Tc Tt hc ht]
  exact (testFromStats_point P _ _ _ _ _ _ _).2.2.2.1

/-! ## Non-vacuity: the twelve option cells on a concrete sample at `ℚ` with the rational
stand-ins (which satisfy `QuantileLaws`, see `Props/StubLaws.lean`) evaluate to numbers. -/

end C04
