import TeaTasting.Model.Experiment
import TeaTasting.Model.Query
import Mathlib.Data.List.Dedup
import Mathlib.Tactic.Ring

/-! # C03 — aggregate metrics are computed in the backend: one query, no row-level transfer

`Experiment.analyzeTrace` / `solvePowerTrace` (Model/Experiment.lean) list the materialisations from the
data backend.  The theorems: for ANY number of metrics, columns, variants and pairs the trace of an
experiment of aggregated metrics is one grouped fetch; row-level metrics add exactly one fetch whose
columns are the union of what they declared plus the variant column; power analysis is one ungrouped
fetch; and (over the query algebra of C01) the fetched result set has one row per distinct variant, one
row in total when ungrouped — whatever the request and the table. -/

namespace C03
open Experiment

/-! ## merged declarations -/

theorem or_len_pos_left (a b : AggrCols) (h : 0 < a.len) : 0 < (a.or b).len := by
  unfold AggrCols.len AggrCols.or at *
  simp only
  by_cases h1 : a.has_count = true
  · simp [h1]
  · simp only [h1, Bool.false_eq_true, if_false, Nat.zero_add] at h
    by_cases hm : a.mean_cols = []
    · by_cases hv : a.var_cols = []
      · have hc : a.cov_cols ≠ [] := by
          intro hc; simp [hm, hv, hc] at h
        have : 0 < (((a.cov_cols ++ b.cov_cols).map sortedPair).dedup).length := by
          apply List.length_pos_of_ne_nil
          rw [Ne, List.dedup_eq_nil]
          simp [hc]
        omega
      · have : 0 < ((a.var_cols ++ b.var_cols).dedup).length := by
          apply List.length_pos_of_ne_nil
          rw [Ne, List.dedup_eq_nil]; simp [hv]
        omega
    · have : 0 < ((a.mean_cols ++ b.mean_cols).dedup).length := by
        apply List.length_pos_of_ne_nil
        rw [Ne, List.dedup_eq_nil]; simp [hm]
      omega

theorem or_len_pos_right (a b : AggrCols) (h : 0 < b.len) : 0 < (a.or b).len := by
  unfold AggrCols.len AggrCols.or at *
  simp only
  by_cases h1 : b.has_count = true
  · simp [h1]
  · simp only [h1, Bool.false_eq_true, if_false, Nat.zero_add] at h
    by_cases hm : b.mean_cols = []
    · by_cases hv : b.var_cols = []
      · have hc : b.cov_cols ≠ [] := by
          intro hc; simp [hm, hv, hc] at h
        have : 0 < (((a.cov_cols ++ b.cov_cols).map sortedPair).dedup).length := by
          apply List.length_pos_of_ne_nil
          rw [Ne, List.dedup_eq_nil]
          simp [hc]
        omega
      · have : 0 < ((a.var_cols ++ b.var_cols).dedup).length := by
          apply List.length_pos_of_ne_nil
          rw [Ne, List.dedup_eq_nil]; simp [hv]
        omega
    · have : 0 < ((a.mean_cols ++ b.mean_cols).dedup).length := by
        apply List.length_pos_of_ne_nil
        rw [Ne, List.dedup_eq_nil]; simp [hm]
      omega

def aggrStep (acc : AggrCols) (m : String × MetricKind) : AggrCols :=
  match aggrPart m.2 with | some c => acc.or c | none => acc

theorem foldl_aggr_pos_of_acc (ms : List (String × MetricKind)) (acc : AggrCols) (h : 0 < acc.len) :
    0 < (ms.foldl aggrStep acc).len := by
  induction ms generalizing acc with
  | nil => simpa
  | cons m ms ih =>
    simp only [List.foldl_cons]
    apply ih
    unfold aggrStep
    cases aggrPart m.2 with
    | none => simpa
    | some c => exact or_len_pos_left _ _ h

theorem foldl_aggr_pos (ms : List (String × MetricKind)) (acc : AggrCols) (m : String × MetricKind)
    (hm : m ∈ ms) (c : AggrCols) (hc : aggrPart m.2 = some c) (hpos : 0 < c.len) :
    0 < (ms.foldl aggrStep acc).len := by
  induction ms generalizing acc with
  | nil => cases hm
  | cons x xs ih =>
    simp only [List.foldl_cons]
    rcases List.mem_cons.mp hm with rfl | hin
    · apply foldl_aggr_pos_of_acc
      unfold aggrStep; rw [hc]; exact or_len_pos_right _ _ hpos
    · exact ih _ hin

/-- a metric that declares at least one statistic makes the merged request non-empty -/
theorem mergedAggr_pos (ms : List (String × MetricKind)) (m : String × MetricKind) (hm : m ∈ ms)
    (c : AggrCols) (hc : aggrPart m.2 = some c) (hpos : 0 < c.len) : 0 < (mergedAggr ms).len :=
  foldl_aggr_pos ms {} m hm c hc hpos

/-- the row-level columns fetched are exactly the union of the declared ones … -/
theorem mem_mergedGran (ms : List (String × MetricKind)) (col : String) :
    col ∈ mergedGran ms ↔ ∃ m ∈ ms, ∃ g, granPart m.2 = some g ∧ col ∈ g := by
  unfold mergedGran
  rw [List.mem_dedup, List.mem_flatMap]
  constructor
  · rintro ⟨m, hm, hc⟩
    cases hg : granPart m.2 with
    | none => simp [hg] at hc
    | some g => exact ⟨m, hm, g, hg, by simpa [hg] using hc⟩
  · rintro ⟨m, hm, g, hg, hc⟩
    exact ⟨m, hm, by simpa [hg] using hc⟩

/-- … each once -/
theorem nodup_mergedGran (ms : List (String × MetricKind)) : (mergedGran ms).Nodup := List.nodup_dedup _

theorem mergedGran_pos (ms : List (String × MetricKind)) (m : String × MetricKind) (hm : m ∈ ms)
    (g : List String) (hg : granPart m.2 = some g) (hne : g ≠ []) : 0 < (mergedGran ms).length := by
  obtain ⟨c, hc⟩ := List.exists_mem_of_ne_nil g hne
  exact List.length_pos_of_mem ((mem_mergedGran ms c).mpr ⟨m, hm, g, hg, hc⟩)

/-! ## the trace -/

/-- every metric is handed pre-read data: nobody goes back to the backend -/
def Served (ms : List (String × MetricKind)) : Prop :=
  ∀ m ∈ ms, match m.2 with
    | .plain => False
    | .aggregated _ => 0 < (mergedAggr ms).len
    | .granular _ => 0 < (mergedGran ms).length
    | .both _ _ => 0 < (mergedAggr ms).len ∨ 0 < (mergedGran ms).length

theorem flatMap_const_nil {β γ : Type} (l : List β) : l.flatMap (fun _ => ([] : List γ)) = [] := by
  induction l with
  | nil => rfl
  | cons x xs ih => simp

theorem no_refetch (ms : List (String × MetricKind)) (h : Served ms) :
    ms.filterMap (refetch (decide (0 < (mergedAggr ms).len)) (decide (0 < (mergedGran ms).length))) = [] := by
  rw [List.filterMap_eq_nil_iff]
  intro m hm
  have := h m hm
  rcases m with ⟨n, k⟩
  cases k with
  | plain => exact absurd this (by simp)
  | aggregated c => simp only at this; simp [refetch, this]
  | granular g => simp only at this; simp [refetch, this]
  | both c g =>
    simp only at this
    rcases this with h1 | h1
    · simp [refetch, h1]
    · by_cases h2 : 0 < (mergedAggr ms).len <;> simp [refetch, h1, h2]

/-- **The trace of an experiment whose metrics are all served from the shared reads**: at most one
grouped aggregate fetch and at most one row-level fetch — for any number of metrics, declared columns,
variants and variant pairs. -/
theorem analyze_trace_served (ms : List (String × MetricKind)) (variant : String) (npairs : Nat)
    (h : Served ms) (hne : ms ≠ []) :
    analyzeTrace ms variant npairs =
      (if 0 < (mergedAggr ms).len then [Event.aggFetch true (mergedAggr ms)] else [])
      ++ (if 0 < (mergedGran ms).length then [Event.granFetch (mergedGran ms ++ [variant])] else []) := by
  unfold analyzeTrace
  simp only
  rw [no_refetch ms h, flatMap_const_nil, List.append_nil]
  have hsome : 0 < (mergedAggr ms).len ∨ 0 < (mergedGran ms).length := by
    obtain ⟨m, hm⟩ := List.exists_mem_of_ne_nil ms hne
    have := h m hm
    rcases m with ⟨n, k⟩
    cases k with
    | plain => exact absurd this (by simp)
    | aggregated c => exact Or.inl this
    | granular g => exact Or.inr this
    | both c g => exact this
  rcases hsome with h1 | h1
  · by_cases h2 : 0 < (mergedGran ms).length <;> simp [h1, h2]
  · by_cases h2 : 0 < (mergedAggr ms).len <;> simp [h1, h2]

def AllAggregated (ms : List (String × MetricKind)) : Prop := ∀ m ∈ ms, ∃ c, m.2 = MetricKind.aggregated c ∧ 0 < c.len

theorem mergedGran_of_allAggregated (ms : List (String × MetricKind)) (h : AllAggregated ms) : mergedGran ms = [] := by
  unfold mergedGran
  rw [List.dedup_eq_nil, List.flatMap_eq_nil_iff]
  intro m hm
  obtain ⟨c, hc, _⟩ := h m hm
  simp [hc, granPart]

/-- **Only aggregated metrics: exactly one materialisation**, the grouped aggregate of the merged
request — however many metrics (`ms.length`), columns, data rows and variant pairs (`npairs`). -/
theorem analyze_trace_aggregated_only (ms : List (String × MetricKind)) (variant : String) (npairs : Nat)
    (h : AllAggregated ms) (hne : ms ≠ []) :
    analyzeTrace ms variant npairs = [Event.aggFetch true (mergedAggr ms)] := by
  have hpos : 0 < (mergedAggr ms).len := by
    obtain ⟨m, hm⟩ := List.exists_mem_of_ne_nil ms hne
    obtain ⟨c, hc, hp⟩ := h m hm
    exact mergedAggr_pos ms m hm c (by simp [hc, aggrPart]) hp
  have hs : Served ms := by
    intro m hm
    obtain ⟨c, hc, _⟩ := h m hm
    rcases m with ⟨n, k⟩
    simp only at hc
    subst hc
    exact hpos
  rw [analyze_trace_served ms variant npairs hs hne, mergedGran_of_allAggregated ms h]
  simp [hpos]

/-- every metric declares something (a statistic, a column), none is a plain `MetricBase` -/
def Declares (ms : List (String × MetricKind)) : Prop :=
  ∀ m ∈ ms, match m.2 with
    | .plain => False
    | .aggregated c => 0 < c.len
    | .granular g => g ≠ []
    | .both c g => 0 < c.len ∨ g ≠ []

theorem served_of_declares (ms : List (String × MetricKind)) (h : Declares ms) : Served ms := by
  intro m hm
  have := h m hm
  rcases hmk : m with ⟨n, k⟩
  rw [hmk] at this
  cases k with
  | plain => exact this
  | aggregated c => exact mergedAggr_pos ms m hm c (by simp [hmk, aggrPart]) this
  | granular g => exact mergedGran_pos ms m hm g (by simp [hmk, granPart]) this
  | both c g =>
    rcases this with h1 | h1
    · exact Or.inl (mergedAggr_pos ms m hm c (by simp [hmk, aggrPart]) h1)
    · exact Or.inr (mergedGran_pos ms m hm g (by simp [hmk, granPart]) h1)

/-- **With row-level metrics present: exactly one additional fetch**, of the union of the declared
columns (each once) followed by the variant column. -/
theorem analyze_trace_with_granular (ms : List (String × MetricKind)) (variant : String) (npairs : Nat)
    (h : Declares ms) (hA : 0 < (mergedAggr ms).len) (hG : 0 < (mergedGran ms).length) :
    analyzeTrace ms variant npairs =
      [Event.aggFetch true (mergedAggr ms), Event.granFetch (mergedGran ms ++ [variant])] := by
  have hne : ms ≠ [] := by
    rintro rfl
    simp [mergedGran] at hG
  rw [analyze_trace_served ms variant npairs (served_of_declares ms h) hne]
  simp [hA, hG]

theorem analyze_trace_length_le_two (ms : List (String × MetricKind)) (variant : String) (npairs : Nat)
    (h : Declares ms) (hne : ms ≠ []) : (analyzeTrace ms variant npairs).length ≤ 2 := by
  rw [analyze_trace_served ms variant npairs (served_of_declares ms h) hne]
  by_cases h1 : 0 < (mergedAggr ms).len <;> by_cases h2 : 0 < (mergedGran ms).length <;> simp [h1, h2]

/-- the trace does not depend on the number of pairs analysed (nothing is fetched inside the loops) -/
theorem analyze_trace_indep_pairs (ms : List (String × MetricKind)) (variant : String) (n n' : Nat)
    (h : Declares ms) (hne : ms ≠ []) : analyzeTrace ms variant n = analyzeTrace ms variant n' := by
  rw [analyze_trace_served ms variant n (served_of_declares ms h) hne,
    analyze_trace_served ms variant n' (served_of_declares ms h) hne]

/-! ## power analysis -/

def powerStep (acc : AggrCols) (m : String × PowerKind) : AggrCols :=
  match m.2 with | .aggregated c => acc.or c | _ => acc

theorem foldl_power_pos_of_acc (ms : List (String × PowerKind)) (acc : AggrCols) (h : 0 < acc.len) :
    0 < (ms.foldl powerStep acc).len := by
  induction ms generalizing acc with
  | nil => simpa
  | cons m ms ih =>
    simp only [List.foldl_cons]
    apply ih
    unfold powerStep
    rcases m with ⟨n, k⟩
    cases k with
    | aggregated c => exact or_len_pos_left _ _ h
    | plain => simpa
    | notPower => simpa

theorem mergedPower_pos (ms : List (String × PowerKind)) (n : String) (c : AggrCols)
    (hm : (n, PowerKind.aggregated c) ∈ ms) (hpos : 0 < c.len) : 0 < (mergedPower ms).len := by
  unfold mergedPower
  change 0 < (ms.foldl powerStep {}).len
  generalize ({} : AggrCols) = acc
  induction ms generalizing acc with
  | nil => cases hm
  | cons x xs ih =>
    simp only [List.foldl_cons]
    rcases List.mem_cons.mp hm with h | hin
    · apply foldl_power_pos_of_acc
      rw [← h]; exact or_len_pos_right _ _ hpos
    · exact ih hin _

/-- **Power analysis is one ungrouped fetch** when every power metric works from aggregates. -/
theorem solvePower_trace (ms : List (String × PowerKind)) (hnp : ∀ m ∈ ms, m.2 ≠ PowerKind.plain)
    (n : String) (c : AggrCols) (hm : (n, PowerKind.aggregated c) ∈ ms) (hpos : 0 < c.len) :
    solvePowerTrace ms = [Event.aggFetch false (mergedPower ms)] := by
  unfold solvePowerTrace
  have h0 : ms.filterMap powerRefetch = [] := by
    rw [List.filterMap_eq_nil_iff]
    intro m hm'
    have := hnp m hm'
    rcases m with ⟨n', k⟩
    cases k <;> simp_all [powerRefetch]
  simp only [h0, List.append_nil, mergedPower_pos ms n c hm hpos, if_true]

/-! ## what one fetch brings back: one row per variant (one row in total when ungrouped) -/

open Query

variable {α κ : Type} [Field α] [DecidableEq κ]

theorem withColumns_keys (d : List (Name × Expr)) (T : List (Row κ α)) :
    (withColumns d T).map (·.key) = T.map (·.key) := by
  simp [withColumns, List.map_map, Function.comp_def]

variable [Inhabited κ]

theorem aggregate_keys_grouped (d : List (Name × Expr)) (T : List (Row κ α)) :
    (aggregate true d T).map (·.key) = (T.map (·.key)).dedup := by
  simp [aggregate, aggRow, List.map_map, Function.comp_def]

theorem aggregate_length_ungrouped (d : List (Name × Expr)) (T : List (Row κ α)) :
    (aggregate false d T).length = 1 := by
  simp [aggregate]

omit [Inhabited κ] in
theorem joinGroup_keys (d : List (Name × Expr)) (T : List (Row κ α)) :
    (joinGroup d T).map (·.key) = T.map (·.key) := by
  simp [joinGroup, List.map_map, Function.comp_def]

/-- a row-wise stage: `with_columns`, or the join with the table's own per-group aggregates -/
def Stage.rowwise : Stage → Bool
  | .withColumns _ => true
  | .joinGroup _ => true
  | .aggregate _ _ => false

/-- a pipeline `rowwise* ; aggregate ; rowwise*` -/
def OneAgg (grouped : Bool) (q : Q) : Prop :=
  ∃ (pre : List Stage) (d : List (Name × Expr)) (post : List Stage),
    q = pre ++ [Stage.aggregate grouped d] ++ post ∧ (∀ st ∈ pre, Stage.rowwise st = true)
      ∧ (∀ st ∈ post, Stage.rowwise st = true)

theorem eval_rowwise_keys (l : List Stage) (h : ∀ st ∈ l, Stage.rowwise st = true) (T : List (Row κ α)) :
    (eval l T).map (·.key) = T.map (·.key) := by
  induction l generalizing T with
  | nil => rfl
  | cons st l ih =>
    have hl : ∀ st ∈ l, Stage.rowwise st = true := fun x hx => h x (List.mem_cons_of_mem _ hx)
    have hst := h st List.mem_cons_self
    simp only [eval, List.foldl_cons]
    cases st with
    | withColumns d => exact (ih hl (withColumns d T)).trans (withColumns_keys d T)
    | joinGroup d => exact (ih hl (joinGroup d T)).trans (joinGroup_keys d T)
    | aggregate g d => simp [Stage.rowwise] at hst

theorem eval_append (q1 q2 : Q) (T : List (Row κ α)) : eval (q1 ++ q2) T = eval q2 (eval q1 T) := by
  simp [eval, List.foldl_append]

theorem oneAgg_keys (q : Q) (T : List (Row κ α)) (h : OneAgg true q) :
    (eval q T).map (·.key) = (T.map (·.key)).dedup := by
  obtain ⟨pre, d, post, rfl, hpre, hpost⟩ := h
  rw [eval_append, eval_append, eval_rowwise_keys post hpost]
  have : eval [Stage.aggregate true d] (eval pre T) = aggregate true d (eval pre T) := rfl
  rw [this, aggregate_keys_grouped, eval_rowwise_keys pre hpre]

theorem oneAgg_length (q : Q) (T : List (Row κ α)) (h : OneAgg false q) : (eval q T).length = 1 := by
  obtain ⟨pre, d, post, rfl, hpre, hpost⟩ := h
  rw [eval_append, eval_append]
  have h1 := eval_rowwise_keys post hpost (eval [Stage.aggregate false d] (eval pre T))
  have h2 : eval [Stage.aggregate false d] (eval pre T) = aggregate false d (eval pre T) := rfl
  have := congrArg List.length h1
  rw [List.length_map, List.length_map, h2, aggregate_length_ungrouped] at this
  exact this

theorem nw_oneAgg (g : Bool) (s : ColSpec) : OneAgg g (nwQuery g s) := by
  unfold nwQuery
  by_cases h : (covarCols s).isEmpty = true
  · exact ⟨[], _, [], by simp only [h, ↓reduceIte]; rfl, by simp, by simp⟩
  · refine ⟨demeanNwStages g (covarCols s) ++ [_], _, [_], by simp only [h, ↓reduceIte, Bool.false_eq_true]; rfl, ?_, ?_⟩
    · intro st hst
      cases g <;> simp [demeanNwStages] at hst <;> rcases hst with rfl | rfl | rfl <;> rfl
    · intro st hst
      simp at hst; subst hst; rfl

theorem native_oneAgg (g : Bool) (s : ColSpec) : OneAgg g (ibisNativeQuery g s) :=
  ⟨[], _, [], rfl, by simp, by simp⟩

theorem fallback_oneAgg (g : Bool) (s : ColSpec) : OneAgg g (ibisFallbackQuery g s) := by
  unfold ibisFallbackQuery
  by_cases h : (covarCols s).isEmpty = true
  · exact ⟨[], _, [], by simp only [h, ↓reduceIte]; rfl, by simp, by simp⟩
  · refine ⟨[_], _, [], by simp only [h, ↓reduceIte, Bool.false_eq_true]; rfl, ?_, by simp⟩
    intro st hst
    simp at hst; subst hst; rfl

/-- **One row per variant**: whatever is requested and whatever the table holds, the single grouped
fetch of each of the three pipelines returns exactly one row per distinct variant value … -/
theorem aggFetch_rows_grouped (s : ColSpec) (T : List (Row κ α)) :
    ((eval (nwQuery true s) T).map (·.key) = (T.map (·.key)).dedup)
    ∧ ((eval (ibisNativeQuery true s) T).map (·.key) = (T.map (·.key)).dedup)
    ∧ ((eval (ibisFallbackQuery true s) T).map (·.key) = (T.map (·.key)).dedup) :=
  ⟨oneAgg_keys _ T (nw_oneAgg true s), oneAgg_keys _ T (native_oneAgg true s), oneAgg_keys _ T (fallback_oneAgg true s)⟩

/-- … so its size is the number of variants, not the number of data rows -/
theorem aggFetch_rows_count (s : ColSpec) (T : List (Row κ α)) :
    (eval (nwQuery true s) T).length = ((T.map (·.key)).dedup).length
    ∧ (eval (ibisNativeQuery true s) T).length = ((T.map (·.key)).dedup).length
    ∧ (eval (ibisFallbackQuery true s) T).length = ((T.map (·.key)).dedup).length := by
  obtain ⟨h1, h2, h3⟩ := aggFetch_rows_grouped (α := α) s T
  exact ⟨by rw [← h1, List.length_map], by rw [← h2, List.length_map], by rw [← h3, List.length_map]⟩

/-- … and the ungrouped fetch of power analysis returns one row in total -/
theorem aggFetch_rows_ungrouped (s : ColSpec) (T : List (Row κ α)) :
    (eval (nwQuery false s) T).length = 1 ∧ (eval (ibisNativeQuery false s) T).length = 1
    ∧ (eval (ibisFallbackQuery false s) T).length = 1 :=
  ⟨oneAgg_length _ T (nw_oneAgg false s), oneAgg_length _ T (native_oneAgg false s),
   oneAgg_length _ T (fallback_oneAgg false s)⟩

/-! ## non-vacuity: a concrete experiment meets the hypotheses, and moving the read inside the loop would not -/

def exMetrics : List (String × MetricKind) :=
  [("orders", .aggregated (ratioAggrCols [some "orders", none, none, none])),
   ("rpu", .aggregated (ratioAggrCols [some "revenue", some "sessions", some "revenue_cov", none])),
   ("q", .granular ["revenue"]), ("q2", .granular ["revenue", "orders"])]

example : Declares exMetrics := by
  intro m hm
  simp only [exMetrics, List.mem_cons, List.mem_nil_iff, or_false] at hm
  rcases hm with rfl | rfl | rfl | rfl <;> simp [ratioAggrCols, AggrCols.len]

example : analyzeTrace exMetrics "variant" 6 =
    [Event.aggFetch true (mergedAggr exMetrics), Event.granFetch ["revenue", "orders", "variant"]] := by
  decide +kernel

/-- a plain metric (one that reads the data itself) is re-run for every pair: the hypothesis `Declares`
is what separates the two cases -/
example : (analyzeTrace [("m", .plain)] "variant" 3).length = 4 := by decide +kernel

end C03
