import TeaTasting.Spec.Multiplicity
import Mathlib.Tactic.Linarith
import Mathlib.Tactic.Positivity
import Mathlib.Tactic.FieldSimp
import Mathlib.Tactic.SplitIfs
import Mathlib.Data.List.Pairwise

/-! # C10 — adjust_fdr / adjust_fwer implement the named procedures exactly

Loops: `Model/Multiplicity.lean` (hand-written, tied to the code by exact correspondence);
`adjust` functions: GENERATED (`Gen/Multiplicity.lean`).  Specification: `Spec/Multiplicity.lean`. -/

open Mult

set_option linter.unusedSectionVars false

variable {α : Type} [Field α] [LinearOrder α] [IsStrictOrderedRing α]

namespace C10

/-! ## the loops over prepared entries -/

/-- `_hochberg_stepup` with the `adjust` results already attached to each hypothesis -/
def stepupE : List (Entry α) → α → α → List (Out α)
  | [], _, _ => []
  | (p, raw, thr) :: rest, pm, am =>
    let am' := if am = 0 ∧ p ≤ thr then thr else am
    let aa := max thr am'
    let pa := min raw pm
    ⟨pa, aa, decide (p ≤ aa)⟩ :: stepupE rest pa am'

theorem stepupAux_eq (adjust : α → α → α × α) (m : ℕ) (ps : List α) (i : ℕ) (pm am : α) :
    stepupAux adjust m ps i pm am = stepupE (entriesUp adjust m ps i) pm am := by
  induction ps generalizing i pm am with
  | nil => rfl
  | cons p rest ih => simp only [stepupAux, entriesUp, stepupE, ih]

def stepdownE : List (Entry α) → α → α → List (Out α)
  | [], _, _ => []
  | (p, raw, thr) :: rest, pm, am =>
    let am' := if am = 1 ∧ thr < p then thr else am
    let aa := min thr am'
    let pa := max raw pm
    ⟨pa, aa, decide (p ≤ aa)⟩ :: stepdownE rest pa am'

theorem stepdownAux_eq (adjust : α → α → α × α) (ps : List α) (k : ℕ) (pm am : α) :
    stepdownAux adjust ps k pm am = stepdownE (entriesDown adjust ps k) pm am := by
  induction ps generalizing k pm am with
  | nil => rfl
  | cons p rest ih => simp only [stepdownAux, entriesDown, stepdownE, ih]

/-- step-up well-formedness: positive thresholds; p-values and thresholds non-increasing along
the (descending) list -/
def WFUp (l : List (Entry α)) : Prop :=
  (∀ x ∈ l, 0 < x.2.2) ∧ l.Pairwise (fun x y => y.1 ≤ x.1 ∧ y.2.2 ≤ x.2.2)

theorem wfUp_tail {x : Entry α} {l : List (Entry α)} (h : WFUp (x :: l)) : WFUp l :=
  ⟨fun y hy => h.1 y (List.mem_cons_of_mem _ hy), (List.pairwise_cons.mp h.2).2⟩

/-! ## step-up: the loop computes the textbook procedure -/

theorem stepupE_rej (l : List (Entry α)) (pm am : α) (seen : Bool) (hwf : WFUp l)
    (hinv : (seen = false ∧ am = 0) ∨ (seen = true ∧ 0 < am ∧ ∀ x ∈ l, x.1 ≤ am ∧ x.2.2 ≤ am)) :
    (stepupE l pm am).map Out.null_rejected = specRejUp l seen := by
  induction l generalizing pm am seen with
  | nil => rfl
  | cons x rest ih =>
    obtain ⟨p, raw, thr⟩ := x
    have hpos : 0 < thr := hwf.1 (p, raw, thr) List.mem_cons_self
    have hlater := (List.pairwise_cons.mp hwf.2).1
    have hwf' := wfUp_tail hwf
    simp only [stepupE, specRejUp, List.map_cons, List.cons.injEq]
    rcases hinv with ⟨hs, ham⟩ | ⟨hs, hampos, hall⟩
    · subst hs; subst ham
      by_cases hp : p ≤ thr
      · simp only [hp, and_self, if_true, max_self, Bool.false_or, decide_true, true_and]
        apply ih _ _ _ hwf'
        right
        exact ⟨rfl, hpos, fun y hy => ⟨le_trans (hlater y hy).1 hp, (hlater y hy).2⟩⟩
      · have hmax : max thr (0:α) = thr := max_eq_left (le_of_lt hpos)
        simp only [hp, and_false, if_false, Bool.false_or, decide_false, hmax, true_and]
        exact ih _ _ _ hwf' (Or.inl ⟨rfl, rfl⟩)
    · subst hs
      have hne : am ≠ 0 := ne_of_gt hampos
      have hx := hall (p, raw, thr) List.mem_cons_self
      have : p ≤ max thr am := le_trans hx.1 (le_max_right _ _)
      simp only [hne, false_and, if_false, Bool.true_or, this, decide_true, true_and]
      apply ih _ _ _ hwf'
      right
      exact ⟨rfl, hampos, fun y hy => hall y (List.mem_cons_of_mem _ hy)⟩

/-- **step-up rejection flags = the textbook step-up rule**, all lists, ties included -/
theorem stepup_rejected_eq_spec (l : List (Entry α)) (hwf : WFUp l) :
    (stepupE l 1 0).map Out.null_rejected = specRejUp l false :=
  stepupE_rej l 1 0 false hwf (Or.inl ⟨rfl, rfl⟩)

/-- **step-up adjusted p-values = running minimum of the raw values (capped at 1)** -/
theorem stepup_padj_eq_spec (l : List (Entry α)) (pm am : α) :
    (stepupE l pm am).map Out.pvalue_adj = specPadjUp l pm := by
  induction l generalizing pm am with
  | nil => rfl
  | cons x rest ih =>
    obtain ⟨p, raw, thr⟩ := x
    simp only [stepupE, specPadjUp, List.map_cons, ih]

theorem stepupE_alpha (l : List (Entry α)) (pm am : α) (first : Option α) (hwf : WFUp l)
    (hinv : (first = none ∧ am = 0) ∨ (∃ t, first = some t ∧ am = t ∧ 0 < t)) :
    (stepupE l pm am).map Out.alpha_adj = specAlphaUp l first := by
  induction l generalizing pm am first with
  | nil => rfl
  | cons x rest ih =>
    obtain ⟨p, raw, thr⟩ := x
    have hpos : 0 < thr := hwf.1 (p, raw, thr) List.mem_cons_self
    have hwf' := wfUp_tail hwf
    simp only [stepupE, specAlphaUp, List.map_cons, List.cons.injEq]
    rcases hinv with ⟨hf, ham⟩ | ⟨t, hf, ham, ht⟩
    · subst hf; subst ham
      by_cases hp : p ≤ thr
      · simp only [hp, and_self, if_true, max_self, true_and]
        exact ih _ _ _ hwf' (Or.inr ⟨thr, rfl, rfl, hpos⟩)
      · simp only [hp, and_false, if_false, max_eq_left (le_of_lt hpos), true_and]
        exact ih _ _ _ hwf' (Or.inl ⟨rfl, rfl⟩)
    · subst hf; subst ham
      have hne : am ≠ 0 := ne_of_gt ht
      simp only [hne, false_and, if_false, true_and]
      exact ih _ _ _ hwf' (Or.inr ⟨am, rfl, rfl, ht⟩)

/-- **step-up adjusted alphas = threshold of the first passing hypothesis, else the own one** -/
theorem stepup_alpha_eq_spec (l : List (Entry α)) (hwf : WFUp l) :
    (stepupE l 1 0).map Out.alpha_adj = specAlphaUp l none :=
  stepupE_alpha l 1 0 none hwf (Or.inl ⟨rfl, rfl⟩)

/-- **a hypothesis is flagged rejected exactly when `pvalue <= alpha_adj`** (step-up) -/
theorem stepup_rejected_iff_p_le_alpha_adj (l : List (Entry α)) (pm am : α) :
    ∀ x ∈ l.zip (stepupE l pm am), x.2.null_rejected = decide (x.1.1 ≤ x.2.alpha_adj) := by
  induction l generalizing pm am with
  | nil => simp [stepupE]
  | cons e rest ih =>
    obtain ⟨p, raw, thr⟩ := e
    intro x hx
    simp only [stepupE, List.zip_cons_cons, List.mem_cons] at hx
    rcases hx with rfl | hx
    · rfl
    · exact ih _ _ x hx

/-- **… and, in exact arithmetic, exactly when `pvalue_adj <= alpha`** (step-up), given that for
every hypothesis `raw <= alpha ⇔ p <= thr` (true of BH/BY/Bonferroni, see below) -/
theorem stepupE_rejected_iff_padj (l : List (Entry α)) (a pm am : α) (hwf : WFUp l)
    (hdual : ∀ x ∈ l, x.2.1 ≤ a ↔ x.1 ≤ x.2.2)
    (hinv : (am = 0 ∧ a < pm) ∨ (0 < am ∧ pm ≤ a ∧ ∀ x ∈ l, x.1 ≤ am ∧ x.2.2 ≤ am)) :
    ∀ x ∈ l.zip (stepupE l pm am), x.2.null_rejected = true ↔ x.2.pvalue_adj ≤ a := by
  induction l generalizing pm am with
  | nil => simp [stepupE]
  | cons e rest ih =>
    obtain ⟨p, raw, thr⟩ := e
    have hpos : 0 < thr := hwf.1 (p, raw, thr) List.mem_cons_self
    have hlater := (List.pairwise_cons.mp hwf.2).1
    have hwf' := wfUp_tail hwf
    have hd : raw ≤ a ↔ p ≤ thr := hdual (p, raw, thr) List.mem_cons_self
    have hdual' : ∀ x ∈ rest, x.2.1 ≤ a ↔ x.1 ≤ x.2.2 := fun x hx => hdual x (List.mem_cons_of_mem _ hx)
    intro x hx
    simp only [stepupE, List.zip_cons_cons, List.mem_cons] at hx
    rcases hinv with ⟨ham, hpm⟩ | ⟨hampos, hpm, hall⟩
    · subst ham
      by_cases hp : p ≤ thr
      · have hraw : raw ≤ a := hd.mpr hp
        rcases hx with rfl | hx
        · simp only [hp, and_self, if_true, max_self, decide_true, true_iff]
          exact le_trans (min_le_left _ _) hraw
        · simp only [hp, and_self, if_true] at hx
          exact ih _ _ hwf' hdual' (Or.inr ⟨hpos, le_trans (min_le_left _ _) hraw,
            fun y hy => ⟨le_trans (hlater y hy).1 hp, (hlater y hy).2⟩⟩) x hx
      · have hraw : ¬ raw ≤ a := fun h => hp (hd.mp h)
        have hmin : a < min raw pm := lt_min (not_le.mp hraw) hpm
        rcases hx with rfl | hx
        · simp only [hp, and_false, if_false, max_eq_left (le_of_lt hpos), decide_false, Bool.false_eq_true,
            false_iff, not_le]
          exact hmin
        · simp only [hp, and_false, if_false] at hx
          exact ih _ _ hwf' hdual' (Or.inl ⟨rfl, hmin⟩) x hx
    · have hne : am ≠ 0 := ne_of_gt hampos
      have hxx := hall (p, raw, thr) List.mem_cons_self
      rcases hx with rfl | hx
      · simp only [hne, false_and, if_false]
        have : p ≤ max thr am := le_trans hxx.1 (le_max_right _ _)
        simp only [this, decide_true, true_iff]
        exact le_trans (min_le_right _ _) hpm
      · simp only [hne, false_and, if_false] at hx
        exact ih _ _ hwf' hdual' (Or.inr ⟨hampos, le_trans (min_le_right _ _) hpm,
          fun y hy => hall y (List.mem_cons_of_mem _ hy)⟩) x hx

theorem stepup_rejected_iff_padj_le_alpha (l : List (Entry α)) (a : α) (ha : a < 1) (hwf : WFUp l)
    (hdual : ∀ x ∈ l, x.2.1 ≤ a ↔ x.1 ≤ x.2.2) :
    ∀ x ∈ l.zip (stepupE l 1 0), x.2.null_rejected = true ↔ x.2.pvalue_adj ≤ a :=
  stepupE_rejected_iff_padj l a 1 0 hwf hdual (Or.inl ⟨rfl, ha⟩)

/-- **adjusted p-values stay in `[pvalue, 1]`** (step-up), given `p <= raw` for every hypothesis -/
theorem stepupE_padj_mem (l : List (Entry α)) (pm am : α) (hwf : WFUp l)
    (hraw : ∀ x ∈ l, x.1 ≤ x.2.1) (hpm1 : pm ≤ 1) (hpm : ∀ x ∈ l, x.1 ≤ pm) :
    ∀ x ∈ l.zip (stepupE l pm am), x.1.1 ≤ x.2.pvalue_adj ∧ x.2.pvalue_adj ≤ 1 := by
  induction l generalizing pm am with
  | nil => simp [stepupE]
  | cons e rest ih =>
    obtain ⟨p, raw, thr⟩ := e
    have hlater := (List.pairwise_cons.mp hwf.2).1
    have hr : p ≤ raw := hraw (p, raw, thr) List.mem_cons_self
    have hp : p ≤ pm := hpm (p, raw, thr) List.mem_cons_self
    intro x hx
    simp only [stepupE, List.zip_cons_cons, List.mem_cons] at hx
    rcases hx with rfl | hx
    · exact ⟨le_min hr hp, le_trans (min_le_right _ _) hpm1⟩
    · exact ih _ _ (wfUp_tail hwf) (fun y hy => hraw y (List.mem_cons_of_mem _ hy))
        (le_trans (min_le_right _ _) hpm1)
        (fun y hy => le_min (le_trans (hlater y hy).1 hr) (le_trans (hlater y hy).1 hp)) x hx

/-- **adjusted p-values preserve the order of the raw ones** (step-up: non-increasing along the
descending list) -/
theorem stepupE_padj_antitone (l : List (Entry α)) (pm am : α) :
    ((stepupE l pm am).map Out.pvalue_adj).Pairwise (fun a b => b ≤ a) ∧
    ∀ y ∈ (stepupE l pm am).map Out.pvalue_adj, y ≤ pm := by
  induction l generalizing pm am with
  | nil => simp [stepupE]
  | cons e rest ih =>
    obtain ⟨p, raw, thr⟩ := e
    simp only [stepupE, List.map_cons, List.pairwise_cons, List.mem_cons, forall_eq_or_imp]
    obtain ⟨h1, h2⟩ := ih (min raw pm) (if am = 0 ∧ p ≤ thr then thr else am)
    exact ⟨⟨h2, h1⟩, min_le_right _ _, fun y hy => le_trans (h2 y hy) (min_le_right _ _)⟩

/-! ## step-down (Holm) -/

/-- step-down well-formedness: thresholds below 1 (the loop's "unset" marker); p-values
non-decreasing along the (ascending) list -/
def WFDown (l : List (Entry α)) : Prop :=
  (∀ x ∈ l, x.2.2 < 1) ∧ l.Pairwise (fun x y => x.1 ≤ y.1)

theorem wfDown_tail {x : Entry α} {l : List (Entry α)} (h : WFDown (x :: l)) : WFDown l :=
  ⟨fun y hy => h.1 y (List.mem_cons_of_mem _ hy), (List.pairwise_cons.mp h.2).2⟩

theorem stepdownE_rej (l : List (Entry α)) (pm am : α) (failed : Bool) (hwf : WFDown l)
    (hinv : (failed = false ∧ am = 1) ∨ (failed = true ∧ am < 1 ∧ ∀ x ∈ l, am < x.1)) :
    (stepdownE l pm am).map Out.null_rejected = specRejDown l failed := by
  induction l generalizing pm am failed with
  | nil => rfl
  | cons x rest ih =>
    obtain ⟨p, raw, thr⟩ := x
    have hlt : thr < 1 := hwf.1 (p, raw, thr) List.mem_cons_self
    have hlater := (List.pairwise_cons.mp hwf.2).1
    have hwf' := wfDown_tail hwf
    simp only [stepdownE, specRejDown, List.map_cons, List.cons.injEq]
    rcases hinv with ⟨hs, ham⟩ | ⟨hs, ham1, hall⟩
    · subst hs; subst ham
      by_cases hp : thr < p
      · simp only [hp, and_self, if_true, min_self, Bool.false_or, decide_true, Bool.not_true,
          decide_eq_false_iff_not, not_le, true_and]
        apply ih _ _ _ hwf'
        right
        exact ⟨rfl, hlt, fun y hy => lt_of_lt_of_le hp (hlater y hy)⟩
      · have hmin : min thr (1 : α) = thr := min_eq_left (le_of_lt hlt)
        simp only [hp, and_false, if_false, Bool.false_or, decide_false, Bool.not_false, hmin,
          decide_eq_true_eq, not_lt.mp hp, true_and]
        exact ih _ _ _ hwf' (Or.inl ⟨rfl, rfl⟩)
    · subst hs
      have hne : am ≠ 1 := ne_of_lt ham1
      have hx := hall (p, raw, thr) List.mem_cons_self
      have : ¬ p ≤ min thr am := fun h => absurd (lt_of_lt_of_le hx (le_trans h (min_le_right _ _))) (lt_irrefl _)
      simp only [hne, false_and, if_false, Bool.true_or, Bool.not_true, this, decide_false, true_and]
      apply ih _ _ _ hwf'
      right
      exact ⟨rfl, ham1, fun y hy => hall y (List.mem_cons_of_mem _ hy)⟩

/-- **step-down rejection flags = Holm's rule**: rejected iff it and every hypothesis with a
smaller-or-equal p listed before it pass their own thresholds -/
theorem stepdown_rejected_eq_spec (l : List (Entry α)) (hwf : WFDown l) :
    (stepdownE l 0 1).map Out.null_rejected = specRejDown l false :=
  stepdownE_rej l 0 1 false hwf (Or.inl ⟨rfl, rfl⟩)

/-- **step-down adjusted p-values = running maximum of the raw values** -/
theorem stepdown_padj_eq_spec (l : List (Entry α)) (pm am : α) :
    (stepdownE l pm am).map Out.pvalue_adj = specPadjDown l pm := by
  induction l generalizing pm am with
  | nil => rfl
  | cons x rest ih =>
    obtain ⟨p, raw, thr⟩ := x
    simp only [stepdownE, specPadjDown, List.map_cons, ih]

theorem stepdownE_alpha (l : List (Entry α)) (pm am : α) (first : Option α) (hwf : WFDown l)
    (hinv : (first = none ∧ am = 1) ∨ (∃ t, first = some t ∧ am = t ∧ t < 1)) :
    (stepdownE l pm am).map Out.alpha_adj = specAlphaDown l first := by
  induction l generalizing pm am first with
  | nil => rfl
  | cons x rest ih =>
    obtain ⟨p, raw, thr⟩ := x
    have hlt : thr < 1 := hwf.1 (p, raw, thr) List.mem_cons_self
    have hwf' := wfDown_tail hwf
    simp only [stepdownE, specAlphaDown, List.map_cons, List.cons.injEq]
    rcases hinv with ⟨hf, ham⟩ | ⟨t, hf, ham, ht⟩
    · subst hf; subst ham
      by_cases hp : thr < p
      · simp only [hp, and_self, if_true, min_self, true_and]
        exact ih _ _ _ hwf' (Or.inr ⟨thr, rfl, rfl, hlt⟩)
      · simp only [hp, and_false, if_false, min_eq_left (le_of_lt hlt), true_and]
        exact ih _ _ _ hwf' (Or.inl ⟨rfl, rfl⟩)
    · subst hf; subst ham
      have hne : am ≠ 1 := ne_of_lt ht
      simp only [hne, false_and, if_false, true_and]
      exact ih _ _ _ hwf' (Or.inr ⟨am, rfl, rfl, ht⟩)

/-- **step-down adjusted alphas = threshold of the first failing hypothesis, else the own one** -/
theorem stepdown_alpha_eq_spec (l : List (Entry α)) (hwf : WFDown l) :
    (stepdownE l 0 1).map Out.alpha_adj = specAlphaDown l none :=
  stepdownE_alpha l 0 1 none hwf (Or.inl ⟨rfl, rfl⟩)

theorem stepdown_rejected_iff_p_le_alpha_adj (l : List (Entry α)) (pm am : α) :
    ∀ x ∈ l.zip (stepdownE l pm am), x.2.null_rejected = decide (x.1.1 ≤ x.2.alpha_adj) := by
  induction l generalizing pm am with
  | nil => simp [stepdownE]
  | cons e rest ih =>
    obtain ⟨p, raw, thr⟩ := e
    intro x hx
    simp only [stepdownE, List.zip_cons_cons, List.mem_cons] at hx
    rcases hx with rfl | hx
    · rfl
    · exact ih _ _ x hx

theorem stepdownE_rejected_iff_padj (l : List (Entry α)) (a pm am : α) (hwf : WFDown l)
    (hdual : ∀ x ∈ l, x.2.1 ≤ a ↔ x.1 ≤ x.2.2)
    (hinv : (am = 1 ∧ pm ≤ a) ∨ (am < 1 ∧ a < pm ∧ ∀ x ∈ l, am < x.1)) :
    ∀ x ∈ l.zip (stepdownE l pm am), x.2.null_rejected = true ↔ x.2.pvalue_adj ≤ a := by
  induction l generalizing pm am with
  | nil => simp [stepdownE]
  | cons e rest ih =>
    obtain ⟨p, raw, thr⟩ := e
    have hlt : thr < 1 := hwf.1 (p, raw, thr) List.mem_cons_self
    have hlater := (List.pairwise_cons.mp hwf.2).1
    have hwf' := wfDown_tail hwf
    have hd : raw ≤ a ↔ p ≤ thr := hdual (p, raw, thr) List.mem_cons_self
    have hdual' : ∀ x ∈ rest, x.2.1 ≤ a ↔ x.1 ≤ x.2.2 := fun x hx => hdual x (List.mem_cons_of_mem _ hx)
    intro x hx
    simp only [stepdownE, List.zip_cons_cons, List.mem_cons] at hx
    rcases hinv with ⟨ham, hpm⟩ | ⟨ham1, hpm, hall⟩
    · subst ham
      by_cases hp : thr < p
      · have hraw : a < raw := not_le.mp (fun h => absurd (hd.mp h) (not_le.mpr hp))
        rcases hx with rfl | hx
        · simp only [hp, and_self, if_true, min_self, decide_eq_true_eq]
          constructor
          · intro h; exact absurd h (not_le.mpr hp)
          · intro h; exact absurd (le_trans (le_max_left _ _) h) (not_le.mpr hraw)
        · simp only [hp, and_self, if_true] at hx
          exact ih _ _ hwf' hdual' (Or.inr ⟨hlt, lt_of_lt_of_le hraw (le_max_left _ _),
            fun y hy => lt_of_lt_of_le hp (hlater y hy)⟩) x hx
      · have hraw : raw ≤ a := hd.mpr (not_lt.mp hp)
        rcases hx with rfl | hx
        · simp only [hp, and_false, if_false, min_eq_left (le_of_lt hlt), decide_eq_true_eq]
          constructor
          · intro _; exact max_le hraw hpm
          · intro _; exact not_lt.mp hp
        · simp only [hp, and_false, if_false] at hx
          exact ih _ _ hwf' hdual' (Or.inl ⟨rfl, max_le hraw hpm⟩) x hx
    · have hne : am ≠ 1 := ne_of_lt ham1
      have hxx := hall (p, raw, thr) List.mem_cons_self
      rcases hx with rfl | hx
      · simp only [hne, false_and, if_false, decide_eq_true_eq]
        constructor
        · intro h; exact absurd (lt_of_lt_of_le hxx (le_trans h (min_le_right _ _))) (lt_irrefl _)
        · intro h; exact absurd (le_trans (le_max_right _ _) h) (not_le.mpr hpm)
      · simp only [hne, false_and, if_false] at hx
        exact ih _ _ hwf' hdual' (Or.inr ⟨ham1, lt_of_lt_of_le hpm (le_max_right _ _),
          fun y hy => hall y (List.mem_cons_of_mem _ hy)⟩) x hx

/-- **… exactly when `pvalue_adj <= alpha`** (step-down, exact arithmetic, `0 ≤ alpha`) -/
theorem stepdown_rejected_iff_padj_le_alpha (l : List (Entry α)) (a : α) (ha : 0 ≤ a) (hwf : WFDown l)
    (hdual : ∀ x ∈ l, x.2.1 ≤ a ↔ x.1 ≤ x.2.2) :
    ∀ x ∈ l.zip (stepdownE l 0 1), x.2.null_rejected = true ↔ x.2.pvalue_adj ≤ a :=
  stepdownE_rejected_iff_padj l a 0 1 hwf hdual (Or.inl ⟨rfl, ha⟩)

/-- **adjusted p-values stay in `[pvalue, 1]`** (step-down), given `p ≤ raw ≤ 1` -/
theorem stepdownE_padj_mem (l : List (Entry α)) (pm am : α)
    (hraw : ∀ x ∈ l, x.1 ≤ x.2.1 ∧ x.2.1 ≤ 1) (hpm1 : pm ≤ 1) :
    ∀ x ∈ l.zip (stepdownE l pm am), x.1.1 ≤ x.2.pvalue_adj ∧ x.2.pvalue_adj ≤ 1 := by
  induction l generalizing pm am with
  | nil => simp [stepdownE]
  | cons e rest ih =>
    obtain ⟨p, raw, thr⟩ := e
    have hr := hraw (p, raw, thr) List.mem_cons_self
    intro x hx
    simp only [stepdownE, List.zip_cons_cons, List.mem_cons] at hx
    rcases hx with rfl | hx
    · exact ⟨le_trans hr.1 (le_max_left _ _), max_le hr.2 hpm1⟩
    · exact ih _ _ (fun y hy => hraw y (List.mem_cons_of_mem _ hy)) (max_le hr.2 hpm1) x hx

/-- adjusted p-values preserve the order of the raw ones (step-down: non-decreasing) -/
theorem stepdownE_padj_monotone (l : List (Entry α)) (pm am : α) :
    ((stepdownE l pm am).map Out.pvalue_adj).Pairwise (fun a b => a ≤ b) ∧
    ∀ y ∈ (stepdownE l pm am).map Out.pvalue_adj, pm ≤ y := by
  induction l generalizing pm am with
  | nil => simp [stepdownE]
  | cons e rest ih =>
    obtain ⟨p, raw, thr⟩ := e
    simp only [stepdownE, List.map_cons, List.pairwise_cons, List.mem_cons, forall_eq_or_imp]
    obtain ⟨h1, h2⟩ := ih (max raw pm) (if am = 1 ∧ thr < p then thr else am)
    exact ⟨⟨h2, h1⟩, le_max_right _ _, fun y hy => le_trans (le_max_right _ _) (h2 y hy)⟩

/-! ## the GENERATED `adjust` functions produce well-formed families: the procedures are the
named ones -/

theorem mem_entriesUp (adjust : α → α → α × α) (m : ℕ) (ps : List α) (i : ℕ) (x : Entry α)
    (hx : x ∈ entriesUp adjust m ps i) :
    ∃ p ∈ ps, ∃ j, i ≤ j ∧ j < i + ps.length ∧
      x = (p, (adjust p ((m : α) - (j : α))).1, (adjust p ((m : α) - (j : α))).2) := by
  induction ps generalizing i with
  | nil => simp [entriesUp] at hx
  | cons q rest ih =>
    simp only [entriesUp, List.mem_cons] at hx
    rcases hx with rfl | hx
    · exact ⟨q, List.mem_cons_self, i, le_refl _, by simp, rfl⟩
    · obtain ⟨p, hp, j, h1, h2, h3⟩ := ih (i + 1) hx
      exact ⟨p, List.mem_cons_of_mem _ hp, j, by omega, by simp only [List.length_cons]; omega, h3⟩

theorem harmonic_succ (n : ℕ) : (harmonic (n + 1) : α) = harmonic n + 1 / ((n : α) + 1) := by
  unfold harmonic
  rw [List.range_succ, List.map_append, List.sum_append]
  simp

theorem one_le_harmonic (n : ℕ) (hn : 1 ≤ n) : (1 : α) ≤ harmonic n := by
  induction n with
  | zero => omega
  | succ k ih =>
    rw [harmonic_succ]
    rcases Nat.eq_zero_or_pos k with rfl | hk
    · simp [harmonic]
    · have := ih hk
      have : (0 : α) ≤ 1 / ((k : α) + 1) := by positivity
      linarith

/-- `_Benjamini(alpha, m, arbitrary_dependence)`: the effective family size is at least `m`
(equal to `m` for Benjamini–Hochberg, `m·H_m` for Benjamini–Yekutieli) -/
theorem benjamini_m_adj_ge (a : α) (m : ℕ) (dep : Bool) (hm : 1 ≤ m) :
    (m : α) ≤ (Gen.Benjamini.mk a m dep).m_adj_ := by
  unfold Gen.Benjamini.mk
  cases dep
  · simp
  · simp only [if_true]
    have h1 := one_le_harmonic (α := α) m hm
    have h2 : (0 : α) ≤ (m : α) := by positivity
    nlinarith

/-- facts about one Benjamini entry at position `j < m` -/
theorem benjamini_entry (cfg : BenjaminiCfg α) (m j : ℕ) (p : α) (hj : j < m) (hM : (m : α) ≤ cfg.m_adj_)
    (ha0 : 0 < cfg.alpha) (ha1 : cfg.alpha < 1) (hp0 : 0 ≤ p) (hp1 : p ≤ 1) :
    let k : α := (m : α) - (j : α)
    let e := Gen.Benjamini.adjust cfg p k
    0 < e.2 ∧ e.2 = cfg.alpha * k / cfg.m_adj_ ∧ (e.1 ≤ cfg.alpha ↔ p ≤ e.2) ∧ p ≤ e.1 ∧ e.1 ≤ 1 := by
  intro k e
  have hk : (1 : α) ≤ k := by
    have : ((j + 1 : ℕ) : α) ≤ (m : α) := by exact_mod_cast hj
    simp only [k]; push_cast at this; linarith
  have hk0 : 0 < k := by linarith
  have hkm : k ≤ (m : α) := by simp only [k]; have : (0 : α) ≤ (j : α) := by positivity
                               linarith
  have hM0 : 0 < cfg.m_adj_ := by linarith
  have hc : 1 ≤ cfg.m_adj_ / k := by rw [le_div_iff₀ hk0]; linarith
  have hc0 : 0 < cfg.m_adj_ / k := by positivity
  simp only [e, Gen.Benjamini.adjust]
  refine ⟨by positivity, by field_simp, ?_, ?_, min_le_right _ _⟩
  · rw [le_div_iff₀ hc0]
    constructor
    · intro h
      rcases min_le_iff.mp h with h | h
      · exact h
      · linarith
    · intro h; exact le_trans (min_le_left _ _) h
  · exact le_min (by nlinarith) hp1

/-- **the Benjamini (BH / BY) family is well-formed**: thresholds `alpha·k/m_adj` positive and
non-increasing along descending p-values -/
theorem benjamini_wf (cfg : BenjaminiCfg α) (m : ℕ) (ps : List α) (i : ℕ) (hlen : i + ps.length ≤ m)
    (hM : (m : α) ≤ cfg.m_adj_) (ha0 : 0 < cfg.alpha) (ha1 : cfg.alpha < 1)
    (h01 : ∀ p ∈ ps, 0 ≤ p ∧ p ≤ 1) (hs : ps.Pairwise (fun a b => b ≤ a)) :
    WFUp (entriesUp (Gen.Benjamini.adjust cfg) m ps i) := by
  induction ps generalizing i with
  | nil => exact ⟨by simp [entriesUp], by simp [entriesUp]⟩
  | cons q rest ih =>
    have hq := h01 q List.mem_cons_self
    simp only [List.length_cons] at hlen
    have hrest := ih (i + 1) (by omega) (fun p hp => h01 p (List.mem_cons_of_mem _ hp))
      (List.pairwise_cons.mp hs).2
    have e0 := benjamini_entry cfg m i q (by omega) hM ha0 ha1 hq.1 hq.2
    refine ⟨?_, ?_⟩
    · intro x hx
      simp only [entriesUp, List.mem_cons] at hx
      rcases hx with rfl | hx
      · exact e0.1
      · exact hrest.1 x hx
    · simp only [entriesUp, List.pairwise_cons]
      refine ⟨?_, hrest.2⟩
      intro y hy
      obtain ⟨p, hp, j, h1, h2, rfl⟩ := mem_entriesUp _ _ _ _ _ hy
      have hpj := h01 p (List.mem_cons_of_mem _ hp)
      have ej := benjamini_entry cfg m j p (by omega) hM ha0 ha1 hpj.1 hpj.2
      refine ⟨(List.pairwise_cons.mp hs).1 p hp, ?_⟩
      show (Gen.Benjamini.adjust cfg p ((m : α) - (j : α))).2 ≤ (Gen.Benjamini.adjust cfg q ((m : α) - (i : α))).2
      rw [ej.2.1, e0.2.1]
      have hM0 : 0 < cfg.m_adj_ := by
        have : (1 : α) ≤ (m : α) := by exact_mod_cast (show 1 ≤ m by omega)
        linarith
      have hij : ((i : ℕ) : α) ≤ (j : α) := by exact_mod_cast (show i ≤ j by omega)
      apply div_le_div_of_nonneg_right _ hM0.le
      nlinarith

/-- **adjust_fdr (Benjamini–Hochberg and Benjamini–Yekutieli) is the named step-up procedure.**
For p-values in [0,1] sorted descending, `0 < alpha < 1`, family size `m = |ps| ≥ 1`: rejection
flags follow the textbook step-up rule with thresholds `alpha·k/m_adj`, adjusted p-values are the
running minimum of `min(p·m_adj/k, 1)`, flags agree with `pvalue_adj ≤ alpha`, and adjusted
p-values lie in `[pvalue, 1]`. -/
theorem adjust_fdr_is_stepup (a : α) (dep : Bool) (ps : List α) (ha0 : 0 < a) (ha1 : a < 1)
    (hne : 1 ≤ ps.length) (h01 : ∀ p ∈ ps, 0 ≤ p ∧ p ≤ 1) (hs : ps.Pairwise (fun x y => y ≤ x)) :
    let cfg := Gen.Benjamini.mk a ps.length dep
    let l := entriesUp (Gen.Benjamini.adjust cfg) ps.length ps 0
    let out := hochbergStepup (Gen.Benjamini.adjust cfg) ps
    out.map Out.null_rejected = specRejUp l false ∧
    out.map Out.pvalue_adj = specPadjUp l 1 ∧
    out.map Out.alpha_adj = specAlphaUp l none ∧
    (∀ x ∈ l.zip out, x.2.null_rejected = true ↔ x.2.pvalue_adj ≤ a) ∧
    (∀ x ∈ l.zip out, x.1.1 ≤ x.2.pvalue_adj ∧ x.2.pvalue_adj ≤ 1) := by
  intro cfg l out
  have hM := benjamini_m_adj_ge (α := α) a ps.length dep hne
  have hcfga : cfg.alpha = a := rfl
  have hwf : WFUp l := benjamini_wf cfg ps.length ps 0 (by omega) hM ha0 ha1 h01 hs
  have hout : out = stepupE l 1 0 := stepupAux_eq _ _ _ _ _ _
  have hdual : ∀ x ∈ l, x.2.1 ≤ a ↔ x.1 ≤ x.2.2 := by
    intro x hx
    obtain ⟨p, hp, j, _, h2, rfl⟩ := mem_entriesUp _ _ _ _ _ hx
    exact (benjamini_entry cfg ps.length j p (by omega) hM ha0 ha1 (h01 p hp).1 (h01 p hp).2).2.2.1
  have hraw : ∀ x ∈ l, x.1 ≤ x.2.1 := by
    intro x hx
    obtain ⟨p, hp, j, _, h2, rfl⟩ := mem_entriesUp _ _ _ _ _ hx
    exact (benjamini_entry cfg ps.length j p (by omega) hM ha0 ha1 (h01 p hp).1 (h01 p hp).2).2.2.2.1
  have hp1 : ∀ x ∈ l, x.1 ≤ 1 := by
    intro x hx
    obtain ⟨p, hp, j, _, _, rfl⟩ := mem_entriesUp _ _ _ _ _ hx
    exact (h01 p hp).2
  rw [hout]
  exact ⟨stepup_rejected_eq_spec l hwf, stepup_padj_eq_spec l 1 0, stepup_alpha_eq_spec l hwf,
    stepup_rejected_iff_padj_le_alpha l a ha1 hwf hdual,
    stepupE_padj_mem l 1 0 hwf hraw (le_refl _) hp1⟩

theorem mem_entriesDown (adjust : α → α → α × α) (ps : List α) (k : ℕ) (x : Entry α)
    (hx : x ∈ entriesDown adjust ps k) :
    ∃ p ∈ ps, ∃ j, k ≤ j ∧ j < k + ps.length ∧ x = (p, (adjust p (j : α)).1, (adjust p (j : α)).2) := by
  induction ps generalizing k with
  | nil => simp [entriesDown] at hx
  | cons q rest ih =>
    simp only [entriesDown, List.mem_cons] at hx
    rcases hx with rfl | hx
    · exact ⟨q, List.mem_cons_self, k, le_refl _, by simp, rfl⟩
    · obtain ⟨p, hp, j, h1, h2, h3⟩ := ih (k + 1) hx
      exact ⟨p, List.mem_cons_of_mem _ hp, j, by omega, by simp only [List.length_cons]; omega, h3⟩

/-- facts about one Bonferroni entry whose coefficient `m − k + 1` is at least 1 -/
theorem bonferroni_entry (cfg : FwerCfg α) (k p : α) (hc : 1 ≤ cfg.m - k + 1)
    (ha0 : 0 < cfg.alpha) (ha1 : cfg.alpha < 1) (hp0 : 0 ≤ p) (hp1 : p ≤ 1) :
    let e := Gen.Bonferroni.adjust cfg p k
    0 < e.2 ∧ e.2 < 1 ∧ e.2 = cfg.alpha / (cfg.m - k + 1) ∧ (e.1 ≤ cfg.alpha ↔ p ≤ e.2) ∧ p ≤ e.1 ∧ e.1 ≤ 1 := by
  intro e
  have hc0 : 0 < cfg.m - k + 1 := by linarith
  simp only [e, Gen.Bonferroni.adjust]
  refine ⟨by positivity, ?_, trivial, ?_, ?_, min_le_right _ _⟩
  · rw [div_lt_one hc0]; linarith
  · rw [le_div_iff₀ hc0]
    constructor
    · intro h
      rcases min_le_iff.mp h with h | h
      · exact h
      · linarith
    · intro h; exact le_trans (min_le_left _ _) h
  · exact le_min (by nlinarith) hp1

/-- **Holm's step-down with Bonferroni is well-formed** -/
theorem holm_bonferroni_wf (cfg : FwerCfg α) (m : ℕ) (hm : cfg.m = (m : α)) (ps : List α) (k : ℕ) (hk : 1 ≤ k)
    (hlen : k + ps.length ≤ m + 1) (ha0 : 0 < cfg.alpha) (ha1 : cfg.alpha < 1)
    (h01 : ∀ p ∈ ps, 0 ≤ p ∧ p ≤ 1) (hs : ps.Pairwise (fun a b => a ≤ b)) :
    WFDown (entriesDown (Gen.Bonferroni.adjust cfg) ps k) := by
  refine ⟨?_, ?_⟩
  · intro x hx
    obtain ⟨p, hp, j, h1, h2, rfl⟩ := mem_entriesDown _ _ _ _ hx
    have hj : (j : α) ≤ (m : α) := by exact_mod_cast (show j ≤ m by omega)
    exact (bonferroni_entry cfg j p (by rw [hm]; linarith) ha0 ha1 (h01 p hp).1 (h01 p hp).2).2.1
  · induction ps generalizing k with
    | nil => simp [entriesDown]
    | cons q rest ih =>
      simp only [entriesDown, List.pairwise_cons]
      simp only [List.length_cons] at hlen
      refine ⟨?_, ih (k + 1) (by omega) (by omega) (fun p hp => h01 p (List.mem_cons_of_mem _ hp))
        (List.pairwise_cons.mp hs).2⟩
      intro y hy
      obtain ⟨p, hp, j, _, _, rfl⟩ := mem_entriesDown _ _ _ _ hy
      exact (List.pairwise_cons.mp hs).1 p hp

/-- **adjust_fwer(arbitrary_dependence=True, method="bonferroni") is the Holm–Bonferroni
step-down procedure** -/
theorem adjust_fwer_holm_bonferroni (a : α) (ps : List α) (ha0 : 0 < a) (ha1 : a < 1)
    (h01 : ∀ p ∈ ps, 0 ≤ p ∧ p ≤ 1) (hs : ps.Pairwise (fun x y => x ≤ y)) :
    let cfg : FwerCfg α := { alpha := a, m := (ps.length : α) }
    let l := entriesDown (Gen.Bonferroni.adjust cfg) ps 1
    let out := holmStepdown (Gen.Bonferroni.adjust cfg) ps
    out.map Out.null_rejected = specRejDown l false ∧
    out.map Out.pvalue_adj = specPadjDown l 0 ∧
    (∀ x ∈ l.zip out, x.2.null_rejected = decide (x.1.1 ≤ x.2.alpha_adj)) ∧
    (∀ x ∈ l.zip out, x.2.null_rejected = true ↔ x.2.pvalue_adj ≤ a) ∧
    (∀ x ∈ l.zip out, x.1.1 ≤ x.2.pvalue_adj ∧ x.2.pvalue_adj ≤ 1) := by
  intro cfg l out
  have hwf : WFDown l := holm_bonferroni_wf cfg ps.length rfl ps 1 (le_refl _) (by omega) ha0 ha1 h01 hs
  have hout : out = stepdownE l 0 1 := stepdownAux_eq _ _ _ _ _
  have hent : ∀ x ∈ l, (x.2.1 ≤ a ↔ x.1 ≤ x.2.2) ∧ x.1 ≤ x.2.1 ∧ x.2.1 ≤ 1 := by
    intro x hx
    obtain ⟨p, hp, j, h1, h2, rfl⟩ := mem_entriesDown _ _ _ _ hx
    have hj : (j : α) ≤ (ps.length : α) := by exact_mod_cast (show j ≤ ps.length by omega)
    have e := bonferroni_entry cfg j p (by show 1 ≤ (ps.length : α) - j + 1; linarith) ha0 ha1
      (h01 p hp).1 (h01 p hp).2
    exact ⟨e.2.2.2.1, e.2.2.2.2.1, e.2.2.2.2.2⟩
  rw [hout]
  exact ⟨stepdown_rejected_eq_spec l hwf, stepdown_padj_eq_spec l 0 1,
    stepdown_rejected_iff_p_le_alpha_adj l 0 1,
    stepdown_rejected_iff_padj_le_alpha l a ha0.le hwf (fun x hx => (hent x hx).1),
    stepdownE_padj_mem l 0 1 (fun x hx => (hent x hx).2) zero_le_one⟩

/-! ## ties and order -/

/-- in step-up, two neighbouring hypotheses with EQUAL p-values get the same adjusted p-value and
the same rejection flag (the later one has the larger coefficient, hence `raw₂ ≥ raw₁`,
`thr₂ ≤ thr₁`) — so these two outputs do not depend on how ties are ordered.  `hinv` is the loop
invariant: the sticky threshold is unset or dominates the remaining p-values. -/
theorem stepup_tie (p raw₁ thr₁ raw₂ thr₂ pm am : α) (rest : List (Entry α))
    (hraw : raw₁ ≤ raw₂) (hthr : thr₂ ≤ thr₁) (hpos : 0 < thr₂) (hinv : am = 0 ∨ (0 < am ∧ p ≤ am)) :
    ∃ o₁ o₂ tail, stepupE ((p, raw₁, thr₁) :: (p, raw₂, thr₂) :: rest) pm am = o₁ :: o₂ :: tail ∧
      o₁.pvalue_adj = o₂.pvalue_adj ∧ o₁.null_rejected = o₂.null_rejected := by
  refine ⟨_, _, _, rfl, ?_, ?_⟩
  · show min raw₁ pm = min raw₂ (min raw₁ pm)
    rw [min_eq_right (le_trans (min_le_left _ _) hraw)]
  · have hpos1 : 0 < thr₁ := lt_of_lt_of_le hpos hthr
    rcases hinv with h0 | ⟨hampos, h⟩
    · subst h0
      by_cases hp : p ≤ thr₁
      · have hne : thr₁ ≠ 0 := ne_of_gt hpos1
        simp [hp, hne, max_eq_right hthr]
      · have hp2 : ¬ p ≤ thr₂ := fun h => hp (le_trans h hthr)
        simp [hp, hp2, max_eq_left hpos1.le, max_eq_left hpos.le]
    · have h0 : am ≠ 0 := ne_of_gt hampos
      simp [h0, le_trans h (le_max_right thr₁ am), le_trans h (le_max_right thr₂ am)]

/-- `alpha_adj` DOES depend on how ties are ordered (known finding K2): two hypotheses with the
same p-value 9/10 under Benjamini–Hochberg (alpha 1/20, m = 2) get alpha_adj 1/20 and 1/40 by
position, so exchanging them exchanges their adjusted alphas; `pvalue_adj` and the flags agree. -/
theorem alpha_adj_order_dependent_at_ties :
    let out := hochbergStepup (Gen.Benjamini.adjust (Gen.Benjamini.mk (1/20 : ℚ) 2 false)) [9/10, 9/10]
    out.map Out.alpha_adj = [1/20, 1/40] ∧ out.map Out.pvalue_adj = [9/10, 9/10] ∧
    out.map Out.null_rejected = [false, false] := by
  decide +kernel

end C10
