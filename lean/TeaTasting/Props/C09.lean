import TeaTasting.Model.Solve
import TeaTasting.Props.C08
import Mathlib.Algebra.Order.Floor.Defs
import Mathlib.Algebra.Order.Floor.Ring

/-! # C09 — solving for effect size or sample size inverts the power function -/

open Solve Gen Spec

set_option linter.unusedSectionVars false

variable {α : Type} [Field α] [LinearOrder α] [IsStrictOrderedRing α]

namespace C09

/-- `_find_boundary` returns a point where `fn ≤ 0`, reached from `init` by multiplications by
`mult`; or fails after exhausting its iterations with `fn > 0` at every point tried -/
theorem findBoundaryAux_spec (fn : α → α) (mult : α) (fuel : ℕ) (b : α) :
    (∀ r, findBoundaryAux fn mult fuel b = some r → fn r ≤ 0 ∧ ∃ k ≤ fuel, r = b * mult ^ k) ∧
    (findBoundaryAux fn mult fuel b = none → ∀ k ≤ fuel, 0 < fn (b * mult ^ k)) := by
  induction fuel generalizing b with
  | zero =>
    simp only [findBoundaryAux]
    split_ifs with h
    · exact ⟨by simp, fun _ k hk => by rw [Nat.le_zero.mp hk]; simpa using h⟩
    · exact ⟨fun r hr => by
        obtain rfl := Option.some.inj hr
        exact ⟨not_lt.mp h, 0, le_refl _, by simp⟩, by simp⟩
  | succ n ih =>
    simp only [findBoundaryAux]
    split_ifs with h
    · obtain ⟨ih1, ih2⟩ := ih (b * mult)
      refine ⟨fun r hr => ?_, fun hn k hk => ?_⟩
      · obtain ⟨h1, k, hk, rfl⟩ := ih1 r hr
        exact ⟨h1, k + 1, by omega, by ring⟩
      · rcases Nat.eq_zero_or_pos k with rfl | hpos
        · simpa using h
        · have := ih2 hn (k - 1) (by omega)
          have e : b * mult * mult ^ (k - 1) = b * mult ^ k := by
            rw [mul_assoc, ← pow_succ', Nat.sub_add_cancel hpos]
          rwa [e] at this
    · exact ⟨fun r hr => by
        obtain rfl := Option.some.inj hr
        exact ⟨not_lt.mp h, 0, Nat.zero_le _, by simp⟩, by simp⟩

theorem findBoundary_spec (fn : α → α) (init : α) :
    (∀ r, findBoundary fn init = some r → fn r ≤ 0 ∧ ∃ k < MAX_ITER, r = init * boundaryMult ^ k) ∧
    (findBoundary fn init = none → ∀ k < MAX_ITER, 0 < fn (init * boundaryMult ^ k)) := by
  obtain ⟨h1, h2⟩ := findBoundaryAux_spec fn (boundaryMult : α) (MAX_ITER - 1) init
  refine ⟨fun r hr => ?_, fun hn k hk => h2 hn k (by simp only [MAX_ITER] at hk ⊢; omega)⟩
  obtain ⟨ha, k, hk, hb⟩ := h1 r hr
  exact ⟨ha, k, by simp only [MAX_ITER] at hk ⊢; omega, hb⟩

/-- the boundary keeps the sign of the start value (the multiplier is positive) -/
theorem findBoundary_sign (fn : α → α) (init r : α) (h : findBoundary fn init = some r) :
    (0 < init → 0 < r) ∧ (init < 0 → r < 0) := by
  obtain ⟨_, k, _, rfl⟩ := (findBoundary_spec fn init).1 r h
  have hm : (0 : α) < boundaryMult ^ k := by unfold boundaryMult; positivity
  exact ⟨fun hi => mul_pos hi hm, fun hi => mul_neg_of_neg_of_pos hi hm⟩

/-- **every point of the n_obs bracket leaves each group more than one observation**, for every
allocation ratio `r > 0` (this is what was false before the fix: the bracket started at 3) -/
theorem bracket_admissible_n (cfg : RatioCfg α) (hr : 0 < cfg.ratio) (x : α)
    (hx : (RatioOfMeans.solve_n_bracket cfg).1 ≤ x) :
    1 < nControl x cfg.ratio ∧ 1 < nTreatment x cfg.ratio := by
  simp only [RatioOfMeans.solve_n_bracket] at hx
  have h1 : 0 < 1 + cfg.ratio := by linarith
  have hinv : 0 < 1 / cfg.ratio := by positivity
  have ha : cfg.ratio ≤ max cfg.ratio (1 / cfg.ratio) := le_max_left _ _
  have hb : 1 / cfg.ratio ≤ max cfg.ratio (1 / cfg.ratio) := le_max_right _ _
  have hb' : 1 ≤ max cfg.ratio (1 / cfg.ratio) * cfg.ratio := by
    have h := mul_le_mul_of_nonneg_right hb hr.le
    have e : 1 / cfg.ratio * cfg.ratio = 1 := by field_simp
    rwa [e] at h
  unfold nControl nTreatment
  constructor
  · rw [lt_div_iff₀ h1]; nlinarith
  · rw [lt_div_iff₀ h1]; nlinarith

/-- the start of the upper search lies above the lower end (so the bracket is an interval) -/
theorem bracket_ordered_n (cfg : RatioCfg α) (hr : 0 < cfg.ratio) :
    (RatioOfMeans.solve_n_bracket cfg).1 < (RatioOfMeans.solve_n_bracket cfg).2 := by
  simp only [RatioOfMeans.solve_n_bracket]
  have : 0 < max cfg.ratio (1 / cfg.ratio) := lt_of_lt_of_le hr (le_max_left _ _)
  linarith

/-- **substituting the solved effect size reproduces the target power** (given the contract of
`brentq` and a sign change on the bracket) -/
theorem solve_effect_reproduces_power (P : Prims α) (brentq : (α → α) → α → α → α) (hB : BrentqContract brentq)
    (cfg : RatioCfg α) (v n power x : α) (h : solveEffect P brentq cfg v n power = some x)
    (h0 : 0 ≤ power - RatioOfMeans.power_from_stats P cfg v n 0) :
    RatioOfMeans.power_from_stats P cfg v n x = power := by
  unfold solveEffect at h
  simp only at h
  cases hf : findBoundary (fun x => power - RatioOfMeans.power_from_stats P cfg v n x)
      (RatioOfMeans.solve_effect_init P cfg v n) with
  | none => simp [hf] at h
  | some other =>
    simp only [hf, Option.some.injEq] at h
    have hle := ((findBoundary_spec _ _).1 other hf).1
    have hsign : (fun x => power - RatioOfMeans.power_from_stats P cfg v n x) (min 0 other)
        * (fun x => power - RatioOfMeans.power_from_stats P cfg v n x) (max 0 other) ≤ 0 := by
      rcases le_total 0 other with ho | ho
      · rw [min_eq_left ho, max_eq_right ho]; exact mul_nonpos_of_nonneg_of_nonpos h0 hle
      · rw [min_eq_right ho, max_eq_left ho]; exact mul_nonpos_of_nonpos_of_nonneg hle h0
    have := hB.root (fun x => power - RatioOfMeans.power_from_stats P cfg v n x) (min 0 other) (max 0 other) hsign
    rw [h] at this
    linarith

/-- **the sign of a solved effect follows the alternative**: non-positive for `less`,
non-negative otherwise -/
theorem solved_effect_sign (P : Prims α) (hP : P.Laws) (brentq : (α → α) → α → α → α) (hB : BrentqContract brentq)
    (cfg : RatioCfg α) (v n power x : α) (h : solveEffect P brentq cfg v n power = some x)
    (hvn : 0 < v / n) (h0 : 0 ≤ power - RatioOfMeans.power_from_stats P cfg v n 0) :
    (cfg.alternative = "less" → x ≤ 0) ∧ (cfg.alternative ≠ "less" → 0 ≤ x) := by
  unfold solveEffect at h
  simp only at h
  cases hf : findBoundary (fun x => power - RatioOfMeans.power_from_stats P cfg v n x)
      (RatioOfMeans.solve_effect_init P cfg v n) with
  | none => simp [hf] at h
  | some other =>
    simp only [hf, Option.some.injEq] at h
    have hle := ((findBoundary_spec _ _).1 other hf).1
    have hsq : 0 < P.sqrt (v / n) := hP.sqrt_pos hvn
    have hsign : (fun x => power - RatioOfMeans.power_from_stats P cfg v n x) (min 0 other)
        * (fun x => power - RatioOfMeans.power_from_stats P cfg v n x) (max 0 other) ≤ 0 := by
      rcases le_total 0 other with ho | ho
      · rw [min_eq_left ho, max_eq_right ho]; exact mul_nonpos_of_nonneg_of_nonpos h0 hle
      · rw [min_eq_right ho, max_eq_left ho]; exact mul_nonpos_of_nonpos_of_nonneg hle h0
    have hmem := hB.mem (fun x => power - RatioOfMeans.power_from_stats P cfg v n x) (min 0 other) (max 0 other)
      min_le_max hsign
    rw [h] at hmem
    have hs := findBoundary_sign _ _ _ hf
    constructor
    · intro hl
      have hinit : RatioOfMeans.solve_effect_init P cfg v n < 0 := by
        simp only [RatioOfMeans.solve_effect_init, hl, if_true]; nlinarith
      have : other < 0 := hs.2 hinit
      rw [max_eq_left this.le] at hmem
      exact hmem.2
    · intro hl
      have hinit : 0 < RatioOfMeans.solve_effect_init P cfg v n := by
        simp only [RatioOfMeans.solve_effect_init, hl, if_false]; nlinarith
      have : 0 < other := hs.1 hinit
      rw [min_eq_left this.le] at hmem
      exact hmem.1

/-- **`ceil` of the root is the smallest integer sample size whose power reaches the target**,
for a power curve that is strictly increasing in n -/
theorem ceil_is_minimal [FloorRing α] (pw : α → α) (hmono : StrictMono pw) (root target : α)
    (hroot : pw root = target) :
    target ≤ pw (⌈root⌉ : α) ∧ ∀ m : ℤ, m < ⌈root⌉ → pw (m : α) < target := by
  constructor
  · rw [← hroot]; exact hmono.monotone (Int.le_ceil root)
  · intro m hm
    rw [← hroot]
    exact hmono (Int.lt_ceil.mp hm)

/-- **the real-valued solution for n_obs reproduces the target power** and lies in the
admissible bracket (both groups larger than one observation) -/
theorem solve_n_reproduces_power (P : Prims α) (brentq : (α → α) → α → α → α) (hB : BrentqContract brentq)
    (cfg : RatioCfg α) (hr : 0 < cfg.ratio) (v d power x : α) (h : solveN P brentq cfg v d power = some x)
    (h0 : 0 ≤ power - RatioOfMeans.power_from_stats P cfg v (RatioOfMeans.solve_n_bracket cfg).1 d) :
    RatioOfMeans.power_from_stats P cfg v x d = power ∧
    1 < nControl x cfg.ratio ∧ 1 < nTreatment x cfg.ratio := by
  unfold solveN at h
  simp only at h
  cases hf : findBoundary (fun x => power - RatioOfMeans.power_from_stats P cfg v x d)
      (RatioOfMeans.solve_n_bracket cfg).2 with
  | none => simp [hf] at h
  | some upper =>
    simp only [hf, Option.some.injEq] at h
    obtain ⟨hle, k, _, hk⟩ := (findBoundary_spec _ _).1 upper hf
    have hsign : (fun x => power - RatioOfMeans.power_from_stats P cfg v x d) (RatioOfMeans.solve_n_bracket cfg).1
        * (fun x => power - RatioOfMeans.power_from_stats P cfg v x d) upper ≤ 0 :=
      mul_nonpos_of_nonneg_of_nonpos h0 hle
    have hord : (RatioOfMeans.solve_n_bracket cfg).1 ≤ upper := by
      have h1 := bracket_ordered_n cfg hr
      have hpos : (0 : α) < (RatioOfMeans.solve_n_bracket cfg).2 := by
        simp only [RatioOfMeans.solve_n_bracket]
        have : 0 < max cfg.ratio (1 / cfg.ratio) := lt_of_lt_of_le hr (le_max_left _ _)
        positivity
      have hm : (1 : α) ≤ boundaryMult ^ k := by
        unfold boundaryMult; exact one_le_pow₀ (by norm_num)
      rw [hk]
      nlinarith
    have hroot := hB.root (fun x => power - RatioOfMeans.power_from_stats P cfg v x d) _ _ hsign
    have hmem := hB.mem (fun x => power - RatioOfMeans.power_from_stats P cfg v x d) _ _ hord hsign
    rw [h] at hroot hmem
    refine ⟨by linarith, bracket_admissible_n cfg hr x hmem.1⟩

end C09
