import TeaTasting.Model.Granular
import Mathlib.Data.List.Perm.Basic
import Mathlib.Data.List.Dedup
import Mathlib.Order.Basic
import Mathlib.Algebra.Order.Field.Basic
import Mathlib.Algebra.Order.Ring.Rat

/-! # C15 — row-level metrics see exactly their variant's rows; bootstrap is reproducible

Theorems about `Model/Granular.lean` (tied to `read_granular` / `_select_as_numpy` /
`Bootstrap.analyze_granular` by correspondence).  `scipy.stats.bootstrap` is a parameter: what it does
inside (resampling, the RNG) is outside the model; the theorems say what the wrapper hands to it and how
its answer is reported. -/

set_option linter.unusedSectionVars false

namespace C15
open Granular

variable {κ ν : Type} [DecidableEq κ]

/-! ## the partition -/

/-- one entry per distinct variant value, each once -/
theorem parts_keys (cols : List String) (T : List (SRow κ ν)) :
    (readGranular cols T).map (·.1) = (T.map (·.key)).dedup := by
  simp [readGranular, List.map_map, Function.comp_def]

theorem parts_keys_nodup (cols : List String) (T : List (SRow κ ν)) :
    ((readGranular cols T).map (·.1)).Nodup := by
  rw [parts_keys]; exact List.nodup_dedup _

/-- **exactly that variant's rows**: the part of variant `k` is the rows of `k` — all of them, only them, in
source order — projected on the declared columns (values untouched) -/
theorem part_rows (cols : List String) (T : List (SRow κ ν)) (k : κ) (rows : List (FRow ν))
    (h : (k, rows) ∈ readGranular cols T) :
    rows = (T.filter (fun r => r.key = k)).map (project cols) := by
  simp only [readGranular, List.mem_map] at h
  obtain ⟨k', _, hk⟩ := h
  cases hk
  rfl

/-- every variant present in the data has its part -/
theorem part_exists (cols : List String) (T : List (SRow κ ν)) (r : SRow κ ν) (hr : r ∈ T) :
    (r.key, (T.filter (fun r' => r'.key = r.key)).map (project cols)) ∈ readGranular cols T := by
  simp only [readGranular, List.mem_map]
  exact ⟨r.key, List.mem_dedup.mpr (List.mem_map.mpr ⟨r, hr, rfl⟩), rfl⟩

/-- nothing leaks between variants: a row of part `k` comes from a source row whose variant is `k` -/
theorem no_leak (cols : List String) (T : List (SRow κ ν)) (k : κ) (rows : List (FRow ν))
    (h : (k, rows) ∈ readGranular cols T) (row : FRow ν) (hrow : row ∈ rows) :
    ∃ r ∈ T, r.key = k ∧ row = project cols r := by
  rw [part_rows cols T k rows h] at hrow
  obtain ⟨r, hr, rfl⟩ := List.mem_map.mp hrow
  obtain ⟨h1, h2⟩ := List.mem_filter.mp hr
  exact ⟨r, h1, by simpa using h2, rfl⟩

/-- the size of a part is the number of rows of the variant -/
theorem part_length (cols : List String) (T : List (SRow κ ν)) (k : κ) (rows : List (FRow ν))
    (h : (k, rows) ∈ readGranular cols T) : rows.length = (T.filter (fun r => r.key = k)).length := by
  rw [part_rows cols T k rows h, List.length_map]

/-- a table whose keys all lie in a duplicate-free list `l` is, as a multiset, the concatenation of its
per-key slices -/
theorem perm_flatMap_filter (l : List κ) (hl : l.Nodup) (T : List (SRow κ ν)) (hT : ∀ r ∈ T, r.key ∈ l) :
    T.Perm (l.flatMap (fun k => T.filter (fun r => r.key = k))) := by
  induction l generalizing T with
  | nil =>
    cases T with
    | nil => simp
    | cons r T => exact absurd (hT r List.mem_cons_self) (by simp)
  | cons k l ih =>
    obtain ⟨hk, hl'⟩ := List.nodup_cons.mp hl
    simp only [List.flatMap_cons]
    have hsplit : T.Perm (T.filter (fun r => r.key = k) ++ T.filter (fun r => ¬ r.key = k)) := by
      have := List.filter_append_perm (fun r : SRow κ ν => decide (r.key = k)) T
      refine this.symm.trans ?_
      apply List.Perm.append_left
      apply List.Perm.of_eq
      apply List.filter_congr
      intro r _
      simp
    refine hsplit.trans (List.Perm.append_left _ ?_)
    have hT' : ∀ r ∈ T.filter (fun r => ¬ r.key = k), r.key ∈ l := by
      intro r hr
      obtain ⟨h1, h2⟩ := List.mem_filter.mp hr
      have h2' : ¬ r.key = k := by simpa using h2
      rcases List.mem_cons.mp (hT r h1) with h | h
      · exact absurd h h2'
      · exact h
    refine (ih hl' _ hT').trans ?_
    apply List.Perm.of_eq
    apply List.flatMap_congr
    intro k' hk'
    rw [List.filter_filter]
    apply List.filter_congr
    intro r _
    have hne : k' ≠ k := fun h => hk (h ▸ hk')
    by_cases h : r.key = k'
    · simp [h, hne]
    · simp [h]

/-- **nothing lost, nothing duplicated**: the parts together are, as a multiset, the projected table -/
theorem partition_perm (cols : List String) (T : List (SRow κ ν)) :
    (T.map (project cols)).Perm ((readGranular cols T).flatMap (·.2)) := by
  have h := perm_flatMap_filter ((T.map (·.key)).dedup) (List.nodup_dedup _) T
    (fun r hr => List.mem_dedup.mpr (List.mem_map.mpr ⟨r, hr, rfl⟩))
  have h2 := h.map (project cols)
  refine h2.trans (List.Perm.of_eq ?_)
  simp only [readGranular, List.map_flatMap, List.flatMap_map]

/-- the total number of fetched rows over all parts is the number of data rows -/
theorem partition_length (cols : List String) (T : List (SRow κ ν)) :
    ((readGranular cols T).flatMap (·.2)).length = T.length := by
  rw [← (partition_perm cols T).length_eq, List.length_map]

/-- the fetched rows carry exactly the declared columns (as many values as columns, in their order) -/
theorem row_width (cols : List String) (T : List (SRow κ ν)) (k : κ) (rows : List (FRow ν))
    (h : (k, rows) ∈ readGranular cols T) (row : FRow ν) (hrow : row ∈ rows) : row.length = cols.length := by
  obtain ⟨r, _, _, rfl⟩ := no_leak cols T k rows h row hrow
  simp [project]

/-! ## selection by name: the shared read of an experiment equals the metric's own read -/

theorem colIndex_of_mem (cols : List String) (c : String) (hc : c ∈ cols) :
    colIndex cols c = some (cols.idxOf c) := by
  simp [colIndex, List.idxOf_lt_length_iff.mpr hc]

theorem project_getElem (cols : List String) (r : SRow κ ν) (c : String) (hc : c ∈ cols) :
    (project cols r)[cols.idxOf c]? = some (r.val c) := by
  unfold project
  rw [List.getElem?_map, List.getElem?_idxOf hc]
  rfl

theorem mapM_some_of_forall {β γ : Type} (f : β → Option γ) (g : β → γ) (l : List β)
    (h : ∀ x ∈ l, f x = some (g x)) : l.mapM f = some (l.map g) := by
  induction l with
  | nil => rfl
  | cons a l ih =>
    rw [List.mapM_cons, h a List.mem_cons_self, ih (fun x hx => h x (List.mem_cons_of_mem _ hx))]
    rfl

/-- selecting a metric's columns BY NAME from a part fetched with any superset of columns (in any order)
gives the metric's columns of the variant's rows, in the metric's order -/
theorem select_of_superset (fetched : List String) (T : List (SRow κ ν)) (k : κ) (columns : List String)
    (hsub : ∀ c ∈ columns, c ∈ fetched) :
    selectAsNumpy fetched ((T.filter (fun r => r.key = k)).map (project fetched)) columns
      = some ((T.filter (fun r => r.key = k)).map (project columns)) := by
  unfold selectAsNumpy
  have h1 : columns.mapM (colIndex fetched) = some (columns.map (fun c => fetched.idxOf c)) :=
    mapM_some_of_forall _ _ _ (fun c hc => colIndex_of_mem fetched c (hsub c hc))
  rw [h1]
  simp only
  rw [List.mapM_map] 
  have : ∀ r ∈ T.filter (fun r => r.key = k),
      ((columns.map (fun c => fetched.idxOf c)).mapM (fun i => (project fetched r)[i]?))
        = some (project columns r) := by
    intro r _
    rw [List.mapM_map]
    exact mapM_some_of_forall _ _ _ (fun c hc => project_getElem fetched r c (hsub c hc))
  exact mapM_some_of_forall _ _ _ this

/-- **shared read = stand-alone read**: what a metric selects from the experiment's single row-level read
(the union of all row-level metrics' columns) is what it selects from a read of its own columns -/
theorem shared_read_eq_standalone (union columns : List String) (T : List (SRow κ ν)) (k : κ)
    (hsub : ∀ c ∈ columns, c ∈ union) :
    selectAsNumpy union ((T.filter (fun r => r.key = k)).map (project union)) columns
      = selectAsNumpy columns ((T.filter (fun r => r.key = k)).map (project columns)) columns := by
  rw [select_of_superset union T k columns hsub, select_of_superset columns T k columns (fun c hc => hc)]

/-! ## the reported fields -/

section Fields
variable {α β : Type} [Sub β] [Div β] [One β]
variable (boot : List (FRow ν) → List (FRow ν) → (List (FRow ν) → List (FRow ν) → β × β) → Settings α → CI β)
variable (stat : List (FRow ν) → β) (cfg : Settings α) (contr treat : List (FRow ν))

/-- `control`, `treatment`, `effect_size`, `rel_effect_size` are the plain statistic of the full samples -/
theorem point_fields_eq_statistic :
    (analyzeGranular boot stat cfg contr treat).control = stat contr
    ∧ (analyzeGranular boot stat cfg contr treat).treatment = stat treat
    ∧ (analyzeGranular boot stat cfg contr treat).effect_size = stat treat - stat contr
    ∧ (analyzeGranular boot stat cfg contr treat).rel_effect_size = stat treat / stat contr - 1 :=
  ⟨rfl, rfl, rfl, rfl⟩

/-- the interval fields are the resampler's answer for (control, treatment, stacked statistic, the metric's
settings): index 0 is reported as the absolute, index 1 as the relative interval; nothing is altered -/
theorem ci_fields_from_bootstrap :
    let ci := boot contr treat (stacked stat) cfg
    (analyzeGranular boot stat cfg contr treat).effect_size_ci_lower = ci.low0
    ∧ (analyzeGranular boot stat cfg contr treat).effect_size_ci_upper = ci.high0
    ∧ (analyzeGranular boot stat cfg contr treat).rel_effect_size_ci_lower = ci.low1
    ∧ (analyzeGranular boot stat cfg contr treat).rel_effect_size_ci_upper = ci.high1 :=
  ⟨rfl, rfl, rfl, rfl⟩

/-- **reproducibility**: the result is a function of the two samples, the statistic and the settings (seed
included) — analysed alone or inside an experiment, first or last, it is the same value, PROVIDED the
resampler is a function of its arguments (true of scipy for an integer seed; an `np.random.Generator`
object is stateful and outside this statement) -/
theorem reproducible (contr' treat' : List (FRow ν)) (hc : contr' = contr) (ht : treat' = treat) :
    analyzeGranular boot stat cfg contr' treat' = analyzeGranular boot stat cfg contr treat := by
  rw [hc, ht]

end Fields

/-- what is assumed of `scipy.stats.bootstrap` for the ordering / one-sidedness clause -/
structure BootContract {ν α β : Type} [LE β]
    (boot : List (FRow ν) → List (FRow ν) → (List (FRow ν) → List (FRow ν) → β × β) → Settings α → CI β)
    (posInf negInf : β) : Prop where
  ordered : ∀ c t s cfg, (boot c t s cfg).low0 ≤ (boot c t s cfg).high0 ∧ (boot c t s cfg).low1 ≤ (boot c t s cfg).high1
  greater : ∀ c t s cfg, cfg.alternative = "greater" → (boot c t s cfg).high0 = posInf ∧ (boot c t s cfg).high1 = posInf
  less : ∀ c t s cfg, cfg.alternative = "less" → (boot c t s cfg).low0 = negInf ∧ (boot c t s cfg).low1 = negInf

/-- under that contract the reported intervals are ordered and one-sided as the alternative says -/
theorem interval_shape {α β : Type} [Sub β] [Div β] [One β] [LE β]
    (boot : List (FRow ν) → List (FRow ν) → (List (FRow ν) → List (FRow ν) → β × β) → Settings α → CI β)
    (posInf negInf : β) (hb : BootContract boot posInf negInf)
    (stat : List (FRow ν) → β) (cfg : Settings α) (contr treat : List (FRow ν)) :
    let r := analyzeGranular boot stat cfg contr treat
    r.effect_size_ci_lower ≤ r.effect_size_ci_upper ∧ r.rel_effect_size_ci_lower ≤ r.rel_effect_size_ci_upper
    ∧ (cfg.alternative = "greater" → r.effect_size_ci_upper = posInf ∧ r.rel_effect_size_ci_upper = posInf)
    ∧ (cfg.alternative = "less" → r.effect_size_ci_lower = negInf ∧ r.rel_effect_size_ci_lower = negInf) :=
  ⟨(hb.ordered _ _ _ _).1, (hb.ordered _ _ _ _).2, hb.greater _ _ _ _, hb.less _ _ _ _⟩

/-! ## non-vacuity and a sanity counterexample -/

def exT : List (SRow Int Int) :=
  [⟨1, fun c => if c = "x" then 10 else 7⟩, ⟨0, fun c => if c = "x" then 20 else 8⟩,
   ⟨1, fun c => if c = "x" then 30 else 9⟩]

example : readGranular ["x", "y"] exT = [(0, [[20, 8]]), (1, [[10, 7], [30, 9]])] := by decide

example : selectAsNumpy ["y", "x"] [[7, 10], [9, 30]] ["x"] = some [[10], [30]] := by decide

/-- selecting by POSITION instead of by name from a shared read would hand the metric another column -/
example : selectAsNumpy ["y", "x"] [[7, 10], [9, 30]] ["x"] ≠ some ([[7, 10], [9, 30]].map (fun r => r.take 1)) := by
  decide

end C15
