import TeaTasting.Model.Config
import TeaTasting.Props.C19

/-! # C13 — global configuration is scoped, all-or-nothing, and captured at construction

The model (`Model/Config.lean`) takes the structure of `config.py` from the GENERATED
`Gen.configImpl` and the validation from the GENERATED `Gen.autoCheck`; every theorem below is
stated for `Gen.configImpl`, so reverting any of the three structural choices in the source makes
the corresponding theorem false (and unprovable). -/

open Config

namespace C13

/-- **Scoping.**  After `with config_context(**kvs): body` — whatever `body` is (any computation:
nested contexts, `set_config`, raising, mutating copies …), whether entering succeeds or fails,
whether `body` returns or raises — the global configuration is exactly what it was before,
standard and user-defined options alike. -/
theorem context_transparent (kvs : List (String × PyVal)) (body : M Unit) (s : St) :
    (configContext Gen.configImpl kvs body s).2.cfg = s.cfg := by
  simp [configContext, Gen.configImpl, M.bind, M.get, M.tryFinally, restore, M.modifyCfg]

/-- the exception (or normal return) of the body is what the `with` statement propagates -/
theorem context_result (kvs : List (String × PyVal)) (body : M Unit) (s : St) :
    (configContext Gen.configImpl kvs body s).1
      = (M.bind (setConfig Gen.configImpl kvs) (fun _ => body) s).1 := by
  simp [configContext, Gen.configImpl, M.bind, M.get, M.tryFinally]

/-- **All-or-nothing.**  A `set_config` call that raises changes nothing. -/
theorem set_config_atomic (kvs : List (String × PyVal)) (s : St)
    (h : ∃ e, (setConfig Gen.configImpl kvs s).1 = .error e) :
    (setConfig Gen.configImpl kvs s).2 = s := by
  obtain ⟨e, he⟩ := h
  simp only [setConfig, Gen.configImpl, if_true] at he ⊢
  cases hf : firstError (given kvs) with
  | some e' => simp [M.throw]
  | none => simp [hf, M.modifyCfg] at he

/-- a `set_config` that raises does so with the class of the first offending option, and it raises
iff some given option is rejected by `auto_check` -/
theorem set_config_raises_iff (kvs : List (String × PyVal)) (s : St) :
    (∃ e, (setConfig Gen.configImpl kvs s).1 = .error e) ↔ (firstError (given kvs)).isSome := by
  simp only [setConfig, Gen.configImpl, if_true]
  cases hf : firstError (given kvs) <;> simp [M.throw, M.modifyCfg]

/-- **`get_config()` hands out a copy**: mutating what it returned leaves the configuration alone -/
theorem get_config_is_copy (k : String) (v : PyVal) (s : St) :
    mutateReturned Gen.configImpl k v s = (.ok (), s) := by
  simp [mutateReturned, Gen.configImpl, M.pure]

/-- **Explicit arguments always win**: a given (non-`None`) argument is validated and used; the
configuration is not consulted -/
theorem explicit_wins (v : PyVal) (hv : v ≠ .none) (n c : String) (s s' : St) :
    (resolve (some v) n c s).1 = (resolve (some v) n c s').1 := by
  cases v <;> simp_all [resolve] <;> (cases Gen.autoCheck _ n <;> rfl)

/-- **Unspecified parameters come from the configuration in force at construction** -/
theorem default_from_config_at_construction (n c : String) (s : St) (x : PyVal) (h : s.cfg.get c = some x) :
    resolve none n c s = (.ok x, s) ∧ resolve (some .none) n c s = (.ok x, s) := by
  simp [resolve, h]

/-- every constructor parameter with a configuration default reads the option OF ITS OWN NAME and
is validated under its own name (generated table) -/
theorem config_option_names :
    ∀ r ∈ Gen.entryTable, ∀ c, r.fromConfig = some c → c = r.param ∧ r.kind = CheckKind.auto c := by
  decide +kernel

/-- **Later configuration changes never alter an existing metric**: the parameters were captured
as values; `set_config`, the restore step and copy-mutation do not touch the metric list -/
theorem later_changes_do_not_reach_metric (kvs : List (String × PyVal)) (k : String) (v : PyVal) (old : Cfg)
    (s : St) :
    (setConfig Gen.configImpl kvs s).2.metrics = s.metrics ∧
    (restore Gen.configImpl old s).2.metrics = s.metrics ∧
    (mutateReturned Gen.configImpl k v s).2.metrics = s.metrics := by
  refine ⟨?_, ?_, ?_⟩
  · simp only [setConfig, Gen.configImpl, if_true]
    cases firstError (given kvs) <;> simp [M.throw, M.modifyCfg]
  · simp [restore, Gen.configImpl, M.modifyCfg]
  · simp [mutateReturned, Gen.configImpl, M.pure]

/-! ## No standard option ever holds an out-of-domain value (with C19), by induction over any
sequence of operations -/

/-- every stored option lies in its documented domain (user-defined names are unconstrained) -/
def Inv (s : St) : Prop := ∀ kv ∈ s.cfg, C19.inDomain kv.1 kv.2

/-- a computation that keeps the invariant, from every state -/
def Preserves {α : Type} (x : M α) : Prop := ∀ s, Inv s → Inv (x s).2

theorem mem_set (c : Cfg) (k : String) (v : PyVal) (kv : String × PyVal) (h : kv ∈ c.set k v) :
    kv ∈ c ∨ kv = (k, v) := by
  unfold Cfg.set at h
  split_ifs at h
  · rw [List.mem_map] at h
    obtain ⟨p, hp, rfl⟩ := h
    split_ifs
    · right; rfl
    · left; exact hp
  · rw [List.mem_append, List.mem_singleton] at h
    exact h

theorem mem_update (other c : Cfg) (kv : String × PyVal) (h : kv ∈ c.update other) : kv ∈ c ∨ kv ∈ other := by
  unfold Cfg.update at h
  induction other generalizing c with
  | nil => left; simpa using h
  | cons a rest ih =>
    simp only [List.foldl_cons] at h
    rcases ih (c.set a.1 a.2) h with h1 | h1
    · rcases mem_set c a.1 a.2 kv h1 with h2 | h2
      · left; exact h2
      · right; rw [h2]; simp
    · right; exact List.mem_cons_of_mem _ h1

theorem firstError_none (l : List (String × PyVal)) (h : firstError l = none) :
    ∀ kv ∈ l, C19.accepted (Gen.autoCheck kv.2 kv.1) := by
  induction l with
  | nil => simp
  | cons a rest ih =>
    obtain ⟨k, v⟩ := a
    simp only [firstError] at h
    cases hc : Gen.autoCheck v k with
    | error e => simp [hc] at h
    | ok x =>
      simp only [hc] at h
      intro kv hkv
      rcases List.mem_cons.mp hkv with rfl | hr
      · exact ⟨x, hc⟩
      · exact ih h kv hr

theorem preserves_pure {α : Type} (a : α) : Preserves (M.pure a) := fun _ h => h

theorem preserves_throw {α : Type} (e : PyErr) : Preserves (M.throw e : M α) := fun _ h => h

theorem preserves_bind {α β : Type} (x : M α) (f : α → M β) (hx : Preserves x) (hf : ∀ a, Preserves (f a)) :
    Preserves (M.bind x f) := by
  intro s hs
  unfold M.bind
  have := hx s hs
  cases h : x s with
  | mk r s' =>
    rw [h] at this
    cases r with
    | error e => exact this
    | ok a => exact hf a s' this

theorem preserves_tryFinally {α : Type} (x : M α) (fin : M Unit) (hx : Preserves x) (hf : Preserves fin) :
    Preserves (M.tryFinally x fin) := by
  intro s hs
  unfold M.tryFinally
  exact hf _ (hx s hs)

theorem preserves_tryCatch (x : M Unit) (hx : Preserves x) : Preserves (M.tryCatch x) := by
  intro s hs
  unfold M.tryCatch
  exact hx s hs

/-- **`set_config` keeps every standard option in its domain** — this is where C19 enters:
what `auto_check` accepts is in the documented domain -/
theorem preserves_setConfig (kvs : List (String × PyVal)) : Preserves (setConfig Gen.configImpl kvs) := by
  intro s hs
  simp only [setConfig, Gen.configImpl]
  cases hf : firstError (given kvs) with
  | some e => exact hs
  | none =>
    simp only [M.modifyCfg]
    intro kv hkv
    rcases mem_update _ _ kv hkv with h | h
    · exact hs kv h
    · exact (C19.autoCheck_accepts_iff_inDomain kv.1 kv.2).mp (firstError_none _ hf kv h)

theorem preserves_restore (old : Cfg) (hold : ∀ kv ∈ old, C19.inDomain kv.1 kv.2) :
    Preserves (restore Gen.configImpl old) := by
  intro s _
  simp only [restore, Gen.configImpl, M.modifyCfg]
  exact hold

theorem preserves_configContext (kvs : List (String × PyVal)) (body : M Unit) (hb : Preserves body) :
    Preserves (configContext Gen.configImpl kvs body) := by
  intro s hs
  simp only [configContext, Gen.configImpl, M.bind, M.get, if_true]
  exact preserves_tryFinally _ _ (preserves_bind _ _ (preserves_setConfig kvs) (fun _ => hb))
    (preserves_restore s.cfg hs) s hs

theorem preserves_mutateReturned (k : String) (v : PyVal) : Preserves (mutateReturned Gen.configImpl k v) := by
  intro s hs
  rw [get_config_is_copy]; exact hs

/-- the shipped defaults are in their domains -/
theorem inv_init : Inv Config.init := by
  intro kv hkv
  simp only [Config.init, Gen.configDefaults, List.mem_cons, List.mem_nil_iff, or_false] at hkv
  rcases hkv with h | h | h | h | h | h | h | h | h <;> subst h <;>
    simp [C19.inDomain, C19.unitOpen, C19.oneOf, C19.isBool, C19.nObsDomain, C19.intGt, C19.posNumber] <;>
    norm_num

/-- **Consequently no standard option of the global configuration ever holds an out-of-domain
value such as NaN**: the invariant holds initially and is kept by `set_config`, by
`config_context` around any invariant-keeping body, by copy mutation, by sequencing, `try/except`
and `try/finally` — i.e. by every program built from these operations. -/
theorem config_domain_invariant :
    Inv Config.init ∧
    (∀ kvs, Preserves (setConfig Gen.configImpl kvs)) ∧
    (∀ kvs body, Preserves body → Preserves (configContext Gen.configImpl kvs body)) ∧
    (∀ k v, Preserves (mutateReturned Gen.configImpl k v)) ∧
    (∀ (x : M Unit) (f : Unit → M Unit), Preserves x → (∀ a, Preserves (f a)) → Preserves (M.bind x f)) ∧
    (∀ x : M Unit, Preserves x → Preserves (M.tryCatch x)) :=
  ⟨inv_init, preserves_setConfig, preserves_configContext, preserves_mutateReturned,
    fun x f => preserves_bind x f, preserves_tryCatch⟩

theorem nan_never_stored (s : St) (hs : Inv s) (k : String)
    (hk : k ∈ ["alpha", "power", "confidence_level", "ratio", "n_resamples", "n_obs"]) :
    s.cfg.get k ≠ some (.float .nan) := by
  intro h
  have hmem : (k, PyVal.float XR.nan) ∈ s.cfg := by
    unfold Cfg.get at h
    cases hf : s.cfg.find? (fun p => p.1 = k) with
    | none => simp [hf] at h
    | some p =>
      simp only [hf, Option.map_some, Option.some.injEq] at h
      have h1 := List.find?_some hf
      have h2 := List.mem_of_find?_eq_some hf
      simp only [decide_eq_true_eq] at h1
      have : p = (k, PyVal.float XR.nan) := by cases p; simp_all
      rw [← this]; exact h2
  have := hs _ hmem
  simp only [List.mem_cons, List.mem_nil_iff, or_false] at hk
  rcases hk with h | h | h | h | h | h <;> subst h <;>
    simp [C19.inDomain, C19.unitOpen, C19.posNumber, C19.intGt, C19.nObsDomain] at this

end C13
