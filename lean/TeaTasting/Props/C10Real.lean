import TeaTasting.Basic.Rpow
import Mathlib.Analysis.SpecialFunctions.Pow.Real

/-! # C10 — the assumptions about `x ** y` hold for the real power

`RpowLaws` (the assumptions of `adjust_fwer_holm_sidak` / `adjust_fwer_hochberg_sidak` about the
power function) hold for `Real.rpow`: the hypotheses of those theorems are satisfiable, and they are
theorems about the real-number procedure that Python's float `x ** y` rounds. -/

namespace C10

theorem real_rpowLaws : RpowLaws (fun x y : ℝ => x ^ y) where
  one_base y := Real.one_rpow y
  exp_one x _ := Real.rpow_one x
  pos x y hx := Real.rpow_pos_of_pos hx y
  nonneg x y hx := Real.rpow_nonneg hx y
  strictMono_base x x' y hx h hy := Real.rpow_lt_rpow hx h hy
  anti_exp x y y' hx0 hx1 hy hyy := by
    rcases hx0.lt_or_eq with h | rfl
    · exact Real.rpow_le_rpow_of_exponent_ge h hx1 hyy
    · rw [Real.zero_rpow (by linarith), Real.zero_rpow (by linarith)]
  inv x y hx hy := by
    show (x ^ (1 / y)) ^ y = x
    rw [← Real.rpow_mul hx, one_div, inv_mul_cancel₀ hy.ne', Real.rpow_one]

end C10
