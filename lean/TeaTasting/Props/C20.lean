import TeaTasting.Model.Datasets
import Mathlib.Tactic.Ring
import Mathlib.Tactic.Linarith
import Mathlib.Tactic.FieldSimp
import Mathlib.Tactic.Positivity
import Mathlib.Tactic.IntervalCases
import Mathlib.Algebra.Order.Field.Basic

/-! # C20 — synthetic datasets are reproducible and internally consistent

Theorems about `Model/Datasets.lean` (the data as a function of the parameters and of the recorded RNG
draws; tied to `datasets.py` by re-computing every RNG parameter and every column from the draws recorded
in the real run).  That `numpy`'s generator is deterministic for a seed, and that its draws lie in the
ranges of their distributions (`DrawsOK`), is trusted / asserted on every run. -/

set_option linter.unusedSectionVars false

namespace C20
open Datasets

variable {α : Type} [Field α] [LinearOrder α] [IsStrictOrderedRing α]

/-! ## every parameter handed to the RNG lies in its distribution's domain -/

theorem su_gt (P : Params α) (h : Valid P) : -1 < P.su := by
  obtain ⟨_, _, h3, _, _, _, h7, _⟩ := h
  have : 0 < 1 / P.avg_sessions := by positivity
  linarith

theorem sessMult_pos (P : Params α) (h : Valid P) (v : Nat) (hv : v ≤ 1) : 0 < sessMult P v := by
  have := su_gt P h
  unfold sessMult
  interval_cases v <;> simp <;> linarith

theorem one_add_ou_pos (P : Params α) (h : Valid P) (v : Nat) (hv : v ≤ 1) : 0 < 1 + P.ou * (v : α) := by
  obtain ⟨_, _, _, h4, _⟩ := h
  interval_cases v <;> simp <;> linarith

theorem one_add_ru_pos (P : Params α) (h : Valid P) (v : Nat) (hv : v ≤ 1) : 0 < 1 + P.ru * (v : α) := by
  obtain ⟨_, _, _, _, _, h6, _⟩ := h
  interval_cases v <;> simp <;> linarith

theorem opsMult_pos (P : Params α) (h : Valid P) (v : Nat) (hv : v ≤ 1) : 0 < opsMult P v := by
  unfold opsMult
  exact div_pos (one_add_ou_pos P h v hv) (sessMult_pos P h v hv)

theorem rpoMult_pos (P : Params α) (h : Valid P) (v : Nat) (hv : v ≤ 1) : 0 < rpoMult P v := by
  unfold rpoMult
  exact div_pos (one_add_ru_pos P h v hv) (one_add_ou_pos P h v hv)

/-- `aops · mult < 1`: the Beta distribution's second parameter is positive -/
theorem aops_mult_lt_one (P : Params α) (h : Valid P) (v : Nat) (hv : v ≤ 1) : P.aops * opsMult P v < 1 := by
  have hs := sessMult_pos P h v hv
  obtain ⟨_, _, _, _, h5, _, _, h8, h9, _⟩ := h
  unfold opsMult
  unfold sessMult at hs
  rw [← mul_div_assoc, div_lt_one hs]
  interval_cases v
  · simp; exact h9
  · simp only [Nat.cast_one, mul_one]
    have : P.ou + 1 < (1 + P.su) / P.aops := by linarith
    have := (lt_div_iff₀ h8).mp this
    linarith

/-- **Every parameter handed to the RNG is in its distribution's domain**, for all valid generator
parameters, both variants and all possible earlier draws: the generator returns instead of raising. -/
theorem rng_params_in_domain (P : Params α) (h : Valid P) (v : Nat) (hv : v ≤ 1) :
    (0 < pVariant P ∧ pVariant P < 1)
    ∧ 0 < lamSessions P v
    ∧ (0 < betaA P v ∧ 0 < betaB P v)
    ∧ 0 < lognormalArg P v
    ∧ (∀ sessions : Nat, 0 ≤ lamSessCov P sessions v)
    ∧ (∀ ops : α, 0 ≤ ops → 0 ≤ pOrdersCov P ops v ∧ pOrdersCov P ops v ≤ 1)
    ∧ (∀ rpo : α, 0 < rpo → 0 < lognormalCovArg P rpo v) := by
  have hsm := sessMult_pos P h v hv
  have hom := opsMult_pos P h v hv
  have hrm := rpoMult_pos P h v hv
  have hlt := aops_mult_lt_one P h v hv
  obtain ⟨_, h2, h3, _, _, _, h7, h8, _, h10⟩ := h
  refine ⟨⟨?_, ?_⟩, ?_, ⟨?_, ?_⟩, ?_, ?_, ?_, ?_⟩
  · unfold pVariant; positivity
  · unfold pVariant; rw [div_lt_one (by linarith)]; linarith
  · unfold lamSessions sessMult
    interval_cases v
    · simp; linarith
    · simp only [Nat.cast_one, mul_one]
      have hpos : 0 < P.avg_sessions := by linarith
      have : 1 / P.avg_sessions < 1 + P.su := by linarith
      have := (div_lt_iff₀ hpos).mp this
      linarith
  · unfold betaA; positivity
  · unfold betaB; linarith
  · unfold lognormalArg; positivity
  · intro s; unfold lamSessCov; positivity
  · intro ops hops
    unfold pOrdersCov
    exact ⟨le_min (div_nonneg hops hom.le) zero_le_one, min_le_right _ _⟩
  · intro rpo hr; unfold lognormalCovArg; positivity

/-- without the cap (the code before commit b74b5d6) the covariate probability leaves `[0, 1]`: a Beta draw of
9/10 in the treatment group with `sessions_uplift = 1/5`, `orders_uplift = −3/10` gives `p = 54/35` -/
theorem covariate_p_uncapped_counterexample :
    let P : Params ℚ := { n_users := 10, ratio := 1, su := 1 / 5, ou := -3 / 10, ru := 1 / 10, avg_sessions := 2,
                          aops := 1 / 4, arpo := 10, covariates := true }
    Valid P ∧ (1 : ℚ) < (9 / 10) / opsMult P 1 := by
  decide +kernel

/-! ## calibration: the requested share and uplifts are the expected relative differences -/

/-- the odds of the treatment draw are the requested ratio -/
theorem share_calibration (P : Params α) (h : Valid P) : pVariant P / (1 - pVariant P) = P.ratio := by
  obtain ⟨_, h2, _⟩ := h
  unfold pVariant
  have : (1 : α) + P.ratio ≠ 0 := by positivity
  field_simp
  ring

/-- expected sessions (`1 + λ`) in treatment over control is `1 + sessions_uplift` -/
theorem sessions_calibration (P : Params α) (h : Valid P) :
    (1 + lamSessions P 1) / (1 + lamSessions P 0) = 1 + P.su := by
  obtain ⟨_, _, _, _, _, _, h7, _⟩ := h
  unfold lamSessions sessMult
  have : P.avg_sessions ≠ 0 := by positivity
  simp only [Nat.cast_one, Nat.cast_zero, mul_one, mul_zero, add_zero]
  field_simp
  ring

/-- the Beta mean `a / (a + b)` is `avg_orders_per_session · mult` … -/
theorem beta_mean (P : Params α) (v : Nat) : betaA P v / (betaA P v + betaB P v) = P.aops * opsMult P v := by
  unfold betaA betaB
  have : P.aops * opsMult P v * 1 + (1 - P.aops * opsMult P v) * 1 = 1 := by ring
  rw [this]; ring

/-- … so expected orders (sessions × orders per session) in treatment over control is `1 + orders_uplift` -/
theorem orders_calibration (P : Params α) (h : Valid P) :
    ((1 + lamSessions P 1) * (betaA P 1 / (betaA P 1 + betaB P 1)))
      / ((1 + lamSessions P 0) * (betaA P 0 / (betaA P 0 + betaB P 0))) = 1 + P.ou := by
  have hs := sessMult_pos P h 1 le_rfl
  rw [beta_mean, beta_mean]
  obtain ⟨_, _, _, _, _, _, h7, h8, _⟩ := h
  unfold lamSessions opsMult sessMult at *
  have h1 : P.avg_sessions ≠ 0 := by positivity
  have h2 : P.aops ≠ 0 := h8.ne'
  simp only [Nat.cast_one, Nat.cast_zero, mul_one, mul_zero, add_zero] at *
  have h3 : (1 : α) + P.su ≠ 0 := hs.ne'
  field_simp
  ring

/-- the log-normal mean is the argument of `log` in `mean = log(arg) − σ²/2`; expected revenue (orders ×
revenue per order) in treatment over control is `1 + revenue_uplift` -/
theorem revenue_calibration (P : Params α) (h : Valid P) :
    (1 + P.ou) * (lognormalArg P 1 / lognormalArg P 0) = 1 + P.ru := by
  have ho := one_add_ou_pos P h 1 le_rfl
  obtain ⟨_, _, _, _, _, _, _, _, _, h10⟩ := h
  unfold lognormalArg rpoMult
  simp only [Nat.cast_one, Nat.cast_zero, mul_one, mul_zero, add_zero] at *
  have h1 : P.arpo ≠ 0 := h10.ne'
  have h2 : (1 : α) + P.ou ≠ 0 := ho.ne'
  field_simp

/-! ## the rows -/

section Rows
variable (round2 : α → α) (P : Params α) (U : UserDraws α) (R : RowDraws α)

theorem makeData_length (explode : Bool) :
    (makeData round2 P explode U R).length = (userCol P U explode).length := by
  simp [makeData]

/-- users data: one row per user `0..n−1`, in order -/
theorem users_user_column : (makeData round2 P false U R).map (·.user) = List.range P.n_users := by
  simp only [makeData, userCol, Bool.false_eq_true, if_false, List.map_map, Function.comp_def, List.length_range]
  apply List.ext_getElem
  · simp
  · intro i h1 h2
    simp at h1 h2 ⊢
    simp [List.getD_eq_getElem?_getD, h2]

theorem getD_nonneg_of_pos (l : List α) (h : ∀ x ∈ l, 0 < x) (j : Nat) : 0 ≤ l.getD j 0 := by
  rw [List.getD_eq_getElem?_getD]
  cases h' : l[j]? with
  | none => simp
  | some x => simp; exact (h x (List.mem_of_getElem? h')).le

/-- **users data invariants**: variant ∈ {0,1}, sessions ≥ 1, 0 ≤ orders ≤ sessions, revenue ≥ 0 and zero
without orders; covariates: 0 ≤ orders_covariate ≤ sessions_covariate, revenue_covariate ≥ 0 and zero without
orders -/
theorem users_invariants (hr0 : round2 0 = 0) (hrn : ∀ x, 0 ≤ x → 0 ≤ round2 x)
    (hd : DrawsOK P false U R) (row : Row α) (hrow : row ∈ makeData round2 P false U R) :
    row.user < P.n_users ∧ row.variant ≤ 1 ∧ 1 ≤ row.sessions ∧ row.orders ≤ row.sessions
    ∧ 0 ≤ row.revenue ∧ (row.orders = 0 → row.revenue = 0)
    ∧ 0 ≤ row.orders_cov ∧ row.orders_cov ≤ row.sessions_cov ∧ 0 ≤ row.revenue_cov
    ∧ (row.orders_cov = 0 → row.revenue_cov = 0) := by
  simp only [makeData, userCol, Bool.false_eq_true, if_false, List.length_range, List.mem_map, List.mem_range] at hrow
  obtain ⟨j, hj, rfl⟩ := hrow
  have hu : (List.range P.n_users).getD j 0 = j := by simp [List.getD_eq_getElem?_getD, hj]
  simp only [hu]
  have hvar : U.variant.getD j 0 ≤ 1 := by
    have hlt : j < U.variant.length := by rw [hd.len_variant]; exact hj
    rw [List.getD_eq_getElem?_getD, List.getElem?_eq_getElem hlt]
    exact hd.variant01 _ (List.getElem_mem hlt)
  have hord := hd.orders_le j (by simpa [userCol] using hj)
  simp only [userCol, Bool.false_eq_true, if_false, hu] at hord
  have hrpo : 0 ≤ R.rpo.getD j 0 := getD_nonneg_of_pos _ hd.rpo_pos j
  have hrpoc : 0 ≤ R.rpoCov.getD j 0 := getD_nonneg_of_pos _ hd.rpoCov_pos j
  refine ⟨hj, hvar, ?_, hord, ?_, ?_, ?_, ?_, ?_, ?_⟩
  · simp [sessionsOf]
  · exact hrn _ (mul_nonneg (Nat.cast_nonneg _) hrpo)
  · intro h0
    have h0' : R.orders.getD j 0 = 0 := h0
    show round2 (((R.orders.getD j 0 : Nat) : α) * R.rpo.getD j 0) = 0
    rw [h0', Nat.cast_zero, zero_mul, hr0]
  · by_cases hc : P.covariates <;> simp [hc, rawOrdCov]
  · by_cases hc : P.covariates <;> simp [hc, rawOrdCov, rawSessCov]
    exact hd.ordersCov_le j
  · by_cases hc : P.covariates <;> simp [hc, rawRevCov]
    exact hrn _ (mul_nonneg (Nat.cast_nonneg _) hrpoc)
  · by_cases hc : P.covariates <;> simp [hc, rawOrdCov, rawRevCov]
    intro h0
    simp [h0, hr0]

/-! ### sessions data: the per-session explosion of the same users -/

theorem userCol_explode_length :
    (userCol P U true).length = ((List.range P.n_users).map (sessionsOf U)).sum := by
  simp only [userCol, if_true]
  induction List.range P.n_users with
  | nil => simp
  | cons u l ih => simp [List.flatMap_cons, ih]

/-- one row per session: the number of rows is the total number of sessions of the users … -/
theorem sessions_row_count :
    (makeData round2 P true U R).length = ((List.range P.n_users).map (sessionsOf U)).sum := by
  rw [makeData_length, userCol_explode_length]

theorem count_flatMap_replicate (l : List Nat) (hl : l.Nodup) (f : Nat → Nat) (u : Nat) (hu : u ∈ l) :
    (l.flatMap (fun w => List.replicate (f w) w)).count u = f u := by
  induction l with
  | nil => cases hu
  | cons a l ih =>
    obtain ⟨ha, hl'⟩ := List.nodup_cons.mp hl
    simp only [List.flatMap_cons, List.count_append]
    rcases List.mem_cons.mp hu with rfl | hu'
    · have : (l.flatMap (fun w => List.replicate (f w) w)).count u = 0 := by
        rw [List.count_eq_zero]
        intro hmem
        obtain ⟨w, hw, hwu⟩ := List.mem_flatMap.mp hmem
        have := (List.mem_replicate.mp hwu).2
        subst this
        exact ha hw
      rw [this, List.count_replicate_self, Nat.add_zero]
    · have hne : a ≠ u := fun h => ha (h ▸ hu')
      rw [List.count_replicate, ih hl' hu']
      simp [hne]

/-- … each user `u` appears in exactly `sessions(u)` rows (the value of its `sessions` column in users data
made from the same draws) … -/
theorem sessions_rows_per_user (u : Nat) (hu : u < P.n_users) :
    ((makeData round2 P true U R).map (·.user)).count u = sessionsOf U u
    ∧ ∀ row ∈ makeData round2 P false U R, row.user = u → row.sessions = sessionsOf U u := by
  constructor
  · have hcol : (makeData round2 P true U R).map (·.user) = userCol P U true := by
      simp only [makeData, List.map_map, Function.comp_def]
      apply List.ext_getElem
      · simp
      · intro i h1 h2
        simp at h1 h2 ⊢
        simp [List.getD_eq_getElem?_getD, h2]
    rw [hcol]
    simp only [userCol, if_true]
    exact count_flatMap_replicate _ List.nodup_range _ u (List.mem_range.mpr hu)
  · intro row hrow hru
    simp only [makeData, userCol, Bool.false_eq_true, if_false, List.length_range, List.mem_map, List.mem_range] at hrow
    obtain ⟨j, hj, rfl⟩ := hrow
    simp only at hru ⊢
    rw [hru]

/-- … every session row has `sessions = 1`, the variant of its user (the same variant as in users data), and
covariates that are constant within a user -/
theorem sessions_rows (i j : Nat) (hi : i < (userCol P U true).length) (hj : j < (userCol P U true).length)
    (ri rj : Row α) (hri : (makeData round2 P true U R)[i]? = some ri) (hrj : (makeData round2 P true U R)[j]? = some rj) :
    ri.sessions = 1 ∧ ri.variant = U.variant.getD ri.user 0
    ∧ (ri.user = rj.user → ri.sessions_cov = rj.sessions_cov ∧ ri.orders_cov = rj.orders_cov
        ∧ ri.revenue_cov = rj.revenue_cov) := by
  simp only [makeData, List.getElem?_map, List.getElem?_range hi, List.getElem?_range hj, Option.map_some,
    Option.some.injEq] at hri hrj
  subst hri; subst hrj
  refine ⟨rfl, rfl, ?_⟩
  intro hu
  simp only at hu
  have hu' : (userCol P U true)[i]?.getD 0 = (userCol P U true)[j]?.getD 0 := by
    simpa [List.getD_eq_getElem?_getD] using hu
  by_cases hc : P.covariates <;> simp [hc, avgByGroup, hu']

end Rows

/-! ## non-vacuity -/

example : Valid ({ n_users := 4000, ratio := 1, su := 0, ou := 1 / 10, ru := 1 / 10, avg_sessions := 2,
                   aops := 1 / 4, arpo := 10, covariates := false } : Params ℚ) := by decide +kernel

end C20

/-! ## sessions data: per-row invariants -/

namespace C20
open Datasets

variable {α : Type} [Field α] [LinearOrder α] [IsStrictOrderedRing α]

theorem sum_map_nonneg {ι : Type} (l : List ι) (f : ι → α) (h : ∀ i ∈ l, 0 ≤ f i) : 0 ≤ (l.map f).sum := by
  induction l with
  | nil => simp
  | cons a l ih =>
    simp only [List.map_cons, List.sum_cons]
    exact add_nonneg (h a List.mem_cons_self) (ih (fun i hi => h i (List.mem_cons_of_mem _ hi)))

theorem sum_map_le {ι : Type} (l : List ι) (f g : ι → α) (h : ∀ i ∈ l, f i ≤ g i) : (l.map f).sum ≤ (l.map g).sum := by
  induction l with
  | nil => simp
  | cons a l ih =>
    simp only [List.map_cons, List.sum_cons]
    exact add_le_add (h a List.mem_cons_self) (ih (fun i hi => h i (List.mem_cons_of_mem _ hi)))

theorem sum_map_eq_zero {ι : Type} (l : List ι) (f : ι → α) (h0 : ∀ i ∈ l, 0 ≤ f i) (hs : (l.map f).sum = 0) :
    ∀ i ∈ l, f i = 0 := by
  induction l with
  | nil => intro i hi; cases hi
  | cons a l ih =>
    simp only [List.map_cons, List.sum_cons] at hs
    have ha := h0 a List.mem_cons_self
    have hl := sum_map_nonneg l f (fun i hi => h0 i (List.mem_cons_of_mem _ hi))
    have ha0 : f a = 0 := by linarith
    have hl0 : (l.map f).sum = 0 := by linarith
    intro i hi
    rcases List.mem_cons.mp hi with rfl | hi
    · exact ha0
    · exact ih (fun i hi => h0 i (List.mem_cons_of_mem _ hi)) hl0 i hi

/-- the per-user average of a non-negative quantity is non-negative; of a pointwise smaller quantity, smaller -/
theorem avgByGroup_nonneg (users : List Nat) (vals : Nat → α) (j : Nat) (h : ∀ i, 0 ≤ vals i) :
    0 ≤ avgByGroup users vals j := by
  unfold avgByGroup
  exact div_nonneg (sum_map_nonneg _ _ (fun i _ => h i)) (Nat.cast_nonneg _)

theorem avgByGroup_le (users : List Nat) (f g : Nat → α) (j : Nat) (h : ∀ i, f i ≤ g i) :
    avgByGroup users f j ≤ avgByGroup users g j := by
  unfold avgByGroup
  exact div_le_div_of_nonneg_right (sum_map_le _ _ _ (fun i _ => h i)) (Nat.cast_nonneg _)

/-- **sessions data invariants**: every session row has `sessions = 1`, `0 ≤ orders ≤ 1`, revenue ≥ 0 and zero
without an order; the (per-user averaged) covariates satisfy `0 ≤ orders_covariate ≤ sessions_covariate` and
`revenue_covariate ≥ 0` -/
theorem sessions_invariants (round2 : α → α) (hr0 : round2 0 = 0) (hrn : ∀ x, 0 ≤ x → 0 ≤ round2 x)
    (P : Params α) (U : UserDraws α) (R : RowDraws α)
    (hd : DrawsOK P true U R) (row : Row α) (hrow : row ∈ makeData round2 P true U R) :
    row.sessions = 1 ∧ row.orders ≤ 1 ∧ 0 ≤ row.revenue ∧ (row.orders = 0 → row.revenue = 0)
    ∧ 0 ≤ row.orders_cov ∧ row.orders_cov ≤ row.sessions_cov ∧ 0 ≤ row.revenue_cov := by
  simp only [makeData, List.mem_map, List.mem_range] at hrow
  obtain ⟨j, hj, rfl⟩ := hrow
  have hord := hd.orders_le j hj
  simp only [if_true] at hord
  have hrpo : 0 ≤ R.rpo.getD j 0 := getD_nonneg_of_pos _ hd.rpo_pos j
  refine ⟨rfl, hord, ?_, ?_, ?_, ?_, ?_⟩
  · exact hrn _ (mul_nonneg (Nat.cast_nonneg _) hrpo)
  · intro h0
    have h0' : R.orders.getD j 0 = 0 := h0
    show round2 (((R.orders.getD j 0 : Nat) : α) * R.rpo.getD j 0) = 0
    rw [h0', Nat.cast_zero, zero_mul, hr0]
  · by_cases hc : P.covariates <;> simp [hc]
    exact avgByGroup_nonneg _ _ _ (fun i => by unfold rawOrdCov; exact Nat.cast_nonneg _)
  · by_cases hc : P.covariates <;> simp [hc]
    apply avgByGroup_le
    intro i
    unfold rawOrdCov rawSessCov
    exact_mod_cast hd.ordersCov_le i
  · by_cases hc : P.covariates <;> simp [hc]
    apply hrn
    apply avgByGroup_nonneg
    intro i
    unfold rawRevCov
    exact mul_nonneg (Nat.cast_nonneg _) (getD_nonneg_of_pos _ hd.rpoCov_pos i)

end C20
