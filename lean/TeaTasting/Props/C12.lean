import TeaTasting.Model.Experiment
import TeaTasting.Props.C14
import TeaTasting.Gen.Mean
import Mathlib.Data.List.Dedup
import Mathlib.Data.List.Nodup

/-! # C12 — an experiment is the sum of its metrics over the documented variant pairs -/

open Experiment Gen

set_option linter.unusedSectionVars false

namespace C12

section Pairs
variable {κ : Type} [LinearOrder κ]

/-- with a control: exactly the pairs (control, t) for the other variants t -/
theorem pairs_control_given (variants : List κ) (c : κ) (p : κ × κ) :
    p ∈ pairs variants (some c) ↔ p.1 = c ∧ p.2 ∈ variants ∧ p.2 ≠ c := by
  obtain ⟨a, b⟩ := p
  simp only [pairs, List.mem_map, List.mem_filter, decide_eq_true_eq, Prod.mk.injEq]
  constructor
  · rintro ⟨t, ⟨ht, hne⟩, rfl, rfl⟩; exact ⟨rfl, ht, hne⟩
  · rintro ⟨rfl, hb, hne⟩; exact ⟨b, ⟨hb, hne⟩, rfl, rfl⟩

/-- without a control: exactly the pairs with the smaller id as control -/
theorem pairs_all (variants : List κ) (p : κ × κ) :
    p ∈ pairs variants none ↔ p.1 ∈ variants ∧ p.2 ∈ variants ∧ p.1 < p.2 := by
  obtain ⟨a, b⟩ := p
  simp only [pairs, List.mem_flatMap, List.mem_map, List.mem_filter, decide_eq_true_eq, Prod.mk.injEq]
  constructor
  · rintro ⟨c, hc, t, ⟨ht, hlt⟩, rfl, rfl⟩; exact ⟨hc, ht, hlt⟩
  · rintro ⟨ha, hb, hlt⟩; exact ⟨a, ha, b, ⟨hb, hlt⟩, rfl, rfl⟩

/-- with a control the treatments come in sorted order, each once -/
theorem pairs_control_order (variants : List κ) (c : κ) :
    (pairs variants (some c)).map Prod.snd = variants.filter (fun t => t ≠ c) := by
  simp [pairs, List.map_map, Function.comp_def]

/-- no duplicated pair when the variant ids are distinct -/
theorem pairs_nodup (variants : List κ) (control : Option κ) (h : variants.Nodup) :
    (pairs variants control).Nodup := by
  cases control with
  | some c =>
    simp only [pairs]
    exact List.Nodup.map (fun a b hab => (Prod.mk.inj hab).2) (h.filter _)
  | none =>
    simp only [pairs]
    rw [List.nodup_flatMap]
    refine ⟨fun c _ => List.Nodup.map (fun a b hab => (Prod.mk.inj hab).2) (h.filter _), ?_⟩
    apply h.pairwise_of_forall_ne
    intro a _ b _ hab
    intro x hx1 hx2
    simp only [List.mem_map, List.mem_filter] at hx1 hx2
    obtain ⟨_, _, rfl⟩ := hx1
    obtain ⟨_, _, h2⟩ := hx2
    exact hab (Prod.mk.inj h2).1.symm

/-- `all_variants=False` returns a single result iff there is exactly one pair, and raises
otherwise — it never guesses -/
theorem raises_iff_not_exactly_one_pair (variants : List κ) (control : Option κ) :
    (∃ p, analyzePairs variants control false = .one p) ↔ (pairs variants control).length = 1 := by
  unfold analyzePairs
  constructor
  · rintro ⟨p, hp⟩
    by_contra hne
    simp [hne] at hp
  · intro h
    match hps : pairs variants control, h with
    | [p], _ => exact ⟨p, by simp⟩

theorem raises_otherwise (variants : List κ) (control : Option κ)
    (h : (pairs variants control).length ≠ 1) : analyzePairs variants control false = .raise := by
  unfold analyzePairs; simp [h]

/-- `all_variants=True` returns every documented pair, in order -/
theorem all_variants_returns_pairs (variants : List κ) (control : Option κ) :
    analyzePairs variants control true = .all (pairs variants control) := by
  unfold analyzePairs; simp

end Pairs

/-! ## merged request ⊇ what every metric declares -/

theorem or_superset_left (a b : AggrCols) :
    (a.has_count = true → (a.or b).has_count = true) ∧
    (∀ c ∈ a.mean_cols, c ∈ (a.or b).mean_cols) ∧ (∀ c ∈ a.var_cols, c ∈ (a.or b).var_cols) ∧
    (∀ p ∈ a.cov_cols, sortedPair p ∈ (a.or b).cov_cols) := by
  refine ⟨fun h => by simp [AggrCols.or, h], fun c hc => by simp [AggrCols.or, List.mem_dedup, hc],
    fun c hc => by simp [AggrCols.or, List.mem_dedup, hc], fun p hp => ?_⟩
  simp only [AggrCols.or, List.mem_dedup, List.mem_map, List.mem_append]
  exact ⟨p, Or.inl hp, rfl⟩

theorem or_superset_right (a b : AggrCols) :
    (b.has_count = true → (a.or b).has_count = true) ∧
    (∀ c ∈ b.mean_cols, c ∈ (a.or b).mean_cols) ∧ (∀ c ∈ b.var_cols, c ∈ (a.or b).var_cols) ∧
    (∀ p ∈ b.cov_cols, sortedPair p ∈ (a.or b).cov_cols) := by
  refine ⟨fun h => by simp [AggrCols.or, h], fun c hc => by simp [AggrCols.or, List.mem_dedup, hc],
    fun c hc => by simp [AggrCols.or, List.mem_dedup, hc], fun p hp => ?_⟩
  simp only [AggrCols.or, List.mem_dedup, List.mem_map, List.mem_append]
  exact ⟨p, Or.inr hp, rfl⟩

/-- "declares at least": everything `c` asks for is asked for by `m` (covariance pairs up to order) -/
def Covers (m c : AggrCols) : Prop :=
  (c.has_count = true → m.has_count = true) ∧ (∀ x ∈ c.mean_cols, x ∈ m.mean_cols) ∧
  (∀ x ∈ c.var_cols, x ∈ m.var_cols) ∧ (∀ p ∈ c.cov_cols, sortedPair p ∈ m.cov_cols)

theorem sortedPair_idem (p : String × String) : sortedPair (sortedPair p) = sortedPair p := by
  unfold sortedPair
  by_cases h : p.2 < p.1
  · simp [h, lt_asymm h]
  · simp [h]

theorem covers_or_of_covers (acc c x : AggrCols) (h : Covers acc x) : Covers (acc.or c) x := by
  obtain ⟨h1, h2, h3, h4⟩ := h
  obtain ⟨o1, o2, o3, o4⟩ := or_superset_left acc c
  refine ⟨fun hc => o1 (h1 hc), fun y hy => o2 y (h2 y hy), fun y hy => o3 y (h3 y hy), fun p hp => ?_⟩
  have := o4 (sortedPair p) (h4 p hp)
  rwa [sortedPair_idem] at this

theorem foldl_covers (ms : List (String × MetricKind)) (acc x : AggrCols) (h : Covers acc x) :
    Covers (ms.foldl (fun acc m => match aggrPart m.2 with | some c => acc.or c | none => acc) acc) x := by
  induction ms generalizing acc with
  | nil => exact h
  | cons m rest ih =>
    simp only [List.foldl_cons]
    apply ih
    cases aggrPart m.2 with
    | none => exact h
    | some c => exact covers_or_of_covers acc c x h

/-- **every statistic a metric declares is in the merged request** (covariance pairs up to
order), whatever other metrics are present and in whatever order -/
theorem merge_superset (ms : List (String × MetricKind)) (m : String × MetricKind) (hm : m ∈ ms)
    (c : AggrCols) (hc : aggrPart m.2 = some c) : Covers (mergedAggr ms) c := by
  unfold mergedAggr
  generalize ({} : AggrCols) = acc
  induction ms generalizing acc with
  | nil => simp at hm
  | cons x rest ih =>
    simp only [List.foldl_cons]
    rcases List.mem_cons.mp hm with rfl | hr
    · apply foldl_covers
      rw [hc]
      obtain ⟨o1, o2, o3, o4⟩ := or_superset_right acc c
      exact ⟨o1, o2, o3, o4⟩
    · exact ih hr _

/-! ## a metric's result depends only on the statistics it declares -/

section Frame
variable {α : Type} [Field α] [LinearOrder α] [IsStrictOrderedRing α]

/-- the column roles of a Mean / RatioOfMeans metric -/
def roles (cfg : RatioCfg α) : List (Option String) :=
  [some cfg.numer, cfg.denom, cfg.numer_covariate, cfg.denom_covariate]

/-- two `Aggregates` agree on what the metric declares in `aggr_cols`: the count, the mean and
variance of every role column, the covariance of every pair of DIFFERENT role columns -/
structure AgreeOn (cfg : RatioCfg α) (a a' : Aggr α) : Prop where
  count : a.count_ = a'.count_
  mean : ∀ o ∈ roles cfg, Aggr.mean a o = Aggr.mean a' o
  var : ∀ o ∈ roles cfg, Aggr.var a o = Aggr.var a' o
  cov : ∀ o₁ ∈ roles cfg, ∀ o₂ ∈ roles cfg, o₁ ≠ o₂ → Aggr.cov a o₁ o₂ = Aggr.cov a' o₁ o₂

/-- the role columns carry pairwise different names (two roles may both be absent) -/
def DistinctRoles (cfg : RatioCfg α) : Prop := (roles cfg).Pairwise (fun a b => a = b → a = none)

theorem cov_none_left (a : Aggr α) (o : Option String) : Aggr.cov a none o = 0 := by
  cases o <;> rfl

theorem cov_agree {cfg : RatioCfg α} {a a' : Aggr α} (h : AgreeOn cfg a a') (o₁ o₂ : Option String)
    (h1 : o₁ ∈ roles cfg) (h2 : o₂ ∈ roles cfg) (hd : o₁ = o₂ → o₁ = none) :
    Aggr.cov a o₁ o₂ = Aggr.cov a' o₁ o₂ := by
  by_cases he : o₁ = o₂
  · rw [hd he, cov_none_left, cov_none_left]
  · exact h.cov o₁ h1 o₂ h2 he

theorem ratio_var_congr (a a' : Aggr α) (n d : Option String)
    (hmn : Aggr.mean a n = Aggr.mean a' n) (hmd : Aggr.mean a d = Aggr.mean a' d)
    (hvn : Aggr.var a n = Aggr.var a' n) (hvd : Aggr.var a d = Aggr.var a' d)
    (hc : Aggr.cov a n d = Aggr.cov a' n d) : Aggr.ratio_var a n d = Aggr.ratio_var a' n d := by
  unfold Aggr.ratio_var
  rw [hmn, hmd, hvn, hvd, hc]

theorem ratio_cov_congr (a a' : Aggr α) (ln ld rn rd : Option String)
    (h1 : Aggr.mean a ln = Aggr.mean a' ln) (h2 : Aggr.mean a ld = Aggr.mean a' ld)
    (h3 : Aggr.mean a rn = Aggr.mean a' rn) (h4 : Aggr.mean a rd = Aggr.mean a' rd)
    (c1 : Aggr.cov a ln rn = Aggr.cov a' ln rn) (c2 : Aggr.cov a ln rd = Aggr.cov a' ln rd)
    (c3 : Aggr.cov a ld rn = Aggr.cov a' ld rn) (c4 : Aggr.cov a ld rd = Aggr.cov a' ld rd) :
    Aggr.ratio_cov a ln ld rn rd = Aggr.ratio_cov a' ln ld rn rd := by
  unfold Aggr.ratio_cov
  rw [h1, h2, h3, h4, c1, c2, c3, c4]

theorem cov_add (c t : Aggr α) (x y : String) :
    Aggr.cov (c + t) (some x) (some y)
      = (Aggr.cov c (some x) (some y) * (Aggr.count c - 1) + Aggr.cov t (some x) (some y) * (Aggr.count t - 1)
          + (Aggr.mean c (some x) - Aggr.mean t (some x)) * (Aggr.mean c (some y) - Aggr.mean t (some y))
            * Aggr.count c * Aggr.count t / (Aggr.count c + Aggr.count t))
        / (Aggr.count c + Aggr.count t - 1) := by
  show Aggr.cov (Aggr.add c t) (some x) (some y) = _
  simp only [Aggr.add, Aggr.cov, addCov, Aggr.mean, Aggr.count, C14.sortedTuple_idem]
  by_cases h : y < x
  · simp only [sortedTuple, h, if_true]; ring
  · simp only [sortedTuple, h, if_false]

theorem agree_add {cfg : RatioCfg α} {c c' t t' : Aggr α} (hc : AgreeOn cfg c c') (ht : AgreeOn cfg t t') :
    AgreeOn cfg (c + t) (c' + t') := by
  have hcc : Aggr.count c = Aggr.count c' := hc.count
  have htc : Aggr.count t = Aggr.count t' := ht.count
  refine ⟨?_, ?_, ?_, ?_⟩
  · show c.count_ + t.count_ = c'.count_ + t'.count_
    rw [hc.count, ht.count]
  · intro o ho
    cases o with
    | none => rfl
    | some x =>
      show addMean c t x = addMean c' t' x
      simp only [addMean, hcc, htc, hc.mean _ ho, ht.mean _ ho]
  · intro o ho
    cases o with
    | none => rfl
    | some x =>
      show addVar c t x = addVar c' t' x
      simp only [addVar, hcc, htc, hc.mean _ ho, ht.mean _ ho, hc.var _ ho, ht.var _ ho]
  · intro o₁ h1 o₂ h2 hne
    cases o₁ with
    | none => rw [cov_none_left, cov_none_left]
    | some x =>
      cases o₂ with
      | none => rfl
      | some y =>
        rw [cov_add, cov_add, hcc, htc, hc.mean _ h1, ht.mean _ h1, hc.mean _ h2, ht.mean _ h2,
          hc.cov _ h1 _ h2 hne, ht.cov _ h1 _ h2 hne]

/-- **a metric's result is a function of the statistics it declared**: two sets of aggregates
that agree on them (whatever else they contain) give the same analysis — so an entry of an
experiment never depends on which other metrics or columns were requested alongside -/
theorem analysis_frame (P : Prims α) (cfg : RatioCfg α) (hd : DistinctRoles cfg) (c c' t t' : Aggr α)
    (hc : AgreeOn cfg c c') (ht : AgreeOn cfg t t') :
    RatioOfMeans.analyze_aggregates P cfg c t = RatioOfMeans.analyze_aggregates P cfg c' t' := by
  have hT := agree_add hc ht
  simp only [DistinctRoles, roles, List.pairwise_cons, List.mem_cons, List.mem_nil_iff, or_false,
    forall_eq_or_imp, forall_eq, List.Pairwise.nil, and_true, IsEmpty.forall_iff, implies_true] at hd
  obtain ⟨⟨d12, d13, d14⟩, ⟨d23, d24⟩, d34⟩ := hd
  have m1 : (some cfg.numer) ∈ roles cfg := by simp [roles]
  have m2 : cfg.denom ∈ roles cfg := by simp [roles]
  have m3 : cfg.numer_covariate ∈ roles cfg := by simp [roles]
  have m4 : cfg.denom_covariate ∈ roles cfg := by simp [roles]
  have key : ∀ a a' : Aggr α, AgreeOn cfg a a' →
      (Aggr.ratio_var a (some cfg.numer) cfg.denom = Aggr.ratio_var a' (some cfg.numer) cfg.denom) ∧
      (Aggr.ratio_var a cfg.numer_covariate cfg.denom_covariate
        = Aggr.ratio_var a' cfg.numer_covariate cfg.denom_covariate) ∧
      (RatioOfMeans.covariate_cov cfg a = RatioOfMeans.covariate_cov cfg a') := by
    intro a a' h
    refine ⟨ratio_var_congr a a' _ _ (h.mean _ m1) (h.mean _ m2) (h.var _ m1) (h.var _ m2)
        (cov_agree h _ _ m1 m2 d12),
      ratio_var_congr a a' _ _ (h.mean _ m3) (h.mean _ m4) (h.var _ m3) (h.var _ m4)
        (cov_agree h _ _ m3 m4 d34), ?_⟩
    unfold RatioOfMeans.covariate_cov
    exact ratio_cov_congr a a' _ _ _ _ (h.mean _ m1) (h.mean _ m2) (h.mean _ m3) (h.mean _ m4)
      (cov_agree h _ _ m1 m3 d13) (cov_agree h _ _ m1 m4 d14) (cov_agree h _ _ m2 m3 d23)
      (cov_agree h _ _ m2 m4 d24)
  obtain ⟨kT1, kT2, kT3⟩ := key _ _ hT
  obtain ⟨kc1, kc2, kc3⟩ := key _ _ hc
  obtain ⟨kt1, kt2, kt3⟩ := key _ _ ht
  have hcoef : RatioOfMeans.covariate_coef cfg (c + t) = RatioOfMeans.covariate_coef cfg (c' + t') := by
    unfold RatioOfMeans.covariate_coef
    rw [kT2, kT3]
  unfold RatioOfMeans.analyze_aggregates RatioOfMeans.metric_mean RatioOfMeans.metric_var
  simp only [hcoef, hT.mean _ m3, hT.mean _ m4, hc.mean _ m1, hc.mean _ m2, hc.mean _ m3, hc.mean _ m4,
    ht.mean _ m1, ht.mean _ m2, ht.mean _ m3, ht.mean _ m4, kc1, kc2, kc3, kt1, kt2, kt3]
  have e1 : Aggr.count c = Aggr.count c' := hc.count
  have e2 : Aggr.count t = Aggr.count t' := ht.count
  rw [e1, e2]

/-- **the same for power analysis**: the three numbers `solve_power_from_aggregates` takes from the
data — the (adjusted) metric mean, the (adjusted) metric variance and the count — are functions of
the statistics the metric declared; two `Aggregates` that agree on them (whatever else they
contain) give the same inputs to `_solve_power_from_stats`, hence the same power / effect size /
sample size for every entry of the grid -/
theorem power_inputs_frame (cfg : RatioCfg α) (hd : DistinctRoles cfg) (a a' : Aggr α) (h : AgreeOn cfg a a') :
    RatioOfMeans.covariate_coef cfg a = RatioOfMeans.covariate_coef cfg a' ∧
    (∀ coef : α, RatioOfMeans.metric_mean cfg a coef
        (Aggr.mean a cfg.numer_covariate / Aggr.mean a cfg.denom_covariate)
      = RatioOfMeans.metric_mean cfg a' coef
        (Aggr.mean a' cfg.numer_covariate / Aggr.mean a' cfg.denom_covariate)) ∧
    (∀ coef : α, RatioOfMeans.metric_var cfg a coef = RatioOfMeans.metric_var cfg a' coef) ∧
    Aggr.count a = Aggr.count a' := by
  simp only [DistinctRoles, roles, List.pairwise_cons, List.mem_cons, List.mem_nil_iff, or_false,
    forall_eq_or_imp, forall_eq, List.Pairwise.nil, and_true, IsEmpty.forall_iff, implies_true] at hd
  obtain ⟨⟨d12, d13, d14⟩, ⟨d23, d24⟩, d34⟩ := hd
  have m1 : (some cfg.numer) ∈ roles cfg := by simp [roles]
  have m2 : cfg.denom ∈ roles cfg := by simp [roles]
  have m3 : cfg.numer_covariate ∈ roles cfg := by simp [roles]
  have m4 : cfg.denom_covariate ∈ roles cfg := by simp [roles]
  have k1 := ratio_var_congr a a' _ _ (h.mean _ m1) (h.mean _ m2) (h.var _ m1) (h.var _ m2)
    (cov_agree h _ _ m1 m2 d12)
  have k2 := ratio_var_congr a a' _ _ (h.mean _ m3) (h.mean _ m4) (h.var _ m3) (h.var _ m4)
    (cov_agree h _ _ m3 m4 d34)
  have k3 : RatioOfMeans.covariate_cov cfg a = RatioOfMeans.covariate_cov cfg a' := by
    unfold RatioOfMeans.covariate_cov
    exact ratio_cov_congr a a' _ _ _ _ (h.mean _ m1) (h.mean _ m2) (h.mean _ m3) (h.mean _ m4)
      (cov_agree h _ _ m1 m3 d13) (cov_agree h _ _ m1 m4 d14) (cov_agree h _ _ m2 m3 d23)
      (cov_agree h _ _ m2 m4 d24)
  refine ⟨?_, ?_, ?_, h.count⟩
  · unfold RatioOfMeans.covariate_coef
    rw [k2, k3]
  · intro coef
    unfold RatioOfMeans.metric_mean
    simp only [h.mean _ m1, h.mean _ m2, h.mean _ m3, h.mean _ m4]
  · intro coef
    unfold RatioOfMeans.metric_var
    simp only [k1, k2, k3]

end Frame

/-! ## `Experiment.solve_power`: the merged request covers every power metric -/

theorem foldl_power_covers (ms : List (String × PowerKind)) (acc x : AggrCols) (h : Covers acc x) :
    Covers (ms.foldl (fun acc m => match m.2 with | .aggregated c => acc.or c | _ => acc) acc) x := by
  induction ms generalizing acc with
  | nil => exact h
  | cons m rest ih =>
    simp only [List.foldl_cons]
    apply ih
    cases m.2 with
    | aggregated c => exact covers_or_of_covers acc c x h
    | plain => exact h
    | notPower => exact h

/-- **every statistic a `PowerBaseAggregated` metric declares is in the request that
`Experiment.solve_power` sends to the backend**, whatever other metrics (aggregated, plain or
without power analysis) are present and in whatever order -/
theorem merge_power_superset (ms : List (String × PowerKind)) (m : String × PowerKind) (hm : m ∈ ms)
    (c : AggrCols) (hc : m.2 = .aggregated c) : Covers (mergedPower ms) c := by
  unfold mergedPower
  generalize ({} : AggrCols) = acc
  induction ms generalizing acc with
  | nil => simp at hm
  | cons x rest ih =>
    simp only [List.foldl_cons]
    rcases List.mem_cons.mp hm with rfl | hr
    · apply foldl_power_covers
      rw [hc]
      obtain ⟨o1, o2, o3, o4⟩ := or_superset_right acc c
      exact ⟨o1, o2, o3, o4⟩
    · exact ih hr _

/-- a metric that takes no part in power analysis adds nothing to the request -/
theorem mergedPower_skip (ms : List (String × PowerKind)) (n : String) :
    mergedPower (ms ++ [(n, .notPower)]) = mergedPower ms ∧
    mergedPower (ms ++ [(n, .plain)]) = mergedPower ms := by
  simp [mergedPower, List.foldl_append]

end C12
