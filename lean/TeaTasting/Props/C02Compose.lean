import TeaTasting.Props.C12Compose

/-! # C02, continued — the experiment's numbers do not depend on the backend, the row order or
unrelated columns

`Props/C02.lean` proves, over the query algebra, that the per-variant statistics are invariant
under row permutations and unrelated columns and that the three pipelines agree (`isStats_perm`,
`isStats_map`, `pipelines_agree`).  This file lifts that to `Experiment.analyze` (the model of
`Props/C12Compose.lean`): two backends — any engine, any physical row order or chunking, any set
of unrelated columns — whose answers hold the same statistics of the data give the same result for
every metric and every pair. -/

open Experiment Gen

set_option linter.unusedSectionVars false

namespace C02

open C12

variable {α : Type} [Field α] [LinearOrder α] [IsStrictOrderedRing α]
variable {κ ρ : Type}

/-- two backends that answer every request with the same statistics of the data agree on whatever
a metric declares -/
theorem agreeCols_of_answersFrom (read read' : AggrCols → κ → Aggr α) (cnt : κ → α) (mean var : κ → String → α)
    (cov : κ → String → String → α) (h : AnswersFrom read cnt mean var cov)
    (h' : AnswersFrom read' cnt mean var cov) (req req' : AggrCols) (hc : Covers req' req) (v : κ) :
    AgreeCols req (read req v) (read' req' v) := by
  obtain ⟨c1, c2, c3, c4⟩ := hc
  obtain ⟨a1, a2, a3, a4⟩ := h req v
  obtain ⟨b1, b2, b3, b4⟩ := h' req' v
  refine ⟨fun hcnt => by rw [a1 hcnt, b1 (c1 hcnt)], fun x hx => by rw [a2 x hx, b2 x (c2 x hx)],
    fun x hx => by rw [a3 x hx, b3 x (c3 x hx)], fun p hp => ?_⟩
  have := b4 (sortedPair p) (c4 p hp)
  rw [sortedPair_idem] at this
  rw [a4 p hp, this]

/-- **`Experiment.analyze` gives the same numbers on any two such backends**: for every pair and
every metric that reads only what it declares — whatever else either experiment requests -/
theorem analyze_indep_of_backend (read read' : AggrCols → κ → Aggr α) (cnt : κ → α) (mean var : κ → String → α)
    (cov : κ → String → String → α) (h : AnswersFrom read cnt mean var cov)
    (h' : AnswersFrom read' cnt mean var cov)
    (ms : List (String × AMetric α ρ)) (hframe : ∀ m ∈ ms, Frame m.2) (ps : List (κ × κ)) :
    experimentAnalyze read ms ps = experimentAnalyze read' ms ps := by
  rw [entry_eq_standalone read (readsExact_of_answersFrom read cnt mean var cov h) ms hframe ps]
  unfold experimentAnalyze standalone
  apply List.map_congr_left
  intro p _
  congr 1
  apply List.map_congr_left
  intro m hm
  congr 1
  exact hframe m hm _ _ _ _
    (agreeCols_of_answersFrom read read' cnt mean var cov h h' _ _ (covers_mergedOf ms m hm) p.1)
    (agreeCols_of_answersFrom read read' cnt mean var cov h h' _ _ (covers_mergedOf ms m hm) p.2)

/-- the built-in Mean / RatioOfMeans metrics (GENERATED analysis, pairwise different role columns) -/
theorem ratio_analyze_indep_of_backend (P : Prims α) (read read' : AggrCols → κ → Aggr α) (cnt : κ → α)
    (mean var : κ → String → α) (cov : κ → String → String → α) (h : AnswersFrom read cnt mean var cov)
    (h' : AnswersFrom read' cnt mean var cov)
    (cfgs : List (String × RatioCfg α)) (hd : ∀ c ∈ cfgs, DistinctRoles c.2) (ps : List (κ × κ)) :
    experimentAnalyze read (cfgs.map (fun c => (c.1, ratioMetric P c.2))) ps =
      experimentAnalyze read' (cfgs.map (fun c => (c.1, ratioMetric P c.2))) ps := by
  apply analyze_indep_of_backend read read' cnt mean var cov h h'
  intro m hm
  obtain ⟨c, hc, rfl⟩ := List.mem_map.mp hm
  exact ratio_frame P c.2 (hd c hc)

end C02
