import TeaTasting.Model.PowerGrid
import Mathlib.Data.Rat.Floor
import Mathlib.Tactic.FieldSimp
import Mathlib.Tactic.Ring
import Mathlib.Tactic.Linarith

/-! # C09, continued — the rows of `solve_power`

"In every output row absolute and relative effect size are related by the (CUPED-adjusted) sample
mean, … and there is one row per effect-size × n_obs combination in input order."  Theorems over
`Model/PowerGrid.lean` (the row assembly around the solver, which is a parameter here). -/

set_option linter.unusedSectionVars false

namespace C09

open PowerGrid

variable {α : Type} [Field α] [LinearOrder α] [IsStrictOrderedRing α] [FloorRing α]

/-! ## one row per effect size × n_obs, in input order -/

theorem flatMap_map_length {β γ δ : Type} (ps : List β) (ns : List γ) (f : β → γ → δ) :
    (ps.flatMap (fun p => ns.map (f p))).length = ps.length * ns.length := by
  induction ps with
  | nil => simp
  | cons p rest ih => simp [List.flatMap_cons, ih, Nat.add_mul, Nat.add_comm]

theorem flatMap_map_getElem? {β γ δ : Type} (ps : List β) (ns : List γ) (f : β → γ → δ)
    (i j : ℕ) (hi : i < ps.length) (hj : j < ns.length) :
    (ps.flatMap (fun p => ns.map (f p)))[i * ns.length + j]? = some (f ps[i] ns[j]) := by
  induction ps generalizing i with
  | nil => simp at hi
  | cons p rest ih =>
    rw [List.flatMap_cons]
    cases i with
    | zero =>
      simp only [Nat.zero_mul, Nat.zero_add, List.getElem_cons_zero]
      rw [List.getElem?_append_left (by simpa using hj)]
      simp [hj]
    | succ i =>
      simp only [List.length_cons, Nat.add_lt_add_iff_right] at hi
      rw [List.getElem?_append_right (by simp [Nat.succ_mul]; omega)]
      simp only [List.length_map, List.getElem_cons_succ]
      have : (i + 1) * ns.length + j - ns.length = i * ns.length + j := by
        rw [Nat.succ_mul]; omega
      rw [this]
      exact ih i hi

/-- the number of rows is (number of effect sizes) × (number of sample sizes) -/
theorem rows_count (cfg : Cfg α) (mm cnt : α) (par : Param) (solve : Cell α → α)
    (ps : List (Option α × Option α)) (hps : effectPairs cfg mm par = some ps) :
    ∃ rows, solvePower cfg mm cnt par solve = some rows ∧
      rows.length = ps.length * (nList cfg cnt par).length := by
  have h : solvePower cfg mm cnt par solve = some
      ((ps.flatMap (fun p => (nList cfg cnt par).map (fun n => (p.1, p.2, n)))).map
        (fun c => row cfg mm par c (solve c))) := by
    simp only [solvePower, cells, hps, Option.map_some]
  refine ⟨_, h, ?_⟩
  rw [List.length_map, flatMap_map_length]

/-- **rows are in input order**: row number `i·|n_obs| + j` is built from the `i`-th effect size
and the `j`-th sample size, and holds the value the solver returned for exactly that cell -/
theorem rows_eq_grid (cfg : Cfg α) (mm cnt : α) (par : Param) (solve : Cell α → α)
    (ps : List (Option α × Option α)) (hps : effectPairs cfg mm par = some ps)
    (i j : ℕ) (hi : i < ps.length) (hj : j < (nList cfg cnt par).length) :
    ∃ rows, solvePower cfg mm cnt par solve = some rows ∧
      rows[i * (nList cfg cnt par).length + j]? =
        some (row cfg mm par (ps[i].1, ps[i].2, (nList cfg cnt par)[j])
          (solve (ps[i].1, ps[i].2, (nList cfg cnt par)[j]))) := by
  have h : solvePower cfg mm cnt par solve = some
      ((ps.flatMap (fun p => (nList cfg cnt par).map (fun n => (p.1, p.2, n)))).map
        (fun c => row cfg mm par c (solve c))) := by
    simp only [solvePower, cells, hps, Option.map_some]
  refine ⟨_, h, ?_⟩
  rw [List.getElem?_map,
    flatMap_map_getElem? ps (nList cfg cnt par) (fun p n => (p.1, p.2, n)) i j hi hj]
  rfl

/-- effect sizes given as a sequence appear in the order given (absolute) -/
theorem effectPairs_abs (cfg : Cfg α) (mm : α) (par : Param) (es : List α)
    (hpar : par.solvesEffect = false) (he : cfg.effect = some es) (hr : cfg.rel = none) :
    effectPairs cfg mm par = some (es.map (fun e => (some e, some (e / mm)))) := by
  simp [effectPairs, hpar, he, hr]

/-- … and relative ones -/
theorem effectPairs_rel (cfg : Cfg α) (mm : α) (par : Param) (rs : List α)
    (hpar : par.solvesEffect = false) (hr : cfg.rel = some rs) :
    effectPairs cfg mm par = some (rs.map (fun r => (some (r * mm), some r))) := by
  unfold effectPairs
  simp only [hpar, hr]
  cases cfg.effect <;> rfl

/-- when the effect size is what is solved for, a configured effect size is ignored: one
(unknown) effect per sample size -/
theorem effectPairs_solving (cfg : Cfg α) (mm : α) (par : Param) (hpar : par.solvesEffect = true) :
    effectPairs cfg mm par = some [(none, none)] := by
  simp [effectPairs, hpar]

/-- the sample sizes: the configured sequence in its order, or the sample's own count -/
theorem nList_given (cfg : Cfg α) (cnt : α) (par : Param) (ns : List α) (hpar : par ≠ .nObs)
    (hn : cfg.nObs = some ns) : nList cfg cnt par = ns.map some := by
  cases par <;> simp_all [nList]

theorem nList_default (cfg : Cfg α) (cnt : α) (par : Param) (hpar : par ≠ .nObs) (hn : cfg.nObs = none) :
    nList cfg cnt par = [some cnt] := by
  cases par <;> simp_all [nList]

/-- it raises exactly when an effect size is needed and none is configured -/
theorem raises_iff (cfg : Cfg α) (mm cnt : α) (par : Param) (solve : Cell α → α) :
    solvePower cfg mm cnt par solve = none ↔
      (par.solvesEffect = false ∧ cfg.effect = none ∧ cfg.rel = none) := by
  unfold solvePower cells effectPairs
  cases hpar : par.solvesEffect <;> cases he : cfg.effect <;> cases hr : cfg.rel <;> simp

/-! ## absolute = relative × (adjusted) mean, in every row -/

/-- the pairs handed to the solver are related by the mean -/
theorem pairs_related (cfg : Cfg α) (mm : α) (par : Param) (hmm : mm ≠ 0)
    (ps : List (Option α × Option α)) (hps : effectPairs cfg mm par = some ps) :
    ∀ p ∈ ps, (p = (none, none)) ∨ ∃ e r, p = (some e, some r) ∧ e = r * mm := by
  unfold effectPairs at hps
  split_ifs at hps with hpar
  · obtain rfl := Option.some.inj hps
    intro p hp; left; simpa using hp
  · cases he : cfg.effect <;> cases hr : cfg.rel <;> simp only [he, hr] at hps
    · exact absurd hps (by simp)
    · obtain rfl := Option.some.inj hps
      intro p hp
      obtain ⟨r, _, rfl⟩ := List.mem_map.mp hp
      exact Or.inr ⟨r * mm, r, rfl, rfl⟩
    · obtain rfl := Option.some.inj hps
      intro p hp
      obtain ⟨e, _, rfl⟩ := List.mem_map.mp hp
      exact Or.inr ⟨e, e / mm, rfl, by field_simp⟩
    · obtain rfl := Option.some.inj hps
      intro p hp
      obtain ⟨r, _, rfl⟩ := List.mem_map.mp hp
      exact Or.inr ⟨r * mm, r, rfl, rfl⟩

/-- **in every output row `effect_size = rel_effect_size × mean`** — for given absolute effects,
given relative effects and solved effects alike (`mean ≠ 0`) -/
theorem abs_rel_related (cfg : Cfg α) (mm cnt : α) (par : Param) (solve : Cell α → α) (hmm : mm ≠ 0)
    (rows : List (Row α)) (hrows : solvePower cfg mm cnt par solve = some rows) :
    ∀ r ∈ rows, ∃ e q, r.effect = some e ∧ r.rel = some q ∧ e = q * mm := by
  unfold solvePower cells at hrows
  cases hps : effectPairs cfg mm par with
  | none => simp [hps] at hrows
  | some ps =>
    simp only [hps, Option.map_some, Option.some.injEq] at hrows
    subst hrows
    intro r hr
    obtain ⟨c, hc, rfl⟩ := List.mem_map.mp hr
    obtain ⟨p, hp, hc⟩ := List.mem_flatMap.mp hc
    obtain ⟨n, _, rfl⟩ := List.mem_map.mp hc
    by_cases hpar : par.solvesEffect = true
    · refine ⟨solve (p.1, p.2, n), solve (p.1, p.2, n) / mm, by simp [row, hpar], by simp [row, hpar], ?_⟩
      field_simp
    · have hpar' : par.solvesEffect = false := by simpa using hpar
      rcases pairs_related cfg mm par hmm ps hps p hp with hnone | ⟨e, q, rfl, heq⟩
      · -- the (none, none) pair only occurs when the effect is solved for
        exfalso
        unfold effectPairs at hps
        simp only [hpar'] at hps
        cases he : cfg.effect <;> cases hr' : cfg.rel <;> simp only [he, hr'] at hps
        · exact absurd hps (by simp)
        all_goals
          obtain rfl := Option.some.inj hps
          obtain ⟨_, _, h⟩ := List.mem_map.mp hp
          rw [hnone] at h
          exact absurd (congrArg Prod.fst h) (by simp)
      · exact ⟨e, q, by simp [row, hpar'], by simp [row, hpar'], heq⟩

/-! ## only the solved quantity is replaced -/

/-- the row keeps the configured power unless power is solved for, the cell's sample size unless
n_obs is solved for, and the cell's effect sizes unless an effect size is solved for -/
theorem row_keeps_inputs (cfg : Cfg α) (mm : α) (par : Param) (c : Cell α) (v : α) :
    (par ≠ .power → (row cfg mm par c v).power = some cfg.power) ∧
    (par ≠ .nObs → (row cfg mm par c v).nObs = c.2.2) ∧
    (par.solvesEffect = false → (row cfg mm par c v).effect = c.1 ∧ (row cfg mm par c v).rel = c.2.1) := by
  refine ⟨fun h => by simp [row, h], fun h => by simp [row, h], fun h => by simp [row, h]⟩

/-- the solved sample size is reported rounded UP: the least integer not below the root -/
theorem row_n_is_ceil (cfg : Cfg α) (mm : α) (c : Cell α) (v : α) :
    ∃ z : ℤ, (row cfg mm .nObs c v).nObs = some (z : α) ∧ v ≤ (z : α) ∧ (z : α) < v + 1 :=
  ⟨Int.ceil v, by simp [row], Int.le_ceil v, Int.ceil_lt_add_one v⟩

/-- non-vacuity: two relative effects × two sample sizes over ℚ, solving for power -/
example :
    let cfg : Cfg ℚ := { effect := none, rel := some [1/10, 1/20], nObs := some [100, 200], power := 4/5 }
    (solvePower cfg 3 50 .power (fun _ => 1/2)).map (fun rows => rows.map (fun r => (r.effect, r.nObs))) =
      some [(some (3/10), some 100), (some (3/10), some 200), (some (3/20), some 100), (some (3/20), some 200)] := by
  decide +kernel

end C09
