import TeaTasting.Props.C12

/-! # C12, continued — an entry of an experiment equals the metric analysed alone

`Props/C12.lean` proves the parts: the documented pairs, `merge_superset` (the single backend
request covers what every metric declares) and `analysis_frame` (a Mean / RatioOfMeans result is a
function of the statistics the metric declares).  This file composes them over a model of
`Experiment.analyze` for aggregated metrics:

* one read of the MERGED request per variant, every metric analysed on those shared aggregates,
  for every pair, in metric order;
* `entry_eq_standalone`: the entry of metric `m` for pair `p` equals `m` analysed on its OWN read
  of the same data and pair — for any backend whose answer to a request does not depend on what
  else was requested with it (`ReadsExact`; this is what C01 proves of the three pipelines: every
  requested statistic is the exact sample statistic of the variant's rows);
* `entry_indep_of_others`: hence an entry does not depend on which other metrics or which other
  variants / pairs are present; `order_preserved`: metric order and pair order are the inputs';
* `ratio_frame`: Mean / RatioOfMeans (GENERATED analysis) with pairwise different role columns are
  such metrics. -/

open Experiment Gen

set_option linter.unusedSectionVars false

namespace C12

variable {α : Type} [Field α] [LinearOrder α] [IsStrictOrderedRing α]
variable {κ ρ : Type}

/-- two `Aggregates` hold the same values for everything `c` requests (covariances under their
sorted key, as `Aggregates` stores them) -/
def AgreeCols (c : AggrCols) (a a' : Aggr α) : Prop :=
  (c.has_count = true → a.count_ = a'.count_) ∧
  (∀ x ∈ c.mean_cols, a.mean_ x = a'.mean_ x) ∧
  (∀ x ∈ c.var_cols, a.var_ x = a'.var_ x) ∧
  (∀ p ∈ c.cov_cols, a.cov_ (sortedPair p).1 (sortedPair p).2 = a'.cov_ (sortedPair p).1 (sortedPair p).2)

/-- an aggregated metric as the experiment sees it: what it declares, what it computes -/
structure AMetric (α ρ : Type) where
  cols : AggrCols
  analyze : Aggr α → Aggr α → ρ

/-- the metric reads only what it declares -/
def Frame (m : AMetric α ρ) : Prop :=
  ∀ a a' b b', AgreeCols m.cols a a' → AgreeCols m.cols b b' → m.analyze a b = m.analyze a' b'

/-- the backend's answer for a requested statistic does not depend on what else is requested with it -/
def ReadsExact (read : AggrCols → κ → Aggr α) : Prop :=
  ∀ req req' v, Covers req' req → AgreeCols req (read req' v) (read req v)

/-- the merged request of a list of aggregated metrics -/
def mergedOf (ms : List (String × AMetric α ρ)) : AggrCols :=
  mergedAggr (ms.map (fun m => (m.1, MetricKind.aggregated m.2.cols)))

/-- `Experiment.analyze` for aggregated metrics: ONE read of the merged request per variant, then
every metric on the shared aggregates, for every pair -/
def experimentAnalyze (read : AggrCols → κ → Aggr α) (ms : List (String × AMetric α ρ))
    (ps : List (κ × κ)) : List ((κ × κ) × List (String × ρ)) :=
  ps.map (fun p => (p, ms.map (fun m => (m.1, m.2.analyze (read (mergedOf ms) p.1) (read (mergedOf ms) p.2)))))

/-- each metric analysed alone: its own read of its own request -/
def standalone (read : AggrCols → κ → Aggr α) (m : AMetric α ρ) (p : κ × κ) : ρ :=
  m.analyze (read m.cols p.1) (read m.cols p.2)

theorem covers_mergedOf (ms : List (String × AMetric α ρ)) (m : String × AMetric α ρ) (hm : m ∈ ms) :
    Covers (mergedOf ms) m.2.cols := by
  apply merge_superset (ms.map (fun m => (m.1, MetricKind.aggregated m.2.cols)))
    (m.1, MetricKind.aggregated m.2.cols) (List.mem_map.mpr ⟨m, hm, rfl⟩) m.2.cols rfl

/-- **each metric's entry equals what that metric returns when analysed alone on the same data
and pair** — every pair, every metric, any number of other metrics -/
theorem entry_eq_standalone (read : AggrCols → κ → Aggr α) (hread : ReadsExact read)
    (ms : List (String × AMetric α ρ)) (hframe : ∀ m ∈ ms, Frame m.2) (ps : List (κ × κ)) :
    experimentAnalyze read ms ps =
      ps.map (fun p => (p, ms.map (fun m => (m.1, standalone read m.2 p)))) := by
  unfold experimentAnalyze standalone
  apply List.map_congr_left
  intro p _
  congr 1
  apply List.map_congr_left
  intro m hm
  congr 1
  exact hframe m hm _ _ _ _ (hread _ _ _ (covers_mergedOf ms m hm)) (hread _ _ _ (covers_mergedOf ms m hm))

/-- **an entry never depends on which other metrics or other variants are present**: the same
metric and pair inside two different experiments (other metrics, other pairs, other order) -/
theorem entry_indep_of_others (read : AggrCols → κ → Aggr α) (hread : ReadsExact read)
    (ms ms' : List (String × AMetric α ρ)) (m : String × AMetric α ρ) (hm : m ∈ ms) (hm' : m ∈ ms')
    (hf : Frame m.2) (p : κ × κ) :
    m.2.analyze (read (mergedOf ms) p.1) (read (mergedOf ms) p.2) =
      m.2.analyze (read (mergedOf ms') p.1) (read (mergedOf ms') p.2) := by
  rw [hf _ _ _ _ (hread _ _ _ (covers_mergedOf ms m hm)) (hread _ _ _ (covers_mergedOf ms m hm)),
    hf _ _ _ _ (hread _ _ _ (covers_mergedOf ms' m hm')) (hread _ _ _ (covers_mergedOf ms' m hm'))]

/-- **pair order and metric order are preserved** -/
theorem order_preserved (read : AggrCols → κ → Aggr α) (ms : List (String × AMetric α ρ)) (ps : List (κ × κ)) :
    (experimentAnalyze read ms ps).map Prod.fst = ps ∧
    ∀ e ∈ experimentAnalyze read ms ps, e.2.map Prod.fst = ms.map Prod.fst := by
  refine ⟨by simp [experimentAnalyze, List.map_map, Function.comp_def], ?_⟩
  intro e he
  obtain ⟨p, _, rfl⟩ := List.mem_map.mp he
  simp [List.map_map, Function.comp_def]

/-! ## Mean / RatioOfMeans are such metrics -/

theorem sortedTuple_eq_sortedPair (x y : String) : sortedTuple x y = sortedPair (x, y) := by
  unfold sortedTuple sortedPair; rfl

theorem mem_ratio_cov_cols (rs : List (Option String)) (x y : String) (hx : some x ∈ rs) (hy : some y ∈ rs)
    (hxy : x < y) : (x, y) ∈ (ratioAggrCols rs).cov_cols := by
  simp only [ratioAggrCols, List.mem_flatMap, List.mem_map, List.mem_filter, List.mem_filterMap, id,
    decide_eq_true_eq]
  exact ⟨x, ⟨some x, hx, rfl⟩, y, ⟨⟨some y, hy, rfl⟩, hxy⟩, rfl⟩

/-- agreement on what `RatioOfMeans.aggr_cols` declares is agreement on what the analysis reads -/
theorem agreeOn_of_agreeCols (cfg : RatioCfg α) (a a' : Aggr α)
    (h : AgreeCols (ratioAggrCols (roles cfg)) a a') : AgreeOn cfg a a' := by
  obtain ⟨hc, hm, hv, hcov⟩ := h
  have memcols : ∀ x, some x ∈ roles cfg → x ∈ (ratioAggrCols (roles cfg)).mean_cols := by
    intro x hx
    simp only [ratioAggrCols, List.mem_filterMap, id]
    exact ⟨some x, hx, rfl⟩
  refine ⟨hc rfl, ?_, ?_, ?_⟩
  · intro o ho
    cases o with
    | none => rfl
    | some x => exact hm x (memcols x ho)
  · intro o ho
    cases o with
    | none => rfl
    | some x => exact hv x (memcols x ho)
  · intro o₁ h1 o₂ h2 hne
    cases o₁ with
    | none => rw [cov_none_left, cov_none_left]
    | some x =>
      cases o₂ with
      | none => rfl
      | some y =>
        have hxy : x ≠ y := fun e => hne (by rw [e])
        show (fun t => a.cov_ t.1 t.2) (sortedTuple x y) = (fun t => a'.cov_ t.1 t.2) (sortedTuple x y)
        rcases lt_or_gt_of_ne hxy with hlt | hgt
        · have := hcov (x, y) (mem_ratio_cov_cols _ x y h1 h2 hlt)
          rw [sortedTuple_eq_sortedPair]
          exact this
        · have := hcov (y, x) (mem_ratio_cov_cols _ y x h2 h1 hgt)
          have e : sortedTuple x y = sortedPair (y, x) := by
            unfold sortedTuple sortedPair
            simp [hgt, lt_asymm hgt]
          rw [e]
          exact this

/-- a Mean / RatioOfMeans metric as an `AMetric`: declares `aggr_cols`, computes the GENERATED
`analyze_aggregates` -/
def ratioMetric (P : Prims α) (cfg : RatioCfg α) : AMetric α (MeanResult α) :=
  { cols := ratioAggrCols (roles cfg), analyze := RatioOfMeans.analyze_aggregates P cfg }

/-- **Mean / RatioOfMeans read only what they declare** (pairwise different role columns) -/
theorem ratio_frame (P : Prims α) (cfg : RatioCfg α) (hd : DistinctRoles cfg) : Frame (ratioMetric P cfg) := by
  intro a a' b b' ha hb
  exact analysis_frame P cfg hd a a' b b' (agreeOn_of_agreeCols cfg a a' ha) (agreeOn_of_agreeCols cfg b b' hb)

/-- the composed statement for the built-in metrics: inside any experiment made of Mean /
RatioOfMeans metrics with pairwise different role columns, every entry is the stand-alone result -/
theorem ratio_entries_eq_standalone (P : Prims α) (read : AggrCols → κ → Aggr α) (hread : ReadsExact read)
    (cfgs : List (String × RatioCfg α)) (hd : ∀ c ∈ cfgs, DistinctRoles c.2) (ps : List (κ × κ)) :
    experimentAnalyze read (cfgs.map (fun c => (c.1, ratioMetric P c.2))) ps =
      ps.map (fun p => (p, cfgs.map (fun c => (c.1, standalone read (ratioMetric P c.2) p)))) := by
  rw [entry_eq_standalone read hread _ _ ps]
  · simp [List.map_map, Function.comp_def]
  · intro m hm
    obtain ⟨c, hc, rfl⟩ := List.mem_map.mp hm
    exact ratio_frame P c.2 (hd c hc)

/-- a backend whose answer holds, for every requested name, a value determined by the data alone
(variant and column names) — with `cnt`, `mean`, `var`, `cov` the sample statistics of the variant's
rows this is exactly what `C01.all_pipelines_eq_stats` proves of each of the three pipelines (`IsStats`) -/
def AnswersFrom (read : AggrCols → κ → Aggr α) (cnt : κ → α) (mean var : κ → String → α)
    (cov : κ → String → String → α) : Prop :=
  ∀ req v, (req.has_count = true → (read req v).count_ = cnt v) ∧
    (∀ x ∈ req.mean_cols, (read req v).mean_ x = mean v x) ∧
    (∀ x ∈ req.var_cols, (read req v).var_ x = var v x) ∧
    (∀ p ∈ req.cov_cols, (read req v).cov_ (sortedPair p).1 (sortedPair p).2 = cov v (sortedPair p).1 (sortedPair p).2)

/-- **a backend that answers with the statistics of the data is `ReadsExact`**: what it returns for
a requested statistic cannot depend on what else was requested -/
theorem readsExact_of_answersFrom (read : AggrCols → κ → Aggr α) (cnt : κ → α) (mean var : κ → String → α)
    (cov : κ → String → String → α) (h : AnswersFrom read cnt mean var cov) : ReadsExact read := by
  intro req req' v hcov
  obtain ⟨c1, c2, c3, c4⟩ := hcov
  obtain ⟨a1, a2, a3, a4⟩ := h req v
  obtain ⟨b1, b2, b3, b4⟩ := h req' v
  refine ⟨fun hc => by rw [a1 hc, b1 (c1 hc)], fun x hx => by rw [a2 x hx, b2 x (c2 x hx)],
    fun x hx => by rw [a3 x hx, b3 x (c3 x hx)], fun p hp => ?_⟩
  have := b4 (sortedPair p) (c4 p hp)
  rw [sortedPair_idem] at this
  rw [a4 p hp, this]

/-- the composed statement on such a backend: every entry of an experiment of Mean / RatioOfMeans
metrics is the metric analysed alone -/
theorem ratio_entries_eq_standalone_on_exact_backend (P : Prims α) (read : AggrCols → κ → Aggr α)
    (cnt : κ → α) (mean var : κ → String → α) (cov : κ → String → String → α)
    (h : AnswersFrom read cnt mean var cov)
    (cfgs : List (String × RatioCfg α)) (hd : ∀ c ∈ cfgs, DistinctRoles c.2) (ps : List (κ × κ)) :
    experimentAnalyze read (cfgs.map (fun c => (c.1, ratioMetric P c.2))) ps =
      ps.map (fun p => (p, cfgs.map (fun c => (c.1, standalone read (ratioMetric P c.2) p)))) :=
  ratio_entries_eq_standalone P read (readsExact_of_answersFrom read cnt mean var cov h) cfgs hd ps

/-- non-vacuity of `ReadsExact`: a backend that answers every request from one fixed table of
statistics (what C01 proves the pipelines do: the sample statistics of the variant's rows) -/
example (stats : κ → Aggr α) : ReadsExact (fun (_ : AggrCols) v => stats v) :=
  fun _ _ _ _ => ⟨fun _ => rfl, fun _ _ => rfl, fun _ _ => rfl, fun _ _ => rfl⟩

end C12
