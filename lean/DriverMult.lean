import TeaTasting.Driver.Proto
import TeaTasting.Driver.Stubs
import TeaTasting.Model.Multiplicity
import TeaTasting.Model.Family

/-! Driver for the multiple-testing loops: hand-written loops of `Model/Multiplicity.lean` over the
GENERATED `adjust` functions, at `ℚ`.  `rpowQ x y` is `x ^ y` for a natural exponent (what Python
computes exactly on Fractions); for any other exponent the value is the poison constant (the
harness compares those fields in floating point against its own evaluation). -/

open Proto Mult Gen

def rpowQ (x y : ℚ) : ℚ := if y.den = 1 ∧ 0 ≤ y.num then x ^ y.num.toNat else poison

def showOuts (l : List (Out ℚ)) : String :=
  " ".intercalate (l.map (fun o => s!"{showRat o.pvalue_adj} {showRat o.alpha_adj} {if o.null_rejected then 1 else 0}"))

def handler (cmd : String) : P String := do
  match cmd with
  | "fdr" =>
    let a ← rat
    let dep ← bool
    let ps ← list rat
    pure (showOuts (runStepup (Benjamini.adjust (Benjamini.mk a ps.length dep)) ps))
  | "fwer" =>
    let a ← rat
    let dep ← bool
    let meth ← str
    let ps ← list rat
    let cfg : FwerCfg ℚ := { alpha := a, m := (ps.length : ℚ) }
    let adj := if meth = "sidak" then Sidak.adjust rpowQ cfg else Bonferroni.adjust cfg
    pure (showOuts (if dep then runStepdown adj ps else runStepup adj ps))
  | "family" =>
    -- `family <sel: - | k name…> <n experiments> {<experiment> <k> {<metric> <pvalue>}…}…`:
    -- the family of `_copy_results` (experiment:metric:pvalue in iteration order) and, after `|`, the
    -- structure the positions 0,1,2,… are written back to
    let sel ← (do
      match (← get) with
      | "-" :: ts => set ts; pure (none : Option (List String))
      | _ => let l ← list str; pure (some l))
    let exps ← list (do
      let e ← str
      let ms ← list (do let m ← str; let p ← rat; pure (m, p))
      pure (e, ms))
    let fam := Family.family sel exps
    let back := Family.adjustAll sel exps (fun l => List.range l.length)
    let famS := " ".intercalate (fam.map (fun x => s!"{x.1}={showRat x.2}"))
    let backS := " ".intercalate (back.map (fun e => s!"{e.1}[" ++ ",".intercalate (e.2.map (fun m => s!"{m.1}:{m.2}")) ++ "]"))
    pure (s!"{fam.length} {famS} | {backS}")
  | _ => throw s!"unknown command {cmd}"

def main : IO Unit := do loop handler (← IO.getStdin)
