import TeaTasting.Driver.PyWire
import TeaTasting.Spec.Domains

/-! Driver for the documented parameter domains (specification side of C19; nothing generated). -/

open Proto PyWire

def handler (cmd : String) : P String := do
  match cmd with
  | "domain" =>
    let name ← str
    let v ← pyval
    pure (if decide (C19.inDomain name v) then "in" else "out")
  | "kind" =>
    let k ← str
    let v ← pyval
    match k with
    | "finiteNonzero" => pure (if decide (C19.finiteNonzero v) then "in" else "out")
    | "unitClosed" => pure (if decide (C19.unitClosed v) then "in" else "out")
    | "posNumber" => pure (if decide (C19.posNumber v) then "in" else "out")
    | "isBool" => pure (if decide (C19.isBool v) then "in" else "out")
    | "isStr" => pure (match v with | .str _ => "in" | _ => "out")
    | "strOrNone" => pure (match v with | .str _ => "in" | .none => "in" | _ => "out")
    | _ => throw s!"unknown kind {k}"
  | "oneOf" =>
    let opts ← list str
    let v ← pyval
    pure (if decide (C19.oneOf opts v) then "in" else "out")
  | _ => throw s!"unknown command {cmd}"

def main : IO Unit := do loop handler (← IO.getStdin)
