import TeaTasting.Driver.Proto
import TeaTasting.Model.Query
import TeaTasting.Spec.Fast

/-! Driver for the query algebra: prints the pipelines the model builds (canonical text, to be
compared with the captured real pipelines), evaluates ANY query in canonical text on a rational
table, and prints the specification (sample statistics per group). -/

open Proto Query

def nameWire : Name → String
  | .user s => s!"U:{s}"
  | .count => "C"
  | .mean c => s!"M:{c}"
  | .var c => s!"V:{c}"
  | .cov a b => s!"K:{a}:{b}"
  | .demean c => s!"D:{c}"
  | .gmean c => s!"G:{c}"

def parseName (t : String) : Option Name :=
  match t.splitOn ":" with
  | ["U", s] => some (.user s)
  | ["C"] => some .count
  | ["M", c] => some (.mean c)
  | ["V", c] => some (.var c)
  | ["K", a, b] => some (.cov a b)
  | ["D", c] => some (.demean c)
  | ["G", c] => some (.gmean c)
  | _ => none

partial def exprWire : Expr → String
  | .col n => s!"col {nameWire n}"
  | .lit q => s!"lit {q}"
  | .len => "len"
  | .countStar => "countstar"
  | .cast e => s!"cast {exprWire e}"
  | .mean e => s!"mean {exprWire e}"
  | .sum e => s!"sum {exprWire e}"
  | .varSample e => s!"varS {exprWire e}"
  | .varPop e => s!"varP {exprWire e}"
  | .covSample e f => s!"covS {exprWire e} {exprWire f}"
  | .covPop e f => s!"covP {exprWire e} {exprWire f}"
  | .sub a b => s!"sub {exprWire a} {exprWire b}"
  | .mul a b => s!"mul {exprWire a} {exprWire b}"
  | .div a b => s!"div {exprWire a} {exprWire b}"
  | .over e => s!"over {exprWire e}"

def sortDefs (defs : List (Name × Expr)) : List (Name × Expr) :=
  (defs.toArray.qsort (fun a b => nameWire a.1 < nameWire b.1)).toList

def stageWire : Stage → String
  | .withColumns defs => s!"W {defs.length} " ++ " ".intercalate ((sortDefs defs).map (fun d => nameWire d.1 ++ " " ++ exprWire d.2))
  | .joinGroup defs => s!"J {defs.length} " ++ " ".intercalate ((sortDefs defs).map (fun d => nameWire d.1 ++ " " ++ exprWire d.2))
  | .aggregate g defs => s!"A {if g then 1 else 0} {defs.length} "
      ++ " ".intercalate ((sortDefs defs).map (fun d => nameWire d.1 ++ " " ++ exprWire d.2))

def queryWire (q : Q) : String := s!"{q.length} " ++ " ".intercalate (q.map stageWire)

partial def pExpr : P Expr := do
  let t ← tok
  match t with
  | "col" => do
    let n ← tok
    match parseName n with
    | some nm => pure (.col nm)
    | none => throw s!"bad name {n}"
  | "lit" => pure (.lit (← int))
  | "len" => pure .len
  | "countstar" => pure .countStar
  | "cast" => pure (.cast (← pExpr))
  | "mean" => pure (.mean (← pExpr))
  | "sum" => pure (.sum (← pExpr))
  | "varS" => pure (.varSample (← pExpr))
  | "varP" => pure (.varPop (← pExpr))
  | "covS" => do let a ← pExpr; let b ← pExpr; pure (.covSample a b)
  | "covP" => do let a ← pExpr; let b ← pExpr; pure (.covPop a b)
  | "sub" => do let a ← pExpr; let b ← pExpr; pure (.sub a b)
  | "mul" => do let a ← pExpr; let b ← pExpr; pure (.mul a b)
  | "div" => do let a ← pExpr; let b ← pExpr; pure (.div a b)
  | "over" => pure (.over (← pExpr))
  | _ => throw s!"bad expr token {t}"

def pDef : P (Name × Expr) := do
  let n ← tok
  match parseName n with
  | some nm => do let e ← pExpr; pure (nm, e)
  | none => throw s!"bad def name {n}"

def pStage : P Stage := do
  let t ← tok
  match t with
  | "W" => do let k ← nat; pure (.withColumns (← many k pDef))
  | "J" => do let k ← nat; pure (.joinGroup (← many k pDef))
  | "A" => do let g ← bool; let k ← nat; pure (.aggregate g (← many k pDef))
  | _ => throw s!"bad stage {t}"

def pQuery : P Q := do let n ← nat; many n pStage

def pSpec : P ColSpec := do
  let hc ← bool
  let m ← list str
  let v ← list str
  let c ← list (do let a ← str; let b ← str; pure (a, b))
  pure { has_count := hc, mean_cols := m, var_cols := v, cov_cols := c }

/-- table on the wire: column names, then rows `key v₁ … v_k` -/
def pTable : P (List String × List (Row Int ℚ)) := do
  let names ← list str
  let nrows ← nat
  let rows ← many nrows (do
    let k ← int
    let vs ← many names.length rat
    pure ({ key := k, val := fun n => match n with
                                      | .user s => lookup names vs s
                                      | _ => poison } : Row Int ℚ))
  pure (names, rows)

def outNames (s : ColSpec) : List Name :=
  (if s.has_count then [Name.count] else []) ++ s.mean_cols.map Name.mean ++ s.var_cols.map Name.var
    ++ s.cov_cols.map (fun p => Name.cov p.1 p.2)

def showRows (s : ColSpec) (rows : List (Row Int ℚ)) : String :=
  let sorted := (rows.toArray.qsort (fun a b => a.key < b.key)).toList
  ";".intercalate (sorted.map (fun r => s!"{r.key}|" ++ " ".intercalate ((outNames s).map (fun n => showRat (r.val n)))))

/-- the specification: per group (or for the whole table) the exact sample statistics -/
def specRows (grouped : Bool) (_s : ColSpec) (T : List (Row Int ℚ)) : List (Row Int ℚ) :=
  let groups : List (Int × List (Row Int ℚ)) :=
    if grouped then ((T.map (·.key)).dedup).map (fun k => (k, T.filter (fun r => r.key = k))) else [(0, T)]
  groups.map (fun g =>
    let a := Spec.aggrOfExec g.2 (fun c r => r.val (.user c))
    { key := g.1, val := fun n => match n with
        | .count => a.count_
        | .mean c => a.mean_ c
        | .var c => a.var_ c
        | .cov x y => a.cov_ x y
        | _ => poison })

def handler (cmd : String) : P String := do
  match cmd with
  | "build" =>
    let kind ← str
    let g ← bool
    let s := validate (← pSpec)
    let q := match kind with
      | "nw" => nwQuery g s
      | "native" => ibisNativeQuery g s
      | _ => ibisFallbackQuery g s
    pure (queryWire q)
  | "evalq" =>
    let s := validate (← pSpec)
    let q ← pQuery
    let (_, T) ← pTable
    pure (showRows s (eval q T))
  | "specq" =>
    let g ← bool
    let s := validate (← pSpec)
    let (_, T) ← pTable
    pure (showRows s (specRows g s T))
  | _ => throw s!"unknown command {cmd}"

def main : IO Unit := do loop handler (← IO.getStdin)
