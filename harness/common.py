"""Shared machinery of the checks: regenerate + build + audit + drivers + verdict + evidence.

Decision procedure of a check (DESIGN.md section 2): regenerate Gen/*.lean from the current
source, rebuild the property's theorems, audit axioms, run the correspondence between model and
code, search the real code for a failing input, decide.
"""
from __future__ import annotations

import fcntl
import hashlib
import json
import os
import random
import re
import shutil
import subprocess
import sys
import time
from fractions import Fraction as F
from pathlib import Path

VERIF = Path(__file__).resolve().parent.parent
# VERIF_LEAN / VERIF_OUT: developer facility for trying MANY changed trees in parallel (harness/seedpool.py): each
# worker checks its own scratch worktree (VERIF_REPO) against its own copy of the Lean project and writes its replays
# to its own directory.  The registered commands never set them: they use /verif/lean and /verif/replays.
LEAN = Path(os.environ.get("VERIF_LEAN") or (VERIF / "lean"))
REPLAYS = Path(os.environ.get("VERIF_OUT") or (VERIF / "replays"))
GEN = LEAN / "TeaTasting" / "Gen"
SNAP = LEAN / "GenSnapshot"
REPO = Path(os.environ.get("VERIF_REPO", "/repo"))
SRC = REPO / "src" / "tea_tasting"
ALLOWED_AXIOMS = {"propext", "Classical.choice", "Quot.sound"}
FORBIDDEN = re.compile(r"\bsorry\b|\badmit\b|^axiom |native_decide|bv_decide|implemented_by|unsafe |maxHeartbeats 0")

sys.path.insert(0, str(REPO / "src"))
sys.path.insert(0, str(VERIF / "harness" / "shims"))
sys.path.insert(0, str(VERIF / "harness"))


def seed() -> int:
    try:
        return int(os.environ.get("VERIF_SEED", "0"))
    except ValueError:
        return 0


def tier() -> str:
    t = os.environ.get("VERIF_TIER", "quick")
    return t if t in ("quick", "thorough") else "quick"


class Lock:
    """Serialises regenerate/build across concurrently running checks."""

    def __enter__(self):
        self.f = open(LEAN / ".verif.lock", "w")
        fcntl.flock(self.f, fcntl.LOCK_EX)
        return self

    def __exit__(self, *a):
        fcntl.flock(self.f, fcntl.LOCK_UN)
        self.f.close()


# generated modules that duplicate a complete hand-written executable model (proved equal to it in Props/*Gen.lean):
# module -> the model and the correspondence that ties it to the code when the translator refuses the source
DOUBLY_TIED = {
    "MultLoops": "Model/Multiplicity.lean (exact correspondence of runStepup / runStepdown with adjust_fdr / adjust_fwer)",
    "Pairs": "Model/Experiment.lean `pairs` / `analyzePairs` (correspondence of pairs and raise-or-not with Experiment.analyze)",
}

# ------------------------------------------------------------------------------ translator
def regenerate(modules: list[str] | None = None) -> dict:
    """Regenerate Gen/*.lean from the current source.  A generated module whose source the translator refuses falls
    back to its snapshot and is listed in info["refused"]: theorems that depend on it are then re-checked against the
    OLD model, so `Check.prove` reports the tie of those properties as broken."""
    import translate
    info = {"tie": "translator", "changed_vs_snapshot": [], "reason": None, "refused": {}}
    snap_files = {p.stem: p.read_text() for p in SNAP.glob("*.lean")}
    try:
        refused: dict[str, str] = {}
        files = translate.generate(SRC, refused)
        for mod, why in refused.items():
            files[mod] = snap_files[mod]
        if refused:
            info["tie"] = "partial-snapshot"
            info["refused"] = refused
            info["reason"] = "; ".join(f"{m}: {w}" for m, w in refused.items())
    except (SyntaxError, OSError, KeyError) as ex:
        info["tie"] = "snapshot"
        info["reason"] = f"source unreadable: {ex}"
        info["refused"] = {m: str(ex) for m in snap_files}
        files = snap_files
    for mod, text in files.items():
        translate.write_if_changed(GEN / f"{mod}.lean", text)
        snap = SNAP / f"{mod}.lean"
        if not snap.exists() or snap.read_text() != text:
            info["changed_vs_snapshot"].append(mod)
    info["sha"] = {m: hashlib.sha256(t.encode()).hexdigest()[:12] for m, t in files.items()}
    return info


def gen_dependencies(prop: str) -> set[str]:
    """names of the generated modules in the import closure of Props/<prop>.lean"""
    seen, todo, gens = set(), [f"TeaTasting.Props.{m}" for m in prop_modules(prop)], set()
    while todo:
        mod = todo.pop()
        if mod in seen:
            continue
        seen.add(mod)
        path = LEAN / (mod.replace(".", "/") + ".lean")
        if not path.exists():
            continue
        for m in re.findall(r"^import (TeaTasting\.\S+)", path.read_text(), flags=re.M):
            if m.startswith("TeaTasting.Gen."):
                gens.add(m.split(".")[-1])
            todo.append(m)
    return gens


def use_snapshot() -> None:
    import translate
    for p in SNAP.glob("*.lean"):
        translate.write_if_changed(GEN / p.name, p.read_text())


# ------------------------------------------------------------------------------ lake / lean
def run(cmd: list[str], cwd: Path = LEAN, timeout: int = 1800, inp: str | None = None) -> tuple[int, str]:
    p = subprocess.run(cmd, cwd=cwd, input=inp, capture_output=True, text=True, timeout=timeout)
    return p.returncode, p.stdout + p.stderr


def lake_build(targets: list[str]) -> tuple[bool, str]:
    rc, out = run(["lake", "build", *targets])
    return rc == 0, out


def prop_modules(prop: str) -> list[str]:
    """Props/<prop>.lean and its companion files Props/<prop><Suffix>.lean (same property, split for size or because
    a companion needs Mathlib modules that cannot be imported together with the model prelude)."""
    d = LEAN / "TeaTasting" / "Props"
    return [prop] + sorted(p.stem for p in d.glob(f"{prop}[A-Z]*.lean"))


def theorems_in(module: str) -> list[tuple[str, int]]:
    """(qualified name, line) of every theorem in Props/<module>.lean."""
    text = (LEAN / "TeaTasting" / "Props" / f"{module}.lean").read_text().splitlines()
    ns: list[str] = []
    out = []
    for i, line in enumerate(text, 1):
        m = re.match(r"^namespace (\S+)", line)
        if m:
            ns.append(m.group(1))
        m = re.match(r"^end (\S+)", line)
        if m and ns and ns[-1] == m.group(1):
            ns.pop()
        m = re.match(r"^(?:@\[[^\]]*\]\s*)?(?:private\s+|protected\s+)?theorem (\S+)", line)
        if m:
            out.append((".".join(ns + [m.group(1)]), i))
    return out


def theorems_of(prop: str) -> list[tuple[str, int]]:
    """every theorem of the property: main file and companions"""
    return [t for mod in prop_modules(prop) for t in theorems_in(mod)]


def failing_theorems(prop: str, build_out: str) -> list[str]:
    """Map `Props/<module>.lean:<line>` error locations to the enclosing theorem."""
    bad = set()
    for mod in prop_modules(prop):
        ths = theorems_in(mod)
        for m in re.finditer(rf"error: (?:\S*/)?Props/{mod}\.lean:(\d+):", build_out):
            line = int(m.group(1))
            cur = None
            for name, ln in ths:
                if ln <= line:
                    cur = name
            bad.add(cur or f"{mod} line {line}")
    return sorted(bad)


def audit(prop: str) -> dict:
    """`#print axioms` of every theorem of the property (one audit file per Props module), plus the forbidden-token
    scan."""
    ths = [n for n, _ in theorems_of(prop)]
    axioms: dict[str, list[str]] = {}
    rc = 0
    for mod in prop_modules(prop):
        path = LEAN / "TeaTasting" / "Audit" / f"{mod}.lean"
        text = f"import TeaTasting.Props.{mod}\n" + "".join(f"#print axioms {n}\n" for n, _ in theorems_in(mod))
        path.parent.mkdir(exist_ok=True)
        if not path.exists() or path.read_text() != text:
            path.write_text(text)
        rc1, out = run(["lake", "env", "lean", str(path.relative_to(LEAN))])
        rc = rc or rc1
        for m in re.finditer(r"'([^']+)' depends on axioms: \[([^\]]*)\]", out.replace("\n", " ")):
            axioms[m.group(1)] = [a.strip() for a in m.group(2).split(",") if a.strip()]
        for m in re.finditer(r"'([^']+)' does not depend on any axioms", out):
            axioms[m.group(1)] = []
    bad = {n: a for n, a in axioms.items() if not set(a) <= ALLOWED_AXIOMS}
    missing = [n for n in ths if n not in axioms]
    hits = []
    for p in sorted((LEAN / "TeaTasting").rglob("*.lean")):
        if "Audit" in p.parts:
            continue
        in_block = False
        for i, line in enumerate(p.read_text().splitlines(), 1):
            code = line
            if in_block:
                if "-/" in code:
                    in_block = False
                    code = code.split("-/", 1)[1]
                else:
                    continue
            if "/-" in code:
                before, after = code.split("/-", 1)
                if "-/" in after:
                    code = before + after.split("-/", 1)[1]
                else:
                    in_block = True
                    code = before
            code = code.split("--", 1)[0]
            if FORBIDDEN.search(code):
                hits.append(f"{p.relative_to(LEAN)}:{i}")
    return {"ok": rc == 0 and not bad and not missing and not hits, "theorems": ths, "axioms": axioms,
            "bad_axioms": bad, "missing": missing, "forbidden_hits": hits, "rc": rc,
            "out": out[-2000:] if rc else ""}


class Driver:
    """Batch line protocol with a Lean driver (`lake env lean --run <file>`)."""

    def __init__(self, file: str):
        self.file = file

    def ask(self, lines: list[str], timeout: int = 1800) -> list[str]:
        if not lines:
            return []
        rc, out = 0, ""
        p = subprocess.run(["lake", "env", "lean", "--run", self.file], cwd=LEAN, input="\n".join(lines) + "\n",
                           capture_output=True, text=True, timeout=timeout)
        res = p.stdout.splitlines()
        if p.returncode != 0 or len(res) != len(lines):
            raise DriverError(f"{self.file}: rc={p.returncode} got {len(res)} lines for {len(lines)}: "
                              f"{(p.stdout + p.stderr)[-1500:]}")
        return res


class DriverError(Exception):
    pass


# ------------------------------------------------------------------------------ wire format
def rs(x) -> str:
    """a number on the wire"""
    if isinstance(x, float):
        x = F(x)
    x = F(x)
    return str(x.numerator) if x.denominator == 1 else f"{x.numerator}/{x.denominator}"


def parse_num(t: str):
    if t in ("inf", "-inf", "nan"):
        return float(t)
    return F(t)


def opt(s: str | None) -> str:
    return "-" if s is None else s


def aggr_wire(names: list[str], count, mean: dict, var: dict, cov: dict) -> str:
    names = sorted(names)
    toks = [str(len(names)), *names, rs(count)]
    toks += [rs(mean[n]) for n in names] + [rs(var[n]) for n in names]
    for i, a in enumerate(names):
        for b in names[i:]:
            toks.append(rs(cov[(a, b)]))
    return " ".join(toks)


def table_wire(rows: list[list]) -> str:
    nc = len(rows[0]) if rows else 0
    return " ".join([str(nc), str(len(rows))] + [rs(v) for r in rows for v in r])


def rand_frac(rng: random.Random, lo: int = -20, hi: int = 20, dens=(1, 1, 2, 3, 4, 5, 7, 10)) -> F:
    return F(rng.randint(lo * 4, hi * 4), 4 * rng.choice(dens))


# ------------------------------------------------------------------------------ verdict
class Check:
    current: "Check | None" = None       # the check being run (used by run_check's safety net)

    def __init__(self, prop: str, level: str = "proof"):
        Check.current = self
        self.prop = prop
        self.level = level
        self.t0 = time.time()
        self.seed = seed()
        self.tier = tier()
        self.rng = random.Random(f"{prop}-{self.seed}")
        self.cov: dict = {"samples": []}
        self.assumptions: list[str] = []
        self.trusted: list[str] = []
        self.broken: list[str] = []          # theorems / correspondences that no longer check
        self.failing: list[dict] = []        # concrete failing inputs on the real code
        self.notes: list[str] = []
        self.known = load_known(prop)
        self.known_hits: list[str] = []
        self.evaluations = 0
        self.distinct: set = set()
        self.tie: dict = {}
        self.audit: dict = {}
        self.branches: dict[str, int] = {}

    # -- phases
    def prove(self, modules: list[str] | None = None, extra_targets: list[str] | None = None) -> bool:
        """regenerate + build + audit; records obligations.  Returns True iff every theorem checks."""
        with Lock():
            self.tie = regenerate()
            ok, out = lake_build([f"TeaTasting.Props.{m}" for m in prop_modules(self.prop)] + (extra_targets or []))
            ths = [n for n, _ in theorems_of(self.prop)]
            if ok:
                self.audit = audit(self.prop)
                bad = sorted(set(self.audit["bad_axioms"]) | set(self.audit["missing"]))
                if self.audit["forbidden_hits"]:
                    bad.append("forbidden tokens: " + ", ".join(self.audit["forbidden_hits"]))
                failing = bad
            else:
                failing = failing_theorems(self.prop, out)
                if not failing:   # the failure is upstream (Gen does not type-check, a lemma file broke)
                    m = re.findall(r"error: (\S+\.lean:\d+)", out)
                    failing = [f"build of upstream module failed ({', '.join(sorted(set(m))[:4])})"]
                    self.cov["upstream_build_failure"] = True
                self.cov["build_log_tail"] = out[-3000:]
            self.build_ok = ok
            self.cov["obligations"] = len(ths)
            self.cov["discharged"] = len(ths) - len([f for f in failing if f in ths]) if ok or not self.cov.get(
                "upstream_build_failure") else 0
            self.cov["theorems"] = ths
            self.cov["axioms"] = sorted({a for v in self.audit.get("axioms", {}).values() for a in v})
            mods = prop_modules(self.prop)
            self.cov["checker_cmd"] = ("cd lean && lake build " + " ".join(f"TeaTasting.Props.{m}" for m in mods) + " && "
                                       + " && ".join(f"lake env lean TeaTasting/Audit/{m}.lean" for m in mods)
                                       + "   # kernel re-check + #print axioms")
            self.cov["tie"] = self.tie
            for f in failing:
                self.broken.append(f"theorem {f}")
            deps = gen_dependencies(self.prop)
            self.cov["generated_modules_used"] = sorted(deps)
            for mod, why in sorted(self.tie.get("refused", {}).items()):
                if mod in deps and mod in DOUBLY_TIED:
                    # this part of the code has a complete hand-written executable model whose equality with the
                    # generated definitions is a theorem whenever the translator accepts the source; when it does not
                    # (a rewrite outside the accepted fragment), the model stays tied to the code by its exact
                    # correspondence run — the second of the two admissible ties — so this alone is not a broken tie
                    self.notes.append(f"Gen.{mod}: the translator does not accept the current source ({why}); "
                                      f"{DOUBLY_TIED[mod]} is tied by the correspondence run alone in this run")
                    self.cov.setdefault("tie_fallback", {})[mod] = why
                elif mod in deps:
                    self.broken.append(f"tie: the translator refused the current source of Gen.{mod} ({why}); the theorems "
                                       f"were re-checked against the snapshot model, not the code")
            if self.tier == "thorough" and ok:
                rc, lc = 0, ""
                for m in prop_modules(self.prop):   # one module at a time: companions need not be co-importable
                    rc1, lc1 = run(["lake", "env", "leanchecker", f"TeaTasting.Props.{m}"], timeout=3600)
                    rc, lc = rc or rc1, lc + lc1
                self.cov["leanchecker"] = "ok" if rc == 0 else f"rc={rc}: {lc[-500:]}"
                if rc != 0:
                    self.broken.append(f"leanchecker TeaTasting.Props.{self.prop}")
            return ok and not failing

    def ensure_driver_model(self) -> bool:
        """Make sure DriverGen can run: if the regenerated Gen does not build, use the snapshot."""
        with Lock():
            ok, out = lake_build(["TeaTasting.Gen.Aggr", "TeaTasting.Gen.Mean", "TeaTasting.Driver.Proto",
                                  "TeaTasting.Driver.Stubs"])
            if ok:
                return True
            self.notes.append("regenerated Gen does not type-check; correspondence uses the snapshot model")
            use_snapshot()
            ok, out = lake_build(["TeaTasting.Gen.Aggr", "TeaTasting.Gen.Mean", "TeaTasting.Driver.Proto",
                                  "TeaTasting.Driver.Stubs"])
            self.cov["driver_model"] = "snapshot"
            return ok

    # -- bookkeeping
    def case(self, key, nontrivial: bool = True) -> None:
        self.evaluations += 1
        if nontrivial:
            self.distinct.add(key if isinstance(key, (str, int, tuple)) else repr(key))

    def branch(self, name: str) -> None:
        self.branches[name] = self.branches.get(name, 0) + 1

    def sample(self, s) -> None:
        if len(self.cov["samples"]) < 6:
            self.cov["samples"].append(s)

    def disagree(self, what: str, replay: dict) -> None:
        """model and implementation disagree (not yet a violation)"""
        self.broken.append(f"correspondence {what}")
        self.cov.setdefault("disagreements", []).append({"what": what, **replay})

    def fail(self, what: str, replay: dict, finding_key: str | None = None) -> None:
        """a concrete input on which the REAL code violates the property"""
        if finding_key is not None and finding_key in self.known:
            msg = f"{self.known[finding_key]['what']}"
            if finding_key not in self.known_hits:
                self.known_hits.append(finding_key)
                print(f"KNOWN-FINDING: property={self.prop} {finding_key}: {msg}")
            return
        self.failing.append({"what": what, **replay})

    # -- verdict
    def finish(self, extended_search=None) -> None:
        if (self.broken or self.cov.get("tie_fallback")) and not self.failing and extended_search is not None:
            self.notes.append("proof/correspondence broken: running the extended failing-input search" if self.broken else
                              "a doubly tied generated module fell back to its correspondence tie: running the extended "
                              "failing-input search as well")
            try:
                extended_search()
            except Exception as ex:  # noqa: BLE001
                self.notes.append(f"extended search crashed: {ex!r}")
        rc = 0
        replay_path = None
        if self.failing:
            rc = 1
            replay_path = self.write_replay({"property": self.prop, "kind": "failing-input",
                                             "failing": self.failing[:5], "broken": self.broken})
            print(f"VIOLATION property={self.prop} replay={replay_path}")
        elif self.broken:
            rc = 1
            replay_path = self.write_replay({"property": self.prop, "kind": "no-longer-checks",
                                             "broken": self.broken,
                                             "disagreements": self.cov.get("disagreements", [])[:5],
                                             "build_log_tail": self.cov.get("build_log_tail", "")})
            print(f"VIOLATION property={self.prop} replay={replay_path} no-failing-input-found")
        self.write_evidence(len(self.failing) + (1 if self.broken and not self.failing else 0))
        for n in self.notes:
            print(f"note: {n}")
        print(f"{self.prop} {self.tier} seed={self.seed}: obligations={self.cov.get('obligations')} "
              f"discharged={self.cov.get('discharged')} evaluations={self.evaluations} "
              f"tie={self.tie.get('tie')} -> {'OK' if rc == 0 else 'VIOLATION'} ({time.time() - self.t0:.0f}s)")
        sys.exit(rc)

    def write_replay(self, obj: dict) -> str:
        d = REPLAYS
        d.mkdir(exist_ok=True, parents=True)
        p = d / f"{self.prop}-{self.tier}-seed{self.seed}.json"
        p.write_text(json.dumps(obj, indent=1, default=str))
        return str(p.relative_to(VERIF)) if p.is_relative_to(VERIF) else str(p)

    def write_evidence(self, violations: int) -> None:
        cov = dict(self.cov)
        cov.setdefault("obligations", 0)
        cov.setdefault("discharged", 0)
        cov.setdefault("checker_cmd", "n/a")
        cov["trusted_base"] = self.trusted
        cov["evaluations"] = self.evaluations
        cov["distinct_nontrivial"] = len(self.distinct)
        cov["branches_hit"] = self.branches
        cov["known_findings_hit"] = self.known_hits
        cov["broken"] = self.broken
        cov["notes"] = self.notes
        if not cov["samples"]:
            cov["samples"] = cov.get("theorems", [])[:3] or ["(none)"]
        ev = {"property_id": self.prop, "tier": self.tier, "seed": self.seed, "level": self.level,
              "coverage": cov, "assumptions": self.assumptions, "wall_s": round(time.time() - self.t0, 2),
              "violations": violations}
        if not cov.get("discharged"):
            # nothing was discharged (the build of the theorems broke): the level's own keys would claim a proof run;
            # report the count under another key so that the exploration-style counts of this run are what is read
            cov["discharged_theorems"] = cov.pop("discharged", 0)
        # evidence/ describes /repo itself; a run against another tree (VERIF_REPO=<scratch worktree>, used to try
        # changes) must never overwrite it
        foreign = os.path.realpath(str(REPO)) != os.path.realpath("/repo")
        d = (REPLAYS / "evidence-other-tree") if foreign else (VERIF / "evidence")
        d.mkdir(parents=True, exist_ok=True)
        (d / f"{self.prop}.json").write_text(json.dumps(ev, indent=1, default=str))


def load_known(prop: str) -> dict:
    p = VERIF / "known_findings.json"
    if not p.exists():
        return {}
    data = json.loads(p.read_text())
    return {k["key"]: k for k in data.get("known", []) if k["property"] == prop}


BASE_TRUST = [
    "Lean 4.33.0 kernel; Mathlib v4.33.0 as compiled in the sandbox",
    "axioms: at most propext, Classical.choice, Quot.sound (printed per theorem in coverage.axioms)",
    "harness/translate.py (Python AST -> Lean), validated each run by exact correspondence",
    "Driver*.lean parsing/printing, harness comparators",
    "CPython Fraction/int/float semantics",
]
