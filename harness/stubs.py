"""Rational stand-ins for math.sqrt / math.exp / scipy.stats.{t,norm,nct} — the Python twins of
lean/TeaTasting/Driver/Stubs.lean — and the three runtime substitutions of the exact
correspondence mode (DESIGN.md section 4.2).

With them the REAL tea_tasting arithmetic runs unmodified on fractions.Fraction, so its output
can be compared *exactly* with the Lean model evaluated at Q.
"""
from __future__ import annotations

import contextlib
import math
import types
from fractions import Fraction as F

import scipy.optimize


def base_cdf(x):
    x = F(x)
    return (1 + x / (1 + abs(x))) / 2


def base_ppf(q):
    y = 2 * F(q) - 1
    return y / (1 - abs(y))


class D:
    def __init__(self, k=F(1), loc=F(0), **kwds):
        self.k, self.loc = F(k), F(loc)
        self.kwds = kwds            # as scipy's frozen distributions expose their parameters
        self.args = ()

    def cdf(self, x):
        return base_cdf((F(x) - self.loc) * self.k)

    def sf(self, x):
        return 1 - self.cdf(x)

    def ppf(self, q):
        return base_ppf(q) / self.k + self.loc

    def isf(self, q):
        return base_ppf(1 - F(q)) / self.k + self.loc


def _mk_family(sqrt, exp, tk, normk, ncscale):
    class _StubMathMeta(type):
        # anything the stand-in does not replace (copysign, fabs, isfinite, pi, …) is the real `math`: code that starts
        # using another function of the module must not fail in exact mode for that reason alone
        def __getattr__(cls, name):
            return getattr(math, name)

    class StubMath(metaclass=_StubMathMeta):
        pass
    StubMath.sqrt = staticmethod(lambda x: sqrt(F(x)))
    StubMath.exp = staticmethod(lambda x: exp(F(x)))
    StubMath.ceil = staticmethod(math.ceil)
    StubMath.floor = staticmethod(math.floor)
    StubMath.isnan = staticmethod(lambda x: False if isinstance(x, F) else math.isnan(x))
    StubMath.isinf = staticmethod(lambda x: False if isinstance(x, F) else math.isinf(x))

    class StubStats:
        @staticmethod
        def t(df):
            return D(k=tk(F(df)), df=df)

        @staticmethod
        def norm(loc=0):
            return D(k=normk, loc=loc)

        @staticmethod
        def nct(df, nc):
            return D(k=tk(F(df)), loc=F(nc) * ncscale, df=df, nc=nc)

    return StubMath, StubStats


FAMILIES = {
    1: _mk_family(
        sqrt=lambda x: x / (1 + x) + F(1, 3),
        exp=lambda x: 1 + x if x >= 0 else 1 / (1 - x),
        tk=lambda df: df / (df + 1),
        normk=F(1),
        ncscale=F(1),
    ),
    2: _mk_family(
        sqrt=lambda x: (2 * x + F(1, 5)) / (x + 3),
        exp=lambda x: 1 + x + x * x / 2 if x >= 0 else 1 / (1 - x + x * x / 2),
        tk=lambda df: (2 * df + 1) / (2 * df + 5),
        normk=F(7, 5),
        ncscale=F(9, 10),
    ),
}


class BrentqRecorder:
    def __init__(self):
        self.brackets = []

    def brentq(self, fn, a, b, maxiter=100, **kw):
        self.brackets.append((a, b))
        return scipy.optimize.brentq(lambda x: float(fn(x)), float(a), float(b), maxiter=maxiter, **kw)


@contextlib.contextmanager
def exact_mode(family: int = 1):
    """Install the three substitutions; restore on exit.  Yields the brentq recorder."""
    import tea_tasting.aggr
    import tea_tasting.metrics.mean as mm
    import tea_tasting.utils as tu

    stub_math, stub_stats = FAMILIES[family]
    rec = BrentqRecorder()
    saved = (mm.math, mm.scipy, tu.numeric)
    orig_numeric = tu.numeric

    def numeric(value, fill_zero_div="auto"):
        if isinstance(value, F):
            return value
        return orig_numeric(value, fill_zero_div)

    mm.math = stub_math
    mm.scipy = types.SimpleNamespace(stats=stub_stats, optimize=rec)
    tu.numeric = numeric
    try:
        yield rec
    finally:
        mm.math, mm.scipy, tu.numeric = saved


ALLOWED_EXTERNAL = {
    "math.sqrt", "math.exp", "math.ceil", "scipy.stats.t", "scipy.stats.norm", "scipy.stats.nct",
    "scipy.optimize.brentq",
}


def external_calls(path) -> set[str]:
    """Dotted names rooted at `math` / `scipy` that are called in a source file."""
    import ast
    out = set()
    for node in ast.walk(ast.parse(open(path).read())):
        if isinstance(node, ast.Call):
            parts, f = [], node.func
            while isinstance(f, ast.Attribute):
                parts.append(f.attr)
                f = f.value
            if isinstance(f, ast.Name) and f.id in ("math", "scipy"):
                out.add(".".join([f.id] + parts[::-1]))
    return out
