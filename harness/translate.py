"""Translate the straight-line arithmetic of tea_tasting from the Python AST of the CURRENT
source into Lean 4 definitions typed against lean/TeaTasting/Basic/Prelude.lean.

    python translate.py <repo/src/tea_tasting> <lean/TeaTasting/Gen>    # regenerate Gen/*.lean

Every function listed in SIGS is translated statement by statement (DESIGN.md section 4.1).
Anything outside the supported subset raises `Unsupported`; the caller then falls back to the
committed snapshot of Gen/ and ties the model to the code by correspondence alone.

Nothing here is trusted blindly: the generated definitions evaluated at Q must reproduce the
real code on Fractions (harness/corr/*), on every run.
"""
from __future__ import annotations

import ast
import copy
import sys
from pathlib import Path

A = "α"


class Unsupported(Exception):
    pass


# ------------------------------------------------------------------------------------------
# signature table: python function -> lean name, parameters, return type
#   prims: the Lean def takes (P : Prims α)
#   none / some: None-specialisation of optional parameters
# ------------------------------------------------------------------------------------------
def _aggr(n):  # noqa: ANN001
    return (n, f"Aggr {A}")


OS = "Option String"
SIGS: dict[str, dict] = {
    # ---- aggr.py
    "aggr._sorted_tuple": dict(mod="Aggr", lean="sortedTuple", params=[("left", "String"), ("right", "String")],
                               ret="String × String", numeric=False),
    "aggr.Aggregates.count": dict(mod="Aggr", lean="Aggr.count", params=[_aggr("self")], ret=A),
    "aggr.Aggregates.mean": dict(mod="Aggr", lean="Aggr.mean", params=[_aggr("self"), ("name", OS)], ret=A),
    "aggr.Aggregates.var": dict(mod="Aggr", lean="Aggr.var", params=[_aggr("self"), ("name", OS)], ret=A),
    "aggr.Aggregates.cov": dict(mod="Aggr", lean="Aggr.cov", params=[_aggr("self"), ("left", OS), ("right", OS)],
                                ret=A),
    "aggr.Aggregates.ratio_var": dict(mod="Aggr", lean="Aggr.ratio_var",
                                      params=[_aggr("self"), ("numer", OS), ("denom", OS)], ret=A),
    "aggr.Aggregates.ratio_cov": dict(mod="Aggr", lean="Aggr.ratio_cov",
                                      params=[_aggr("self"), ("left_numer", OS), ("left_denom", OS),
                                              ("right_numer", OS), ("right_denom", OS)], ret=A),
    "aggr._add_mean": dict(mod="Aggr", lean="addMean", params=[_aggr("left"), _aggr("right"), ("col", "String")],
                           ret=A),
    "aggr._add_var": dict(mod="Aggr", lean="addVar", params=[_aggr("left"), _aggr("right"), ("col", "String")],
                          ret=A),
    "aggr._add_cov": dict(mod="Aggr", lean="addCov",
                          params=[_aggr("left"), _aggr("right"), ("cols", "String × String")], ret=A),
    "aggr.Aggregates.__add__": dict(mod="Aggr", lean="Aggr.add", params=[_aggr("self"), _aggr("other")],
                                    ret=f"Aggr {A}"),
    # ---- metrics/mean.py
    "mean.RatioOfMeans._covariate_cov": dict(mod="Mean", lean="RatioOfMeans.covariate_cov",
                                             params=[("self", f"RatioCfg {A}"), _aggr("aggr")], ret=A),
    "mean.RatioOfMeans._covariate_coef": dict(mod="Mean", lean="RatioOfMeans.covariate_coef",
                                              params=[("self", f"RatioCfg {A}"), _aggr("aggr")], ret=A),
    "mean.RatioOfMeans._metric_mean": dict(mod="Mean", lean="RatioOfMeans.metric_mean",
                                           params=[("self", f"RatioCfg {A}"), _aggr("aggr"),
                                                   ("covariate_coef", A), ("covariate_mean", A)], ret=A),
    "mean.RatioOfMeans._metric_var": dict(mod="Mean", lean="RatioOfMeans.metric_var",
                                          params=[("self", f"RatioCfg {A}"), _aggr("aggr"),
                                                  ("covariate_coef", A)], ret=A),
    "mean.RatioOfMeans._scale_and_distr@none": dict(
        mod="Mean", py="mean.RatioOfMeans._scale_and_distr", lean="RatioOfMeans.scale_and_distr_null",
        params=[("self", f"RatioCfg {A}"), ("contr_var", A), ("contr_count", A), ("treat_var", A),
                ("treat_count", A)],
        ret=f"{A} × Dist {A} × Unit", prims=True, none={"effect_size"}),
    "mean.RatioOfMeans._scale_and_distr@some": dict(
        mod="Mean", py="mean.RatioOfMeans._scale_and_distr", lean="RatioOfMeans.scale_and_distr_alt",
        params=[("self", f"RatioCfg {A}"), ("contr_var", A), ("contr_count", A), ("treat_var", A),
                ("treat_count", A), ("effect_size", A)],
        ret=f"{A} × Dist {A} × Dist {A}", prims=True, some={"effect_size"}),
    "mean.RatioOfMeans._analyze_stats": dict(
        mod="Mean", lean="RatioOfMeans.analyze_stats",
        params=[("self", f"RatioCfg {A}"), ("contr_mean", A), ("contr_var", A), ("contr_count", A),
                ("treat_mean", A), ("treat_var", A), ("treat_count", A)],
        ret=f"MeanResult {A}", prims=True),
    "mean.RatioOfMeans.analyze_aggregates": dict(
        mod="Mean", lean="RatioOfMeans.analyze_aggregates",
        params=[("self", f"RatioCfg {A}"), _aggr("control"), _aggr("treatment")],
        ret=f"MeanResult {A}", prims=True),
    "mean.RatioOfMeans._power_from_stats": dict(
        mod="Mean", lean="RatioOfMeans.power_from_stats",
        params=[("self", f"RatioCfg {A}"), ("sample_var", A), ("sample_count", A), ("effect_size", A)],
        ret=A, prims=True),
    # ---- multiplicity.py
    "mult._Benjamini.adjust": dict(mod="Multiplicity", lean="Benjamini.adjust",
                                   params=[("self", f"BenjaminiCfg {A}"), ("pvalue", A), ("k", A)], ret=f"{A} × {A}"),
    "mult._Bonferroni.adjust": dict(mod="Multiplicity", lean="Bonferroni.adjust",
                                    params=[("self", f"FwerCfg {A}"), ("pvalue", A), ("k", A)], ret=f"{A} × {A}"),
    "mult._Sidak.adjust": dict(mod="Multiplicity", lean="Sidak.adjust",
                               params=[("self", f"FwerCfg {A}"), ("pvalue", A), ("k", A)], ret=f"{A} × {A}",
                               rpow=True),
    # ---- metrics/proportion.py
    "prop.SampleRatio.analyze": dict(
        mod="Proportion", lean="SampleRatio.analyze",
        params=[("self", f"SRCfg {A}"), ("count_control", A), ("count_treatment", A)],
        pyparams=["self", "data", "control", "treatment", "variant"],
        ret=f"SRResult {A}", prims=True, binom=True),
}

MODULE_HEADER = {
    "Aggr": "import TeaTasting.Basic.Prelude\n",
    "Mean": "import TeaTasting.Gen.Aggr\n",
    "Multiplicity": "import TeaTasting.Basic.Prelude\n",
    "Proportion": "import TeaTasting.Basic.Prelude\n",
}
MODULE_SOURCE = {"aggr": "aggr.py", "mean": "metrics/mean.py", "mult": "multiplicity.py", "prop": "metrics/proportion.py"}

FIELD_TYPES = {  # RatioCfg
    "numer": "String", "denom": OS, "numer_covariate": OS, "denom_covariate": OS,
    "alternative": "String", "confidence_level": A, "equal_var": "Bool", "use_t": "Bool",
    "alpha": A, "ratio": A, "power": A, "m_adj_": A, "m": A, "method": "String", "correction": "Bool",
}
AGGR_METHODS = {"count": "aggr.Aggregates.count", "mean": "aggr.Aggregates.mean", "var": "aggr.Aggregates.var",
                "cov": "aggr.Aggregates.cov", "ratio_var": "aggr.Aggregates.ratio_var",
                "ratio_cov": "aggr.Aggregates.ratio_cov"}
SELF_METHODS = {"_covariate_cov": "mean.RatioOfMeans._covariate_cov",
                "_covariate_coef": "mean.RatioOfMeans._covariate_coef",
                "_metric_mean": "mean.RatioOfMeans._metric_mean",
                "_metric_var": "mean.RatioOfMeans._metric_var",
                "_analyze_stats": "mean.RatioOfMeans._analyze_stats"}
FREE_FUNCS = {"_sorted_tuple": "aggr._sorted_tuple", "_add_mean": "aggr._add_mean", "_add_var": "aggr._add_var",
              "_add_cov": "aggr._add_cov"}
DIST_METHODS = {"cdf", "sf", "ppf", "isf"}
BIN = {ast.Add: "+", ast.Sub: "-", ast.Mult: "*", ast.Div: "/"}
CMP = {ast.Lt: "<", ast.LtE: "≤", ast.Gt: ">", ast.GtE: "≥", ast.Eq: "=", ast.NotEq: "≠"}


MODULE_CONSTS: dict[str, dict[str, int]] = {}


def _is_key_presence(c) -> bool:
    """`k in self.mean_` / `k[0] in self.mean_ and k[1] in self.mean_`: a key-presence filter"""
    if isinstance(c, ast.BoolOp) and isinstance(c.op, ast.And):
        return all(_is_key_presence(v) for v in c.values)
    return (isinstance(c, ast.Compare) and len(c.ops) == 1 and isinstance(c.ops[0], ast.In)
            and _is_self_attr(c.comparators[0], "mean_"))


def _is_self_attr(e: ast.expr, attr: str | None = None) -> bool:
    return (isinstance(e, ast.Attribute) and isinstance(e.value, ast.Name) and e.value.id == "self"
            and (attr is None or e.attr == attr))


class _Subst(ast.NodeTransformer):
    """replace parameter names by argument expressions and prefix the helper's own locals"""
    def __init__(self, mapping, rename):
        self.mapping, self.rename = mapping, rename

    def visit_Name(self, node):  # noqa: N802
        if node.id in self.mapping:
            return copy.deepcopy(self.mapping[node.id])
        if node.id in self.rename:
            return ast.copy_location(ast.Name(id=self.rename[node.id], ctx=node.ctx), node)
        return node


def _rw(st: ast.stmt) -> tuple[set[str], set[str]] | None:
    """(names read, names written) of a simple statement — an assignment / augmented assignment to a plain name whose
    right-hand side calls nothing; None for anything else"""
    if isinstance(st, ast.Assign) and len(st.targets) == 1 and isinstance(st.targets[0], ast.Name):
        w, val, extra = {st.targets[0].id}, st.value, set()
    elif isinstance(st, ast.AugAssign) and isinstance(st.target, ast.Name):
        w, val, extra = {st.target.id}, st.value, {st.target.id}
    else:
        return None
    if any(isinstance(n, (ast.Call, ast.NamedExpr, ast.Await, ast.Yield)) for n in ast.walk(val)):
        return None
    return ({n.id for n in ast.walk(val) if isinstance(n, ast.Name)} | extra), w


def _sort_independent_runs(block: list[ast.stmt]) -> list[ast.stmt]:
    """every maximal run of consecutive simple statements that are pairwise independent (none writes what another reads
    or writes) is put in a canonical order: their order cannot matter"""
    out: list[ast.stmt] = []
    run: list[ast.stmt] = []

    def flush():
        rws = [_rw(x) for x in run]
        ok = all(not (rws[a][1] & (rws[b][0] | rws[b][1])) for a in range(len(run)) for b in range(len(run)) if a != b)
        out.extend(sorted(run, key=ast.unparse) if ok else run)
        run.clear()
    for st in block:
        if _rw(st) is not None:
            run.append(st)
            continue
        flush()
        for fld in ("body", "orelse", "finalbody"):
            if isinstance(getattr(st, fld, None), list) and getattr(st, fld) and isinstance(getattr(st, fld)[0], ast.stmt):
                setattr(st, fld, _sort_independent_runs(getattr(st, fld)))
        out.append(st)
    flush()
    return out


def alpha_normal(fn: ast.FunctionDef, roles: dict[str, str] | None = None) -> str:
    """Source of the body (docstring dropped) in a canonical form: parameters renamed p0, p1, …; the locals named in
    `roles` (found by what they are USED for, not by their position) renamed to their role; the remaining locals v0, v1,
    … in order of first occurrence; runs of mutually independent simple statements sorted."""
    params = [a.arg for a in fn.args.posonlyargs + fn.args.args + fn.args.kwonlyargs]
    names: dict[str, str] = {p: f"p{i}" for i, p in enumerate(params)}
    names.update(roles or {})
    fixed = len(names)
    bound = set(params)
    for n in ast.walk(fn):
        if isinstance(n, ast.Name) and isinstance(n.ctx, ast.Store):
            bound.add(n.id)

    class R(ast.NodeTransformer):
        def visit_Name(self, node):  # noqa: N802
            if node.id in bound:
                names.setdefault(node.id, f"v{len(names) - fixed}")
                return ast.copy_location(ast.Name(id=names[node.id], ctx=node.ctx), node)
            return node
    body = [R().visit(copy.deepcopy(x)) for x in fn.body
            if not (isinstance(x, ast.Expr) and isinstance(x.value, ast.Constant))]
    return "\n".join(ast.unparse(x) for x in _sort_independent_runs(body))


def find_boundary_roles(fn: ast.FunctionDef) -> dict[str, str]:
    """the two locals of `_find_boundary` by role: the one passed to `fn(…)` in the loop test, and the one compared with
    MAX_ITER"""
    roles: dict[str, str] = {}
    for n in ast.walk(fn):
        if isinstance(n, ast.While) and isinstance(n.test, ast.Compare) and isinstance(n.test.left, ast.Call) \
                and len(n.test.left.args) == 1 and isinstance(n.test.left.args[0], ast.Name):
            roles.setdefault(n.test.left.args[0].id, "bound")
        if isinstance(n, ast.Compare) and isinstance(n.left, ast.Name) and len(n.comparators) == 1 \
                and isinstance(n.comparators[0], ast.Name) and n.comparators[0].id == "MAX_ITER":
            roles.setdefault(n.left.id, "iter")
    return roles


def decision_tree(fn: ast.FunctionDef):
    """The function as a tree of its tests (in evaluation order) with the returned expression at each leaf; straight-line
    assignments to plain names are substituted.  Two bodies with the same tree compute the same function (the tests
    and expressions are side-effect free: names, constants, comparisons, arithmetic, float('inf'/'nan'))."""
    def pure(e: ast.expr) -> bool:
        for n in ast.walk(e):
            if isinstance(n, ast.Call) and not (isinstance(n.func, ast.Name) and n.func.id == "float"
                                                and len(n.args) == 1 and isinstance(n.args[0], ast.Constant)):
                return False
            if isinstance(n, (ast.NamedExpr, ast.Await, ast.Yield, ast.YieldFrom, ast.Lambda)):
                return False
        return True

    def leaf(e: ast.expr, env):
        if isinstance(e, ast.IfExp):
            return ("if", ast.unparse(_Subst(env, {}).visit(copy.deepcopy(e.test))), leaf(e.body, env), leaf(e.orelse, env))
        e2 = _Subst(env, {}).visit(copy.deepcopy(e))
        if isinstance(e2, ast.IfExp):
            return leaf(e2, {})
        if not pure(e2):
            raise Unsupported("impure expression in a pattern-checked body")
        return ("ret", ast.unparse(e2))

    def go(stmts, env):
        if not stmts:
            raise Unsupported("falls off the end")
        s, rest = stmts[0], stmts[1:]
        if isinstance(s, ast.Expr) and isinstance(s.value, ast.Constant):
            return go(rest, env)
        if isinstance(s, ast.Return) and s.value is not None:
            return leaf(s.value, env)
        if isinstance(s, (ast.Assign, ast.AnnAssign)) and s.value is not None:
            tg = s.targets[0] if isinstance(s, ast.Assign) and len(s.targets) == 1 else getattr(s, "target", None)
            if not isinstance(tg, ast.Name):
                raise Unsupported("assignment target")
            env2 = dict(env)
            env2[tg.id] = _Subst(env, {}).visit(copy.deepcopy(s.value))
            return go(rest, env2)
        if isinstance(s, ast.If):
            test = _Subst(env, {}).visit(copy.deepcopy(s.test))
            if not pure(test):
                raise Unsupported("impure test")
            return ("if", ast.unparse(test), go(list(s.body) + rest, env), go(list(s.orelse) + rest, env))
        raise Unsupported(f"statement {type(s).__name__} in a pattern-checked body")
    return go(list(fn.body), {})


class Tr:
    MODS: dict[str, ast.Module] = {}      # module ASTs of the current generation run (helper inlining)
    SPLICE_SIMPLE = False                 # splice `x = helper(…)` also for helpers without branches (safety rendering)

    def __init__(self, key: str, sig: dict, fn: ast.FunctionDef):
        self.key, self.sig, self.fn = key, sig, fn
        self.types = dict(sig["params"])          # local name -> lean type (best effort)
        self.none = set(sig.get("none", ()))
        self.some = set(sig.get("some", ()))
        self.in_aggr = key.startswith("aggr.Aggregates.")
        self.guards: list[str] = []
        self.locals: set[str] = set()
        want = sig.get("pyparams") or [n for n, _ in sig["params"]]
        have = [a.arg for a in fn.args.posonlyargs + fn.args.args + fn.args.kwonlyargs]
        extra = self.none | self.some
        if [h for h in have if h not in extra] != [w for w in want if w not in extra]:
            raise Unsupported(f"{key}: signature changed: python {have} vs table {want}")

    # ---- types (a small inference, only what argument wrapping needs)
    def typ(self, e: ast.expr) -> str | None:
        if isinstance(e, ast.Name):
            return self.types.get(e.id)
        if (isinstance(e, ast.Call) and isinstance(e.func, ast.Attribute) and e.func.attr == "with_zero_div"
                and not e.args):
            return self.typ(e.func.value)
        if _is_self_attr(e):
            return FIELD_TYPES.get(e.attr)
        if isinstance(e, ast.Subscript) and isinstance(e.value, ast.Name):
            t = self.types.get(e.value.id)
            if t and " × " in t and isinstance(e.slice, ast.Constant):
                return t.split(" × ")[e.slice.value]
        return None

    def arg(self, e: ast.expr, want: str) -> str:
        if isinstance(e, ast.Constant) and e.value is None and want.startswith("Option "):
            return "none"
        s = self.ex(e)
        have = self.typ(e)
        if want.startswith("Option ") and have == want[len("Option "):]:
            return f"(some {s})"
        return s

    def call_sig(self, key: str, recv: str | None, args: list[ast.expr], kws: list[ast.keyword]) -> str:
        sig = SIGS[key]
        params = sig["params"][1:] if recv is not None else sig["params"]
        vals: dict[str, str] = {}
        if len(args) > len(params):
            raise Unsupported(f"too many args for {key}")
        for (pn, pt), a in zip(params, args):
            vals[pn] = self.arg(a, pt)
        for kw in kws:
            if kw.arg not in dict(params):
                raise Unsupported(f"unknown keyword {kw.arg} for {key}")
            vals[kw.arg] = self.arg(kw.value, dict(params)[kw.arg])
        missing = [pn for pn, _ in params if pn not in vals]
        if missing:
            raise Unsupported(f"missing args {missing} for {key}")
        parts = [sig["lean"]]
        if sig.get("prims"):
            parts.append("P")
        if recv is not None:
            parts.append(recv)
        parts += [vals[pn] for pn, _ in params]
        return "(" + " ".join(parts) + ")"

    # ---- expressions
    def ex(self, e: ast.expr) -> str:  # noqa: C901, PLR0911, PLR0912
        if isinstance(e, ast.BinOp):
            if isinstance(e.op, ast.Pow):
                if isinstance(e.right, ast.Constant) and e.right.value == 2:
                    return f"({self.ex(e.left)} ^ 2)"
                if self.sig.get("rpow"):
                    return f"(rpow {self.ex(e.left)} {self.ex(e.right)})"
                raise Unsupported("pow")
            if type(e.op) not in BIN:
                raise Unsupported(f"operator {type(e.op).__name__}")
            return f"({self.ex(e.left)} {BIN[type(e.op)]} {self.ex(e.right)})"
        if isinstance(e, ast.UnaryOp) and isinstance(e.op, ast.USub):
            return f"(-{self.ex(e.operand)})"
        if isinstance(e, ast.Constant):
            if isinstance(e.value, bool) or e.value is None:
                raise Unsupported(f"constant {e.value!r}")
            if isinstance(e.value, int):
                return f"({e.value} : {A})"
            if isinstance(e.value, float):
                num, den = e.value.as_integer_ratio()
                return f"(({num} : {A}) / ({den} : {A}))"
            if isinstance(e.value, str):
                return f"\"{e.value}\""
            raise Unsupported(f"constant {e.value!r}")
        if isinstance(e, ast.Name):
            if e.id in MODULE_CONSTS.get(self.key.split(".")[0], {}) and e.id not in self.types and e.id not in self.locals:
                return f"({MODULE_CONSTS[self.key.split('.')[0]][e.id]} : {A})"
            return e.id
        if isinstance(e, ast.Attribute):
            if _is_self_attr(e):
                return f"self.{e.attr}"
            # `scipy.stats.binomtest(k=…, n=…, p=…).pvalue`
            if e.attr == "pvalue" and isinstance(e.value, ast.Call) and self.dotted(e.value.func) == "scipy.stats.binomtest" \
                    and self.sig.get("binom"):
                kw = {k.arg: k.value for k in e.value.keywords}
                if set(kw) != {"k", "n", "p"} or e.value.args:
                    raise Unsupported("binomtest arguments")

                def unint(x):
                    return x.args[0] if (isinstance(x, ast.Call) and isinstance(x.func, ast.Name)
                                         and x.func.id == "int" and len(x.args) == 1) else x
                return f"(binomtest {self.ex(unint(kw['k']))} {self.ex(unint(kw['n']))} {self.ex(kw['p'])})"
            raise Unsupported(ast.dump(e))
        if isinstance(e, ast.Tuple):
            return "(" + ", ".join(self.ex(x) for x in e.elts) + ")"
        if isinstance(e, ast.Subscript):
            base = e.value
            if _is_self_attr(base):
                if base.attr in ("mean_", "var_"):
                    return f"(self.{base.attr} {self.ex(e.slice)})"
                if base.attr == "cov_":
                    return f"((fun t => self.cov_ t.1 t.2) {self.ex(e.slice)})"
            if isinstance(base, ast.Name) and isinstance(e.slice, ast.Constant):
                return f"{base.id}.{e.slice.value + 1}"
            raise Unsupported(ast.dump(e))
        if isinstance(e, ast.Compare) and len(e.ops) == 1:
            if type(e.ops[0]) not in CMP:
                raise Unsupported(ast.dump(e))
            return f"({self.ex(e.left)} {CMP[type(e.ops[0])]} {self.ex(e.comparators[0])})"
        if isinstance(e, ast.IfExp):
            t = e.test
            if (isinstance(t, ast.Compare) and isinstance(t.ops[0], ast.Is) and isinstance(t.left, ast.Name)
                    and isinstance(t.comparators[0], ast.Constant) and t.comparators[0].value is None):
                if t.left.id in self.none:
                    return "()" if (isinstance(e.body, ast.Constant) and e.body.value is None) else self.ex(e.body)
                if t.left.id in self.some:
                    return self.ex(e.orelse)
            if (isinstance(t, ast.Call) and isinstance(t.func, ast.Name) and t.func.id == "isinstance"
                    and _is_self_attr(t.args[0], "ratio")):
                # `self.ratio if isinstance(self.ratio, float | int) else self.ratio[treatment] / self.ratio[control]`
                if ast.unparse(t.args[1]) not in ("float | int", "int | float", "(float, int)", "(int, float)") \
                        or not _is_self_attr(e.body, "ratio") \
                        or ast.unparse(e.orelse) != "self.ratio[treatment] / self.ratio[control]":
                    raise Unsupported("ratio dispatch")
                return ("(match self.ratio with | RatioSpec.scalar x => x | RatioSpec.mapping rt rc => (rt / rc))")
            if isinstance(t, (ast.Compare, ast.BoolOp, ast.UnaryOp)) or (
                    isinstance(t, ast.Call) and self.dotted(t.func) == "math.isnan"):
                return f"(if {self.cond(t)} then {self.ex(e.body)} else {self.ex(e.orelse)})"
            raise Unsupported("ifexp")
        if isinstance(e, ast.Call):
            return self.call(e)
        raise Unsupported(ast.dump(e))

    def call(self, e: ast.Call) -> str:  # noqa: C901, PLR0911, PLR0912
        f = e.func
        if isinstance(f, ast.Name):
            if f.id == "abs":
                return f"|{self.ex(e.args[0])}|"
            if f.id in ("min", "max") and len(e.args) == 2 and not e.keywords:
                return f"({f.id} {self.ex(e.args[0])} {self.ex(e.args[1])})"
            if f.id == "float" and isinstance(e.args[0], ast.Constant):
                table = {"+inf": f"(Bound.posInf : Bound {A})", "inf": f"(Bound.posInf : Bound {A})",
                         "-inf": f"(Bound.negInf : Bound {A})"}
                if e.args[0].value not in table:
                    raise Unsupported(f"float({e.args[0].value!r})")
                return table[e.args[0].value]
            if f.id in FREE_FUNCS:
                return self.call_sig(FREE_FUNCS[f.id], None, e.args, e.keywords)
            if f.id == "_exp" and len(e.args) == 1 and not e.keywords:
                # mean._exp = math.exp saturating to inf on overflow: the same function in the value rendering
                return f"(P.exp {self.ex(e.args[0])})"
            if f.id == "MeanResult":
                if e.args:
                    raise Unsupported("positional MeanResult")
                fields = ", ".join(f"{kw.arg} := {self.ex(kw.value)}" for kw in e.keywords)
                return "{ " + fields + " }"
            if f.id == "SampleRatioResult":
                if e.args:
                    raise Unsupported("positional SampleRatioResult")
                fields = ", ".join(f"{kw.arg} := {self.ex(kw.value)}" for kw in e.keywords)
                return "{ " + fields + " }"
            if f.id == "Aggregates" and self.key == "aggr.Aggregates.__add__":
                return self.aggregates_ctor(e)
            inl = self.inline_helper(f.id, None, e)
            if inl is not None:
                return inl
            raise Unsupported(f"call {f.id}")
        if isinstance(f, ast.Attribute):
            dotted = self.dotted(f)
            if dotted == "math.sqrt":
                return f"(P.sqrt {self.ex(e.args[0])})"
            if dotted == "math.exp":
                return f"(P.exp {self.ex(e.args[0])})"
            if dotted == "math.isnan" and len(e.args) == 1:
                return f"(isNaN {self.ex(e.args[0])})"     # the value rendering is over a field: never NaN
            if dotted == "scipy.stats.t":
                return f"(P.t {self.kw(e, 'df')})"
            if dotted == "scipy.stats.nct":
                return f"(P.nct {self.kw(e, 'df')} {self.kw(e, 'nc')})"
            if dotted == "scipy.stats.norm":
                if e.args or any(k.arg != "loc" for k in e.keywords):
                    raise Unsupported("norm(...) arguments")
                loc = [k for k in e.keywords if k.arg == "loc"]
                return f"(P.norm {self.ex(loc[0].value) if loc else f'(0 : {A})'})"
            recv = f.value
            if dotted in ("scipy.stats.norm.sf", "scipy.stats.norm.cdf", "scipy.stats.norm.ppf",
                          "scipy.stats.norm.isf") and len(e.args) == 1 and not e.keywords:
                return f"((P.norm (0 : {A})).{f.attr} {self.ex(e.args[0])})"
            if f.attr in DIST_METHODS:
                if len(e.args) != 1 or e.keywords:
                    raise Unsupported("distribution method arguments")
                return f"({self.ex(recv)}.{f.attr} {self.ex(e.args[0])})"
            if f.attr == "with_zero_div" and not e.args:
                return self.ex(recv)
            if (f.attr == "count" and not e.args and isinstance(recv, ast.Subscript) and isinstance(recv.value, ast.Name)
                    and recv.value.id == "aggr" and isinstance(recv.slice, ast.Name)
                    and recv.slice.id in ("control", "treatment")):
                return f"count_{recv.slice.id}"

            if isinstance(recv, ast.Name) and recv.id == "self" and not self.in_aggr:
                if f.attr == "_scale_and_distr":
                    has_eff = any(k.arg == "effect_size" for k in e.keywords) or len(e.args) > 4
                    key = "mean.RatioOfMeans._scale_and_distr@" + ("some" if has_eff else "none")
                    return self.call_sig(key, "self", e.args, e.keywords)
                if f.attr in SELF_METHODS:
                    return self.call_sig(SELF_METHODS[f.attr], "self", e.args, e.keywords)
                inl = self.inline_helper(f.attr, "self", e)
                if inl is not None:
                    return inl
            if f.attr in AGGR_METHODS:
                args = e.args
                if any(isinstance(a, ast.Starred) for a in args):   # left.cov(*cols)
                    if len(args) != 1 or f.attr != "cov":
                        raise Unsupported("starred call")
                    st = self.ex(args[0].value)
                    return f"({SIGS[AGGR_METHODS[f.attr]]['lean']} {self.ex(recv)} (some {st}.1) (some {st}.2))"
                return self.call_sig(AGGR_METHODS[f.attr], self.ex(recv), args, e.keywords)
        raise Unsupported(ast.dump(e))

    # a filter `if col in self.mean_` on such a comprehension only says which keys exist; the model's
    # dictionaries are total functions (keys are not modelled), so it does not change the value rendering
    def aggregates_ctor(self, e: ast.Call) -> str:
        """`Aggregates(count_=…, mean_={c: E for c in self.mean_}, …)` inside `__add__`:
        a dict comprehension over the receiver's own keys becomes a function of the key."""
        if e.args:
            raise Unsupported("positional Aggregates(...)")
        out = {}
        for kw in e.keywords:
            v = kw.value
            if kw.arg == "count_":
                # `X if self.count_ is not None else None`: the value rendering is under the guard
                if (isinstance(v, ast.IfExp) and isinstance(v.test, ast.Compare)
                        and _is_self_attr(v.test.left, "count_") and isinstance(v.test.ops[0], ast.IsNot)
                        and isinstance(v.orelse, ast.Constant) and v.orelse.value is None):
                    self.guards.append("self.count_ is not None")
                    v = v.body
                out["count_"] = self.ex(v)
            elif kw.arg in ("mean_", "var_", "cov_"):
                if not (isinstance(v, ast.DictComp) and len(v.generators) == 1
                        and all(_is_key_presence(c) for c in v.generators[0].ifs)
                        and _is_self_attr(v.generators[0].iter, kw.arg)
                        and isinstance(v.generators[0].target, ast.Name)
                        and isinstance(v.key, ast.Name) and v.key.id == v.generators[0].target.id):
                    raise Unsupported(f"Aggregates({kw.arg}=…) is not a comprehension over self.{kw.arg}")
                var = v.key.id
                if kw.arg == "cov_":
                    self.types[var] = "String × String"
                    out[kw.arg] = f"fun c0 c1 => let {var} := (c0, c1); {self.ex(v.value)}"
                else:
                    self.types[var] = "String"
                    out[kw.arg] = f"fun {var} => {self.ex(v.value)}"
            else:
                raise Unsupported(f"Aggregates keyword {kw.arg}")
        if set(out) != {"count_", "mean_", "var_", "cov_"}:
            raise Unsupported("Aggregates(...) keywords")
        return "{ " + ", ".join(f"{k} := {v}" for k, v in out.items()) + " }"

    def kw(self, e: ast.Call, name: str) -> str:
        for k in e.keywords:
            if k.arg == name:
                return self.ex(k.value)
        raise Unsupported(f"keyword {name}")

    def find_helper(self, name: str, recv: str | None) -> ast.FunctionDef | None:
        mod = Tr.MODS.get(self.key.split(".")[0])
        if mod is None:
            return None
        target = None
        if recv is None:
            for n in mod.body:
                if isinstance(n, ast.FunctionDef) and n.name == name:
                    target = n
        else:
            for cls in [n for n in mod.body if isinstance(n, ast.ClassDef)]:
                if cls.name in self.key.split("."):
                    for n in cls.body:
                        if isinstance(n, ast.FunctionDef) and n.name == name:
                            target = n
        if target is None or target.decorator_list:
            return None
        return target

    @staticmethod
    def bind_args(target: ast.FunctionDef, recv: str | None, e: ast.Call) -> dict[str, ast.expr] | None:
        a = target.args
        params = [p.arg for p in a.posonlyargs + a.args]
        if recv is not None:
            if not params or params[0] != "self":
                return None
            params = params[1:]
        kwonly = [p.arg for p in a.kwonlyargs]
        if a.vararg or a.kwarg or a.defaults or any(d is not None for d in a.kw_defaults):
            return None
        if len(e.args) > len(params) or any(isinstance(x, ast.Starred) for x in e.args):
            return None
        mapping = dict(zip(params, e.args))
        for kw in e.keywords:
            if kw.arg is None or kw.arg in mapping or kw.arg not in params + kwonly:
                return None
            mapping[kw.arg] = kw.value
        if set(mapping) != set(params + kwonly):
            return None
        return mapping

    def splice_helper(self, s: ast.Assign) -> list[ast.stmt] | None:
        """`x = helper(args)` for a private helper that is not in the signature table and whose body has branches
        (so it cannot be inlined as an expression): its statements are spliced in — arguments bound once to fresh
        names, its locals prefixed, its single final `return e` turned into `x = e`."""
        f = s.value.func
        if len(s.targets) != 1 or not isinstance(s.targets[0], ast.Name):
            return None
        if isinstance(f, ast.Name) and f.id not in FREE_FUNCS and f.id != "_exp":
            name, recv = f.id, None
        elif isinstance(f, ast.Attribute) and isinstance(f.value, ast.Name) and f.value.id == "self" \
                and f.attr not in SELF_METHODS:
            name, recv = f.attr, "self"
        else:
            return None
        target = self.find_helper(name, recv)
        if target is None:
            return None
        body = [x for x in target.body if not (isinstance(x, ast.Expr) and isinstance(x.value, ast.Constant))]
        if not body or not isinstance(body[-1], ast.Return) or body[-1].value is None:
            return None
        if all(isinstance(x, ast.Assign) for x in body[:-1]) and not self.SPLICE_SIMPLE:
            return None     # simple helper: inlined as an expression by inline_helper
        if sum(1 for x in body for n in ast.walk(x) if isinstance(n, ast.Return)) != 1:
            return None
        mapping = self.bind_args(target, recv, s.value)
        if mapping is None:
            return None
        pre = name.strip("_")
        stores = {n.id for x in body for n in ast.walk(x) if isinstance(n, ast.Name) and isinstance(n.ctx, ast.Store)}
        rename = {v: f"{pre}_{v}" for v in stores | set(mapping)}
        sub = _Subst({}, rename)
        out: list[ast.stmt] = [ast.Assign(targets=[ast.Name(id=rename[p], ctx=ast.Store())], value=arg)
                               for p, arg in mapping.items()]
        out += [sub.visit(copy.deepcopy(x)) for x in body[:-1]]
        out.append(ast.Assign(targets=[s.targets[0]], value=sub.visit(copy.deepcopy(body[-1].value))))
        return [ast.fix_missing_locations(x) for x in out]

    def inline_helper(self, name: str, recv: str | None, e: ast.Call) -> str | None:
        """A private helper that is not in the signature table — a module-level function, or a method of the class
        being translated — whose body is `x = …; y = …; return …` is INLINED (parameters replaced by the arguments, its
        locals prefixed): extracting such a helper, or inlining one back, does not change the generated model's meaning."""
        modname = self.key.split(".")[0]
        mod = Tr.MODS.get(modname)
        if mod is None:
            return None
        target = None
        if recv is None:
            for n in mod.body:
                if isinstance(n, ast.FunctionDef) and n.name == name:
                    target = n
        else:
            for cls in [n for n in mod.body if isinstance(n, ast.ClassDef)]:
                if cls.name in self.key.split("."):
                    for n in cls.body:
                        if isinstance(n, ast.FunctionDef) and n.name == name:
                            target = n
        if target is None or target.decorator_list:
            return None
        body = [x for x in target.body if not (isinstance(x, ast.Expr) and isinstance(x.value, ast.Constant))]
        if not body or not isinstance(body[-1], ast.Return) or body[-1].value is None:
            return None
        if not all(isinstance(x, ast.Assign) and len(x.targets) == 1 and isinstance(x.targets[0], ast.Name)
                   for x in body[:-1]):
            return None
        if self.SPLICE_SIMPLE and len(body) > 1:
            return None     # monadic rendering: no `let` inside an expression; such helpers are spliced as statements
        a = target.args
        params = [p.arg for p in a.posonlyargs + a.args]
        if recv is not None:
            if not params or params[0] != "self":
                return None
            params = params[1:]
        kwonly = [p.arg for p in a.kwonlyargs]
        if a.vararg or a.kwarg or a.defaults or any(d is not None for d in a.kw_defaults):
            return None
        if len(e.args) > len(params):
            return None
        mapping = dict(zip(params, e.args))
        for kw in e.keywords:
            if kw.arg is None or kw.arg in mapping or kw.arg not in params + kwonly:
                return None
            mapping[kw.arg] = kw.value
        if set(mapping) != set(params + kwonly):
            return None
        rename = {x.targets[0].id: f"{name.strip('_')}_{x.targets[0].id}" for x in body[:-1]}
        sub = _Subst(mapping, rename)
        out = "("
        for x in body[:-1]:
            val = sub.visit(copy.deepcopy(x.value))
            out += f"let {rename[x.targets[0].id]} := {self.ex(val)}; "
            self.locals.add(rename[x.targets[0].id])
        out += self.ex(sub.visit(copy.deepcopy(body[-1].value))) + ")"
        return out

    def dotted(self, f: ast.expr) -> str:
        if isinstance(f, ast.Attribute):
            return self.dotted(f.value) + "." + f.attr
        if isinstance(f, ast.Name):
            return f.id
        return "?"

    # ---- conditions
    def none_tests(self, t: ast.expr) -> list[str] | None:
        """`x is None` or `x is None or y is None` -> [x, y]"""
        if (isinstance(t, ast.Compare) and isinstance(t.ops[0], ast.Is) and isinstance(t.left, ast.Name)
                and isinstance(t.comparators[0], ast.Constant) and t.comparators[0].value is None):
            return [t.left.id]
        if isinstance(t, ast.BoolOp) and isinstance(t.op, ast.Or):
            out = []
            for v in t.values:
                r = self.none_tests(v)
                if r is None:
                    return None
                out += r
            return out
        return None

    def cond(self, t: ast.expr) -> str:
        if isinstance(t, ast.Attribute) and self.typ(t) == "Bool":
            return f"{self.ex(t)} = true"
        if isinstance(t, ast.Call) and self.dotted(t.func) == "math.isnan":
            return f"{self.ex(t)} = true"
        if isinstance(t, ast.UnaryOp) and isinstance(t.op, ast.Not):
            return f"¬ ({self.cond(t.operand)})"
        if isinstance(t, ast.BoolOp):
            op = " ∧ " if isinstance(t.op, ast.And) else " ∨ "
            return "(" + op.join(self.cond(v) for v in t.values) + ")"
        return self.ex(t)

    # ---- statements (continuation style)
    def stmts(self, body: list[ast.stmt], ind: str) -> str:  # noqa: C901
        if not body:
            raise Unsupported("fell off the end of a function")
        s, rest = body[0], body[1:]
        if isinstance(s, ast.Expr) and isinstance(s.value, ast.Constant):   # docstring
            return self.stmts(rest, ind)
        if isinstance(s, ast.Match):
            # `match subject: case "a": … case "b": … case _: …`  ==  an if / elif / else chain on `subject == "…"`
            chain: list[ast.stmt] | None = None
            for case in reversed(s.cases):
                if case.guard is not None:
                    raise Unsupported("match guard")
                if isinstance(case.pattern, ast.MatchAs) and case.pattern.pattern is None and case.pattern.name is None:
                    if chain is not None:
                        raise Unsupported("wildcard case is not last")
                    chain = list(case.body)
                elif isinstance(case.pattern, ast.MatchValue) and isinstance(case.pattern.value, ast.Constant):
                    test = ast.Compare(left=copy.deepcopy(s.subject), ops=[ast.Eq()], comparators=[case.pattern.value])
                    chain = [ast.If(test=test, body=list(case.body), orelse=chain or [])]
                else:
                    raise Unsupported("match pattern")
            return self.stmts((chain or []) + rest, ind)
        if isinstance(s, ast.AnnAssign) and s.value is not None and s.simple:
            return self.stmts([ast.Assign(targets=[s.target], value=s.value)] + rest, ind)
        if isinstance(s, ast.Return):
            if s.value is None:
                raise Unsupported("bare return")
            return ind + self.ex(s.value)
        if isinstance(s, ast.If) and is_call_to(s.test, "isinstance") and len(s.body) == 1 and len(s.orelse) == 1 \
                and all(isinstance(x, ast.Assign) and len(x.targets) == 1 and isinstance(x.targets[0], ast.Name)
                        for x in (s.body[0], s.orelse[0])) and s.body[0].targets[0].id == s.orelse[0].targets[0].id:
            # `if isinstance(…): x = a  else: x = b`  ==  `x = a if isinstance(…) else b`
            return self.stmts([ast.Assign(targets=[s.body[0].targets[0]], value=ast.IfExp(
                test=s.test, body=s.body[0].value, orelse=s.orelse[0].value))] + rest, ind)
        if isinstance(s, ast.Assign) and isinstance(s.value, ast.Call):
            sp = self.splice_helper(s)
            if sp is not None:
                return self.stmts(sp + rest, ind)
        if (isinstance(s, ast.Assign) and isinstance(s.value, ast.Call)
                and self.dotted(s.value.func).endswith("aggregate_by_variants")):
            return f"{ind}-- {ast.unparse(s.targets[0])} = aggregate_by_variants(…): the per-variant counts are parameters\n" \
                + self.stmts(rest, ind)
        if isinstance(s, ast.Assign):
            val = self.ex(s.value)
            for tgt in s.targets:
                if isinstance(tgt, ast.Name):
                    self.locals.add(tgt.id)
            out = ""
            for tgt in s.targets:
                if isinstance(tgt, ast.Name):
                    out += f"{ind}let {tgt.id} := {val}\n"
                    t = self.typ(s.value) if isinstance(s.value, (ast.Name, ast.Attribute, ast.Call)) else None
                    if t:
                        self.types[tgt.id] = t
                    else:
                        self.types.pop(tgt.id, None)
                elif isinstance(tgt, ast.Tuple):
                    names = ", ".join(x.id if isinstance(x, ast.Name) else "_" for x in tgt.elts)
                    out += f"{ind}let ({names}) := {val}\n"
                else:
                    raise Unsupported(ast.dump(tgt))
            return out + self.stmts(rest, ind)
        if isinstance(s, ast.If) and len(s.body) == 1 and isinstance(s.body[0], ast.Raise) and not s.orelse:
            # a guard that raises: the value rendering is stated under the guard
            self.guards.append(ast.unparse(s.test))
            return f"{ind}-- guard (raises in Python): {ast.unparse(s.test)}\n" + self.stmts(rest, ind)
        if isinstance(s, ast.If):
            nt = self.none_tests(s.test)
            if nt is not None:      # early-return on None: nested match
                then = self.stmts(s.body if _returns(s.body) else s.body + rest, ind + "    ")
                els = self.stmts((s.orelse if _returns(s.orelse) else s.orelse + rest) if s.orelse else rest,
                                 ind + "    ")
                return self.match_none(nt, then, els, ind)
            saved = dict(self.types)
            then = self.stmts(s.body if _returns(s.body) else s.body + rest, ind + "  ")
            self.types = dict(saved)
            els = self.stmts((s.orelse if _returns(s.orelse) else s.orelse + rest) if s.orelse else rest,
                             ind + "  ")
            return f"{ind}if {self.cond(s.test)} then\n{then}\n{ind}else\n{els}"
        raise Unsupported(ast.dump(s))

    def match_none(self, names: list[str], then: str, els: str, ind: str) -> str:
        scrut = ", ".join(names)
        somes = ", ".join(f"some {n}" for n in names)
        wild = ", ".join("_" for _ in names)
        saved = {n: self.types.get(n) for n in names}
        return (f"{ind}match {scrut} with\n{ind}| {somes} =>\n{els}\n{ind}| {wild} =>\n{then}")

    def render(self) -> str:
        sig = self.sig
        params = " ".join(f"({n} : {t})" for n, t in sig["params"])
        pr = f"(P : Prims {A}) " if sig.get("prims") else ""
        if sig.get("rpow"):
            pr += f"(rpow : {A} → {A} → {A}) "
        if sig.get("binom"):
            pr += f"(binomtest : {A} → {A} → {A} → {A}) "
        # inside the `some` branch of a match on Option String the name is a String
        body = self.stmts(self.fn.body, "  ")
        return f"def {sig['lean']} {pr}{params} : {sig['ret']} :=\n{body}\n"


def _returns(body: list[ast.stmt]) -> bool:
    return bool(body) and isinstance(body[-1], ast.Return)


def find(mods: dict[str, ast.Module], key: str) -> ast.FunctionDef:
    modname, *path = key.split(".")
    node: ast.AST = mods[modname]
    for name in path:
        for ch in ast.iter_child_nodes(node):
            if isinstance(ch, (ast.FunctionDef, ast.ClassDef)) and ch.name == name:
                if isinstance(ch, ast.FunctionDef) and any(
                        isinstance(d, ast.Name) and d.id == "overload" for d in ch.decorator_list):
                    continue
                node = ch
                break
        else:
            raise Unsupported(f"{key}: {name} not found")
    if not isinstance(node, ast.FunctionDef):
        raise Unsupported(f"{key}: not a function")
    return inline_bool_temps(node)


def _is_boolish(e: ast.expr) -> bool:
    if isinstance(e, (ast.Compare, ast.BoolOp)):
        return True
    if isinstance(e, ast.UnaryOp) and isinstance(e.op, ast.Not):
        return True
    return isinstance(e, ast.Call) and ast.unparse(e.func) in ("math.isnan", "isinstance")


def inline_bool_temps(fn: ast.FunctionDef) -> ast.FunctionDef:
    """Meaning-preserving normalisation of the translator's INPUT: a local that is assigned exactly once, to a boolean
    expression (a comparison, and/or/not, math.isnan(..)), whose operands are not assigned again afterwards, and that is
    only read, is replaced by that expression wherever it is read; the assignment is dropped.  (`flag = a is None` ...
    `x if flag else y` is then the `x if a is None else y` the translator knows.)"""
    import copy
    assigns: dict[str, list[ast.stmt]] = {}
    for n in ast.walk(fn):
        tg = []
        if isinstance(n, ast.Assign):
            tg = n.targets
        elif isinstance(n, (ast.AnnAssign, ast.AugAssign)):
            tg = [n.target]
        elif isinstance(n, (ast.For, ast.comprehension)):
            tg = [n.target]
        for t in tg:
            for x in ast.walk(t):
                if isinstance(x, ast.Name):
                    assigns.setdefault(x.id, []).append(n)
    params = {a.arg for a in fn.args.args + fn.args.kwonlyargs}
    cand: dict[str, ast.expr] = {}
    for name, sts in assigns.items():
        if len(sts) != 1 or name in params:
            continue
        st = sts[0]
        if not (isinstance(st, ast.Assign) and len(st.targets) == 1 and isinstance(st.targets[0], ast.Name)
                and _is_boolish(st.value)):
            continue
        ok = True
        for x in ast.walk(st.value):
            if isinstance(x, ast.Name) and x.id != name:
                for a in assigns.get(x.id, []):
                    if getattr(a, "lineno", 0) > st.lineno:      # an operand is reassigned later: not safe
                        ok = False
        if ok:
            cand[name] = st.value
    if not cand:
        return fn

    class Sub(ast.NodeTransformer):
        def visit_Name(self, node):  # noqa: N802
            if isinstance(node.ctx, ast.Load) and node.id in cand:
                return self.visit(copy.deepcopy(cand[node.id]))
            return node

        def visit_Assign(self, node):  # noqa: N802
            if len(node.targets) == 1 and isinstance(node.targets[0], ast.Name) and node.targets[0].id in cand:
                return None
            return self.generic_visit(node)
    new = Sub().visit(copy.deepcopy(fn))
    ast.fix_missing_locations(new)
    return new


def mean_ctor_map(mods: dict[str, ast.Module]) -> str:
    """`Mean.__init__` -> `RatioOfMeans.__init__` argument map for the four column roles."""
    fn = find(mods, "mean.Mean.__init__")
    calls = [n for n in ast.walk(fn) if isinstance(n, ast.Call) and isinstance(n.func, ast.Attribute)
             and n.func.attr == "__init__" and isinstance(n.func.value, ast.Call)
             and isinstance(n.func.value.func, ast.Name) and n.func.value.func.id == "super"]
    if len(calls) != 1 or calls[0].args:
        raise Unsupported("Mean.__init__: super().__init__ call")
    kws = {k.arg: k.value for k in calls[0].keywords}
    out = {}
    for role in ("numer", "denom", "numer_covariate", "denom_covariate"):
        v = kws.get(role)
        if isinstance(v, ast.Constant) and v.value is None:
            out[role] = "none"
        elif isinstance(v, ast.Name) and v.id == "value":
            out[role] = "value"
        elif isinstance(v, ast.Name) and v.id == "covariate":
            out[role] = "covariate"
        else:
            raise Unsupported(f"Mean.__init__: role {role}")
    if out["numer"] != "value":
        raise Unsupported("Mean.__init__: numer")
    for role in ("denom", "numer_covariate", "denom_covariate"):
        if out[role] == "value":
            out[role] = "(some value)"
    passthrough = ["alternative", "confidence_level", "equal_var", "use_t", "alpha", "ratio", "power"]
    for p in passthrough:
        v = kws.get(p)
        if not (isinstance(v, ast.Name) and v.id == p):
            raise Unsupported(f"Mean.__init__: parameter {p} is not passed through")
    return (
        f"-- mean.Mean.__init__: the column roles handed to RatioOfMeans.__init__\n"
        f"def Mean.cfg (value : String) (covariate : Option String) (base : RatioCfg {A}) : RatioCfg {A} :=\n"
        f"  {{ base with numer := {out['numer']}, denom := {out['denom']}, "
        f"numer_covariate := {out['numer_covariate']}, denom_covariate := {out['denom_covariate']} }}\n")


def benjamini_m_adj(mods: dict[str, ast.Module]) -> str:
    """`_Benjamini.__init__`:  m_adj_ = m * sum(1 / i for i in range(1, m + 1)) if arbitrary_dependence else m"""
    fn = find(mods, "mult._Benjamini.__init__")
    tgt = [n for n in ast.walk(fn) if isinstance(n, ast.Assign) and len(n.targets) == 1
           and _is_self_attr(n.targets[0], "m_adj_")]
    alpha_ok = any(isinstance(n, ast.Assign) and _is_self_attr(n.targets[0], "alpha")
                   and isinstance(n.value, ast.Name) and n.value.id == "alpha" for n in ast.walk(fn))
    if not tgt:
        tgt = [n for n in ast.walk(fn) if isinstance(n, ast.AnnAssign) and n.value is not None
               and _is_self_attr(n.target, "m_adj_")]
        tgt = [ast.Assign(targets=[n.target], value=n.value) for n in tgt]
    if len(tgt) == 2:
        # `if c: self.m_adj_ = a  else: self.m_adj_ = b`  ==  `self.m_adj_ = a if c else b`
        for n in ast.walk(fn):
            if isinstance(n, ast.If) and len(n.body) == 1 and len(n.orelse) == 1 \
                    and {id(n.body[0]), id(n.orelse[0])} == {id(t) for t in tgt}:
                tgt = [ast.Assign(targets=[n.body[0].targets[0]],
                                  value=ast.IfExp(test=n.test, body=n.body[0].value, orelse=n.orelse[0].value))]
                break
    if len(tgt) != 1 or not alpha_ok:
        raise Unsupported("_Benjamini.__init__ shape")
    v = tgt[0].value
    # the bound variable of the harmonic sum may have any name
    for g in [n for n in ast.walk(v) if isinstance(n, (ast.GeneratorExp, ast.ListComp))]:
        if len(g.generators) == 1 and isinstance(g.generators[0].target, ast.Name):
            old_name = g.generators[0].target.id
            if old_name not in ("m", "arbitrary_dependence"):
                for x in ast.walk(g):
                    if isinstance(x, ast.Name) and x.id == old_name:
                        x.id = "i"
    want = "m * sum((1 / i for i in range(1, m + 1))) if arbitrary_dependence else m"
    if ast.unparse(v) != want:
        raise Unsupported(f"_Benjamini.__init__: m_adj_ = {ast.unparse(v)}")
    return (f"-- mult._Benjamini.__init__\n"
            f"def Benjamini.mk (alpha : {A}) (m : ℕ) (arbitrary_dependence : Bool) : BenjaminiCfg {A} :=\n"
            f"  {{ alpha := alpha, m_adj_ := if arbitrary_dependence = true then (m : {A}) * harmonic m else (m : {A}) }}\n")


def generate(src: Path, refused: dict[str, str] | None = None) -> dict[str, str]:
    """Return {module name: lean source}.  A construct outside the supported fragment raises Unsupported — or, when a
    dict `refused` is passed, is recorded there per generated module ({module: reason}) and that module is left out
    (the caller falls back to the snapshot for it and reports the tie of the properties that depend on it as broken)."""
    def attempt(mod, fn):
        if refused is None:
            return fn()
        if mod in refused:
            return None
        try:
            return fn()
        except Unsupported as ex:
            refused[mod] = str(ex)
            return None

    mods = {m: ast.parse((src / f).read_text()) for m, f in MODULE_SOURCE.items()}
    Tr.MODS = mods
    out: dict[str, list[str]] = {}
    guards: dict[str, list[str]] = {}
    for m, tree in mods.items():
        MODULE_CONSTS[m] = {n.targets[0].id: n.value.value for n in tree.body
                            if isinstance(n, ast.Assign) and len(n.targets) == 1 and isinstance(n.targets[0], ast.Name)
                            and isinstance(n.value, ast.Constant) and isinstance(n.value.value, int)
                            and not isinstance(n.value.value, bool)}
    for key, sig in SIGS.items():
        def one(key=key, sig=sig):
            fn = find(mods, sig.get("py", key))
            tr = Tr(key, sig, fn)
            text = f"-- {sig.get('py', key)}\n" + tr.render()
            return text, tr.guards
        r = attempt(sig["mod"], one)
        if r is None:
            continue
        text, g = r
        out.setdefault(sig["mod"], []).append(text)
        if key == "aggr.Aggregates.__add__":   # Python dispatches `a + b` on Aggregates to __add__
            out[sig["mod"]].append(f"instance : Add (Aggr {A}) := ⟨Aggr.add⟩\n")
        if g:
            guards[key] = g

    def mean_extras():
        exp_fn = find(mods, "mean._exp")
        if "\n".join(ast.unparse(x) for x in exp_fn.body
                     if not (isinstance(x, ast.Expr) and isinstance(x.value, ast.Constant))) != (
                "try:\n    return math.exp(x)\nexcept OverflowError:\n    return float('inf')"):
            raise Unsupported("mean._exp is not `math.exp saturating to inf`")
        return mean_ctor_map(mods)
    r = attempt("Mean", mean_extras)
    if r is not None:
        out["Mean"].append(r)
    r = attempt("Multiplicity", lambda: benjamini_m_adj(mods))
    if r is not None:
        out["Multiplicity"].append(r)
    files = {}
    for mod, parts in out.items():
        if refused is not None and mod in refused:
            continue
        hdr = ("-- GENERATED by harness/translate.py from /repo/src/tea_tasting — do not edit.\n"
               + MODULE_HEADER[mod] + "\n"
               + f"variable {{{A} : Type}} [Field {A}] [LinearOrder {A}] [IsStrictOrderedRing {A}]\n\n"
               + "namespace Gen\n\n")
        gl = "".join(f"-- guard {k}: {g}\n" for k, gs in guards.items() if SIGS[k]["mod"] == mod for g in gs)
        files[mod] = hdr + "\n".join(parts) + "\n" + gl + "end Gen\n"
    for mod, fn in (("Utils", generate_utils), ("Config", generate_config), ("Solve", generate_solve),
                    ("Safe", generate_safe), ("MultLoops", generate_mult_loops), ("Pairs", generate_pairs)):
        r = attempt(mod, lambda fn=fn: fn(src))
        if r is not None:
            files[mod] = r
    return files



# ------------------------------------------------------------------------------------------
# utils.check_scalar / utils.auto_check  ->  Gen/Utils.lean  (Python values: Basic/PyVal.lean)
# ------------------------------------------------------------------------------------------
TYP_NAMES = {"float": ".float", "int": ".int", "bool": ".bool", "str": ".str", "Sequence": ".seq", "dict": ".dict"}
CMP_FN = {ast.Lt: "PyVal.pyLt", ast.LtE: "PyVal.pyLe", ast.Gt: "PyVal.pyGt", ast.GtE: "PyVal.pyGe"}
CHECK_KW = ("typ", "ge", "gt", "le", "lt", "ne", "in_")


def typ_list(e: ast.expr) -> list[str]:
    if isinstance(e, ast.BinOp) and isinstance(e.op, ast.BitOr):
        return typ_list(e.left) + typ_list(e.right)
    if isinstance(e, ast.Constant) and e.value is None:
        return [".none"]
    if isinstance(e, ast.Name) and e.id in TYP_NAMES:
        return [TYP_NAMES[e.id]]
    raise Unsupported(f"typ expression {ast.unparse(e)}")


def pyval_lit(e: ast.expr) -> str:
    if isinstance(e, ast.Constant):
        v = e.value
        if v is None:
            return "PyVal.none"
        if isinstance(v, bool):
            return f"(PyVal.bool {'true' if v else 'false'})"
        if isinstance(v, int):
            return f"(PyVal.int {v})" if v >= 0 else f"(PyVal.int ({v}))"
        if isinstance(v, float):
            num, den = v.as_integer_ratio()
            return f"(PyVal.float (XR.fin (({num} : ℚ) / {den})))"
        if isinstance(v, str):
            return f"(PyVal.str \"{v}\")"
    if isinstance(e, ast.UnaryOp) and isinstance(e.op, ast.USub) and isinstance(e.operand, ast.Constant):
        return pyval_lit(ast.Constant(value=-e.operand.value))
    if (isinstance(e, ast.Call) and isinstance(e.func, ast.Name) and e.func.id == "float"
            and len(e.args) == 1 and isinstance(e.args[0], ast.Constant)):
        t = {"inf": "XR.pinf", "+inf": "XR.pinf", "-inf": "XR.ninf", "nan": "XR.nan"}.get(e.args[0].value)
        if t:
            return f"(PyVal.float {t})"
    raise Unsupported(f"literal {ast.unparse(e)}")


def check_args(call: ast.Call) -> str:
    """keyword arguments of a check_scalar(...) call -> a CheckArgs structure literal"""
    parts = []
    for kw in call.keywords:
        if kw.arg == "name":
            continue
        if kw.arg not in CHECK_KW:
            raise Unsupported(f"check_scalar keyword {kw.arg}")
        if kw.arg == "typ":
            parts.append(f"typ := some [{', '.join(typ_list(kw.value))}]")
        elif kw.arg == "in_":
            if not isinstance(kw.value, (ast.Set, ast.Tuple, ast.List)):
                raise Unsupported("in_ is not a literal collection")
            parts.append(f"in_ := some [{', '.join(pyval_lit(x) for x in kw.value.elts)}]")
        else:
            parts.append(f"{kw.arg} := some {pyval_lit(kw.value)}")
    return "{ " + ", ".join(parts) + " }"


def is_call_to(e: ast.expr, fname: str) -> bool:
    if not isinstance(e, ast.Call):
        return False
    f = e.func
    return (isinstance(f, ast.Name) and f.id == fname) or (isinstance(f, ast.Attribute) and f.attr == fname)


def tr_check_scalar(fn: ast.FunctionDef) -> str:
    """the guard chain of check_scalar: `if K is not None and COND: raise E(...)` … `return value`"""
    lines = ["def checkScalar (value : PyVal) (a : CheckArgs) : Except PyErr PyVal := do"]
    body = [s for s in fn.body if not (isinstance(s, ast.Expr) and isinstance(s.value, ast.Constant))]
    if not (body and isinstance(body[-1], ast.Return) and isinstance(body[-1].value, ast.Name)
            and body[-1].value.id == "value"):
        raise Unsupported("check_scalar does not end with `return value`")
    for st in body[:-1]:
        if not (isinstance(st, ast.If) and not st.orelse and len(st.body) == 1 and isinstance(st.body[0], ast.Raise)):
            raise Unsupported(f"check_scalar statement {ast.unparse(st)[:60]}")
        t = st.test
        if not (isinstance(t, ast.BoolOp) and isinstance(t.op, ast.And) and len(t.values) == 2):
            raise Unsupported("check_scalar guard shape")
        g, cond = t.values
        if not (isinstance(g, ast.Compare) and isinstance(g.ops[0], ast.IsNot) and isinstance(g.left, ast.Name)
                and g.left.id in CHECK_KW):
            raise Unsupported("check_scalar guard: `K is not None`")
        k = g.left.id
        exc = st.body[0].exc
        ename = exc.func.id if isinstance(exc, ast.Call) and isinstance(exc.func, ast.Name) else None
        err = {"TypeError": "PyErr.typeError", "ValueError": "PyErr.valueError"}.get(ename)
        if err is None:
            raise Unsupported(f"check_scalar raises {ename}")
        lines.append(f"  if let some {k} := a.{k} then")
        lines.append(f"    if {tr_check_cond(cond, k)} then throw {err}")
    lines.append("  pure value")
    return "\n".join(lines) + "\n"


def tr_check_cond(c: ast.expr, k: str) -> str:
    neg = False
    if isinstance(c, ast.UnaryOp) and isinstance(c.op, ast.Not):
        neg, c = True, c.operand
    if is_call_to(c, "isinstance"):
        if not (isinstance(c.args[0], ast.Name) and c.args[0].id == "value"
                and isinstance(c.args[1], ast.Name) and c.args[1].id == k):
            raise Unsupported("isinstance arguments")
        r = f"(PyVal.isinstanceAny value {k})"
    elif isinstance(c, ast.Compare) and len(c.ops) == 1 and isinstance(c.left, ast.Name) and c.left.id == "value" \
            and isinstance(c.comparators[0], ast.Name) and c.comparators[0].id == k:
        op = c.ops[0]
        if type(op) in CMP_FN:
            r = f"(← {CMP_FN[type(op)]} value {k})"
        elif isinstance(op, ast.Eq):
            r = f"(PyVal.pyEq value {k})"
        elif isinstance(op, ast.NotEq):
            r = f"(!(PyVal.pyEq value {k}))"
        elif isinstance(op, ast.NotIn):
            r = f"(!(PyVal.pyIn value {k}))"
        elif isinstance(op, ast.In):
            r = f"(PyVal.pyIn value {k})"
        else:
            raise Unsupported(f"comparison {ast.unparse(c)}")
    else:
        raise Unsupported(f"condition {ast.unparse(c)}")
    return f"!{r}" if neg else r


class TrAuto:
    """auto_check: if/elif on `name == "…"`, check_scalar calls, isinstance tests, one for-loop"""

    def stmts(self, body: list[ast.stmt], ind: str, var: str = "value") -> list[str]:
        out: list[str] = []
        for st in body:
            if isinstance(st, ast.Expr) and isinstance(st.value, ast.Constant):
                continue
            if isinstance(st, ast.Expr) and is_call_to(st.value, "check_scalar"):
                call = st.value
                if not (call.args and isinstance(call.args[0], ast.Name)):
                    raise Unsupported("check_scalar first argument")
                out.append(f"{ind}let _ ← checkScalar {call.args[0].id} {check_args(call)}")
            elif isinstance(st, ast.If):
                out += self.if_(st, ind, first=True)
            elif isinstance(st, ast.For):
                if not (isinstance(st.target, ast.Name) and isinstance(st.iter, ast.Name) and not st.orelse):
                    raise Unsupported("for loop shape")
                out.append(f"{ind}(PyVal.iter {st.iter.id}).forM (fun {st.target.id} => do")
                out += self.stmts(st.body, ind + "  ")
                out.append(f"{ind}  pure ())")
            elif isinstance(st, ast.Return):
                if not (isinstance(st.value, ast.Name) and st.value.id == "value"):
                    raise Unsupported("auto_check return")
                out.append(f"{ind}return value")
            else:
                raise Unsupported(f"auto_check statement {ast.unparse(st)[:60]}")
        return out

    def test(self, t: ast.expr) -> str:
        if (isinstance(t, ast.Compare) and isinstance(t.ops[0], ast.Eq) and isinstance(t.left, ast.Name)
                and t.left.id == "name" and isinstance(t.comparators[0], ast.Constant)):
            return f"name = \"{t.comparators[0].value}\""
        if is_call_to(t, "isinstance") and isinstance(t.args[0], ast.Name):
            return f"PyVal.isinstanceAny {t.args[0].id} [{', '.join(typ_list(t.args[1]))}]"
        raise Unsupported(f"auto_check test {ast.unparse(t)}")

    def if_(self, st: ast.If, ind: str, first: bool) -> list[str]:
        out = [f"{ind}{'if' if first else 'else if'} {self.test(st.test)} then"]
        out += self.stmts(st.body, ind + "  ") or [f"{ind}  pure ()"]
        if st.orelse:
            if len(st.orelse) == 1 and isinstance(st.orelse[0], ast.If):
                out += self.if_(st.orelse[0], ind, first=False)
            else:
                out.append(f"{ind}else")
                out += self.stmts(st.orelse, ind + "  ")
        return out


ENTRY_POINTS = [
    # (module key, dotted function, entry name)
    ("mean", "RatioOfMeans.__init__", "RatioOfMeans"),
    ("mean", "Mean.__init__", "Mean"),
    ("proportion", "SampleRatio.__init__", "SampleRatio"),
    ("resampling", "Bootstrap.__init__", "Bootstrap"),
    ("resampling", "Quantile.__init__", "Quantile"),
    ("multiplicity", "adjust_fdr", "adjust_fdr"),
    ("multiplicity", "adjust_fwer", "adjust_fwer"),
    ("datasets", "_check_params", "make_data"),
    ("experiment", "Experiment.__init__", "Experiment"),
    ("mean", "RatioOfMeans.solve_power_from_aggregates", "solve_power"),
]
ENTRY_SOURCES = {"proportion": "metrics/proportion.py", "resampling": "metrics/resampling.py",
                 "multiplicity": "multiplicity.py", "datasets": "datasets.py", "experiment": "experiment.py",
                 "config": "config.py", "utils": "utils.py"}


def inline_stmt_helpers(fn: ast.FunctionDef, module: ast.Module, depth: int = 2) -> ast.FunctionDef:
    """A copy of `fn` in which every statement `_helper(args)` / `self._helper(args)` calling a private function of the same
    module (or method of the same class) whose body returns nothing is replaced by that body, parameters substituted:
    validation moved into a helper is still validation of the constructor's parameters."""
    funcs = {n.name: n for n in module.body if isinstance(n, ast.FunctionDef)}
    for cls in module.body:
        if isinstance(cls, ast.ClassDef) and fn in cls.body:
            funcs.update({"self." + n.name: n for n in cls.body if isinstance(n, ast.FunctionDef)})

    def expand(stmts: list[ast.stmt], d: int) -> list[ast.stmt]:
        out: list[ast.stmt] = []
        for st in stmts:
            call = st.value if isinstance(st, ast.Expr) and isinstance(st.value, ast.Call) else None
            key = None
            if call is not None and isinstance(call.func, ast.Name):
                key = call.func.id
            elif call is not None and isinstance(call.func, ast.Attribute) and isinstance(call.func.value, ast.Name) \
                    and call.func.value.id == "self":
                key = "self." + call.func.attr
            tgt = funcs.get(key) if key and key.split(".")[-1].startswith("_") and not key.endswith("__init__") else None
            if tgt is not None and d > 0 and not any(isinstance(n, ast.Return) and n.value is not None
                                                     for n in ast.walk(tgt)):
                mapping = Tr.bind_args(tgt, "self" if key.startswith("self.") else None, call)
                if mapping is not None:
                    body = [x for x in tgt.body if not (isinstance(x, ast.Expr) and isinstance(x.value, ast.Constant))]
                    sub = _Subst(mapping, {})
                    out += expand([sub.visit(copy.deepcopy(x)) for x in body], d - 1)
                    continue
            for fld in ("body", "orelse", "finalbody"):
                if isinstance(getattr(st, fld, None), list) and getattr(st, fld) and isinstance(getattr(st, fld)[0], ast.stmt):
                    setattr(st, fld, expand(getattr(st, fld), d))
            out.append(st)
        return out
    new = copy.deepcopy(fn)
    # map the class lookup through the copy: `fn in cls.body` above used the original
    new.body = expand(new.body, depth)
    return ast.fix_missing_locations(new)


def entry_rows(mods: dict[str, ast.Module]) -> tuple[list[str], list[str]]:
    """(entry, parameter) -> the check applied, extracted by pattern from every entry point"""
    rows, args_defs = [], []
    for mod, dotted, entry in ENTRY_POINTS:
        try:
            fn = inline_stmt_helpers(find(mods, f"{mod}.{dotted}"), mods[mod])
        except Unsupported:
            continue
        params = {a.arg for a in fn.args.posonlyargs + fn.args.args + fn.args.kwonlyargs} - {"self"}
        passthrough: set[str] = set()
        for node in ast.walk(fn):
            # Mean.__init__ forwards its parameters to RatioOfMeans.__init__
            if (isinstance(node, ast.Call) and isinstance(node.func, ast.Attribute) and node.func.attr == "__init__"):
                for kw in node.keywords:
                    if isinstance(kw.value, ast.Name) and kw.value.id in params and kw.arg == kw.value.id:
                        passthrough.add(kw.arg)
        # the config fallback: `X if p is not None else get_config("name")`
        fallback: dict[str, str] = {}
        for node in ast.walk(fn):
            if isinstance(node, ast.IfExp) and is_call_to(node.orelse, "get_config") and node.orelse.args \
                    and isinstance(node.orelse.args[0], ast.Constant):
                t = node.test
                if isinstance(t, ast.Compare) and isinstance(t.left, ast.Name) and isinstance(t.ops[0], ast.IsNot):
                    fallback[t.left.id] = node.orelse.args[0].value
        # calls inside `for v in <param>[.values()]:` check the elements of the parameter
        in_loop: dict[int, str] = {}
        for node in ast.walk(fn):
            if isinstance(node, ast.For) and isinstance(node.target, ast.Name):
                it = node.iter
                base = it.func.value if (isinstance(it, ast.Call) and isinstance(it.func, ast.Attribute)) else it
                if isinstance(base, ast.Name) and base.id in params:
                    for sub in ast.walk(node):
                        if (isinstance(sub, ast.Call) and sub.args and isinstance(sub.args[0], ast.Name)
                                and sub.args[0].id == node.target.id):
                            in_loop[id(sub)] = base.id
        seen = set()
        for node in ast.walk(fn):
            if not isinstance(node, ast.Call) or not node.args or not isinstance(node.args[0], ast.Name):
                continue
            each = id(node) in in_loop
            p = in_loop.get(id(node), node.args[0].id)
            if p not in params:
                continue
            if is_call_to(node, "auto_check") and len(node.args) > 1 and isinstance(node.args[1], ast.Constant):
                kind = f"CheckKind.{'autoEach' if each else 'auto'} \"{node.args[1].value}\""
                key = (entry, p, kind)
                if key in seen:
                    continue
                seen.add(key)
                fb = f"some \"{fallback[p]}\"" if p in fallback else "none"
                rows.append(f"  {{ entry := \"{entry}\", param := \"{p}\", kind := {kind}, fromConfig := {fb} }}")
            elif is_call_to(node, "check_scalar"):
                nm = f"{entry}_{p}{'_each' if each else ''}".replace(".", "_")
                key = (entry, p, "scalar" + ("Each" if each else ""))
                if key in seen:
                    continue
                seen.add(key)
                try:
                    ca = check_args(node)
                except Unsupported:      # non-literal bound / class outside the modelled universe
                    rows.append(f"  {{ entry := \"{entry}\", param := \"{p}\", kind := CheckKind.opaque }}")
                    continue
                args_defs.append(f"def args_{nm} : CheckArgs := {ca}\n")
                rows.append(f"  {{ entry := \"{entry}\", param := \"{p}\", "
                            f"kind := CheckKind.{'scalarEach' if each else 'scalar'} }}")
        for p in sorted(passthrough):
            rows.append(f"  {{ entry := \"{entry}\", param := \"{p}\", kind := CheckKind.forwarded }}")
    # set_config validates every keyword through auto_check(value, name); config_context calls set_config
    try:
        sc = find(mods, "config.set_config")
        loop_ok = any(isinstance(n, (ast.For, ast.DictComp)) and any(
            is_call_to(c, "auto_check") and len(c.args) == 2 and all(isinstance(a, ast.Name) for a in c.args)
            for c in ast.walk(n)) for n in ast.walk(sc))
        if loop_ok:
            for a in sc.args.kwonlyargs:
                rows.append(f"  {{ entry := \"set_config\", param := \"{a.arg}\", kind := CheckKind.auto \"{a.arg}\" }}")
        cc = find(mods, "config.config_context")
        if any(is_call_to(n, "set_config") for n in ast.walk(cc)):
            for a in cc.args.kwonlyargs:
                rows.append(f"  {{ entry := \"config_context\", param := \"{a.arg}\", kind := CheckKind.forwarded }}")
    except Unsupported:
        pass
    return rows, args_defs


def generate_utils(src: Path) -> str:
    mods = {"utils": ast.parse((src / "utils.py").read_text())}
    for k, f in ENTRY_SOURCES.items():
        mods[k] = ast.parse((src / f).read_text())
    mods["mean"] = ast.parse((src / "metrics" / "mean.py").read_text())
    cs = find(mods, "utils.check_scalar")
    ac = find(mods, "utils.auto_check")
    want = ["value", "name", "typ", "ge", "gt", "le", "lt", "ne", "in_"]
    have = [a.arg for a in cs.args.args + cs.args.kwonlyargs]
    if have != want:
        raise Unsupported(f"check_scalar signature {have}")
    auto = ["def autoCheck (value : PyVal) (name : String) : Except PyErr PyVal := do"] + TrAuto().stmts(ac.body, "  ")
    rows, args_defs = entry_rows(mods)
    dv = find(mods, "utils.div")
    exp_div = ast.parse("def div(numer, denom, fill_zero_div='auto'):\n    if denom != 0:\n        return numer / denom\n"
                        "    if fill_zero_div != 'auto':\n        return fill_zero_div\n"
                        "    return float('inf') if numer > 0 else float('nan')").body[0]
    if [a.arg for a in dv.args.args] != ["numer", "denom", "fill_zero_div"] or decision_tree(dv) != decision_tree(exp_div):
        # compared as decision trees (tests in order, returned expression per leaf): if / elif / early return /
        # a result variable / a conditional expression are the same function
        raise Unsupported("utils.div body changed")
    div_lean = (f"-- utils.div, fill_zero_div = \"auto\"; `quot` is what `numer / denom` evaluates to\n"
                "def divAuto (numer denom quot : XR) : XR :=\n"
                "  if !(XR.eq denom (XR.fin 0)) then quot\n"
                "  else if XR.lt (XR.fin 0) numer then XR.pinf else XR.nan\n\n")
    return ("-- GENERATED by harness/translate.py from /repo/src/tea_tasting — do not edit.\n"
            "import TeaTasting.Basic.PyVal\n\nnamespace Gen\n\n"
            f"-- utils.check_scalar\n" + tr_check_scalar(cs) + "\n"
            f"-- utils.auto_check\n" + "\n".join(auto) + "\n\n" + div_lean +
            "-- arguments of the check_scalar calls found in the entry points\n" + "".join(args_defs) + "\n"
            "def argsTable : List (String × CheckArgs) := [\n"
            + ",\n".join(f"  (\"{d.split()[1][5:]}\", {d.split()[1]})" for d in args_defs) + "\n]\n\n"
            "-- (entry point, parameter) ↦ check applied, extracted from the constructors / functions\n"
            "def entryTable : List EntryRow := [\n" + ",\n".join(rows) + "\n]\n\nend Gen\n")


# ------------------------------------------------------------------------------------------
# config.py  ->  Gen/Config.lean : the three structural choices the scoping properties rest on
# ------------------------------------------------------------------------------------------
def _is_global_cfg(e: ast.expr) -> bool:
    return isinstance(e, ast.Name) and e.id == "_global_config"


def probe_config(src: Path, mod: ast.Module) -> tuple[bool, bool, bool, bool]:
    """(validate_first, enter_in_try, restore_clear, get_copies) observed on the real module"""
    import importlib
    cfg = importlib.import_module("tea_tasting.config")
    if Path(cfg.__file__).resolve() != (src / "config.py").resolve():
        raise Unsupported("config.py: structure not recognised and the importable module is not the file being translated")
    saved = dict(cfg._global_config)
    try:
        # a failing set_config: does the valid option given alongside an invalid one get written?  (both orders)
        changed = False
        for kw in (dict(alpha=0.123, confidence_level=5.0), dict(alpha=5.0, confidence_level=0.777)):
            before = cfg.get_config()
            try:
                cfg.set_config(**kw)
            except Exception:  # noqa: BLE001
                pass
            else:
                raise Unsupported("config.py: set_config accepted an out-of-range value while probing")
            changed = changed or cfg.get_config() != before
            cfg._global_config.clear()
            cfg._global_config.update(saved)
        validate_first = not changed
        # an option first set INSIDE a context: is it gone afterwards?
        with cfg.config_context():
            cfg.set_config(zz_probe_option=1)
        restore_clear = "zz_probe_option" not in cfg.get_config()
        cfg._global_config.clear()
        cfg._global_config.update(saved)
        d = cfg.get_config()
        d["alpha"] = "mutated"
        copies = cfg.get_config()["alpha"] != "mutated"
    finally:
        cfg._global_config.clear()
        cfg._global_config.update(saved)
    # where set_config is entered relative to the try block is not observable when validation comes first: read it off
    # the AST (a call of set_config anywhere inside a `try:` body of config_context)
    cc = find({"config": mod}, "config.config_context")
    enter_in_try = any(is_call_to(n, "set_config") for t in ast.walk(cc) if isinstance(t, ast.Try)
                       for st in t.body for n in ast.walk(st))
    return validate_first, enter_in_try, restore_clear, copies


def generate_config(src: Path) -> str:
    mod = ast.parse((src / "config.py").read_text())
    mods = {"config": mod}
    sc = find(mods, "config.set_config")
    cc = find(mods, "config.config_context")
    gc = find(mods, "config.get_config")

    def structural() -> tuple[bool, bool, bool, bool]:
        # --- set_config: validate-all-then-write, or validate-and-write one option at a time
        writes_in_loop = False
        for n in ast.walk(sc):
            if isinstance(n, ast.For):
                for m in ast.walk(n):
                    if isinstance(m, ast.Assign) and any(isinstance(t, ast.Subscript) and _is_global_cfg(t.value)
                                                         for t in m.targets):
                        writes_in_loop = True
                    if isinstance(m, ast.Call) and isinstance(m.func, ast.Attribute) and _is_global_cfg(m.func.value):
                        writes_in_loop = True
        body = [st for st in sc.body if not (isinstance(st, ast.Expr) and isinstance(st.value, ast.Constant))]
        comp_validates = any(isinstance(n, (ast.DictComp, ast.ListComp, ast.GeneratorExp))
                             and any(is_call_to(c, "auto_check") for c in ast.walk(n)) for n in ast.walk(sc))
        final_update = (body and isinstance(body[-1], ast.Expr) and isinstance(body[-1].value, ast.Call)
                        and isinstance(body[-1].value.func, ast.Attribute) and body[-1].value.func.attr == "update"
                        and _is_global_cfg(body[-1].value.func.value))
        skips_none = any(isinstance(n, ast.Compare) and isinstance(n.ops[0], ast.IsNot) and isinstance(n.left, ast.Name)
                         and n.left.id == "value" for n in ast.walk(sc))
        if not skips_none:
            raise Unsupported("set_config: `value is not None` filter not found")
        # … or a loop that validates into a LOCAL dict which the final `_global_config.update(<that dict>)` writes
        loop_validates_local = False
        if final_update and len(body[-1].value.args) == 1 and isinstance(body[-1].value.args[0], ast.Name):
            written = body[-1].value.args[0].id
            for n in ast.walk(sc):
                if isinstance(n, ast.For):
                    for m in ast.walk(n):
                        if isinstance(m, ast.Assign) and len(m.targets) == 1 and isinstance(m.targets[0], ast.Subscript) \
                                and isinstance(m.targets[0].value, ast.Name) and m.targets[0].value.id == written \
                                and is_call_to(m.value, "auto_check"):
                            loop_validates_local = True
        if writes_in_loop and not comp_validates:
            validate_first = False
        elif (comp_validates or loop_validates_local) and final_update and not writes_in_loop:
            validate_first = True
        else:
            raise Unsupported("set_config: unrecognised structure")

        # --- config_context: where set_config is called relative to try, and how the old config is restored
        tries = [n for n in ast.walk(cc) if isinstance(n, ast.Try)]
        if len(tries) != 1 or not tries[0].finalbody or tries[0].handlers:
            raise Unsupported("config_context: expected one try/finally")
        tr = tries[0]
        if not any(isinstance(n, ast.Yield) for st in tr.body for n in ast.walk(st)):
            raise Unsupported("config_context: yield is not inside try")
        calls_in_try = any(is_call_to(n, "set_config") for st in tr.body for n in ast.walk(st))
        calls_anywhere = sum(1 for n in ast.walk(cc) if is_call_to(n, "set_config"))
        if calls_anywhere != 1:
            raise Unsupported("config_context: expected exactly one set_config call")
        saves_old = any(isinstance(n, ast.Assign) and is_call_to(n.value, "get_config") and not n.value.args
                        for n in cc.body)
        if not saves_old:
            raise Unsupported("config_context: old configuration is not saved with get_config()")
        fin_calls = [n for st in tr.finalbody for n in ast.walk(st)
                     if isinstance(n, ast.Call) and isinstance(n.func, ast.Attribute) and _is_global_cfg(n.func.value)]
        names = [c.func.attr for c in fin_calls]
        if names == ["clear", "update"]:
            restore_clear = True
        elif names == ["update"]:
            restore_clear = False
        else:
            raise Unsupported(f"config_context: finally block {names}")

        # --- get_config(): hands out a copy or the live dict
        rets = [n for n in ast.walk(gc) if isinstance(n, ast.Return) and n.value is not None]
        whole = [r for r in rets if not isinstance(r.value, ast.Subscript)]
        if len(whole) != 1:
            raise Unsupported("get_config: return structure")
        v = whole[0].value
        if isinstance(v, ast.Call) and isinstance(v.func, ast.Attribute) and v.func.attr == "copy" and _is_global_cfg(v.func.value):
            copies = True
        elif isinstance(v, ast.Call) and isinstance(v.func, ast.Name) and v.func.id == "dict" and len(v.args) == 1 \
                and _is_global_cfg(v.args[0]):
            copies = True
        elif _is_global_cfg(v):
            copies = False
        else:
            raise Unsupported("get_config: returned expression")

        return validate_first, calls_in_try, restore_clear, copies

    how = "read off the structure of config.py"
    try:
        validate_first, calls_in_try, restore_clear, copies = structural()
    except Unsupported as why:
        # The structure is not one the extractor recognises (helpers, `continue`, other loop shapes …).  The four choices
        # are then OBSERVED on the module itself (hand model + correspondence: the brief's second way of tying a model
        # to the code); the theorems are re-checked for the observed choices and the correspondence on random histories
        # (harness/props/c13.py) compares the model built from them with the implementation, as on every run.
        validate_first, calls_in_try, restore_clear, copies = probe_config(src, mod)
        how = f"OBSERVED by probing the module (structure not recognised: {why})"

    # --- defaults of the standard options
    defaults = None
    for n in mod.body:
        tgt = n.target if isinstance(n, ast.AnnAssign) else (n.targets[0] if isinstance(n, ast.Assign) else None)
        if tgt is not None and _is_global_cfg(tgt) and isinstance(n.value, ast.Dict):
            defaults = [(k.value, pyval_lit(val)) for k, val in zip(n.value.keys, n.value.values)]
    if defaults is None:
        raise Unsupported("config: _global_config literal not found")
    b = lambda x: "true" if x else "false"  # noqa: E731
    return ("-- GENERATED by harness/translate.py from /repo/src/tea_tasting/config.py — do not edit.\n"
            "import TeaTasting.Basic.PyVal\n\nnamespace Gen\n\n"
            f"-- config.set_config, config.config_context, "
            f"config.get_config — {how}\n"
            "def configImpl : ConfigImpl :=\n"
            f"  {{ validateFirst := {b(validate_first)}, enterInTry := {b(calls_in_try)}, "
            f"restoreClear := {b(restore_clear)}, getCopies := {b(copies)} }}\n\n"
            "def configDefaults : List (String × PyVal) := [\n"
            + ",\n".join(f"  (\"{k}\", {v})" for k, v in defaults) + "\n]\n\nend Gen\n")


# ------------------------------------------------------------------------------------------
# _solve_power_from_stats / _find_boundary  ->  Gen/Solve.lean : the bracket set-up
# ------------------------------------------------------------------------------------------
def _none_pattern(t: ast.expr) -> dict[str, bool] | None:
    """`a is None and b is not None and …` -> {a: True (is None), b: False}"""
    vals = t.values if isinstance(t, ast.BoolOp) and isinstance(t.op, ast.And) else [t]
    out = {}
    for v in vals:
        if not (isinstance(v, ast.Compare) and isinstance(v.left, ast.Name) and len(v.ops) == 1
                and isinstance(v.comparators[0], ast.Constant) and v.comparators[0].value is None):
            return None
        out[v.left.id] = isinstance(v.ops[0], ast.Is)
    return out


def generate_solve(src: Path) -> str:
    mods = {"mean": ast.parse((src / "metrics" / "mean.py").read_text())}
    fn = find(mods, "mean.RatioOfMeans._solve_power_from_stats")
    fb = find(mods, "mean._find_boundary")
    consts = {n.targets[0].id: n.value.value for n in mods["mean"].body
              if isinstance(n, ast.Assign) and isinstance(n.targets[0], ast.Name)
              and isinstance(n.value, ast.Constant) and isinstance(n.value.value, int)}
    if "MAX_ITER" not in consts:
        raise Unsupported("MAX_ITER not found")
    sig = dict(lean="x", params=[("self", f"RatioCfg {A}"), ("sample_var", A), ("sample_count", A), ("effect_size", A),
                                 ("power", A)], ret=A, prims=True, mod="Solve")
    branches = {}
    # an `if / elif / elif` chain over mutually exclusive None-patterns is the same as the three separate `if`s
    flat: list[ast.stmt] = []
    for st in fn.body:
        chain = []
        cur = st
        while isinstance(cur, ast.If):
            chain.append(cur)
            if len(cur.orelse) == 1 and isinstance(cur.orelse[0], ast.If):
                cur = cur.orelse[0]
            else:
                break
        if len(chain) > 1 and not chain[-1].orelse:
            pats = [_none_pattern(c.test) for c in chain]
            exclusive = all(p is not None for p in pats) and all(
                any(k in q and p[k] != q[k] for k in p) for i_, p in enumerate(pats) for q in pats[i_ + 1:])
            if exclusive:
                flat += [ast.If(test=c.test, body=c.body, orelse=[]) for c in chain]
                continue
        flat.append(st)
    fn = ast.FunctionDef(name=fn.name, args=fn.args, body=flat, decorator_list=fn.decorator_list, returns=fn.returns,
                         type_comment=None, lineno=fn.lineno, col_offset=0, type_params=getattr(fn, "type_params", []))
    for st in fn.body:
        if not isinstance(st, ast.If):
            continue
        pat = _none_pattern(st.test)
        if pat is None:
            raise Unsupported("_solve_power_from_stats: branch condition")
        key = tuple(sorted(k for k, is_none in pat.items() if is_none))
        branches[key] = st
    if set(branches) != {("power",), ("effect_size",), ("sample_count",)}:
        raise Unsupported(f"_solve_power_from_stats: branches {sorted(branches)}")
    # final statement: brentq(fn, lower_bound, upper_bound, maxiter=MAX_ITER)
    last = fn.body[-1]
    if isinstance(last, ast.Return) and isinstance(last.value, ast.Name) and len(fn.body) >= 2:
        prev = fn.body[-2]          # `root = brentq(...); return root`  ==  `return brentq(...)`
        if isinstance(prev, ast.Assign) and len(prev.targets) == 1 and isinstance(prev.targets[0], ast.Name) \
                and prev.targets[0].id == last.value.id:
            last = ast.Return(value=prev.value)
    if not (isinstance(last, ast.Return) and isinstance(last.value, ast.Call)
            and ast.unparse(last.value.func) == "scipy.optimize.brentq"
            and [ast.unparse(a) for a in last.value.args] == ["fn", "lower_bound", "upper_bound"]
            and [(k.arg, ast.unparse(k.value)) for k in last.value.keywords] == [("maxiter", "MAX_ITER")]):
        raise Unsupported("_solve_power_from_stats: final brentq call")

    def closure_ok(body, varying):
        fdefs = [x for x in body if isinstance(x, ast.FunctionDef)]
        if len(fdefs) != 1 or fdefs[0].name != "fn" or len(fdefs[0].body) != 1:
            raise Unsupported("closure fn")
        want = {"sample_var": "sample_var", "sample_count": "sample_count", "effect_size": "effect_size"}
        want[varying] = "x"
        r = fdefs[0].body[0]
        exp = ("power - self._power_from_stats(" + ", ".join(f"{k}={v}" for k, v in want.items()) + ")")
        if not (isinstance(r, ast.Return) and ast.unparse(r.value) == exp):
            raise Unsupported(f"closure fn body: {ast.unparse(r)}")

    def lets(body, tr):
        out = ""
        for st in body:
            if isinstance(st, ast.FunctionDef):
                continue
            if isinstance(st, ast.Assign) and len(st.targets) == 1 and isinstance(st.targets[0], ast.Name):
                if is_call_to(st.value, "_find_boundary"):
                    out += f"  let {st.targets[0].id}_init := {tr.ex(st.value.args[1])}\n"
                    if ast.unparse(st.value.args[0]) != "fn" or len(st.value.args) != 2 or st.value.keywords:
                        raise Unsupported("_find_boundary call")
                else:
                    out += f"  let {st.targets[0].id} := {tr.ex(st.value)}\n"
            elif isinstance(st, ast.Assign) and ast.unparse(st) == "lower_bound, upper_bound = sorted((0, other_bound))":
                pass
            else:
                raise Unsupported(f"_solve_power_from_stats statement: {ast.unparse(st)[:60]}")
        return out

    class T(Tr):
        def __init__(self):
            self.key, self.sig = "mean.solve", sig
            self.types = dict(sig["params"])
            self.none, self.some, self.in_aggr, self.guards, self.locals = set(), set(), False, [], set()

    eb = branches[("effect_size",)]
    nb = branches[("sample_count",)]
    closure_ok(eb.body, "effect_size")
    closure_ok(nb.body, "sample_count")
    e_lets = lets(eb.body, T())
    n_lets = lets(nb.body, T())
    if "other_bound_init" not in e_lets or "upper_bound_init" not in n_lets or "lower_bound :=" not in n_lets:
        raise Unsupported("_solve_power_from_stats: bracket variables")
    # _find_boundary: b = init; i = 0; while fn(b) > 0: b *= mult; i += 1; if i == MAX_ITER: raise
    exp_fb = ("b = init\ni = 0\nwhile fn(b) > 0:\n    b *= mult\n    i += 1\n    if i == MAX_ITER:\n"
              "        raise RuntimeError('Cannot find parameter boundaries. Maximum number of iterations is reached.')\n"
              "return b")
    exp_fn = ast.parse("def _find_boundary(fn, init, mult=2):\n" + "\n".join("    " + ln for ln in exp_fb.split("\n"))).body[0]
    if alpha_normal(fb, find_boundary_roles(fb)) != alpha_normal(exp_fn, find_boundary_roles(exp_fn)) \
            or [a.arg for a in fb.args.args] != ["fn", "init", "mult"]:
        # compared modulo renaming of locals and reordering-free: the loop, its bound and the raise must be the same
        raise Unsupported("_find_boundary body changed")
    mult = fb.args.defaults[-1]
    if not (isinstance(mult, ast.Constant) and isinstance(mult.value, int)):
        raise Unsupported("_find_boundary mult default")
    return ("-- GENERATED by harness/translate.py from /repo/src/tea_tasting/metrics/mean.py — do not edit.\n"
            "import TeaTasting.Gen.Mean\n\n"
            f"variable {{{A} : Type}} [Field {A}] [LinearOrder {A}] [IsStrictOrderedRing {A}]\n\nnamespace Gen\n\n"
            f"-- mean.MAX_ITER, default `mult` of mean._find_boundary\n"
            f"def MAX_ITER : ℕ := {consts['MAX_ITER']}\n"
            f"def boundaryMult : {A} := ({mult.value} : {A})\n\n"
            f"-- mean.RatioOfMeans._solve_power_from_stats: solving for the effect size —\n"
            "-- the start value handed to _find_boundary; the bracket is sorted((0, other_bound))\n"
            f"def RatioOfMeans.solve_effect_init (P : Prims {A}) (self : RatioCfg {A}) (sample_var : {A}) "
            f"(sample_count : {A}) : {A} :=\n" + e_lets + "  other_bound_init\n\n"
            "-- … solving for n_obs: (lower end of the bracket, start value handed to _find_boundary)\n"
            f"def RatioOfMeans.solve_n_bracket (self : RatioCfg {A}) : {A} × {A} :=\n" + n_lets
            + "  (lower_bound, upper_bound_init)\n\nend Gen\n")


# ------------------------------------------------------------------------------------------
# safety rendering (C18): the same functions in `Except PyErr` over tagged abstract numbers
# ------------------------------------------------------------------------------------------
SAFE_KEYS = [
    "aggr._sorted_tuple", "aggr.Aggregates.count", "aggr.Aggregates.mean", "aggr.Aggregates.var",
    "aggr.Aggregates.cov", "aggr.Aggregates.ratio_var", "aggr.Aggregates.ratio_cov", "aggr._add_mean",
    "aggr._add_var", "aggr._add_cov", "aggr.Aggregates.__add__", "mean.RatioOfMeans._covariate_cov",
    "mean.RatioOfMeans._covariate_coef", "mean.RatioOfMeans._metric_mean", "mean.RatioOfMeans._metric_var",
    "mean.RatioOfMeans._scale_and_distr@none", "mean.RatioOfMeans._analyze_stats",
    "mean.RatioOfMeans.analyze_aggregates",
]
SAFE_TYPES = {f"Aggr {A}": "AggrS V", f"RatioCfg {A}": "RatioCfgS V", A: "SV V", f"MeanResult {A}": "MeanResultS V",
              f"{A} × Dist {A} × Unit": "SV V × DistS V × Unit", f"{A} × Dist {A} × Dist {A}": "SV V × DistS V × DistS V"}
SV_BIN = {ast.Add: "SV.add", ast.Sub: "SV.sub", ast.Mult: "SV.mul"}
SV_CMP = {ast.Lt: ("SV.ltB", False, False), ast.LtE: ("SV.leB", False, False), ast.Gt: ("SV.ltB", True, False),
          ast.GtE: ("SV.leB", True, False), ast.Eq: ("SV.eqB", False, False), ast.NotEq: ("SV.eqB", False, True)}


def safe_name(lean: str) -> str:
    return lean + "S"


class TrSafe(Tr):
    SPLICE_SIMPLE = True
    """same statement walker; expressions are rendered into `Except PyErr` with tagged values"""

    def styp(self, t: str) -> str:
        return SAFE_TYPES.get(t, t)

    def is_aggr(self, e: ast.expr) -> bool:
        t = self.typ(e)
        return bool(t) and t.startswith("Aggr")

    def is_str(self, e: ast.expr) -> bool:
        return isinstance(e, ast.Constant) and isinstance(e.value, str) or self.typ(e) == "String"

    def call_sig(self, key, recv, args, kws):  # noqa: ANN001
        sig = SIGS[key]
        params = sig["params"][1:] if recv is not None else sig["params"]
        vals = {}
        if len(args) > len(params):
            raise Unsupported(f"too many args for {key}")
        for (pn, pt), a in zip(params, args):
            vals[pn] = self.arg(a, pt)
        for kw in kws:
            if kw.arg not in dict(params):
                raise Unsupported(f"unknown keyword {kw.arg} for {key}")
            vals[kw.arg] = self.arg(kw.value, dict(params)[kw.arg])
        missing = [pn for pn, _ in params if pn not in vals]
        if missing:
            raise Unsupported(f"missing args {missing} for {key}")
        parts = [safe_name(sig["lean"]), "A"]
        if sig.get("prims"):
            parts.append("P")
        if recv is not None:
            parts.append(recv)
        parts += [vals[pn] for pn, _ in params]
        if key == "aggr._sorted_tuple":
            return "(" + " ".join([sig["lean"]] + parts[2:]) + ")"     # pure string function: reuse
        return "(← " + " ".join(parts) + ")"

    def ex(self, e: ast.expr) -> str:  # noqa: C901, PLR0911, PLR0912
        if isinstance(e, ast.BinOp):
            if isinstance(e.op, ast.Pow):
                if isinstance(e.right, ast.Constant) and e.right.value == 2:
                    return f"(← SV.pow2 A {self.ex(e.left)})"
                raise Unsupported("pow")
            if isinstance(e.op, ast.Add) and self.is_aggr(e.left):
                return f"(← Aggr.addS A {self.ex(e.left)} {self.ex(e.right)})"
            if isinstance(e.op, ast.Div):
                return f"(← SV.div A {self.ex(e.left)} {self.ex(e.right)})"
            if type(e.op) not in SV_BIN:
                raise Unsupported(f"operator {type(e.op).__name__}")
            return f"({SV_BIN[type(e.op)]} A {self.ex(e.left)} {self.ex(e.right)})"
        if isinstance(e, ast.UnaryOp) and isinstance(e.op, ast.USub):
            return f"(SV.neg A {self.ex(e.operand)})"
        if isinstance(e, ast.Constant):
            if isinstance(e.value, bool) or e.value is None:
                raise Unsupported(f"constant {e.value!r}")
            if isinstance(e.value, int):
                return f"(SV.lit A {e.value})" if e.value >= 0 else f"(SV.lit A ({e.value}))"
            if isinstance(e.value, float):
                num, den = e.value.as_integer_ratio()
                return f"(SV.ofRat A {num} {den})"
            if isinstance(e.value, str):
                return f"\"{e.value}\""
            raise Unsupported(f"constant {e.value!r}")
        if isinstance(e, ast.Name):
            return e.id
        if isinstance(e, ast.Attribute):
            if _is_self_attr(e):
                return f"self.{e.attr}"
            raise Unsupported(ast.dump(e))
        if isinstance(e, ast.Tuple):
            return "(" + ", ".join(self.ex(x) for x in e.elts) + ")"
        if isinstance(e, ast.Subscript):
            base = e.value
            if _is_self_attr(base):
                if base.attr in ("mean_", "var_"):
                    return f"(← self.{base.attr} {self.ex(e.slice)})"
                if base.attr == "cov_":
                    return f"(← (fun t => self.cov_ t.1 t.2) {self.ex(e.slice)})"
            if isinstance(base, ast.Name) and isinstance(e.slice, ast.Constant):
                return f"{base.id}.{e.slice.value + 1}"
            raise Unsupported(ast.dump(e))
        if isinstance(e, ast.Compare) and len(e.ops) == 1:
            return self.cond(e)
        if isinstance(e, ast.IfExp):
            t = e.test
            if (isinstance(t, ast.Compare) and isinstance(t.ops[0], ast.Is) and isinstance(t.left, ast.Name)
                    and isinstance(t.comparators[0], ast.Constant) and t.comparators[0].value is None):
                if t.left.id in self.none:
                    return "()" if (isinstance(e.body, ast.Constant) and e.body.value is None) else self.ex(e.body)
                if t.left.id in self.some:
                    return self.ex(e.orelse)
            raise Unsupported("ifexp (safety rendering)")
        if isinstance(e, ast.Call):
            return self.call(e)
        raise Unsupported(ast.dump(e))

    def cond(self, t: ast.expr) -> str:
        if isinstance(t, ast.Attribute) and self.typ(t) == "Bool":
            return f"{self.ex(t)} = true"
        if isinstance(t, ast.UnaryOp) and isinstance(t.op, ast.Not):
            return f"¬ ({self.cond(t.operand)})"
        if isinstance(t, ast.BoolOp):
            op = " ∧ " if isinstance(t.op, ast.And) else " ∨ "
            return "(" + op.join(self.cond(v) for v in t.values) + ")"
        if isinstance(t, ast.Call) and self.dotted(t.func) == "math.isnan":
            return f"(SV.isNaN A {self.ex(t.args[0])}) = true"
        if isinstance(t, ast.Compare) and len(t.ops) == 1:
            l, r = t.left, t.comparators[0]
            if self.is_str(l) or self.is_str(r):
                if isinstance(t.ops[0], ast.Eq):
                    return f"({self.ex(l)} = {self.ex(r)})"
                if isinstance(t.ops[0], ast.Lt):
                    return f"({self.ex(l)} < {self.ex(r)})"
                raise Unsupported("string comparison")
            if type(t.ops[0]) not in SV_CMP:
                raise Unsupported(ast.dump(t))
            fn, swap, negate = SV_CMP[type(t.ops[0])]
            a, b = (self.ex(r), self.ex(l)) if swap else (self.ex(l), self.ex(r))
            return f"({fn} A {a} {b}) = {'false' if negate else 'true'}"
        raise Unsupported(f"condition {ast.unparse(t)}")

    def call(self, e: ast.Call) -> str:  # noqa: C901, PLR0911, PLR0912
        f = e.func
        if isinstance(f, ast.Name):
            if f.id == "abs":
                return f"(SV.abs A {self.ex(e.args[0])})"
            if f.id in ("min", "max") and len(e.args) == 2 and not e.keywords:
                return f"(SV.{f.id} A {self.ex(e.args[0])} {self.ex(e.args[1])})"
            if f.id == "float" and isinstance(e.args[0], ast.Constant):
                table = {"+inf": "(SV.inf A true)", "inf": "(SV.inf A true)", "-inf": "(SV.inf A false)"}
                if e.args[0].value not in table:
                    raise Unsupported(f"float({e.args[0].value!r})")
                return table[e.args[0].value]
            if f.id in FREE_FUNCS:
                return self.call_sig(FREE_FUNCS[f.id], None, e.args, e.keywords)
            if f.id == "_exp" and len(e.args) == 1 and not e.keywords:
                return f"(SV.expSafe A {self.ex(e.args[0])})"
            if f.id == "MeanResult":
                if e.args:
                    raise Unsupported("positional MeanResult")
                fields = ", ".join(f"{kw.arg} := {self.ex(kw.value)}" for kw in e.keywords)
                return "({ " + fields + " } : MeanResultS V)"
            if f.id == "Aggregates" and self.key == "aggr.Aggregates.__add__":
                return self.aggregates_ctor(e)
            inl = self.inline_helper(f.id, None, e)
            if inl is not None:
                return inl
            raise Unsupported(f"call {f.id}")
        if isinstance(f, ast.Attribute):
            dotted = self.dotted(f)
            if dotted == "math.sqrt":
                return f"(← SV.sqrt A {self.ex(e.args[0])})"
            if dotted == "math.exp":
                return f"(← SV.exp A {self.ex(e.args[0])})"
            if dotted == "scipy.stats.t":
                return f"(P.t {self.kw(e, 'df')})"
            if dotted == "scipy.stats.nct":
                return f"(P.nct {self.kw(e, 'df')} {self.kw(e, 'nc')})"
            if dotted == "scipy.stats.norm":
                loc = [k for k in e.keywords if k.arg == "loc"]
                return f"(P.norm {self.ex(loc[0].value) if loc else '(SV.lit A 0)'})"
            recv = f.value
            if f.attr in DIST_METHODS:
                return f"({self.ex(recv)}.{f.attr} {self.ex(e.args[0])})"
            if f.attr == "with_zero_div" and not e.args:
                return f"(AggrS.withZeroDiv {self.ex(recv)})"
            if isinstance(recv, ast.Name) and recv.id == "self" and not self.in_aggr:
                if f.attr == "_scale_and_distr":
                    has_eff = any(k.arg == "effect_size" for k in e.keywords) or len(e.args) > 4
                    if has_eff:
                        raise Unsupported("safety rendering covers the analysis only")
                    return self.call_sig("mean.RatioOfMeans._scale_and_distr@none", "self", e.args, e.keywords)
                if f.attr in SELF_METHODS:
                    return self.call_sig(SELF_METHODS[f.attr], "self", e.args, e.keywords)
                inl = self.inline_helper(f.attr, "self", e)
                if inl is not None:
                    return inl
            if f.attr in AGGR_METHODS:
                args = e.args
                if any(isinstance(a, ast.Starred) for a in args):
                    st = self.ex(args[0].value)
                    return f"(← Aggr.covS A {self.ex(recv)} (some {st}.1) (some {st}.2))"
                return self.call_sig(AGGR_METHODS[f.attr], self.ex(recv), args, e.keywords)
        raise Unsupported(ast.dump(e))

    def aggregates_ctor(self, e: ast.Call) -> str:
        """in the safety rendering the per-key values of `__add__` are computed on lookup; that they
        never raise for ANY key is part of the theorem (`addS_fields_ok`)"""
        raise Unsupported("handled by render_add")

    def stmts(self, body, ind):  # noqa: ANN001
        if body and isinstance(body[0], ast.Return) and body[0].value is not None:
            return ind + "pure " + self.ex(body[0].value)
        return super().stmts(body, ind)

    def render(self) -> str:
        sig = self.sig
        params = " ".join(f"({n} : {self.styp(t)})" for n, t in sig["params"])
        pr = "(A : Arith V) " + ("(P : PrimsS V) " if sig.get("prims") else "")
        body = self.stmts(self.fn.body, "  ")
        return f"def {safe_name(sig['lean'])} {pr}{params} : Except PyErr ({self.styp(sig['ret'])}) := do\n{body}\n"


def render_add_safe(fn: ast.FunctionDef) -> str:
    """`Aggregates.__add__`: per-key values via the generated _add_* (checked: the three comprehensions
    call _add_mean/_add_var/_add_cov with (self, other, key))"""
    ret = fn.body[-1]
    if not (isinstance(ret, ast.Return) and isinstance(ret.value, ast.Call)):
        raise Unsupported("__add__ shape")
    kws = {}
    for k in ret.value.keywords:
        v = k.value
        if isinstance(v, ast.DictComp) and len(v.generators) == 1 and all(_is_key_presence(c) for c in v.generators[0].ifs):
            g = v.generators[0]                  # key-presence filters: keys are not modelled (see aggregates_ctor)
            v = ast.DictComp(key=v.key, value=v.value,
                             generators=[ast.comprehension(target=g.target, iter=g.iter, ifs=[], is_async=0)])
        kws[k.arg] = ast.unparse(v)
    want = {"count_": "self.count() + other.count() if self.count_ is not None else None",
            "mean_": "{col: _add_mean(self, other, col) for col in self.mean_}",
            "var_": "{col: _add_var(self, other, col) for col in self.var_}",
            "cov_": "{cols: _add_cov(self, other, cols) for cols in self.cov_}"}
    if kws != want:
        raise Unsupported("__add__: comprehension bodies changed")
    return ("def Aggr.addS (A : Arith V) (self : AggrS V) (other : AggrS V) : Except PyErr (AggrS V) := do\n"
            "  -- Python computes every entry eagerly; here on lookup (all entries are ok: C18.addS_entries_ok)\n"
            "  pure { count_ := (SV.add A (← Aggr.countS A self) (← Aggr.countS A other)),\n"
            "         mean_ := fun col => addMeanS A self other col,\n"
            "         var_ := fun col => addVarS A self other col,\n"
            "         cov_ := fun c0 c1 => addCovS A self other (c0, c1) }\n")


def generate_safe(src: Path) -> str:
    mods = {m: ast.parse((src / f).read_text()) for m, f in MODULE_SOURCE.items() if m in ("aggr", "mean")}
    Tr.MODS = {**Tr.MODS, **mods}
    parts = []
    for key in SAFE_KEYS:
        sig = SIGS[key]
        fn = find(mods, sig.get("py", key))
        if key == "aggr._sorted_tuple":
            continue
        if key == "aggr.Aggregates.__add__":
            parts.append(f"-- {key}\n" + render_add_safe(fn))
            continue
        parts.append(f"-- {sig.get('py', key)}\n" + TrSafe(key, sig, fn).render())
    return ("-- GENERATED by harness/translate.py from /repo/src/tea_tasting — do not edit.\n"
            "-- Exception-safety rendering of aggr.py / metrics/mean.py (see Basic/Safe.lean).\n"
            "import TeaTasting.Basic.Safe\nimport TeaTasting.Gen.Aggr\n\nvariable {V : Type}\n\nnamespace Gen\n\n"
            + "\n".join(parts) + "\nend Gen\n")



# ------------------------------------------------------------------------------------------
# multiplicity._hochberg_stepup / _holm_stepdown  ->  Gen/MultLoops.lean
#
# A loop `for i, r in enumerate(sorted(rs, key=lambda d: ±d["pvalue"]) [, start=s])` with carried variables that are
# initialised to integer constants before it becomes one `step` function (state -> index -> p-value -> output x state)
# plus the constants `init`, `start`, `descending`; the recursion over the sorted list is the same for both loops and
# is written once in the header.
# ------------------------------------------------------------------------------------------
class _LoopTr:
    def __init__(self, fn: ast.FunctionDef):
        self.fn = fn
        self.ints: set[str] = set()       # names holding Python ints that must be cast into the field
        self.elem = None                  # loop variable holding the metric result
        self.adjust = None

    def ex(self, e: ast.expr) -> str:  # noqa: C901, PLR0911
        if isinstance(e, ast.Name):
            return f"({e.id} : {A})" if e.id in self.ints else e.id
        if isinstance(e, ast.Constant) and isinstance(e.value, int) and not isinstance(e.value, bool):
            return f"({e.value} : {A})"
        if isinstance(e, ast.BinOp) and type(e.op) in BIN:
            return f"({self.ex(e.left)} {BIN[type(e.op)]} {self.ex(e.right)})"
        if isinstance(e, ast.UnaryOp) and isinstance(e.op, ast.USub):
            return f"(-{self.ex(e.operand)})"
        if isinstance(e, ast.Subscript) and isinstance(e.value, ast.Name) and e.value.id == self.elem \
                and isinstance(e.slice, ast.Constant) and e.slice.value == "pvalue":
            return "pvalue__"
        if isinstance(e, ast.Call) and isinstance(e.func, ast.Name) and e.func.id in ("min", "max") \
                and len(e.args) == 2 and not e.keywords:
            return f"({e.func.id} {self.ex(e.args[0])} {self.ex(e.args[1])})"
        raise Unsupported(f"loop expression {ast.unparse(e)}")

    def cond(self, t: ast.expr) -> str:
        if isinstance(t, ast.BoolOp):
            op = " ∧ " if isinstance(t.op, ast.And) else " ∨ "
            return "(" + op.join(self.cond(v) for v in t.values) + ")"
        if isinstance(t, ast.UnaryOp) and isinstance(t.op, ast.Not):
            return f"(¬ {self.cond(t.operand)})"
        if isinstance(t, ast.Compare) and len(t.ops) == 1 and type(t.ops[0]) in CMP:
            return f"({self.ex(t.left)} {CMP[type(t.ops[0])]} {self.ex(t.comparators[0])})"
        raise Unsupported(f"loop condition {ast.unparse(t)}")

    def render(self, lean_name: str) -> str:  # noqa: C901, PLR0912, PLR0915
        fn = self.fn
        params = [a.arg for a in fn.args.args]
        if len(params) != 2:
            raise Unsupported(f"{fn.name}: parameters {params}")
        seq, self.adjust = params
        body = [x for x in fn.body if not (isinstance(x, ast.Expr) and isinstance(x.value, ast.Constant))]
        loops = [x for x in body if isinstance(x, ast.For)]
        if len(loops) != 1 or body[-1] is not loops[0] or loops[0].orelse:
            raise Unsupported(f"{fn.name}: expected initialisations followed by one for loop")
        loop = loops[0]
        init: dict[str, int] = {}
        uses_m = None
        for st in body[:-1]:
            if isinstance(st, ast.AnnAssign) and st.value is not None:
                st = ast.Assign(targets=[st.target], value=st.value)
            if not (isinstance(st, ast.Assign) and len(st.targets) == 1 and isinstance(st.targets[0], ast.Name)):
                raise Unsupported(f"{fn.name}: statement before the loop: {ast.unparse(st)}")
            name, v = st.targets[0].id, st.value
            if isinstance(v, ast.Constant) and isinstance(v.value, int) and not isinstance(v.value, bool):
                init[name] = v.value
            elif ast.unparse(v) == f"len({seq})":
                uses_m = name
            else:
                raise Unsupported(f"{fn.name}: initialisation {ast.unparse(st)}")
        # for <idx>, <elem> in enumerate(sorted(<seq>, key=lambda d: ±d["pvalue"]) [, start=<int>])
        it = loop.iter
        if not (isinstance(loop.target, ast.Tuple) and len(loop.target.elts) == 2
                and all(isinstance(x, ast.Name) for x in loop.target.elts)
                and isinstance(it, ast.Call) and isinstance(it.func, ast.Name) and it.func.id == "enumerate"
                and 1 <= len(it.args) <= 2):
            raise Unsupported(f"{fn.name}: loop header {ast.unparse(loop.target)} in {ast.unparse(it)}")
        idx, self.elem = (x.id for x in loop.target.elts)
        start = 0
        if len(it.args) == 2:
            it_start = it.args[1]
        else:
            it_start = next((k.value for k in it.keywords if k.arg == "start"), None)
        if any(k.arg != "start" for k in it.keywords):
            raise Unsupported(f"{fn.name}: enumerate keywords")
        if it_start is not None:
            if not (isinstance(it_start, ast.Constant) and isinstance(it_start.value, int)):
                raise Unsupported(f"{fn.name}: enumerate start {ast.unparse(it_start)}")
            start = it_start.value
        srt = it.args[0]
        if not (isinstance(srt, ast.Call) and isinstance(srt.func, ast.Name) and srt.func.id == "sorted"
                and len(srt.args) == 1 and isinstance(srt.args[0], ast.Name) and srt.args[0].id == seq
                and len(srt.keywords) == 1 and srt.keywords[0].arg == "key"
                and isinstance(srt.keywords[0].value, ast.Lambda)):
            raise Unsupported(f"{fn.name}: sorted(...) shape {ast.unparse(srt)}")
        lam = srt.keywords[0].value
        d = lam.args.args[0].arg
        key = ast.unparse(lam.body)
        if key == f"-{d}['pvalue']":
            descending = True
        elif key == f"{d}['pvalue']":
            descending = False
        else:
            raise Unsupported(f"{fn.name}: sort key {key}")
        self.ints = {idx} | ({uses_m} if uses_m else set())
        carried = list(init)
        lines = [f"  let {c} := st.{k + 1}" for k, c in enumerate(carried)] if len(carried) == 2 else None
        if lines is None:
            raise Unsupported(f"{fn.name}: {len(carried)} carried variables (2 expected)")
        out = None
        tmpn = 0
        stmts = [x for x in loop.body if not (isinstance(x, ast.Expr) and isinstance(x.value, ast.Constant))]
        for k, st in enumerate(stmts):
            if isinstance(st, ast.AnnAssign) and st.value is not None:
                st = ast.Assign(targets=[st.target], value=st.value)
            if isinstance(st, ast.Assign):
                v = st.value
                tg = st.targets
                if len(tg) == 1 and isinstance(tg[0], ast.Tuple) and isinstance(v, ast.Call) \
                        and isinstance(v.func, ast.Name) and v.func.id == self.adjust and len(v.args) == 2 \
                        and len(tg[0].elts) == 2 and all(isinstance(x, ast.Name) for x in tg[0].elts):
                    a0, a1 = self.ex(v.args[0]), self.ex(v.args[1])
                    lines.append(f"  let {tg[0].elts[0].id} := (adjust {a0} {a1}).1")
                    lines.append(f"  let {tg[0].elts[1].id} := (adjust {a0} {a1}).2")
                    continue
                if not all(isinstance(x, ast.Name) for x in tg):
                    raise Unsupported(f"{fn.name}: assignment {ast.unparse(st)}")
                if isinstance(v, ast.Subscript) and self.ex(v) == "pvalue__" and len(tg) == 1:
                    lines.append(f"  let {tg[0].id} := pvalue__")
                    continue
                rhs = self.ex(v)
                if len(tg) == 1:
                    lines.append(f"  let {tg[0].id} := {rhs}")
                    if isinstance(v, ast.BinOp) and all(isinstance(x, ast.Name) and x.id in self.ints
                                                         for x in (v.left, v.right)):
                        pass
                else:
                    tmpn += 1
                    lines.append(f"  let tmp{tmpn} := {rhs}")
                    for x in tg:
                        lines.append(f"  let {x.id} := tmp{tmpn}")
                continue
            if isinstance(st, ast.If) and not st.orelse and len(st.body) == 1 and isinstance(st.body[0], ast.Assign) \
                    and len(st.body[0].targets) == 1 and isinstance(st.body[0].targets[0], ast.Name):
                x = st.body[0].targets[0].id
                lines.append(f"  let {x} := if {self.cond(st.test)} then {self.ex(st.body[0].value)} else {x}")
                continue
            if isinstance(st, ast.Expr) and isinstance(st.value, ast.Call) and isinstance(st.value.func, ast.Attribute) \
                    and st.value.func.attr == "update" and isinstance(st.value.func.value, ast.Name) \
                    and st.value.func.value.id == self.elem and not st.value.args and k == len(stmts) - 1:
                kws = {kw.arg: kw.value for kw in st.value.keywords}
                if set(kws) != {"pvalue_adj", "alpha_adj", "null_rejected"}:
                    raise Unsupported(f"{fn.name}: update keywords {sorted(kws)}")
                nr = kws["null_rejected"]
                if isinstance(nr, ast.Call) and isinstance(nr.func, ast.Name) and nr.func.id in ("int", "bool") \
                        and len(nr.args) == 1:
                    nr = nr.args[0]
                out = f"({self.ex(kws['pvalue_adj'])}, {self.ex(kws['alpha_adj'])}, decide {self.cond(nr)})"
                continue
            raise Unsupported(f"{fn.name}: loop statement {ast.unparse(st)}")
        if out is None:
            raise Unsupported(f"{fn.name}: the loop does not end with {self.elem}.update(...)")
        mparam = f" ({uses_m} : ℕ)" if uses_m else ""
        text = (f"-- mult.{fn.name}: one iteration (state = ({', '.join(carried)}))\n"
                f"def {lean_name}.step (adjust : {A} → {A} → {A} × {A}){mparam} (st : {A} × {A}) ({idx} : ℕ) "
                f"(pvalue__ : {A}) : ({A} × {A} × Bool) × ({A} × {A}) :=\n"
                + "\n".join(lines) + f"\n  ({out}, ({carried[0]}, {carried[1]}))\n\n"
                f"def {lean_name}.init : {A} × {A} := (({init[carried[0]]} : {A}), ({init[carried[1]]} : {A}))\n"
                f"def {lean_name}.start : ℕ := {start}\n"
                f"def {lean_name}.descending : Bool := {'true' if descending else 'false'}\n"
                f"def {lean_name}.usesLength : Bool := {'true' if uses_m else 'false'}\n")
        return text


def generate_mult_loops(src: Path) -> str:
    mod = ast.parse((src / "multiplicity.py").read_text())
    fns = {n.name: n for n in mod.body if isinstance(n, ast.FunctionDef)}
    for need in ("_hochberg_stepup", "_holm_stepdown"):
        if need not in fns:
            raise Unsupported(f"multiplicity.{need} not found")
    hdr = ("-- GENERATED by harness/translate.py from /repo/src/tea_tasting/multiplicity.py — do not edit.\n"
           "import TeaTasting.Basic.Prelude\n\n"
           f"variable {{{A} : Type}} [Field {A}] [LinearOrder {A}] [IsStrictOrderedRing {A}]\n\n"
           "namespace Gen\n\n"
           "/-- the `for i, r in enumerate(sorted(...), start)` recursion shared by both loops: `step` maps the carried state, "
           "the\nindex and the p-value to the triple written into the result and the new state -/\n"
           f"def runLoop (step : {A} × {A} → ℕ → {A} → ({A} × {A} × Bool) × ({A} × {A})) : "
           f"List {A} → ℕ → {A} × {A} → List ({A} × {A} × Bool)\n"
           "  | [], _, _ => []\n"
           "  | p :: rest, i, st => (step st i p).1 :: runLoop step rest (i + 1) (step st i p).2\n\n")
    up = _LoopTr(fns["_hochberg_stepup"]).render("hochbergStepup")
    down = _LoopTr(fns["_holm_stepdown"]).render("holmStepdown")
    return hdr + up + "\n" + down + "\nend Gen\n"


# ------------------------------------------------------------------------------------------
# experiment.Experiment.analyze: the two comprehensions that build the variant pairs and the
# guard that raises  ->  Gen/Pairs.lean
# ------------------------------------------------------------------------------------------
def _genexp_pairs(g: ast.expr, variants: str) -> str:
    """`tuple((a, b) for x in variants [for y in variants] if <x op y>)` as filter / map / flatMap over the list"""
    if isinstance(g, ast.Call) and isinstance(g.func, ast.Name) and g.func.id in ("tuple", "list") and len(g.args) == 1:
        g = g.args[0]
    if isinstance(g, ast.ListComp):
        g = ast.GeneratorExp(elt=g.elt, generators=g.generators)
    if not (isinstance(g, ast.GeneratorExp) and isinstance(g.elt, ast.Tuple) and len(g.elt.elts) == 2
            and all(isinstance(x, ast.Name) for x in g.elt.elts) and 1 <= len(g.generators) <= 2):
        raise Unsupported(f"variant pairs: {ast.unparse(g)}")
    a, b = (x.id for x in g.elt.elts)
    gens = g.generators
    for c in gens:
        if not (isinstance(c.target, ast.Name) and isinstance(c.iter, ast.Name) and c.iter.id == variants
                and not c.is_async):
            raise Unsupported(f"variant pairs: clause {ast.unparse(c.target)} in {ast.unparse(c.iter)}")
    if any(c.ifs for c in gens[:-1]) or len(gens[-1].ifs) != 1:
        raise Unsupported("variant pairs: filters")
    t = gens[-1].ifs[0]
    if not (isinstance(t, ast.Compare) and len(t.ops) == 1 and type(t.ops[0]) in CMP
            and isinstance(t.left, ast.Name) and isinstance(t.comparators[0], ast.Name)):
        raise Unsupported(f"variant pairs: condition {ast.unparse(t)}")
    cond = f"decide ({t.left.id} {CMP[type(t.ops[0])]} {t.comparators[0].id})"
    inner_var = gens[-1].target.id
    inner = f"(({variants}.filter (fun {inner_var} => {cond})).map (fun {inner_var} => ({a}, {b})))"
    if len(gens) == 2:
        return f"{variants}.flatMap (fun {gens[0].target.id} => {inner})"
    return inner


def generate_pairs(src: Path) -> str:  # noqa: C901
    mod = ast.parse((src / "experiment.py").read_text())
    cls = next((n for n in mod.body if isinstance(n, ast.ClassDef) and n.name == "Experiment"), None)
    fn = next((n for n in (cls.body if cls else []) if isinstance(n, ast.FunctionDef) and n.name == "analyze"
               and not any("overload" in ast.unparse(d) for d in n.decorator_list)), None)
    if fn is None:
        raise Unsupported("experiment.Experiment.analyze not found")
    # variants = sorted(variants)
    if not any(isinstance(n, ast.Assign) and ast.unparse(n) == "variants = sorted(variants)" for n in fn.body):
        raise Unsupported("Experiment.analyze: `variants = sorted(variants)` not found")
    br = [n for n in fn.body if isinstance(n, ast.If) and ast.unparse(n.test) in ("control is not None", "control is None")]
    if len(br) != 1 or len(br[0].body) != 1 or len(br[0].orelse) != 1:
        raise Unsupported("Experiment.analyze: the `control is not None` branch")
    given, allp = br[0].body[0], br[0].orelse[0]
    if ast.unparse(br[0].test) == "control is None":
        given, allp = allp, given
    for st in (given, allp):
        if not (isinstance(st, ast.Assign) and len(st.targets) == 1 and isinstance(st.targets[0], ast.Name)
                and st.targets[0].id == "variant_pairs"):
            raise Unsupported(f"Experiment.analyze: {ast.unparse(st)[:60]}")
    g_given = _genexp_pairs(given.value, "variants")
    g_all = _genexp_pairs(allp.value, "variants")
    guards = [n for n in fn.body if isinstance(n, ast.If) and len(n.body) == 1 and isinstance(n.body[0], ast.Raise)
              and "variant_pairs" in ast.unparse(n.test)]
    if len(guards) != 1:
        raise Unsupported("Experiment.analyze: the guard that raises")
    gt = ast.unparse(guards[0].test)
    if gt != "len(variant_pairs) != 1 and (not all_variants)":
        raise Unsupported(f"Experiment.analyze: guard {gt}")
    if not (isinstance(guards[0].body[0].exc, ast.Call) and ast.unparse(guards[0].body[0].exc.func) == "ValueError"):
        raise Unsupported("Experiment.analyze: the guard does not raise ValueError")
    return ("-- GENERATED by harness/translate.py from /repo/src/tea_tasting/experiment.py — do not edit.\n"
            "import Mathlib.Order.Basic\nimport Mathlib.Data.List.Basic\n\n"
            "namespace Gen\n\nvariable {κ : Type} [LinearOrder κ]\n\n"
            "-- Experiment.analyze, `control is not None`: variant_pairs over the SORTED variants\n"
            f"def pairsGiven (variants : List κ) (control : κ) : List (κ × κ) :=\n  {g_given}\n\n"
            "-- Experiment.analyze, `control is None`\n"
            f"def pairsAll (variants : List κ) : List (κ × κ) :=\n  {g_all}\n\n"
            "-- the guard: `if len(variant_pairs) != 1 and not all_variants: raise ValueError`\n"
            "def pairsRaise (variant_pairs : List (κ × κ)) (all_variants : Bool) : Bool :=\n"
            "  decide (variant_pairs.length ≠ 1) && !all_variants\n\n"
            "end Gen\n")

def write_if_changed(path: Path, text: str) -> bool:
    if path.exists() and path.read_text() == text:
        return False
    path.write_text(text)
    return True


def main() -> None:
    src, dst = Path(sys.argv[1]), Path(sys.argv[2])
    try:
        files = generate(src)
    except Unsupported as ex:
        print(f"UNSUPPORTED {ex}")
        sys.exit(3)
    for mod, text in files.items():
        changed = write_if_changed(dst / f"{mod}.lean", text)
        print(f"{mod}.lean {'written' if changed else 'unchanged'}")


if __name__ == "__main__":
    main()
