"""Translate the straight-line arithmetic of tea_tasting from the Python AST of the CURRENT
source into Lean 4 definitions typed against lean/TeaTasting/Basic/Prelude.lean.

    python translate.py <repo/src/tea_tasting> <lean/TeaTasting/Gen>    # regenerate Gen/*.lean

Every function listed in SIGS is translated statement by statement (DESIGN.md section 4.1).
Anything outside the supported subset raises `Unsupported`; the caller then falls back to the
committed snapshot of Gen/ and ties the model to the code by correspondence alone.

Nothing here is trusted blindly: the generated definitions evaluated at Q must reproduce the
real code on Fractions (harness/corr/*), on every run.
"""
from __future__ import annotations

import ast
import sys
from pathlib import Path

A = "α"


class Unsupported(Exception):
    pass


# ------------------------------------------------------------------------------------------
# signature table: python function -> lean name, parameters, return type
#   prims: the Lean def takes (P : Prims α)
#   none / some: None-specialisation of optional parameters
# ------------------------------------------------------------------------------------------
def _aggr(n):  # noqa: ANN001
    return (n, f"Aggr {A}")


OS = "Option String"
SIGS: dict[str, dict] = {
    # ---- aggr.py
    "aggr._sorted_tuple": dict(mod="Aggr", lean="sortedTuple", params=[("left", "String"), ("right", "String")],
                               ret="String × String", numeric=False),
    "aggr.Aggregates.count": dict(mod="Aggr", lean="Aggr.count", params=[_aggr("self")], ret=A),
    "aggr.Aggregates.mean": dict(mod="Aggr", lean="Aggr.mean", params=[_aggr("self"), ("name", OS)], ret=A),
    "aggr.Aggregates.var": dict(mod="Aggr", lean="Aggr.var", params=[_aggr("self"), ("name", OS)], ret=A),
    "aggr.Aggregates.cov": dict(mod="Aggr", lean="Aggr.cov", params=[_aggr("self"), ("left", OS), ("right", OS)],
                                ret=A),
    "aggr.Aggregates.ratio_var": dict(mod="Aggr", lean="Aggr.ratio_var",
                                      params=[_aggr("self"), ("numer", OS), ("denom", OS)], ret=A),
    "aggr.Aggregates.ratio_cov": dict(mod="Aggr", lean="Aggr.ratio_cov",
                                      params=[_aggr("self"), ("left_numer", OS), ("left_denom", OS),
                                              ("right_numer", OS), ("right_denom", OS)], ret=A),
    "aggr._add_mean": dict(mod="Aggr", lean="addMean", params=[_aggr("left"), _aggr("right"), ("col", "String")],
                           ret=A),
    "aggr._add_var": dict(mod="Aggr", lean="addVar", params=[_aggr("left"), _aggr("right"), ("col", "String")],
                          ret=A),
    "aggr._add_cov": dict(mod="Aggr", lean="addCov",
                          params=[_aggr("left"), _aggr("right"), ("cols", "String × String")], ret=A),
    "aggr.Aggregates.__add__": dict(mod="Aggr", lean="Aggr.add", params=[_aggr("self"), _aggr("other")],
                                    ret=f"Aggr {A}"),
    # ---- metrics/mean.py
    "mean.RatioOfMeans._covariate_cov": dict(mod="Mean", lean="RatioOfMeans.covariate_cov",
                                             params=[("self", f"RatioCfg {A}"), _aggr("aggr")], ret=A),
    "mean.RatioOfMeans._covariate_coef": dict(mod="Mean", lean="RatioOfMeans.covariate_coef",
                                              params=[("self", f"RatioCfg {A}"), _aggr("aggr")], ret=A),
    "mean.RatioOfMeans._metric_mean": dict(mod="Mean", lean="RatioOfMeans.metric_mean",
                                           params=[("self", f"RatioCfg {A}"), _aggr("aggr"),
                                                   ("covariate_coef", A), ("covariate_mean", A)], ret=A),
    "mean.RatioOfMeans._metric_var": dict(mod="Mean", lean="RatioOfMeans.metric_var",
                                          params=[("self", f"RatioCfg {A}"), _aggr("aggr"),
                                                  ("covariate_coef", A)], ret=A),
    "mean.RatioOfMeans._scale_and_distr@none": dict(
        mod="Mean", py="mean.RatioOfMeans._scale_and_distr", lean="RatioOfMeans.scale_and_distr_null",
        params=[("self", f"RatioCfg {A}"), ("contr_var", A), ("contr_count", A), ("treat_var", A),
                ("treat_count", A)],
        ret=f"{A} × Dist {A} × Unit", prims=True, none={"effect_size"}),
    "mean.RatioOfMeans._scale_and_distr@some": dict(
        mod="Mean", py="mean.RatioOfMeans._scale_and_distr", lean="RatioOfMeans.scale_and_distr_alt",
        params=[("self", f"RatioCfg {A}"), ("contr_var", A), ("contr_count", A), ("treat_var", A),
                ("treat_count", A), ("effect_size", A)],
        ret=f"{A} × Dist {A} × Dist {A}", prims=True, some={"effect_size"}),
    "mean.RatioOfMeans._analyze_stats": dict(
        mod="Mean", lean="RatioOfMeans.analyze_stats",
        params=[("self", f"RatioCfg {A}"), ("contr_mean", A), ("contr_var", A), ("contr_count", A),
                ("treat_mean", A), ("treat_var", A), ("treat_count", A)],
        ret=f"MeanResult {A}", prims=True),
    "mean.RatioOfMeans.analyze_aggregates": dict(
        mod="Mean", lean="RatioOfMeans.analyze_aggregates",
        params=[("self", f"RatioCfg {A}"), _aggr("control"), _aggr("treatment")],
        ret=f"MeanResult {A}", prims=True),
    "mean.RatioOfMeans._power_from_stats": dict(
        mod="Mean", lean="RatioOfMeans.power_from_stats",
        params=[("self", f"RatioCfg {A}"), ("sample_var", A), ("sample_count", A), ("effect_size", A)],
        ret=A, prims=True),
}

MODULE_HEADER = {
    "Aggr": "import TeaTasting.Basic.Prelude\n",
    "Mean": "import TeaTasting.Gen.Aggr\n",
}
MODULE_SOURCE = {"aggr": "aggr.py", "mean": "metrics/mean.py"}

FIELD_TYPES = {  # RatioCfg
    "numer": "String", "denom": OS, "numer_covariate": OS, "denom_covariate": OS,
    "alternative": "String", "confidence_level": A, "equal_var": "Bool", "use_t": "Bool",
    "alpha": A, "ratio": A, "power": A,
}
AGGR_METHODS = {"count": "aggr.Aggregates.count", "mean": "aggr.Aggregates.mean", "var": "aggr.Aggregates.var",
                "cov": "aggr.Aggregates.cov", "ratio_var": "aggr.Aggregates.ratio_var",
                "ratio_cov": "aggr.Aggregates.ratio_cov"}
SELF_METHODS = {"_covariate_cov": "mean.RatioOfMeans._covariate_cov",
                "_covariate_coef": "mean.RatioOfMeans._covariate_coef",
                "_metric_mean": "mean.RatioOfMeans._metric_mean",
                "_metric_var": "mean.RatioOfMeans._metric_var",
                "_analyze_stats": "mean.RatioOfMeans._analyze_stats"}
FREE_FUNCS = {"_sorted_tuple": "aggr._sorted_tuple", "_add_mean": "aggr._add_mean", "_add_var": "aggr._add_var",
              "_add_cov": "aggr._add_cov"}
DIST_METHODS = {"cdf", "sf", "ppf", "isf"}
BIN = {ast.Add: "+", ast.Sub: "-", ast.Mult: "*", ast.Div: "/"}
CMP = {ast.Lt: "<", ast.LtE: "≤", ast.Gt: ">", ast.GtE: "≥", ast.Eq: "=", ast.NotEq: "≠"}


def _is_self_attr(e: ast.expr, attr: str | None = None) -> bool:
    return (isinstance(e, ast.Attribute) and isinstance(e.value, ast.Name) and e.value.id == "self"
            and (attr is None or e.attr == attr))


class Tr:
    def __init__(self, key: str, sig: dict, fn: ast.FunctionDef):
        self.key, self.sig, self.fn = key, sig, fn
        self.types = dict(sig["params"])          # local name -> lean type (best effort)
        self.none = set(sig.get("none", ()))
        self.some = set(sig.get("some", ()))
        self.in_aggr = key.startswith("aggr.Aggregates.")
        self.guards: list[str] = []
        want = [n for n, _ in sig["params"]]
        have = [a.arg for a in fn.args.posonlyargs + fn.args.args + fn.args.kwonlyargs]
        extra = self.none | self.some
        if [h for h in have if h not in extra] != [w for w in want if w not in extra]:
            raise Unsupported(f"{key}: signature changed: python {have} vs table {want}")

    # ---- types (a small inference, only what argument wrapping needs)
    def typ(self, e: ast.expr) -> str | None:
        if isinstance(e, ast.Name):
            return self.types.get(e.id)
        if _is_self_attr(e):
            return FIELD_TYPES.get(e.attr)
        if isinstance(e, ast.Subscript) and isinstance(e.value, ast.Name):
            t = self.types.get(e.value.id)
            if t and " × " in t and isinstance(e.slice, ast.Constant):
                return t.split(" × ")[e.slice.value]
        return None

    def arg(self, e: ast.expr, want: str) -> str:
        if isinstance(e, ast.Constant) and e.value is None and want.startswith("Option "):
            return "none"
        s = self.ex(e)
        have = self.typ(e)
        if want.startswith("Option ") and have == want[len("Option "):]:
            return f"(some {s})"
        return s

    def call_sig(self, key: str, recv: str | None, args: list[ast.expr], kws: list[ast.keyword]) -> str:
        sig = SIGS[key]
        params = sig["params"][1:] if recv is not None else sig["params"]
        vals: dict[str, str] = {}
        if len(args) > len(params):
            raise Unsupported(f"too many args for {key}")
        for (pn, pt), a in zip(params, args):
            vals[pn] = self.arg(a, pt)
        for kw in kws:
            if kw.arg not in dict(params):
                raise Unsupported(f"unknown keyword {kw.arg} for {key}")
            vals[kw.arg] = self.arg(kw.value, dict(params)[kw.arg])
        missing = [pn for pn, _ in params if pn not in vals]
        if missing:
            raise Unsupported(f"missing args {missing} for {key}")
        parts = [sig["lean"]]
        if sig.get("prims"):
            parts.append("P")
        if recv is not None:
            parts.append(recv)
        parts += [vals[pn] for pn, _ in params]
        return "(" + " ".join(parts) + ")"

    # ---- expressions
    def ex(self, e: ast.expr) -> str:  # noqa: C901, PLR0911, PLR0912
        if isinstance(e, ast.BinOp):
            if isinstance(e.op, ast.Pow):
                if isinstance(e.right, ast.Constant) and e.right.value == 2:
                    return f"({self.ex(e.left)} ^ 2)"
                raise Unsupported("pow")
            if type(e.op) not in BIN:
                raise Unsupported(f"operator {type(e.op).__name__}")
            return f"({self.ex(e.left)} {BIN[type(e.op)]} {self.ex(e.right)})"
        if isinstance(e, ast.UnaryOp) and isinstance(e.op, ast.USub):
            return f"(-{self.ex(e.operand)})"
        if isinstance(e, ast.Constant):
            if isinstance(e.value, bool) or e.value is None:
                raise Unsupported(f"constant {e.value!r}")
            if isinstance(e.value, int):
                return f"({e.value} : {A})"
            if isinstance(e.value, float):
                num, den = e.value.as_integer_ratio()
                return f"(({num} : {A}) / ({den} : {A}))"
            if isinstance(e.value, str):
                return f"\"{e.value}\""
            raise Unsupported(f"constant {e.value!r}")
        if isinstance(e, ast.Name):
            return e.id
        if isinstance(e, ast.Attribute):
            if _is_self_attr(e):
                return f"self.{e.attr}"
            raise Unsupported(ast.dump(e))
        if isinstance(e, ast.Tuple):
            return "(" + ", ".join(self.ex(x) for x in e.elts) + ")"
        if isinstance(e, ast.Subscript):
            base = e.value
            if _is_self_attr(base):
                if base.attr in ("mean_", "var_"):
                    return f"(self.{base.attr} {self.ex(e.slice)})"
                if base.attr == "cov_":
                    return f"((fun t => self.cov_ t.1 t.2) {self.ex(e.slice)})"
            if isinstance(base, ast.Name) and isinstance(e.slice, ast.Constant):
                return f"{base.id}.{e.slice.value + 1}"
            raise Unsupported(ast.dump(e))
        if isinstance(e, ast.Compare) and len(e.ops) == 1:
            if type(e.ops[0]) not in CMP:
                raise Unsupported(ast.dump(e))
            return f"({self.ex(e.left)} {CMP[type(e.ops[0])]} {self.ex(e.comparators[0])})"
        if isinstance(e, ast.IfExp):
            t = e.test
            if (isinstance(t, ast.Compare) and isinstance(t.ops[0], ast.Is) and isinstance(t.left, ast.Name)
                    and isinstance(t.comparators[0], ast.Constant) and t.comparators[0].value is None):
                if t.left.id in self.none:
                    return "()" if (isinstance(e.body, ast.Constant) and e.body.value is None) else self.ex(e.body)
                if t.left.id in self.some:
                    return self.ex(e.orelse)
            raise Unsupported("ifexp")
        if isinstance(e, ast.Call):
            return self.call(e)
        raise Unsupported(ast.dump(e))

    def call(self, e: ast.Call) -> str:  # noqa: C901, PLR0911, PLR0912
        f = e.func
        if isinstance(f, ast.Name):
            if f.id == "abs":
                return f"|{self.ex(e.args[0])}|"
            if f.id == "float" and isinstance(e.args[0], ast.Constant):
                table = {"+inf": f"(Bound.posInf : Bound {A})", "inf": f"(Bound.posInf : Bound {A})",
                         "-inf": f"(Bound.negInf : Bound {A})"}
                if e.args[0].value not in table:
                    raise Unsupported(f"float({e.args[0].value!r})")
                return table[e.args[0].value]
            if f.id in FREE_FUNCS:
                return self.call_sig(FREE_FUNCS[f.id], None, e.args, e.keywords)
            if f.id == "MeanResult":
                if e.args:
                    raise Unsupported("positional MeanResult")
                fields = ", ".join(f"{kw.arg} := {self.ex(kw.value)}" for kw in e.keywords)
                return "{ " + fields + " }"
            if f.id == "Aggregates" and self.key == "aggr.Aggregates.__add__":
                return self.aggregates_ctor(e)
            raise Unsupported(f"call {f.id}")
        if isinstance(f, ast.Attribute):
            dotted = self.dotted(f)
            if dotted == "math.sqrt":
                return f"(P.sqrt {self.ex(e.args[0])})"
            if dotted == "math.exp":
                return f"(P.exp {self.ex(e.args[0])})"
            if dotted == "scipy.stats.t":
                return f"(P.t {self.kw(e, 'df')})"
            if dotted == "scipy.stats.nct":
                return f"(P.nct {self.kw(e, 'df')} {self.kw(e, 'nc')})"
            if dotted == "scipy.stats.norm":
                if e.args or any(k.arg != "loc" for k in e.keywords):
                    raise Unsupported("norm(...) arguments")
                loc = [k for k in e.keywords if k.arg == "loc"]
                return f"(P.norm {self.ex(loc[0].value) if loc else f'(0 : {A})'})"
            recv = f.value
            if f.attr in DIST_METHODS:
                if len(e.args) != 1 or e.keywords:
                    raise Unsupported("distribution method arguments")
                return f"({self.ex(recv)}.{f.attr} {self.ex(e.args[0])})"
            if f.attr == "with_zero_div" and not e.args:
                return self.ex(recv)
            if isinstance(recv, ast.Name) and recv.id == "self" and not self.in_aggr:
                if f.attr == "_scale_and_distr":
                    has_eff = any(k.arg == "effect_size" for k in e.keywords) or len(e.args) > 4
                    key = "mean.RatioOfMeans._scale_and_distr@" + ("some" if has_eff else "none")
                    return self.call_sig(key, "self", e.args, e.keywords)
                if f.attr in SELF_METHODS:
                    return self.call_sig(SELF_METHODS[f.attr], "self", e.args, e.keywords)
            if f.attr in AGGR_METHODS:
                args = e.args
                if any(isinstance(a, ast.Starred) for a in args):   # left.cov(*cols)
                    if len(args) != 1 or f.attr != "cov":
                        raise Unsupported("starred call")
                    st = self.ex(args[0].value)
                    return f"({SIGS[AGGR_METHODS[f.attr]]['lean']} {self.ex(recv)} (some {st}.1) (some {st}.2))"
                return self.call_sig(AGGR_METHODS[f.attr], self.ex(recv), args, e.keywords)
        raise Unsupported(ast.dump(e))

    def aggregates_ctor(self, e: ast.Call) -> str:
        """`Aggregates(count_=…, mean_={c: E for c in self.mean_}, …)` inside `__add__`:
        a dict comprehension over the receiver's own keys becomes a function of the key."""
        if e.args:
            raise Unsupported("positional Aggregates(...)")
        out = {}
        for kw in e.keywords:
            v = kw.value
            if kw.arg == "count_":
                # `X if self.count_ is not None else None`: the value rendering is under the guard
                if (isinstance(v, ast.IfExp) and isinstance(v.test, ast.Compare)
                        and _is_self_attr(v.test.left, "count_") and isinstance(v.test.ops[0], ast.IsNot)
                        and isinstance(v.orelse, ast.Constant) and v.orelse.value is None):
                    self.guards.append("self.count_ is not None")
                    v = v.body
                out["count_"] = self.ex(v)
            elif kw.arg in ("mean_", "var_", "cov_"):
                if not (isinstance(v, ast.DictComp) and len(v.generators) == 1
                        and not v.generators[0].ifs and _is_self_attr(v.generators[0].iter, kw.arg)
                        and isinstance(v.generators[0].target, ast.Name)
                        and isinstance(v.key, ast.Name) and v.key.id == v.generators[0].target.id):
                    raise Unsupported(f"Aggregates({kw.arg}=…) is not a comprehension over self.{kw.arg}")
                var = v.key.id
                if kw.arg == "cov_":
                    self.types[var] = "String × String"
                    out[kw.arg] = f"fun c0 c1 => let {var} := (c0, c1); {self.ex(v.value)}"
                else:
                    self.types[var] = "String"
                    out[kw.arg] = f"fun {var} => {self.ex(v.value)}"
            else:
                raise Unsupported(f"Aggregates keyword {kw.arg}")
        if set(out) != {"count_", "mean_", "var_", "cov_"}:
            raise Unsupported("Aggregates(...) keywords")
        return "{ " + ", ".join(f"{k} := {v}" for k, v in out.items()) + " }"

    def kw(self, e: ast.Call, name: str) -> str:
        for k in e.keywords:
            if k.arg == name:
                return self.ex(k.value)
        raise Unsupported(f"keyword {name}")

    def dotted(self, f: ast.expr) -> str:
        if isinstance(f, ast.Attribute):
            return self.dotted(f.value) + "." + f.attr
        if isinstance(f, ast.Name):
            return f.id
        return "?"

    # ---- conditions
    def none_tests(self, t: ast.expr) -> list[str] | None:
        """`x is None` or `x is None or y is None` -> [x, y]"""
        if (isinstance(t, ast.Compare) and isinstance(t.ops[0], ast.Is) and isinstance(t.left, ast.Name)
                and isinstance(t.comparators[0], ast.Constant) and t.comparators[0].value is None):
            return [t.left.id]
        if isinstance(t, ast.BoolOp) and isinstance(t.op, ast.Or):
            out = []
            for v in t.values:
                r = self.none_tests(v)
                if r is None:
                    return None
                out += r
            return out
        return None

    def cond(self, t: ast.expr) -> str:
        if isinstance(t, ast.Attribute) and self.typ(t) == "Bool":
            return f"{self.ex(t)} = true"
        if isinstance(t, ast.UnaryOp) and isinstance(t.op, ast.Not):
            return f"¬ ({self.cond(t.operand)})"
        if isinstance(t, ast.BoolOp):
            op = " ∧ " if isinstance(t.op, ast.And) else " ∨ "
            return "(" + op.join(self.cond(v) for v in t.values) + ")"
        return self.ex(t)

    # ---- statements (continuation style)
    def stmts(self, body: list[ast.stmt], ind: str) -> str:  # noqa: C901
        if not body:
            raise Unsupported("fell off the end of a function")
        s, rest = body[0], body[1:]
        if isinstance(s, ast.Expr) and isinstance(s.value, ast.Constant):   # docstring
            return self.stmts(rest, ind)
        if isinstance(s, ast.Return):
            if s.value is None:
                raise Unsupported("bare return")
            return ind + self.ex(s.value)
        if isinstance(s, ast.Assign):
            val = self.ex(s.value)
            out = ""
            for tgt in s.targets:
                if isinstance(tgt, ast.Name):
                    out += f"{ind}let {tgt.id} := {val}\n"
                    t = self.typ(s.value) if isinstance(s.value, (ast.Name, ast.Attribute)) else None
                    if t:
                        self.types[tgt.id] = t
                    else:
                        self.types.pop(tgt.id, None)
                elif isinstance(tgt, ast.Tuple):
                    names = ", ".join(x.id if isinstance(x, ast.Name) else "_" for x in tgt.elts)
                    out += f"{ind}let ({names}) := {val}\n"
                else:
                    raise Unsupported(ast.dump(tgt))
            return out + self.stmts(rest, ind)
        if isinstance(s, ast.If) and len(s.body) == 1 and isinstance(s.body[0], ast.Raise) and not s.orelse:
            # a guard that raises: the value rendering is stated under the guard
            self.guards.append(ast.unparse(s.test))
            return f"{ind}-- guard (raises in Python): {ast.unparse(s.test)}\n" + self.stmts(rest, ind)
        if isinstance(s, ast.If):
            nt = self.none_tests(s.test)
            if nt is not None:      # early-return on None: nested match
                then = self.stmts(s.body if _returns(s.body) else s.body + rest, ind + "    ")
                els = self.stmts((s.orelse if _returns(s.orelse) else s.orelse + rest) if s.orelse else rest,
                                 ind + "    ")
                return self.match_none(nt, then, els, ind)
            saved = dict(self.types)
            then = self.stmts(s.body if _returns(s.body) else s.body + rest, ind + "  ")
            self.types = dict(saved)
            els = self.stmts((s.orelse if _returns(s.orelse) else s.orelse + rest) if s.orelse else rest,
                             ind + "  ")
            return f"{ind}if {self.cond(s.test)} then\n{then}\n{ind}else\n{els}"
        raise Unsupported(ast.dump(s))

    def match_none(self, names: list[str], then: str, els: str, ind: str) -> str:
        scrut = ", ".join(names)
        somes = ", ".join(f"some {n}" for n in names)
        wild = ", ".join("_" for _ in names)
        saved = {n: self.types.get(n) for n in names}
        return (f"{ind}match {scrut} with\n{ind}| {somes} =>\n{els}\n{ind}| {wild} =>\n{then}")

    def render(self) -> str:
        sig = self.sig
        params = " ".join(f"({n} : {t})" for n, t in sig["params"])
        pr = f"(P : Prims {A}) " if sig.get("prims") else ""
        # inside the `some` branch of a match on Option String the name is a String
        body = self.stmts(self.fn.body, "  ")
        return f"def {sig['lean']} {pr}{params} : {sig['ret']} :=\n{body}\n"


def _returns(body: list[ast.stmt]) -> bool:
    return bool(body) and isinstance(body[-1], ast.Return)


def find(mods: dict[str, ast.Module], key: str) -> ast.FunctionDef:
    modname, *path = key.split(".")
    node: ast.AST = mods[modname]
    for name in path:
        for ch in ast.iter_child_nodes(node):
            if isinstance(ch, (ast.FunctionDef, ast.ClassDef)) and ch.name == name:
                if isinstance(ch, ast.FunctionDef) and any(
                        isinstance(d, ast.Name) and d.id == "overload" for d in ch.decorator_list):
                    continue
                node = ch
                break
        else:
            raise Unsupported(f"{key}: {name} not found")
    if not isinstance(node, ast.FunctionDef):
        raise Unsupported(f"{key}: not a function")
    return node


def mean_ctor_map(mods: dict[str, ast.Module]) -> str:
    """`Mean.__init__` -> `RatioOfMeans.__init__` argument map for the four column roles."""
    fn = find(mods, "mean.Mean.__init__")
    calls = [n for n in ast.walk(fn) if isinstance(n, ast.Call) and isinstance(n.func, ast.Attribute)
             and n.func.attr == "__init__" and isinstance(n.func.value, ast.Call)
             and isinstance(n.func.value.func, ast.Name) and n.func.value.func.id == "super"]
    if len(calls) != 1 or calls[0].args:
        raise Unsupported("Mean.__init__: super().__init__ call")
    kws = {k.arg: k.value for k in calls[0].keywords}
    out = {}
    for role in ("numer", "denom", "numer_covariate", "denom_covariate"):
        v = kws.get(role)
        if isinstance(v, ast.Constant) and v.value is None:
            out[role] = "none"
        elif isinstance(v, ast.Name) and v.id == "value":
            out[role] = "value"
        elif isinstance(v, ast.Name) and v.id == "covariate":
            out[role] = "covariate"
        else:
            raise Unsupported(f"Mean.__init__: role {role}")
    if out["numer"] != "value":
        raise Unsupported("Mean.__init__: numer")
    for role in ("denom", "numer_covariate", "denom_covariate"):
        if out[role] == "value":
            out[role] = "(some value)"
    passthrough = ["alternative", "confidence_level", "equal_var", "use_t", "alpha", "ratio", "power"]
    for p in passthrough:
        v = kws.get(p)
        if not (isinstance(v, ast.Name) and v.id == p):
            raise Unsupported(f"Mean.__init__: parameter {p} is not passed through")
    return (
        f"-- mean.Mean.__init__  (line {fn.lineno}): the column roles handed to RatioOfMeans.__init__\n"
        f"def Mean.cfg (value : String) (covariate : Option String) (base : RatioCfg {A}) : RatioCfg {A} :=\n"
        f"  {{ base with numer := {out['numer']}, denom := {out['denom']}, "
        f"numer_covariate := {out['numer_covariate']}, denom_covariate := {out['denom_covariate']} }}\n")


def generate(src: Path) -> dict[str, str]:
    """Return {module name: lean source} or raise Unsupported."""
    mods = {m: ast.parse((src / f).read_text()) for m, f in MODULE_SOURCE.items()}
    out: dict[str, list[str]] = {}
    guards: dict[str, list[str]] = {}
    for key, sig in SIGS.items():
        fn = find(mods, sig.get("py", key))
        tr = Tr(key, sig, fn)
        text = f"-- {sig.get('py', key)}  (line {fn.lineno})\n" + tr.render()
        out.setdefault(sig["mod"], []).append(text)
        if key == "aggr.Aggregates.__add__":   # Python dispatches `a + b` on Aggregates to __add__
            out[sig["mod"]].append(f"instance : Add (Aggr {A}) := ⟨Aggr.add⟩\n")
        if tr.guards:
            guards[key] = tr.guards
    out["Mean"].append(mean_ctor_map(mods))
    files = {}
    for mod, parts in out.items():
        hdr = ("-- GENERATED by harness/translate.py from /repo/src/tea_tasting — do not edit.\n"
               + MODULE_HEADER[mod] + "\n"
               + f"variable {{{A} : Type}} [Field {A}] [LinearOrder {A}] [IsStrictOrderedRing {A}]\n\n"
               + "namespace Gen\n\n")
        gl = "".join(f"-- guard {k}: {g}\n" for k, gs in guards.items() if SIGS[k]["mod"] == mod for g in gs)
        files[mod] = hdr + "\n".join(parts) + "\n" + gl + "end Gen\n"
    return files


def write_if_changed(path: Path, text: str) -> bool:
    if path.exists() and path.read_text() == text:
        return False
    path.write_text(text)
    return True


def main() -> None:
    src, dst = Path(sys.argv[1]), Path(sys.argv[2])
    try:
        files = generate(src)
    except Unsupported as ex:
        print(f"UNSUPPORTED {ex}")
        sys.exit(3)
    for mod, text in files.items():
        changed = write_if_changed(dst / f"{mod}.lean", text)
        print(f"{mod}.lean {'written' if changed else 'unchanged'}")


if __name__ == "__main__":
    main()
