"""Writes /verif/MANIFEST.json from the table below (kept in one place so it always validates)."""
from __future__ import annotations

import json
from pathlib import Path

VERIF = Path(__file__).resolve().parent.parent
ALL = [f"C{i:02d}" for i in range(1, 21)]

NOTE_COMMON = ("Trusted: Lean kernel + Mathlib, axioms {propext, Classical.choice, Quot.sound} only (audited each run), "
               "harness/translate.py and the drivers (validated by exact correspondence each run), CPython "
               "Fraction/int/float semantics. ")

CHECKS = {
    "C01": dict(
        text=("Deep-embedded query algebra (Model/Query.lean: expressions, with_columns / group-by-aggregate stages, an "
              "evaluator over tables in any ordered field) with the three pipelines aggr.py builds (Narwhals two-pass, "
              "Ibis native var/cov, Ibis SQL-demeaning fallback). Theorems: for every table, every grouped request with "
              "validated column lists and >= 2 rows per variant, evaluating each pipeline yields one row per distinct "
              "variant holding exactly n, sum/n, sum (x-mean)^2/(n-1), sum (x-mx)(y-my)/(n-1); plus a kernel-checked "
              "counterexample showing demeaning by the overall mean is wrong. Tie: structural - the real pipelines are "
              "captured from aggr.py (narwhals expression nodes, ibis op graph incl. a fake native backend) and compared "
              "token by token with the model's builders on random requests; float mode on pandas, Polars eager/lazy, "
              "PyArrow, Ibis-SQLite against exact rational statistics. Search: a differing captured pipeline is evaluated "
              "in Lean on rational tables against the specification."),
        note=NOTE_COMMON + "Meaning of the back ends' primitives (mean, len, sum, window mean, var/cov how=sample) is "
             "trusted as Query.evalRow states it; the native Ibis branch cannot be executed here (no installed Ibis "
             "backend has Variance and Covariance) and is tied structurally only. Floating point is checked with a "
             "conditioning-scaled tolerance, not proved. Ungrouped / means-only pipelines: structural + float, not proved.",
        technique="Lean 4 proof over hand-written query model + structural capture correspondence + float cross-backend check",
        design="6/C01",
    ),
    "C02": dict(
        text=("Theorems over the query algebra of C01: the statistics a result row must hold are invariant under ANY "
              "permutation of the data rows (hence any re-chunking) and under any change of columns the request does not "
              "name (isStats_perm, isStats_map); pipelines_agree: running any of the three pipelines (Narwhals, Ibis "
              "native, Ibis fallback) on the data and any of them on a permuted copy with other unrelated columns gives, "
              "for every variant, the same count, means, variances and covariances; result_keys: the result keys are the "
              "distinct variant values, each once, for every pipeline and row order; lifted to the experiment in "
              "Props/C02Compose.lean (analyze_indep_of_backend: two backends whose answers hold the same statistics of the "
              "data give the same Experiment.analyze result for every pair and every metric that reads only what it "
              "declares; instantiated for the GENERATED Mean / RatioOfMeans analysis). Tie: C01's structural tie "
              "(re-checked) + cross-backend float runs of the real Experiment.analyze / solve_power: 5 input kinds x row "
              "permutation x Arrow / Polars chunkings (incl. an empty chunk) x unrelated columns (string, all-null, "
              "numeric, reordered), every field compared with the reference run, keys compared as Python values and types; "
              "resampling metrics compared exactly between inputs with the same row order."),
        note=NOTE_COMMON + "Engines, float noise, physical chunk layout and lazy-vs-eager execution have no counterpart "
             "in the exact model: that part is the cross-backend correspondence (backend independence is partial in this "
             "sense). SQLite returns booleans as 0/1, so Ibis-SQLite with bool ids is skipped.",
        technique="Lean 4 proof over hand-written query model + cross-backend float correspondence",
        design="6/C02",
    ),
    "C03": dict(
        text=("Model/Experiment.lean lists the materialisations of Experiment.analyze / solve_power as a trace of events. "
              "Theorems for ANY number of metrics, columns, variants and pairs: an experiment of aggregated metrics has "
              "the trace [one grouped aggregate fetch of the merged request]; row-level metrics add exactly one fetch whose "
              "columns are the de-duplicated union of the declared columns plus the variant column; the trace does not "
              "depend on the number of pairs; solve_power is one ungrouped fetch; and over the query algebra of C01 every "
              "one of the three pipelines returns one row per distinct variant (one row ungrouped) for every request and "
              "table. Tie: the REAL materialisations are recorded (class-level wrappers on all Ibis to_*/execute methods "
              "and polars.LazyFrame.collect/fetch/profile, plus the SQLite statement trace) and must equal the model's "
              "trace event by event with the requested statistics, row counts and columns. Search: first definition with "
              "more fetches, rows or columns than the model's."),
        note=NOTE_COMMON + "Hypothesis `Declares` (every metric declares a statistic or column; plain metrics read the "
             "data themselves) is shown necessary by a kernel-checked example. Lazy backends available here: Ibis-SQLite "
             "and Polars LazyFrame; other Ibis backends share the same Python code path but are not executed.",
        technique="Lean 4 proof over hand-written trace model + recorded-materialisation correspondence",
        design="6/C03",
    ),
    "C15": dict(
        text=("Model/Granular.lean: read_granular (project on the declared columns, split by variant), _select_as_numpy "
              "(selection by NAME, vector vs stack) and the assembly of BootstrapResult with scipy.stats.bootstrap and the "
              "statistic as parameters. Theorems for all tables, column selections and id types: one part per distinct "
              "variant; each part is exactly the variant's rows of the declared columns in source order (part_rows, "
              "no_leak, row_width); the parts are, as a multiset, the whole projected table (partition_perm: nothing lost, "
              "nothing duplicated); selecting a metric's columns from the experiment's shared read equals its own read "
              "(shared_read_eq_standalone); control/treatment/effect/rel effect are the plain statistic of the full "
              "samples; the interval fields are the resampler's answer for (control, treatment, stacked statistic, "
              "settings) with index 0 -> absolute, 1 -> relative; the result is a function of samples, statistic and "
              "settings incl. the seed (reproducible); intervals are ordered and one-sided under the resampler's contract. "
              "Tie: correspondence of the model (DriverGranular.lean) with the real functions on 6 input kinds x id types; "
              "the resampler parameter is instantiated by a direct scipy.stats.bootstrap call on the arrays and settings "
              "the model prescribes and compared bit for bit, alone twice and inside an Experiment between other metrics."),
        note=NOTE_COMMON + "What scipy.stats.bootstrap does inside (resampling, RNG) is not modelled: partial in that "
             "sense; BootContract (lower <= upper, one-sided as the alternative says) is an assumption on scipy asserted on "
             "every run. Order of the parts and SQL row order are not modelled (multiset comparison for Ibis-SQLite).",
        technique="Lean 4 proof over hand-written model + correspondence + scipy oracle call prescribed by the model",
        design="6/C15",
    ),
    "C16": dict(
        text=("Model/Format.lean: format_num on exact rationals (half-even decimal rounding, binary64 rounding and "
              "floor(log10) as FloatLib parameters), get_and_format_num, and the views to_pretty_dicts / to_string / to_html "
              "as functions of to_dicts(). Theorems: |round_half_even(q,p) - q| <= 1/2 * 10^-p; a value strictly within half "
              "a unit of a grid point rounds to it (no double rounding); sig_error: with e the code's floor(log10|v|) the "
              "rounded value is within 1/2 * 10^(1-s) * |v| (times 1+delta for a log10 that is off by delta) in both the "
              "fixed and the exponential branch; the exponential carry keeps the value; None/NaN/inf as documented; '%' "
              "suffix; the views have one row per to_dicts() row in order, cells right-aligned to the column width "
              "(rjust_spec, rjust_colWidth, joinSep_length), unescape(escape s) = s and no '<' '>' survives escaping. Tie: "
              "string-for-string correspondence of the model with the real functions on boundary and random inputs (log10 "
              "results recorded from the real run), all five result classes; search: the real text parsed back against the "
              "number, views against to_dicts, html parsed with html.parser, dataframe conversions row-wise."),
        note=NOTE_COMMON + "CPython's round()/format() are modelled as exact half-even roundings of the binary value; the "
             "link text <-> denoted value (parse back) is checked by the harness, the theorems speak about the value; "
             "fixed_digits_value has the closeness of the intermediate float as a hypothesis (binary64, s <= 15). Locale "
             "lookup is outside the model (C locale asserted). Known finding K4 (pct overflow renders 'inf%').",
        technique="Lean 4 proof over hand-written model + string-for-string correspondence + parse-back search",
        design="6/C16",
    ),
    "C20": dict(
        text=("Model/Datasets.lean: _make_data as a function of the generator parameters and of the RECORDED random draws. "
              "Theorems for all valid parameters (Valid = _check_params), both variants and all possible earlier draws: "
              "every parameter handed to the RNG lies in its distribution's domain (rng_params_in_domain: 0<p<1, lam>0, "
              "a,b>0, log arguments >0, covariate p in [0,1]) so the generator returns instead of raising, with a "
              "kernel-checked counterexample for the uncapped covariate probability; calibration identities (odds of the "
              "variant draw = ratio; expected sessions / orders / revenue in treatment over control = 1 + the requested "
              "uplift); users_invariants (user = 0..n-1, variant in {0,1}, sessions >= 1, 0 <= orders <= sessions, revenue "
              ">= 0 and zero without orders, covariate analogues) from the ranges of the draws; sessions data is the "
              "explosion of the same users (row count = total sessions, each user in exactly sessions(u) rows, same "
              "variant, sessions = 1, covariates constant within a user). Tie: every numpy Generator call of the real run "
              "is recorded and the model recomputes each distribution parameter and each column from the recorded draws; "
              "search: invariants, determinism across 3 return types, users/sessions agreement, 7-sigma calibration band."),
        note=NOTE_COMMON + "numpy's Generator (determinism for a seed, ranges of the draws) is trusted; the expectation "
             "formulas of the four distributions are definitions in the calibration statements; round(2) is a parameter.",
        technique="Lean 4 proof over hand-written model of the generator as a function of recorded draws + recorded-RNG correspondence",
        design="6/C20",
    ),
    "C14": dict(
        text=("Theorems over the Lean definitions regenerated from aggr.py on every run: aggrOf(s1++s2) = aggrOf s1 + "
              "aggrOf s2 for all sample sizes >= 2 in any ordered field, commutativity, associativity, ratio_var/"
              "ratio_cov = sample (co)variance of the linearised ratios with None = constant 1, and the three special "
              "cases. Tie: translator + exact correspondence of Gen at Q with the real Aggregates on Fractions; "
              "failing-input search against the Lean sample-statistics spec."),
        note=NOTE_COMMON + "Float clause ('up to rounding') is checked against exact rationals, not proved. "
             "Dict/key bookkeeping of Aggregates is modelled as total functions.",
        technique="Lean 4 proof over generated model + exact (Fraction vs Q) correspondence",
        design="6/C14",
    ),
    "C04": dict(
        text=("Theorem mean_analyze_eq_textbook over the regenerated model: for all samples of size >= 2, all 12 "
              "option cells and every confidence level in (0,1), every field of Mean.analyze on the aggregates of "
              "the raw observations equals the Student/Welch/Z test written from the raw observations (incl. the "
              "log-scale delta interval); derived from C06's main theorem with the covariate absent. Tie: translator "
              "+ exact correspondence; search: real code vs Lean spec at Q; float end-to-end vs scipy.stats.ttest_ind."),
        note=NOTE_COMMON + "Hypothesis on the primitives: isf q = -ppf q on (0,1), exp(-x) = 1/exp x (proved for the "
             "rational stand-ins, sampled on scipy). That scipy's t/norm are the Student/normal laws is trusted.",
        technique="Lean 4 proof over generated model + exact correspondence + scipy float cross-check",
        design="6/C04",
    ),
    "C05": dict(
        text=("Theorems ratio_analyze_eq_textbook (RatioOfMeans on aggregates = two-sample test of the per-variant "
              "linearised observations, all data with non-zero denominator means, all options), mean_eq_ratio_none "
              "(generated constructor map), ratio_denom_none_eq_mean, ratio_denom_ones_eq_mean. Same tie/search as C04."),
        note=NOTE_COMMON + "Same hypotheses on the primitives as C04. Column names assumed pairwise distinct where a "
             "role is reused (see DESIGN 7/F5).",
        technique="Lean 4 proof over generated model + exact correspondence",
        design="6/C05",
    ),
    "C06": dict(
        text=("Theorem cuped_analyze_eq_textbook: for every data set, metric (Mean / RatioOfMeans, any covariate "
              "roles) and option cell, analysis from aggregates = textbook test of Y - theta*(X - mean_pooled X) "
              "with theta = cov/var on control+treatment pooled (linearisations at pooled means); corollaries: "
              "affine invariance (Mean), covariate numerator/denominator rescale invariance (all metrics), "
              "zero-variance no-op, pooled-mean preservation. Tie: translator + exact correspondence; search on the "
              "real code incl. the corollaries as exact metamorphic relations."),
        note=NOTE_COMMON + "Same hypotheses on the primitives as C04; data with >= 2 rows per variant and non-zero "
             "denominator means (degenerate data is C18).",
        technique="Lean 4 proof over generated model + exact correspondence",
        design="6/C06",
    ),
    "C07": dict(
        text=("24 theorems over the regenerated _analyze_stats for arbitrary statistics: effect/rel-effect identities; "
              "p in [0,1]; one-sided intervals unbounded; intervals contain the estimate (two-sided; one-sided for "
              "level >= 1/2, with the proved negation below 1/2 = known finding K1); p < 1-level iff the interval "
              "excludes 0 for all three alternatives; greater+less = 1; two-sided = 2 min; nesting in the level; and "
              "Hyp.of_laws (the hypotheses follow from the laws for all valid statistics). Tie: translator + exact "
              "correspondence on _analyze_stats; search: the relations asserted on real float results."),
        note=NOTE_COMMON + "Laws assumed of scipy t/norm, sqrt, exp (Dist.Laws, Prims.Laws) are hypotheses, sampled "
             "on scipy each run. Relative-interval nesting and one-sided relative containment are checked, not proved.",
        technique="Lean 4 proof over generated model + exact correspondence + float relation search",
        design="6/C07",
    ),
    "C17": dict(
        text=("Theorems scale_numerator (c>0: means/effect/abs interval x c, p/statistic/relative fields unchanged; all "
              "metric kinds incl. covariates), scale_ratio_both, swap_roles (means exchanged, effect and statistic "
              "negated, abs interval mirrored, p kept) at the level of the textbook test and, via C06, for the "
              "generated analysis (scale_numerator_code, swap_roles_code). Tie as C06; search: exact swap and float "
              "scale/swap end-to-end through Experiment.analyze."),
        note=NOTE_COMMON + "sqrt(c^2 x) = c sqrt x is derived from the assumed root law; symmetry laws of t/norm assumed. "
             "Scaling is exercised on the real code in float mode only.",
        technique="Lean 4 proof over generated model + exact/float metamorphic search",
        design="6/C17",
    ),
    "C19": dict(
        text=("28 theorems over the check_scalar / auto_check definitions and the (entry point, parameter) -> check "
              "table regenerated from the source: auto_check accepts a value iff it lies in the documented domain, "
              "for every option name and every Python value (NaN, +-inf, bool-as-int, strings, sequences, empty "
              "sequences); effect sizes finite non-zero; q in [0,1]; one bad element rejects a sequence; NaN in no "
              "domain; and (decide +kernel) every documented parameter of every entry point carries its check and "
              "its configuration fallback. Tie: translator + EXHAUSTIVE grid of 58 (entry, parameter) x 63 probes "
              "against the real constructors; search: real outcome vs documented domain."),
        note=NOTE_COMMON + "Hand-written model of Python comparison/isinstance semantics (PyVal) and the mirrored "
             "dispatch around the checks (None -> config, Sequence -> element-wise) are validated by the grid. "
             "Checks with non-literal bounds (make_*_data uplifts, Callable, Generator) are opaque in the table.",
        technique="Lean 4 proof over generated model + exhaustive correspondence grid",
        design="6/C19",
    ),
    "C13": dict(
        text=("24 theorems over a state-that-survives-exceptions model whose structure (validate-then-write, enter "
              "inside try, clear+update restore, get_config copies) is EXTRACTED from config.py each run and whose "
              "validation is the generated auto_check: config_context is transparent for an ARBITRARY body (any "
              "nesting, raising, failed enter), a raising set_config changes nothing, get_config hands out a copy, "
              "explicit arguments win, defaults come from the configuration at construction under the option's own "
              "name (decide over the generated entry table), and - with C19 - no standard option ever leaves its "
              "domain, by induction over programs. Tie: extraction + correspondence of model and real module on "
              "random histories (snapshots after every statement); search: the clauses monitored on the real module."),
        note=NOTE_COMMON + "Model/Config.lean is hand-written (monad, resolve); contextlib semantics assumed; "
             "single-threaded histories.",
        technique="Lean 4 proof over model with extracted structure + history correspondence",
        design="6/C13",
    ),
    "C10": dict(
        text=("103 theorems: for all families (ties included) the step-up loop equals the textbook step-up rule "
              "(rejection flags, running-min adjusted p-values, adjusted alphas), the step-down loop equals Holm's rule; "
              "flagged rejected iff pvalue <= alpha_adj, and iff pvalue_adj <= alpha (exact arithmetic); adjusted "
              "p-values in [pvalue,1] and order-preserving; the GENERATED Benjamini/Bonferroni adjust functions give "
              "well-formed families so adjust_fdr (BH, BY) and all four adjust_fwer procedures (Holm / Hochberg x "
              "Bonferroni / Sidak; Props/C10Fwer.lean) ARE the named procedures — the Sidak ones under seven laws of the "
              "real power x**y, proved for Real.rpow in Props/C10Real.lean; ORDER INDEPENDENCE (Props/C10Order.lean): in both loops any "
              "two hypotheses with equal p-values get the same pvalue_adj and flag, and for the whole procedure incl. the "
              "stable sort and the write-back by input position, permuting the input p-values permutes pvalue_adj and "
              "null_rejected with them, instantiated for all six generated procedures; FAMILY (Model/Family.lean, "
              "Props/C10Family.lean): the family is exactly the selected metric results over all experiments, m its size, "
              "a one-name selection selects exactly that name, reordering experiments or metrics permutes the family, every "
              "output is written back to the hypothesis it was computed for; alpha_adj order-dependent at ties (K2 witness). Tie: translator for "
              "adjust + exact correspondence of the hand-modelled loops on Fraction p-values; search vs textbook spec."),
        note=NOTE_COMMON + "The two loops are GENERATED too (Gen/MultLoops.lean: step function, initial state, enumerate start, "
             "sort direction) and the model's loops are proved equal to them (Props/C10Gen.lean); the stable sort, the write-back "
             "and result copying are hand-modelled; Sidak theorems take the power "
             "function as a parameter with the laws C10.RpowLaws (float ** is its rounding); purity (inputs left unmodified) is checked on every case, not proved.",
        technique="Lean 4 proof (generated adjust functions and loops) + exact correspondence",
        design="6/C10",
    ),
    "C11": dict(
        text=("Theorem analyze_eq_textbook over the regenerated SampleRatio.analyze: for all counts, ratios (scalar or "
              "mapping), methods and correction flags it reports the true counts and the exact binomial p-value "
              "(binom, or auto below 1000) or the normal approximation with correction sign(d)*max(|d|-1/2,0) against "
              "r/(1+r); corollaries counts_reported, method_switch, scalar_mapping_agree, swap_invariant_norm, and "
              "swap_invariant_binom via the exact two-sided binomial p-value over any ordered field. Tie: translator + "
              "exact correspondence (binomtest arguments recorded); float: real p-values vs the exact rational value."),
        note=NOTE_COMMON + "scipy.stats.binomtest = exact two-sided binomial test is a hypothesis (sampled vs the Lean "
             "rational value for n <= 399); norm.sf/sqrt are parameters.",
        technique="Lean 4 proof over generated model + exact correspondence + exact-binomial oracle",
        design="6/C11",
    ),
    "C12": dict(
        text=("41 theorems: the pair construction (GENERATED from the two comprehensions of Experiment.analyze, Gen/Pairs.lean; the model's pairs proved equal to it) is exactly the documented one (control vs every other variant in "
              "sorted order; all pairs with the smaller id as control; no duplicates; a single result iff exactly one "
              "pair, raise otherwise); the OR-merged request covers every statistic every metric declares (covariance "
              "pairs up to order) for any list of metrics; analysis_frame: the GENERATED Mean/RatioOfMeans analysis is a "
              "function of the declared statistics only (incl. the pooled a+b), so an entry cannot depend on other "
              "metrics; the same for power analysis (power_inputs_frame: metric mean, variance and count; "
              "merge_power_superset: the request of Experiment.solve_power covers every aggregated power metric); composed in "
              "Props/C12Compose.lean over a model of Experiment.analyze (one read of the merged request, every metric on "
              "the shared aggregates, every pair): entry_eq_standalone / ratio_entries_eq_standalone (each entry equals the "
              "metric analysed alone on its own read, for any backend whose answer to a request does not depend on what "
              "else was requested - C01), entry_indep_of_others, order_preserved. Tie: correspondence of Model/Experiment.lean with the real Experiment (pairs/raise, declared "
              "columns); search: entry vs metric analysed alone, custom metrics receive what they declared, order, "
              "solve_power."),
        note=NOTE_COMMON + "Model/Experiment.lean is hand-written. The stand-alone clause for SampleRatio / resampling / "
             "user-defined metrics is checked on the real code, not proved.",
        technique="Lean 4 proof (hand model + generated analysis) + correspondence",
        design="6/C12",
    ),
    "C08": dict(
        text=("Theorem power_eq_textbook over the regenerated _power_from_stats/_scale_and_distr: for every variance, n, "
              "effect, ratio, alpha and option cell the reported power is the textbook one (groups n/(1+r), n r/(1+r); "
              "normal at d/se or non-central t with the test's df and nc = d/se; one/two-sided rejection region). "
              "power in [0,1]; closed form se^2 = v(1+r)^2/(n r); for the Z test power is monotone in the effect, in n "
              "and in the variance (covariate never lowers power, with cuped_var_le); one-sided t in the effect under "
              "the stated nct law, and in n under that law plus 'the level-alpha t test does not lose power with more degrees "
              "of freedom' (power_mono_n_t_partial; degrees of freedom monotone for the pooled test). Tie: translator + exact correspondence of solve_power(..., 'power') grids; float "
              "search of range/monotonicity on the real code."),
        note=NOTE_COMMON + "Laws of norm / nct (location family, stochastic monotonicity, cdf in [0,1]) are hypotheses "
             "sampled on scipy; two-sided monotonicity is checked, not proved.",
        technique="Lean 4 proof over generated model + exact correspondence + float relation search",
        design="6/C08",
    ),
    "C09": dict(
        text=("Theorems over the bracket set-up GENERATED from _solve_power_from_stats and a hand-modelled solver: "
              "_find_boundary returns a point with fn <= 0 reached by multiplications (or fails after MAX_ITER), keeps "
              "the sign; every point of the n_obs bracket leaves both groups more than one observation for every "
              "ratio > 0 (false before the fix); under the brentq contract the solved effect reproduces the target "
              "power and its sign follows the alternative, the solved n reproduces it inside the admissible bracket; "
              "ceil of the root is the least integer reaching the target for an increasing power curve; the ROW ASSEMBLY "
              "(Model/PowerGrid.lean, Props/C09Grid.lean): one row per effect size x n_obs in input order (rows_eq_grid), "
              "effect_size = rel_effect_size x adjusted mean in every row for given absolute, given relative and solved "
              "effects (abs_rel_related), only the solved quantity is replaced, n_obs rounded up, raises iff an effect is "
              "needed and none configured. Tie: translator + exact correspondence of the brackets handed to brentq; the "
              "model's rows built from the recorded return values of _solve_power_from_stats must equal the real rows; "
              "float search on the real solver."),
        note=NOTE_COMMON + "brentq contract is a hypothesis; the solver's control flow (Model/Solve.lean) and the row assembly (Model/PowerGrid.lean) are hand-written.",
        technique="Lean 4 proof over generated brackets + hand-modelled solver + bracket correspondence",
        design="6/C09",
    ),
    "C18": dict(
        text=("Theorem analyze_never_raises over a SECOND rendering of aggr.py / metrics/mean.py regenerated each run "
              "(Gen/Safe.lean): the same statements in Except over tagged abstract numbers with UNINTERPRETED + - x, "
              "comparisons, sqrt, exp and distributions, where only partiality is modelled (wrapper dispatch incl. the "
              "plain-float/utils.Int leak, plain division by zero, math.sqrt of a negative, math.exp / ** overflow). For "
              "every interpretation, configuration and pair of aggregates the analysis returns a result; every entry of "
              "a + b is defined; plus the generated utils.div rule (x/0 = +inf for x>0 else NaN), exact values of the "
              "well-defined fields, and non-negativity of the exact adjusted variance. Tie: translator, with the "
              "dispatch semantics validated on the real Float/Int types; search: 11 degenerate families x 4 input "
              "kinds x option cells on the real code."),
        note=NOTE_COMMON + "Basic/Safe.lean (what can raise, how wrappedness propagates) is hand-written and validated "
             "against the real types each run; scipy's frozen distributions are assumed not to raise; KeyError and the "
             "back-end read are outside the theorem (searched).",
        technique="Lean 4 proof over a generated exception-safety rendering + degenerate-data search",
        design="6/C18",
    ),
}

PENDING_REASON = "check not implemented yet in this round (see DESIGN.md section 6 for the planned model and theorems)"


def main() -> None:
    checks = []
    for pid, c in CHECKS.items():
        checks.append({
            "property_id": pid,
            "quick_cmd": f"./check {pid} --tier quick",
            "thorough_cmd": f"./check {pid} --tier thorough",
            "evidence_file": f"evidence/{pid}.json",
            "replay_cmd_template": f"./check {pid} --replay {{path}}",
            "engine": "lean4",
            "level_claimed": {"category": c.get("category", "proof"), "text": c["text"],
                              "design_ref": f"DESIGN.md section {c['design']}"},
            "level_note": c["note"],
            "technique": c["technique"],
        })
    man = {
        "version": 1,
        "setup_cmd": "cd lean && lake build",
        "hooks": {
            "guard": "TEA_TASTING_VERIF",
            "enable": "none needed: the harness observes the package from outside (module attributes, class-level "
                      "wrappers); no hook code lives in /repo",
            "baseline_off_cmd": "cd /repo && /venv/bin/python -m pytest -ra -q -p no:cacheprovider --timeout=900 "
                                "--continue-on-collection-errors",
            "source_commits": [],
            "add_only": True,
        },
        "engines": [{"name": "lean4", "path": "lean", "serves_properties": sorted(CHECKS),
                     "kind_free_text": "Lean 4.33 + Mathlib proofs over a model regenerated from the Python source "
                                       "(harness/translate.py) and hand-written models tied by correspondence"}],
        "checks": checks,
        "not_applicable": [{"property_id": p, "reason": PENDING_REASON} for p in ALL if p not in CHECKS],
        "notes": "Entry point ./check <id> --tier quick|thorough; exit 0 ok, 1 VIOLATION, 2 harness error/timeout. "
                 "Known findings: known_findings.json.",
    }
    (VERIF / "MANIFEST.json").write_text(json.dumps(man, indent=1) + "\n")


if __name__ == "__main__":
    main()
