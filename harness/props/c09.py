"""C09 — solving for effect size or sample size inverts the power function.

Proof: lean/TeaTasting/Props/C09.lean (brackets GENERATED from _solve_power_from_stats, solver control
flow hand-modelled, brentq a parameter with its contract).
Tie: translator + exact correspondence of the brackets handed to brentq (recorded) with the model's.
Float mode: the real solver — returned effect fed back reproduces the target power; returned n_obs is
the smallest integer reaching it; rows / signs — all cells x allocation ratios incl. 0.1 and 10.
"""
from __future__ import annotations

import math
from fractions import Fraction as F

import common
from common import Check, Driver, parse_num, rand_frac, rs

PROP = "C09"
ALTS = ("two-sided", "greater", "less")
CELLS = [(a, ev, ut) for a in ALTS for ev in (False, True) for ut in (False, True)]


def exact_brackets(chk: Check, n, family):
    import stubs
    import tea_tasting as tt
    rng = chk.rng
    jobs = []
    for i in range(n):
        alt, ev, ut = CELLS[i % len(CELLS)]
        v = abs(rand_frac(rng, 0, 6)) + F(1, 3)
        nn = F(rng.randint(10, 3000))
        sign = -1 if alt == "less" else 1
        d = sign * F(rng.randint(1, 900), 100)
        ratio = rng.choice([F(1), F(1, 3), F(2), F(7, 2), F(1, 10), F(10)])
        alpha = F(rng.choice([1, 5, 10]), 100)
        pw = F(rng.randint(15, 60), 100)
        jobs.append((alt, ev, ut, v, nn, d, ratio, alpha, pw))
    lines = [f"solve_brackets {family} x - - - {alt} 19/20 {int(ev)} {int(ut)} {rs(alpha)} {rs(ratio)} {rs(pw)} "
             f"{rs(v)} {rs(nn)} {rs(d)} {rs(pw)}" for alt, ev, ut, v, nn, d, ratio, alpha, pw in jobs]
    out = Driver("DriverGen.lean").ask(lines)
    for (alt, ev, ut, v, nn, d, ratio, alpha, pw), mo in zip(jobs, out):
        me_lo, me_hi, mn_lo, mn_hi = mo.split()
        inp = dict(cell=[alt, ev, ut], v=str(v), n=str(nn), d=str(d), ratio=str(ratio), alpha=str(alpha), power=str(pw),
                   family=family)
        chk.case(("brackets", alt, ev, ut, str(ratio), str(v), str(nn), str(d), str(pw)))
        chk.branch(f"ratio={ratio}")
        for what, kw, model in (("effect_size", dict(sample_count=int(nn)), (me_lo, me_hi)),
                                ("n_obs", dict(effect_size=d), (mn_lo, mn_hi))):
            with stubs.exact_mode(family) as rec:
                m = tt.Mean("x", alternative=alt, equal_var=ev, use_t=ut)
                m.alpha, m.ratio = alpha, ratio
                try:
                    m._solve_power_from_stats(sample_var=v, power=pw, **kw)
                    real = rec.brackets[-1]
                except RuntimeError:
                    real = ("none", "none")
                except ZeroDivisionError:
                    chk.branch("skipped:exact-0/0")
                    continue
                except Exception as ex:  # noqa: BLE001  (brentq itself may reject the bracket; the bracket is recorded)
                    real = rec.brackets[-1] if rec.brackets else ("raise", type(ex).__name__)
            got = tuple("none" if x == "none" else str(F(x)) if not isinstance(x, str) else x for x in real)
            want = tuple("none" if x == "none" else str(F(x)) for x in model)
            if "none" in want:
                want = ("none", "none") if what == "n_obs" or want[1] == "none" else want
            if what == "n_obs" and want[1] == "none":
                want = ("none", "none")
            chk.branch(f"solve:{what}:" + ("boundary-not-found" if got[0] == "none" else "bracket"))
            if got != want:
                chk.disagree(f"bracket handed to brentq when solving for {what}: model vs real",
                             dict(input=inp, impl=got, model=want))
    chk.sample(dict(kind="exact brackets", example=lines[0], model=out[0]))


def float_solver(chk: Check, n):
    import tea_tasting as tt
    rng = chk.rng
    A = tt.aggr.Aggregates
    for i in range(n):
        alt, ev, ut = CELLS[i % len(CELLS)]
        ratio = rng.choice([1, 2, 0.5, 3.5, 0.1, 10, 1 / 3, 7])
        var, mean = rng.uniform(0.5, 9), rng.uniform(1, 10) * (-1 if i % 5 == 4 else 1)     # also negative sample means
        vx, rho = rng.uniform(0.5, 4), rng.uniform(-0.9, 0.9)
        with_cov = i % 3 == 0
        data = A(5000, {"x": mean, "c": 1.0}, {"x": var, "c": vx}, {("c", "x"): rho * math.sqrt(var * vx)})
        alpha = rng.choice([0.01, 0.05, 0.1])
        power = rng.choice([0.5, 0.8, 0.9, 0.95])
        if i % 5 == 2:
            power = alpha * rng.choice([1.2, 1.5, 2.0, 3.0])      # a MODEST target: any power above alpha is a valid request
        sign = -1 if alt == "less" else 1
        kw = dict(alternative=alt, equal_var=ev, use_t=ut, alpha=alpha, ratio=ratio, power=power)
        cols = ("x", "c") if with_cov else ("x",)
        inp = dict(cell=[alt, ev, ut], ratio=ratio, alpha=alpha, power=power, var=var, mean=mean, covariate=with_cov)
        chk.case(("float", i, alt, ev, ut, ratio), nontrivial=True)
        chk.branch("float:target=" + ("modest" if power < 0.5 else "usual"))
        chk.branch(f"float:ratio={round(ratio, 3)}")
        # ---- solve for the effect size at several n_obs
        ns = (int(rng.choice([50, 400, 5000, 10**5])), int(rng.choice([200, 3000, 10**6])))
        if i % 4 == 1:
            ns = ns + (ns[0],)               # a repeated value is legitimate input: one row per entry, in order
        try:
            res = tt.Mean(*cols, n_obs=ns, **kw).solve_power(data, "effect_size")
        except Exception as ex:  # noqa: BLE001
            chk.fail("solve_power(…, 'effect_size') raised on a valid request", dict(input=inp, n_obs=ns, error=repr(ex)))
            res = []
        if res and [r.n_obs for r in res] != list(ns):
            chk.fail("rows are not one per n_obs in input order", dict(input=inp, rows=[r.n_obs for r in res]))
        # the REQUEST decides what is solved: an effect size left configured on the metric is ignored when the effect
        # size is asked for
        try:
            res2 = tt.Mean(*cols, n_obs=ns, effect_size=sign * 0.123, **kw).solve_power(data, "effect_size")
            if [(r.n_obs, r.effect_size) for r in res2] != [(r.n_obs, r.effect_size) for r in res]:
                chk.fail("solving for the effect size gives a different answer when an effect size is configured on the "
                         "metric", dict(input=inp, n_obs=ns, with_configured=[r.effect_size for r in res2],
                                        without=[r.effect_size for r in res]))
        except Exception as ex:  # noqa: BLE001
            chk.fail("solve_power(…, 'effect_size') raised when an effect size is also configured on the metric",
                     dict(input=inp, n_obs=ns, error=repr(ex)))
        # one row per effect size x n_obs combination, effect sizes outer, n_obs inner, inputs echoed
        es2 = (sign * 0.05 * math.sqrt(var), sign * 0.2 * math.sqrt(var))
        try:
            grid = tt.Mean(*cols, effect_size=es2, n_obs=ns, **kw).solve_power(data, "power")
            want = [(e, n_) for e in es2 for n_ in ns]
            if [(r.effect_size, r.n_obs) for r in grid] != want:
                chk.fail("rows of the power grid are not effect size (outer) x n_obs (inner) in input order",
                         dict(input=inp, got=[(r.effect_size, r.n_obs) for r in grid], expected=want))
        except Exception as ex:  # noqa: BLE001
            chk.fail("solve_power(…, 'power') raised on a grid", dict(input=inp, error=repr(ex)))
        for r in res:
            if (r.effect_size > 0) != (sign > 0):
                chk.fail("sign of the solved effect does not follow the alternative",
                         dict(input=inp, n_obs=r.n_obs, effect=r.effect_size))
            back = tt.Mean(*cols, effect_size=r.effect_size, n_obs=int(r.n_obs), **kw).solve_power(data, "power")[0]
            if not abs(back.power - power) <= 1e-8:
                chk.fail("substituting the solved effect size does not reproduce the target power",
                         dict(input=inp, n_obs=r.n_obs, effect=r.effect_size, power_back=back.power))
            if abs(r.rel_effect_size * back.effect_size - r.effect_size * back.rel_effect_size) > 1e-9 * abs(r.effect_size):
                chk.fail("absolute and relative effect are not related by the (adjusted) mean", dict(input=inp))
            if abs(r.effect_size / r.rel_effect_size - mean) > 1e-9 * abs(mean) and not with_cov:
                chk.fail("rel_effect_size != effect_size / mean", dict(input=inp, row=r._asdict()))
        # ---- solve for n_obs at several effects (designs needing more than ~4*max(r,1/r) observations)
        sd = math.sqrt(var)
        effs = tuple(sign * sd * e for e in (rng.uniform(0.01, 0.08), rng.uniform(0.08, 0.4)))
        if i % 4 == 2:
            effs = effs + (effs[0],)
        if i % 3 == 1:
            # small designs: an effect of the order of the standard deviation needs only a few observations more than the
            # smallest admissible sample — the bracket of the root search starts right there
            effs = effs + (sign * sd * rng.uniform(0.7, 3.0), sign * sd * rng.uniform(1.0, 2.2))
        try:
            resn = tt.Mean(*cols, effect_size=effs, **kw).solve_power(data, "n_obs")
        except Exception as ex:  # noqa: BLE001
            # outside the quantifier if the design is tiny: the target is already reached at ~4*max(r, 1/r) observations
            n0 = math.ceil(4 * max(ratio, 1 / ratio)) + 2
            tiny = any(tt.Mean(*cols, effect_size=e, n_obs=n0, **kw).solve_power(data, "power")[0].power >= power
                       for e in effs)
            if tiny:
                chk.branch("float:tiny-design-skipped")
                continue
            chk.fail("solve_power(…, 'n_obs') raised on a valid request", dict(input=inp, effects=effs, error=repr(ex)))
            continue
        if [r.effect_size for r in resn] != list(effs):
            chk.fail("rows are not one per effect size in input order", dict(input=inp))
        for r in resn:
            nn = r.n_obs
            if nn <= 4 * max(ratio, 1 / ratio) + 2:
                chk.branch("float:tiny-design-skipped")
                continue
            if nn != int(nn):
                chk.fail("n_obs is not an integer", dict(input=inp, n_obs=nn))
            p_at = tt.Mean(*cols, effect_size=r.effect_size, n_obs=int(nn), **kw).solve_power(data, "power")[0].power
            p_below = tt.Mean(*cols, effect_size=r.effect_size, n_obs=int(nn) - 1, **kw).solve_power(data, "power")[0].power
            if not (p_at >= power - 1e-9 and p_below < power + 1e-9):
                chk.fail("n_obs is not the smallest integer sample size whose power reaches the target",
                         dict(input=inp, effect=r.effect_size, n_obs=nn, power_at=p_at, power_below=p_below))
    # a covariate column that is constant (variance exactly 0): the unadjusted answer, not an exception
    dconst = A(2000, {"x": 5.0, "c": 3.0}, {"x": 4.0, "c": 0.0}, {("c", "x"): 0.0})
    dplain = A(2000, {"x": 5.0}, {"x": 4.0}, {})
    for par, kw in (("effect_size", dict(n_obs=1000)), ("n_obs", dict(rel_effect_size=0.05)), ("power", dict(rel_effect_size=0.05))):
        chk.case(("constant-covariate", par))
        chk.branch("float:constant-covariate")
        try:
            a = tt.Mean("x", "c", **kw).solve_power(dconst, par)[0]
            b = tt.Mean("x", **kw).solve_power(dplain, par)[0]
            if any(abs(float(u) - float(v)) > 1e-9 * max(abs(float(v)), 1e-300) for u, v in zip(a, b)):
                chk.fail("a covariate with zero variance changes the answer of solve_power",
                         dict(parameter=par, with_covariate=[str(x) for x in a], without=[str(x) for x in b]))
        except Exception as ex:  # noqa: BLE001
            chk.fail(f"solve_power(…, '{par}') raised on a valid request (constant covariate column)",
                     dict(parameter=par, error=repr(ex)))
    # a RATIO metric with a ratio covariate whose two denominators have different means: in every row absolute and relative
    # effect are related by the adjusted sample mean — which, for the sample itself, is the plain ratio of means
    dr = A(4000, {"x": 6.0, "y": 3.0, "cx": 5.0, "cy": 0.5}, {"x": 4.0, "y": 1.0, "cx": 3.0, "cy": 0.04},
           {("x", "y"): 0.6, ("cx", "x"): 1.5, ("cy", "x"): 0.05, ("cx", "y"): 0.3, ("cy", "y"): 0.02, ("cx", "cy"): 0.03})
    for par, kw in (("power", dict(rel_effect_size=(0.05, 0.1), n_obs=(2000, 8000))), ("n_obs", dict(rel_effect_size=0.05)),
                    ("effect_size", dict(n_obs=3000)), ("power", dict(effect_size=0.2))):
        chk.case(("ratio-two-denominators", par, tuple(kw)))
        chk.branch("float:ratio-two-denominators")
        try:
            rows_ = tt.RatioOfMeans("x", "y", "cx", "cy", **kw).solve_power(dr, par)
        except Exception as ex:  # noqa: BLE001
            chk.fail(f"solve_power(…, '{par}') raised on a valid request", dict(metric="RatioOfMeans(x, y, cx, cy)", error=repr(ex)))
            continue
        for r_ in rows_:
            if abs(r_.effect_size - r_.rel_effect_size * 2.0) > 1e-9 * abs(r_.effect_size):
                chk.fail("absolute and relative effect are not related by the (adjusted) mean",
                         dict(metric="RatioOfMeans(x, y, cx, cy): mean(x)/mean(y) = 2, mean(cx)/mean(cy) = 10", parameter=par,
                              row=[str(v) for v in r_]))
                break
    # corpus: the two inputs that raised before fixes 6d61d9e / 8d7e1b0
    d = A(1000, {"x": 5.0}, {"x": 4.0}, {})
    for kw in (dict(ratio=2), dict(ratio=0.1, equal_var=True, use_t=True)):
        chk.case(("corpus", str(kw)))
        try:
            tt.Mean("x", rel_effect_size=0.05, **kw).solve_power(d, "n_obs")
        except Exception as ex:  # noqa: BLE001
            chk.fail("solve_power(…, 'n_obs') raised on a valid request", dict(input=kw, error=repr(ex)))


def grid_rows(chk: Check, n):
    """the row assembly of solve_power (Model/PowerGrid.lean): the real code's rows vs the model's rows built from the
    values _solve_power_from_stats actually returned (recorded by a class-level wrapper) and the adjusted mean / count
    _validate_power_parameters actually received"""
    import tea_tasting as tt
    from tea_tasting.metrics.mean import RatioOfMeans
    rng = chk.rng
    A = tt.aggr.Aggregates
    rec = {}
    orig_solve = getattr(RatioOfMeans, "_solve_power_from_stats", None)
    orig_val = getattr(RatioOfMeans, "_validate_power_parameters", None)
    if orig_solve is None or orig_val is None:
        # private methods: their absence is a refactoring, not a violation; the rows are still decided by float_solver
        chk.disagree("RatioOfMeans._solve_power_from_stats / _validate_power_parameters no longer exist: the recorded tie "
                     "of Model/PowerGrid.lean has nothing to record", dict(cls="tea_tasting.metrics.mean.RatioOfMeans"))
        return

    def solve(self, *a, **kw):
        v = orig_solve(self, *a, **kw)
        rec.setdefault("values", []).append(v)
        return v

    def validate(self, *a, **kw):
        rec["mm"], rec["cnt"] = kw.get("metric_mean", a[0] if a else None), kw.get("sample_count", a[1] if len(a) > 1 else None)
        return orig_val(self, *a, **kw)
    jobs = []
    RatioOfMeans._solve_power_from_stats, RatioOfMeans._validate_power_parameters = solve, validate
    try:
        for i in range(n):
            alt, ev, ut = CELLS[i % len(CELLS)]
            par = ("power", "effect_size", "rel_effect_size", "n_obs")[i % 4]
            sign = -1 if alt == "less" else 1
            var, mean = rng.uniform(0.5, 9), rng.uniform(1, 10) * (-1 if i % 7 == 6 else 1)
            vx, rho = rng.uniform(0.5, 4), rng.uniform(-0.9, 0.9)
            with_cov = i % 3 == 0
            data = A(rng.choice([800, 5000, 12345]), {"x": mean, "c": 1.0}, {"x": var, "c": vx},
                     {("c", "x"): rho * math.sqrt(var * vx)})
            kw = dict(alternative=alt, equal_var=ev, use_t=ut, alpha=rng.choice([0.01, 0.05, 0.1]),
                      ratio=rng.choice([1, 2, 0.5, 3.5]), power=rng.choice([0.5, 0.8, 0.9]))
            k_e, k_n = rng.randint(1, 3), rng.randint(0, 3)
            # effects between 0.02 and 0.3 standard deviations: designs that need hundreds of observations or more (an
            # effect of several standard deviations needs fewer observations than the smallest admissible sample —
            # outside the property's quantifier; an earlier version of this generator scaled by the MEAN and raised a
            # false alarm on the clean tree at seed 12)
            effs = [sign * rng.uniform(0.02, 0.3) * math.sqrt(var) for _ in range(k_e)]
            if i % 5 == 3:
                effs.append(effs[0])                       # a repeated value is one more row
            rel = (i // 4) % 2 == 1
            if rel:
                effs = [e / mean for e in effs]            # as relative effects of the (possibly negative) mean
            ns = [int(rng.choice([50, 400, 5000, 10**5])) for _ in range(k_n)]
            if ns and i % 6 == 2:
                ns.append(ns[0])
            if par in ("effect_size", "rel_effect_size"):
                ekw = {}
                if i % 8 == 1:
                    ekw = {"effect_size": effs[0]}          # left configured while solving for it: must be ignored
            else:
                seq = tuple(effs) if len(effs) > 1 else effs[0]
                ekw = {"rel_effect_size": seq} if rel else {"effect_size": seq}
            nkw = {} if par == "n_obs" or not ns else {"n_obs": tuple(ns) if len(ns) > 1 else ns[0]}
            cols = ("x", "c") if with_cov else ("x",)
            inp = dict(parameter=par, cell=[alt, ev, ut], covariate=with_cov, mean=mean, var=var, count=data.count(),
                       **{k: v for k, v in kw.items() if k not in ("alternative", "equal_var", "use_t")}, **ekw, **nkw,
                       _effs=effs, _ns=ns, _rel=rel)
            rec.clear()
            try:
                m = tt.Mean(*cols, **kw, **ekw, **nkw)
                rows = list(m.solve_power(data, par))
            except Exception as ex:  # noqa: BLE001
                chk.fail("solve_power raised on a valid request (row assembly check)", dict(input=inp, error=repr(ex)))
                continue
            vals = rec.get("values", [])
            if rec.get("mm") is None:
                chk.disagree("_validate_power_parameters was not called with metric_mean / sample_count: the recorded "
                             "tie of Model/PowerGrid.lean no longer applies", dict(input=inp))
                continue

            def seqw(x):
                if x is None:
                    return "-"
                xs = list(x) if isinstance(x, (tuple, list)) else [x]
                return f"{len(xs)} " + " ".join(rs(float(v)) for v in xs)
            line = (f"grid {dict(power='power', effect_size='effect', rel_effect_size='rel', n_obs='n')[par]} "
                    f"{rs(float(rec['mm']))} {rs(rec['cnt'])} {rs(kw['power'])} {seqw(m.effect_size)} "
                    f"{seqw(m.rel_effect_size)} {seqw(m.n_obs)} {len(vals)} " + " ".join(rs(float(v)) for v in vals))
            inp["_mm"] = float(rec["mm"])
            jobs.append((inp, rows, line))
            chk.case(("grid", par, alt, ev, ut, with_cov, rel, len(effs), len(ns)))
            chk.branch(f"grid:{par}:{'rel' if rel else 'abs'}:{len(rows)}rows")
    finally:
        RatioOfMeans._solve_power_from_stats, RatioOfMeans._validate_power_parameters = orig_solve, orig_val
    out = Driver("DriverGrid.lean").ask([j[2] for j in jobs])

    def close(a, b):
        a, b = F(a), F(b)
        return a == b or abs(a - b) <= F(1, 10**13) * max(abs(a), abs(b))
    for (inp, rows, line), mo in zip(jobs, out):
        if mo == "raises" or mo.startswith(("cells", "err")):
            chk.disagree("row assembly: the model " + ("raises" if mo == "raises" else f"expects another number of solver "
                         f"calls ({mo})") + " where the real code returned rows",
                         dict(input={k: v for k, v in inp.items() if not k.startswith("_")}, model=mo, wire=line,
                              rows=[[str(x) for x in r] for r in rows]))
            continue
        mrows = [r.split() for r in mo.split(";")]
        bad = None
        if len(mrows) != len(rows):
            bad = f"{len(rows)} rows, the model has {len(mrows)} (one per effect size x n_obs)"
        else:
            for k, (r, mr) in enumerate(zip(rows, mrows)):
                for name, got, want in zip(("power", "effect_size", "rel_effect_size", "n_obs"), r, mr):
                    if want == "none" or got is None:
                        ok = (want == "none") == (got is None)
                    elif name == "n_obs":
                        ok = isinstance(got, int) and not isinstance(got, bool) and F(got) == parse_num(want)
                    else:
                        ok = close(got, parse_num(want))
                    if not ok:
                        bad = f"row {k}: {name} is {got!r}, the model's row assembly gives {want}"
                        break
                if bad:
                    break
        if bad:
            # decide on the real values alone whether a clause of the property fails
            mm = inp["_mm"]
            want_e = [None] if inp["parameter"] in ("effect_size", "rel_effect_size") else inp["_effs"]
            want_n = [None] if inp["parameter"] == "n_obs" else (inp["_ns"] or [inp["count"]])
            grid = [(e, nn) for e in want_e for nn in want_n]
            pub = {k: v for k, v in inp.items() if not k.startswith("_")}
            if len(rows) != len(grid):
                chk.fail("solve_power does not return one row per effect size x n_obs", dict(input=pub, rows=len(rows),
                                                                                           expected=len(grid)))
            else:
                for r, (e, nn) in zip(rows, grid):
                    given = r.rel_effect_size if inp["_rel"] else r.effect_size
                    if (e is not None and not close(given, e)) or (nn is not None and r.n_obs != nn):
                        chk.fail("rows of solve_power are not effect size (outer) x n_obs (inner) in input order",
                                 dict(input=pub, rows=[[str(x) for x in q] for q in rows]))
                        break
                    if r.effect_size is None or r.rel_effect_size is None or r.n_obs is None or r.power is None:
                        chk.fail("a row of solve_power lacks one of power / effect_size / rel_effect_size / n_obs",
                                 dict(input=pub, row=[str(x) for x in r]))
                        break
                    if r.effect_size is not None and r.rel_effect_size is not None and mm != 0 and \
                            abs(r.effect_size - r.rel_effect_size * mm) > 1e-9 * max(abs(r.effect_size), 1e-300):
                        chk.fail("a row's absolute and relative effect size are not related by the (adjusted) sample mean",
                                 dict(input=pub, row=[str(x) for x in r], mean=mm))
                        break
            chk.disagree("rows of solve_power differ from Model/PowerGrid.lean: " + bad,
                         dict(input={k: v for k, v in inp.items() if not k.startswith("_")}, wire=line,
                              rows=[[str(x) for x in r] for r in rows], model=mo))
    if jobs:
        chk.sample(dict(kind="row assembly", wire=jobs[0][2], model=out[0]))


def main():
    chk = Check(PROP)
    chk.trusted = common.BASE_TRUST + [
        "scipy.optimize.brentq returns a point of a sign-changing bracket where the function vanishes (hypothesis "
        "BrentqContract); the float solver's residual is checked (1e-8), not proved",
        "hand-written: Model/Solve.lean (_find_boundary as fuel recursion, bracket sorting, brentq call); generated: "
        "MAX_ITER, the multiplier, both bracket set-ups (with pattern checks that the closures call _power_from_stats "
        "with the right varying argument) and the power function",
        "ceil_is_minimal assumes a strictly increasing power curve in n (C08); checked on the real code as "
        "power(n) >= target > power(n-1)",
    ]
    chk.assumptions = ["target power above alpha; effect in the direction of the alternative; ratio > 0; designs needing "
                       "more than ~4*max(ratio, 1/ratio) observations"]
    proved = chk.prove(extra_targets=["TeaTasting.Model.Solve"])
    have_model = chk.ensure_driver_model()
    with common.Lock():
        ok, _ = common.lake_build(["TeaTasting.Model.Solve"])
        have_model = have_model and ok
    q = chk.tier == "quick"
    if have_model:
        exact_brackets(chk, 36 if q else 400, 1)
        if not q:
            exact_brackets(chk, 72, 2)
    float_solver(chk, 36 if q else 600)
    from props.c08 import shared_statistics_sequence
    shared_statistics_sequence(chk)
    grid_rows(chk, 48 if q else 480)
    chk.cov["rule"] = ("exact: 12 cells x ratios {1,1/3,2,7/2,1/10,10} x random (variance, n, effect, alpha, target), the "
                       "bracket passed to brentq; float: real solver, all cells x 8 ratios x with/without covariate")
    chk.cov["proved"] = proved

    def extended():
        float_solver(chk, 400)

    chk.finish(extended_search=extended)


def replay(path):
    print(open(path).read()[:4000])
    main()
