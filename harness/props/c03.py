"""C03 — aggregate metrics are computed in the backend: one query, no row-level transfer.

Proof: lean/TeaTasting/Props/C03.lean (trace theorems over Model/Experiment.lean; one row per variant over
the query algebra of C01).  Tie: the materialisations the REAL Experiment.analyze / solve_power perform are
recorded (class-level wrappers around every Ibis materialisation method and polars.LazyFrame.collect, plus
SQLite's statement trace at the DB-API boundary) and compared with the model's trace event by event, including
what each fetch requested and the shape of what came back.  Search: the first definition whose recorded
events exceed the model's (more fetches, more rows, more columns).
"""
from __future__ import annotations

import contextlib

import backends
import common
from common import Check, Driver

PROP = "C03"


@contextlib.contextmanager
def record_fetches():
    """records every materialisation from a lazy backend: (kind, rows, columns)"""
    import ibis.expr.types as ir
    import polars as pl
    events = []
    depth = [0]
    saved = []

    def shape(res):
        import pyarrow as pa
        if isinstance(res, pa.Table):
            return res.num_rows, list(res.column_names)
        if isinstance(res, pl.DataFrame):
            return res.height, list(res.columns)
        if hasattr(res, "shape") and hasattr(res, "columns"):
            return int(res.shape[0]), [str(c) for c in res.columns]
        if isinstance(res, pa.RecordBatchReader):
            t = res.read_all()
            return t.num_rows, list(t.column_names)
        return None, [type(res).__name__]

    def wrap(cls, name, kind):
        orig = cls.__dict__.get(name)
        if orig is None:
            return
        saved.append((cls, name, orig))

        def wrapper(self, *a, **k):
            depth[0] += 1
            try:
                res = orig(self, *a, **k)
            finally:
                depth[0] -= 1
            if depth[0] == 0:
                r, c = shape(res)
                events.append((kind, r, c))
            return res
        setattr(cls, name, wrapper)

    for cls in {ir.Expr, ir.Table, ir.Column, ir.Scalar, ir.Value}:
        for name in ("to_pyarrow", "execute", "to_pandas", "to_polars", "to_pyarrow_batches", "to_pandas_batches",
                     "to_torch", "to_list"):
            wrap(cls, name, "ibis")
    for name in ("collect", "fetch", "collect_async", "profile", "collect_batches"):
        wrap(pl.LazyFrame, name, "polars")
    try:
        yield events
    finally:
        for cls, name, orig in reversed(saved):
            setattr(cls, name, orig)


def cols_of_result(columns, variant):
    """the statistics a fetched aggregate result holds, in the model's showCols format"""
    mean, var, cov, hc, other = [], [], [], False, []
    for c in columns:
        if c == variant:
            continue
        if c == "_count":
            hc = True
        elif c.startswith("_mean__"):
            mean.append(c[len("_mean__"):])
        elif c.startswith("_var__"):
            var.append(c[len("_var__"):])
        elif c.startswith("_cov__"):
            cov.append("~".join(sorted(c[len("_cov__"):].split("__"))))
        else:
            other.append(c)
    return (f"count={'true' if hc else 'false'}|mean={','.join(sorted(mean))}|var={','.join(sorted(var))}|"
            f"cov={','.join(sorted(cov))}"), other


def ac_wire(ac):
    return (f"{int(ac.has_count)} {len(ac.mean_cols)} {' '.join(ac.mean_cols)} {len(ac.var_cols)} {' '.join(ac.var_cols)} "
            f"{len(ac.cov_cols)} " + " ".join(f"{a} {b}" for a, b in ac.cov_cols)).replace("  ", " ").strip()


def kind_wire(m):
    import tea_tasting.metrics as tm
    a = isinstance(m, tm.MetricBaseAggregated)
    g = isinstance(m, tm.MetricBaseGranular)
    if a and g:
        return f"B {ac_wire(m.aggr_cols)} {len(m.cols)} {' '.join(m.cols)}".strip()
    if a:
        return f"A {ac_wire(m.aggr_cols)}"
    if g:
        return f"G {len(m.cols)} {' '.join(m.cols)}".strip()
    return "P"


def make_classes():
    from tea_tasting.metrics.base import AggrCols, MetricBaseAggregated, MetricBaseGranular

    class CustomAggr(MetricBaseAggregated):
        def __init__(self, ac):
            self.ac = ac

        @property
        def aggr_cols(self):
            return self.ac

        def analyze_aggregates(self, control, treatment):
            return {"n": (control.count_ or 0) + (treatment.count_ or 0)}

    class CustomGran(MetricBaseGranular):
        def __init__(self, cols_):
            self.cols_ = tuple(cols_)

        @property
        def cols(self):
            return self.cols_

        def analyze_granular(self, control, treatment):
            return {"rows": control.num_rows + treatment.num_rows, "cols": tuple(control.column_names)}

    class CustomBoth(MetricBaseAggregated, MetricBaseGranular):
        def __init__(self, ac, cols_):
            self.ac = ac
            self.cols_ = tuple(cols_)

        @property
        def aggr_cols(self):
            return self.ac

        @property
        def cols(self):
            return self.cols_

        def analyze_aggregates(self, control, treatment):
            return {"via": "aggregates"}

        def analyze_granular(self, control, treatment):
            return {"via": "granular"}

        def analyze(self, data, control, treatment, variant=None):
            import tea_tasting.aggr
            if isinstance(data, dict) and all(isinstance(v, tea_tasting.aggr.Aggregates) for v in data.values()):
                return MetricBaseAggregated.analyze(self, data, control, treatment, variant)
            return MetricBaseGranular.analyze(self, data, control, treatment, variant)

    from tea_tasting.metrics.base import MetricBase, MetricPowerResults, PowerBaseAggregated

    class PowerOnly(MetricBase, PowerBaseAggregated):
        """plain metric for analyze(); its power analysis works from aggregates"""
        def __init__(self, cols_):
            self.cols_ = tuple(cols_)

        @property
        def aggr_cols(self):
            a, b = self.cols_
            return AggrCols(has_count=True, mean_cols=(a, b), var_cols=(b,), cov_cols=((a, b),))

        def analyze(self, data, control, treatment, variant):
            return {"plain": 1}

        def solve_power_from_aggregates(self, data, parameter="rel_effect_size"):
            return MetricPowerResults([{"n": data.count(), "m": data.mean(self.cols_[0])}])

    make_classes.PowerOnly = PowerOnly
    return AggrCols, CustomAggr, CustomGran, CustomBoth


def gen_definition(rng, i, classes, colnames):
    import tea_tasting as tt
    AggrCols, CustomAggr, CustomGran, CustomBoth = classes
    metrics = {}
    k = rng.randint(1, 6)
    ngran = 0 if i % 2 == 0 else rng.randint(1, 3)
    kinds = [rng.choice(["mean", "mean_cov", "ratio", "ratio_cov", "sr", "caggr"]) for _ in range(k)]
    if i % 6 == 4:
        # every aggregated metric needs only the per-variant count: still ONE aggregate query, no distinct-variants query
        kinds = ["sr"] * rng.randint(1, 2) + ["ccount"] * rng.randint(0, 1)
    kinds += [rng.choice(["cgran", "quantile", "bootstrap", "cboth"]) for _ in range(ngran)]
    rng.shuffle(kinds)
    for j, kind in enumerate(kinds):
        cs = rng.sample(colnames, 4)
        name = f"m{j}_{kind}"
        if kind == "mean":
            metrics[name] = tt.Mean(cs[0])
        elif kind == "mean_cov":
            metrics[name] = tt.Mean(cs[0], cs[1])
        elif kind == "ratio":
            metrics[name] = tt.RatioOfMeans(cs[0], cs[1])
        elif kind == "ratio_cov":
            metrics[name] = tt.RatioOfMeans(cs[0], cs[1], cs[2], cs[3])
        elif kind == "sr":
            metrics[name] = tt.SampleRatio()
        elif kind == "ccount":
            metrics[name] = CustomAggr(AggrCols(has_count=True))
        elif kind == "caggr":
            metrics[name] = CustomAggr(AggrCols(
                has_count=rng.random() < 0.5, mean_cols=tuple(cs[:rng.randint(1, 3)]), var_cols=tuple(cs[:rng.randint(0, 2)]),
                cov_cols=tuple((a, b) for a in cs[:2] for b in cs[2:3] if rng.random() < 0.6)))
        elif kind == "cgran":
            metrics[name] = CustomGran(cs[:rng.randint(1, 3)])
        elif kind == "cboth":
            metrics[name] = CustomBoth(AggrCols(has_count=True, mean_cols=(cs[0],)), cs[1:2])
        elif kind == "quantile":
            metrics[name] = tt.Quantile(cs[0], q=0.5, n_resamples=10, random_state=7)
        else:
            import numpy as np
            metrics[name] = tt.Bootstrap((cs[0], cs[1]), lambda a, axis=0: np.mean(a, axis=axis)[..., 0] if a.ndim > 1 else np.mean(a, axis=axis),
                                         n_resamples=10, random_state=3)
    return metrics


def run(chk: Check, n):
    import numpy as np
    import tea_tasting as tt
    import tea_tasting.metrics as tm
    classes = make_classes()
    rng = chk.rng
    colnames = ["a", "b", "c", "d", "e", "f"]
    jobs = []
    for i in range(n):
        nv = rng.randint(2, 4)
        ids = rng.sample([0, 1, 2, 3, 5, 8], nv) if i % 3 else rng.sample(["a", "b", "ctl", "t1", "t2"], nv)
        nrows = rng.choice([10, 37, 200, 1000, 5000]) if chk.tier != "quick" else rng.choice([10, 37, 200, 1000])
        nrows = max(nrows, 3 * nv)
        nprng = np.random.default_rng(rng.randint(0, 2**31))
        variant = [ids[j % nv] for j in range(nrows)]
        rng.shuffle(variant)
        cols = {"variant": variant, **{c: (nprng.normal(3, 1, nrows) + 5).tolist() for c in colnames},
                "unused1": list(range(nrows)), "unused2": ["q"] * nrows}
        metrics = gen_definition(rng, i, classes, colnames)
        backend = ("ibis-sqlite", "polars-lazy")[i % 2] if i % 7 else "polars-lazy"
        power_only = make_classes.PowerOnly(rng.sample(colnames, 2)) if i % 2 == 0 else None
        # the control: the default (all pairs) or given explicitly (any of the ids, not only the smallest)
        control = None if i % 3 == 0 else sorted(ids)[rng.randrange(nv)]
        jobs.append((ids, nrows, cols, metrics, backend, power_only, control))
    lines = []
    for ids, nrows, cols, metrics, backend, power_only, control in jobs:
        nv = len(ids)
        npairs = nv * (nv - 1) // 2 if control is None else nv - 1
        ms = " ".join(f"{name} {kind_wire(m)}" for name, m in metrics.items())
        lines.append(f"trace variant {npairs} {len(metrics)} {ms}")
        pk = []
        for name, m in metrics.items():
            if isinstance(m, tm.PowerBaseAggregated):
                pk.append(f"{name} A {ac_wire(m.aggr_cols)}")
            elif isinstance(m, tm.PowerBase):
                pk.append(f"{name} P")
            else:
                pk.append(f"{name} N")
        if power_only is not None:
            pk.append(f"zz_power_only A {ac_wire(power_only.aggr_cols)}")
        lines.append(f"ptrace {len(pk)} {' '.join(pk)}")
    out = Driver("DriverExperiment.lean").ask(lines)
    for j, (ids, nrows, cols, metrics, backend, power_only, control) in enumerate(jobs):
        model_trace = out[2 * j].split()
        model_ptrace = out[2 * j + 1].split()
        nv = len(ids)
        data = backends.make_inputs(cols, (backend,))[backend]
        sql = []
        if backend == "ibis-sqlite":
            data._find_backend().con.set_trace_callback(sql.append)
        inp = dict(backend=backend, ids=repr(ids), control=repr(control), rows=nrows, metrics={k: type(v).__name__ for k, v in metrics.items()},
                   declared={k: kind_wire(v) for k, v in metrics.items()}, seed=chk.seed, case=j)
        chk.case(("analyze", backend, nv, nrows, len(metrics), sum(isinstance(m, tm.MetricBaseGranular) for m in metrics.values())))
        chk.branch(f"backend:{backend}")
        chk.branch("granular:" + ("yes" if any(isinstance(m, tm.MetricBaseGranular) for m in metrics.values()) else "no"))
        for name in metrics:
            chk.branch("metric:" + name.split("_", 1)[1])
        exp = tt.Experiment(metrics)
        with record_fetches() as ev:
            try:
                exp.analyze(data, control, all_variants=True)
            except Exception as ex:  # noqa: BLE001
                chk.fail("Experiment.analyze raised on a valid definition", dict(input=inp, error=repr(ex)))
                continue
        check_events(chk, "analyze", inp, ev, sql, model_trace, nv, nrows, backend)
        # power analysis over the same definition
        pms = {}
        for name, m in metrics.items():
            if isinstance(m, tt.Mean):
                pms[name] = tt.Mean(m.value, m.covariate, rel_effect_size=0.1, n_obs=(500, 2000))
            elif isinstance(m, tt.RatioOfMeans):
                pms[name] = tt.RatioOfMeans(m.numer, m.denom, m.numer_covariate, m.denom_covariate,
                                            rel_effect_size=0.1, n_obs=(500, 2000))
            else:
                pms[name] = m
        if power_only is not None:
            pms["zz_power_only"] = power_only
        if any(isinstance(m, tm.PowerBaseAggregated) for m in pms.values()):
            sql.clear()
            with record_fetches() as ev:
                try:
                    tt.Experiment(pms).solve_power(data, "power")
                except Exception as ex:  # noqa: BLE001
                    chk.fail("Experiment.solve_power raised", dict(input=inp, error=repr(ex)))
                    continue
            chk.case(("power", backend, len(pms)))
            chk.branch("solve_power")
            check_events(chk, "solve_power", inp, ev, sql, model_ptrace, 1, nrows, backend)
        if j < 3:
            chk.sample(dict(kind="recorded fetches", backend=backend, metrics=list(metrics), rows=nrows, variants=nv,
                            model_trace=model_trace, recorded=[(k, r, c[:12]) for k, r, c in ev]))


def special(chk: Check):
    """definitions the random generator does not reach: a very WIDE experiment ("however many metrics, columns") and an
    experiment whose public `metrics` dict was changed after construction; decided on the recorded fetches alone"""
    import numpy as np
    import polars as pl
    import tea_tasting as tt
    rng = chk.rng
    nprng = np.random.default_rng(rng.randint(0, 2**31))
    nrows = 40
    variant = [j % 2 for j in range(nrows)]

    def count_fetches(what, exp_, data_, inp, want_rows, power=False):
        with record_fetches() as ev:
            try:
                if power:
                    exp_.solve_power(data_, "power")
                else:
                    exp_.analyze(data_)
            except Exception as ex:  # noqa: BLE001
                chk.fail(f"{what} raised on a valid definition", dict(input=inp, error=repr(ex)))
                return
        aggs = [(k, r) for k, r, c in ev if any(x.startswith(("_count", "_mean__", "_var__", "_cov__")) for x in c)]
        others = [(k, r, c[:6]) for k, r, c in ev if not any(x.startswith(("_count", "_mean__", "_var__", "_cov__")) for x in c)]
        if len(aggs) != 1 or others or aggs[0][1] != want_rows:
            chk.fail(f"{what}: the backend was asked for more than the one aggregate query",
                     dict(input=inp, recorded=[(k, r) for k, r, _ in ev], expected=f"one result set of {want_rows} row(s)"))
    # ---- wide definitions
    for width, kind in ((140, "mean"), (24, "ratio_cov")):
        ncol = width if kind == "mean" else 4 * width
        cols = {"variant": variant, **{f"c{j}": (nprng.normal(3, 1, nrows) + 5).tolist() for j in range(ncol)}}
        data = pl.DataFrame(cols).lazy()
        if kind == "mean":
            ms = {f"m{j}": tt.Mean(f"c{j}") for j in range(width)}
            pm = {f"m{j}": tt.Mean(f"c{j}", rel_effect_size=0.1) for j in range(width)}
        else:
            ms = {f"m{j}": tt.RatioOfMeans(f"c{4*j}", f"c{4*j+1}", f"c{4*j+2}", f"c{4*j+3}") for j in range(width)}
            pm = {f"m{j}": tt.RatioOfMeans(f"c{4*j}", f"c{4*j+1}", f"c{4*j+2}", f"c{4*j+3}", rel_effect_size=0.1)
                  for j in range(width)}
        inp = dict(backend="polars-lazy", metrics=f"{width} x {kind} on distinct columns", rows=nrows, variants=2)
        chk.case(("wide", kind, width))
        chk.branch("wide:" + kind)
        count_fetches("analyze (wide definition)", tt.Experiment(ms), data, inp, 2)
        count_fetches("solve_power (wide definition)", tt.Experiment(pm), data, inp, 1, power=True)
    # ---- the metrics dict changed after construction
    cols = {"variant": variant, **{c: (nprng.normal(3, 1, nrows) + 5).tolist() for c in "abcd"}}
    data = pl.DataFrame(cols).lazy()
    for how in ("added", "replaced"):
        exp = tt.Experiment(first=tt.Mean("a"), second=tt.Mean("b", "c"))
        if how == "added":
            exp.metrics["third"] = tt.RatioOfMeans("c", "d")
        else:
            exp.metrics["first"] = tt.RatioOfMeans("c", "d", "a", "b")
        inp = dict(backend="polars-lazy", metrics=f"Experiment(first=Mean, second=Mean+cov); a metric {how} in "
                   "experiment.metrics after construction", rows=nrows, variants=2)
        chk.case(("mutated-metrics", how))
        chk.branch("metrics-dict:" + how)
        count_fetches(f"analyze (metric {how} after construction)", exp, data, inp, 2)


def check_events(chk, what, inp, ev, sql, model_trace, nv, nrows, backend):
    """recorded materialisations against the model's trace"""
    real = []
    for kind, r, c in ev:
        if any(x.startswith(("_count", "_mean__", "_var__", "_cov__")) for x in c):
            key, other = cols_of_result(c, "variant")
            grouped = "variant" in c
            real.append((f"agg[{'true' if grouped else 'false'}]({key})", r, c, other))
        else:
            real.append((f"gran({','.join(sorted(c))})", r, c, []))
    real_names = [x[0] for x in real]
    if backend != "ibis-sqlite":
        # the Narwhals pipeline carries `_count` whenever a variance / covariance is requested (it rescales by it:
        # Query.nwQuery, `has_count || covarCols ≠ []`), also when the metrics did not ask for the count
        def norm(n_):
            if n_.startswith("agg[") and "count=false" in n_ and not (n_.split("|var=")[1].startswith("|cov=)")):
                return n_.replace("count=false", "count=true")
            return n_
        model_trace = [norm(n_) for n_ in model_trace]
    detail = dict(input=inp, call=what, recorded=[(n_, r) for n_, r, _, _ in real], model=model_trace,
                  sql=[s[:200] for s in sql][:6])
    if real_names != model_trace:
        more = len(real_names) > len(model_trace)
        extra_cols = any(n_.startswith("gran(") and n_ not in model_trace for n_ in real_names)
        if more or extra_cols:
            chk.fail(f"{what}: the backend was asked for more than the one aggregate query"
                     + (" and the one row-level fetch of the declared columns" if "gran" in " ".join(model_trace) else ""),
                     detail)
        else:
            chk.disagree(f"{what}: recorded materialisations differ from the model's trace", detail)
        return
    for name, r, c, other in real:
        if name.startswith("agg["):
            want = nv if name.startswith("agg[true]") else 1
            if r != want or other:
                chk.fail(f"{what}: the aggregate fetch is not one row per variant with only the requested statistics",
                         dict(detail, rows=r, expected_rows=want, other_columns=other))
        else:
            if r != nrows:
                chk.fail(f"{what}: the row-level fetch does not hold the data rows once", dict(detail, rows=r))
    if backend == "ibis-sqlite":
        selects = [s for s in sql if s.lstrip().upper().startswith("SELECT")]
        if len(selects) != len(model_trace):
            chk.fail(f"{what}: the database executed {len(selects)} SELECT statements for {len(model_trace)} modelled fetches",
                     detail)


def main():
    import warnings
    warnings.filterwarnings("ignore")
    chk = Check(PROP)
    chk.trusted = common.BASE_TRUST + [
        "hand-written: Model/Experiment.lean (analyzeTrace, solvePowerTrace) — tied by correspondence: the recorded "
        "materialisations of the real Experiment must equal the model's trace event by event",
        "the recorder sees every materialisation: all of Ibis' to_*/execute methods and polars.LazyFrame.collect/fetch/"
        "profile/collect_async are wrapped at class level; for Ibis-SQLite the statements the database actually ran are "
        "traced at the DB-API boundary (sqlite3 set_trace_callback) as an independent count",
        "aggFetch_rows_* are theorems about the query algebra of C01 (same structural tie as C01)",
        "eager inputs (pandas, PyArrow, Polars DataFrame) have no backend round trip; they go through the same code path "
        "(`.lazy()`), which the Polars-lazy runs exercise",
    ]
    chk.assumptions = ["metrics declare at least one statistic / column (a metric that declares nothing is handed the raw "
                       "data and may read it: `Declares` hypothesis, shown necessary by the plain-metric example)"]
    proved = chk.prove(extra_targets=["TeaTasting.Model.Experiment", "TeaTasting.Model.Query"])
    with common.Lock():
        common.lake_build(["TeaTasting.Model.Experiment", "TeaTasting.Driver.Proto"])
    q = chk.tier == "quick"
    run(chk, 24 if q else 160)
    special(chk)
    chk.cov["rule"] = ("definitions: 1..6 aggregated metrics from {Mean, Mean+cov, ratio, ratio+cov, SampleRatio, custom "
                       "AggrCols} + 0..3 row-level metrics from {Quantile, Bootstrap(2 columns), custom, custom both}, "
                       "overlapping columns out of 6 (+2 unused columns); 2..4 variants (int / str ids), all pairs; "
                       "10..5000 rows; Ibis-SQLite and Polars LazyFrame; analyze and solve_power")
    chk.cov["proved"] = proved

    def extended():
        run(chk, 60)

    chk.finish(extended_search=extended)


def replay(path):
    print(open(path).read()[:4000])
    main()
