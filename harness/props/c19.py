"""C19 — parameters are accepted exactly when they lie in their documented domain.

Proof: lean/TeaTasting/Props/C19.lean over the GENERATED check_scalar / auto_check / entry table.
Tie: translator + exhaustive correspondence: every entry point x parameter x probe value, the real
outcome (accepted / TypeError / ValueError) against the generated model composed the way the
constructor dispatches.  Search: the real outcome against the documented domain (Lean `inDomain`).
"""
from __future__ import annotations

import math
from collections.abc import Sequence

import common
from common import Check, Driver

PROP = "C19"


def to_wire(v) -> str:
    import numpy as np
    if v is None:
        return "N"
    if isinstance(v, bool):
        return f"B{int(v)}"
    if isinstance(v, int):
        return f"I{v}"
    if isinstance(v, float):      # numpy.float64 is a float subclass
        if math.isnan(v):
            return "Fnan"
        if math.isinf(v):
            return "Finf" if v > 0 else "F-inf"
        return "F" + common.rs(float(v))
    if isinstance(v, str):
        return "S" + v.encode().hex()
    if isinstance(v, (list, tuple)):
        return " ".join([f"L{len(v)}"] + [to_wire(x) for x in v])
    return "O" + type(v).__name__.replace(" ", "_")


def probes():
    import numpy as np
    nx = math.nextafter
    nums = [None, True, False, -1, 0, 1, 2, 3, 10, 1000,
            0.0, -0.0, 0.05, 0.5, 0.95, 1.0, 2.5, -0.3, nx(0, 1), nx(1, 0), nx(1, 2), nx(0, -1), -1e-300, 1e300,
            float("nan"), float("inf"), float("-inf"), np.float64(0.5), np.float64("nan"), np.int64(5)]
    strs = ["two-sided", "greater", "less", "auto", "binom", "norm", "sidak", "bonferroni", "percentile", "basic",
            "bca", "bogus", "", "ab", "power", "effect_size", "rel_effect_size", "n_obs", "variant"]
    seqs = [[2, 3], (10,), [], (), [2, 1], [2, 2.0], [True], [0.1, float("nan")], [0.1, -0.2], (0.5, 0), [None],
            [1000, 2000, "x"], {}, object(),
            # hashable values that compare (and hash) EQUAL to valid ones but are of another type
            (2, 3), (2.0, 3.0), (10.0,), (True, 3),
            (0.1, float("inf")), [float("-inf"), 0.2], (float("inf"),)]
    return nums + strs + seqs


def is_py_seq(v):
    return isinstance(v, Sequence)


def entries():
    """(entry, param, call(value) -> object-or-None, model rule, spec rule, stored attribute or None)"""
    import numpy as np
    import tea_tasting as tt
    import tea_tasting.config as cfg
    out = []
    std = ["alternative", "confidence_level", "equal_var", "use_t", "alpha", "ratio", "power", "n_obs"]
    for ent, mk in (("RatioOfMeans", lambda **kw: tt.RatioOfMeans("x", "y", **kw)),
                    ("Mean", lambda **kw: tt.Mean("x", **kw))):
        for p in std:
            out.append((ent, p, (lambda v, mk=mk, p=p: mk(**{p: v})), ("cfg_auto", p), ("opt_domain", p), p))
        for p in ("effect_size", "rel_effect_size"):
            out.append((ent, p, (lambda v, mk=mk, p=p: mk(**{p: v})), ("effect", f"RatioOfMeans_{p}"),
                        ("effect",), p))
    out.append(("SampleRatio", "ratio", lambda v: tt.SampleRatio(ratio=v), ("sr_ratio",), ("sr_ratio",), "ratio"))
    out.append(("SampleRatio", "method", lambda v: tt.SampleRatio(method=v), ("scalar", "SampleRatio_method"),
                ("oneOf", ["auto", "binom", "norm"]), "method"))
    out.append(("SampleRatio", "correction", lambda v: tt.SampleRatio(correction=v), ("auto", "correction"),
                ("domain", "correction"), "correction"))
    for ent, mk in (("Bootstrap", lambda **kw: tt.Bootstrap("x", np.mean, **kw)),
                    ("Quantile", lambda **kw: tt.Quantile("x", **kw))):
        for p in ("alternative", "confidence_level", "n_resamples"):
            out.append((ent, p, (lambda v, mk=mk, p=p: mk(**{p: v})), ("cfg_auto", p), ("opt_domain", p), p))
        out.append((ent, "method", (lambda v, mk=mk: mk(method=v)), ("scalar", "Bootstrap_method"),
                    ("oneOf", ["percentile", "basic", "bca"]), "method"))
    out.append(("Quantile", "q", lambda v: tt.Quantile("x", q=v), ("scalar", "Quantile_q"), ("kind", "unitClosed"), "q"))

    def set_cfg(p):
        def call(v):
            saved = dict(cfg._global_config)
            try:
                tt.set_config(**{p: v})
                return ("cfgval", cfg._global_config.get(p))
            finally:
                cfg._global_config.clear()
                cfg._global_config.update(saved)
        return call

    def ctx_cfg(p):
        def call(v):
            saved = dict(cfg._global_config)
            try:
                with tt.config_context(**{p: v}):
                    return ("cfgval", cfg._global_config.get(p))
            finally:
                cfg._global_config.clear()
                cfg._global_config.update(saved)
        return call

    for p in ["alpha", "alternative", "confidence_level", "equal_var", "n_obs", "n_resamples", "power", "ratio",
              "use_t"]:
        out.append(("set_config", p, set_cfg(p), ("none_auto", p), ("opt_domain", p), None))
        out.append(("config_context", p, ctx_cfg(p), ("none_auto", p), ("opt_domain", p), None))

    data = tt.make_users_data(seed=1, n_users=200)
    res = tt.Experiment(a=tt.Mean("orders"), b=tt.Mean("revenue")).analyze(data)
    out.append(("adjust_fdr", "alpha", lambda v: tt.adjust_fdr(res, alpha=v), ("cfg_auto", "alpha"),
                ("opt_domain", "alpha"), None))
    out.append(("adjust_fwer", "alpha", lambda v: tt.adjust_fwer(res, alpha=v), ("cfg_auto", "alpha"),
                ("opt_domain", "alpha"), None))
    out.append(("adjust_fwer", "method", lambda v: tt.adjust_fwer(res, method=v), ("scalar", "adjust_fwer_method"),
                ("oneOf", ["sidak", "bonferroni"]), None))
    out.append(("adjust_fdr", "arbitrary_dependence", lambda v: tt.adjust_fdr(res, arbitrary_dependence=v),
                ("scalar", "adjust_fdr_arbitrary_dependence"), ("kind", "isBool"), None))
    out.append(("make_data", "ratio", lambda v: tt.make_users_data(n_users=20, seed=1, ratio=v),
                ("scalar", "make_data_ratio"), ("kind", "posNumber_finite"), None))
    out.append(("make_data", "avg_orders_per_session",
                lambda v: tt.make_users_data(n_users=20, seed=1, avg_orders_per_session=v, orders_uplift=0.0),
                ("scalar", "make_data_avg_orders_per_session"), ("domain", "alpha"), None))
    out.append(("Experiment", "variant", lambda v: tt.Experiment(m=tt.Mean("x"), variant=v),
                ("scalar", "Experiment_variant"), ("kind", "isStr"), "variant"))
    agg = tt.aggr.Aggregates(100, {"x": 1.0}, {"x": 1.0}, {})
    out.append(("solve_power", "parameter",
                lambda v: tt.Mean("x", rel_effect_size=0.1, n_obs=1000).solve_power(agg, v) if v != "n_obs"
                else tt.Mean("x", rel_effect_size=0.1).solve_power(agg, v),
                ("scalar", "solve_power_parameter"), ("oneOf", ["power", "effect_size", "rel_effect_size", "n_obs"]),
                None))
    return out


def model_query(rule, v):
    """list of driver lines whose outcomes are combined by `model_combine`"""
    w = to_wire(v)
    k = rule[0]
    if k == "cfg_auto" or k == "none_auto":
        return [] if v is None else [f"auto {rule[1]} {w}"]
    if k == "auto":
        return [f"auto {rule[1]} {w}"]
    if k == "scalar":
        return [f"scalar {rule[1]} {w}"]
    if k == "effect":
        if v is None:
            return []
        if is_py_seq(v):
            return [f"scalarEach {rule[1]}_each {w}"]
        return [f"scalar {rule[1]} {w}"]
    if k == "sr_ratio":
        if isinstance(v, dict):
            return [f"autoEach ratio {to_wire(list(v.values()))}"]
        return [f"auto ratio {w}"]
    raise ValueError(rule)


def spec_query(rule, v):
    w = to_wire(v)
    k = rule[0]
    if k == "opt_domain":
        return [] if v is None else [f"domain {rule[1]} {w}"]
    if k == "domain":
        return [f"domain {rule[1]} {w}"]
    if k == "kind":
        if rule[1] == "posNumber_finite":
            return [f"kind posNumber {w}"]
        return [f"kind {rule[1]} {w}"]
    if k == "oneOf":
        return [f"oneOf {len(rule[1])} {' '.join(rule[1])} {w}"]
    if k == "effect":
        if v is None:
            return []
        if is_py_seq(v):
            return [f"kind finiteNonzero {to_wire(x)}" for x in v]
        return [f"kind finiteNonzero {w}"]
    if k == "sr_ratio":
        if isinstance(v, dict):
            return [f"domain ratio {to_wire(x)}" for x in v.values()]
        return [f"domain ratio {w}"]
    raise ValueError(rule)


def main():
    chk = Check(PROP)
    chk.trusted = common.BASE_TRUST + [
        "hand-written Lean model of Python comparison / isinstance semantics on the value universe PyVal "
        "(None, bool, int, float incl. nan/inf, str, sequence, other) — validated by this exhaustive grid",
        "the dispatch of each constructor around its checks (None -> configuration default, Sequence -> element-wise, "
        "dict -> values) is mirrored by harness/props/c19.py (`model_query`), the checks themselves are generated",
        "numpy.float64 is a float subclass (-> float); numpy.int64 is not an int (-> other)",
    ]
    chk.assumptions = ["documented domains as written in Props/C19.lean from the docstrings; an empty sequence (and the "
                       "empty string, which Python counts as a Sequence) is vacuously a sequence of valid elements"]
    proved = chk.prove(extra_targets=["TeaTasting.Driver.PyWire"])
    ents = entries()
    P = probes()
    mlines, slines, index = [], [], []
    for ei, (ent, p, call, mrule, srule, attr) in enumerate(ents):
        for pi, v in enumerate(P):
            if ent == "solve_power" and isinstance(v, (list, dict)):
                continue       # unhashable probe against a set: Python raises TypeError before any comparison
            if isinstance(v, dict) and mrule[0] != "sr_ratio" and v:
                continue
            mq, sq = model_query(mrule, v), spec_query(srule, v)
            index.append((ei, pi, len(mq), len(sq)))
            mlines += mq
            slines += sq
    with common.Lock():
        common.lake_build(["TeaTasting.Spec.Domains", "TeaTasting.Driver.PyWire"])
    sout = Driver("DriverDomains.lean").ask(slines)
    with common.Lock():
        ok, _ = common.lake_build(["TeaTasting.Gen.Utils", "TeaTasting.Driver.PyWire"])
        if not ok:
            chk.notes.append("regenerated Gen/Utils does not type-check; correspondence uses the snapshot model")
            common.use_snapshot()
            chk.cov["driver_model"] = "snapshot"
            common.lake_build(["TeaTasting.Gen.Utils", "TeaTasting.Driver.PyWire"])
    mout = Driver("DriverUtils.lean").ask(mlines)
    mpos = spos = 0
    n_acc = n_rej = 0
    verdicts = {}
    for ei, pi, nm, ns in index:
        ent, p, call, mrule, srule, attr = ents[ei]
        v = P[pi]
        mo, so = mout[mpos:mpos + nm], sout[spos:spos + ns]
        mpos += nm
        spos += ns
        model = next((o for o in mo if o != "ok"), "ok")
        if srule[0] == "kind" and srule[1] == "posNumber_finite" and isinstance(v, float) and math.isinf(v):
            so = ["out"]        # make_users_data documents a finite ratio: +inf cannot split users
        spec_in = all(o == "in" for o in so)
        try:
            obj = call(v)
            real = "ok"
        except TypeError:
            real, obj = "TypeError", None
        except ValueError:
            real, obj = "ValueError", None
        except Exception as ex:  # noqa: BLE001
            real, obj = f"Other:{type(ex).__name__}", None
        verdicts[(ei, pi)] = real
        chk.case((ent, p, to_wire(v)))
        chk.branch(f"real:{real.split(':')[0]}")
        n_acc += real == "ok"
        n_rej += real != "ok"
        inp = dict(entry=ent, parameter=p, value=repr(v), wire=to_wire(v))
        if ent == "make_data":
            # _check_params evaluates bounds of OTHER parameters from this one before its own check, so the
            # exception class depends on statement order; only accepted / rejected is compared
            agree = (real == "ok") == (model == "ok") or (real != "ok" and isinstance(v, float) and math.isinf(v))
        else:
            agree = real == model
        if not agree:
            chk.disagree(f"{ent}({p}=…): real outcome {real}, generated model {model}", dict(input=inp))
        if (real == "ok") != spec_in:
            chk.fail(f"{ent}({p}={v!r}) is {'accepted' if real == 'ok' else 'rejected (' + real + ')'} but the value is "
                     f"{'inside' if spec_in else 'outside'} the documented domain", dict(input=inp, model=model))
        if real == "ok" and attr is not None and obj is not None and v is not None:
            stored = getattr(obj, attr, None)
            if not (stored is v or stored == v):
                chk.fail(f"{ent}: attribute {attr} holds {stored!r} after passing {v!r}", dict(input=inp))
        if real == "ok" and isinstance(obj, tuple) and obj[0] == "cfgval" and v is not None:
            if not (obj[1] is v or obj[1] == v):
                chk.fail(f"{ent}: configuration option {p} holds {obj[1]!r} after setting {v!r}", dict(input=inp))
        if len(chk.cov["samples"]) < 6 and pi in (5, 25, 40):
            chk.sample(dict(**inp, real=real, model=model, in_domain=spec_in))
    # acceptance is a function of the VALUE: the same grid once more, every parameter's probes in the opposite order (so that
    # every invalid value now comes after other, equal-looking valid ones and vice versa) must give the same verdicts
    changed = 0
    for ei, pi, _, _ in reversed(index):
        ent, p, call, mrule, srule, attr = ents[ei]
        v = P[pi]
        try:
            call(v)
            again = "ok"
        except TypeError:
            again = "TypeError"
        except ValueError:
            again = "ValueError"
        except Exception as ex:  # noqa: BLE001
            again = f"Other:{type(ex).__name__}"
        if again != verdicts[(ei, pi)]:
            changed += 1
            if changed <= 5:
                chk.fail(f"{ent}({p}={v!r}): the verdict for the same value depends on which values were validated before "
                         f"({verdicts[(ei, pi)]} the first time, {again} later)",
                         dict(input=dict(entry=ent, parameter=p, value=repr(v)), first=verdicts[(ei, pi)], later=again))
    chk.branch(f"second-pass-verdicts-changed:{changed}")
    chk.cov["exhaustive"] = True
    chk.cov["grid"] = dict(entry_params=len(ents), probes=len(P), accepted=n_acc, rejected=n_rej)
    chk.cov["rule"] = ("exhaustive product: every (entry point, parameter) of the table x every probe value (each type "
                       "class incl. bool-as-int, numpy scalars, boundaries, nextafter inside/outside, NaN, +-inf, "
                       "sequences with one bad element, empty sequences, strings); distinct = (entry, parameter, value)")
    chk.cov["proved"] = proved
    chk.finish()


def replay(path):
    print(open(path).read()[:4000])
    main()
